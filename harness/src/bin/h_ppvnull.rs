#![allow(dead_code)]
//! C19: runs every public method / operator impl of the five ppv-null types on
//! generated operands under `catch_unwind` and writes the cases (with the
//! implementation's outcome) as Coq terms of type `nvcase` (coq/Run/PpvNull.v).
//!
//! usage: h_ppvnull c19 --seed N --shards K --out DIR [--tier quick|thorough]
#[path = "../util.rs"]
mod util;
use crypto_simd_01::{RotateWordsRight, SplatRotateRight};
use ppv_null::{u128x1, u128x2, u32x4, u32x4x4, u64x4};
use std::collections::{BTreeMap, HashSet};
use std::panic::{catch_unwind, AssertUnwindSafe};
use util::*;

#[derive(Clone, Copy, PartialEq, Eq, Hash, Debug)]
enum Ty {
    U32x4,
    U64x4,
    U128x1,
    U128x2,
    U32x4x4,
}
use Ty::*;

impl Ty {
    fn name(self) -> &'static str {
        match self {
            U32x4 => "U32x4",
            U64x4 => "U64x4",
            U128x1 => "U128x1",
            U128x2 => "U128x2",
            U32x4x4 => "U32x4x4",
        }
    }
    fn width(self) -> u32 {
        match self {
            U32x4 | U32x4x4 => 32,
            U64x4 => 64,
            U128x1 | U128x2 => 128,
        }
    }
    fn lanes(self) -> usize {
        match self {
            U32x4 | U64x4 => 4,
            U128x1 => 1,
            U128x2 => 2,
            U32x4x4 => 16,
        }
    }
    fn mask(self) -> u128 {
        if self.width() == 128 {
            u128::MAX
        } else {
            (1u128 << self.width()) - 1
        }
    }
    fn ops(self) -> &'static [&'static str] {
        match self {
            U32x4 | U64x4 => &[
                "ONew", "ORotr", "OLoad", "OStore", "OSplat", "OReplace", "OExtract", "OAddAssign",
                "OXorAssign", "OAdd", "OXor", "OOr", "OAnd", "ORotWords", "OSplatRotr",
            ],
            U128x1 => &[
                "ONew", "ORotr", "OLoad", "OXorStore", "OIntoInner", "OSwap1", "OSwap2", "OSwap4",
                "OSwap8", "OSwap16", "OSwap32", "OSwap64", "OAndNot", "OExtract", "OAddAssign",
                "OXorAssign", "OXor", "OAnd", "ONot",
            ],
            U128x2 => &[
                "ONew", "ORotr", "OLoad", "OXorStore", "OExtract", "OAndNot", "OAddAssign",
                "OXorAssign", "OAnd", "ONot", "OOr",
            ],
            U32x4x4 => &[
                "ONew", "OSplat", "OIntoParts", "OXor", "OOr", "OAnd", "OAdd", "OXorAssign",
                "OAddAssign", "ORotWords", "OSplatRotr",
            ],
        }
    }
}

// ---------------------------------------------------------------------------
// running the implementation
// ---------------------------------------------------------------------------

macro_rules! exec_v4 {
    ($T:ident, $W:ty, $op:expr, $a:expr, $b:expr, $i:expr) => {{
        let a: Vec<$W> = $a.iter().map(|&x| x as $W).collect();
        let b: Vec<$W> = $b.iter().map(|&x| x as $W).collect();
        let i: u128 = $i;
        let mk = |v: &[$W]| $T::new(v[0], v[1], v[2], v[3]);
        let lanes = |v: $T| -> Vec<u128> { (0..4).map(|k| v.extract(k) as u128).collect() };
        match $op {
            // the constructed value is read back through an explicit `Clone::clone` (a manual impl
            // replacing the derive is observed); the other operations read the value itself
            "ONew" => {
                let v = mk(&a);
                #[allow(clippy::clone_on_copy)]
                let c = Clone::clone(&v);
                let _ = v;
                lanes(c)
            }
            "ORotr" => {
                // returns the rotated vector; `self` (taken by &mut) must stay as it was
                let mut s = mk(&a);
                let r = s.rotate_right(mk(&b));
                if lanes(s) != lanes(mk(&a)) {
                    return vec![]; // (leaves the closure) differs from every model result
                }
                lanes(r)
            }
            "OLoad" => lanes($T::from_slice_unaligned(&b)),
            "OStore" => {
                let mut xs = b.clone();
                mk(&a).write_to_slice_unaligned(&mut xs);
                xs.iter().map(|&x| x as u128).collect()
            }
            "OSplat" => lanes($T::splat(i as $W)),
            "OReplace" => lanes(mk(&a).replace(i as usize, b[0])),
            "OExtract" => vec![mk(&a).extract(i as usize) as u128],
            "OAddAssign" => {
                let mut s = mk(&a);
                s += mk(&b);
                lanes(s)
            }
            "OXorAssign" => {
                let mut s = mk(&a);
                s ^= mk(&b);
                lanes(s)
            }
            "OAdd" => lanes(mk(&a) + mk(&b)),
            "OXor" => lanes(mk(&a) ^ mk(&b)),
            "OOr" => lanes(mk(&a) | mk(&b)),
            "OAnd" => lanes(mk(&a) & mk(&b)),
            "ORotWords" => lanes(mk(&a).rotate_words_right(i as u32)),
            "OSplatRotr" => lanes(mk(&a).splat_rotate_right(i as u32)),
            other => panic!("harness: no op {} for vec4", other),
        }
    }};
}

fn exec_v1(op: &str, a: &[u128], b: &[u128], i: u128) -> Vec<u128> {
    let s = u128x1::new(a[0]);
    match op {
        "ONew" => {
            #[allow(clippy::clone_on_copy)]
            let c = Clone::clone(&s);
            vec![c.into_inner()]
        }
        "ORotr" => {
            let mut s = s;
            s.rotate_right(i);
            vec![s.into_inner()]
        }
        "OLoad" => vec![u128x1::load(b).into_inner()],
        "OXorStore" => {
            let mut xs = b.to_vec();
            s.xor_store(&mut xs);
            xs
        }
        "OIntoInner" => vec![s.into_inner()],
        "OSwap1" => vec![s.swap1().into_inner()],
        "OSwap2" => vec![s.swap2().into_inner()],
        "OSwap4" => vec![s.swap4().into_inner()],
        "OSwap8" => vec![s.swap8().into_inner()],
        "OSwap16" => vec![s.swap16().into_inner()],
        "OSwap32" => vec![s.swap32().into_inner()],
        "OSwap64" => vec![s.swap64().into_inner()],
        "OAndNot" => vec![s.andnot(u128x1::new(b[0])).into_inner()],
        "OExtract" => vec![s.extract(i as u32)],
        "OAddAssign" => {
            let mut s = s;
            s += u128x1::new(b[0]);
            vec![s.into_inner()]
        }
        "OXorAssign" => {
            let mut s = s;
            s ^= u128x1::new(b[0]);
            vec![s.into_inner()]
        }
        "OXor" => vec![(s ^ u128x1::new(b[0])).into_inner()],
        "OAnd" => vec![(s & u128x1::new(b[0])).into_inner()],
        "ONot" => vec![(!s).into_inner()],
        other => panic!("harness: no op {} for u128x1", other),
    }
}

fn exec_v2(op: &str, a: &[u128], b: &[u128], i: u128) -> Vec<u128> {
    let mk = |v: &[u128]| u128x2::new(v[0], v[1]);
    let lanes = |v: u128x2| vec![v.extract(0), v.extract(1)];
    match op {
        "ONew" => {
            let v = mk(a);
            #[allow(clippy::clone_on_copy)]
            let c = Clone::clone(&v);
            let _ = v;
            lanes(c)
        }
        "ORotr" => {
            let mut s = mk(a);
            s.rotate_right(i);
            lanes(s)
        }
        "OLoad" => lanes(u128x2::load(b)),
        "OXorStore" => {
            let mut xs = b.to_vec();
            mk(a).xor_store(&mut xs);
            xs
        }
        "OExtract" => vec![mk(a).extract(i as u32)],
        "OAndNot" => lanes(mk(a).andnot(mk(b))),
        "OAddAssign" => {
            let mut s = mk(a);
            s += mk(b);
            lanes(s)
        }
        "OXorAssign" => {
            let mut s = mk(a);
            s ^= mk(b);
            lanes(s)
        }
        "OAnd" => lanes(mk(a) & mk(b)),
        "ONot" => lanes(!mk(a)),
        "OOr" => lanes(mk(a) | mk(b)),
        other => panic!("harness: no op {} for u128x2", other),
    }
}

fn exec_x44(op: &str, a: &[u128], b: &[u128], i: u128) -> Vec<u128> {
    let p = |v: &[u128], k: usize| u32x4::new(v[4 * k] as u32, v[4 * k + 1] as u32, v[4 * k + 2] as u32, v[4 * k + 3] as u32);
    let mk = |v: &[u128]| u32x4x4::from((p(v, 0), p(v, 1), p(v, 2), p(v, 3)));
    let lanes = |v: u32x4x4| -> Vec<u128> {
        let (x, y, z, w) = v.into_parts();
        let mut o = Vec::with_capacity(16);
        for q in [x, y, z, w] {
            for k in 0..4 {
                o.push(q.extract(k) as u128);
            }
        }
        o
    };
    match op {
        "ONew" => {
            let v = mk(a);
            #[allow(clippy::clone_on_copy)]
            let c = Clone::clone(&v);
            let _ = v;
            lanes(c)
        }
        "OSplat" => lanes(u32x4x4::splat(p(a, 0))),
        "OIntoParts" => lanes(mk(a)),
        "OXor" => lanes(mk(a) ^ mk(b)),
        "OOr" => lanes(mk(a) | mk(b)),
        "OAnd" => lanes(mk(a) & mk(b)),
        "OAdd" => lanes(mk(a) + mk(b)),
        "OXorAssign" => {
            let mut s = mk(a);
            s ^= mk(b);
            lanes(s)
        }
        "OAddAssign" => {
            let mut s = mk(a);
            s += mk(b);
            lanes(s)
        }
        "ORotWords" => lanes(mk(a).rotate_words_right(i as u32)),
        "OSplatRotr" => lanes(mk(a).splat_rotate_right(i as u32)),
        other => panic!("harness: no op {} for u32x4x4", other),
    }
}

fn exec(ty: Ty, op: &str, a: &[u128], b: &[u128], i: u128) -> Option<Vec<u128>> {
    catch_unwind(AssertUnwindSafe(|| match ty {
        U32x4 => exec_v4!(u32x4, u32, op, a, b, i),
        U64x4 => exec_v4!(u64x4, u64, op, a, b, i),
        U128x1 => exec_v1(op, a, b, i),
        U128x2 => exec_v2(op, a, b, i),
        U32x4x4 => exec_x44(op, a, b, i),
    }))
    .ok()
}

// ---------------------------------------------------------------------------
// operand streams
// ---------------------------------------------------------------------------

/// vector with exactly bit `k` (counted over the whole vector, lane 0 first) set
fn walking(ty: Ty, n: usize, k: usize) -> Vec<u128> {
    let w = ty.width() as usize;
    let mut v = vec![0u128; n];
    v[k / w] = 1u128 << (k % w);
    v
}

/// bytes 00 01 02 ... in memory order (little-endian lanes), starting at `start`
fn byte_index(ty: Ty, n: usize, start: u8, step: i16) -> Vec<u128> {
    let wb = (ty.width() / 8) as usize;
    let mut v = Vec::new();
    let mut c = start as i16;
    for _ in 0..n {
        let mut x = 0u128;
        for j in 0..wb {
            x |= ((c as u8) as u128) << (8 * j);
            c = (c + step) & 0xff;
        }
        v.push(x);
    }
    v
}

fn rand_lane(ty: Ty, rng: &mut Rng) -> u128 {
    let m = ty.mask();
    let w = ty.width() as u64;
    match rng.below(9) {
        0 => 0,
        1 => m,
        2 => 1u128 << rng.below(w),
        3 => m - rng.below(4) as u128,
        4 => m >> 1,
        5 => (1u128 << (w - 1)) + rng.below(3) as u128,
        _ => rng.u128() & m,
    }
}

fn rand_vec(ty: Ty, n: usize, rng: &mut Rng) -> Vec<u128> {
    if rng.chance(1, 2) {
        (0..n).map(|_| rng.u128() & ty.mask()).collect()
    } else {
        (0..n).map(|_| rand_lane(ty, rng)).collect()
    }
}

/// the fixed part of every vector stream
fn basics(ty: Ty, n: usize, rng: &mut Rng, nrand: usize) -> Vec<Vec<u128>> {
    let m = ty.mask();
    let mut v = vec![
        vec![0; n],
        vec![m; n],
        byte_index(ty, n, 0, 1),
        byte_index(ty, n, 0xff, -1),
        (0..n).map(|k| if k % 2 == 0 { m } else { 0 }).collect(),
        (0..n).map(|k| m - k as u128).collect(),
        vec![1; n],
        vec![m >> 1; n],
        vec![(m >> 1) + 1; n],
    ];
    for _ in 0..nrand {
        v.push(rand_vec(ty, n, rng));
    }
    v
}

struct Gen {
    rng: Rng,
    thorough: bool,
    out: Vec<(Ty, &'static str, Vec<u128>, Vec<u128>, u128)>,
}

impl Gen {
    fn push(&mut self, ty: Ty, op: &'static str, a: Vec<u128>, b: Vec<u128>, i: u128) {
        self.out.push((ty, op, a, b, i));
    }
    fn nrand(&self) -> usize {
        if self.thorough {
            60
        } else {
            8
        }
    }

    /// one-vector operations; `as_b`: the vector is the slice argument
    fn unary(&mut self, ty: Ty, op: &'static str, n: usize, as_b: bool) {
        let nr = self.nrand();
        let mut vs = basics(ty, n, &mut self.rng, nr);
        // u32x4x4 only forwards to u32x4 (exercised exhaustively): in the quick tier its
        // walking-one stream uses a stride coprime to 32 (every bit position and every lane still occur)
        let st1 = if !self.thorough && ty == U32x4x4 { 3 } else { 1 };
        for k in (0..n * ty.width() as usize).step_by(st1) {
            vs.push(walking(ty, n, k));
        }
        // walking zero (complement) at a stride
        for k in (0..n * ty.width() as usize).step_by(if self.thorough { 1 } else { 5 }) {
            vs.push(walking(ty, n, k).iter().map(|x| !x & ty.mask()).collect());
        }
        for v in vs {
            if as_b {
                let a = vec![0; ty.lanes()];
                self.push(ty, op, a, v, 0);
            } else {
                self.push(ty, op, v, vec![], 0);
            }
        }
    }

    fn binary(&mut self, ty: Ty, op: &'static str) {
        let n = ty.lanes();
        let m = ty.mask();
        let bits = n * ty.width() as usize;
        let arith = op == "OAdd" || op == "OAddAssign";
        let stride = if self.thorough {
            1
        } else if ty == U32x4x4 {
            7 // coprime to 32: all 32 bit positions and all 16 lanes occur
        } else if arith {
            1
        } else {
            3
        };
        let ones = vec![m; n];
        let one = vec![1u128; n];
        // carry chains: 0xffffffff + 1 per lane, MAX + MAX, (MAX-1) + 1, high bits
        self.push(ty, op, ones.clone(), one.clone(), 0);
        self.push(ty, op, one.clone(), ones.clone(), 0);
        self.push(ty, op, ones.clone(), ones.clone(), 0);
        self.push(ty, op, vec![m - 1; n], one.clone(), 0);
        self.push(ty, op, vec![(m >> 1) + 1; n], vec![(m >> 1) + 1; n], 0);
        self.push(ty, op, vec![m >> 1; n], one.clone(), 0);
        self.push(ty, op, byte_index(ty, n, 0, 1), byte_index(ty, n, 0xff, -1), 0);
        self.push(ty, op, byte_index(ty, n, 0x80, 1), byte_index(ty, n, 0x80, 1), 0);
        // a single lane carrying, the others not (a carry must not leak into the neighbour)
        for k in 0..n {
            let mut a = vec![0u128; n];
            a[k] = m;
            self.push(ty, op, a.clone(), one.clone(), 0);
            let mut b = vec![0u128; n];
            b[k] = 1;
            self.push(ty, op, ones.clone(), b, 0);
        }
        let r1 = rand_vec(ty, n, &mut self.rng);
        for k in (0..bits).step_by(stride) {
            let wk = walking(ty, n, k);
            self.push(ty, op, wk.clone(), ones.clone(), 0);
            self.push(ty, op, wk.clone(), wk.clone(), 0);
            if self.thorough || k % 2 == 0 {
                self.push(ty, op, r1.clone(), wk.clone(), 0);
            }
            if self.thorough || k % 4 == 0 {
                self.push(ty, op, ones.clone(), wk.clone(), 0);
                self.push(ty, op, wk.clone(), vec![0; n], 0);
                // all ones below bit k of the lane + 1: the longest carry chain ending at k
                let w = ty.width() as usize;
                let mut a = vec![0u128; n];
                a[k / w] = (1u128 << (k % w)) - 1;
                let mut b = vec![0u128; n];
                b[k / w] = 1;
                self.push(ty, op, a, b, 0);
            }
        }
        let nr = self.nrand() * 2;
        for _ in 0..nr {
            let a = rand_vec(ty, n, &mut self.rng);
            let b = rand_vec(ty, n, &mut self.rng);
            self.push(ty, op, a, b, 0);
        }
    }

    /// a few vectors that make a rotation / permutation error visible on one case
    fn probes(&mut self, ty: Ty, n: usize, extra_rand: usize) -> Vec<Vec<u128>> {
        let m = ty.mask();
        let w = ty.width();
        let mut v = vec![
            byte_index(ty, n, 0, 1),
            vec![1; n],
            vec![1u128 << (w - 1); n],
            vec![m - 1; n],
            (0..n).map(|k| (k as u128 + 1) | (0xa5u128 << (w - 8))).collect(),
        ];
        for _ in 0..extra_rand {
            v.push((0..n).map(|_| self.rng.u128() & m).collect());
        }
        v
    }

    fn amounts_big(&self, ty: Ty) -> Vec<u128> {
        let w = ty.width() as u128;
        let mut v = vec![w + 1, 2 * w, 2 * w - 1, 0xffff_ffff, 0xffff_fffe, 0x8000_0000];
        if ty.width() >= 64 {
            v.extend([1u128 << 32, (1u128 << 32) + 5, (1u128 << 63) + 7, u64::MAX as u128]);
        }
        if ty.width() == 128 {
            v.extend([(1u128 << 64) + 3, (1u128 << 100) + 9, u128::MAX, u128::MAX - 1]);
        }
        v
    }

    fn all(&mut self) {
        // minimised past failure first: N1 (u128x1 += with a carry out of bit 127)
        self.push(U128x1, "OAddAssign", vec![u128::MAX], vec![1], 0);
        self.push(U128x1, "OAddAssign", vec![1u128 << 127], vec![1u128 << 127], 0);
        for ty in [U32x4, U64x4, U128x1, U128x2, U32x4x4] {
            let n = ty.lanes();
            let w = ty.width() as u128;
            let m = ty.mask();
            for &op in ty.ops() {
                match op {
                    "ONew" | "OIntoInner" | "OIntoParts" | "ONot" | "OSwap1" | "OSwap2" | "OSwap4"
                    | "OSwap8" | "OSwap16" | "OSwap32" | "OSwap64" => self.unary(ty, op, n, false),
                    "OLoad" => {
                        self.unary(ty, op, n, true);
                        // outside the contract: slice too long / too short / empty
                        for len in [n + 1, n - 1, 0, n + 3] {
                            let b = byte_index(ty, len, 1, 1);
                            self.push(ty, op, vec![0; n], b, 0);
                        }
                    }
                    "OStore" | "OXorStore" => {
                        let nr = self.nrand();
                        let mut vs = basics(ty, n, &mut self.rng, nr);
                        for k in 0..n * ty.width() as usize {
                            vs.push(walking(ty, n, k));
                        }
                        for (j, a) in vs.into_iter().enumerate() {
                            let b = match j % 4 {
                                0 => vec![0; n],
                                1 => vec![m; n],
                                2 => byte_index(ty, n, 0x40, 3),
                                _ => rand_vec(ty, n, &mut self.rng),
                            };
                            self.push(ty, op, a, b, 0);
                        }
                        for len in [n + 1, n - 1, 0, n + 2] {
                            let b = byte_index(ty, len, 1, 1);
                            self.push(ty, op, byte_index(ty, n, 0x80, 1), b, 0);
                        }
                    }
                    "OSplat" => {
                        if ty == U32x4x4 {
                            self.unary(ty, op, 4, false);
                        } else {
                            let mut xs = vec![0, m, 1, m - 1, m >> 1, (m >> 1) + 1, byte_index(ty, 1, 1, 1)[0]];
                            for k in 0..ty.width() {
                                xs.push(1u128 << k);
                            }
                            for _ in 0..self.nrand() {
                                xs.push(self.rng.u128() & m);
                            }
                            for x in xs {
                                self.push(ty, op, vec![], vec![], x);
                            }
                        }
                    }
                    "OReplace" | "OExtract" => {
                        let ps = self.probes(ty, n, 3);
                        let mut idx: Vec<u128> = (0..n as u128).collect();
                        // out of range
                        idx.extend([n as u128, n as u128 + 1, 7, 0xffff_ffff]);
                        if n == 4 {
                            // `usize` indices (u32x4 / u64x4): values that a narrowing to 32 or 8 bits
                            // would fold back into range; the u128 types take `u32` (nothing above)
                            idx.extend([1u128 << 32, (1u128 << 32) + 1, 256, 257, (1u128 << 63) + 2]);
                        } else {
                            idx.extend([256, 257, 0x1_0000, 0x8000_0000]);
                        }
                        for a in ps {
                            for &i in &idx {
                                if op == "OReplace" {
                                    for v in [0u128, m, byte_index(ty, 1, 0xe0, 1)[0], self.rng.u128() & m] {
                                        self.push(ty, op, a.clone(), vec![v], i);
                                    }
                                } else {
                                    self.push(ty, op, a.clone(), vec![], i);
                                }
                            }
                        }
                        // every lane distinguishable from every other, all-ones / zero backgrounds
                        for i in 0..n as u128 {
                            for bg in [0u128, m] {
                                let mut a = vec![bg; n];
                                a[i as usize] = !bg & m;
                                self.push(ty, op, a.clone(), if op == "OReplace" { vec![bg ^ 0x5a] } else { vec![] }, i);
                                self.push(ty, op, a, if op == "OReplace" { vec![bg ^ 0x5a] } else { vec![] }, (i + 1) % n as u128);
                            }
                        }
                    }
                    "OAndNot" | "OAddAssign" | "OXorAssign" | "OAdd" | "OXor" | "OOr" | "OAnd" => self.binary(ty, op),
                    "ORotr" => {
                        let mut ps = self.probes(ty, n, if self.thorough { 6 } else { 1 });
                        if !self.thorough {
                            // quick tier: byte-index pattern, top bit, distinct lanes + marker, one random
                            ps = vec![ps[0].clone(), ps[2].clone(), ps[4].clone(), ps[5].clone()];
                        }
                        let mut amts: Vec<u128> = (0..=w).collect();
                        amts.extend(self.amounts_big(ty));
                        for a in &ps {
                            for &r in &amts {
                                let r = r & m;
                                if n == 4 {
                                    // per-lane amounts: splat, and four different ones
                                    self.push(ty, op, a.clone(), vec![r; 4], 0);
                                    let mixed: Vec<u128> = (0..4u128).map(|k| (r + 7 * k) & m).collect();
                                    self.push(ty, op, a.clone(), mixed, 0);
                                } else {
                                    self.push(ty, op, a.clone(), vec![], r);
                                }
                            }
                        }
                    }
                    "OSplatRotr" => {
                        let ps = self.probes(ty, n, if self.thorough { 6 } else { 2 });
                        for a in &ps {
                            for r in 1..w {
                                self.push(ty, op, a.clone(), vec![], r);
                            }
                        }
                        // outside the stated range: 0, bits, beyond
                        for a in ps.iter().take(3) {
                            for r in [0, w, w + 1, 2 * w, 2 * w + 3, 0xffff_ffff, 0x8000_0001] {
                                self.push(ty, op, a.clone(), vec![], r);
                            }
                        }
                    }
                    "ORotWords" => {
                        let mut ps = self.probes(ty, n, 4);
                        for k in 0..n {
                            let mut v = vec![0u128; n];
                            v[k] = m;
                            ps.push(v);
                        }
                        for a in &ps {
                            for r in [0u128, 1, 2, 3] {
                                self.push(ty, op, a.clone(), vec![], r);
                            }
                        }
                        for a in ps.iter().take(2) {
                            for r in [4u128, 5, 6, 7, 8, 0xffff_ffff, 0x8000_0002] {
                                self.push(ty, op, a.clone(), vec![], r);
                            }
                        }
                    }
                    other => panic!("harness: generator missing for {}", other),
                }
            }
        }
    }
}

// ---------------------------------------------------------------------------

fn coq_list(v: &[u128]) -> String {
    let xs: Vec<String> = v.iter().map(|&x| nlit_u128(x)).collect();
    format!("[{}]", xs.join(";"))
}
fn json_list(v: &[u128]) -> String {
    let xs: Vec<String> = v.iter().map(|&x| format!("\"0x{:x}\"", x)).collect();
    format!("[{}]", xs.join(","))
}

/// Are integer overflow checks compiled in?  (observed, not assumed)
#[inline(never)]
fn overflow_checks_on() -> bool {
    let x: u8 = std::hint::black_box(255);
    catch_unwind(|| {
        let y: u8 = std::hint::black_box(1);
        x + y
    })
    .is_err()
}

// ---------------------------------------------------------------------------------------------
// Which `core::ops` / comparison traits does each of the five types implement? Decided by the
// compiler (inherent associated const shadows the blanket trait const), not by reading source text:
// an operator implementation ADDED to ppv-null is a public operation outside the model and the runs.
// ---------------------------------------------------------------------------------------------
trait ProbeNo {
    const YES: bool = false;
}
impl<T: ?Sized> ProbeNo for T {}
macro_rules! probe_trait {
    ($name:ident, $($bound:tt)+) => {
        struct $name<T>(core::marker::PhantomData<T>);
        impl<T: $($bound)+> $name<T> {
            const YES: bool = true;
        }
    };
}
probe_trait!(PAdd, core::ops::Add);
probe_trait!(PSub, core::ops::Sub);
probe_trait!(PMul, core::ops::Mul);
probe_trait!(PDiv, core::ops::Div);
probe_trait!(PRem, core::ops::Rem);
probe_trait!(PNeg, core::ops::Neg);
probe_trait!(PNot, core::ops::Not);
probe_trait!(PBitAnd, core::ops::BitAnd);
probe_trait!(PBitOr, core::ops::BitOr);
probe_trait!(PBitXor, core::ops::BitXor);
probe_trait!(PShl, core::ops::Shl<u32>);
probe_trait!(PShr, core::ops::Shr<u32>);
probe_trait!(PAddAssign, core::ops::AddAssign);
probe_trait!(PSubAssign, core::ops::SubAssign);
probe_trait!(PMulAssign, core::ops::MulAssign);
probe_trait!(PBitAndAssign, core::ops::BitAndAssign);
probe_trait!(PBitOrAssign, core::ops::BitOrAssign);
probe_trait!(PBitXorAssign, core::ops::BitXorAssign);
probe_trait!(PShlAssign, core::ops::ShlAssign<u32>);
probe_trait!(PShrAssign, core::ops::ShrAssign<u32>);
probe_trait!(PIndex, core::ops::Index<usize>);
probe_trait!(PPartialEq, PartialEq);
probe_trait!(PPartialOrd, PartialOrd);
probe_trait!(PDefault, Default);
probe_trait!(PClone, Clone);
probe_trait!(PCopy, Copy);
probe_trait!(PHash, core::hash::Hash);
probe_trait!(PRotWords, RotateWordsRight);
probe_trait!(PSplatRot, SplatRotateRight);
probe_trait!(PFromU128, From<u128>);
probe_trait!(PIntoU128, Into<u128>);
macro_rules! ops_of {
    ($t:ty) => {{
        let mut v: Vec<&'static str> = Vec::new();
        macro_rules! one {
            ($p:ident, $n:expr) => {
                if <$p<$t>>::YES {
                    v.push($n);
                }
            };
        }
        one!(PAdd, "Add"); one!(PSub, "Sub"); one!(PMul, "Mul"); one!(PDiv, "Div"); one!(PRem, "Rem"); one!(PNeg, "Neg");
        one!(PNot, "Not"); one!(PBitAnd, "BitAnd"); one!(PBitOr, "BitOr"); one!(PBitXor, "BitXor"); one!(PShl, "Shl<u32>");
        one!(PShr, "Shr<u32>"); one!(PAddAssign, "AddAssign"); one!(PSubAssign, "SubAssign"); one!(PMulAssign, "MulAssign");
        one!(PBitAndAssign, "BitAndAssign"); one!(PBitOrAssign, "BitOrAssign"); one!(PBitXorAssign, "BitXorAssign");
        one!(PShlAssign, "ShlAssign<u32>"); one!(PShrAssign, "ShrAssign<u32>"); one!(PIndex, "Index<usize>");
        one!(PPartialEq, "PartialEq"); one!(PPartialOrd, "PartialOrd"); one!(PDefault, "Default"); one!(PClone, "Clone");
        one!(PCopy, "Copy"); one!(PHash, "Hash"); one!(PRotWords, "RotateWordsRight"); one!(PSplatRot, "SplatRotateRight");
        one!(PFromU128, "From<u128>"); one!(PIntoU128, "Into<u128>");
        v
    }};
}
fn implemented_traits_json() -> String {
    let q = |v: Vec<&'static str>| -> String { format!("[{}]", v.iter().map(|s| format!("\"{}\"", s)).collect::<Vec<_>>().join(",")) };
    format!(
        "{{\"u32x4\":{},\"u64x4\":{},\"u128x1\":{},\"u128x2\":{},\"u32x4x4\":{}}}",
        q(ops_of!(u32x4)), q(ops_of!(u64x4)), q(ops_of!(u128x1)), q(ops_of!(u128x2)), q(ops_of!(u32x4x4))
    )
}

fn main() {
    let argv: Vec<String> = std::env::args().collect();
    if argv.len() < 2 || argv[1] != "c19" {
        eprintln!("usage: h_ppvnull c19 --seed N --shards K --out DIR [--tier quick|thorough]");
        std::process::exit(2);
    }
    let a = Args::parse(&argv[2..]);
    let seed = a.u64("seed", 1);
    let shards = a.u64("shards", 16) as usize;
    let out = a.str("out", "/verif/_build/work/h_ppvnull");
    let thorough = a.str("tier", "quick") == "thorough";
    std::panic::set_hook(Box::new(|_| {}));

    let dbg = cfg!(debug_assertions);
    let ovf = overflow_checks_on();
    if dbg != ovf {
        eprintln!("harness: debug_assertions={} but overflow checks={} - not one of the two modelled profiles", dbg, ovf);
        std::process::exit(3);
    }
    let prof = if dbg { "Debug" } else { "Release" };

    let mut g = Gen { rng: Rng::new(seed ^ 0xc19), thorough, out: Vec::new() };
    g.all();

    let mut coq = Vec::with_capacity(g.out.len());
    let mut js = Vec::with_capacity(g.out.len());
    let mut distinct = HashSet::new();
    let mut by_ty: BTreeMap<&'static str, usize> = BTreeMap::new();
    let mut by_op: BTreeMap<&'static str, usize> = BTreeMap::new();
    let mut methods = HashSet::new();
    let mut panics = 0usize;
    let mut samples = Vec::new();
    let total = g.out.len();
    for (k, (ty, op, av, bv, i)) in g.out.iter().enumerate() {
        let r = exec(*ty, op, av, bv, *i);
        let (ok, outv) = match &r {
            Some(v) => (true, v.clone()),
            None => (false, vec![]),
        };
        if !ok {
            panics += 1;
        }
        *by_ty.entry(ty.name()).or_insert(0) += 1;
        *by_op.entry(op).or_insert(0) += 1;
        methods.insert((*ty, *op));
        let nontrivial = av.iter().chain(bv.iter()).any(|&x| x != 0) || *i != 0;
        if nontrivial {
            distinct.insert((*ty, *op, av.clone(), bv.clone(), *i));
        }
        coq.push(format!(
            "NV {} {} {} {} {} {} {} {}",
            prof,
            ty.name(),
            op,
            coq_list(av),
            coq_list(bv),
            nlit_u128(*i),
            ok,
            coq_list(&outv)
        ));
        let j = format!(
            "{{\"profile\":{},\"ty\":{},\"op\":{},\"a\":{},\"b\":{},\"i\":\"0x{:x}\",\"outcome\":{},\"out\":{}}}",
            jstr(prof),
            jstr(ty.name()),
            jstr(op),
            json_list(av),
            json_list(bv),
            i,
            jstr(if ok { "ok" } else { "panic" }),
            json_list(&outv)
        );
        if k == 0 || k == total / 3 || k == total - 1 {
            samples.push(j.clone());
        }
        js.push(j);
    }
    write_shards(
        &out,
        shards,
        "From Coq Require Import NArith List.\nFrom CC Require Import Spec.NullLanes Model.PpvNull Run.Runner Run.PpvNull.",
        "nvcase",
        "run_c19",
        &coq,
    );
    std::fs::write(format!("{}/cases.json", out), format!("[{}]", js.join(",\n"))).unwrap();
    let m2s = |m: &BTreeMap<&'static str, usize>| {
        let xs: Vec<String> = m.iter().map(|(k, v)| format!("{}:{}", jstr(k), v)).collect();
        format!("{{{}}}", xs.join(","))
    };
    println!(
        "{{\"evaluations\":{},\"distinct_nontrivial\":{},\"profile\":{},\"overflow_checks\":{},\"debug_assertions\":{},\"methods_exercised\":{},\"clone_exercised_in\":\"ONew of all five types\",\"lane_index_classes\":\"0..n-1, n, n+1, 7, 256, 257, 2^32-1, and 2^32, 2^32+1, 2^63+2 (usize indices) / 2^16, 2^31 (u32 indices)\",\"panics_observed\":{},\"by_type\":{},\"by_op\":{},\"implemented_traits\":{},\"direct_failures\":[],\"samples\":[{}]}}",
        total,
        distinct.len(),
        jstr(prof),
        ovf,
        dbg,
        methods.len(),
        panics,
        m2s(&by_ty),
        m2s(&by_op),
        implemented_traits_json(),
        samples.join(",")
    );
}
