#![allow(dead_code)]
//! Differential harness: runs the implementation in /repo on generated cases
//! and writes them, with the implementation's results, as Coq case files.
mod util;
mod tf;

fn main() {
    let argv: Vec<String> = std::env::args().collect();
    if argv.len() < 2 {
        eprintln!("usage: harness <subcommand> [--key value]...");
        std::process::exit(2);
    }
    let args = util::Args::parse(&argv[2..]);
    match argv[1].as_str() {
        "tf" => tf::run(&args),
        other => {
            eprintln!("unknown subcommand {}", other);
            std::process::exit(2);
        }
    }
}
