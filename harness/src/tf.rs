//! Threefish (C09, C10): E(block), D(block) for every case, plus the direct
//! statement of C10 on the implementation.
use crate::util::*;
use cipher::generic_array::GenericArray;
use cipher::{BlockDecrypt, BlockEncrypt};
use threefish_cipher::{Threefish1024, Threefish256, Threefish512};

fn enc_dec(size: usize, key: &[u8], t0: u64, t1: u64, block: &[u8]) -> (Vec<u8>, Vec<u8>) {
    macro_rules! go {
        ($t:ident) => {{
            let c = $t::with_tweak(GenericArray::from_slice(key), t0, t1);
            let mut e = GenericArray::clone_from_slice(block);
            c.encrypt_block(&mut e);
            let mut d = GenericArray::clone_from_slice(block);
            c.decrypt_block(&mut d);
            (e.to_vec(), d.to_vec())
        }};
    }
    match size {
        256 => go!(Threefish256),
        512 => go!(Threefish512),
        _ => go!(Threefish1024),
    }
}

pub fn run(a: &Args) {
    let seed = a.u64("seed", 1);
    let count = a.u64("count", 100) as usize;
    let shards = a.u64("shards", 16) as usize;
    let out = a.str("out", "/tmp/tf");
    let runner = a.str("runner", "run_c10");
    let nu = cfg!(feature = "no_unroll");
    let mut rng = Rng::new(seed ^ 0x7f15);
    let mut cases = Vec::new();
    let mut direct_fail: Vec<String> = Vec::new();
    let mut samples: Vec<String> = Vec::new();
    let mut by_size = [0usize; 3];
    let mut distinct = std::collections::HashSet::new();
    for i in 0..count {
        let size = [256usize, 512, 1024][i % 3];
        by_size[i % 3] += 1;
        let n = size / 8;
        let (key, block, t0, t1) = if i < 3 {
            (vec![0u8; n], vec![0u8; n], 0, 0)
        } else if i < 6 {
            // the published vectors' inputs
            (
                (0..n).map(|j| 0x10 + j as u8).collect(),
                (0..n).map(|j| 0xff - j as u8).collect(),
                0x0706050403020100,
                0x0f0e0d0c0b0a0908,
            )
        } else {
            (rng.bytes(n), rng.bytes(n), rng.word64(), rng.word64())
        };
        let (e, d) = enc_dec(size, &key, t0, t1, &block);
        // direct statement of the inverse property on the implementation
        let (_, de) = enc_dec(size, &key, t0, t1, &e);
        let (ed, _) = enc_dec(size, &key, t0, t1, &d);
        if de != block || ed != block {
            direct_fail.push(format!(
                "{{\"size\":{},\"key\":{},\"t0\":{},\"t1\":{},\"block\":{},\"D(E(b))\":{},\"E(D(b))\":{}}}",
                size, jstr(&hex(&key)), t0, t1, jstr(&hex(&block)), jstr(&hex(&de)), jstr(&hex(&ed))
            ));
        }
        let nontrivial = block.iter().any(|&b| b != 0) || key.iter().any(|&b| b != 0);
        if nontrivial {
            distinct.insert((size, key.clone(), t0, t1, block.clone()));
        }
        let js = format!(
            "{{\"size\":{},\"no_unroll\":{},\"key\":{},\"t0\":{},\"t1\":{},\"block\":{},\"enc\":{},\"dec\":{}}}",
            size, nu, jstr(&hex(&key)), t0, t1, jstr(&hex(&block)), jstr(&hex(&e)), jstr(&hex(&d))
        );
        if (i >= 6 && samples.len() < 3) || i == count - 1 {
            samples.push(js.clone());
        }
        cases.push((
            format!(
                "TF {} {} {} {} {} {} {} {}",
                size,
                nu,
                nlit(&key),
                nlit_u64(t0),
                nlit_u64(t1),
                nlit(&block),
                nlit(&e),
                nlit(&d)
            ),
            js,
        ));
    }
    let coq: Vec<String> = cases.iter().map(|c| c.0.clone()).collect();
    write_shards(
        &out,
        shards,
        "From Coq Require Import NArith List.\nFrom CC Require Import Run.Runner Run.TF.",
        "tfcase",
        &runner,
        &coq,
    );
    let all: Vec<String> = cases.iter().map(|c| c.1.clone()).collect();
    std::fs::write(format!("{}/cases.json", out), format!("[{}]", all.join(",\n"))).unwrap();
    println!(
        "{{\"evaluations\":{},\"distinct_nontrivial\":{},\"by_size\":{{\"256\":{},\"512\":{},\"1024\":{}}},\"no_unroll\":{},\"direct_failures\":[{}],\"samples\":[{}]}}",
        count,
        distinct.len(),
        by_size[0],
        by_size[1],
        by_size[2],
        nu,
        direct_fail.join(","),
        samples.join(",")
    );
}
