//! Threefish (C09, C10): E(block), D(block) for every case, plus the direct
//! statement of C10 on the implementation.
use crate::util::*;
use cipher::generic_array::GenericArray;
use cipher::{BlockDecrypt, BlockEncrypt, NewBlockCipher};
use std::panic::{catch_unwind, AssertUnwindSafe};
use threefish_cipher::{Threefish1024, Threefish256, Threefish512};

/// What one case runs on the implementation: E(b), D(b), D(E(b)), E(D(b)) on ONE object (so four
/// blocks pass through the same key schedule), `pos_dep` = a multi-block call returned different
/// results for equal blocks at different positions.
pub struct Ran {
    e: Vec<u8>,
    d: Vec<u8>,
    de: Vec<u8>,
    ed: Vec<u8>,
    pos_dep: bool,
}

pub const CTORS: [&str; 3] = ["with_tweak", "NewBlockCipher::new", "NewBlockCipher::new_from_slice"];
pub const ROUTES: [&str; 4] = ["encrypt_block/decrypt_block", "encrypt_blocks/decrypt_blocks (3-block slice)", "encrypt_par_blocks/decrypt_par_blocks", "E through a clone of the object, D through the original"];

/// `ctor`: 0 = `with_tweak`, 1 = `NewBlockCipher::new`, 2 = `NewBlockCipher::new_from_slice` (1 and 2 only for
/// the zero tweak, which is what they mean); `route`: which trait methods carry the blocks (see ROUTES).
/// Every call into the implementation is inside `catch_unwind`: None = it panicked.
#[allow(deprecated)]
fn run_case(size: usize, key: &[u8], t0: u64, t1: u64, block: &[u8], ctor: u8, route: u8) -> Option<Ran> {
    macro_rules! go {
        ($t:ident) => {{
            catch_unwind(AssertUnwindSafe(|| {
                let c = match ctor {
                    1 if t0 == 0 && t1 == 0 => <$t as NewBlockCipher>::new(GenericArray::from_slice(key)),
                    2 if t0 == 0 && t1 == 0 => <$t as NewBlockCipher>::new_from_slice(key).expect("key of the block size"),
                    _ => $t::with_tweak(GenericArray::from_slice(key), t0, t1),
                };
                let mut pos_dep = false;
                let other = GenericArray::clone_from_slice(key);
                let mut enc = |c: &$t, b: &[u8]| -> Vec<u8> {
                    let mut x = GenericArray::clone_from_slice(b);
                    match route {
                        1 => {
                            let mut bs = [x.clone(), other.clone(), x.clone()];
                            c.encrypt_blocks(&mut bs[..]);
                            pos_dep |= bs[0] != bs[2];
                            x = bs[0].clone();
                        }
                        2 => {
                            let mut pb: cipher::ParBlocks<$t> = GenericArray::clone_from_slice(&[x.clone()]);
                            c.encrypt_par_blocks(&mut pb);
                            x = pb[0].clone();
                        }
                        3 => {
                            let c2 = Clone::clone(c);
                            c2.encrypt_block(&mut x);
                        }
                        _ => c.encrypt_block(&mut x),
                    }
                    x.to_vec()
                };
                let e = enc(&c, block);
                let mut pos_dep_d = false;
                let mut dec = |c: &$t, b: &[u8]| -> Vec<u8> {
                    let mut x = GenericArray::clone_from_slice(b);
                    match route {
                        1 => {
                            let mut bs = [x.clone(), other.clone(), x.clone()];
                            c.decrypt_blocks(&mut bs[..]);
                            pos_dep_d |= bs[0] != bs[2];
                            x = bs[0].clone();
                        }
                        2 => {
                            let mut pb: cipher::ParBlocks<$t> = GenericArray::clone_from_slice(&[x.clone()]);
                            c.decrypt_par_blocks(&mut pb);
                            x = pb[0].clone();
                        }
                        _ => c.decrypt_block(&mut x),
                    }
                    x.to_vec()
                };
                let d = dec(&c, block);
                let de = dec(&c, &e);
                let ed = enc(&c, &d);
                Ran { e, d, de, ed, pos_dep: pos_dep || pos_dep_d }
            }))
            .ok()
        }};
    }
    match size {
        256 => go!(Threefish256),
        512 => go!(Threefish512),
        _ => go!(Threefish1024),
    }
}

// Tables of the Skein 1.3 paper (copied from coq/Spec/Threefish.v, not from /repo): rotation constants of
// the first (d = 0) and the last (d mod 8 = 7) round, the word permutation pi, C240.
const C240: u64 = 0x1BD11BDAA9FC1A22;
fn rot_first_last(size: usize) -> (Vec<u32>, Vec<u32>) {
    match size {
        256 => (vec![14, 16], vec![32, 32]),
        512 => (vec![46, 36, 19, 37], vec![8, 35, 56, 22]),
        _ => (vec![24, 13, 8, 47, 8, 17, 22, 37], vec![9, 48, 35, 52, 23, 31, 37, 20]),
    }
}
fn pi(size: usize) -> Vec<usize> {
    match size {
        256 => vec![0, 3, 2, 1],
        512 => vec![2, 1, 4, 7, 6, 5, 0, 3],
        _ => vec![0, 9, 2, 13, 6, 11, 4, 15, 10, 7, 12, 3, 14, 5, 8, 1],
    }
}
/// subkey `s` of the specified key schedule
fn subkey(size: usize, key: &[u8], t0: u64, t1: u64, s: usize) -> Vec<u64> {
    let nw = size / 64;
    let mut k: Vec<u64> = key.chunks(8).map(|c| u64::from_le_bytes([c[0], c[1], c[2], c[3], c[4], c[5], c[6], c[7]])).collect();
    let parity = k.iter().fold(C240, |a, b| a ^ b);
    k.push(parity);
    let t = [t0, t1, t0 ^ t1];
    (0..nw)
        .map(|i| {
            let mut x = k[(s + i) % (nw + 1)];
            if i == nw - 3 {
                x = x.wrapping_add(t[s % 3]);
            } else if i == nw - 2 {
                x = x.wrapping_add(t[(s + 1) % 3]);
            } else if i == nw - 1 {
                x = x.wrapping_add(s as u64);
            }
            x
        })
        .collect()
}
const EDGES: [u64; 8] = [0, 1, u64::MAX, 0x8000_0000_0000_0000, 0x7fff_ffff_ffff_ffff, 0x8000_0000_0000_0001, 0xffff_ffff_0000_0000, 0x0000_0000_ffff_ffff];
/// a plaintext whose words, after the first subkey, are edge operands of the first MIX
/// (x0 + x1 with chosen x0, x1), for encryption
fn craft_plain(rng: &mut Rng, size: usize, key: &[u8], t0: u64, t1: u64) -> Vec<u8> {
    let nw = size / 64;
    let k0 = subkey(size, key, t0, t1, 0);
    let mut out = Vec::new();
    for i in 0..nw {
        let e = *rng.pick(&EDGES);
        out.extend_from_slice(&e.wrapping_sub(k0[i]).to_le_bytes());
    }
    out
}
/// a ciphertext for which the first inverse MIX of decryption recovers x1 = a chosen edge value
/// (x1 = rotr(y1 ^ y0, r), x0 = y0 - x1) in every word pair
fn craft_cipher(rng: &mut Rng, size: usize, key: &[u8], t0: u64, t1: u64) -> Vec<u8> {
    let nw = size / 64;
    let nr = if size == 1024 { 80 } else { 72 };
    let kl = subkey(size, key, t0, t1, nr / 4);
    let (_, rl) = rot_first_last(size);
    let mut f = vec![0u64; nw];
    for j in 0..nw / 2 {
        let y0 = if rng.chance(1, 2) { *rng.pick(&EDGES) } else { rng.word64() };
        let x1 = *rng.pick(&EDGES);
        f[2 * j] = y0;
        f[2 * j + 1] = y0 ^ x1.rotate_left(rl[j]);
    }
    let p = pi(size);
    let mut out = Vec::new();
    for i in 0..nw {
        out.extend_from_slice(&f[p[i]].wrapping_add(kl[i]).to_le_bytes());
    }
    out
}

pub fn run(a: &Args) {
    let seed = a.u64("seed", 1);
    let count = a.u64("count", 100) as usize;
    let shards = a.u64("shards", 16) as usize;
    let out = a.str("out", "/tmp/tf");
    let runner = a.str("runner", "run_c10");
    let nu = cfg!(feature = "no_unroll");
    let mut rng = Rng::new(seed ^ 0x7f15);
    let mut cases = Vec::new();
    let mut direct_fail: Vec<String> = Vec::new();
    let mut samples: Vec<String> = Vec::new();
    let mut by_size = [0usize; 3];
    let mut via_new = 0usize;
    let mut n_crafted = 0usize;
    let mut n_parity = 0usize;
    let mut panics = 0usize;
    let mut by_route = [0usize; 4];
    std::panic::set_hook(Box::new(|_| {}));
    let mut distinct = std::collections::HashSet::new();
    for i in 0..count {
        let size = [256usize, 512, 1024][i % 3];
        by_size[i % 3] += 1;
        let n = size / 8;
        let (key, block, t0, t1) = if i < 3 {
            (vec![0u8; n], vec![0u8; n], 0, 0)
        } else if i < 6 {
            // the published vectors' inputs
            (
                (0..n).map(|j| 0x10 + j as u8).collect(),
                (0..n).map(|j| 0xff - j as u8).collect(),
                0x0706050403020100,
                0x0f0e0d0c0b0a0908,
            )
        } else {
            // structured words: carry-heavy, single-bit, byte-counting, random
            let mut gen = |rng: &mut Rng| -> Vec<u8> {
                let mut v = Vec::with_capacity(n);
                let style = rng.range(0, 5);
                for w in 0..n / 8 {
                    let x: u64 = match style {
                        0 => rng.word64(),
                        1 => u64::MAX - rng.range(0, 2),
                        2 => 1u64 << rng.range(0, 63),
                        3 => u64::from_le_bytes([8 * w as u8, 8 * w as u8 + 1, 8 * w as u8 + 2, 8 * w as u8 + 3,
                                                 8 * w as u8 + 4, 8 * w as u8 + 5, 8 * w as u8 + 6, 8 * w as u8 + 7]),
                        4 => if rng.range(0, 1) == 0 { 0 } else { 0x8000_0000_0000_0000 },
                        _ => rng.word64() | 0xffff_ffff_0000_0000,
                    };
                    v.extend_from_slice(&x.to_le_bytes());
                }
                v
            };
            let mut key = gen(&mut rng);
            let block = gen(&mut rng);
            let (t0, t1) = match rng.range(0, 5) {
                0 | 1 => (0, 0), // these are built through NewBlockCipher::new / new_from_slice
                2 => { let t = rng.word64(); (t, t) }
                3 => (u64::MAX, u64::MAX - rng.range(0, 1)),
                _ => (rng.word64(), rng.word64()),
            };
            // one case in six: the last key word is chosen so that the parity word k[N_w] = C240 ^ k[0] ^ ...
            // is within 20 of 2^64: the subkey addition `k[N_w] + s` (s <= 18 / 20) then wraps
            if rng.chance(1, 6) {
                let parity = key.chunks(8).fold(C240, |a, c| a ^ u64::from_le_bytes([c[0], c[1], c[2], c[3], c[4], c[5], c[6], c[7]]));
                let target = u64::MAX - rng.below(20);
                let last = u64::from_le_bytes([key[n - 8], key[n - 7], key[n - 6], key[n - 5], key[n - 4], key[n - 3], key[n - 2], key[n - 1]]);
                key[n - 8..].copy_from_slice(&(last ^ parity ^ target).to_le_bytes());
                n_parity += 1;
            }
            (key, block, t0, t1)
        };
        // every fourth case: the block is crafted so that the first MIX of encryption resp. the first inverse
        // MIX of decryption works on edge operands (0, 1, 2^63, 2^64 - 1, ...): value-dependent slips in
        // mix / inv_mix are otherwise reachable only with probability ~2^-55 per block
        let mut crafted = "";
        let block = if i >= 6 && i % 4 == 3 {
            crafted = "plain-for-first-mix";
            craft_plain(&mut rng, size, &key, t0, t1)
        } else if i >= 6 && i % 4 == 1 {
            crafted = "cipher-for-first-inverse-mix";
            craft_cipher(&mut rng, size, &key, t0, t1)
        } else {
            block
        };
        if !crafted.is_empty() { n_crafted += 1; }
        // constructor and the trait methods that carry the blocks rotate with the case index and the seed
        let ctor: u8 = if i >= 6 && t0 == 0 && t1 == 0 { 1 + ((i / 3 + seed as usize) % 2) as u8 } else { 0 };
        if ctor != 0 { via_new += 1; }
        let route: u8 = if i < 6 { 0 } else { ((i / 3 + (seed as usize) / 2) % 4) as u8 };
        by_route[route as usize] += 1;
        let ran = run_case(size, &key, t0, t1, &block, ctor, route);
        let (e, d) = match &ran {
            Some(r) => {
                // direct statement of the inverse property on the implementation
                if r.de != block || r.ed != block || r.pos_dep {
                    direct_fail.push(format!(
                        "{{\"size\":{},\"ctor\":\"{}\",\"route\":\"{}\",\"key\":{},\"t0\":{},\"t1\":{},\"block\":{},\"D(E(b))\":{},\"E(D(b))\":{},\"equal_blocks_of_one_call_differ\":{}}}",
                        size, CTORS[ctor as usize], ROUTES[route as usize], jstr(&hex(&key)), t0, t1, jstr(&hex(&block)), jstr(&hex(&r.de)), jstr(&hex(&r.ed)), r.pos_dep
                    ));
                }
                (r.e.clone(), r.d.clone())
            }
            None => {
                // a panic is an outcome with its input, not a harness crash
                panics += 1;
                direct_fail.push(format!(
                    "{{\"outcome\":\"panic\",\"size\":{},\"no_unroll\":{},\"ctor\":\"{}\",\"route\":\"{}\",\"key\":{},\"t0\":{},\"t1\":{},\"block\":{}}}",
                    size, nu, CTORS[ctor as usize], ROUTES[route as usize], jstr(&hex(&key)), t0, t1, jstr(&hex(&block))
                ));
                (Vec::new(), Vec::new())
            }
        };
        let nontrivial = block.iter().any(|&b| b != 0) || key.iter().any(|&b| b != 0);
        if nontrivial {
            distinct.insert((size, key.clone(), t0, t1, block.clone()));
        }
        let js = format!(
            "{{\"size\":{},\"no_unroll\":{},\"ctor\":\"{}\",\"route\":\"{}\",\"outcome\":\"{}\",\"crafted\":\"{}\",\"key\":{},\"t0\":{},\"t1\":{},\"block\":{},\"enc\":{},\"dec\":{}}}",
            size, nu, CTORS[ctor as usize], ROUTES[route as usize], if ran.is_some() { "ok" } else { "panic" }, crafted, jstr(&hex(&key)), t0, t1, jstr(&hex(&block)), jstr(&hex(&e)), jstr(&hex(&d))
        );
        if (i >= 6 && samples.len() < 3) || i == count - 1 {
            samples.push(js.clone());
        }
        cases.push((
            format!(
                "TF {} {} {} {} {} {} {} {}",
                size,
                nu,
                nlit(&key),
                nlit_u64(t0),
                nlit_u64(t1),
                nlit(&block),
                nlit(&e),
                nlit(&d)
            ),
            js,
        ));
    }
    let coq: Vec<String> = cases.iter().map(|c| c.0.clone()).collect();
    write_shards(
        &out,
        shards,
        "From Coq Require Import NArith List.\nFrom CC Require Import Run.Runner Run.TF.",
        "tfcase",
        &runner,
        &coq,
    );
    let all: Vec<String> = cases.iter().map(|c| c.1.clone()).collect();
    std::fs::write(format!("{}/cases.json", out), format!("[{}]", all.join(",\n"))).unwrap();
    println!(
        "{{\"evaluations\":{},\"distinct_nontrivial\":{},\"by_size\":{{\"256\":{},\"512\":{},\"1024\":{}}},\"no_unroll\":{},\"constructed_via_new\":{},\"blocks_crafted_for_edge_operands\":{},\"keys_with_parity_word_next_to_2_64\":{},\"by_route\":{{\"block\":{},\"blocks_slice\":{},\"par_blocks\":{},\"clone\":{}}},\"blocks_through_one_object_per_case\":4,\"panics\":{},\"direct_failures\":[{}],\"samples\":[{}]}}",
        count,
        distinct.len(),
        by_size[0],
        by_size[1],
        by_size[2],
        nu,
        via_new,
        n_crafted,
        n_parity,
        by_route[0],
        by_route[1],
        by_route[2],
        by_route[3],
        panics,
        direct_fail.join(","),
        samples.join(",")
    );
}
