//! Threefish (C09, C10): E(block), D(block) for every case, plus the direct
//! statement of C10 on the implementation.
use crate::util::*;
use cipher::generic_array::GenericArray;
use cipher::{BlockDecrypt, BlockEncrypt, NewBlockCipher};
use threefish_cipher::{Threefish1024, Threefish256, Threefish512};

/// `use_new`: construct through `NewBlockCipher::new` (only for the zero tweak, which is what it means)
fn enc_dec(size: usize, key: &[u8], t0: u64, t1: u64, block: &[u8], use_new: bool) -> (Vec<u8>, Vec<u8>) {
    macro_rules! go {
        ($t:ident) => {{
            let c = if use_new && t0 == 0 && t1 == 0 {
                <$t as NewBlockCipher>::new(GenericArray::from_slice(key))
            } else {
                $t::with_tweak(GenericArray::from_slice(key), t0, t1)
            };
            let mut e = GenericArray::clone_from_slice(block);
            c.encrypt_block(&mut e);
            let mut d = GenericArray::clone_from_slice(block);
            c.decrypt_block(&mut d);
            (e.to_vec(), d.to_vec())
        }};
    }
    match size {
        256 => go!(Threefish256),
        512 => go!(Threefish512),
        _ => go!(Threefish1024),
    }
}

pub fn run(a: &Args) {
    let seed = a.u64("seed", 1);
    let count = a.u64("count", 100) as usize;
    let shards = a.u64("shards", 16) as usize;
    let out = a.str("out", "/tmp/tf");
    let runner = a.str("runner", "run_c10");
    let nu = cfg!(feature = "no_unroll");
    let mut rng = Rng::new(seed ^ 0x7f15);
    let mut cases = Vec::new();
    let mut direct_fail: Vec<String> = Vec::new();
    let mut samples: Vec<String> = Vec::new();
    let mut by_size = [0usize; 3];
    let mut via_new = 0usize;
    let mut distinct = std::collections::HashSet::new();
    for i in 0..count {
        let size = [256usize, 512, 1024][i % 3];
        by_size[i % 3] += 1;
        let n = size / 8;
        let (key, block, t0, t1) = if i < 3 {
            (vec![0u8; n], vec![0u8; n], 0, 0)
        } else if i < 6 {
            // the published vectors' inputs
            (
                (0..n).map(|j| 0x10 + j as u8).collect(),
                (0..n).map(|j| 0xff - j as u8).collect(),
                0x0706050403020100,
                0x0f0e0d0c0b0a0908,
            )
        } else {
            // structured words: carry-heavy, single-bit, byte-counting, random
            let mut gen = |rng: &mut Rng| -> Vec<u8> {
                let mut v = Vec::with_capacity(n);
                let style = rng.range(0, 5);
                for w in 0..n / 8 {
                    let x: u64 = match style {
                        0 => rng.word64(),
                        1 => u64::MAX - rng.range(0, 2),
                        2 => 1u64 << rng.range(0, 63),
                        3 => u64::from_le_bytes([8 * w as u8, 8 * w as u8 + 1, 8 * w as u8 + 2, 8 * w as u8 + 3,
                                                 8 * w as u8 + 4, 8 * w as u8 + 5, 8 * w as u8 + 6, 8 * w as u8 + 7]),
                        4 => if rng.range(0, 1) == 0 { 0 } else { 0x8000_0000_0000_0000 },
                        _ => rng.word64() | 0xffff_ffff_0000_0000,
                    };
                    v.extend_from_slice(&x.to_le_bytes());
                }
                v
            };
            let key = gen(&mut rng);
            let block = gen(&mut rng);
            let (t0, t1) = match rng.range(0, 5) {
                0 | 1 => (0, 0), // these are built through NewBlockCipher::new
                2 => { let t = rng.word64(); (t, t) }
                3 => (u64::MAX, u64::MAX - rng.range(0, 1)),
                _ => (rng.word64(), rng.word64()),
            };
            (key, block, t0, t1)
        };
        let use_new = i >= 6 && t0 == 0 && t1 == 0;
        if use_new { via_new += 1; }
        let (e, d) = enc_dec(size, &key, t0, t1, &block, use_new);
        // direct statement of the inverse property on the implementation
        let (_, de) = enc_dec(size, &key, t0, t1, &e, use_new);
        let (ed, _) = enc_dec(size, &key, t0, t1, &d, use_new);
        if de != block || ed != block {
            direct_fail.push(format!(
                "{{\"size\":{},\"key\":{},\"t0\":{},\"t1\":{},\"block\":{},\"D(E(b))\":{},\"E(D(b))\":{}}}",
                size, jstr(&hex(&key)), t0, t1, jstr(&hex(&block)), jstr(&hex(&de)), jstr(&hex(&ed))
            ));
        }
        let nontrivial = block.iter().any(|&b| b != 0) || key.iter().any(|&b| b != 0);
        if nontrivial {
            distinct.insert((size, key.clone(), t0, t1, block.clone()));
        }
        let js = format!(
            "{{\"size\":{},\"no_unroll\":{},\"ctor\":\"{}\",\"key\":{},\"t0\":{},\"t1\":{},\"block\":{},\"enc\":{},\"dec\":{}}}",
            size, nu, if use_new { "NewBlockCipher::new" } else { "with_tweak" }, jstr(&hex(&key)), t0, t1, jstr(&hex(&block)), jstr(&hex(&e)), jstr(&hex(&d))
        );
        if (i >= 6 && samples.len() < 3) || i == count - 1 {
            samples.push(js.clone());
        }
        cases.push((
            format!(
                "TF {} {} {} {} {} {} {} {}",
                size,
                nu,
                nlit(&key),
                nlit_u64(t0),
                nlit_u64(t1),
                nlit(&block),
                nlit(&e),
                nlit(&d)
            ),
            js,
        ));
    }
    let coq: Vec<String> = cases.iter().map(|c| c.0.clone()).collect();
    write_shards(
        &out,
        shards,
        "From Coq Require Import NArith List.\nFrom CC Require Import Run.Runner Run.TF.",
        "tfcase",
        &runner,
        &coq,
    );
    let all: Vec<String> = cases.iter().map(|c| c.1.clone()).collect();
    std::fs::write(format!("{}/cases.json", out), format!("[{}]", all.join(",\n"))).unwrap();
    println!(
        "{{\"evaluations\":{},\"distinct_nontrivial\":{},\"by_size\":{{\"256\":{},\"512\":{},\"1024\":{}}},\"no_unroll\":{},\"constructed_via_new\":{},\"direct_failures\":[{}],\"samples\":[{}]}}",
        count,
        distinct.len(),
        by_size[0],
        by_size[1],
        by_size[2],
        nu,
        via_new,
        direct_fail.join(","),
        samples.join(",")
    );
}
