#!/usr/bin/env python3
"""tools/harmless_rerun.py <harmless-id> CHECK [CHECK ...]
Re-applies /verif/harmless/<id>/patch.diff (a behaviour-preserving rewrite already shown to pass the repository's suite) in a
scratch worktree of /repo and runs the given quick checks against it (VERIF_REPO). A VIOLATION line is a FALSE ALARM.
Used after a check has been strengthened; the result is appended to the rewrite's meta.json under "reruns"."""
import hashlib, json, os, shutil, subprocess, sys, time
hid, checks = sys.argv[1], sys.argv[2:]
d = "/verif/harmless/" + hid
wt = "/tmp/rr-" + hid


def sh(cmd, cwd=None, env=None):
    p = subprocess.run(cmd, cwd=cwd, env=env, stdout=subprocess.PIPE, stderr=subprocess.STDOUT, text=True, timeout=7200)
    return p.returncode, p.stdout


if os.path.exists(wt):
    sh(["git", "-C", "/repo", "worktree", "remove", "--force", wt])
rc, out = sh(["git", "-C", "/repo", "worktree", "add", "-q", "--detach", wt, "HEAD"])
assert rc == 0, out
shutil.copy("/repo/Cargo.lock", wt)
bad = 0
try:
    rc, out = sh(["git", "apply", os.path.join(d, "patch.diff")], cwd=wt)
    if rc != 0:
        print("patch does not apply:", out[-300:]); sys.exit(2)
    meta = json.load(open(os.path.join(d, "meta.json")))
    for prop in checks:
        t0 = time.time()
        rc, out = sh(["./check", prop], cwd="/verif", env=dict(os.environ, VERIF_REPO=wt, VERIF_TIER="quick"))
        viol = [l for l in out.split("\n") if l.startswith("VIOLATION")]
        bad += bool(viol) or rc != 0
        meta.setdefault("reruns", []).append({"check": prop, "exit": rc, "violations": viol[:3], "wall_s": round(time.time() - t0),
                                              "verif_commit": sh(["git", "-C", "/verif", "rev-parse", "--short", "HEAD"])[1].strip()})
        print("%s %s: exit %d, %d VIOLATION line(s)%s" % (hid, prop, rc, len(viol), "" if not viol else "  <-- FALSE ALARM? " + viol[0]))
    json.dump(meta, open(os.path.join(d, "meta.json"), "w"), indent=1)
finally:
    sh(["git", "-C", "/repo", "worktree", "remove", "--force", wt])
    shutil.rmtree("/verif/_build/alt-" + hashlib.sha1(wt.encode()).hexdigest()[:10], ignore_errors=True)
sys.exit(1 if bad else 0)
