#!/usr/bin/env python3
"""Regenerates /verif/MANIFEST.json from checks/*.py META tables."""
import importlib, json, os, sys
ROOT = os.path.dirname(os.path.dirname(os.path.abspath(__file__)))
sys.path.insert(0, ROOT)
props = [json.loads(l)["id"] for l in open(os.path.join(ROOT, "properties.jsonl"))]
NOT_YET = json.load(open(os.path.join(ROOT, "tools", "not_claimed.json")))
CLAIMED = set(json.load(open(os.path.join(ROOT, "tools", "claimed.json"))))  # checks that pass on the unchanged tree
checks, na = [], []
for pid in props:
    path = os.path.join(ROOT, "checks", pid.lower() + ".py")
    if not os.path.exists(path) or pid not in CLAIMED:
        na.append({"property_id": pid, "reason": NOT_YET.get(pid, "check not built yet in this round (planned; see DESIGN.md section 6)")})
        continue
    m = importlib.import_module("checks." + pid.lower()).META
    checks.append({
        "property_id": pid,
        "quick_cmd": "VERIF_TIER=quick ./check %s" % pid,
        "thorough_cmd": "VERIF_TIER=thorough ./check %s" % pid,
        "evidence_file": "evidence/%s.json" % pid,
        "replay_cmd_template": "./check %s --replay {path}" % pid,
        "engine": "coq-proof+correspondence",
        "level_claimed": {"category": "proof", "text": m["level_text"], "design_ref": "DESIGN.md section " + m["design_ref"]},
        "level_note": m["level_note"],
        "technique": m["technique"],
    })
hooks = json.load(open(os.path.join(ROOT, "tools", "hooks.json")))
man = {
    "version": 1,
    "setup_cmd": "./setup.sh",
    "hooks": hooks,
    "engines": [{"name": "coq-proof+correspondence", "path": "coq/ harness/ check vlib.py checks/",
                 "serves_properties": [c["property_id"] for c in checks],
                 "kind_free_text": "Coq 8.16 development (Spec/Model/Proofs/Props) + Rust differential harness whose cases are evaluated by coqc vm_compute"}],
    "checks": checks,
    "not_applicable": na,
    "notes": "Every check re-verifies the pinned Coq theorems (Props/<id>.v, Print Assumptions must be closed), rebuilds the Rust harness against /repo's working tree and compares implementation, model and specification on generated cases inside coqc. See DESIGN.md.",
}
json.dump(man, open(os.path.join(ROOT, "MANIFEST.json"), "w"), indent=1)
print("MANIFEST.json: %d checks, %d not claimed" % (len(checks), len(na)))
