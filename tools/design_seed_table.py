#!/usr/bin/env python3
"""Regenerates the table of DESIGN.md section 13 from /verif/seeded/*/meta.json (between the table header and the paragraph
that starts 'Thirty-two behaviour-preserving')."""
import glob, json, re
rows = []
for f in sorted(glob.glob("/verif/seeded/*/meta.json")):
    m = json.load(open(f)); sid = m.get("seed_id")
    ch = m.get("checks", {})
    caught = sorted({k.split(":")[0] for k, v in ch.items() if v.get("detected")})
    missed = sorted({k for k, v in ch.items() if not v.get("detected")} - set(caught))
    def cl(x, n):
        x = (x or "").replace("|", "/").replace("\n", " ")
        return x[:n] + ("…" if len(x) > n else "")
    rows.append("| %s | %s | %s | %s%s |" % (sid, cl(m.get("summary"), 170), cl(m.get("needs"), 130), ", ".join(caught) or "—",
                                             (" (not by " + ", ".join(missed) + ")") if missed else ""))
p = "/verif/DESIGN.md"
s = open(p).read()
head = "| seed | change | needs to manifest | caught by |\n|---|---|---|---|\n"
i = s.index(head) + len(head)
j = s.index("\n\nThirty-two behaviour-preserving", i)
s = s[:i] + "\n".join(rows) + s[j:]
open(p, "w").write(s)
print(len(rows), "rows")
