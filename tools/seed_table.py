#!/usr/bin/env python3
"""prints a markdown table of /verif/seeded/*/meta.json (which checks catch which seeded changes)"""
import glob, json, os
rows = []
for f in sorted(glob.glob("/verif/seeded/*/meta.json")):
    m = json.load(open(f))
    sid = m.get("seed_id", os.path.basename(os.path.dirname(f)))
    ch = m.get("checks", {})
    det = "; ".join("%s: %s" % (k, "caught" if v.get("detected") else "MISSED") for k, v in sorted(ch.items())) or "not run"
    rows.append("| %s | %s | %s | %s | %s |" % (sid, m.get("property"), (m.get("summary") or "").replace("|", "/")[:160],
                                             (m.get("needs") or "").replace("|", "/")[:140], det))
print("| seed | property | change | needs to manifest | checks |\n|---|---|---|---|---|")
print("\n".join(rows))
