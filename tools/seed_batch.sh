#!/bin/bash
# tools/seed_batch.sh <suffix> <first-new-index> P1 P2 ... : confirm /tmp/seed-P<suffix>-out/{1,2} as P-<n>, P-<n+1>, run the
# property's quick check against each, then remove the seeding agent's scratch worktree.
suffix=$1; base=$2; shift 2
for P in "$@"; do
  for k in 1 2; do
    d=/tmp/seed-$P$suffix-out/$k
    [ -f $d/patch.diff ] || { echo "$P $k: no patch"; continue; }
    id=$P-$((base + k - 1))
    echo "=== $id"
    timeout 5400 python3 /verif/tools/seed_confirm.py $d $id --check 2>&1 | grep -E '"confirmed"|^check|VIOLATION|error' | head -8
  done
  git -C /repo worktree remove --force /tmp/seed-$P$suffix 2>/dev/null
done
