#!/usr/bin/env python3
"""prints the prompt for an independent seeding agent: tools/seed_prompt.py C07"""
import json, sys
pid = sys.argv[1]
props = {json.loads(l)["id"]: json.loads(l) for l in open("/verif/properties.jsonl")}
p = props[pid]
suffix = sys.argv[2] if len(sys.argv) > 2 else ""      # e.g. "-r2" for a second, independent round
wt = "/tmp/seed-%s%s" % (pid, suffix)
out = "/tmp/seed-%s%s-out" % (pid, suffix)
EMPH = ""
if suffix == "-r4":
    EMPH = (" For this round assume the property is ALREADY guarded by a strong differential-testing harness that covers ordinary inputs, block and"
            " counter boundaries at 2^32 / 2^38 / 2^64, every SIMD back end, cargo features, build profiles and the common trait methods. Look for a change"
            " such a harness would plausibly still miss: a threshold in an unusual place (a length, count or value that is not a power of two, or a power"
            " of two other than the usual ones), an interaction of TWO conditions (a particular back end AND a particular counter range; a feature AND a"
            " profile), behaviour only after a panic was caught or an error returned, an impl of a rarely used trait (`Debug`, `Default`, `Clone`, `PartialEq`,"
            " `Drop`, `BlockInput`, `DynDigest::box_clone`, `SyncStreamCipherSeek`), or a dependency on the ORDER in which several objects of different types"
            " are created or used in one process.")
elif suffix == "-r3":
    EMPH = (" For this round, look for changes of these kinds (pick two different kinds): (i) a change in a SHARED lower-level crate (ppv-lite86, block-buffer"
            " usage, threefish) that only one consumer or one code path of this property notices; (ii) a change that is invisible through the most common trait"
            " (`digest::Digest` / `StreamCipher`) but visible through another public trait or inherent method of the same type (`FixedOutput`, `FixedOutputDirty`,"
            " `Reset`, `DynDigest`, `StreamCipherSeek`, `Clone`, `Default`, `PartialEq`, the `guts` API, `Machine` methods), or only after the object was used once;"
            " (iii) a change that depends on the VALUE of an argument in a narrow range (a counter or length near a power of two other than 2^32, an odd/even word,"
            " a particular nonce or key word pattern, a rotation amount or lane index at the edge of its range); (iv) a change under `cfg(not(feature = \"std\"))`,"
            " `cfg(target_feature = ...)`, `cfg(debug_assertions)` or a non-default cargo feature; (v) an `unsafe` pointer / slice-length slip that reads or writes"
            " one element too far only for some lengths or alignments.")
elif suffix:
    EMPH = (" For this round, aim for changes that are hard to notice: ones that need a multi-step sequence of API calls, a state reached only after"
            " an earlier error or boundary, a non-default cargo feature / target feature / back end that the test host never selects, a build profile"
            " (overflow checks on vs off), an unusual integer type or value of an argument, or two sites that are each correct alone.")
print(f"""You are testing how well a Rust code base's semantic properties can be guarded. You get ONE property and your own scratch git worktree of the repository (cryptocorrosion: pure-Rust SIMD crypto primitives — c2-chacha, threefish, blake/groestl/jh/skein hashes, ppv-lite86, ppv-null, crypto-simd). Work ONLY inside {wt} (the worktree, already created for you, a checkout of the current HEAD) and {out} (your output directory; create it). Do NOT read or write anything under /verif or /repo, and do not look for other people's notes: your result must be independent.

THE PROPERTY ({pid}: {p.get('title')}):
{p.get('statement')}
Code anchors: {json.dumps(p.get('anchors'), indent=1)[:3500]}

YOUR TASK: produce TWO different (different in kind / in different places) small source changes to the repository, each of which BREAKS this property while (a) the whole workspace still compiles and (b) the existing test suite still passes: `cd {wt} && CARGO_TARGET_DIR={wt}/target cargo test --workspace --no-fail-fast --offline` (39 tests pass on the unchanged tree; they must all still pass with your change). Think like a realistic regression a maintainer could introduce (a refactoring slip, an off-by-one, a wrong constant in a rarely used path, a dropped carry, a condition flipped at a boundary, two cooperating sites that each look fine alone). Prefer changes that need something SPECIFIC to manifest — an unusual input or length, a boundary position/counter, a multi-step sequence of operations, a particular back end or feature configuration, a particular interleaving — rather than ones that ordinary use exposes at once.{EMPH} Do not touch tests, and do not touch or rely on code under `#[cfg(cryptocorrosion_verif)]` (verification hooks; leave them alone). The network is unavailable (always pass --offline; set CARGO_NET_OFFLINE=true). /repo/.cargo/config.toml's rustflag `--cfg zerocopy_derive_union_into_bytes` is already in the worktree's .cargo/config.toml.

FOR EACH change k in {{1,2}} write {out}/<k>/ containing:
 - patch.diff : `git -C {wt} diff` of exactly that change against the worktree HEAD (must apply with `git apply` to a clean checkout of HEAD);
 - demo.sh (+ any files it needs, in the same directory): a demonstration run as `bash demo.sh <repo_root>` that exits 0 on the UNCHANGED tree and non-zero on the tree WITH the patch applied. Typical form: copy a small integration test file (kept beside demo.sh) into `<repo_root>/<crate>/tests/seed_demo_{pid.lower()}.rs` and run `cargo test --offline -p <package> --test seed_demo_{pid.lower()} [--features …] [--release]` with CARGO_TARGET_DIR=<repo_root>/target; only the crate's existing (dev-)dependencies are available offline. It may leave that one untracked test file behind, nothing else;
 - meta.json : {{"property": "{pid}", "summary": "<what the change does>", "files": [...], "needs": "<what it needs in order to manifest: input / sequence / configuration>", "why_tests_pass": "<why the existing suite does not notice>"}}.
Verify everything yourself before you finish: clean tree → tests pass and demo exits 0; patched tree → workspace builds, tests pass, demo exits non-zero; then restore the worktree to clean (`git -C {wt} checkout -- . && git -C {wt} clean -fdq -e target`). If you cannot find a second change that passes the suite, deliver one and say so. Finish with a 5-line summary (one line per change: what, where, what it needs to manifest). Keep going until both are verified; budget about 60-90 minutes.""")
