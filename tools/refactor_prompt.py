#!/usr/bin/env python3
"""prints the prompt for an agent that writes HARMLESS (behaviour-preserving) rewrites of one area of /repo:
tools/refactor_prompt.py <area>   (areas: chacha ppv-x86 ppv-portable blake groestl jh skein-threefish ppv-null)
Used to test that the checks raise no alarm on code where the properties still hold."""
import sys
AREAS = {
    "chacha": "stream-ciphers/chacha/src/guts.rs and stream-ciphers/chacha/src/rustcrypto_impl.rs (ChaCha core, Buffer wrapper, seek logic)",
    "ppv-x86": "utils-simd/ppv-lite86/src/x86_64/sse2.rs and utils-simd/ppv-lite86/src/x86_64/mod.rs (SSE2/SSSE3/SSE4.1/AVX2 vector types, dispatch macros)",
    "ppv-portable": "utils-simd/ppv-lite86/src/generic.rs and utils-simd/ppv-lite86/src/soft.rs (portable back end, x2/x4 wrappers)",
    "blake": "hashes/blake/src/lib.rs (BLAKE-224/256/384/512)",
    "groestl": "hashes/groestl/src/lib.rs and hashes/groestl/src/compressor.rs (Groestl with AES-NI)",
    "jh": "hashes/jh/src/lib.rs and hashes/jh/src/compressor.rs (JH)",
    "skein-threefish": "hashes/skein/src/lib.rs and block-ciphers/threefish/src/lib.rs (Skein and Threefish)",
    "ppv-null": "utils-simd/ppv-null/src/lib.rs (emulated vector types)",
}
a = sys.argv[1]
wt = "/tmp/refac-%s" % a
out = "/tmp/refac-%s-out" % a
print(f"""You are helping to test a verification tool for false alarms. You get your own scratch git worktree of a Rust repository (cryptocorrosion: pure-Rust SIMD crypto primitives). Work ONLY inside {wt} (the worktree, a checkout of the current HEAD) and {out} (your output directory; create it). Do NOT read or write anything under /verif or /repo.

YOUR AREA: {AREAS[a]}.

YOUR TASK: write FOUR different, realistic, BEHAVIOUR-PRESERVING rewrites of code in your area — the kind of change a maintainer makes in a refactoring or clean-up commit — each as its own patch. "Behaviour-preserving" is strict: for EVERY input, every call sequence, every build profile (debug with overflow checks and release), every cargo feature combination, every SIMD back end and target-feature setting, the public behaviour (results, errors, panics or their absence, memory accesses staying inside the slices given) must be exactly what it was. Examples of the kind wanted (be creative, make them substantial — tens of lines, not one-line renames): restructure a loop (iterator chain <-> index loop, unroll <-> roll up), split a function or inline a helper, replace a macro invocation by its expansion or the reverse, reorder independent statements, rename private items, change a private struct's field order or representation while keeping the public API, replace an arithmetic expression by an equivalent one that wraps/overflows identically in both profiles (be careful!), compute a constant table with a const fn or a build-time expression instead of literals, add an immutable `static` or `const` lookup table replacing inline literals, add `#[inline]` attributes, replace a shuffle sequence by an equivalent sequence of other intrinsics that yields bit-identical results for all operands, move code between modules, add debug_assert!s that can never fire, change private counters' types to wider ones where no overflow behaviour changes, and so on. At least one of the four should touch data layout / tables / statics, at least one control flow, at least one arithmetic or intrinsics. Do NOT touch tests, public signatures, Cargo.toml features, or code under `#[cfg(cryptocorrosion_verif)]` (verification hooks; if you move code they read, keep them compiling and returning the same values).

FOR EACH rewrite k in 1..4 write {out}/<k>/patch.diff (`git -C {wt} diff` against HEAD for exactly that rewrite; must apply with `git apply` to a clean checkout) and {out}/<k>/meta.json: {{"area": "{a}", "summary": "<what was rewritten and why it is equivalent>", "files": [...]}}. Verify each yourself: with the patch applied, `cd {wt} && CARGO_NET_OFFLINE=true CARGO_TARGET_DIR={wt}/target cargo test --workspace --no-fail-fast --offline` passes (40 tests incl. a doctest pass on the unchanged tree), and the crate(s) you touched also build with `--no-default-features` and with their other cargo features where that built before (check `cargo check -p <crate> --no-default-features --offline` on the clean tree first; `/repo/.cargo/config.toml`'s rustflag `--cfg zerocopy_derive_union_into_bytes` is already in the worktree's .cargo/config.toml), and with `RUSTFLAGS="--cfg zerocopy_derive_union_into_bytes --cfg cryptocorrosion_verif"` (hooks enabled). Write a small differential test of your own if that helps you convince yourself of equivalence (do not include it in the patch). Restore the worktree to clean between rewrites (`git -C {wt} checkout -- . && git -C {wt} clean -fdq -e target`). Always use --offline and run long commands under `timeout`. Finish with a short list: one line per rewrite. Budget about 45-60 minutes.""")
