#!/usr/bin/env python3
"""tools/seed_recheck.py <seed-id> [PROP ...] [--tier thorough]
Applies /verif/seeded/<seed-id>/patch.diff in a scratch worktree of /repo and runs the given
checks (default: the property the seed breaks) against it with VERIF_REPO; records the result in
the seed's meta.json.  /repo itself is never touched."""
import hashlib, json, os, re, shutil, subprocess, sys, time

args = [a for a in sys.argv[1:]]
tier = "quick"
if "--tier" in args:
    i = args.index("--tier"); tier = args[i + 1]; del args[i:i + 2]
sid = args[0]
d = os.path.join("/verif/seeded", sid)
meta = json.load(open(os.path.join(d, "meta.json")))
props = args[1:] or [meta["property"]]
wt = "/tmp/re-" + sid


def sh(cmd, cwd=None, env=None, timeout=7200):
    p = subprocess.run(cmd, cwd=cwd, env=env, stdout=subprocess.PIPE, stderr=subprocess.STDOUT, text=True, timeout=timeout)
    return p.returncode, p.stdout


if os.path.exists(wt):
    sh(["git", "-C", "/repo", "worktree", "remove", "--force", wt])
rc, out = sh(["git", "-C", "/repo", "worktree", "add", "-q", "--detach", wt, "HEAD"])
assert rc == 0, out
try:
    rc, out = sh(["git", "apply", os.path.join(d, "patch.diff")], cwd=wt)
    if rc != 0:
        print("patch no longer applies:", out[-400:])
        sys.exit(2)
    for prop in props:
        t0 = time.time()
        env = dict(os.environ, VERIF_REPO=wt, VERIF_TIER=tier)
        rc, out = sh(["./check", prop], cwd="/verif", env=env)
        viol = [l for l in out.split("\n") if l.startswith("VIOLATION")]
        meta.setdefault("checks", {})[prop if tier == "quick" else prop + ":" + tier] = {
            "detected": bool(viol), "exit": rc, "violation_lines": viol[:3], "wall_s": round(time.time() - t0), "tier": tier}
        print("%s vs %s (%s): exit %d, %d VIOLATION line(s)" % (sid, prop, tier, rc, len(viol)))
        for l in viol[:2]:
            print("  " + l)
        if not viol:
            print(out[-1500:])
        if viol and prop == meta["property"]:
            m2 = re.search(r"replay=(\S+)", viol[0])
            if m2 and os.path.exists(m2.group(1)):
                shutil.copy(m2.group(1), os.path.join(d, "replay_from_check.json"))
    json.dump(meta, open(os.path.join(d, "meta.json"), "w"), indent=1)
finally:
    sh(["git", "-C", "/repo", "worktree", "remove", "--force", wt])
    alt = "/verif/_build/alt-" + hashlib.sha1(wt.encode()).hexdigest()[:10]
    if os.path.exists(alt):
        shutil.rmtree(alt)
