#!/usr/bin/env python3
"""tools/seed_confirm.py <outdir/k> <seed-id> [--check]   e.g. tools/seed_confirm.py /tmp/seed-C09-out/1 C09-1 --check

Confirms an independently written breaking change in a scratch worktree of /repo:
  clean tree:   demo exits 0
  patched tree: workspace builds, the repository's test suite passes, demo exits non-zero
and, when confirmed, stores it as /verif/seeded/<seed-id>/ (patch.diff, demo files, meta.json).
With --check it then runs the property's quick check against the patched worktree
(VERIF_REPO=...) and records whether it reported a VIOLATION.  /repo itself is never touched."""
import json, os, re, shutil, subprocess, sys, time

src = os.path.abspath(sys.argv[1])
sid = sys.argv[2]
do_check = "--check" in sys.argv
meta = json.load(open(os.path.join(src, "meta.json")))
prop = meta["property"]
wt = "/tmp/conf-" + sid
env = dict(os.environ, CARGO_NET_OFFLINE="true", CARGO_TARGET_DIR=wt + "/target")


def sh(cmd, cwd=None, timeout=3600, env=env):
    p = subprocess.run(cmd, cwd=cwd, shell=isinstance(cmd, str), env=env, stdout=subprocess.PIPE, stderr=subprocess.STDOUT,
                       text=True, timeout=timeout)
    return p.returncode, p.stdout


def tests(cwd):
    rc, out = sh("cargo test --workspace --no-fail-fast --offline 2>&1", cwd=cwd)
    passed = sum(int(x) for x in re.findall(r"test result: \w+\. (\d+) passed", out))
    failed = sum(int(x) for x in re.findall(r"test result: \w+\. \d+ passed; (\d+) failed", out))
    return rc, passed, failed, out


if os.path.exists(wt):
    sh(["git", "-C", "/repo", "worktree", "remove", "--force", wt])
rc, out = sh(["git", "-C", "/repo", "worktree", "add", "-q", "--detach", wt, "HEAD"])
assert rc == 0, out
shutil.copy("/repo/Cargo.lock", wt)
res = {"confirmed": False}
try:
    rc0, o0 = sh(["bash", os.path.join(src, "demo.sh"), wt], cwd=src)
    res["demo_clean_rc"] = rc0
    sh("git clean -fdq -e target -e Cargo.lock", cwd=wt)   # the demo's test file must not join the suite
    rc, out = sh(["git", "apply", os.path.join(src, "patch.diff")], cwd=wt)
    res["patch_applies"] = rc == 0
    if rc != 0:
        res["error"] = out[-500:]
    else:
        trc, passed, failed, tout = tests(wt)
        if trc != 0 or failed:
            res["tests_tail"] = tout[-1500:]
        res.update(tests_rc=trc, tests_passed=passed, tests_failed=failed)
        rc1, o1 = sh(["bash", os.path.join(src, "demo.sh"), wt], cwd=src)
        res["demo_patched_rc"] = rc1
        res["demo_patched_tail"] = o1[-600:]
        res["confirmed"] = (rc0 == 0 and rc1 != 0 and trc == 0 and failed == 0 and passed >= 39)
    print(json.dumps(res, indent=1))
    if res["confirmed"]:
        dst = os.path.join("/verif/seeded", sid)
        if os.path.exists(dst):
            old = {}
            try:
                old = json.load(open(os.path.join(dst, "meta.json")))
            except Exception:
                pass
            shutil.rmtree(dst)
        else:
            old = {}
        shutil.copytree(src, dst)
        m = dict(meta)
        m["seed_id"] = sid
        m["confirmed"] = {"repo_head": subprocess.check_output(["git", "-C", "/repo", "rev-parse", "--short", "HEAD"], text=True).strip(),
                          "ran": ["bash demo.sh <clean worktree> -> exit 0",
                                  "git apply patch.diff; cargo test --workspace --no-fail-fast --offline -> %d passed, 0 failed" % passed,
                                  "bash demo.sh <patched worktree> -> exit %d" % rc1]}
        m["checks"] = old.get("checks", {})
        if do_check:
            # clean the demo's leftover test file so the check sees only the patch
            sh("git clean -fdq -e target -e Cargo.lock", cwd=wt)
            t0 = time.time()
            env2 = dict(os.environ, VERIF_REPO=wt)
            rc, out = sh(["./check", prop], cwd="/verif", env=env2, timeout=3600)
            viol = [l for l in out.split("\n") if l.startswith("VIOLATION")]
            m["checks"][prop] = {"detected": bool(viol), "exit": rc, "violation_lines": viol[:3], "wall_s": round(time.time() - t0),
                                 "tier": "quick"}
            print("check %s: exit %d, %d VIOLATION line(s)" % (prop, rc, len(viol)))
            for l in viol[:3]:
                print("  " + l)
            if viol:
                m2 = re.search(r"replay=(\S+)", viol[0])
                if m2 and os.path.exists(m2.group(1)):
                    shutil.copy(m2.group(1), os.path.join(dst, "replay_from_check.json"))
        json.dump(m, open(os.path.join(dst, "meta.json"), "w"), indent=1)
finally:
    sh(["git", "-C", "/repo", "worktree", "remove", "--force", wt])
    alt = None
    import hashlib
    alt = "/verif/_build/alt-" + hashlib.sha1(wt.encode()).hexdigest()[:10]
    if os.path.exists(alt):
        shutil.rmtree(alt)
