#!/usr/bin/env python3
"""tools/refac_check.py <area> <k> [CHECK ...]
Applies /tmp/refac-<area>-out/<k>/patch.diff (a behaviour-preserving rewrite written by an independent agent) in a scratch
worktree of /repo, confirms the repository's test suite still passes, runs the given quick checks against it with VERIF_REPO,
and stores patch + result under /verif/harmless/<area>-<k>/. A VIOLATION here is a FALSE ALARM to be investigated."""
import hashlib, json, os, re, shutil, subprocess, sys, time
area, k = sys.argv[1], sys.argv[2]
DEFAULT = {
    "chacha": ["C01", "C02", "C11", "C14", "C15", "C16", "C18"],
    "ppv-x86": ["C12", "C13", "C03", "C01", "C04", "C14"],
    "ppv-portable": ["C12", "C13", "C03", "C15", "C20"],
    "blake": ["C04", "C08", "C17", "C03", "C18"],
    "groestl": ["C07", "C08", "C17", "C18", "C20"],
    "jh": ["C06", "C08", "C17", "C03", "C18"],
    "skein-threefish": ["C05", "C09", "C10", "C08", "C17"],
    "ppv-null": ["C19", "C20"],
}
checks = sys.argv[3:] or DEFAULT[area]
src = "/tmp/refac-%s-out/%s" % (area, k)
wt = "/tmp/rf-%s-%s" % (area, k)
dst = "/verif/harmless/%s-%s" % (area, k)


def sh(cmd, cwd=None, env=None, timeout=7200):
    p = subprocess.run(cmd, cwd=cwd, env=env, stdout=subprocess.PIPE, stderr=subprocess.STDOUT, text=True, timeout=timeout,
                       shell=isinstance(cmd, str))
    return p.returncode, p.stdout


if os.path.exists(wt):
    sh(["git", "-C", "/repo", "worktree", "remove", "--force", wt])
rc, out = sh(["git", "-C", "/repo", "worktree", "add", "-q", "--detach", wt, "HEAD"])
assert rc == 0, out
shutil.copy("/repo/Cargo.lock", wt)
res = {"area": area, "k": k, "checks": {}}
try:
    rc, out = sh(["git", "apply", os.path.join(src, "patch.diff")], cwd=wt)
    if rc != 0:
        print("patch does not apply:", out[-300:]); sys.exit(2)
    env = dict(os.environ, CARGO_NET_OFFLINE="true", CARGO_TARGET_DIR=wt + "/target")
    rc, out = sh("cargo test --workspace --no-fail-fast --offline 2>&1", cwd=wt, env=env)
    passed = sum(int(x) for x in re.findall(r"test result: \w+\. (\d+) passed", out))
    failed = sum(int(x) for x in re.findall(r"test result: \w+\. \d+ passed; (\d+) failed", out))
    res["tests"] = {"rc": rc, "passed": passed, "failed": failed}
    print("%s-%s: tests rc=%d passed=%d failed=%d" % (area, k, rc, passed, failed))
    if rc != 0 or failed:
        print("  the rewrite does not pass the suite; skipped"); sys.exit(3)
    shutil.rmtree(wt + "/target", ignore_errors=True)
    for prop in checks:
        t0 = time.time()
        rc, out = sh(["./check", prop], cwd="/verif", env=dict(os.environ, VERIF_REPO=wt, VERIF_TIER="quick"))
        viol = [l for l in out.split("\n") if l.startswith("VIOLATION")]
        res["checks"][prop] = {"exit": rc, "violations": viol[:3], "wall_s": round(time.time() - t0)}
        print("  %s: exit %d, %d VIOLATION line(s)%s" % (prop, rc, len(viol), "" if not viol else "   <-- FALSE ALARM? " + viol[0]))
        if viol:
            m = re.search(r"replay=(\S+)", viol[0])
            if m and os.path.exists(m.group(1)):
                os.makedirs(dst, exist_ok=True)
                shutil.copy(m.group(1), os.path.join(dst, "alarm_%s.json" % prop))
    os.makedirs(dst, exist_ok=True)
    shutil.copy(os.path.join(src, "patch.diff"), dst)
    meta = {}
    try:
        meta = json.load(open(os.path.join(src, "meta.json")))
    except Exception:
        pass
    meta["result"] = res
    json.dump(meta, open(os.path.join(dst, "meta.json"), "w"), indent=1)
finally:
    sh(["git", "-C", "/repo", "worktree", "remove", "--force", wt])
    alt = "/verif/_build/alt-" + hashlib.sha1(wt.encode()).hexdigest()[:10]
    shutil.rmtree(alt, ignore_errors=True)
