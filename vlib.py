"""Common machinery of the /verif checks.

A check = proof stage (re-check the pinned Coq theorems and their assumptions)
        + build stage (harness against /repo's current working tree)
        + correspondence stage (implementation vs model/spec evaluated in Coq)
        + decision / evidence.
See DESIGN.md section 2.
"""
import fcntl
import glob
import hashlib
import json
import os
import re
import shutil
import subprocess
import sys
import time
from concurrent.futures import ThreadPoolExecutor

ROOT = os.path.dirname(os.path.abspath(__file__))
COQ = os.path.join(ROOT, "coq")
BUILD = os.path.join(ROOT, "_build")
HARNESS = os.path.join(ROOT, "harness")
TARGET = os.path.join(BUILD, "target")
# VERIF_REPO=<scratch worktree> runs a check against a copy of the repository (used only for
# exercising the checks against seeded changes, in parallel, without touching /repo). Registered
# checks and committed evidence always use /repo itself.
REPO = os.path.abspath(os.environ.get("VERIF_REPO", "/repo"))
ALT = None if REPO == "/repo" else hashlib.sha1(REPO.encode()).hexdigest()[:10]
if ALT:
    BUILD = os.path.join(BUILD, "alt-" + ALT)
    TARGET = os.path.join(BUILD, "target")
OUTROOT = ROOT if not ALT else BUILD      # where evidence/ and replays/ are written
GUARD = "cryptocorrosion_verif"
BASE_RUSTFLAGS = ["--cfg", "zerocopy_derive_union_into_bytes", "--cfg", GUARD]
NCPU = 16

ALLOWED_AXIOMS = set()  # the goal is "Closed under the global context" everywhere

FORBIDDEN = re.compile(
    r"\b(Admitted|admit|Axiom|Axioms|Parameter|Parameters|Conjecture|Conjectures|Abort All)\b"
    r"|Unset\s+Guard|bypass_check|type-in-type|impredicative-set|Admit\s+Obligations"
)

TRUSTED_BASE_COMMON = [
    "Coq 8.16.1 kernel incl. its vm_compute reduction machine (used in proofs by reflection and to evaluate the model on cases); native_compute is not used",
    "axioms: none (every pinned theorem prints 'Closed under the global context')",
    "the specification transcriptions in coq/Spec (anchored by published known-answer vectors)",
    "the hand-written model in coq/Model is tied to /repo only on the generated cases of this run (differential correspondence): Rust harness in /verif/harness, its case generators and Coq-literal printer, coq/Run/*.v",
    "rustc/LLVM code generation, the cipher/digest/block-buffer/generic-array/zerocopy crates, little-endian x86-64 host",
]


class CheckError(Exception):
    pass


def sh(cmd, cwd=None, env=None, timeout=None, check=False):
    p = subprocess.run(cmd, cwd=cwd, env=env, timeout=timeout, stdout=subprocess.PIPE,
                       stderr=subprocess.STDOUT, text=True)
    if check and p.returncode != 0:
        raise CheckError("command failed (%d): %s\n%s" % (p.returncode, " ".join(cmd), p.stdout[-4000:]))
    return p.returncode, p.stdout


class Lock:
    def __init__(self, name):
        os.makedirs(BUILD, exist_ok=True)
        self.path = os.path.join(BUILD, name)

    def __enter__(self):
        self.f = open(self.path, "w")
        fcntl.flock(self.f, fcntl.LOCK_EX)
        return self

    def __exit__(self, *a):
        fcntl.flock(self.f, fcntl.LOCK_UN)
        self.f.close()


# --------------------------------------------------------------------------
# Coq
# --------------------------------------------------------------------------

def gen_coqproject():
    """_CoqProject is generated from the file tree (coq/scratch is excluded)."""
    files = []
    for sub in ("Lib", "Spec", "Model", "Proofs", "Run", "Props"):
        files += sorted(os.path.relpath(f, COQ) for f in glob.glob(os.path.join(COQ, sub, "*.v")))
    txt = "-Q . CC\n-arg -w -arg -notation-overridden,-deprecated-hint-without-locality,-deprecated-instance-without-locality\n" \
        + "\n".join(files) + "\n"
    path = os.path.join(COQ, "_CoqProject")
    if not os.path.exists(path) or open(path).read() != txt:
        open(path, "w").write(txt)
        return True
    return False


COQ_WARN = "-notation-overridden,-deprecated-hint-without-locality,-deprecated-instance-without-locality"


def coq_deps():
    """coqdep over the tree: {file.v: [dep.v ...]} (paths relative to coq/)."""
    files = []
    for sub in ("Lib", "Spec", "Model", "Proofs", "Run", "Props"):
        files += sorted(os.path.relpath(f, COQ) for f in glob.glob(os.path.join(COQ, sub, "*.v")))
    rc, out = sh(["coqdep", "-Q", ".", "CC"] + files, cwd=COQ, timeout=300)
    deps = {f: [] for f in files}
    for line in out.split("\n"):
        if ":" not in line:
            continue
        lhs, rhs = line.split(":", 1)
        first = lhs.split()[0] if lhs.split() else ""
        if not first.endswith(".vo"):
            continue
        v = first[:-1]
        if v in deps:
            deps[v] = [d[:-1] for d in rhs.split() if d.endswith(".vo") and d[:-1] in deps and d[:-1] != v]
    return deps


def _stale(v, deps, rebuilt):
    vo = os.path.join(COQ, v + "o")
    if not os.path.exists(vo):
        return True
    t = os.path.getmtime(vo)
    if os.path.getmtime(os.path.join(COQ, v)) > t:
        return True
    for d in deps[v]:
        if d in rebuilt:
            return True
        dvo = os.path.join(COQ, d + "o")
        if not os.path.exists(dvo) or os.path.getmtime(dvo) > t:
            return True
    return False


def coq_make(targets=None, timeout=3000, keep_going=False):
    """Full .vo build (plain coqc, never -vos) of the given targets (default: everything) and their
    dependency cones. Safe to run concurrently from several processes: one flock per file.
    (setup.sh uses coq_makefile + make for the clean build; this is the incremental driver.)
    Returns (ok, log)."""
    from concurrent.futures import ThreadPoolExecutor as TPE
    gen_coqproject()
    deps = coq_deps()
    if targets:
        want = []
        for t in targets:
            t = t[:-1] if t.endswith(".vo") else t
            if t not in deps:
                return False, "no such file: %s" % t
            want.append(t)
    else:
        want = list(deps)
    cone, order = set(), []

    def visit(v):
        if v in cone:
            return
        cone.add(v)
        for d in deps[v]:
            visit(d)
        order.append(v)
    for t in want:
        visit(t)
    os.makedirs(os.path.join(ROOT, "_build", "locks"), exist_ok=True)
    rebuilt, failed, logs = set(), set(), []
    futs = {}
    deadline = time.time() + timeout

    def task(v):
        for d in deps[v]:
            futs[d].result()
        if any(d in failed for d in deps[v]):
            failed.add(v)
            return
        if failed and not keep_going:
            failed.add(v)
            return
        lock = os.path.join(ROOT, "_build", "locks", v.replace("/", "__") + ".lock")
        with open(lock, "w") as lf:
            fcntl.flock(lf, fcntl.LOCK_EX)
            try:
                if not _stale(v, deps, rebuilt):
                    return
                left = max(10, int(deadline - time.time()))
                t0 = time.time()
                rc, out = sh(["timeout", str(left), "coqc", "-q", "-Q", ".", "CC", "-w", COQ_WARN, v], cwd=COQ,
                             timeout=left + 30)
                logs.append("COQC %s (%.1fs)%s" % (v, time.time() - t0, "" if rc == 0 else " FAILED rc=%d\n%s" % (rc, out[-3000:])))
                if rc != 0:
                    failed.add(v)
                    vo = os.path.join(COQ, v + "o")
                    if os.path.exists(vo):
                        os.remove(vo)
                else:
                    rebuilt.add(v)
            finally:
                fcntl.flock(lf, fcntl.LOCK_UN)

    with TPE(max_workers=NCPU) as ex:
        for v in order:
            futs[v] = ex.submit(task, v)
        for v in order:
            futs[v].result()
    ok = not any(t in failed for t in want)
    return ok, "\n".join(logs) + ("\nFAILED: %s" % sorted(failed) if failed else "\nbuild ok (%d files in cone, %d rebuilt)" % (len(order), len(rebuilt)))


def forbidden_scan():
    """grep the whole development for declarations that would add to the trusted base."""
    hits = []
    for path in sorted(glob.glob(os.path.join(COQ, "**", "*.v"), recursive=True)):
        txt = open(path).read()
        # strip comments (non-nested is enough: we never nest them)
        txt_nc = re.sub(r"\(\*.*?\*\)", lambda m: "\n" * m.group(0).count("\n"), txt, flags=re.S)
        for n, line in enumerate(txt_nc.split("\n"), 1):
            if FORBIDDEN.search(line):
                hits.append("%s:%d: %s" % (os.path.relpath(path, ROOT), n, line.strip()))
    return hits


def proof_stage(prop, extra_props=()):
    """Re-check Props/<prop>.v: every Theorem compiles, every Print Assumptions is closed."""
    res = {"obligations": 0, "discharged": 0, "theorems": [], "problems": [], "axioms": []}
    files = [os.path.join(COQ, "Props", "%s.v" % p) for p in (prop,) + tuple(extra_props)]
    ok, log = coq_make([os.path.relpath(f, COQ) + "o" for f in files])
    if not ok:
        res["problems"].append("coq build failed: " + log[-3000:])
    names = []
    for f in files:
        src = open(f).read()
        src_nc = re.sub(r"\(\*.*?\*\)", "", src, flags=re.S)
        names += re.findall(r"^\s*Theorem\s+(\w+)", src_nc, flags=re.M)
    res["theorems"] = names
    res["obligations"] = len(names)
    hits = forbidden_scan()
    if hits:
        res["problems"].append("forbidden declarations: " + "; ".join(hits[:10]))
    closed = set()
    if ok:
        for f in files:
            rel = os.path.relpath(f, COQ)
            vo = f[:-2] + ".vo"
            # always recompile the property file itself and read what the kernel says
            rc, out = sh(["timeout", "900", "coqc", "-q", "-Q", ".", "CC", "-w", COQ_WARN, rel], cwd=COQ, timeout=1000)
            if rc != 0:
                res["problems"].append("%s does not compile: %s" % (rel, out[-2000:]))
                continue
            src_nc = re.sub(r"\(\*.*?\*\)", "", open(f).read(), flags=re.S)
            printed = re.findall(r"Print Assumptions\s+(\w+)\s*\.", src_nc)
            # split coqc output into one block per Print Assumptions
            blocks = re.split(r"(?=Closed under the global context|Axioms:)", out)
            blocks = [b for b in blocks if b.startswith("Closed under") or b.startswith("Axioms:")]
            if len(blocks) != len(printed):
                res["problems"].append("%s: %d Print Assumptions, %d results" % (rel, len(printed), len(blocks)))
                continue
            for name, b in zip(printed, blocks):
                if b.startswith("Closed under"):
                    closed.add(name)
                else:
                    ax = re.findall(r"^(\S+)\s*:", b, flags=re.M)
                    ax = [a for a in ax if a != "Axioms"]
                    res["axioms"].append({name: ax})
                    if set(ax) <= ALLOWED_AXIOMS:
                        closed.add(name)
                    else:
                        res["problems"].append("%s depends on axioms %s" % (name, ax))
    for n in names:
        if n not in closed:
            if ok:
                res["problems"].append("theorem %s has no closed Print Assumptions" % n)
    res["discharged"] = len([n for n in names if n in closed]) if not hits else 0
    res["props_sha256"] = hashlib.sha256(b"".join(open(f, "rb").read() for f in files)).hexdigest()
    return res


def parse_indices(out):
    m = re.search(r"=\s*(\[.*?\])\s*:\s*list N", out, flags=re.S)
    if not m:
        return None
    return [int(x) for x in re.findall(r"\d+", m.group(1))]


def coq_eval_dir(d, shards, timeout=1500):
    """Run coqc on cases_<k>.v in d (parallel). Returns (failing global indices, errors)."""
    def one(k):
        f = "cases_%d.v" % k
        if not os.path.exists(os.path.join(d, f)):
            return k, [], None
        rc, out = sh(["timeout", str(timeout), "coqc", "-noglob", "-Q", COQ, "CC", f], cwd=d, timeout=timeout + 30)
        if rc != 0:
            why = "coqc timed out after %d s (the volume of this shard is too large for the machine's load)" % timeout if rc == 124 else "coqc exit %d" % rc
            return k, None, why + ": " + out[-2000:]
        idx = parse_indices(out)
        if idx is None:
            return k, None, "unparsable coqc output: " + out[-1000:]
        return k, idx, None
    failing, errors = [], []
    with ThreadPoolExecutor(max_workers=NCPU) as ex:
        for k, idx, err in ex.map(one, range(shards)):
            if err is not None:
                errors.append("shard %d: %s" % (k, err))
            else:
                failing += [j * shards + k for j in idx]
    return sorted(failing), errors


def coq_explain(d, shards, index, explain):
    """Evaluate `explain` (case -> list N) on one case; returns list of ints or an error string."""
    k, j = index % shards, index // shards
    src = open(os.path.join(d, "cases_%d.v" % k)).read()
    src = src[: src.rindex("Eval vm_compute")]
    src += "Eval vm_compute in (match nth_error cases %d with Some c => %s c | None => [] end).\n" % (j, explain)
    f = "explain_%d.v" % index
    open(os.path.join(d, f), "w").write(src)
    rc, out = sh(["timeout", "600", "coqc", "-noglob", "-Q", COQ, "CC", f], cwd=d, timeout=630)
    if rc != 0:
        return "coqc failed: " + out[-500:]
    idx = parse_indices(out)
    return idx if idx is not None else out[-500:]


# --------------------------------------------------------------------------
# Rust harness
# --------------------------------------------------------------------------

def cargo_build(features=(), profile="debug", rustflags=(), no_default=False, timeout=1800, bin_name="harness"):
    """Build the harness against /repo's current working tree. Returns (binary path | None, log)."""
    os.makedirs(BUILD, exist_ok=True)
    harness = HARNESS
    if ALT:   # private copy of the harness whose path dependencies point into the scratch worktree
        harness = os.path.join(BUILD, "harness")
        sh(["rsync", "-a", "--delete", "--exclude", "target", "--exclude", "Cargo.lock", HARNESS + "/", harness + "/"], check=True)
        ct = open(os.path.join(HARNESS, "Cargo.toml")).read().replace('"/repo/', '"%s/' % REPO)
        if open(os.path.join(harness, "Cargo.toml")).read() != ct:
            open(os.path.join(harness, "Cargo.toml"), "w").write(ct)
    lockfile = os.path.join(REPO, "Cargo.lock")
    if not os.path.exists(lockfile):      # Cargo.lock is not tracked: a scratch worktree has none
        lockfile = "/repo/Cargo.lock"
    shutil.copyfile(lockfile, os.path.join(harness, "Cargo.lock"))
    env = dict(os.environ)
    env["CARGO_NET_OFFLINE"] = "true"
    env["CARGO_TARGET_DIR"] = TARGET if not rustflags else os.path.join(
        BUILD, "target-" + hashlib.sha1(" ".join(rustflags).encode()).hexdigest()[:8])
    env["RUSTFLAGS"] = " ".join(BASE_RUSTFLAGS + list(rustflags))
    cmd = ["cargo", "build", "--offline", "--quiet", "--bin", bin_name]
    if profile == "release":
        cmd.append("--release")
    if no_default:
        cmd.append("--no-default-features")
    if features:
        cmd += ["--features", ",".join(features)]
    with Lock("cargo.lock"):
        rc, out = sh(cmd, cwd=harness, env=env, timeout=timeout)
        if rc != 0:
            return None, diagnose_build_failure(out)
        src = os.path.join(env["CARGO_TARGET_DIR"], profile, bin_name)
        tag = hashlib.sha1(("%s|%s|%s|%s" % (sorted(features), profile, rustflags, no_default)).encode()).hexdigest()[:10]
        dst = os.path.join(BUILD, "bin", "%s-%s" % (bin_name, tag))
        os.makedirs(os.path.dirname(dst), exist_ok=True)
        # another check may be executing the previous copy: never write into it (ETXTBSY); replace atomically
        tmp = "%s.%d.tmp" % (dst, os.getpid())
        shutil.copyfile(src, tmp)
        os.chmod(tmp, 0o755)
        os.replace(tmp, dst)
    return dst, out


def native_rustflags():
    """-C target-feature=... for the SIMD features this machine has (from /proc/cpuinfo), so that the
    compile-time `cfg(target_feature = ...)` arms of the crates are compiled and can be executed here.
    Returns [] when none of them is present."""
    want = [("ssse3", "ssse3"), ("sse4_1", "sse4.1"), ("aes", "aes"), ("avx", "avx"), ("avx2", "avx2")]
    try:
        flags = set()
        for line in open("/proc/cpuinfo"):
            if line.startswith("flags"):
                flags = set(line.split(":", 1)[1].split())
                break
    except OSError:
        return []
    have = ["+" + rust for cpu, rust in want if cpu in flags]
    return ["-C", "target-feature=" + ",".join(have)] if have else []


def diagnose_build_failure(out):
    """A harness build failure is reported as a violation (the property can no longer be checked). Say which kind it
    is: if the repository itself still compiles WITHOUT the verification cfg but not WITH it, the add-only hooks under
    #[cfg(cryptocorrosion_verif)] name private items that a (possibly harmless) rewrite renamed or moved: the hooks,
    not necessarily a property, need attention."""
    try:
        env = dict(os.environ, CARGO_NET_OFFLINE="true", CARGO_TARGET_DIR=os.path.join(BUILD, "target-diagnose"))
        env["RUSTFLAGS"] = "--cfg zerocopy_derive_union_into_bytes"
        rc_plain, _ = sh(["cargo", "check", "--offline", "--quiet", "--workspace"], cwd=REPO, env=env, timeout=1200)
        env["RUSTFLAGS"] = " ".join(BASE_RUSTFLAGS)
        rc_hook, o2 = sh(["cargo", "check", "--offline", "--quiet", "--workspace"], cwd=REPO, env=env, timeout=1200)
        if rc_plain == 0 and rc_hook != 0:
            return ("HOOK-OUT-OF-DATE: the repository compiles without --cfg %s but not with it: the verification hooks "
                    "(cfg-guarded, add-only) no longer match the private items they read; this is not by itself a property "
                    "violation. rustc says:\n%s\n--- harness build output ---\n%s" % (GUARD, o2[-1500:], out[-1500:]))
        if rc_plain != 0:
            return "THE REPOSITORY ITSELF DOES NOT COMPILE (cargo check --workspace):\n" + out[-3000:]
    except Exception as e:  # diagnosis is best effort
        return out + "\n(diagnosis failed: %s)" % e
    return out


def run_harness(binary, args, timeout=1800, env_extra=None):
    env = dict(os.environ)
    if env_extra:
        env.update(env_extra)
    p = subprocess.run([binary] + [str(a) for a in args], stdout=subprocess.PIPE, stderr=subprocess.PIPE,
                       text=True, timeout=timeout, env=env)
    if p.returncode != 0:
        raise CheckError("harness failed (%d): %s %s\n%s" % (p.returncode, binary, args, p.stderr[-3000:]))
    line = p.stdout.strip().split("\n")[-1]
    return json.loads(line)


# --------------------------------------------------------------------------
# Known findings, replays, evidence
# --------------------------------------------------------------------------

def known_findings(prop):
    path = os.path.join(ROOT, "known_findings.json")
    if not os.path.exists(path):
        return []
    data = json.load(open(path))
    return [f for f in data.get("open", []) if f.get("property") == prop]


class Ctx:
    def __init__(self, prop, tier, seed):
        self.prop, self.tier, self.seed = prop, tier, seed
        self.t0 = time.time()
        self.work = os.path.join(BUILD, "work", prop)
        if os.path.exists(self.work):
            shutil.rmtree(self.work)
        os.makedirs(self.work)
        self.violations = []       # (replay_path, no_input)
        self.cov = {"evaluations": 0, "distinct_nontrivial": 0, "samples": [], "configurations": []}
        self.assumptions = []
        self.proof = None
        self.known_hits = []

    @property
    def quick(self):
        return self.tier == "quick"

    def log(self, *a):
        print("[%s %6.1fs]" % (self.prop, time.time() - self.t0), *a, flush=True)

    def replay(self, obj, tag=""):
        os.makedirs(os.path.join(OUTROOT, "replays"), exist_ok=True)
        body = json.dumps(obj, indent=1, sort_keys=True)
        h = hashlib.sha1(body.encode()).hexdigest()[:10]
        path = os.path.join(OUTROOT, "replays", "%s-%s%s.json" % (self.prop, tag, h))
        open(path, "w").write(body + "\n")
        return path

    def violation(self, obj, no_input=False):
        obj = dict(obj)
        obj.setdefault("property", self.prop)
        obj.setdefault("seed", self.seed)
        obj.setdefault("tier", self.tier)
        path = self.replay(obj)
        self.violations.append((path, no_input))
        print("VIOLATION property=%s replay=%s%s" % (self.prop, path, " no-failing-input-found" if no_input else ""),
              flush=True)

    def add_cov(self, summary, config):
        self.cov["evaluations"] += int(summary.get("evaluations", 0))
        self.cov["distinct_nontrivial"] += int(summary.get("distinct_nontrivial", 0))
        for s in summary.get("samples", [])[:2]:
            if len(self.cov["samples"]) < 8:
                self.cov["samples"].append({"config": config, "case": s})
        extra = {k: v for k, v in summary.items()
                 if k not in ("samples", "direct_failures", "evaluations", "distinct_nontrivial", "failures")
                 and not k.startswith("_")}
        self.cov["configurations"].append({"config": config, "evaluations": summary.get("evaluations", 0),
                                           "distribution": extra})

    def finish(self, meta):
        proof = self.proof or {"obligations": 0, "discharged": 0, "theorems": [], "problems": ["proof stage not run"]}
        cov = dict(self.cov)
        cov.update({
            "obligations": proof["obligations"],
            "discharged": proof["discharged"],
            "theorems": proof["theorems"],
            "proof_problems": proof["problems"],
            "props_sha256": proof.get("props_sha256", ""),
            "axioms_reported": proof.get("axioms", []),
            "coqchk": proof.get("coqchk", "not run in the quick tier"),
            "checker_cmd": "cd /verif/coq && coq_makefile -f _CoqProject -o Makefile && make -j16 && coqc -Q . CC Props/%s.v  (driver: /verif/check %s)" % (self.prop, self.prop),
            "trusted_base": TRUSTED_BASE_COMMON + meta.get("trusted_extra", []),
            "rule": meta.get("rule", ""),
            "traces_validated_against_impl": cov["evaluations"],
            "known_findings_hit": self.known_hits,
        })
        if not cov["samples"]:
            cov["samples"] = [{"obligation": t} for t in proof["theorems"][:3]] or ["none"]
        ev = {
            "property_id": self.prop,
            "tier": self.tier,
            "seed": self.seed,
            "level": "proof",
            "coverage": cov,
            "assumptions": meta.get("assumptions", []) + self.assumptions,
            "wall_s": round(time.time() - self.t0, 2),
            "violations": len(self.violations),
        }
        os.makedirs(os.path.join(OUTROOT, "evidence"), exist_ok=True)
        with open(os.path.join(OUTROOT, "evidence", "%s.json" % self.prop), "w") as f:
            json.dump(ev, f, indent=1)
            f.write("\n")
        return 1 if self.violations else 0


def coqchk_stage(props, timeout=2400):
    """Independent re-check (coqchk) of the compiled property files and everything they depend on."""
    mods = ["CC.Props." + p for p in props]
    rc, out = sh(["timeout", str(timeout), "coqchk", "-o", "-silent", "-Q", ".", "CC"] + mods, cwd=COQ, timeout=timeout + 60)
    summary = out[out.find("CONTEXT SUMMARY"):] if "CONTEXT SUMMARY" in out else out[-1500:]
    problems = []
    if rc != 0:
        problems.append("coqchk failed (rc %d): %s" % (rc, out[-1500:]))
    for key in ("Axioms", "Constants/Inductives relying on type-in-type", "Constants/Inductives relying on unsafe (co)fixpoints",
                "Inductives whose positivity is assumed"):
        m = re.search(re.escape(key) + r":\s*(.*?)(?=\n\s*\*|\Z)", summary, flags=re.S)
        val = m.group(1).strip() if m else "?"
        if val != "<none>":
            problems.append("coqchk: %s: %s" % (key, val[:500]))
    return problems, summary


def standard_proof_stage(ctx, extra_props=()):
    ctx.log("proof stage")
    ctx.proof = proof_stage(ctx.prop, extra_props)
    if not ctx.quick and not ctx.proof["problems"] and os.environ.get("VERIF_NO_COQCHK") != "1":
        ctx.log("coqchk (thorough tier)")
        probs, summary = coqchk_stage((ctx.prop,) + tuple(extra_props))
        ctx.proof["coqchk"] = summary[-600:]
        ctx.proof["problems"] += probs
    if ctx.proof["problems"] or ctx.proof["discharged"] != ctx.proof["obligations"] or ctx.proof["obligations"] == 0:
        ctx.violation({"kind": "proof-obligation", "theorems": ctx.proof["theorems"],
                       "problems": ctx.proof["problems"],
                       "note": "a pinned theorem of Props/%s.v no longer checks; no failing input is derived from a proof failure alone" % ctx.prop},
                      no_input=True)
        return False
    ctx.log("proof stage ok: %d/%d theorems closed under the global context" %
            (ctx.proof["discharged"], ctx.proof["obligations"]))
    return True


def correspondence(ctx, binary, sub, args, config, explain=None, shards=NCPU, theorem=""):
    """Run harness sub-command, evaluate shards in Coq, report disagreements. Returns summary."""
    d = os.path.join(ctx.work, re.sub(r"[^A-Za-z0-9_.-]", "_", config))
    os.makedirs(d, exist_ok=True)
    # a different stream per configuration, all derived from the one seed
    cseed = (ctx.seed * 1000003 + int(hashlib.sha1(config.encode()).hexdigest()[:6], 16)) % (1 << 62)
    summary = run_harness(binary, [sub, "--seed", cseed, "--shards", shards, "--out", d] + list(args))
    summary["_seed"] = cseed
    ctx.add_cov(summary, config)
    failing, errors = coq_eval_dir(d, shards, timeout=1500 if ctx.quick else 3400)
    cases = None
    if os.path.exists(os.path.join(d, "cases.json")):
        try:
            cases = json.load(open(os.path.join(d, "cases.json")))
        except Exception as e:  # noqa
            errors.append("cases.json unreadable: %s" % e)
    if errors:
        ctx.violation({"kind": "correspondence-not-evaluable", "config": config, "errors": errors[:4],
                       "note": "the model could not be evaluated on the generated cases"}, no_input=True)
    summary["failing"] = failing
    summary["_dir"] = d
    summary["_cases"] = cases
    summary["_config"] = config
    summary["_shards"] = shards
    summary["_harness"] = [os.path.basename(binary), sub] + [str(a) for a in args]
    return summary


def _case_report(ctx, summary, i, explain, theorem):
    cases = summary["_cases"]
    rep = {"kind": "implementation-differs-from-model", "config": summary["_config"], "case_index": i,
           "case": cases[i] if cases and i < len(cases) else None,
           "authoritative_theorem": theorem, "harness": summary["_harness"],
           "harness_seed": summary.get("_seed")}
    if explain:
        r = coq_explain(summary["_dir"], summary["_shards"], i, explain)
        rep["model_says"] = [hex(x) for x in r] if isinstance(r, list) else r
    return rep


def decide_absolute(ctx, summary, explain=None, theorem=""):
    """Model = Spec is a theorem, so a case where the implementation differs from the model
    is a failing input of the property."""
    for i in summary["failing"][:3]:
        ctx.violation(_case_report(ctx, summary, i, explain, theorem))
    for f in summary.get("direct_failures", [])[:3]:
        ctx.violation({"kind": "property-fails-on-implementation", "config": summary["_config"], "case": f,
                       "harness": summary["_harness"]})
    return not summary["failing"] and not summary.get("direct_failures")


def decide_relative(ctx, summary, explain=None, theorem="", what=""):
    """The property relates the implementation to itself. A direct failure is a failing input.
    A model disagreement alone only breaks the correspondence: the property is no longer shown."""
    direct = summary.get("direct_failures", [])
    for f in direct[:3]:
        ctx.violation({"kind": "property-fails-on-implementation", "config": summary["_config"], "case": f,
                       "harness": summary["_harness"]})
    if summary["failing"] and not direct:
        i = summary["failing"][0]
        rep = _case_report(ctx, summary, i, explain, theorem)
        rep["kind"] = "correspondence-broken"
        rep["note"] = ("the implementation no longer behaves like the model the theorem is about (%s); "
                       "the direct search over %d generated cases found no input on which the property itself fails"
                       % (what, summary.get("evaluations", 0)))
        rep["disagreeing_cases"] = len(summary["failing"])
        ctx.violation(rep, no_input=True)
    return not summary["failing"] and not direct
