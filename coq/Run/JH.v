(** Case runner for C06 (and the JH part of C17): generated cases_*.v import this. *)
From Coq Require Import NArith List Bool.
From CC Require Import Lib.Words Lib.Bytes Model.BlockBuffer Model.JH Run.Runner.
From CC Require Spec.JH.
Import ListNotations.
Local Open Scope N_scope.

(** * digests

    variant (224/256/384/512), debug profile?;
    hook?: state entered with verif_set_state (chaining value, datalen, buffered bytes);
    message (or tail), fed as [update(msg)] when split = len, else
    [update(msg[..split]); update(msg[split..])];
    implementation: panicked?, (datalen, buffer position, chaining value) read back with
    verif_get_state after the updates, digest *)
Record jhcase := JHC {
  jc_size : N; jc_debug : bool;
  jc_hook : bool; jc_cv : N; jc_datalen : N; jc_nbuf : N; jc_buf : N;
  jc_len : N; jc_msg : N; jc_split : N;
  jc_panic : bool; jc_adatalen : N; jc_apos : N; jc_acv : N; jc_dig : N }.

Definition variant_of (size : N) : variant :=
  if size =? 224 then Jh224 else if size =? 256 then Jh256
  else if size =? 384 then Jh384 else Jh512.
Definition prof_of (c : jhcase) : profile := if jc_debug c then Debug else Release.

Definition calls_of (c : jhcase) : list (list N) :=
  let msg := B (jc_len c) (jc_msg c) in
  let k := N.to_nat (jc_split c) in
  if jc_split c =? jc_len c then [msg] else [firstn k msg; skipn k msg].

(** model: ((datalen, pos, chaining value) after the updates, digest); None = panic *)
Definition model_run (c : jhcase) : option ((N * N * list N) * list N) :=
  let v := variant_of (jc_size c) in
  let pr := prof_of c in
  let h0 := h_default v in
  let h1 := if jc_hook c
            then Hasher (compressor_new (B 128 (jc_cv c)))
                        (fst (input_block (bb_reset (h_buffer h0)) (B (jc_nbuf c) (jc_buf c))))
                        (jc_datalen c)
            else h0 in
  match h_updates pr h1 (calls_of c) with
  | None => None
  | Some h2 =>
      match h_finalize pr v h2 with
      | None => None
      | Some d => Some ((h_datalen h2, N.of_nat (bb_pos (h_buffer h2)),
                         compressor_finalize (h_state h2)), d)
      end
  end.

(** the specification applies to a hook state that is reachable in principle
    (datalen = 64 k + buffered bytes) while the total stays below the 2^61 bytes
    at which [datalen * 8] leaves 64 bits *)
Definition spec_applies (c : jhcase) : bool :=
  if jc_hook c
  then (jc_datalen c mod 64 =? jc_nbuf c) && (jc_datalen c + jc_len c <? 2 ^ 61)
  else true.
Definition spec_run (c : jhcase) : list N :=
  let msg := B (jc_len c) (jc_msg c) in
  if jc_hook c
  then Spec.JH.jh_tail (jc_size c) (B 128 (jc_cv c)) (jc_datalen c + jc_len c)
         (B (jc_nbuf c) (jc_buf c) ++ msg)
  else Spec.JH.jh (jc_size c) msg.

Definition run_c06 (c : jhcase) : bool :=
  let dig := B (jc_size c / 8) (jc_dig c) in
  match model_run c with
  | None => jc_panic c
  | Some (dl, pos, cv, d) =>
      negb (jc_panic c) && (dl =? jc_adatalen c) && (pos =? jc_apos c)
      && list_eqb cv (B 128 (jc_acv c)) && list_eqb d dig
      && (if spec_applies c then list_eqb (spec_run c) dig else true)
  end.

(** for replay files: [model panicked; model datalen; pos; chaining value; model digest;
    spec applies; spec digest] (byte strings as little-endian numbers) *)
Definition explain_c06 (c : jhcase) : list N :=
  (match model_run c with
   | None => [1; 0; 0; 0; 0]
   | Some (dl, pos, cv, d) => [0; dl; pos; le_join cv; le_join d]
   end) ++ (if spec_applies c then [1; le_join (spec_run c)] else [0; 0]).

(** * F8 directly: [f8_impl::<M>] on the machines in the bit set [f_machs]
    (1 host dispatch through Compressor, 2 SSE2, 4 SSSE3, 8 SSE4.1, 16 AVX2)
    all returned [f_out] for (state, block) *)
Record f8case := F8C { f_machs : N; f_state : N; f_block : N; f_out : N }.

Definition run_c06_f8 (c : f8case) : bool :=
  let st := B 128 (f_state c) in let blk := B 64 (f_block c) in
  let out := B 128 (f_out c) in
  list_eqb (m_f8 st blk) out && list_eqb (Spec.JH.F8 st blk) out.

Definition explain_c06_f8 (c : f8case) : list N :=
  let st := B 128 (f_state c) in let blk := B 64 (f_block c) in
  [le_join (m_f8 st blk); le_join (Spec.JH.F8 st blk)].
