(** Case runners for the ChaCha properties C01, C02, C11, C14, C15. *)
From Coq Require Import NArith ZArith List Bool.
From CC Require Import Lib.Words Lib.Bytes Lib.ListX Spec.Lanes Run.Runner.
From CC Require Import Model.ChaChaGuts Model.ChaChaStream.
From CC Require Spec.ChaCha.
Import ListNotations.
Local Open Scope N_scope.

Definition variant_of (v : N) : variant := if v =? 0 then VDjb else if v =? 1 then VIetf else VX.
Definition layout_of (v : N) : Spec.ChaCha.layout :=
  if v =? 0 then Spec.ChaCha.Djb else if v =? 1 then Spec.ChaCha.Ietf else Spec.ChaCha.XDjb.
Definition res_code (r : result) : N := match r with ROk => 0 | RErr => 1 | RPanic => 2 end.

(** * C01: seek to [pos], apply [data]; implementation result [res] (0 ok / 1 err / 2 panic) and output *)
Record c01case := C01 { c1_v : N; c1_dr : N; c1_key : N; c1_nlen : N; c1_nonce : N;
                        c1_pos : N; c1_len : N; c1_data : N; c1_res : N; c1_out : N }.

Definition c01_model (c : c01case) : N * list N :=
  let key := B 32 (c1_key c) in let nonce := B (c1_nlen c) (c1_nonce c) in
  let data := B (c1_len c) (c1_data c) in
  match m_run (variant_of (c1_v c)) (N.to_nat (c1_dr c)) key nonce
              [OSeek (Z.of_N (c1_pos c)); OApply data] with
  | [ObsSeek ROk; ObsApply r out] => (res_code r, out)
  | [ObsSeek r; _] => (res_code r + 10, [])
  | _ => (99, [])
  end.

Definition c01_spec (c : c01case) : N * list N :=
  let key := B 32 (c1_key c) in let nonce := B (c1_nlen c) (c1_nonce c) in
  let data := B (c1_len c) (c1_data c) in
  let l := layout_of (c1_v c) in
  if 64 * Spec.ChaCha.blocks_of l <? c1_pos c + c1_len c then (1, data)
  else (0, Spec.ChaCha.spec_apply l (N.to_nat (c1_dr c)) key nonce (c1_pos c) data).

Definition run_c01 (c : c01case) : bool :=
  let '(mr, mo) := c01_model c in
  let '(sr, so) := c01_spec c in
  let io := B (c1_len c) (c1_out c) in
  (mr =? c1_res c) && (sr =? c1_res c) && list_eqb mo io && list_eqb so io.

Definition explain_c01 (c : c01case) : list N :=
  let '(mr, mo) := c01_model c in let '(sr, so) := c01_spec c in
  [mr; le_join mo; sr; le_join so].

(** * C02 / C11: histories with a block oracle taken from the implementation *)
Inductive hop :=
| HSeek (pos : Z) (res : N)
| HApply (len : N) (data : N) (res : N) (out : N)
| HPos (tmax : Z) (ok : bool) (pos : Z).

(** [is12], initial d words, oracle (d words as one 128-bit number -> 64-byte block), ops *)
Record histcase := Hist { h_is12 : bool; h_d : list N; h_oracle : list (N * N); h_ops : list hop }.

Definition dkey (d : list N) : N :=
  nth 0 d 0 + N.shiftl (nth 1 d 0) 32 + N.shiftl (nth 2 d 0) 64 + N.shiftl (nth 3 d 0) 96.

Fixpoint lookup (t : list (N * N)) (k : N) : list N :=
  match t with
  | [] => repeat 0xEE 64     (* a block the oracle does not know: poison *)
  | (k', v) :: r => if k =? k' then B 64 v else lookup r k
  end.

Definition oracle_refill1 (t : list (N * N)) (s : chacha) : list N * chacha :=
  (lookup t (dkey (cd s)), inc_block_ct s).
(** four blocks at once; justified by C14 (wide = 4 x narrow) *)
Definition oracle_refill4 (t : list (N * N)) (s : chacha) : list N * chacha :=
  let s1 := inc_block_ct s in let s2 := inc_block_ct s1 in let s3 := inc_block_ct s2 in
  (lookup t (dkey (cd s)) ++ lookup t (dkey (cd s1)) ++ lookup t (dkey (cd s2)) ++ lookup t (dkey (cd s3)),
   inc_block_ct s3).

Definition to_op (h : hop) : op :=
  match h with
  | HSeek pos _ => OSeek pos
  | HApply len data _ _ => OApply (B len data)
  | HPos tmax _ _ => OPos tmax
  end.

Definition obs_agrees (h : hop) (o : obs) : bool :=
  match h, o with
  | HSeek _ res, ObsSeek r => res_code r =? res
  | HApply len _ res out, ObsApply r o => (res_code r =? res) && list_eqb o (B len out)
  | HPos _ ok pos, ObsPos p => match p with
                               | Some z => ok && (z =? pos)%Z
                               | None => negb ok
                               end
  | _, _ => false
  end.

Fixpoint all_agree (hs : list hop) (os : list obs) : bool :=
  match hs, os with
  | [], [] => true
  | h :: hr, o :: or => obs_agrees h o && all_agree hr or
  | _, _ => false
  end.

Definition hist_model (c : histcase) : list obs :=
  run (oracle_refill1 (h_oracle c)) (oracle_refill4 (h_oracle c)) (h_is12 c)
      (new_buffer (h_is12 c) (CC [] [] (h_d c))) (map to_op (h_ops c)).

Definition run_hist (c : histcase) : bool := all_agree (h_ops c) (hist_model c).

Definition obs_num (o : obs) : list N :=
  match o with
  | ObsSeek r => [100 + res_code r]
  | ObsApply r out => [200 + res_code r; le_join out]
  | ObsPos None => [300]
  | ObsPos (Some z) => [301; Z.to_N z]
  end.
Definition explain_hist (c : histcase) : list N := flat_map obs_num (hist_model c).

(** * C14: block API. key, d words, drounds; implementation: 256 bytes + d words after, wide and narrow *)
Record c14case := C14 { w_key : N; w_d : list N; w_dr : N;
                        w_wide : N; w_wide_d : list N; w_narrow : N; w_narrow_d : list N }.

Definition c14_state (c : c14case) : chacha :=
  let key := B 32 (w_key c) in CC (words_le 4 (firstn 16 key)) (words_le 4 (skipn 16 key)) (w_d c).

Definition four_refills (s : chacha) (dr : nat) : list N * chacha :=
  let '(o0, s1) := refill s dr in let '(o1, s2) := refill s1 dr in
  let '(o2, s3) := refill s2 dr in let '(o3, s4) := refill s3 dr in
  (o0 ++ o1 ++ o2 ++ o3, s4).

Definition run_c14 (c : c14case) : bool :=
  let s := c14_state c in let dr := N.to_nat (w_dr c) in
  let '(ow, sw) := refill_wide s dr in
  let '(on, sn) := four_refills s dr in
  list_eqb ow (B 256 (w_wide c)) && list_eqb (cd sw) (w_wide_d c) &&
  list_eqb on (B 256 (w_narrow c)) && list_eqb (cd sn) (w_narrow_d c).

Definition explain_c14 (c : c14case) : list N :=
  let s := c14_state c in let dr := N.to_nat (w_dr c) in
  let '(ow, sw) := refill_wide s dr in let '(on, sn) := four_refills s dr in
  [le_join ow; dkey (cd sw); le_join on; dkey (cd sn)].

(** * C15: stream parameters and stream equality *)
Inductive pop :=
| PSet (param value : N)
| PGet (param : N) (got : N)
| PRefill (dr : N) (out : N)
| PEq (key2 : N) (d2 : list N) (eq32 eq64 : bool).

Record c15case := C15 { p_key : N; p_d : list N; p_ops : list pop }.

Definition mk_state (key : N) (d : list N) : chacha :=
  let k := B 32 key in CC (words_le 4 (firstn 16 k)) (words_le 4 (skipn 16 k)) d.

Fixpoint run_pops (s : chacha) (ops : list pop) : bool :=
  match ops with
  | [] => true
  | PSet p v :: r => match set_stream_param s p v with Some s' => run_pops s' r | None => false end
  | PGet p got :: r => match get_stream_param s p with
                       | Some v => (v =? got) && run_pops s r
                       | None => false
                       end
  | PRefill dr out :: r => let '(o, s') := refill s (N.to_nat dr) in
                           list_eqb o (B 64 out) && run_pops s' r
  | PEq k2 d2 e32 e64 :: r =>
      let s2 := mk_state k2 d2 in
      Bool.eqb (stream32_eq s s2) e32 && Bool.eqb (stream64_eq s s2) e64 && run_pops s r
  end.

Definition run_c15 (c : c15case) : bool := run_pops (mk_state (p_key c) (p_d c)) (p_ops c).
Definition explain_c15 (c : c15case) : list N := [dkey (cd (mk_state (p_key c) (p_d c)))].

(** what the model computes for every operation of a C15 case (for replay files):
    set -> 1000 + param (2000 if the model panics); get -> the value; refill -> the block as a
    little-endian number; compare -> 10*stream32_eq + stream64_eq *)
Fixpoint explain_pops (s : chacha) (ops : list pop) : list N :=
  match ops with
  | [] => []
  | PSet p v :: r => match set_stream_param s p v with
                     | Some s' => (1000 + p) :: explain_pops s' r
                     | None => [2000]
                     end
  | PGet p _ :: r => match get_stream_param s p with
                     | Some v => v :: explain_pops s r
                     | None => [2000]
                     end
  | PRefill dr _ :: r => let '(o, s') := refill s (N.to_nat dr) in le_join o :: explain_pops s' r
  | PEq k2 d2 _ _ :: r =>
      let s2 := mk_state k2 d2 in
      ((if stream32_eq s s2 then 10 else 0) + (if stream64_eq s s2 then 1 else 0)) :: explain_pops s r
  end.
Definition explain_c15_ops (c : c15case) : list N := explain_pops (mk_state (p_key c) (p_d c)) (p_ops c).
