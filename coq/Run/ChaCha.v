(** Case runners for the ChaCha properties C01, C02, C11, C14, C15. *)
From Coq Require Import NArith ZArith List Bool Uint63.
From CC Require Import Lib.Words Lib.Bytes Lib.ListX Spec.Lanes Run.Runner.
From CC Require Import Model.ChaChaGuts Model.ChaChaStream.
From CC Require Spec.ChaCha.
Import ListNotations.
Local Open Scope N_scope.

Definition variant_of (v : N) : variant := if v =? 0 then VDjb else if v =? 1 then VIetf else VX.
Definition layout_of (v : N) : Spec.ChaCha.layout :=
  if v =? 0 then Spec.ChaCha.Djb else if v =? 1 then Spec.ChaCha.Ietf else Spec.ChaCha.XDjb.
Definition res_code (r : result) : N := match r with ROk => 0 | RErr => 1 | RPanic => 2 end.

(** Byte strings in the generated case files: coqc needs ~80 us per byte of a hexadecimal [N]
    literal (number notation), 1.3 s for 16 KiB, but reads primitive integer literals natively. The
    harness therefore writes a string as [W [w0; w1; ...]%uint63], seven bytes per word, little-endian:
    the number whose little-endian encoding is the string, as for a literal. *)
Fixpoint W (ws : list int) : N :=
  match ws with
  | [] => 0
  | w :: r => Z.to_N (Uint63.to_Z w) + N.shiftl (W r) 56
  end.

(** Data of the large cases (2 KiB and more in one call) is written by the harness as [Pat len seed]
    instead of a literal (coqc needs ~80 us per literal byte): the high bytes of the 16-bit sequence
    x, 5x+12345, ... (mod 2^16), as the number whose little-endian encoding they are. The harness
    fills the implementation's input with the same bytes. *)
Fixpoint lcg_bytes (n : nat) (x : N) : list N :=
  match n with
  | O => []
  | S k => N.shiftr x 8 :: lcg_bytes k (N.land (x * 5 + 12345) 0xffff)
  end.
Definition Pat (n seed : N) : N := le_join (lcg_bytes (N.to_nat n) (N.land seed 0xffff)).

(** * C01: seek to [pos], apply [data]; implementation result [res] (0 ok / 1 err / 2 panic) and output *)
Record c01case := C01 { c1_v : N; c1_dr : N; c1_key : N; c1_nlen : N; c1_nonce : N;
                        c1_pos : N; c1_len : N; c1_data : N; c1_res : N; c1_out : N }.

Definition c01_model (c : c01case) : N * list N :=
  let key := B 32 (c1_key c) in let nonce := B (c1_nlen c) (c1_nonce c) in
  let data := B (c1_len c) (c1_data c) in
  match m_run (variant_of (c1_v c)) (N.to_nat (c1_dr c)) key nonce
              [OSeek (Z.of_N (c1_pos c)); OApply data] with
  | [ObsSeek ROk; ObsApply r out] => (res_code r, out)
  | [ObsSeek r; _] => (res_code r + 10, [])
  | _ => (99, [])
  end.

Definition c01_spec (c : c01case) : N * list N :=
  let key := B 32 (c1_key c) in let nonce := B (c1_nlen c) (c1_nonce c) in
  let data := B (c1_len c) (c1_data c) in
  let l := layout_of (c1_v c) in
  if 64 * Spec.ChaCha.blocks_of l <? c1_pos c + c1_len c then (1, data)
  else (0, Spec.ChaCha.spec_apply l (N.to_nat (c1_dr c)) key nonce (c1_pos c) data).

Definition run_c01 (c : c01case) : bool :=
  let '(mr, mo) := c01_model c in
  let '(sr, so) := c01_spec c in
  let io := B (c1_len c) (c1_out c) in
  (mr =? c1_res c) && (sr =? c1_res c) && list_eqb mo io && list_eqb so io.

(** index of the first byte at which two strings differ (the length of the shorter one if none) *)
Fixpoint first_diff (i : N) (a b : list N) : N :=
  match a, b with
  | x :: a', y :: b' => if x =? y then first_diff (N.succ i) a' b' else i
  | _, _ => i
  end.
(** 64 bytes of [o] from byte [i] on, as a number *)
Definition window (o : list N) (i : N) : N := le_join (firstn 64 (skipn (N.to_nat i) o)).

(** For the replay file. Calls of up to 512 bytes: model result code, model output, spec result code,
    spec output (outputs as little-endian numbers). Longer calls (printing a number of several KiB takes
    coqc minutes): result code, 10^6 + index of the first byte at which the implementation's output
    differs from the model's (the length if none), 64 bytes of the model's output from there on; the
    same three for the spec. *)
Definition explain_c01 (c : c01case) : list N :=
  let '(mr, mo) := c01_model c in let '(sr, so) := c01_spec c in
  if c1_len c <=? 512 then [mr; le_join mo; sr; le_join so]
  else
    let io := B (c1_len c) (c1_out c) in
    let im := first_diff 0 mo io in let is := first_diff 0 so io in
    [mr; 1000000 + im; window mo im; sr; 1000000 + is; window so is].

(** * C02 / C11: histories with a block oracle taken from the implementation *)
Inductive hop :=
| HSeek (pos : Z) (res : N)
| HApply (len : N) (data : N) (res : N) (out : N)
| HPos (tmax : Z) (ok : bool) (pos : Z).

(** [is12], initial d words, oracle (d words as one 128-bit number -> 64-byte block), ops *)
Record histcase := Hist { h_is12 : bool; h_d : list N; h_oracle : list (N * N); h_ops : list hop }.

Definition dkey (d : list N) : N :=
  nth 0 d 0 + N.shiftl (nth 1 d 0) 32 + N.shiftl (nth 2 d 0) 64 + N.shiftl (nth 3 d 0) 96.

Fixpoint lookup (t : list (N * N)) (k : N) : list N :=
  match t with
  | [] => repeat 0xEE 64     (* a block the oracle does not know: poison *)
  | (k', v) :: r => if k =? k' then B 64 v else lookup r k
  end.

Definition oracle_refill1 (t : list (N * N)) (s : chacha) : list N * chacha :=
  (lookup t (dkey (cd s)), inc_block_ct s).
(** four blocks at once; justified by C14 (wide = 4 x narrow) *)
Definition oracle_refill4 (t : list (N * N)) (s : chacha) : list N * chacha :=
  let s1 := inc_block_ct s in let s2 := inc_block_ct s1 in let s3 := inc_block_ct s2 in
  (lookup t (dkey (cd s)) ++ lookup t (dkey (cd s1)) ++ lookup t (dkey (cd s2)) ++ lookup t (dkey (cd s3)),
   inc_block_ct s3).

Definition to_op (h : hop) : op :=
  match h with
  | HSeek pos _ => OSeek pos
  | HApply len data _ _ => OApply (B len data)
  | HPos tmax _ _ => OPos tmax
  end.

Definition obs_agrees (h : hop) (o : obs) : bool :=
  match h, o with
  | HSeek _ res, ObsSeek r => res_code r =? res
  | HApply len _ res out, ObsApply r o => (res_code r =? res) && list_eqb o (B len out)
  | HPos _ ok pos, ObsPos p => match p with
                               | Some z => ok && (z =? pos)%Z
                               | None => negb ok
                               end
  | _, _ => false
  end.

Fixpoint all_agree (hs : list hop) (os : list obs) : bool :=
  match hs, os with
  | [], [] => true
  | h :: hr, o :: or => obs_agrees h o && all_agree hr or
  | _, _ => false
  end.

Definition hist_model (c : histcase) : list obs :=
  run (oracle_refill1 (h_oracle c)) (oracle_refill4 (h_oracle c)) (h_is12 c)
      (new_buffer (h_is12 c) (CC [] [] (h_d c))) (map to_op (h_ops c)).

Definition run_hist (c : histcase) : bool := all_agree (h_ops c) (hist_model c).

Definition obs_num (o : obs) : list N :=
  match o with
  | ObsSeek r => [100 + res_code r]
  | ObsApply r out => [200 + res_code r; le_join out]
  | ObsPos None => [300]
  | ObsPos (Some z) => [301; Z.to_N z]
  end.
(** what the model computes for every operation (for replay files): seek -> 100 + result code;
    apply -> 200 + result code, output as a number (calls longer than 512 bytes: 10^6 + index of the first
    byte at which the implementation's output differs from the model's, then 64 bytes of the model's output
    from there on); current_pos -> 300 (Err) or 301, value *)
Definition obs_num_h (h : hop) (o : obs) : list N :=
  match h, o with
  | HApply len _ _ out, ObsApply r o' =>
      if len <=? 512 then obs_num o
      else let i := first_diff 0 o' (B len out) in [200 + res_code r; 1000000 + i; window o' i]
  | _, _ => obs_num o
  end.
Fixpoint explain_ops (hs : list hop) (os : list obs) : list N :=
  match hs, os with
  | h :: hr, o :: or => obs_num_h h o ++ explain_ops hr or
  | _, _ => flat_map obs_num os
  end.
Definition explain_hist (c : histcase) : list N := explain_ops (h_ops c) (hist_model c).

(** * C14: block API. key, d words (computed by the harness from the 64-bit counter and the 64-bit
    stream id, NOT read back), drounds; implementation: 256 bytes + d words after, wide and narrow;
    whether the implementation finds the two objects equal as whole states (key rows included) and
    equal to a state created from scratch at counter + 4; then the continuation on the same two
    objects, the paths mixed: wide object refill4; refill, narrow object refill; refill4 (320 bytes
    each + d words after). The output buffers of the implementation start as a non-zero pattern. *)
Record c14case := C14 { w_key : N; w_d : list N; w_dr : N;
                        w_wide : N; w_wide_d : list N; w_narrow : N; w_narrow_d : list N;
                        w_eq_wn : bool; w_eq_fresh : bool;
                        w_wide2 : N; w_wide2_d : list N; w_narrow2 : N; w_narrow2_d : list N }.

Definition c14_state (c : c14case) : chacha :=
  let key := B 32 (w_key c) in CC (words_le 4 (firstn 16 key)) (words_le 4 (skipn 16 key)) (w_d c).

Definition four_refills (s : chacha) (dr : nat) : list N * chacha :=
  let '(o0, s1) := refill s dr in let '(o1, s2) := refill s1 dr in
  let '(o2, s3) := refill s2 dr in let '(o3, s4) := refill s3 dr in
  (o0 ++ o1 ++ o2 ++ o3, s4).

Definition chacha_eqb (a b : chacha) : bool :=
  list_eqb (cb a) (cb b) && list_eqb (cc a) (cc b) && list_eqb (cd a) (cd b).

(** the state [ChaCha::new] + [set_stream_param] give for the same key and stream id at counter + 4 *)
Definition c14_fresh4 (c : c14case) : chacha :=
  let s := c14_state c in
  CC (cb s) (cc s) (set_pos (cd s) (wrap 64 (pos64 s + 4))).

(** wide object: refill4; refill.  narrow object: refill; refill4 *)
Definition c14_cont_wide (s : chacha) (dr : nat) : list N * chacha :=
  let '(o1, s1) := refill_wide s dr in let '(o2, s2) := refill s1 dr in (o1 ++ o2, s2).
Definition c14_cont_narrow (s : chacha) (dr : nat) : list N * chacha :=
  let '(o1, s1) := refill s dr in let '(o2, s2) := refill_wide s1 dr in (o1 ++ o2, s2).

Definition run_c14 (c : c14case) : bool :=
  let s := c14_state c in let dr := N.to_nat (w_dr c) in
  let '(ow, sw) := refill_wide s dr in
  let '(on, sn) := four_refills s dr in
  let '(ow2, sw2) := c14_cont_wide sw dr in
  let '(on2, sn2) := c14_cont_narrow sn dr in
  list_eqb ow (B 256 (w_wide c)) && list_eqb (cd sw) (w_wide_d c) &&
  list_eqb on (B 256 (w_narrow c)) && list_eqb (cd sn) (w_narrow_d c) &&
  Bool.eqb (chacha_eqb sw sn) (w_eq_wn c) &&
  Bool.eqb (chacha_eqb sw (c14_fresh4 c) && chacha_eqb sn (c14_fresh4 c)) (w_eq_fresh c) &&
  list_eqb ow2 (B 320 (w_wide2 c)) && list_eqb (cd sw2) (w_wide2_d c) &&
  list_eqb on2 (B 320 (w_narrow2 c)) && list_eqb (cd sn2) (w_narrow2_d c).

Definition explain_c14 (c : c14case) : list N :=
  let s := c14_state c in let dr := N.to_nat (w_dr c) in
  let '(ow, sw) := refill_wide s dr in let '(on, sn) := four_refills s dr in
  let '(ow2, sw2) := c14_cont_wide sw dr in
  let '(on2, sn2) := c14_cont_narrow sn dr in
  [le_join ow; dkey (cd sw); le_join on; dkey (cd sn);
   (if chacha_eqb sw sn then 1 else 0); (if chacha_eqb sw (c14_fresh4 c) then 1 else 0);
   le_join ow2; dkey (cd sw2); le_join on2; dkey (cd sn2)].

(** * C15: stream parameters and stream equality *)
Inductive pop :=
| PSet (param value : N)
| PGet (param : N) (got : N)
| PRefill (dr : N) (out : N)
| PEq (key2 : N) (d2 : list N) (eq32 eq64 : bool).

(** key, nonce (8 or 12 bytes), the d words the implementation reports right after
    [ChaCha::new(key, nonce)] (compared with the model's, never used to build the state), operations *)
Record c15case := C15 { p_key : N; p_nlen : N; p_nonce : N; p_d : list N; p_ops : list pop }.

(** the initial state is the MODEL's [ChaCha::new]: [init_chacha key nonce] *)
Definition c15_init (c : c15case) : chacha := init_chacha (B 32 (p_key c)) (B (p_nlen c) (p_nonce c)).

Definition mk_state (key : N) (d : list N) : chacha :=
  let k := B 32 key in CC (words_le 4 (firstn 16 k)) (words_le 4 (skipn 16 k)) d.

Fixpoint run_pops (s : chacha) (ops : list pop) : bool :=
  match ops with
  | [] => true
  | PSet p v :: r => match set_stream_param s p v with Some s' => run_pops s' r | None => false end
  | PGet p got :: r => match get_stream_param s p with
                       | Some v => (v =? got) && run_pops s r
                       | None => false
                       end
  | PRefill dr out :: r => let '(o, s') := refill s (N.to_nat dr) in
                           list_eqb o (B 64 out) && run_pops s' r
  | PEq k2 d2 e32 e64 :: r =>
      let s2 := mk_state k2 d2 in
      Bool.eqb (stream32_eq s s2) e32 && Bool.eqb (stream64_eq s s2) e64 && run_pops s r
  end.

Definition run_c15 (c : c15case) : bool :=
  ((p_nlen c =? 8) || (p_nlen c =? 12)) && list_eqb (cd (c15_init c)) (p_d c) && run_pops (c15_init c) (p_ops c).
Definition explain_c15 (c : c15case) : list N := [dkey (cd (c15_init c))].

(** what the model computes for every operation of a C15 case (for replay files):
    first the four d words of the model's [ChaCha::new(key, nonce)] as one number; then
    set -> 1000 + param (2000 if the model panics); get -> the value; refill -> the block as a
    little-endian number; compare -> 10*stream32_eq + stream64_eq *)
Fixpoint explain_pops (s : chacha) (ops : list pop) : list N :=
  match ops with
  | [] => []
  | PSet p v :: r => match set_stream_param s p v with
                     | Some s' => (1000 + p) :: explain_pops s' r
                     | None => [2000]
                     end
  | PGet p _ :: r => match get_stream_param s p with
                     | Some v => v :: explain_pops s r
                     | None => [2000]
                     end
  | PRefill dr _ :: r => let '(o, s') := refill s (N.to_nat dr) in le_join o :: explain_pops s' r
  | PEq k2 d2 _ _ :: r =>
      let s2 := mk_state k2 d2 in
      ((if stream32_eq s s2 then 10 else 0) + (if stream64_eq s s2 then 1 else 0)) :: explain_pops s r
  end.
Definition explain_c15_ops (c : c15case) : list N := dkey (cd (c15_init c)) :: explain_pops (c15_init c) (p_ops c).
