(** Case runner for the portable part of C12 / C13 (generated cases_*.v import this).
    Harness: harness/src/bin/h_ppvgen.rs, built with the feature [no_simd]. *)
From Coq Require Import NArith List Bool Arith.
From CC Require Import Lib.Words Lib.Bytes Lib.ListX Model.PpvSoft Model.PpvGeneric Run.Runner.
From CC Require Spec.Lanes.
Import ListNotations.
Local Open Scope N_scope.

(** build profile of the harness; vector type (0 u32x4, 1 u64x2, 2 u128x1, 3 u32x4x2,
    4 u64x2x2, 5 u64x4, 6 u128x2, 7 u32x4x4, 8 u64x2x4, 9 u128x4, 10/11/12
    vec128/256/512_storage); operation number and its parameter [k] (see [op_name] in
    the harness); length of operand [a]; operands [a], [b], element operand [x] (byte
    images: words in lane order, each little-endian); what the implementation did:
    returned normally? / length and bytes of what it produced. *)
Record pgcase := PG { pg_prof : profile; pg_ty : N; pg_op : N; pg_k : N; pg_alen : N;
                      pg_a : N; pg_b : N; pg_x : N; pg_ok : bool; pg_rlen : N; pg_r : N }.

Definition ty_base (ty : N) : vt :=
  match ty with 0 | 3 | 7 => U32x4 | 1 | 4 | 5 | 8 => U64x2 | _ => U128x1 end.
Definition ty_lanes (ty : N) : nat :=
  match ty with 0 | 1 | 2 | 10 => 1%nat | 3 | 4 | 5 | 6 | 11 => 2%nat | _ => 4%nat end.
Definition ty_size (ty : N) : nat := (16 * ty_lanes ty)%nat.
Definition chunks16 (bs : list N) : list (list N) := chunks_exact 16 (length bs) bs.

(** how the harness builds a vector from its byte image ([Machine::vec] = [from_lanes] on
    word arrays for the 128-bit types and u64x4, on arrays of lanes for the others) and
    reads it back ([to_lanes]) *)
Definition dec (ty : N) (bs : list N) : list (list N) :=
  if ty =? 5 then u64x4_from_lanes (words_le 8 bs)
  else xn_from_lanes (map (fun c => g_from_lanes (words_le (vt_k (ty_base ty)) c)) (chunks16 bs)).
Definition enc (ty : N) (v : list (list N)) : list N :=
  if ty =? 5 then bytes_le 8 (u64x4_to_lanes v)
  else concat (map (fun l => bytes_le (vt_k (ty_base ty)) (g_to_lanes l)) (xn_to_lanes v)).

Definition lift1 (ty : N) (f : list N -> outcome (list N)) (v : list (list N))
  : outcome (list (list N)) :=
  match ty_lanes ty with
  | 1%nat => let* r := f (nth 0 v []) in Ok [r]
  | 2%nat => x2_unop [] f v
  | _ => x4_unop [] f v
  end.
Definition lift2 (ty : N) (f : list N -> list N -> outcome (list N)) (a b : list (list N))
  : outcome (list (list N)) :=
  match ty_lanes ty with
  | 1%nat => let* r := f (nth 0 a []) (nth 0 b []) in Ok [r]
  | 2%nat => x2_binop [] f a b
  | _ => x4_binop [] f a b
  end.
Definition oenc (ty : N) (o : outcome (list (list N))) : option (outcome (list N)) :=
  Some (omapo (enc ty) o).
Definition m_unop (p : profile) (ty : N) (o : unop) (a : list N) : option (outcome (list N)) :=
  let t := ty_base ty in
  match g_unop p t o [] with
  | None => None
  | Some _ => oenc ty (lift1 ty (fun v => match g_unop p t o v with Some r => r | None => Panic end)
                             (dec ty a))
  end.
Definition m_binop (p : profile) (ty : N) (o : binop) (a b : list N) : option (outcome (list N)) :=
  oenc ty (lift2 ty (g_binop p (ty_base ty) o) (dec ty a) (dec ty b)).

(** storage values from / to byte images through the word view [view]
    (0: [[u32;4]] per 128 bits, 1: [[u64;2]] per 128 bits, 2: [[u64;4]], 256-bit only) *)
Definition s128_from (view : N) (bs : list N) : st128 :=
  if view =? 0 then st_of_d (words_le 4 bs) else st_of_q (words_le 8 bs).
Definition s128_read (view : N) (s : st128) : list N :=
  if view =? 0 then bytes_le 4 (st_d s) else bytes_le 8 (st_q s).
Definition sN_from (view : N) (bs : list N) : list st128 :=
  if view =? 2 then st256_of_q4 (words_le 8 bs) else new128 (map (s128_from view) (chunks16 bs)).
Definition sN_read (view : N) (s : list st128) : list N :=
  if view =? 2 then bytes_le 8 (st256_to_q4 s) else concat (map (s128_read view) (split128 s)).

Definition m_unpack (p : profile) (ty : N) (s : list st128) : outcome (list (list N)) :=
  let u := unpack128 p (ty_base ty) in
  match ty_lanes ty with
  | 1%nat => let* r := u (nth 0 s []) in Ok [r]
  | 2%nat => x2_unpack [] u (split128 s)
  | _ => x4_unpack [] u (split128 s)
  end.
Definition m_into (p : profile) (ty : N) (v : list (list N)) : outcome (list st128) :=
  let f := into128 p (ty_base ty) in
  match ty_lanes ty with
  | 1%nat => let* r := f (nth 0 v []) in Ok [r]
  | 2%nat => omapo new128 (x2_into [] f v)
  | _ => omapo new128 (x4_into [] f v)
  end.

Definition has_storebytes (ty : N) : bool :=
  match ty with 0 | 1 | 3 | 4 | 5 | 7 | 8 => true | _ => false end.
Definition m_read (p : profile) (ty : N) (be : bool) (bs : list N) : outcome (list (list N)) :=
  let t := ty_base ty in
  let rd := if be then g_read_be p t else g_read_le p t in
  match ty_lanes ty with
  | 1%nat => let* r := rd bs in Ok [r]
  | 2%nat => x2_read rd bs
  | _ => x4_read rd bs
  end.
Definition m_write (p : profile) (ty : N) (be : bool) (v : list (list N)) (outlen : nat)
  : outcome (list N) :=
  let t := ty_base ty in
  let wr := if be then g_write_be p t else g_write_le p t in
  match ty_lanes ty with
  | 1%nat => wr (nth 0 v []) outlen
  | 2%nat => x2_write [] wr v outlen
  | _ => x4_write [] wr v outlen
  end.

Definition word_elems (ty : N) : bool := match ty with 0 | 1 | 5 => true | _ => false end.
Definition elem_bytes (ty op : N) : nat :=
  if op =? 39 then 16%nat
  else match ty with 0 => 4%nat | 1 | 5 => 8%nat | _ => 16%nat end.

(** the model's outcome as a byte image; [None]: no such method / unknown operation *)
Definition model_op (c : pgcase) : option (outcome (list N)) :=
  let p := pg_prof c in let ty := pg_ty c in let k := pg_k c in
  let a := B (pg_alen c) (pg_a c) in
  let b := B (pg_alen c) (pg_b c) in
  let t := ty_base ty in
  let kb := vt_k t in
  match pg_op c with
  | 1 | 2 => m_binop p ty OAdd a b
  | 3 | 8 => m_binop p ty OXor a b
  | 4 | 9 => m_binop p ty OAnd a b
  | 5 | 10 => m_binop p ty OOr a b
  | 7 => m_binop p ty OAndnot a b
  | 6 => m_unop p ty ONot a
  | 20 => m_unop p ty (ORotr k) a
  | 21 => m_unop p ty (OSwap k) a
  | 22 => m_unop p ty OBswap a
  | 23 =>
      if ty =? 0 then m_unop p ty (OShuffle k) a
      else if ty =? 5 then
        let v := dec ty a in
        if k =? 2301 then Some (Ok (enc ty (u64x4_shuffle2301 v)))
        else if k =? 1230 then Some (Ok (enc ty (u64x4_shuffle1230 v)))
        else if k =? 3012 then Some (Ok (enc ty (u64x4_shuffle3012 v)))
        else None
      else None
  | 24 => match ty with 0 | 3 | 7 => m_unop p ty (OLaneShuffle k) a | _ => None end
  | 30 => Some (Ok (enc ty (dec ty a)))
  | 31 =>
      let v := dec ty a in
      match ty with
      | 0 | 1 => Some (omapo (fun w => bytes_le kb [w]) (g_extract (nth 0 v []) k))
      | 5 => Some (omapo (fun w => bytes_le 8 [w]) (u64x4_extract v k))
      | 2 => None
      | _ => Some (omapo (fun l => bytes_le kb (g_to_lanes l)) (xn_extract v k))
      end
  | 32 =>
      let v := dec ty a in
      let xb := B (N.of_nat (elem_bytes ty 32)) (pg_x c) in
      match ty with
      | 0 | 1 => oenc ty (let* r := g_insert (nth 0 v []) (le_join xb) k in Ok [r])
      | 5 => oenc ty (u64x4_insert v (le_join xb) k)
      | 2 => None
      | _ => oenc ty (xn_insert v (g_from_lanes (words_le kb xb)) k)
      end
  | 38 => if ty =? 5 then
            Some (omapo (fun l => bytes_le 8 (g_to_lanes l)) (xn_extract (dec ty a) k))
          else None
  | 39 => if ty =? 5 then
            oenc ty (xn_insert (dec ty a) (g_from_lanes (words_le 8 (B 16 (pg_x c)))) k)
          else None
  | 33 => oenc ty (m_unpack p ty (sN_from k a))
  | 34 => Some (omapo (sN_read k) (m_into p ty (dec ty a)))
  | 35 =>
      match ty with
      | 10 | 12 => Some (Ok (sN_read (k mod 2) (sN_from (k / 2) a)))
      | 11 => Some (Ok (sN_read (k mod 3) (sN_from (k / 3) a)))
      | _ => None
      end
  | 36 =>
      match ty with
      | 10 => Some (Ok (sN_read 0 [st128_default]))
      | 11 => Some (Ok (sN_read 0 st256_default))
      | 12 => Some (Ok (sN_read 0 st512_default))
      | _ => None
      end
  | 37 =>
      (* derived PartialEq of vec256/512_storage: the arrays of vec128_storage compared element-wise *)
      let eqs (x y : list st128) := forallb (fun p : st128 * st128 => st128_eq (fst p) (snd p)) (combine x y) in
      match ty with
      | 10 => Some (Ok [if st128_eq (s128_from 0 a) (s128_from 1 b) then 1 else 0])
      | 11 => Some (Ok [if eqs (sN_from 0 a) (sN_from 2 b) then 1 else 0])
      | 12 => Some (Ok [if eqs (sN_from 0 a) (sN_from 1 b) then 1 else 0])
      | _ => None
      end
  | 47 => (* UnsafeFrom<[W; n]> of x2 / x4 = from_lanes on lanes built with from_lanes (words) *)
      match ty with
      | 0 | 1 | 2 => None
      | _ => Some (Ok (enc ty (xn_from_lanes
                 (map (fun c => g_from_lanes (words_le (vt_k (ty_base ty)) c)) (chunks16 a)))))
      end
  | 40 => if has_storebytes ty then oenc ty (m_read p ty false a) else None
  | 41 => if has_storebytes ty then oenc ty (m_read p ty true a) else None
  | 42 => if has_storebytes ty then Some (m_write p ty false (dec ty a) (N.to_nat k)) else None
  | 43 => if has_storebytes ty then Some (m_write p ty true (dec ty a) (N.to_nat k)) else None
  | 50 =>
      if ty =? 7 then
        let q := chunks_exact 64 256 a in
        let '(r0, r1, r2, r3) :=
          x4_transpose4 [] (dec ty (nth 0 q [])) (dec ty (nth 1 q [])) (dec ty (nth 2 q []))
                        (dec ty (nth 3 q [])) in
        Some (Ok (enc ty r0 ++ enc ty r1 ++ enc ty r2 ++ enc ty r3))
      else None
  | 51 => if ty =? 7 then Some (Ok (bytes_le 4 (u32x4x4_to_scalars (dec ty a)))) else None
  | _ => None
  end.

(** * the lane-wise meaning (Spec/Lanes.v) of the same call, on the flat word list of the
      operands; [None] where the contract says nothing (wrong slice length, index out of
      range: the call may panic) *)
Definition replace16 (bs : list N) (i : nat) (x : list N) : list N :=
  firstn (16 * i) bs ++ x ++ skipn (16 * i + 16) bs.
Definition view_bytes (view : N) : nat := if view =? 0 then 4%nat else 8%nat.

Definition spec_op (c : pgcase) : option (list N) :=
  let ty := pg_ty c in let k := pg_k c in
  let a := B (pg_alen c) (pg_a c) in
  let b := B (pg_alen c) (pg_b c) in
  let t := ty_base ty in
  let kb := vt_k t in let w := vt_w t in
  let wa := words_le kb a in let wb := words_le kb b in
  let sized := (N.to_nat (pg_alen c) =? ty_size ty)%nat in
  let nelem := if word_elems ty then N.of_nat (length wa) else N.of_nat (ty_lanes ty) in
  match pg_op c with
  | 1 | 2 => Some (bytes_le kb (Lanes.v_add w wa wb))
  | 3 | 8 => Some (bytes_le kb (Lanes.v_xor wa wb))
  | 4 | 9 => Some (bytes_le kb (Lanes.v_and wa wb))
  | 5 | 10 => Some (bytes_le kb (Lanes.v_or wa wb))
  | 7 => Some (bytes_le kb (Lanes.v_andnot w wa wb))
  | 6 => Some (bytes_le kb (Lanes.v_not w wa))
  | 20 => Some (bytes_le kb (Lanes.v_rotr w k wa))
  | 21 => (* adjacent [k]-bit groups of every 128-bit lane; for [k] below the word width this
             is the same as within every word, which is checked as well *)
      let lane := bytes_le 16 (Lanes.v_swap k 128 (words_le 16 a)) in
      if k <? w then
        if list_eqb lane (bytes_le kb (Lanes.v_swap k w wa)) then Some lane else Some []
      else Some lane
  | 22 => Some (bytes_le kb (Lanes.v_bswap w wa))
  | 23 => let f := if k =? 1230 then @Lanes.shuffle1230 N else if k =? 2301 then @Lanes.shuffle2301 N
                   else @Lanes.shuffle3012 N in
          Some (bytes_le kb (f wa))
  | 24 => let f := if k =? 1230 then @Lanes.shuffle1230 N else if k =? 2301 then @Lanes.shuffle2301 N
                   else @Lanes.shuffle3012 N in
          Some (bytes_le kb (Lanes.per_lane4 f wa))
  | 30 | 47 | 51 => Some a
  | 31 | 38 =>
      if k <? (if pg_op c =? 38 then 2 else nelem) then
        if word_elems ty && (pg_op c =? 31) then Some (bytes_le kb [Lanes.v_extract wa (N.to_nat k)])
        else Some (firstn 16 (skipn (16 * N.to_nat k) a))
      else None
  | 32 | 39 =>
      if k <? (if pg_op c =? 39 then 2 else nelem) then
        if word_elems ty && (pg_op c =? 32) then
          Some (bytes_le kb (Lanes.v_insert wa (le_join (B (N.of_nat kb) (pg_x c))) (N.to_nat k)))
        else Some (replace16 a (N.to_nat k) (B 16 (pg_x c)))
      else None
  | 33 => let vb := view_bytes k in Some (bytes_le kb (Lanes.reinterpret vb kb (words_le vb a)))
  | 34 => let vb := view_bytes k in Some (bytes_le vb (Lanes.reinterpret kb vb wa))
  | 35 =>
      let m := if ty =? 11 then 3 else 2 in
      let fb := view_bytes (k / m) in let tb := view_bytes (k mod m) in
      Some (bytes_le tb (Lanes.reinterpret fb tb (words_le fb a)))
  | 36 => Some (repeat 0 (ty_size ty))
  | 37 => Some [if list_eqb a b then 1 else 0]
  | 40 => if sized then Some (bytes_le kb (Lanes.read_le kb a)) else None
  | 41 => if sized then Some (bytes_le kb (Lanes.read_be kb a)) else None
  | 42 => if (N.to_nat k =? ty_size ty)%nat then Some (Lanes.write_le kb wa) else None
  | 43 => if (N.to_nat k =? ty_size ty)%nat then Some (Lanes.write_be kb wa) else None
  | 50 =>
      let q := map chunks16 (chunks_exact 64 256 a) in
      let '(r0, r1, r2, r3) :=
        Lanes.transpose4 [] (nth 0 q []) (nth 1 q []) (nth 2 q []) (nth 3 q []) in
      Some (concat r0 ++ concat r1 ++ concat r2 ++ concat r3)
  | _ => None
  end.

(** 1. the implementation's outcome equals the model's outcome on every case, also where
       the call panics (wrong slice lengths, element index out of range);
    2. where the lane-wise contract determines the result, the implementation returned
       normally and produced exactly that. *)
Definition run_pg (c : pgcase) : bool :=
  let r := B (pg_rlen c) (pg_r c) in
  let agrees_model :=
    match model_op c with
    | Some (Ok l) => pg_ok c && list_eqb l r
    | Some Panic => negb (pg_ok c)
    | None => false
    end in
  let agrees_spec :=
    match spec_op c with
    | Some l => pg_ok c && list_eqb l r
    | None => true
    end in
  agrees_model && agrees_spec.

(** for replay files: [1; model bytes as one little-endian number] or [0] (= model panics) or
    [2] (no such method); then [1; spec bytes] or [0] (contract silent) *)
Definition explain_pg (c : pgcase) : list N :=
  (match model_op c with
   | Some (Ok l) => [1; le_join l]
   | Some Panic => [0]
   | None => [2]
   end) ++
  (match spec_op c with Some l => [1; le_join l] | None => [0] end).
