(** Case runner for C03 (generated cases_*.v import this). One battery is computed by the
    implementation under every back-end / build configuration; each case is compared here with
    the single reference computed inside Coq by the executable models of the algorithms
    (ChaCha stream + guts, BLAKE, JH) and, for the selection probes, with Model/Dispatch.v.
    [res]: 0 ok, 1 err, 2 panic, 3 fault (the child process died). *)
From Coq Require Import NArith ZArith List Bool.
From CC Require Import Lib.Words Lib.Bytes Lib.ListX Run.Runner.
From CC Require Import Model.ChaChaGuts Model.Dispatch.
From CC Require Run.ChaCha Run.Blake Model.JH.
Import ListNotations.
Local Open Scope N_scope.

Inductive dcase :=
(** public cipher API: seek [pos], apply [data]; implementation outcome and output *)
| DStream (v dr key nlen nonce pos len data res out : N)
(** guts: [refill] (wide = false, 64 bytes) / [refill4] (256 bytes) from key, d words; output, d after *)
| DRefill (wide : bool) (key : N) (d : list N) (dr : N) (res : N) (out : N) (dafter : list N)
| DBlake (v len msg res dg : N)
| DJh (v len msg res dg : N)
(** F8 on a 128-byte state and a 64-byte block *)
| DJhF8 (state block res out : N)
(** control (Groestl / Skein, no ppv-lite86 dispatch): only the outcome is looked at here *)
| DCtl (res : N)
(** selection probe: macro, build features, forced level (hook H1), host feature mask,
    target-feature mask, outcome, observed Machine type code *)
| DSel (mac : N) (std no_simd : bool) (level host tf : N) (res observed : N).

Definition stream_case (v dr key nlen nonce pos len data res out : N) : Run.ChaCha.c01case :=
  Run.ChaCha.C01 v dr key nlen nonce pos len data res out.

Definition jh_variant (v : N) : Model.JH.variant :=
  if v =? 224 then Model.JH.Jh224 else if v =? 256 then Model.JH.Jh256
  else if v =? 384 then Model.JH.Jh384 else Model.JH.Jh512.

Definition sel_model (mac : N) (std no_simd : bool) (level host tf : N) : N :=
  match dispatch_hooked (macro_of mac) no_simd std level (of_mask host) (of_mask tf) with
  | Run b => type_code (type_of b)
  | Unimplemented => 99
  end.

(** model result as (res, output) *)
Definition c03_model (c : dcase) : N * list N :=
  match c with
  | DStream v dr key nlen nonce pos len data res out =>
      Run.ChaCha.c01_model (stream_case v dr key nlen nonce pos len data res out)
  | DRefill wide key d dr _ _ _ =>
      let s := Run.ChaCha.mk_state key d in
      let '(o, s') := if wide then refill_wide s (N.to_nat dr) else refill s (N.to_nat dr) in
      (0, o ++ cd s')
  | DBlake v len msg _ _ =>
      match Run.Blake.model_of v (B len msg) with Some x => (0, x) | None => (2, []) end
  | DJh v len msg _ _ =>
      match Model.JH.m_digest Model.JH.Debug (jh_variant v) (B len msg) with
      | Some x => (0, x) | None => (2, []) end
  | DJhF8 state block _ _ => (0, Model.JH.m_f8 (B 128 state) (B 64 block))
  | DCtl _ => (0, [])
  | DSel mac std no_simd level host tf _ _ => (0, [sel_model mac std no_simd level host tf])
  end.

(** what the implementation reported, in the same shape *)
Definition c03_impl (c : dcase) : N * list N :=
  match c with
  | DStream _ _ _ _ _ _ len _ res out => (res, B len out)
  | DRefill wide _ _ _ res out dafter => (res, B (if wide then 256 else 64) out ++ dafter)
  | DBlake v _ _ res dg => (res, B (v / 8) dg)
  | DJh v _ _ res dg => (res, B (v / 8) dg)
  | DJhF8 _ _ res out => (res, B 128 out)
  | DCtl res => (res, [])
  | DSel _ _ _ _ _ _ res observed => (res, [observed])
  end.

Definition run_c03 (c : dcase) : bool :=
  let '(mr, mo) := c03_model c in
  let '(ir, io) := c03_impl c in
  (mr =? ir) && list_eqb mo io.

(** for replay files: model outcome, model output as a little-endian number (selection: type code) *)
Definition explain_c03 (c : dcase) : list N :=
  let '(mr, mo) := c03_model c in
  match c with
  | DSel _ _ _ _ _ _ _ _ => mr :: mo
  | DRefill _ _ _ _ _ _ _ => [mr; le_join (firstn (length mo - 4) mo); Run.ChaCha.dkey (skipn (length mo - 4) mo)]
  | _ => [mr; le_join mo]
  end.
