(** Case runner for C19 (generated cases_*.v import this). *)
From Coq Require Import NArith List Bool.
From CC Require Import Lib.Words Lib.ListX Spec.NullLanes Model.PpvNull Run.Runner.
Import ListNotations.
Local Open Scope N_scope.

(** build profile the harness was compiled with, type, method, operands
    (see Spec/NullLanes.v for the conventions), then what the implementation
    did: returned normally? / the lanes it produced (empty after a panic) *)
Record nvcase := NV { nv_prof : profile; nv_ty : ty; nv_op : op;
                      nv_a : list N; nv_b : list N; nv_i : N;
                      nv_ok : bool; nv_out : list N }.

(** 1. the implementation's outcome equals the model's outcome (on every case,
       also outside the theorem's domain: wrong slice lengths, lane index out
       of range, rotation amount 0 / >= bits);
    2. on the domain of the theorem the implementation returned normally and
       its result equals the lane-wise specification. *)
Definition run_c19 (c : nvcase) : bool :=
  let m := run_op (nv_prof c) (nv_ty c) (nv_op c) (nv_a c) (nv_b c) (nv_i c) in
  let agrees_model :=
    match m with
    | Some (Ok l) => nv_ok c && list_eqb l (nv_out c)
    | Some Panic => negb (nv_ok c)
    | None => false
    end in
  let agrees_spec :=
    if in_domain (nv_ty c) (nv_op c) (nv_a c) (nv_b c) (nv_i c)
    then nv_ok c && list_eqb (spec_op (nv_ty c) (nv_op c) (nv_a c) (nv_b c) (nv_i c)) (nv_out c)
    else true in
  agrees_model && agrees_spec.

(** for replay files: [1; model lanes...] or [0] (= model panics) or [2] (no such method),
    then the marker 0xffff, then [in_domain], then the spec lanes *)
Definition explain_c19 (c : nvcase) : list N :=
  (match run_op (nv_prof c) (nv_ty c) (nv_op c) (nv_a c) (nv_b c) (nv_i c) with
   | Some (Ok l) => 1 :: l
   | Some Panic => [0]
   | None => [2]
   end)
  ++ [0xffff; if in_domain (nv_ty c) (nv_op c) (nv_a c) (nv_b c) (nv_i c) then 1 else 0]
  ++ spec_op (nv_ty c) (nv_op c) (nv_a c) (nv_b c) (nv_i c).
