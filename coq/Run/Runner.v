(** Support for generated case files: the harness writes a list of case
    records followed by [Eval vm_compute in failing run cases]; only indices
    are printed. *)
From Coq Require Import NArith List Bool.
From CC Require Import Lib.Words Lib.Bytes.
Import ListNotations.
Local Open Scope N_scope.

Fixpoint failing_from {A} (run : A -> bool) (i : N) (cs : list A) : list N :=
  match cs with
  | [] => []
  | c :: r => if run c then failing_from run (N.succ i) r
              else i :: failing_from run (N.succ i) r
  end.
Definition failing {A} (run : A -> bool) (cs : list A) : list N := failing_from run 0 cs.

(** byte string of length [n] from a literal whose little-endian encoding is the string *)
Definition B (n : N) (x : N) : list N := le_split (N.to_nat n) x.

Fixpoint list_eqb (a b : list N) : bool :=
  match a, b with
  | [], [] => true
  | x :: a', y :: b' => N.eqb x y && list_eqb a' b'
  | _, _ => false
  end.
