(** Case runner for C12/C13, x86-64 back ends of ppv-lite86 (generated cases_*.v
    import this). A case is one call of one trait method on one machine; the
    runner evaluates the intrinsic-level model (Model/PpvSse.v, PpvAvx2.v) AND the lane-wise specification (Spec/Lanes.v) and compares both
    with what the implementation returned. A third case kind ([picase])
    compares one raw intrinsic call with Model/Intrinsics.v.

    Vector values travel as their byte image (16/32/64 bytes; words in lane
    order, each word little-endian). *)
From Coq Require Import NArith ZArith List Bool Arith Uint63.
From CC Require Import Lib.Words Lib.Bytes Lib.ListX Model.Intrinsics
  Model.PpvSse Model.PpvAvx2 Run.Runner.
From CC Require Spec.Lanes.
Import ListNotations.
Local Open Scope N_scope.

(** machine: 0 SSE2, 1 SSSE3, 2 SSE41, 3 AVX, 4 AVX2, 5 SseMachine<YesS3, YesS4, YesNI>,
    6 Avx2Machine<YesNI> (the NI type parameter selects no code in ppv-lite86: same models as 2 / 4).
    type: 0 u32x4, 1 u64x2, 2 u128x1, 3 u32x4x2, 4 u64x2x2, 5 u64x4, 6 u128x2,
          7 u32x4x4, 8 u64x2x4, 9 u128x4, 10/11/12 vec128/256/512_storage.
    [a], [b]: operands; [x]: element for insert; outcome ok/panic and result. *)
Record pxcase := PX { px_m : N; px_ty : N; px_op : N; px_k : N;
                      px_alen : N; px_a : list int; px_blen : N; px_b : list int;
                      px_xlen : N; px_x : list int;
                      px_ok : bool; px_rlen : N; px_r : list int }.

(** Byte strings are written by the harness as lists of primitive 63-bit integer literals,
    7 bytes (little-endian) per integer: Coq parses these natively, ~10x faster than [N]
    literals of the same size (measured: 0.75 ms against 8.5 ms per 64-byte string). They are
    converted to [N] bytes here and only carry data; models and specs are over [N]. *)
Definition BI (n : N) (cs : list int) : list N :=
  firstn (N.to_nat n) (flat_map (fun i => le_split 7 (Z.to_N (Uint63.to_Z i))) cs).

Definition s3_of (m : N) : bool := negb (m =? 0).
Definition s4_of (m : N) : bool := 2 <=? m.
Definition avx2_of (m : N) : bool := (m =? 4) || (m =? 6).

Definition nbytes (ty : N) : nat :=
  match ty with 0 | 1 | 2 | 10 => 16%nat | 3 | 4 | 5 | 6 | 11 => 32%nat | _ => 64%nat end.
Definition wbytes (ty : N) : nat :=
  match ty with 0 | 3 | 7 => 4%nat | 1 | 4 | 5 | 8 => 8%nat | _ => 16%nat end.
Definition wbits (ty : N) : N := 8 * N.of_nat (wbytes ty).
(** 128-bit element type of a vector type *)
Definition base (ty : N) : N :=
  match ty with 0 | 3 | 7 => 0 | 1 | 4 | 5 | 8 => 1 | _ => 2 end.
Definition nregs (ty : N) : nat := Nat.div (nbytes ty) 16.
Definition regs (ty : N) (a : list N) : list reg := split_regs (nregs ty) 16 a.

Definition oeqb (a b : outcome (list N)) : bool :=
  match a, b with
  | Ok x, Ok y => list_eqb x y
  | Panic, Panic => true
  | _, _ => false
  end.

(** * back-end model *)

Definition un128 (s3 : bool) (bt op k : N) (x : reg) : reg :=
  match op with
  | 6 => sse_not x
  | 20 => match bt with 0 => u32x4_rotr s3 k x | 1 => u64x2_rotr s3 k x | _ => u128x1_rotr k x end
  | 21 => u128x1_swap s3 k x
  | 22 => match bt with 0 => u32x4_bswap s3 x | 1 => u64x2_bswap s3 x | _ => u128x1_bswap s3 x end
  | 23 | 24 => match k with
               | 1230 => u32x4_shuffle1230 x
               | 2301 => u32x4_shuffle2301 x
               | _ => u32x4_shuffle3012 x
               end
  | _ => x
  end.
Definition bin128 (bt op : N) (a b : reg) : reg :=
  match op with
  | 1 | 2 => match bt with 0 => u32x4_add a b | _ => u64x2_add a b end
  | 3 | 8 => sse_xor a b
  | 4 | 9 => sse_and a b
  | 5 | 10 => sse_or a b
  | 7 => sse_andnot a b
  | _ => a
  end.
Definition un256 (op k : N) (x : reg) : reg :=
  match op with
  | 6 => avx2_not x
  | 20 => avx2_rotr k x
  | 22 => avx2_bswap x
  | 24 => match k with
          | 1230 => avx2_shuffle_lane_words1230 x
          | 2301 => avx2_shuffle_lane_words2301 x
          | _ => avx2_shuffle_lane_words3012 x
          end
  | _ => x
  end.
Definition bin256 (op : N) (a b : reg) : reg :=
  match op with
  | 1 | 2 => avx2_add a b
  | 3 | 8 => avx2_xor a b
  | 4 | 9 => avx2_and a b
  | 5 | 10 => avx2_or a b
  | 7 => avx2_andnot a b
  | _ => a
  end.
(** the AVX2 machine uses 256-bit registers for u32x4x2 and u32x4x4 only *)
Definition wide256 (m ty : N) : bool := avx2_of m && ((ty =? 3) || (ty =? 7)).
Definition regs256 (ty : N) (a : list N) : list reg := split_regs (Nat.div (nbytes ty) 32) 32 a.

Definition m_unop (m ty op k : N) (a : list N) : list N :=
  if wide256 m ty then concat (xn_unop (un256 op k) (regs256 ty a))
  else if (ty =? 5) && (op =? 23) then
    let v := (nth 0 (regs ty a) [], nth 1 (regs ty a) []) in
    let r := match k with
             | 1230 => u64x4_shuffle1230 (s3_of m) v
             | 2301 => u64x4_shuffle2301 v
             | _ => u64x4_shuffle3012 (s3_of m) v
             end in
    fst r ++ snd r
  else concat (xn_unop (un128 (s3_of m) (base ty) op k) (regs ty a)).
Definition m_binop (m ty op : N) (a b : list N) : list N :=
  if wide256 m ty then concat (xn_binop (bin256 op) (regs256 ty a) (regs256 ty b))
  else concat (xn_binop (bin128 (base ty) op) (regs ty a) (regs ty b)).

(** build through [from_lanes] / read through [to_lanes] (words for the 128-bit
    types and u64x4, 128-bit vectors for the other wide types) *)
Definition from_lanes128 (s4 : bool) (bt : N) (a : list N) : reg :=
  match bt with
  | 0 => u32x4_from_lanes s4 (words_le 4 a)
  | 1 => u64x2_from_lanes s4 (words_le 8 a)
  | _ => u128x1_from_lanes (words_le 16 a)
  end.
Definition to_lanes128 (s4 : bool) (bt : N) (x : reg) : list N :=
  match bt with
  | 0 => bytes_le 4 (u32x4_to_lanes s4 x)
  | 1 => bytes_le 8 (u64x2_to_lanes s4 x)
  | _ => bytes_le 16 (u128x1_to_lanes x)
  end.
Definition mk_lanes (m ty : N) (a : list N) : list N :=
  let s4 := s4_of m in
  let ls := map (from_lanes128 s4 (base ty)) (regs ty a) in
  if wide256 m ty then
    (if ty =? 3 then avx2_from_lanes ls else concat (avx4_from_lanes ls))
  else if ty =? 5 then
    let v := u64x4_from_lanes s4 (words_le 8 a) in fst v ++ snd v
  else concat (xn_from_lanes ls).
Definition rd_lanes (m ty : N) (v : list N) : list N :=
  let s4 := s4_of m in
  if wide256 m ty then
    concat (map (to_lanes128 s4 0)
                (if ty =? 3 then avx2_to_lanes v else avx4_to_lanes (regs256 ty v)))
  else if ty =? 5 then
    bytes_le 8 (u64x4_to_lanes s4 (nth 0 (regs ty v) [], nth 1 (regs ty v) []))
  else concat (map (to_lanes128 s4 (base ty)) (xn_to_lanes (regs ty v))).

(** [Store::unpack] of the storage whose bytes are [a], then [Into<storage>] *)
Definition mk_store (m ty : N) (a : list N) : list N :=
  if wide256 m ty then
    (if ty =? 3 then avx2_unpack a else concat (avx4_unpack a))
  else concat (map sse_unpack (match nregs ty with
                               | 1 => [a] | 2 => x2_unpack a | _ => x4_unpack a end%nat)).
Definition rd_store (m ty : N) (v : list N) : list N :=
  if wide256 m ty then
    (if ty =? 3 then avx2_into_storage v else avx4_into_storage (regs256 ty v))
  else xn_into_storage (map sse_into_storage (regs ty v)).

Definition bswap128 (s3 : bool) (bt : N) : reg -> reg :=
  match bt with 0 => u32x4_bswap s3 | 1 => u64x2_bswap s3 | _ => u128x1_bswap s3 end.

Definition m_read (m ty : N) (be : bool) (bs : list N) : outcome (list N) :=
  let rd128 := if be then sse_read_be (bswap128 (s3_of m) (base ty)) else sse_read_le in
  let rd256 := if be then avx2_read_be else avx2_read_le in
  if wide256 m ty then
    (if ty =? 3 then rd256 bs else omap (@concat N) (x2_read rd256 bs))
  else match nregs ty with
       | 1 => rd128 bs
       | 2 => omap (@concat N) (x2_read rd128 bs)
       | _ => omap (@concat N) (x4_read rd128 bs)
       end%nat.
Definition m_write (m ty : N) (be : bool) (v : list N) (outlen : nat) : outcome (list N) :=
  let wr128 := if be then sse_write_be (bswap128 (s3_of m) (base ty)) else sse_write_le in
  let wr256 := if be then avx2_write_be else avx2_write_le in
  if wide256 m ty then
    (if ty =? 3 then wr256 v outlen else x2_write wr256 [] (regs256 ty v) outlen)
  else match nregs ty with
       | 1 => wr128 v outlen
       | 2 => x2_write wr128 [] (regs ty v) outlen
       | _ => x4_write wr128 [] (regs ty v) outlen
       end%nat.

(** extract / insert: the element is a word (types 0, 1, 5) or a 128-bit vector *)
Definition m_extract (m ty : N) (a : list N) (i : N) : outcome (list N) :=
  let s4 := s4_of m in
  match ty with
  | 0 => omap (le_split 4) (u32x4_extract s4 a i)
  | 1 => omap (le_split 8) (u64x2_extract s4 a i)
  | 5 => omap (le_split 8) (u64x4_extract s4 (nth 0 (regs ty a) [], nth 1 (regs ty a) []) i)
  | _ => if wide256 m ty then
           (if ty =? 3 then avx2_extract a i else avx4_extract (regs256 ty a) i)
         else xn_extract (regs ty a) i
  end.
Definition m_insert (m ty : N) (a x : list N) (i : N) : outcome (list N) :=
  let s4 := s4_of m in
  match ty with
  | 0 => u32x4_insert s4 a (le_join x) i
  | 1 => u64x2_insert s4 a (le_join x) i
  | 5 => omap (fun v : reg * reg => fst v ++ snd v)
              (u64x4_insert s4 (nth 0 (regs ty a) [], nth 1 (regs ty a) []) (le_join x) i)
  | _ => if wide256 m ty then
           (if ty =? 3 then avx2_insert a x i else omap (@concat N) (avx4_insert (regs256 ty a) x i))
         else omap (@concat N) (xn_insert (regs ty a) x i)
  end.

Definition quad {A} (f : A -> list N) (t : A * A * A * A) : list N :=
  let '(p, q, r, s) := t in f p ++ f q ++ f r ++ f s.
Definition m_transpose4 (m : N) (a : list N) : list N :=
  let part (i : nat) := firstn 64 (skipn (64 * i)%nat a) in
  let p0 := part 0%nat in let p1 := part 1%nat in let p2 := part 2%nat in let p3 := part 3%nat in
  if avx2_of m then
    quad (@concat N) (avx4_transpose4 (regs256 7 p0) (regs256 7 p1) (regs256 7 p2) (regs256 7 p3))
  else
    quad (@concat N) (x4_transpose4 [] (regs 7 p0) (regs 7 p1) (regs 7 p2) (regs 7 p3)).
Definition m_to_scalars (m : N) (a : list N) : list N :=
  bytes_le 4 (if avx2_of m then avx4_to_scalars (regs256 7 a) else sse_x4_to_scalars (regs 7 a)).

(** storage views: from/to word sizes in bytes are encoded in [k] as 256*from + to
    (+ 65536 when the read side is the whole-width array conversion) *)
Definition view_from (k : N) : nat := N.to_nat ((k / 256) mod 256).
Definition view_to (k : N) : nat := N.to_nat (k mod 256).
Definition m_storage (k : N) (a : list N) : list N :=
  let f := view_from k in let t := view_to k in
  bytes_le t (words_le t (bytes_le f (words_le f a))).

Definition model (c : pxcase) : outcome (list N) :=
  let m := px_m c in let ty := px_ty c in let k := px_k c in
  let a := BI (px_alen c) (px_a c) in
  let b := BI (px_blen c) (px_b c) in
  let x := BI (px_xlen c) (px_x c) in
  match px_op c with
  | 1 | 2 | 3 | 4 | 5 | 7 | 8 | 9 | 10 => Ok (m_binop m ty (px_op c) a b)
  | 6 | 20 | 21 | 22 | 23 | 24 => Ok (m_unop m ty (px_op c) k a)
  | 30 => Ok (rd_lanes m ty (mk_lanes m ty a))
  | 31 => m_extract m ty a k
  | 32 => m_insert m ty a x k
  | 33 => Ok (rd_lanes m ty (mk_store m ty (m_storage k a)))
  | 34 => Ok (m_storage k (rd_store m ty (mk_lanes m ty a)))
  | 35 => Ok (m_storage k a)
  | 40 => m_read m ty false a
  | 41 => m_read m ty true a
  | 42 => m_write m ty false a (N.to_nat k)
  | 43 => m_write m ty true a (N.to_nat k)
  | 44 => Ok (rd_store m ty (mk_lanes m ty a))
  | 45 => Ok (rd_lanes m ty (mk_store m ty a))
  | 46 => (* Into: u128x1/x2/x4 (type [ty]) to the type [k] of the same width *)
      Ok (if wide256 m k then
            (if k =? 3 then avx2_from_u128x2 (regs ty a) else concat (avx4_from_u128x4 (regs ty a)))
          else concat (map sse_into_other (regs ty a)))
  | 47 => (* UnsafeFrom::unsafe_from on words (types 0, 1) or on lanes built with unpack, then Into<storage> *)
      Ok (rd_store m ty
            (if wide256 m ty then concat (map avx2_unpack (regs256 ty a))
             else match ty with
                  | 0 => u32x4_unsafe_from (words_le 4 a)
                  | 1 => u64x2_unsafe_from (words_le 8 a)
                  | _ => concat (xn_from_lanes (map sse_unpack (regs ty a)))
                  end))
  | 36 => (* Default of vec128/256/512_storage: the u128 view zeroed *)
      Ok (concat (repeat sse_default (nregs ty)))
  | 37 => (* PartialEq of the storage unions: u128x1 / [vec128_storage; n] / [vec256_storage; 2] compared *)
      Ok [if forallb (fun p : reg * reg => list_eqb (fst p) (snd p)) (combine (regs ty a) (regs ty b)) then 1 else 0]
  | 50 => Ok (m_transpose4 m a)
  | 51 => Ok (m_to_scalars m a)
  | _ => Panic
  end.

(** * lane-wise specification (Spec/Lanes.v) *)
Definition sp_words (ty : N) (a : list N) : list N := words_le (wbytes ty) a.
Definition sp_bytes (ty : N) (ws : list N) : list N := bytes_le (wbytes ty) ws.
Definition lane_perm {A} (k : N) : list A -> list A :=
  match k with
  | 1230 => Lanes.shuffle1230
  | 2301 => Lanes.shuffle2301
  | _ => Lanes.shuffle3012
  end.
(** element size in bytes and count of a Vec2/Vec4 view *)
Definition elem_bytes (ty : N) : nat :=
  match ty with 0 => 4%nat | 1 | 5 => 8%nat | _ => 16%nat end.
Definition elem_count (ty : N) : N := N.of_nat (Nat.div (nbytes ty) (elem_bytes ty)).
Definition elems (ty : N) (a : list N) : list (list N) :=
  chunks_exact (elem_bytes ty) (length a) a.

Definition spec (c : pxcase) : outcome (list N) :=
  let ty := px_ty c in let k := px_k c in let w := wbits ty in
  let a := BI (px_alen c) (px_a c) in
  let b := BI (px_blen c) (px_b c) in
  let x := BI (px_xlen c) (px_x c) in
  let wa := sp_words ty a in let wb := sp_words ty b in
  match px_op c with
  | 1 | 2 => Ok (sp_bytes ty (Lanes.v_add w wa wb))
  | 3 | 8 => Ok (sp_bytes ty (Lanes.v_xor wa wb))
  | 4 | 9 => Ok (sp_bytes ty (Lanes.v_and wa wb))
  | 5 | 10 => Ok (sp_bytes ty (Lanes.v_or wa wb))
  | 6 => Ok (sp_bytes ty (Lanes.v_not w wa))
  | 7 => Ok (sp_bytes ty (Lanes.v_andnot w wa wb))
  | 20 => Ok (sp_bytes ty (Lanes.v_rotr w k wa))
  | 21 => Ok (sp_bytes ty (Lanes.v_swap k w wa))
  | 22 => Ok (sp_bytes ty (Lanes.v_bswap w wa))
  | 23 => Ok (sp_bytes ty (lane_perm k wa))
  | 24 => Ok (sp_bytes ty (Lanes.per_lane4 (lane_perm k) wa))
  | 30 | 44 | 45 | 46 | 47 => Ok (sp_bytes ty wa)
  | 31 => if k <? elem_count ty then Ok (nth (N.to_nat k) (elems ty a) []) else Panic
  | 32 => if k <? elem_count ty then Ok (concat (upd (N.to_nat k) x (elems ty a))) else Panic
  | 33 | 34 | 35 =>
      Ok (bytes_le (view_to k)
            (Lanes.reinterpret (view_from k) (view_to k) (words_le (view_from k) a)))
  | 40 => if Nat.eqb (length a) (nbytes ty)
          then Ok (sp_bytes ty (Lanes.read_le (wbytes ty) a)) else Panic
  | 41 => if Nat.eqb (length a) (nbytes ty)
          then Ok (sp_bytes ty (Lanes.read_be (wbytes ty) a)) else Panic
  | 42 => if Nat.eqb (N.to_nat k) (nbytes ty)
          then Ok (Lanes.write_le (wbytes ty) wa) else Panic
  | 43 => if Nat.eqb (N.to_nat k) (nbytes ty)
          then Ok (Lanes.write_be (wbytes ty) wa) else Panic
  | 36 => Ok (repeat 0 (nbytes ty))
  | 37 => Ok [if list_eqb a b then 1 else 0]
  | 50 => let part (i : nat) := chunks_exact 16 64 (firstn 64 (skipn (64 * i)%nat a)) in
          Ok (quad (@concat N) (Lanes.transpose4 [] (part 0%nat) (part 1%nat) (part 2%nat) (part 3%nat)))
  | 51 => Ok (bytes_le 4 (words_le 4 a))
  | _ => Panic
  end.

Definition impl (c : pxcase) : outcome (list N) :=
  if px_ok c then Ok (BI (px_rlen c) (px_r c)) else Panic.

Definition run_px (c : pxcase) : bool := oeqb (model c) (impl c) && oeqb (spec c) (impl c).

(** for replay files: [1; model result] or [0] (panic), then the same for the spec *)
Definition explain_px (c : pxcase) : list N :=
  let show o := match o with Ok l => [1; le_join l] | Panic => [0] end in
  show (model c) ++ show (spec c).

(** * raw intrinsic calls against Model/Intrinsics.v *)
Record picase := PI { pi_id : N; pi_imm : N; pi_alen : N; pi_a : list int; pi_blen : N;
                      pi_b : list int; pi_rlen : N; pi_r : list int }.

Definition model_pi (c : picase) : list N :=
  let a := BI (pi_alen c) (pi_a c) in
  let b := BI (pi_blen c) (pi_b c) in
  let i := pi_imm c in
  let lo := le_join (firstn 8 a) in let hi := le_join (skipn 8 a) in
  match pi_id c with
  | 1 | 40 => mm_add_epi32 a b
  | 2 => mm_add_epi64 a b
  | 3 | 41 => mm_and a b
  | 4 | 42 => mm_or a b
  | 5 | 43 => mm_xor a b
  | 6 | 44 => mm_andnot a b
  | 7 => mm_srli_epi16 a i
  | 8 => mm_slli_epi16 a i
  | 9 | 45 => mm_srli_epi32 a i
  | 10 | 46 => mm_slli_epi32 a i
  | 11 => mm_srli_epi64 a i
  | 12 => mm_slli_epi64 a i
  | 13 => mm_srli_si128 a (N.to_nat i)
  | 14 => mm_slli_si128 a (N.to_nat i)
  | 15 => mm_shuffle_epi32 a i
  | 16 => mm_shufflelo_epi16 a i
  | 17 => mm_shufflehi_epi16 a i
  | 18 => mm_shuffle_epi8 a b
  | 19 => mm_alignr_epi8 a b (N.to_nat i)
  | 20 => mm_unpacklo_epi8 a b
  | 21 => mm_unpackhi_epi8 a b
  | 22 => mm_packus_epi16 a b
  | 23 => mm_setzero
  | 24 => mm_set_epi64x hi lo
  | 25 => mm_set1_epi64x lo
  | 26 => mm_set1_epi8 i
  | 27 => match words_le 4 a with [e0; e1; e2; e3] => mm_set_epi32 e3 e2 e1 e0 | _ => [] end
  | 28 => mm_cvtsi32_si128 (le_join (firstn 4 a))
  | 29 => mm_cvtsi64_si128 lo
  | 30 => le_split 8 (mm_cvtsi128_si64 a)
  | 31 => le_split 8 (mm_extract_epi64 a (N.to_nat i))
  | 32 => mm_insert_epi64 a (le_join b) (N.to_nat i)
  | 33 => mm_insert_epi32 a (le_join b) (N.to_nat i)
  | 34 => mm_move_epi64 a
  | 35 => mm_cmpeq_epi32 a b
  | 47 => mm256_shuffle_epi8 a b
  | 48 => mm256_shuffle_epi32 a i
  | 49 => match words_le 8 a with [e0; e1; e2; e3] => mm256_set_epi64x e3 e2 e1 e0 | _ => [] end
  | 50 => mm256_set1_epi8 i
  | 51 => mm256_extracti128 a (N.to_nat i)
  | 52 => mm256_inserti128 a b (N.to_nat i)
  | 53 => mm256_setr_m128i a b
  | 54 => mm256_permute2x128 a b i
  | _ => []
  end.
Definition run_pi (c : picase) : bool := list_eqb (model_pi c) (BI (pi_rlen c) (pi_r c)).
Definition explain_pi (c : picase) : list N := [le_join (model_pi c)].
