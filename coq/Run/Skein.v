(** Case runner for C05 (and the Skein part of C17): generated cases_*.v import this. *)
From Coq Require Import NArith List Bool.
From CC Require Import Lib.Words Lib.Bytes Model.Threefish Model.BlockBuffer Model.Skein Run.Runner.
From CC Require Spec.Threefish Spec.Skein.
Import ListNotations.
Local Open Scope N_scope.

(** state size (256/512/1024), output bytes N, debug profile?, no_unroll?;
    hook?: state entered with verif_set_state (chaining value x, t.0, t.1, buffered bytes);
    message (or tail), fed as update(msg[..split]); update(msg[split..]);
    implementation: panicked?, (t.0, t.1, buffer position) read back after the
    updates, digest *)
Record skcase := SK {
  sk_size : N; sk_nout : N; sk_debug : bool; sk_nu : bool;
  sk_hook : bool; sk_x : N; sk_t0 : N; sk_t1 : N; sk_nbuf : N; sk_buf : N;
  sk_len : N; sk_msg : N; sk_split : N;
  sk_panic : bool; sk_at0 : N; sk_at1 : N; sk_apos : N; sk_dig : N }.

Definition variant_of (size : N) : variant :=
  if size =? 256 then skein256 else if size =? 512 then skein512 else skein1024.
Definition sparams_of (size : N) : Spec.Skein.sparams :=
  if size =? 256 then Spec.Skein.skein256p else if size =? 512 then Spec.Skein.skein512p
  else Spec.Skein.skein1024p.

Definition prof_of (c : skcase) : profile := if sk_debug c then Debug else Release.

(** the model run: ((t.0, t.1, pos) after the updates, digest) *)
Definition model_run (c : skcase) : res ((N * N * N) * list N) :=
  let v := variant_of (sk_size c) in
  let pr := prof_of c in
  let nout := N.to_nat (sk_nout c) in
  let msg := B (sk_len c) (sk_msg c) in
  let k := N.to_nat (sk_split c) in
  bind (default pr (sk_nu c) v (sk_nout c)) (fun h0 =>
    let h1 := if sk_hook c
              then Hs (St (sk_t0 c) (sk_t1 c) (B (sk_size c / 8) (sk_x c)))
                      (fst (input_lazy (bb_reset (h_buffer h0)) (B (sk_nbuf c) (sk_buf c))))
              else h0 in
    bind (updates pr (sk_nu c) v h1 [firstn k msg; skipn k msg]) (fun h2 =>
      bind (finalize_into_dirty pr (sk_nu c) v h2 nout) (fun r =>
        Ok ((st_t0 (h_state h2), st_t1 (h_state h2), N.of_nat (bb_pos (h_buffer h2))), fst r)))).

(** is the case inside the domain of the specification, and what does it say *)
Definition spec_applies (c : skcase) : bool :=
  if sk_hook c
  then (sk_t0 c + sk_nbuf c + sk_len c <? two64)
       && ((sk_t1 c =? T1_BLK_TYPE_MSG) || (sk_t1 c =? N.lor T1_FLAG_FIRST T1_BLK_TYPE_MSG))
  else true.

Definition spec_run (c : skcase) : list N :=
  let p := sparams_of (sk_size c) in
  let nout := N.to_nat (sk_nout c) in
  let msg := B (sk_len c) (sk_msg c) in
  if sk_hook c
  then Spec.Skein.output p
         (Spec.Skein.ubi_from p (B (sk_size c / 8) (sk_x c)) Spec.Skein.T_MSG (sk_t0 c)
            (N.testbit (sk_t1 c) 62) (B (sk_nbuf c) (sk_buf c) ++ msg)) nout
  else Spec.Skein.skein p nout msg.

Definition run_c05 (c : skcase) : bool :=
  let dig := B (sk_nout c) (sk_dig c) in
  match model_run c with
  | Panic => sk_panic c
  | Ok (t0, t1, pos, d) =>
      negb (sk_panic c) && (t0 =? sk_at0 c) && (t1 =? sk_at1 c) && (pos =? sk_apos c)
      && list_eqb d dig
      && (if spec_applies c then list_eqb (spec_run c) dig else true)
  end.

(** for replay files: [model panicked; model t.0; t.1; pos; model digest; spec applies; spec digest]
    (digests as little-endian numbers) *)
Definition explain_c05 (c : skcase) : list N :=
  (match model_run c with
   | Panic => [1; 0; 0; 0; 0]
   | Ok (t0, t1, pos, d) => [0; t0; t1; pos; le_join d]
   end) ++ (if spec_applies c then [1; le_join (spec_run c)] else [0; 0]).
