(** Case runner for C04 and the BLAKE part of C17 (generated cases_*.v import this). *)
From Coq Require Import NArith List Bool.
From CC Require Import Lib.Words Lib.Bytes Model.BlockBuffer Model.Blake Run.Runner.
From CC Require Spec.Blake.
Import ListNotations.
Local Open Scope N_scope.

(** [BD]: digest of a whole message. variant (224/256/384/512), length, message, digest.
    [BH]: through hook H2: variant, chaining value (8 words big-endian, as one byte string),
    t0, t1, buffered bytes, tail, digest of (set_state; update tail; finalize).
    [BU]: message given in parts (length, literal) (a single literal is limited to ~3000 bytes
    by coqc's number parser); oneshot = true: the implementation hashed the concatenation with
    one [update]; false: one [update] call per part. *)
Inductive bcase :=
| BD (variant : N) (len : N) (msg : N) (digest : N)
| BU (variant : N) (oneshot : bool) (parts : list (N * N)) (digest : N)
| BH (variant : N) (h : N) (t0 t1 : N) (blen : N) (buffered : N) (tlen : N) (tail : N) (digest : N).

Definition spec_of (v : N) : Spec.Blake.variant :=
  if v =? 224 then Spec.Blake.blake224 else if v =? 256 then Spec.Blake.blake256
  else if v =? 384 then Spec.Blake.blake384 else Spec.Blake.blake512.
Definition model_of (v : N) : list N -> option (list N) :=
  if v =? 224 then blake224 else if v =? 256 then blake256
  else if v =? 384 then blake384 else blake512.
Definition model_from (v : N) :=
  if v =? 224 then digest_from put_block32 32 4 false 28
  else if v =? 256 then digest_from put_block32 32 4 true 32
  else if v =? 384 then digest_from put_block64 64 8 false 48
  else digest_from put_block64 64 8 true 64.
Definition model_parts (v : N) : list (list N) -> option (list N) :=
  if v =? 224 then digest_parts put_block32 32 4 false BLAKE224_IV 28
  else if v =? 256 then digest_parts put_block32 32 4 true BLAKE256_IV 32
  else if v =? 384 then digest_parts put_block64 64 8 false BLAKE384_IV 48
  else digest_parts put_block64 64 8 true BLAKE512_IV 64.
Definition wb_of (v : N) : nat := if v <=? 256 then 4%nat else 8%nat.
Definition out_of (v : N) : N := v / 8.

(** chaining value bytes -> 8 words *)
Definition h_words (v : N) (h : N) : list N :=
  let wb := wb_of v in
  map be_join (chunks_exact wb (8 * wb) (B (N.of_nat (8 * wb)) h)).

Definition opt_eqb (a : option (list N)) (b : list N) : bool :=
  match a with Some x => list_eqb x b | None => false end.

(** model result, spec result *)
Definition eval_case (c : bcase) : option (list N) * list N * list N :=
  match c with
  | BD v len msg dg =>
      let m := B len msg in
      (model_of v m, Spec.Blake.hash (spec_of v) m, B (out_of v) dg)
  | BU v oneshot parts dg =>
      let ps := map (fun p => B (fst p) (snd p)) parts in
      let m := concat ps in
      ((if oneshot then model_of v m else model_parts v ps),
       Spec.Blake.hash (spec_of v) m, B (out_of v) dg)
  | BH v h t0 t1 blen buffered tlen tail dg =>
      let hw := h_words v h in
      let b := B blen buffered in let tl := B tlen tail in
      let sv := spec_of v in
      let wbits := Spec.Blake.wbits sv in
      let k := (t0 + t1 * 2 ^ wbits) / (8 * Spec.Blake.block_N sv) in
      (model_from v (firstn 4 hw, skipn 4 hw) t0 t1 b tl,
       Spec.Blake.hash_from sv hw k (b ++ tl), B (out_of v) dg)
  end.

Definition run_blake (c : bcase) : bool :=
  let '(m, s, d) := eval_case c in opt_eqb m d && list_eqb s d.

(** for replay files: model digest and spec digest as big-endian numbers
    (model: 0 preceded by marker 0xdead if the model panics) *)
Definition explain_blake (c : bcase) : list N :=
  let '(m, s, d) := eval_case c in
  [match m with Some x => be_join x | None => 0xdead end; be_join s].
