(** Case runner for C16 (generated cases_*.v import this).

    A case is a window of the guarded memory region around the slice before and after an API
    call made by the harness (h_mem), the slice's offset and length inside the window, and
    oracle bytes taken from the run of the same implementation on an ordinary aligned buffer.
    The runner recomputes the window with the addressed model of Model/SliceApi.v. *)
From Coq Require Import NArith List Bool Arith.
From CC Require Import Lib.Words Lib.Bytes Model.SliceApi Run.Runner.
Import ListNotations.
Local Open Scope N_scope.

(** kind: 0 = key-stream application (oracle = the key stream), 1 = payload is the oracle,
    2 = payload is the oracle with every [w]-byte word reversed, 3 = read-only *)
Record memcase := MC { mc_kind : N; mc_w : N; mc_off : N; mc_len : N; mc_rlen : N;
                       mc_before : N; mc_after : N; mc_aux : N; mc_have : N }.

Definition pad64 (l : list N) : list N := firstn 64 (l ++ repeat 0 64).
(** block [c] of the oracle key stream, counted behind the [hr] buffered bytes *)
Definition o_refill (ks : list N) (hr : nat) (c : N) : list N :=
  pad64 (skipn (hr + 64 * N.to_nat c) ks).
Definition o_refill4 (ks : list N) (hr : nat) (c : N) : list N :=
  o_refill ks hr c ++ o_refill ks hr (c + 1) ++ o_refill ks hr (c + 2) ++ o_refill ks hr (c + 3).

Definition model_mem (c : memcase) : option (list N) :=
  let m := B (mc_rlen c) (mc_before c) in
  let len := N.to_nat (mc_len c) in
  let s := Sl (N.to_nat (mc_off c)) len in
  let aux := B (mc_len c) (mc_aux c) in
  if mc_kind c =? 0 then
    let have := N.to_nat (mc_have c) in
    let hr := Nat.min have len in
    let out := repeat 0 (64 - have) ++ firstn have (aux ++ repeat 0 64) in
    match m_apply (o_refill aux hr) (o_refill4 aux hr) m s (KS out have 0) with
    | Some (m', _) => Some m'
    | None => None
    end
  else if mc_kind c =? 1 then
    match sb_write aux m s with Ok m' => Some m' | _ => None end
  else if mc_kind c =? 2 then
    match sb_write (rev_words (N.to_nat (mc_w c)) len aux) m s with Ok m' => Some m' | _ => None end
  else
    match sb_read len m s with Ok _ => Some m | _ => None end.

Definition run_mem (c : memcase) : bool :=
  match model_mem c with
  | Some m' => list_eqb m' (B (mc_rlen c) (mc_after c))
  | None => false
  end.

(** the model's window after the call, as a little-endian number (0 if the model faults) *)
Definition explain_mem (c : memcase) : list N :=
  match model_mem c with Some m' => [le_join m'] | None => [0] end.
