(** Case runner for C07 / the Groestl part of C17 (generated cases_*.v import this). *)
From Coq Require Import NArith List Bool.
From CC Require Import Lib.Words Lib.Bytes Lib.ListX Spec.AES Model.GroestlIntrinsics
     Model.Groestl Model.BlockBuffer Proofs.GroestlLayout Run.Runner.
From CC Require Spec.Groestl.
Import ListNotations.
Local Open Scope N_scope.

Inductive gcase :=
  (** digest of a message fed in two [update] calls ([split] = length of the first):
      variant (224/256/384/512), length, message, split, implementation digest *)
| GD (v len msg split dig : N)
  (** through hook H2: variant, build profile (overflow checks on?), chaining value as
      stored, block_counter, buffered length and bytes, tail length and bytes, did the
      implementation panic, its digest of (state; update tail; finalize) *)
| GS (v : N) (debug : bool) (cv count blen buffered tlen tail : N) (panicked : bool) (dig : N)
  (** one intrinsic on this host's CPU: op code, immediate, operands, result *)
| GI (op imm a b r : N).

Definition comp_of (v : N) : comp :=
  if v <=? 256 then comp512 sbox_fast else comp1024 sbox_fast.
Definition out_of (v : N) : list N -> list N :=
  if v =? 224 then out224 else if v =? 256 then out256 else if v =? 384 then out384 else out512.
Definition params_of (v : N) : Spec.Groestl.params :=
  if v <=? 256 then Spec.Groestl.p512 else Spec.Groestl.p1024.

Definition model_digest (v : N) (msg : list N) : list N :=
  digest (comp_of v) v (out_of v) msg.
(** two [update] calls, as the harness does *)
Definition model_digest2 (v : N) (msg : list N) (split : nat) : list N :=
  let c := comp_of v in
  out_of v (finalize_dirty c (update c (update c (new_truncated c v) (firstn split msg)) (skipn split msg))).
Definition spec_digest (v : N) (msg : list N) : list N :=
  Spec.Groestl.hash sbox_fast (params_of v) (N.to_nat (v / 8)) msg.

Definition entered (v cv count : N) (buffered : list N) : hasher :=
  let c := comp_of v in
  let bs := N.of_nat (c_bytes c) in
  H (fst (input_block (bb_new (c_bytes c)) buffered)) count
    (regs_of_bytes (Nat.div (c_bytes c) 16) (B bs cv)).
(** [None] = panic *)
Definition model_from (debug : bool) (v cv count : N) (buffered tail : list N) : option (list N) :=
  let c := comp_of v in
  match update_chk debug c (entered v cv count buffered) tail with
  | None => None
  | Some h => match finalize_chk debug c h with
              | None => None
              | Some r => Some (out_of v r)
              end
  end.
(** number of blocks the padded message has in total (prior ones included) *)
Definition total_blocks (v count : N) (buffered tail : list N) : N :=
  let bs := Spec.Groestl.block_bytes (params_of v) in
  count + N.of_nat (Spec.Groestl.pad_blocks bs (length buffered + length tail)).
Definition spec_from (v cv count : N) (buffered tail : list N) : list N :=
  let p := params_of v in
  let bs := N.of_nat (Spec.Groestl.block_bytes p) in
  let h := col_major (Spec.Groestl.cols p) (B bs cv) in
  Spec.Groestl.hash_from sbox_fast p (N.to_nat (v / 8)) h count (buffered ++ tail).

Definition intrinsic (op imm : N) (a b : reg) (a64 b64 : N) : reg :=
  match op with
  | 0 => mm_xor_si128 a b
  | 1 => mm_and_si128 a b
  | 2 => mm_add_epi8 a b
  | 3 => mm_cmpgt_epi8 a b
  | 4 => mm_shuffle_epi8 a b
  | 5 => mm_unpacklo_epi8 a b
  | 6 => mm_unpacklo_epi16 a b
  | 7 => mm_unpacklo_epi32 a b
  | 8 => mm_unpacklo_epi64 a b
  | 9 => mm_unpackhi_epi8 a b
  | 10 => mm_unpackhi_epi16 a b
  | 11 => mm_unpackhi_epi32 a b
  | 12 => mm_unpackhi_epi64 a b
  | 13 => mm_shuffle_epi32 a imm
  | 14 => mm_set_epi64x a64 b64
  | 15 => mm_cvtsi64_si128 a64
  | 16 => mm_aesenclast_si128 sbox_fast a b
  | 17 => mm_set1_epi64x a64
  | 18 => mul2 a
  | _ => []
  end.

Definition run_c07 (c : gcase) : bool :=
  match c with
  | GD v len msg split dig =>
      let m := B len msg in let d := B (v / 8) dig in
      list_eqb (model_digest2 v m (N.to_nat split)) d && list_eqb (spec_digest v m) d
  | GS v debug cv count blen buffered tlen tail panicked dig =>
      let bf := B blen buffered in let tl := B tlen tail in let d := B (v / 8) dig in
      match model_from debug v cv count bf tl with
      | None => panicked
      | Some r => negb panicked && list_eqb r d
      end
      (* the specification speaks about messages of fewer than 2^64 blocks: there the
         implementation must not panic and must return the specified digest *)
      && (if total_blocks v count bf tl <? 18446744073709551616
          then negb panicked && list_eqb (spec_from v cv count bf tl) d else true)
  | GI op imm a b r =>
      list_eqb (intrinsic op imm (B 16 a) (B 16 b) a b) (B 16 r)
  end.

(** for replay files: model result, spec result (big-endian numbers = hex digests) *)
Definition explain_c07 (c : gcase) : list N :=
  match c with
  | GD v len msg split dig =>
      let m := B len msg in [be_join (model_digest2 v m (N.to_nat split)); be_join (spec_digest v m)]
  | GS v debug cv count blen buffered tlen tail panicked dig =>
      let bf := B blen buffered in let tl := B tlen tail in
      [match model_from debug v cv count bf tl with None => 0 | Some r => be_join r end;
       be_join (spec_from v cv count bf tl);
       match model_from debug v cv count bf tl with None => 1 | Some _ => 0 end;
       total_blocks v count bf tl]
  | GI op imm a b r => [be_join (intrinsic op imm (B 16 a) (B 16 b) a b)]
  end.
