(** Case runner for C08 (generated cases_*.v import this).

    A case is an operation history on a table of instances of ONE hash type, run by the
    harness on the implementation.  The model of the buffering (Model/Hasher.v instantiated
    with the logging hasher of Proofs/HasherExample.v, whose "digest" is the sequence of
    blocks given to the closure followed by the buffered bytes) is run on the same history
    inside Coq and must predict
      - after every operation: buffer position, number of bytes the implementation has
        compressed so far (from its own counter: BLAKE t, Groestl block_counter, JH datalen,
        Skein state.t, read through the verification hook) and the buffered bytes;
      - for every digest returned: the slot, and the byte string it is the hash of; the
        harness supplies the implementation's one-shot digest of a byte string it names
        by the update operations whose pieces, concatenated, form it ([ho_pieces]); that
        string must be the predicted one and the two digests must be equal. *)
From Coq Require Import NArith List Bool.
From CC Require Import Lib.Words Lib.Bytes Model.BlockBuffer Model.Hasher Proofs.HasherExample Run.Runner.
Import ListNotations.
Local Open Scope N_scope.

(** [HU k len lit]: update with the [len] bytes of the literal; [HG k len a b]: update with the
    bytes [(a + j*b) mod 256], j = 0..len-1 (keeps the case files small) *)
Inductive hop := HU (k len lit : N) | HG (k len a b : N) | HCl (k : N) | HR (k : N) | HFR (k : N) | HF (k : N).

Fixpoint gen_bytes (n : nat) (a b : N) : list N :=
  match n with
  | O => []
  | S n' => N.land a 255 :: gen_bytes n' (a + b) b
  end.

(** one returned digest: slot, digest returned by the history, one-shot digest of the
    concatenation of the pieces of the update operations with the given indices *)
Record hout := HO { ho_slot : N; ho_digest : N; ho_oneshot : N; ho_pieces : list N }.

Record hcase := HCase {
  hc_size : N;                       (* block size in bytes *)
  hc_lazy : bool;                    (* Skein *)
  hc_ops : list hop;
  hc_obs : list (N * N * N);         (* per op: (pos, bytes compressed, buffered bytes) of the slot
                                        named by the op (Clone: of the new slot) after it;
                                        Finalize: (0,0,0) *)
  hc_outs : list hout }.             (* in the order returned *)

Definition op_of (o : hop) : op :=
  match o with
  | HU k len lit => Update (N.to_nat k) (B len lit)
  | HG k len a b => Update (N.to_nat k) (gen_bytes (N.to_nat len) a b)
  | HCl k => Clone (N.to_nat k)
  | HR k => Reset (N.to_nat k)
  | HFR k => FinalizeReset (N.to_nat k)
  | HF k => Finalize (N.to_nat k)
  end.

Definition L := list (list N).

(** the slot whose state is observed after [o], given the table before and after *)
Definition obs_slot (o : op) (Tbefore : table L) : nat :=
  match o with
  | Update k _ => k | Reset k => k | FinalizeReset k => k | Finalize k => k
  | Clone _ => length Tbefore
  end.

Definition obs_of (size : nat) (T : table L) (j : nat) : N * N * N :=
  match live T j with
  | Some i => (N.of_nat (bb_pos (i_buf i)),
               N.of_nat (length (i_st i) * size),
               le_join (firstn (bb_pos (i_buf i)) (bb_buf (i_buf i))))
  | None => (0, 0, 0)
  end.

Definition obs_eqb (a b : N * N * N) : bool :=
  let '(a1, a2, a3) := a in let '(b1, b2, b3) := b in
  (a1 =? b1) && (a2 =? b2) && (a3 =? b3).

(** model observations and outputs of a history *)
Fixpoint mrun (h : hasher L (list N)) (size : nat) (T : table L) (ops : list op)
  : list (N * N * N) * list (nat * list N) :=
  match ops with
  | [] => ([], [])
  | o :: r =>
      let e := exec h T o in
      let q := mrun h size (fst e) r in
      (obs_of size (fst e) (obs_slot o T) :: fst q, snd e ++ snd q)
  end.

Fixpoint all2 {A B} (f : A -> B -> bool) (a : list A) (b : list B) : bool :=
  match a, b with
  | [], [] => true
  | x :: a', y :: b' => f x y && all2 f a' b'
  | _, _ => false
  end.

Definition piece_of (ops : list op) (i : N) : list N :=
  match nth_error ops (N.to_nat i) with Some (Update _ d) => d | _ => [] end.

Definition out_ok (ops : list op) (m : nat * list N) (o : hout) : bool :=
  (N.of_nat (fst m) =? ho_slot o)
  && list_eqb (snd m) (concat (map (piece_of ops) (ho_pieces o)))
  && (ho_digest o =? ho_oneshot o).

Definition model_of (c : hcase) :=
  let size := N.to_nat (hc_size c) in
  let h := log_hasher size (hc_lazy c) in
  mrun h size [Some (h_new h)] (map op_of (hc_ops c)).

Definition run_c08 (c : hcase) : bool :=
  let m := model_of c in
  all2 obs_eqb (fst m) (hc_obs c) && all2 (out_ok (map op_of (hc_ops c))) (snd m) (hc_outs c).

(** for replay files: the model's observations (pos, compressed, buffered) per operation,
    then 0xffffffff, then per digest (slot, length, message) *)
Definition explain_c08 (c : hcase) : list N :=
  let m := model_of c in
  flat_map (fun o => let '(a, b, d) := o in [a; b; d]) (fst m)
  ++ [0xffffffff]
  ++ flat_map (fun p => [N.of_nat (fst p); N.of_nat (length (snd p)); le_join (snd p)]) (snd m).
