(** Case runner for C09/C10 (generated cases_*.v import this). *)
From Coq Require Import NArith List Bool.
From CC Require Import Lib.Words Lib.Bytes Model.Threefish Run.Runner.
From CC Require Spec.Threefish.
Import ListNotations.
Local Open Scope N_scope.

(** size (256/512/1024), no_unroll, key, tweak0, tweak1, block, impl E(block), impl D(block) *)
Record tfcase := TF { tf_size : N; tf_nu : bool; tf_key : N; tf_t0 : N; tf_t1 : N;
                      tf_block : N; tf_enc : N; tf_dec : N }.

Definition cfg_of (size : N) : cfg :=
  if size =? 256 then threefish256 else if size =? 512 then threefish512 else threefish1024.
Definition spec_of (size : N) : Spec.Threefish.params :=
  if size =? 256 then Spec.Threefish.tf256 else if size =? 512 then Spec.Threefish.tf512
  else Spec.Threefish.tf1024.

Definition run_c09 (c : tfcase) : bool :=
  let n := tf_size c / 8 in
  let key := B n (tf_key c) in let blk := B n (tf_block c) in
  let m := m_encrypt (cfg_of (tf_size c)) (tf_nu c) key (tf_t0 c) (tf_t1 c) blk in
  let s := Spec.Threefish.spec_encrypt (spec_of (tf_size c)) key (tf_t0 c) (tf_t1 c) blk in
  list_eqb m (B n (tf_enc c)) && list_eqb s (B n (tf_enc c)).

Definition run_c10 (c : tfcase) : bool :=
  let n := tf_size c / 8 in
  let key := B n (tf_key c) in let blk := B n (tf_block c) in
  let cf := cfg_of (tf_size c) in
  let e := m_encrypt cf (tf_nu c) key (tf_t0 c) (tf_t1 c) blk in
  let d := m_decrypt cf (tf_nu c) key (tf_t0 c) (tf_t1 c) blk in
  list_eqb e (B n (tf_enc c)) && list_eqb d (B n (tf_dec c)).

(** model E(b), model D(b), spec E(b) as little-endian numbers, for replay files *)
Definition explain_tf (c : tfcase) : list N :=
  let n := tf_size c / 8 in
  let key := B n (tf_key c) in let blk := B n (tf_block c) in
  let cf := cfg_of (tf_size c) in
  [le_join (m_encrypt cf (tf_nu c) key (tf_t0 c) (tf_t1 c) blk);
   le_join (m_decrypt cf (tf_nu c) key (tf_t0 c) (tf_t1 c) blk);
   le_join (Spec.Threefish.spec_encrypt (spec_of (tf_size c)) key (tf_t0 c) (tf_t1 c) blk)].
