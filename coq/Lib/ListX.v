(** Small list utilities shared by models and specs. *)
From Coq Require Import NArith List Lia Arith Bool.
Import ListNotations.

Fixpoint upd {A} (i : nat) (x : A) (l : list A) : list A :=
  match l, i with
  | [], _ => []
  | _ :: r, O => x :: r
  | y :: r, S k => y :: upd k x r
  end.

Fixpoint map2 {A B C} (f : A -> B -> C) (a : list A) (b : list B) : list C :=
  match a, b with
  | x :: a', y :: b' => f x y :: map2 f a' b'
  | _, _ => []
  end.

Definition nth2 {A} (i j : nat) (t : list (list A)) (d : A) : A := nth j (nth i t []) d.

Lemma upd_length {A} i (x : A) l : length (upd i x l) = length l.
Proof. revert i; induction l as [|y r IH]; intros [|i]; simpl; auto. Qed.

Lemma map2_length {A B C} (f : A -> B -> C) a b :
  length (map2 f a b) = Nat.min (length a) (length b).
Proof. revert b; induction a as [|x a IH]; intros [|y b]; simpl; auto. Qed.

(** nested loops [for i in 0..n { for d in 0..k { body(i,d) } }] as one loop *)
Lemma fold_seq_S {A} (f : A -> nat -> A) n a :
  fold_left f (seq 0 (S n)) a = f (fold_left f (seq 0 n) a) n.
Proof. rewrite seq_S, fold_left_app. reflexivity. Qed.

Lemma fold_left_ext_inv {A B} (Inv : A -> Prop) (f g : A -> B -> A) l a :
  Inv a ->
  (forall a x, Inv a -> In x l -> f a x = g a x) ->
  (forall a x, Inv a -> In x l -> Inv (g a x)) ->
  fold_left f l a = fold_left g l a /\ Inv (fold_left g l a).
Proof.
  revert a; induction l as [|x l IH]; intros a Ha Hfg Hinv; simpl; [auto|].
  rewrite Hfg by (auto; now left).
  apply IH.
  - apply Hinv; auto. now left.
  - intros; apply Hfg; auto. now right.
  - intros; apply Hinv; auto. now right.
Qed.

(** destruct a list whose length is a known numeral into its elements *)
Ltac explode l :=
  match goal with
  | H : length l = O |- _ => destruct l; [clear H | discriminate H]
  | H : length l = S _ |- _ =>
      destruct l as [|? l]; [discriminate H | cbn [length] in H; apply eq_add_S in H; explode l]
  end.

Lemma fold_roundtrip {A} (Inv : A -> Prop) (f g : A -> nat -> A) n :
  (forall i a, Inv a -> g (f a i) i = a /\ Inv (f a i)) ->
  forall a, Inv a -> fold_left g (rev (seq 0 n)) (fold_left f (seq 0 n) a) = a.
Proof.
  intros H. induction n as [|n IH]; intros a Ha; [reflexivity|].
  rewrite seq_S, fold_left_app, rev_app_distr. cbn [rev app fold_left plus].
  assert (Hinv : forall l a, Inv a -> Inv (fold_left f l a)).
  { induction l as [|x l IHl]; intros b Hb; simpl; [exact Hb|]. apply IHl, H, Hb. }
  destruct (H n (fold_left f (seq 0 n) a) (Hinv _ _ Ha)) as [-> _].
  apply IH, Ha.
Qed.

Lemma map2_roundtrip {A B} (Inv : A -> Prop) (f g : A -> B -> A) :
  (forall a b, Inv a -> g (f a b) b = a) ->
  forall v k, Forall Inv v -> length v <= length k -> map2 g (map2 f v k) k = v.
Proof.
  intros H. induction v as [|x v IH]; intros [|y k] Hv Hl; simpl in *; try reflexivity; try lia.
  inversion Hv; subst. rewrite H by assumption. f_equal. apply IH; [assumption|lia].
Qed.

Lemma fold_roundtrip' {A B} (Inv : A -> Prop) (f g : A -> B -> A) l :
  (forall x a, In x l -> Inv a -> g (f a x) x = a /\ Inv (f a x)) ->
  forall a, Inv a ->
    fold_left g (rev l) (fold_left f l a) = a /\ Inv (fold_left f l a).
Proof.
  induction l as [|x l IH]; intros H a Ha; [now split|].
  cbn [fold_left rev]. rewrite fold_left_app. cbn [fold_left].
  destruct (H x a (or_introl eq_refl) Ha) as [E I].
  destruct (IH (fun y b Hy => H y b (or_intror Hy)) (f a x) I) as [E' I'].
  rewrite E', E. now split.
Qed.

Lemma map2_Forall {A B C} (P : C -> Prop) (f : A -> B -> C) a b :
  (forall x y, P (f x y)) -> Forall P (map2 f a b).
Proof. intros H. revert b; induction a as [|x a IH]; intros [|y b]; simpl; constructor; auto. Qed.

Lemma nth_map_seq {A} (f : nat -> A) n i d : i < n -> nth i (map f (seq 0 n)) d = f i.
Proof.
  intros H. rewrite (nth_indep _ d (f 0)) by (rewrite map_length, seq_length; lia).
  rewrite map_nth, seq_nth by lia. reflexivity.
Qed.

(** decidable equality of word lists *)
Fixpoint nlist_eqb (a b : list N) : bool :=
  match a, b with
  | [], [] => true
  | x :: a', y :: b' => N.eqb x y && nlist_eqb a' b'
  | _, _ => false
  end.

Lemma nlist_eqb_eq a b : nlist_eqb a b = true <-> a = b.
Proof.
  revert b; induction a as [|x a IH]; intros [|y b]; simpl; split; intro H;
    try reflexivity; try discriminate.
  - apply andb_prop in H. destruct H as [H1 H2].
    apply N.eqb_eq in H1. apply IH in H2. congruence.
  - injection H as -> ->. rewrite N.eqb_refl. simpl. now apply IH.
Qed.
