(** Little-endian byte views of words. Bytes are [N] below 256. *)
From Coq Require Import NArith List Lia Bool ZArith.
From CC Require Import Lib.Words.
Import ListNotations.
Local Open Scope N_scope.

Definition is_byte (b : N) : Prop := b < 256.

Fixpoint le_join (bs : list N) : N :=
  match bs with
  | [] => 0
  | b :: r => b + N.shiftl (le_join r) 8
  end.

Fixpoint le_split (n : nat) (x : N) : list N :=
  match n with
  | O => []
  | S k => N.land x 255 :: le_split k (N.shiftr x 8)
  end.

Definition be_join (bs : list N) : N := le_join (rev bs).
Definition be_split (n : nat) (x : N) : list N := rev (le_split n x).

Lemma land_255 x : N.land x 255 = x mod 256.
Proof. change 255 with (N.ones 8). now rewrite N.land_ones. Qed.
Lemma shiftr_8 x : N.shiftr x 8 = x / 256.
Proof. now rewrite N.shiftr_div_pow2. Qed.
Lemma shiftl_8 x : N.shiftl x 8 = x * 256.
Proof. now rewrite N.shiftl_mul_pow2. Qed.

Lemma le_split_length n x : length (le_split n x) = n.
Proof. revert x; induction n as [|n IH]; intros x; simpl; [reflexivity|now rewrite IH]. Qed.

Lemma le_split_bytes n x : Forall is_byte (le_split n x).
Proof.
  revert x; induction n as [|n IH]; intros x; simpl; constructor; [|apply IH].
  unfold is_byte. rewrite land_255. apply N.mod_lt. discriminate.
Qed.

Lemma le_split_join bs : Forall is_byte bs -> le_split (length bs) (le_join bs) = bs.
Proof.
  induction 1 as [|b r Hb Hr IH]; cbn [le_split le_join length]; [reflexivity|].
  rewrite land_255, shiftr_8, shiftl_8. unfold is_byte in Hb.
  f_equal.
  - rewrite N.mod_add by discriminate. now apply N.mod_small.
  - rewrite N.div_add by discriminate. rewrite N.div_small by assumption.
    rewrite N.add_0_l. exact IH.
Qed.

Lemma le_join_split n x : x < 2 ^ (8 * N.of_nat n) -> le_join (le_split n x) = x.
Proof.
  revert x; induction n as [|n IH]; intros x Hx.
  - simpl in *. lia.
  - cbn [le_split le_join]. rewrite land_255, shiftr_8, shiftl_8.
    rewrite IH.
    + pose proof (N.div_mod x 256). lia.
    + replace (8 * N.of_nat (S n)) with (8 + 8 * N.of_nat n) in Hx by lia.
      rewrite N.pow_add_r in Hx. change (2 ^ 8) with 256 in Hx.
      apply N.div_lt_upper_bound; [discriminate|lia].
Qed.

Lemma le_join_lt bs : Forall is_byte bs -> le_join bs < 2 ^ (8 * N.of_nat (length bs)).
Proof.
  induction 1 as [|b r Hb Hr IH]; [simpl; lia|].
  cbn [le_join length]. rewrite shiftl_8.
  replace (8 * N.of_nat (S (length r))) with (8 + 8 * N.of_nat (length r)) by lia.
  rewrite N.pow_add_r. change (2 ^ 8) with 256. unfold is_byte in Hb. lia.
Qed.

(** chunking a byte list into [k]-byte words (the trailing partial chunk is
    dropped, as [chunks_exact] does) *)
Fixpoint chunks_exact (k : nat) (fuel : nat) (bs : list N) : list (list N) :=
  match fuel with
  | O => []
  | S f => if Nat.leb k (length bs) then firstn k bs :: chunks_exact k f (skipn k bs) else []
  end.

Definition words_le (k : nat) (bs : list N) : list N :=
  map le_join (chunks_exact k (length bs) bs).
Definition bytes_le (k : nat) (ws : list N) : list N :=
  flat_map (le_split k) ws.

(** xor of byte strings, truncating to the shorter *)
Fixpoint xor_bytes (a b : list N) : list N :=
  match a, b with
  | x :: a', y :: b' => N.lxor x y :: xor_bytes a' b'
  | _, _ => []
  end.

Lemma chunks_exact_length k fuel bs :
  (0 < k)%nat -> (length bs <= fuel)%nat ->
  length (chunks_exact k fuel bs) = (length bs / k)%nat.
Proof.
  intros Hk. revert bs. induction fuel as [|f IH]; intros bs Hl.
  - destruct bs; [|simpl in Hl; lia]. simpl. symmetry. apply Nat.div_0_l. lia.
  - cbn [chunks_exact]. destruct (Nat.leb_spec k (length bs)) as [H|H].
    + cbn [length]. rewrite IH by (rewrite skipn_length; lia).
      rewrite skipn_length.
      replace (length bs) with ((length bs - k) + 1 * k)%nat at 2 by lia.
      rewrite Nat.div_add by lia. lia.
    + simpl. symmetry. now apply Nat.div_small.
Qed.

Lemma words_le_length k bs : (0 < k)%nat -> length (words_le k bs) = (length bs / k)%nat.
Proof. intros Hk. unfold words_le. rewrite map_length. now apply chunks_exact_length. Qed.

Lemma chunks_exact_concat k fuel bs :
  (0 < k)%nat -> (length bs <= fuel)%nat -> (length bs mod k = 0)%nat ->
  concat (chunks_exact k fuel bs) = bs.
Proof.
  intros Hk. revert bs. induction fuel as [|f IH]; intros bs Hl Hm.
  - destruct bs; [reflexivity|simpl in Hl; lia].
  - cbn [chunks_exact]. destruct (Nat.leb_spec k (length bs)) as [H|H].
    + cbn [concat]. rewrite IH.
      * apply firstn_skipn.
      * rewrite skipn_length; lia.
      * rewrite skipn_length.
        replace (length bs) with ((length bs - k) + 1 * k)%nat in Hm by lia.
        now rewrite Nat.mod_add in Hm by lia.
    + rewrite Nat.mod_small in Hm by assumption.
      destruct bs; [reflexivity|discriminate].
Qed.

Lemma chunks_exact_Forall_length k fuel bs :
  Forall (fun c => length c = k) (chunks_exact k fuel bs).
Proof.
  revert bs; induction fuel as [|f IH]; intros bs; cbn [chunks_exact]; [constructor|].
  destruct (Nat.leb_spec k (length bs)); constructor; [|apply IH].
  apply firstn_length_le; assumption.
Qed.

Lemma Forall_firstn' {A} (P : A -> Prop) n l : Forall P l -> Forall P (firstn n l).
Proof. revert l; induction n as [|n IH]; intros [|x l] H; simpl; try constructor; inversion H; auto. Qed.
Lemma Forall_skipn' {A} (P : A -> Prop) n l : Forall P l -> Forall P (skipn n l).
Proof. revert l; induction n as [|n IH]; intros [|x l] H; simpl; auto; inversion H; auto. Qed.

Lemma chunks_exact_Forall_bytes k fuel bs :
  Forall is_byte bs -> Forall (Forall is_byte) (chunks_exact k fuel bs).
Proof.
  revert bs; induction fuel as [|f IH]; intros bs Hb; cbn [chunks_exact]; [constructor|].
  destruct (Nat.leb k (length bs)); constructor.
  - now apply Forall_firstn'.
  - apply IH. now apply Forall_skipn'.
Qed.

(** bytes -> words -> bytes *)
Lemma map_split_join k cs :
  Forall (fun c => length c = k) cs -> Forall (Forall is_byte) cs ->
  map (fun x => le_split k (le_join x)) cs = cs.
Proof.
  induction cs as [|c cs IH]; intros Hl Hy; [reflexivity|].
  inversion Hl; inversion Hy; subst. cbn [map]. f_equal; [|now apply IH].
  now apply le_split_join.
Qed.

Lemma bytes_words_le k bs :
  (0 < k)%nat -> (length bs mod k = 0)%nat -> Forall is_byte bs ->
  bytes_le k (words_le k bs) = bs.
Proof.
  intros Hk Hm Hb. unfold bytes_le, words_le.
  rewrite flat_map_concat_map, map_map.
  rewrite map_split_join.
  - now apply chunks_exact_concat.
  - apply chunks_exact_Forall_length.
  - now apply chunks_exact_Forall_bytes.
Qed.

Lemma words_le_Forall_word k bs :
  Forall is_byte bs -> Forall (fun x => x < 2 ^ (8 * N.of_nat k)) (words_le k bs).
Proof.
  intros Hb. unfold words_le.
  pose proof (chunks_exact_Forall_length k (length bs) bs) as Hl.
  pose proof (chunks_exact_Forall_bytes k (length bs) bs Hb) as Hy.
  induction (chunks_exact k (length bs) bs) as [|c cs IH]; [constructor|].
  inversion Hl; inversion Hy; subst. constructor; [|now apply IH].
  now apply le_join_lt.
Qed.

Lemma chunks_exact_flat_split k fuel ws :
  (0 < k)%nat -> (length ws <= fuel)%nat ->
  chunks_exact k fuel (flat_map (le_split k) ws) = map (le_split k) ws.
Proof.
  intros Hk. revert ws. induction fuel as [|f IH]; intros ws Hl.
  - destruct ws; [reflexivity|simpl in Hl; lia].
  - destruct ws as [|w ws].
    + cbn [flat_map map chunks_exact length]. destruct (Nat.leb_spec k 0); [lia|reflexivity].
    + cbn [flat_map map chunks_exact].
      rewrite app_length, le_split_length.
      destruct (Nat.leb_spec k (k + length (flat_map (le_split k) ws))); [|lia].
      rewrite firstn_app, le_split_length, Nat.sub_diag. cbn [firstn].
      rewrite app_nil_r, firstn_all2 by (rewrite le_split_length; lia).
      rewrite skipn_app, le_split_length, Nat.sub_diag. cbn [skipn].
      rewrite skipn_all2 by (rewrite le_split_length; lia).
      cbn [app]. f_equal. apply IH. simpl in Hl. lia.
Qed.

Lemma flat_split_length k ws : length (flat_map (le_split k) ws) = (k * length ws)%nat.
Proof.
  induction ws as [|w ws IH]; cbn [flat_map length]; [lia|].
  rewrite app_length, le_split_length, IH. lia.
Qed.

Lemma words_bytes_le k ws :
  (0 < k)%nat -> Forall (fun x => x < 2 ^ (8 * N.of_nat k)) ws ->
  words_le k (bytes_le k ws) = ws.
Proof.
  intros Hk Hw. unfold words_le, bytes_le.
  rewrite chunks_exact_flat_split by (try assumption; rewrite flat_split_length; nia).
  rewrite map_map. induction Hw as [|w ws Hw Hws IH]; [reflexivity|].
  cbn [map]. f_equal; [now apply le_join_split | exact IH].
Qed.

Lemma bytes_le_length k ws : length (bytes_le k ws) = (k * length ws)%nat.
Proof. apply flat_split_length. Qed.
