(** Fixed-width machine words on [N].

    The executable definitions use [N.land]/[N.shiftl]/[N.shiftr]/[N.lor]
    (fast under [vm_compute]); the lemmas relate them to [mod]/[/] and to
    [N.testbit] so that proofs can use [lia] or bitwise extensionality. *)
From Coq Require Import NArith List Lia Bool.
Import ListNotations.
Local Open Scope N_scope.

Definition wrap (w x : N) : N := N.land x (N.ones w).
Definition addw (w a b : N) : N := wrap w (a + b).
Definition subw (w a b : N) : N := wrap w (a + (N.shiftl 1 w - wrap w b)).
Definition notw (w a : N) : N := N.lxor (wrap w a) (N.ones w).
(** rotate left / right of a [w]-bit word by [r] ([r <= w]) *)
Definition rotlw (w r x : N) : N := wrap w (N.lor (N.shiftl x r) (N.shiftr x (w - r))).
Definition rotrw (w r x : N) : N := wrap w (N.lor (N.shiftr x r) (N.shiftl x (w - r))).

Definition is_word (w x : N) : Prop := x < 2 ^ w.

Lemma pow2_pos w : 0 < 2 ^ w.
Proof. apply N.neq_0_lt_0, N.pow_nonzero; discriminate. Qed.
Lemma pow2_nz w : 2 ^ w <> 0.
Proof. apply N.pow_nonzero; discriminate. Qed.

Lemma wrap_mod w x : wrap w x = x mod 2 ^ w.
Proof. apply N.land_ones. Qed.

Lemma wrap_lt w x : wrap w x < 2 ^ w.
Proof. rewrite wrap_mod. apply N.mod_lt, pow2_nz. Qed.

Lemma wrap_small w x : x < 2 ^ w -> wrap w x = x.
Proof. intros H. rewrite wrap_mod. now apply N.mod_small. Qed.

Lemma wrap_wrap w x : wrap w (wrap w x) = wrap w x.
Proof. apply wrap_small, wrap_lt. Qed.

Lemma addw_lt w a b : addw w a b < 2 ^ w.
Proof. apply wrap_lt. Qed.
Lemma subw_lt w a b : subw w a b < 2 ^ w.
Proof. apply wrap_lt. Qed.
Lemma rotlw_lt w r x : rotlw w r x < 2 ^ w.
Proof. apply wrap_lt. Qed.
Lemma rotrw_lt w r x : rotrw w r x < 2 ^ w.
Proof. apply wrap_lt. Qed.

Lemma shiftl_1 w : N.shiftl 1 w = 2 ^ w.
Proof. rewrite N.shiftl_mul_pow2. lia. Qed.

Lemma addw_mod w a b : addw w a b = (a + b) mod 2 ^ w.
Proof. apply wrap_mod. Qed.

Lemma subw_mod w a b : subw w a b = (a + (2 ^ w - b mod 2 ^ w)) mod 2 ^ w.
Proof. unfold subw. now rewrite !wrap_mod, shiftl_1. Qed.

(** [subw] undoes [addw] *)
Lemma subw_addw w a b : a < 2 ^ w -> subw w (addw w a b) b = a.
Proof.
  intros Ha. rewrite subw_mod, addw_mod.
  pose proof (pow2_nz w) as Hnz. set (M := 2 ^ w) in *.
  rewrite N.add_mod_idemp_l by exact Hnz.
  pose proof (N.mod_lt b M Hnz) as Hr.
  pose proof (N.div_mod b M Hnz) as Hb.
  replace (a + b + (M - b mod M)) with (a + (b / M + 1) * M) by lia.
  rewrite N.mod_add by exact Hnz. now apply N.mod_small.
Qed.

Lemma addw_subw w a b : a < 2 ^ w -> addw w (subw w a b) b = a.
Proof.
  intros Ha. rewrite subw_mod, addw_mod.
  pose proof (pow2_nz w) as Hnz. set (M := 2 ^ w) in *.
  rewrite N.add_mod_idemp_l by exact Hnz.
  pose proof (N.mod_lt b M Hnz) as Hr.
  pose proof (N.div_mod b M Hnz) as Hb.
  replace (a + (M - b mod M) + b) with (a + (b / M + 1) * M) by lia.
  rewrite N.mod_add by exact Hnz. now apply N.mod_small.
Qed.

(** * Bit-level characterisations *)

Lemma testbit_wrap w x i : N.testbit (wrap w x) i = N.testbit x i && (i <? w).
Proof.
  unfold wrap. rewrite N.land_spec.
  destruct (N.ltb_spec i w) as [H|H].
  - now rewrite N.ones_spec_low.
  - now rewrite N.ones_spec_high.
Qed.

Lemma testbit_high w x i : x < 2 ^ w -> w <= i -> N.testbit x i = false.
Proof.
  intros Hx Hi. destruct (N.eq_dec x 0) as [->|Hnz]; [apply N.bits_0|].
  apply N.bits_above_log2.
  assert (N.log2 x < w) by (apply N.log2_lt_pow2; lia). lia.
Qed.

Lemma testbit_shiftl x n i :
  N.testbit (N.shiftl x n) i = if n <=? i then N.testbit x (i - n) else false.
Proof.
  destruct (N.leb_spec n i) as [H|H].
  - now apply N.shiftl_spec_high'.
  - now apply N.shiftl_spec_low.
Qed.

Lemma testbit_rotlw w r x i :
  x < 2 ^ w -> r <= w ->
  N.testbit (rotlw w r x) i =
  (i <? w) && (if r <=? i then N.testbit x (i - r) else N.testbit x (i + (w - r))).
Proof.
  intros Hx Hr. unfold rotlw.
  rewrite testbit_wrap, N.lor_spec, testbit_shiftl, N.shiftr_spec'.
  destruct (N.ltb_spec i w) as [Hi|Hi]; [|now rewrite andb_false_r].
  rewrite andb_true_r. simpl.
  destruct (N.leb_spec r i) as [H|H].
  - rewrite (testbit_high w x (i + (w - r))) by (assumption || lia).
    now rewrite orb_false_r.
  - reflexivity.
Qed.

Lemma testbit_rotrw w r x i :
  x < 2 ^ w -> r <= w ->
  N.testbit (rotrw w r x) i =
  (i <? w) && (if i + r <? w then N.testbit x (i + r) else N.testbit x (i + r - w)).
Proof.
  intros Hx Hr. unfold rotrw.
  rewrite testbit_wrap, N.lor_spec, testbit_shiftl, N.shiftr_spec'.
  destruct (N.ltb_spec i w) as [Hi|Hi]; [|now rewrite andb_false_r].
  rewrite andb_true_r. simpl.
  destruct (N.ltb_spec (i + r) w) as [H|H].
  - destruct (N.leb_spec (w - r) i) as [H'|H']; [lia|]. now rewrite orb_false_r.
  - rewrite (testbit_high w x (i + r)) by (assumption || lia).
    destruct (N.leb_spec (w - r) i) as [H'|H']; [|lia].
    simpl. f_equal. lia.
Qed.

Lemma rotrw_rotlw w r x : x < 2 ^ w -> r <= w -> rotrw w r (rotlw w r x) = x.
Proof.
  intros Hx Hr. apply N.bits_inj. intro i.
  rewrite testbit_rotrw by (apply rotlw_lt || assumption).
  destruct (N.ltb_spec i w) as [Hi|Hi]; simpl.
  - destruct (N.ltb_spec (i + r) w) as [H|H];
      rewrite testbit_rotlw by assumption.
    + destruct (N.ltb_spec (i + r) w); [|lia]. simpl.
      destruct (N.leb_spec r (i + r)); [|lia]. f_equal; lia.
    + destruct (N.ltb_spec (i + r - w) w); [|lia]. simpl.
      destruct (N.leb_spec r (i + r - w)); [lia|]. f_equal; lia.
  - symmetry. now apply (testbit_high w).
Qed.

Lemma rotlw_rotrw w r x : x < 2 ^ w -> r <= w -> rotlw w r (rotrw w r x) = x.
Proof.
  intros Hx Hr. apply N.bits_inj. intro i.
  rewrite testbit_rotlw by (apply rotrw_lt || assumption).
  destruct (N.ltb_spec i w) as [Hi|Hi]; simpl.
  - destruct (N.leb_spec r i) as [H|H];
      rewrite testbit_rotrw by assumption.
    + destruct (N.ltb_spec (i - r) w); [|lia]. simpl.
      destruct (N.ltb_spec (i - r + r) w); [|lia]. f_equal; lia.
    + destruct (N.ltb_spec (i + (w - r)) w); [|lia]. simpl.
      destruct (N.ltb_spec (i + (w - r) + r) w); [lia|]. f_equal; lia.
  - symmetry. now apply (testbit_high w).
Qed.

Lemma lxor_lt w a b : a < 2 ^ w -> b < 2 ^ w -> N.lxor a b < 2 ^ w.
Proof.
  intros Ha Hb.
  destruct (N.eq_dec (N.lxor a b) 0) as [->|Hnz]; [apply pow2_pos|].
  apply N.log2_lt_pow2; [lia|].
  eapply N.le_lt_trans; [apply N.log2_lxor|].
  destruct (N.eq_dec a 0) as [->|Ha0]; destruct (N.eq_dec b 0) as [->|Hb0];
    try (rewrite N.lxor_0_r in Hnz || rewrite N.lxor_0_l in Hnz);
    try congruence.
  - rewrite N.max_r by (simpl; lia). apply N.log2_lt_pow2; lia.
  - rewrite N.max_l by (simpl; lia). apply N.log2_lt_pow2; lia.
  - apply N.max_lub_lt; apply N.log2_lt_pow2; lia.
Qed.

Lemma lxor_cancel_r a b : N.lxor (N.lxor a b) b = a.
Proof. now rewrite N.lxor_assoc, N.lxor_nilpotent, N.lxor_0_r. Qed.
Lemma lxor_cancel_l a b : N.lxor a (N.lxor a b) = b.
Proof. now rewrite <- N.lxor_assoc, N.lxor_nilpotent, N.lxor_0_l. Qed.
