(** C13 for the AVX2 types: lane order, extract/insert, transpose4 with vperm2i128, to_scalars. *)
From Coq Require Import NArith List Lia Bool Arith.
From CC Require Import Lib.Words Lib.Bytes Lib.ListX Model.Intrinsics Model.PpvSse Model.PpvAvx2 Spec.Lanes
  Proofs.IntrinsicsLemmas Proofs.PpvSseWords Proofs.PpvSseMove Proofs.PpvAvx2Words.
Import ListNotations.
Local Open Scope N_scope.

(** the 128-bit lanes of a byte image, in memory order *)
Definition lanes16 (x : list N) : list reg := chunks_exact 16 (length x) x.

(** * u32x4x2_avx2 *)
Theorem avx2_lanes_order x : wf 32 x ->
  avx2_to_lanes x = lanes16 x /\ avx2_from_lanes (lanes16 x) = x /\
  words_le 4 x = concat (map (words_le 4) (avx2_to_lanes x)).
Proof. intros Hx. bytes_of x. repeat split; reflexivity. Qed.
Theorem avx2_from_lanes_order a b : wf 16 a -> wf 16 b ->
  avx2_from_lanes [a; b] = a ++ b /\ avx2_to_lanes (avx2_from_lanes [a; b]) = [a; b].
Proof. intros Ha Hb. bytes_of a. bytes_of b. split; reflexivity. Qed.

Theorem avx2_extract_insert x w i : wf 32 x -> wf 16 w ->
  avx2_extract x i = (if i <? 2 then Ok (nth (N.to_nat i) (lanes16 x) []) else Panic) /\
  avx2_insert x w i = (if i <? 2 then Ok (concat (upd (N.to_nat i) w (lanes16 x))) else Panic).
Proof.
  intros Hx Hw. destruct (N.ltb_spec i 2) as [Hi|Hi].
  - assert (Hc : i = 0 \/ i = 1) by lia. bytes_of x. bytes_of w.
    destruct Hc as [ -> | -> ]; split; reflexivity.
  - unfold avx2_extract, avx2_insert. split; out_of_range i.
Qed.

(** * u32x4x4_avx2 = two registers *)
Definition wfv (v : list reg) : Prop := exists r0 r1, v = [r0; r1] /\ wf 32 r0 /\ wf 32 r1.

Theorem avx4_lanes_order v : wfv v ->
  avx4_to_lanes v = lanes16 (concat v) /\ avx4_from_lanes (avx4_to_lanes v) = v /\
  avx4_into_storage v = concat v /\ avx4_unpack (concat v) = v /\
  avx4_to_scalars v = concat (map (words_le 4) (avx4_to_lanes v)).
Proof.
  intros (r0 & r1 & -> & H0 & H1). bytes_of r0. bytes_of r1. repeat split; reflexivity.
Qed.
Theorem avx4_from_lanes_order a b c d : wf 16 a -> wf 16 b -> wf 16 c -> wf 16 d ->
  concat (avx4_from_lanes [a; b; c; d]) = a ++ b ++ c ++ d /\
  avx4_to_lanes (avx4_from_lanes [a; b; c; d]) = [a; b; c; d].
Proof.
  intros Ha Hb Hc Hd. bytes_of a. bytes_of b. bytes_of c. bytes_of d. split; reflexivity.
Qed.

Theorem avx4_extract_insert v w i : wfv v -> wf 16 w ->
  avx4_extract v i = (if i <? 4 then Ok (nth (N.to_nat i) (lanes16 (concat v)) []) else Panic) /\
  omap (@concat N) (avx4_insert v w i)
  = (if i <? 4 then Ok (concat (upd (N.to_nat i) w (lanes16 (concat v)))) else Panic).
Proof.
  intros (r0 & r1 & -> & H0 & H1) Hw. destruct (N.ltb_spec i 4) as [Hi|Hi].
  - assert (Hc : i = 0 \/ i = 1 \/ i = 2 \/ i = 3) by lia. bytes_of r0. bytes_of r1. bytes_of w.
    destruct Hc as [ -> | [ -> | [ -> | -> ] ] ]; split; reflexivity.
  - unfold avx4_extract, avx4_insert. split;
      (destruct i as [|p]; [lia|]; destruct p as [p|p|]; [destruct p|destruct p|]; try lia; reflexivity).
Qed.

Theorem avx4_transpose4_is_transpose a b c d : wfv a -> wfv b -> wfv c -> wfv d ->
  let '(p, q, r, s) := avx4_transpose4 a b c d in
  (avx4_to_lanes p, avx4_to_lanes q, avx4_to_lanes r, avx4_to_lanes s)
  = transpose4 [] (avx4_to_lanes a) (avx4_to_lanes b) (avx4_to_lanes c) (avx4_to_lanes d).
Proof.
  intros (a0 & a1 & -> & Ha0 & Ha1) (b0 & b1 & -> & Hb0 & Hb1)
         (c0 & c1 & -> & Hc0 & Hc1) (d0 & d1 & -> & Hd0 & Hd1).
  destruct Ha0 as [La0 _], Ha1 as [La1 _], Hb0 as [Lb0 _], Hb1 as [Lb1 _],
           Hc0 as [Lc0 _], Hc1 as [Lc1 _], Hd0 as [Ld0 _], Hd1 as [Ld1 _].
  explode a0. explode a1. explode b0. explode b1. explode c0. explode c1. explode d0. explode d1.
  reflexivity.
Qed.
