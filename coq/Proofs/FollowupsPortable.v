(** Audit follow-ups, part 3 (audit C03-F1): OUTCOME-level statements for the portable back end.

    The portable Machine [generic_m p] / [generic_xm p] (Proofs/MachineInstGeneric.v,
    MachineFullGeneric.v) projects every call of the outcome-typed portable model
    (Model/PpvGeneric.v, PpvSoft.v: [Ok v | Panic]) out of its outcome with [gunwrap filler].
    Here:

    (1) an OUTCOME machine: a record with one field per Machine operation whose result type is
        [outcome]; [generic_oxm p] fills it with the RAW portable-model calls (no [gunwrap]);
    (2) [generic_fields_return]: for EVERY field, on well-formed operands, the raw call returns
        [Ok] and its value is the projected field of [generic_xm p] (all fields, both profiles);
    (3) the algorithms of Model/Machine.v and Model/MachineFull.v transcribed once more in the
        [outcome] monad over an outcome machine (same statements in the same order, every vector
        operation bound with [let*]: a [Panic] of any call is the result of the whole function);
    (4) [*_returns]: over ANY outcome machine that agrees with a refining pure machine, each of the
        seven block functions returns [Ok] of the pure block function on well-formed inputs;
    (5) instantiated: the portable back end (both profiles) and - with the total intrinsic-level
        models wrapped in [Ok] - the x86 back ends: on all six back-end names every block function
        returns [Ok (the executable model's value)]: "no back end panics where another returns"
        as a theorem. *)
From Coq Require Import NArith List Bool Lia Arith.
From CC Require Import Lib.Words Lib.Bytes Lib.ListX Spec.Lanes Model.PpvSoft Model.PpvGeneric.
From CC Require Import Model.Dispatch Model.Machine Model.MachineFull.
From CC Require Import Proofs.Machine Proofs.MachineBytes Proofs.MachineInstLib.
From CC Require Import Proofs.PpvGenericLib Proofs.PpvGenericOps Proofs.PpvGenericSwap Proofs.PpvSoftFwd
  Proofs.PpvGenericWide Proofs.PpvGenericMove Proofs.PpvGenericBytes.
From CC Require Import Proofs.MachineInstGeneric Proofs.MachineFullLib Proofs.MachineFullGeneric.
From CC Require Import Proofs.MachineInstReal Proofs.MachineFullChaCha Proofs.MachineFullJH Proofs.MachineFullBlake
  Proofs.MachineFullReal.
From CC Require Model.Blake Model.JH Model.ChaChaGuts.
Import ListNotations.
Local Open Scope N_scope.

(** * (1) outcome machines: the operations of Model/Machine.v / MachineFull.v with [outcome] results,
        over the carriers of a pure machine *)
Record ovops (o : vops) := OVOps {
  oo_vec : list N -> outcome (vt o);
  oo_add : vt o -> vt o -> outcome (vt o);
  oo_xor : vt o -> vt o -> outcome (vt o);
  oo_rotr : N -> vt o -> outcome (vt o);
  oo_sh1230 : vt o -> outcome (vt o);
  oo_sh2301 : vt o -> outcome (vt o);
  oo_sh3012 : vt o -> outcome (vt o)
}.
Arguments oo_vec {o}. Arguments oo_add {o}. Arguments oo_xor {o}. Arguments oo_rotr {o}.
Arguments oo_sh1230 {o}. Arguments oo_sh2301 {o}. Arguments oo_sh3012 {o}.

Record ojops (j : jops) := OJOps {
  oj_load : N -> outcome (jt1 j);
  oj_const : N * N -> outcome (jt2 j);
  oj_zip : jt1 j -> jt1 j -> outcome (jt2 j);
  oj_ext : jt2 j -> bool -> outcome (jt1 j);
  oj_xor1 : jt1 j -> jt1 j -> outcome (jt1 j);
  oj_xor2 : jt2 j -> jt2 j -> outcome (jt2 j);
  oj_and2 : jt2 j -> jt2 j -> outcome (jt2 j);
  oj_or2 : jt2 j -> jt2 j -> outcome (jt2 j);
  oj_andnot2 : jt2 j -> jt2 j -> outcome (jt2 j);
  oj_not2 : jt2 j -> outcome (jt2 j);
  oj_swap : nat -> jt1 j -> outcome (jt1 j)
}.
Arguments oj_load {j}. Arguments oj_const {j}. Arguments oj_zip {j}. Arguments oj_ext {j}.
Arguments oj_xor1 {j}. Arguments oj_xor2 {j}. Arguments oj_and2 {j}. Arguments oj_or2 {j}.
Arguments oj_andnot2 {j}. Arguments oj_not2 {j}. Arguments oj_swap {j}.

Record onops (o : vops) := ONOps {
  o4_unpack : list N -> outcome (vt o);
  o4_into : vt o -> outcome (list N);
  o4_extract : vt o -> N -> outcome N;
  o4_insert : vt o -> N -> N -> outcome (vt o);
  o4_write_le : vt o -> outcome (list N);
  o4_write_be : vt o -> outcome (list N);
  o4_read_le : list N -> outcome (vt o)
}.
Arguments o4_unpack {o}. Arguments o4_into {o}. Arguments o4_extract {o}. Arguments o4_insert {o}.
Arguments o4_write_le {o}. Arguments o4_write_be {o}. Arguments o4_read_le {o}.

Record odops (q : dops) := ODOps {
  od2_vec : list N -> outcome (d2_t q);
  od2_unpack : list N -> outcome (d2_t q);
  od2_into : d2_t q -> outcome (list N);
  od2_add : d2_t q -> d2_t q -> outcome (d2_t q);
  od8_from_lanes : d2_t q -> d2_t q -> d2_t q -> d2_t q -> outcome (d8_t q);
  od8_add : d8_t q -> d8_t q -> outcome (d8_t q);
  od8_into : d8_t q -> outcome (list N)
}.
Arguments od2_vec {q}. Arguments od2_unpack {q}. Arguments od2_into {q}. Arguments od2_add {q}.
Arguments od8_from_lanes {q}. Arguments od8_add {q}. Arguments od8_into {q}.

Record owops (o4 o16 : vops) := OWOps {
  o16_from_lanes : vt o4 -> vt o4 -> vt o4 -> vt o4 -> outcome (vt o16);
  o16_to_lanes : vt o16 -> outcome (vt o4 * vt o4 * vt o4 * vt o4);
  o16_unpack : list N -> outcome (vt o16);
  o16_transpose4 : vt o16 -> vt o16 -> vt o16 -> vt o16 -> outcome (vt o16 * vt o16 * vt o16 * vt o16);
  o16_write_le : vt o16 -> outcome (list N)
}.
Arguments o16_from_lanes {o4 o16}. Arguments o16_to_lanes {o4 o16}. Arguments o16_unpack {o4 o16}.
Arguments o16_transpose4 {o4 o16}. Arguments o16_write_le {o4 o16}.

Record ohops (o : vops) := OHOps {
  oh_unpack : list N -> outcome (vt o);
  oh_into : vt o -> outcome (list N);
  oh_write_be : vt o -> outcome (list N)
}.
Arguments oh_unpack {o}. Arguments oh_into {o}. Arguments oh_write_be {o}.

Record ouops (j : jops) := OUOps {
  ou_unpack : list N -> outcome (jt1 j);
  ou_read : list N -> outcome (jt1 j);
  ou_into : jt1 j -> outcome (list N)
}.
Arguments ou_unpack {j}. Arguments ou_read {j}. Arguments ou_into {j}.

Record oxmachine (m : xmachine) := OXM {
  ox_v4 : ovops (m_u32x4 (xm_base m));
  ox_v16 : ovops (m_u32x4x4 (xm_base m));
  ox_q4 : ovops (m_u64x4 (xm_base m));
  ox_j : ojops (m_u128 (xm_base m));
  ox_n : onops (m_u32x4 (xm_base m));
  ox_d : odops (xm_d m);
  ox_w : owops (m_u32x4 (xm_base m)) (m_u32x4x4 (xm_base m));
  ox_h : ohops (m_u64x4 (xm_base m));
  ox_u : ouops (m_u128 (xm_base m))
}.
Arguments ox_v4 {m}. Arguments ox_v16 {m}. Arguments ox_q4 {m}. Arguments ox_j {m}. Arguments ox_n {m}.
Arguments ox_d {m}. Arguments ox_w {m}. Arguments ox_h {m}. Arguments ox_u {m}.

(** ** "the outcome call returns, and returns the pure field's value, on well-formed operands" *)
Record ovops_agree (w : N) (n : nat) (ks : list N) (o : vops) (oo : ovops o) : Prop := {
  a_vec : forall l, words_ok w n l -> oo_vec oo l = Ok (v_vec o l);
  a_add : forall a b, v_wf o a -> v_wf o b -> oo_add oo a b = Ok (o_add o a b);
  a_xor : forall a b, v_wf o a -> v_wf o b -> oo_xor oo a b = Ok (o_xor o a b);
  a_rotr : forall k a, In k ks -> v_wf o a -> oo_rotr oo k a = Ok (o_rotr o k a);
  a_sh1230 : forall a, v_wf o a -> oo_sh1230 oo a = Ok (o_sh1230 o a);
  a_sh2301 : forall a, v_wf o a -> oo_sh2301 oo a = Ok (o_sh2301 o a);
  a_sh3012 : forall a, v_wf o a -> oo_sh3012 oo a = Ok (o_sh3012 o a)
}.

Record ojops_agree (j : jops) (oj : ojops j) : Prop := {
  a_load : forall x, w128 x -> oj_load oj x = Ok (j_load j x);
  a_const : forall c, w128 (fst c) -> w128 (snd c) -> oj_const oj c = Ok (j_const j c);
  a_zip : forall a b, j_wf1 j a -> j_wf1 j b -> oj_zip oj a b = Ok (j_zip j a b);
  a_ext : forall v i, j_wf2 j v -> oj_ext oj v i = Ok (j_ext j v i);
  a_xor1 : forall a b, j_wf1 j a -> j_wf1 j b -> oj_xor1 oj a b = Ok (j_xor1 j a b);
  a_xor2 : forall a b, j_wf2 j a -> j_wf2 j b -> oj_xor2 oj a b = Ok (j_xor2 j a b);
  a_and2 : forall a b, j_wf2 j a -> j_wf2 j b -> oj_and2 oj a b = Ok (j_and2 j a b);
  a_or2 : forall a b, j_wf2 j a -> j_wf2 j b -> oj_or2 oj a b = Ok (j_or2 j a b);
  a_andnot2 : forall a b, j_wf2 j a -> j_wf2 j b -> oj_andnot2 oj a b = Ok (j_andnot2 j a b);
  a_not2 : forall a, j_wf2 j a -> oj_not2 oj a = Ok (j_not2 j a);
  a_swap : forall k a, (k < 7)%nat -> j_wf1 j a -> oj_swap oj k a = Ok (j_swap j k a)
}.

Record onops_agree (o : vops) (n : nops o) (on : onops o) : Prop := {
  a4_unpack : forall st, bytes_ok 16 st -> o4_unpack on st = Ok (v4_unpack n st);
  a4_into : forall a, v_wf o a -> o4_into on a = Ok (v4_into n a);
  a4_extract : forall a i, v_wf o a -> i < 4 -> o4_extract on a i = Ok (v4_extract n a i);
  a4_insert : forall a v i, v_wf o a -> v < 2 ^ 32 -> i < 4 -> o4_insert on a v i = Ok (v4_insert n a v i);
  a4_write_le : forall a, v_wf o a -> o4_write_le on a = Ok (v4_write_le n a);
  a4_write_be : forall a, v_wf o a -> o4_write_be on a = Ok (v4_write_be n a);
  a4_read_le : forall bs, bytes_ok 16 bs -> o4_read_le on bs = Ok (v4_read_le n bs)
}.

Record odops_agree (q : dops) (oq : odops q) : Prop := {
  ad2_vec : forall l, words_ok 64 2 l -> od2_vec oq l = Ok (d2_vec q l);
  ad2_unpack : forall st, bytes_ok 16 st -> od2_unpack oq st = Ok (d2_unpack q st);
  ad2_into : forall a, d2_wf q a -> od2_into oq a = Ok (d2_into q a);
  ad2_add : forall a b, d2_wf q a -> d2_wf q b -> od2_add oq a b = Ok (d2_add q a b);
  ad8_from_lanes : forall a b c d, d2_wf q a -> d2_wf q b -> d2_wf q c -> d2_wf q d ->
      od8_from_lanes oq a b c d = Ok (d8_from_lanes q a b c d);
  ad8_add : forall a b, d8_wf q a -> d8_wf q b -> od8_add oq a b = Ok (d8_add q a b);
  ad8_into : forall a, d8_wf q a -> od8_into oq a = Ok (d8_into q a)
}.

Record owops_agree (o4 o16 : vops) (x : wops o4 o16) (ow : owops o4 o16) : Prop := {
  a16_from_lanes : forall a b c d, v_wf o4 a -> v_wf o4 b -> v_wf o4 c -> v_wf o4 d ->
      o16_from_lanes ow a b c d = Ok (v16_from_lanes x a b c d);
  a16_to_lanes : forall v, v_wf o16 v -> o16_to_lanes ow v = Ok (v16_to_lanes x v);
  a16_unpack : forall st, bytes_ok 64 st -> o16_unpack ow st = Ok (v16_unpack x st);
  a16_transpose4 : forall a b c d, v_wf o16 a -> v_wf o16 b -> v_wf o16 c -> v_wf o16 d ->
      o16_transpose4 ow a b c d = Ok (v16_transpose4 x a b c d);
  a16_write_le : forall a, v_wf o16 a -> o16_write_le ow a = Ok (v16_write_le x a)
}.

Record ohops_agree (o : vops) (h : hops o) (oh : ohops o) : Prop := {
  ah_unpack : forall st, bytes_ok 32 st -> oh_unpack oh st = Ok (d4_unpack h st);
  ah_into : forall a, v_wf o a -> oh_into oh a = Ok (d4_into h a);
  ah_write_be : forall a, v_wf o a -> oh_write_be oh a = Ok (d4_write_be h a)
}.

Record ouops_agree (j : jops) (u : uops j) (ou : ouops j) : Prop := {
  au_unpack : forall st, bytes_ok 16 st -> ou_unpack ou st = Ok (o1_unpack u st);
  au_read : forall st, bytes_ok 16 st -> ou_read ou st = Ok (o1_read u st);
  au_into : forall a, j_wf1 j a -> ou_into ou a = Ok (o1_into u a)
}.

Record oxm_agree (m : xmachine) (om : oxmachine m) : Prop := {
  ag_v4 : ovops_agree 32 4 ks32 _ (ox_v4 om);
  ag_v16 : ovops_agree 32 16 ks32 _ (ox_v16 om);
  ag_q4 : ovops_agree 64 4 ks64 _ (ox_q4 om);
  ag_j : ojops_agree _ (ox_j om);
  ag_n : onops_agree _ (xm_n m) (ox_n om);
  ag_d : odops_agree _ (ox_d om);
  ag_w : owops_agree _ _ (xm_w m) (ox_w om);
  ag_h : ohops_agree _ (xm_h m) (ox_h om);
  ag_u : ouops_agree _ (xm_u m) (ox_u om)
}.

(** ** the trivial outcome machine of a pure machine whose operations are total functions (the
       intrinsic-level x86 models): every call returns *)
Definition total_ovops (o : vops) : ovops o :=
  OVOps o (fun l => Ok (v_vec o l)) (fun a b => Ok (o_add o a b)) (fun a b => Ok (o_xor o a b))
        (fun k a => Ok (o_rotr o k a)) (fun a => Ok (o_sh1230 o a)) (fun a => Ok (o_sh2301 o a))
        (fun a => Ok (o_sh3012 o a)).
Definition total_ojops (j : jops) : ojops j :=
  OJOps j (fun x => Ok (j_load j x)) (fun c => Ok (j_const j c)) (fun a b => Ok (j_zip j a b))
        (fun v i => Ok (j_ext j v i)) (fun a b => Ok (j_xor1 j a b)) (fun a b => Ok (j_xor2 j a b))
        (fun a b => Ok (j_and2 j a b)) (fun a b => Ok (j_or2 j a b)) (fun a b => Ok (j_andnot2 j a b))
        (fun a => Ok (j_not2 j a)) (fun k a => Ok (j_swap j k a)).
Definition total_onops (o : vops) (n : nops o) : onops o :=
  ONOps o (fun st => Ok (v4_unpack n st)) (fun a => Ok (v4_into n a)) (fun a i => Ok (v4_extract n a i))
        (fun a v i => Ok (v4_insert n a v i)) (fun a => Ok (v4_write_le n a)) (fun a => Ok (v4_write_be n a))
        (fun bs => Ok (v4_read_le n bs)).
Definition total_odops (q : dops) : odops q :=
  ODOps q (fun l => Ok (d2_vec q l)) (fun st => Ok (d2_unpack q st)) (fun a => Ok (d2_into q a))
        (fun a b => Ok (d2_add q a b)) (fun a b c d => Ok (d8_from_lanes q a b c d))
        (fun a b => Ok (d8_add q a b)) (fun a => Ok (d8_into q a)).
Definition total_owops (o4 o16 : vops) (x : wops o4 o16) : owops o4 o16 :=
  OWOps o4 o16 (fun a b c d => Ok (v16_from_lanes x a b c d)) (fun v => Ok (v16_to_lanes x v))
        (fun st => Ok (v16_unpack x st)) (fun a b c d => Ok (v16_transpose4 x a b c d))
        (fun a => Ok (v16_write_le x a)).
Definition total_ohops (o : vops) (h : hops o) : ohops o :=
  OHOps o (fun st => Ok (d4_unpack h st)) (fun a => Ok (d4_into h a)) (fun a => Ok (d4_write_be h a)).
Definition total_ouops (j : jops) (u : uops j) : ouops j :=
  OUOps j (fun st => Ok (o1_unpack u st)) (fun st => Ok (o1_read u st)) (fun a => Ok (o1_into u a)).
Definition total_oxm (m : xmachine) : oxmachine m :=
  OXM m (total_ovops _) (total_ovops _) (total_ovops _) (total_ojops _) (total_onops _ (xm_n m))
      (total_odops _) (total_owops _ _ (xm_w m)) (total_ohops _ (xm_h m)) (total_ouops _ (xm_u m)).

Lemma total_oxm_agree m : oxm_agree m (total_oxm m).
Proof. repeat constructor. Qed.

(** * (1') the portable outcome machine: the raw model calls *)
Section GenericOutcome.
  Variable p : profile.

  Definition g_ov4 : ovops (g_u32x4_vops p) :=
    OVOps (g_u32x4_vops p) (fun l => Ok (g_from_lanes l))
          (g_binop p U32x4 OAdd) (g_binop p U32x4 OXor) (fun k => g_wunop p U32x4 (WRotr k))
          (g32_lane_shuffle p 1230) (g32_lane_shuffle p 2301) (g32_lane_shuffle p 3012).

  Definition g_ov16 : ovops (g_u32x4x4_vops p) :=
    OVOps (g_u32x4x4_vops p)
          (fun l => x4_unpack [] (unpack128 p U32x4) (split128 (new128 (map st_of_d (chunk 4 4 l)))))
          (x4_binop [] (g_binop p U32x4 OAdd)) (x4_binop [] (g_binop p U32x4 OXor))
          (fun k => x4_unop [] (g_wunop p U32x4 (WRotr k)))
          (x4_unop [] (g32_lane_shuffle p 1230)) (x4_unop [] (g32_lane_shuffle p 2301))
          (x4_unop [] (g32_lane_shuffle p 3012)).

  Definition g_oq4 : ovops (g_u64x4_vops p) :=
    OVOps (g_u64x4_vops p) (fun l => Ok (u64x4_from_lanes l))
          (x2_binop [] (g_binop p U64x2 OAdd)) (x2_binop [] (g_binop p U64x2 OXor))
          (fun k => x2_unop [] (g_wunop p U64x2 (WRotr k)))
          (fun a => Ok (u64x4_shuffle1230 a)) (fun a => Ok (u64x4_shuffle2301 a)) (fun a => Ok (u64x4_shuffle3012 a)).

  Definition g_oj : ojops (g_jops p) :=
    OJOps (g_jops p)
          (fun x => unpack128 p U128x1 (img U128x1 [x]))
          (fun c => x2_unpack [] (unpack128 p U128x1) (split128 (new128 [img U128x1 [fst c]; img U128x1 [snd c]])))
          (fun a b => Ok (xn_from_lanes [a; b]))
          (fun v i => xn_extract v (if i then 1 else 0))
          (g_binop p U128x1 OXor)
          (x2_binop [] (g_binop p U128x1 OXor)) (x2_binop [] (g_binop p U128x1 OAnd))
          (x2_binop [] (g_binop p U128x1 OOr)) (x2_binop [] (g_binop p U128x1 OAndnot))
          (x2_unop [] (g_wunop p U128x1 WNot))
          (fun k a => g_swap p U128x1 (2 ^ N.of_nat k) a).

  Definition g_on : onops (g_u32x4_vops p) :=
    ONOps (g_u32x4_vops p) (unpack128 p U32x4) (into128 p U32x4) g_extract g_insert
          (fun a => g_write_le p U32x4 a 16) (fun a => g_write_be p U32x4 a 16) (g_read_le p U32x4).

  Definition g_od : odops (g_dops p) :=
    ODOps (g_dops p) (fun l => Ok (g_from_lanes l)) (unpack128 p U64x2) (into128 p U64x2)
          (g_binop p U64x2 OAdd) (fun a b c d => Ok (xn_from_lanes [a; b; c; d]))
          (x4_binop [] (g_binop p U64x2 OAdd))
          (fun v => omapo (@concat N) (x4_into [] (into128 p U64x2) v)).

  Definition g_ow : owops (g_u32x4_vops p) (g_u32x4x4_vops p) :=
    OWOps (g_u32x4_vops p) (g_u32x4x4_vops p)
          (fun a b c d => Ok (xn_from_lanes [a; b; c; d]))
          (fun v => let l := xn_to_lanes v in Ok (nth 0 l [], nth 1 l [], nth 2 l [], nth 3 l []))
          (fun st => x4_unpack [] (unpack128 p U32x4) (split128 (chunk 16 4 st)))
          (fun a b c d => Ok (x4_transpose4 [] a b c d))
          (fun v => x4_write [] (g_write_le p U32x4) v 64).

  Definition g_oh : ohops (g_u64x4_vops p) :=
    OHOps (g_u64x4_vops p)
          (fun st => x2_unpack [] (unpack128 p U64x2) (split128 (chunk 16 2 st)))
          (fun v => omapo (@concat N) (x2_into [] (into128 p U64x2) v))
          (fun v => x2_write [] (g_write_be p U64x2) v 32).

  Definition g_ou : ouops (g_jops p) :=
    OUOps (g_jops p) (unpack128 p U128x1) (fun bs => Ok (g_read_unaligned bs)) (into128 p U128x1).

  Definition generic_oxm : oxmachine (generic_xm p) :=
    OXM (generic_xm p) g_ov4 g_ov16 g_oq4 g_oj g_on g_od g_ow g_oh g_ou.

  (** * (2) every field returns on well-formed operands *)
  Lemma g_ov4_agree : ovops_agree 32 4 ks32 _ g_ov4.
  Proof.
    constructor; cbn [g_ov4 g_u32x4_vops oo_vec oo_add oo_xor oo_rotr oo_sh1230 oo_sh2301 oo_sh3012
                      v_wf v_vec o_add o_xor o_rotr o_sh1230 o_sh2301 o_sh3012].
    - reflexivity.
    - intros a b Wa Wb. exact (proj1 (e_add_ok p U32x4 a b Wa Wb)).
    - intros a b Wa Wb. exact (proj1 (e_xor_ok p U32x4 a b Wa Wb)).
    - intros k a Hk Wa. exact (proj1 (e_rotr_ok p U32x4 k a (ks32_rot k Hk) Wa)).
    - intros a Wa. exact (proj1 (e_shuffle_ok p 1230 a Wa)).
    - intros a Wa. exact (proj1 (e_shuffle_ok p 2301 a Wa)).
    - intros a Wa. exact (proj1 (e_shuffle_ok p 3012 a Wa)).
  Qed.

  Lemma g_ov16_agree : ovops_agree 32 16 ks32 _ g_ov16.
  Proof.
    constructor; cbn [g_ov16 g_u32x4x4_vops g_u32x4_vops prod_vops oo_vec oo_add oo_xor oo_rotr oo_sh1230 oo_sh2301
                      oo_sh3012 vt v_wf v_vec o_add o_xor o_rotr o_sh1230 o_sh2301 o_sh3012].
    - intros l Hl. eapply ok_gunwrap.
      assert (W : wide U32x4 4 (chunk 4 4 l)).
      { split; [apply chunk_length | apply (chunk_words_ok 32 4 4 l Hl)]. }
      destruct (wide_storage_roundtrip p U32x4 4 _ (or_intror eq_refl) W) as [_ E].
      cbn [Nat.eqb] in E. change (img U32x4) with st_of_d in E. exact E.
    - intros a b [La Fa] [Lb Fb]. eapply ok_gunwrap.
      apply (x4_binop_forwards [] (wfv U32x4) _ (e_add p U32x4));
        [intros x y Wx Wy; apply (e_add_ok p U32x4 x y Wx Wy) | assumption ..].
    - intros a b [La Fa] [Lb Fb]. eapply ok_gunwrap.
      apply (x4_binop_forwards [] (wfv U32x4) _ (e_xor p U32x4));
        [intros x y Wx Wy; apply (e_xor_ok p U32x4 x y Wx Wy) | assumption ..].
    - intros k a Hk [La Fa]. eapply ok_gunwrap.
      apply (x4_unop_forwards [] (wfv U32x4) _ (e_rotr p U32x4 k));
        [intros x Wx; apply (e_rotr_ok p U32x4 k x (ks32_rot k Hk) Wx) | assumption ..].
    - intros a [La Fa]. eapply ok_gunwrap.
      apply (x4_unop_forwards [] (wfv U32x4) _ (e_shuffle p 1230));
        [intros x Wx; apply (e_shuffle_ok p 1230 x Wx) | assumption ..].
    - intros a [La Fa]. eapply ok_gunwrap.
      apply (x4_unop_forwards [] (wfv U32x4) _ (e_shuffle p 2301));
        [intros x Wx; apply (e_shuffle_ok p 2301 x Wx) | assumption ..].
    - intros a [La Fa]. eapply ok_gunwrap.
      apply (x4_unop_forwards [] (wfv U32x4) _ (e_shuffle p 3012));
        [intros x Wx; apply (e_shuffle_ok p 3012 x Wx) | assumption ..].
  Qed.

  Lemma g_oq4_agree : ovops_agree 64 4 ks64 _ g_oq4.
  Proof.
    constructor; cbn [g_oq4 g_u64x4_vops oo_vec oo_add oo_xor oo_rotr oo_sh1230 oo_sh2301 oo_sh3012
                      vt v_wf v_vec o_add o_xor o_rotr o_sh1230 o_sh2301 o_sh3012].
    - reflexivity.
    - intros a b [La Fa] [Lb Fb]. eapply ok_gunwrap.
      apply (x2_binop_forwards [] (wfv U64x2) _ (e_add p U64x2));
        [intros x y Wx Wy; apply (e_add_ok p U64x2 x y Wx Wy) | assumption ..].
    - intros a b [La Fa] [Lb Fb]. eapply ok_gunwrap.
      apply (x2_binop_forwards [] (wfv U64x2) _ (e_xor p U64x2));
        [intros x y Wx Wy; apply (e_xor_ok p U64x2 x y Wx Wy) | assumption ..].
    - intros k a Hk [La Fa]. eapply ok_gunwrap.
      apply (x2_unop_forwards [] (wfv U64x2) _ (e_rotr p U64x2 k));
        [intros x Wx; apply (e_rotr_ok p U64x2 k x (ks64_rot k Hk) Wx) | assumption ..].
    - reflexivity. - reflexivity. - reflexivity.
  Qed.

  Lemma x2_bin128 o a b : wide U128x1 2 a -> wide U128x1 2 b ->
    exists r, x2_binop [] (g_binop p U128x1 o) a b = Ok r.
  Proof.
    intros [La Fa] [Lb Fb].
    eexists. apply (x2_binop_forwards [] (wfv U128x1) _ (fun x y => spec_bin 128 o x y)); try assumption.
    intros x y Wx Wy. exact (g_binop_lanewise p U128x1 o x y Wx Wy).
  Qed.

  Lemma g_oj_agree : ojops_agree _ g_oj.
  Proof.
    constructor; cbn [g_oj g_jops oj_load oj_const oj_zip oj_ext oj_xor1 oj_xor2 oj_and2 oj_or2 oj_andnot2
                      oj_not2 oj_swap jt1 jt2 j_wf1 j_wf2 j_load j_const j_zip j_ext j_xor1 j_xor2 j_and2 j_or2
                      j_andnot2 j_not2 j_swap].
    - intros x Hx. eapply ok_gunwrap.
      exact (proj2 (proj2 (storage128_views p U128x1 U128x1 [x] (wfv1 x Hx)))).
    - intros [x y] Hx Hy. cbn [fst snd] in *. eapply ok_gunwrap.
      assert (W : wide U128x1 2 [[x]; [y]])
        by (split; [reflexivity | repeat (apply Forall_cons; [now apply wfv1|]); apply Forall_nil]).
      destruct (wide_storage_roundtrip p U128x1 2 _ (or_introl eq_refl) W) as [_ E].
      cbn [Nat.eqb map] in E. exact E.
    - reflexivity.
    - intros v i [Lv Fv]. explode v. destruct i; reflexivity.
    - intros a b Wa Wb. eapply ok_gunwrap. exact (g_binop_lanewise p U128x1 OXor a b Wa Wb).
    - intros a b Wa Wb. destruct (x2_bin128 OXor a b Wa Wb) as [r E]. eapply ok_gunwrap. exact E.
    - intros a b Wa Wb. destruct (x2_bin128 OAnd a b Wa Wb) as [r E]. eapply ok_gunwrap. exact E.
    - intros a b Wa Wb. destruct (x2_bin128 OOr a b Wa Wb) as [r E]. eapply ok_gunwrap. exact E.
    - intros a b Wa Wb. destruct (x2_bin128 OAndnot a b Wa Wb) as [r E]. eapply ok_gunwrap. exact E.
    - intros a [La Fa]. eapply ok_gunwrap.
      apply (x2_unop_forwards [] (wfv U128x1) _ (fun x => spec_un 128 WNot x)); try assumption.
      intros x Wx. exact (g_wunop_lanewise p U128x1 WNot x I Wx).
    - intros k a Hk Wa. destruct (g_swap_groups p U128x1 _ a (pow2_swaps k Hk) Wa) as (r & E & _).
      eapply ok_gunwrap. exact E.
  Qed.

  Lemma g_on_agree : onops_agree _ (g_nops p) g_on.
  Proof.
    constructor; cbn [g_on g_nops g_u32x4_vops o4_unpack o4_into o4_extract o4_insert o4_write_le o4_write_be
                      o4_read_le vt v_wf v4_unpack v4_into v4_extract v4_insert v4_write_le v4_write_be v4_read_le].
    - intros st Hst. eapply ok_gunwrap. exact (unpack128_words p U32x4 st Hst).
    - intros a Wa. eapply ok_gunwrap. exact (into128_img p U32x4 a Wa).
    - intros a i Wa Hi. eapply ok_gunwrap. unfold g_extract. apply index_ok. rewrite (proj1 Wa). exact Hi.
    - intros a v i Wa Hv Hi. eapply ok_gunwrap. unfold g_insert. apply store_ok. rewrite (proj1 Wa). exact Hi.
    - intros a Wa. eapply ok_gunwrap. exact (g_write_le_spec p U32x4 hb32 a Wa).
    - intros a Wa. eapply ok_gunwrap. exact (g_write_be_spec p U32x4 hb32 a Wa).
    - intros bs Hbs. eapply ok_gunwrap. exact (g_read_le_spec p U32x4 hb32 bs Hbs).
  Qed.

  Lemma g_od_agree : odops_agree _ g_od.
  Proof.
    constructor; cbn [g_od g_dops od2_vec od2_unpack od2_into od2_add od8_from_lanes od8_add od8_into
                      d2_t d8_t d2_wf d8_wf d2_vec d2_unpack d2_into d2_add d8_from_lanes d8_add d8_into].
    - reflexivity.
    - intros st Hst. eapply ok_gunwrap. exact (unpack128_words p U64x2 st Hst).
    - intros a Wa. eapply ok_gunwrap. exact (into128_img p U64x2 a Wa).
    - intros a b Wa Wb. exact (proj1 (e_add_ok p U64x2 a b Wa Wb)).
    - reflexivity.
    - intros a b [La Fa] [Lb Fb]. eapply ok_gunwrap.
      apply (x4_binop_forwards [] (wfv U64x2) _ (e_add p U64x2));
        [intros x y Wx Wy; apply (e_add_ok p U64x2 x y Wx Wy) | assumption ..].
    - intros v Wv. destruct (wide_storage_roundtrip p U64x2 4 v (or_intror eq_refl) Wv) as [E _].
      cbn [Nat.eqb] in E. rewrite E. reflexivity.
  Qed.

  Lemma g_ow_agree : owops_agree _ _ (g_wops p) g_ow.
  Proof.
    constructor; cbn [g_ow g_wops o16_from_lanes o16_to_lanes o16_unpack o16_transpose4 o16_write_le
                      v16_from_lanes v16_to_lanes v16_unpack v16_transpose4 v16_write_le].
    - reflexivity.
    - reflexivity.
    - intros st Hst. eapply ok_gunwrap.
      destruct (bytes64_words16 st Hst) as [W E].
      assert (Wc : wide U32x4 4 (chunk 4 4 (words_le 4 st))).
      { split; [apply chunk_length | apply (chunk_words_ok 32 4 4 _ W)]. }
      destruct (wide_storage_roundtrip p U32x4 4 _ (or_intror eq_refl) Wc) as [_ E2].
      cbn [Nat.eqb] in E2. change (img U32x4) with st_of_d in E2. unfold new128 in E2.
      assert (E3 : chunk 16 4 st = map st_of_d (chunk 4 4 (words_le 4 st)))
        by (rewrite <- E at 1; apply chunk16_words4; apply W).
      rewrite E3. exact E2.
    - reflexivity.
    - intros v Wv. eapply ok_gunwrap.
      cbn [g_u32x4x4_vops g_u32x4_vops prod_vops v_wf] in Wv.
      destruct (wide_write_spec p U32x4 4 v hb32 (or_intror eq_refl) Wv) as [E _].
      cbn [Nat.eqb] in E. exact E.
  Qed.

  Lemma g_oh_agree : ohops_agree _ (g_hops p) g_oh.
  Proof.
    constructor; cbn [g_oh g_hops oh_unpack oh_into oh_write_be d4_unpack d4_into d4_write_be].
    - intros st Hst.
      destruct (bytes32_words4 st Hst) as [[WL WF] E].
      set (W := words_le 8 st) in *. clearbody W. subst st. rewrite (chunk16_words2 _ WL).
      explode W. inv_fa.
      assert (Wv : wide U64x2 2 [[n; n0]; [n1; n2]]).
      { split; [reflexivity|]. repeat (apply Forall_cons; [split; [reflexivity | cbn [vt_w]; fa]|]). apply Forall_nil. }
      destruct (wide_storage_roundtrip p U64x2 2 _ (or_introl eq_refl) Wv) as [_ E2].
      cbn [Nat.eqb nth] in E2 |- *. unfold new128 in E2. eapply ok_gunwrap. exact E2.
    - intros v Wv. cbn [g_u64x4_vops v_wf] in Wv.
      destruct (wide_storage_roundtrip p U64x2 2 v (or_introl eq_refl) Wv) as [E _].
      cbn [Nat.eqb] in E. rewrite E. reflexivity.
    - intros v Wv. cbn [g_u64x4_vops v_wf] in Wv. eapply ok_gunwrap.
      destruct (wide_write_spec p U64x2 2 v hb64 (or_introl eq_refl) Wv) as [_ E].
      cbn [Nat.eqb] in E. exact E.
  Qed.

  Lemma g_ou_agree : ouops_agree _ (g_uops p) g_ou.
  Proof.
    constructor; cbn [g_ou g_uops ou_unpack ou_read ou_into o1_unpack o1_read o1_into].
    - intros st Hst. eapply ok_gunwrap. exact (unpack128_words p U128x1 st Hst).
    - reflexivity.
    - intros a Wa. eapply ok_gunwrap. exact (into128_img p U128x1 a Wa).
  Qed.

  (** every field of [generic_m p] / [generic_xm p]: the underlying portable-model call returns [Ok]
      (the projected field's value) on well-formed operands. [oxm_agree] is the conjunction of the
      57 per-field statements (records [ovops_agree] x3, [ojops_agree], [onops_agree], [odops_agree],
      [owops_agree], [ohops_agree], [ouops_agree] above). *)
  Theorem generic_fields_return : oxm_agree (generic_xm p) generic_oxm.
  Proof.
    constructor; cbn [generic_oxm generic_xm xm_base xm_n xm_d xm_w xm_h xm_u generic_m m_u32x4 m_u32x4x4 m_u64x4 m_u128
                      ox_v4 ox_v16 ox_q4 ox_j ox_n ox_d ox_w ox_h ox_u].
    - exact g_ov4_agree. - exact g_ov16_agree. - exact g_oq4_agree. - exact g_oj_agree. - exact g_on_agree.
    - exact g_od_agree. - exact g_ow_agree. - exact g_oh_agree. - exact g_ou_agree.
  Qed.
End GenericOutcome.

(** * (3) closure of well-formedness under the pure operations (read off the refinement records) *)
Section VClosure.
  Context {w : N} {n : nat} {ks : list N} {o : vops}.
  Hypothesis R : vops_refines w n ks o.
  Lemma wf_vec l : words_ok w n l -> v_wf o (v_vec o l).
  Proof. intros H. exact (proj1 (r_vec _ _ _ _ R l H)). Qed.
  Lemma wf_add a b : v_wf o a -> v_wf o b -> v_wf o (o_add o a b).
  Proof. intros Wa Wb. exact (proj1 (r_add _ _ _ _ R a b _ _ (conj Wa eq_refl) (conj Wb eq_refl))). Qed.
  Lemma wf_xor a b : v_wf o a -> v_wf o b -> v_wf o (o_xor o a b).
  Proof. intros Wa Wb. exact (proj1 (r_xor _ _ _ _ R a b _ _ (conj Wa eq_refl) (conj Wb eq_refl))). Qed.
  Lemma wf_rotr k a : In k ks -> v_wf o a -> v_wf o (o_rotr o k a).
  Proof. intros Hk Wa. exact (proj1 (r_rotr _ _ _ _ R k a _ Hk (conj Wa eq_refl))). Qed.
  Lemma wf_sh1230 a : v_wf o a -> v_wf o (o_sh1230 o a).
  Proof. intros Wa. exact (proj1 (r_sh1230 _ _ _ _ R a _ (conj Wa eq_refl))). Qed.
  Lemma wf_sh2301 a : v_wf o a -> v_wf o (o_sh2301 o a).
  Proof. intros Wa. exact (proj1 (r_sh2301 _ _ _ _ R a _ (conj Wa eq_refl))). Qed.
  Lemma wf_sh3012 a : v_wf o a -> v_wf o (o_sh3012 o a).
  Proof. intros Wa. exact (proj1 (r_sh3012 _ _ _ _ R a _ (conj Wa eq_refl))). Qed.
End VClosure.

Section JClosure.
  Context {j : jops}.
  Hypothesis R : jops_refines j.
  Lemma jwf_load x : w128 x -> j_wf1 j (j_load j x).
  Proof. intros H. exact (proj1 (jr_load _ R x H)). Qed.
  Lemma jwf_const c : w128 (fst c) -> w128 (snd c) -> j_wf2 j (j_const j c).
  Proof. intros H1 H2. exact (proj1 (jr_const _ R c H1 H2)). Qed.
  Lemma jwf_zip a b : j_wf1 j a -> j_wf1 j b -> j_wf2 j (j_zip j a b).
  Proof. intros Wa Wb. exact (proj1 (jr_zip _ R a b _ _ (conj Wa eq_refl) (conj Wb eq_refl))). Qed.
  Lemma jwf_ext a i : j_wf2 j a -> j_wf1 j (j_ext j a i).
  Proof. intros Wa. exact (proj1 (jr_ext _ R a _ i (conj Wa eq_refl))). Qed.
  Lemma jwf_xor1 a b : j_wf1 j a -> j_wf1 j b -> j_wf1 j (j_xor1 j a b).
  Proof. intros Wa Wb. exact (proj1 (jr_xor1 _ R a b _ _ (conj Wa eq_refl) (conj Wb eq_refl))). Qed.
  Lemma jwf_xor2 a b : j_wf2 j a -> j_wf2 j b -> j_wf2 j (j_xor2 j a b).
  Proof. intros Wa Wb. exact (proj1 (jr_xor2 _ R a b _ _ (conj Wa eq_refl) (conj Wb eq_refl))). Qed.
  Lemma jwf_and2 a b : j_wf2 j a -> j_wf2 j b -> j_wf2 j (j_and2 j a b).
  Proof. intros Wa Wb. exact (proj1 (jr_and2 _ R a b _ _ (conj Wa eq_refl) (conj Wb eq_refl))). Qed.
  Lemma jwf_or2 a b : j_wf2 j a -> j_wf2 j b -> j_wf2 j (j_or2 j a b).
  Proof. intros Wa Wb. exact (proj1 (jr_or2 _ R a b _ _ (conj Wa eq_refl) (conj Wb eq_refl))). Qed.
  Lemma jwf_andnot2 a b : j_wf2 j a -> j_wf2 j b -> j_wf2 j (j_andnot2 j a b).
  Proof. intros Wa Wb. exact (proj1 (jr_andnot2 _ R a b _ _ (conj Wa eq_refl) (conj Wb eq_refl))). Qed.
  Lemma jwf_not2 a : j_wf2 j a -> j_wf2 j (j_not2 j a).
  Proof. intros Wa. exact (proj1 (jr_not2 _ R a _ (conj Wa eq_refl))). Qed.
  Lemma jwf_swap k a : (k < 7)%nat -> j_wf1 j a -> j_wf1 j (j_swap j k a).
  Proof. intros Hk Wa. exact (proj1 (jr_swap _ R k a _ Hk (conj Wa eq_refl))). Qed.
End JClosure.

Section NClosure.
  Context {o : vops} {n : nops o}.
  Hypothesis R : nops_refines o n.
  Lemma nwf_unpack st : bytes_ok 16 st -> v_wf o (v4_unpack n st).
  Proof. intros H. exact (proj1 (nr_unpack _ _ R st H)). Qed.
  Lemma nok_into a : v_wf o a -> bytes_ok 16 (v4_into n a).
  Proof. intros Wa. rewrite (nr_into _ _ R a Wa). exact (proj1 (ok4_bytes _ (nr_ok _ _ R a Wa))). Qed.
  Lemma nlt_extract a i : v_wf o a -> i < 4 -> v4_extract n a i < 2 ^ 32.
  Proof.
    intros Wa Hi. rewrite (nr_extract _ _ R a i Wa Hi). destruct (nr_ok _ _ R a Wa) as [_ F].
    apply nth_Forall; [exact F | reflexivity].
  Qed.
  Lemma nwf_insert a v i : v_wf o a -> v < 2 ^ 32 -> i < 4 -> v_wf o (v4_insert n a v i).
  Proof. intros Wa Hv Hi. exact (proj1 (nr_insert _ _ R a v i Wa Hv Hi)). Qed.
  Lemma nwf_read_le bs : bytes_ok 16 bs -> v_wf o (v4_read_le n bs).
  Proof. intros H. exact (proj1 (nr_read_le _ _ R bs H)). Qed.
End NClosure.

Section DClosure.
  Context {q : dops}.
  Hypothesis R : dops_refines q.
  Lemma dwf_vec l : words_ok 64 2 l -> d2_wf q (d2_vec q l).
  Proof. intros H. exact (proj1 (dr_vec _ R l H)). Qed.
  Lemma dwf_unpack st : bytes_ok 16 st -> d2_wf q (d2_unpack q st).
  Proof. intros H. exact (proj1 (dr_unpack _ R st H)). Qed.
  Lemma dok_into a : d2_wf q a -> bytes_ok 16 (d2_into q a).
  Proof. intros Wa. rewrite (dr_into _ R a Wa). exact (proj1 (ok2q_bytes _ (dr_ok2 _ R a Wa))). Qed.
  Lemma dwf_add a b : d2_wf q a -> d2_wf q b -> d2_wf q (d2_add q a b).
  Proof. intros Wa Wb. exact (proj1 (dr_add _ R a b Wa Wb)). Qed.
  Lemma dwf_from_lanes a b c d : d2_wf q a -> d2_wf q b -> d2_wf q c -> d2_wf q d -> d8_wf q (d8_from_lanes q a b c d).
  Proof. intros Wa Wb Wc Wd. exact (proj1 (dr_from_lanes _ R a b c d Wa Wb Wc Wd)). Qed.
  Lemma dwf_add8 a b : d8_wf q a -> d8_wf q b -> d8_wf q (d8_add q a b).
  Proof. intros Wa Wb. exact (proj1 (dr_add8 _ R a b Wa Wb)). Qed.
  Lemma dok_into8 a : d8_wf q a -> bytes_ok 64 (d8_into q a).
  Proof. intros Wa. rewrite (dr_into8 _ R a Wa). exact (proj1 (ok8q_bytes _ (dr_ok8 _ R a Wa))). Qed.
End DClosure.

Section WClosure.
  Context {o4 o16 : vops} {x : wops o4 o16}.
  Hypothesis R : wops_refines o4 o16 x.
  Lemma wwf_from_lanes a b c d : v_wf o4 a -> v_wf o4 b -> v_wf o4 c -> v_wf o4 d -> v_wf o16 (v16_from_lanes x a b c d).
  Proof. intros Wa Wb Wc Wd. exact (proj1 (wr_from_lanes _ _ _ R a b c d Wa Wb Wc Wd)). Qed.
  Lemma wwf_to_lanes0 v : v_wf o16 v -> v_wf o4 (t4_0 (v16_to_lanes x v)).
  Proof. intros W. exact (proj1 (proj1 (wr_to_lanes _ _ _ R v W))). Qed.
  Lemma wwf_unpack st : bytes_ok 64 st -> v_wf o16 (v16_unpack x st).
  Proof. intros H. exact (proj1 (wr_unpack _ _ _ R st H)). Qed.
  Lemma wwf_transpose4 a b c d : v_wf o16 a -> v_wf o16 b -> v_wf o16 c -> v_wf o16 d ->
    v_wf o16 (t4_0 (v16_transpose4 x a b c d)) /\ v_wf o16 (t4_1 (v16_transpose4 x a b c d)) /\
    v_wf o16 (t4_2 (v16_transpose4 x a b c d)) /\ v_wf o16 (t4_3 (v16_transpose4 x a b c d)).
  Proof.
    intros Wa Wb Wc Wd. destruct (wr_transpose4 _ _ _ R a b c d Wa Wb Wc Wd) as ([W0 _] & [W1 _] & [W2 _] & [W3 _]).
    repeat split; assumption.
  Qed.
End WClosure.

Create HintDb owf.
#[local] Hint Resolve wf_vec wf_add wf_xor wf_rotr wf_sh1230 wf_sh2301 wf_sh3012 : owf.
#[local] Hint Resolve jwf_load jwf_const jwf_zip jwf_ext jwf_xor1 jwf_xor2 jwf_and2 jwf_or2 jwf_andnot2 jwf_not2 jwf_swap : owf.
#[local] Hint Resolve nwf_unpack nok_into nlt_extract nwf_insert nwf_read_le : owf.
#[local] Hint Resolve dwf_vec dwf_unpack dok_into dwf_add dwf_from_lanes dwf_add8 dok_into8 : owf.
#[local] Hint Resolve wwf_from_lanes wwf_to_lanes0 wwf_unpack : owf.
#[local] Hint Resolve K_ok wrap_lt : owf.
#[local] Hint Extern 1 (In _ _) => cbn; tauto : owf.
#[local] Hint Extern 1 (_ < _) => reflexivity : owf.

Ltac wf_tac := solve [eauto 80 with owf].

(** * (3') the algorithms of Model/Machine.v in the outcome monad *)
Section OChaCha.
  Variables (o : vops) (oo : ovops o).

  Definition oc_round (x : cstate o) : outcome (cstate o) :=
    let* a := oo_add oo (sa x) (sb x) in
    let* t := oo_xor oo (sd x) a in
    let* d := oo_rotr oo 16 t in
    let* c := oo_add oo (sc x) d in
    let* t := oo_xor oo (sb x) c in
    let* b := oo_rotr oo 20 t in
    let* a := oo_add oo a b in
    let* t := oo_xor oo d a in
    let* d := oo_rotr oo 24 t in
    let* c := oo_add oo c d in
    let* t := oo_xor oo b c in
    let* b := oo_rotr oo 25 t in
    Ok (CS a b c d).

  Definition oc_diagonalize (x : cstate o) : outcome (cstate o) :=
    let* a := oo_sh1230 oo (sa x) in
    let* c := oo_sh3012 oo (sc x) in
    let* d := oo_sh2301 oo (sd x) in
    Ok (CS a (sb x) c d).
  Definition oc_undiagonalize (x : cstate o) : outcome (cstate o) :=
    let* a := oo_sh3012 oo (sa x) in
    let* c := oo_sh1230 oo (sc x) in
    let* d := oo_sh2301 oo (sd x) in
    Ok (CS a (sb x) c d).

  Definition oc_dround (x : cstate o) : outcome (cstate o) :=
    let* x := oc_round x in
    let* x := oc_diagonalize x in
    let* x := oc_round x in
    oc_undiagonalize x.

  Fixpoint oc_rounds (drounds : nat) (x : cstate o) : outcome (cstate o) :=
    match drounds with O => Ok x | S k => let* x := oc_dround x in oc_rounds k x end.

  (** ** they return the pure algorithm's value *)
  Context {w : N} {n : nat} {ks : list N}.
  Hypothesis R : vops_refines w n ks o.
  Hypothesis A : ovops_agree w n ks o oo.
  Hypothesis Hks : incl chacha_ks ks.

  Definition cwf (x : cstate o) : Prop := v_wf o (sa x) /\ v_wf o (sb x) /\ v_wf o (sc x) /\ v_wf o (sd x).

  Let H16 : In 16 ks. Proof. apply Hks. cbn. tauto. Qed.
  Let H20 : In 20 ks. Proof. apply Hks. cbn. tauto. Qed.
  Let H24 : In 24 ks. Proof. apply Hks. cbn. tauto. Qed.
  Let H25 : In 25 ks. Proof. apply Hks. cbn. tauto. Qed.

  Ltac vstep :=
    first [ rewrite (a_add _ _ _ _ _ A) by wf_tac
          | rewrite (a_xor _ _ _ _ _ A) by wf_tac
          | rewrite (a_rotr _ _ _ _ _ A) by wf_tac
          | rewrite (a_sh1230 _ _ _ _ _ A) by wf_tac
          | rewrite (a_sh2301 _ _ _ _ _ A) by wf_tac
          | rewrite (a_sh3012 _ _ _ _ _ A) by wf_tac
          | rewrite (a_vec _ _ _ _ _ A) by wf_tac ]; cbn [obind].

  Lemma oc_round_ok x : cwf x -> oc_round x = Ok (c_round o x) /\ cwf (c_round o x).
  Proof.
    destruct x as [a b c d]. intros (Wa & Wb & Wc & Wd). cbn [sa sb sc sd] in *.
    unfold oc_round, c_round, cwf. cbn [sa sb sc sd]. repeat vstep.
    split; [reflexivity | repeat split; wf_tac].
  Qed.

  Lemma oc_diagonalize_ok x : cwf x -> oc_diagonalize x = Ok (c_diagonalize o x) /\ cwf (c_diagonalize o x).
  Proof.
    destruct x as [a b c d]. intros (Wa & Wb & Wc & Wd). cbn [sa sb sc sd] in *.
    unfold oc_diagonalize, c_diagonalize, cwf. cbn [sa sb sc sd]. repeat vstep.
    split; [reflexivity | repeat split; wf_tac].
  Qed.
  Lemma oc_undiagonalize_ok x : cwf x -> oc_undiagonalize x = Ok (c_undiagonalize o x) /\ cwf (c_undiagonalize o x).
  Proof.
    destruct x as [a b c d]. intros (Wa & Wb & Wc & Wd). cbn [sa sb sc sd] in *.
    unfold oc_undiagonalize, c_undiagonalize, cwf. cbn [sa sb sc sd]. repeat vstep.
    split; [reflexivity | repeat split; wf_tac].
  Qed.

  Lemma oc_dround_ok x : cwf x -> oc_dround x = Ok (c_dround o x) /\ cwf (c_dround o x).
  Proof.
    intros W. unfold oc_dround, c_dround.
    destruct (oc_round_ok x W) as [E1 W1]. rewrite E1. cbn [obind].
    destruct (oc_diagonalize_ok _ W1) as [E2 W2]. rewrite E2. cbn [obind].
    destruct (oc_round_ok _ W2) as [E3 W3]. rewrite E3. cbn [obind].
    exact (oc_undiagonalize_ok _ W3).
  Qed.

  Lemma oc_rounds_ok k : forall x, cwf x -> oc_rounds k x = Ok (c_rounds o k x) /\ cwf (c_rounds o k x).
  Proof.
    induction k as [|k IH]; intros x W; cbn [oc_rounds c_rounds]; [split; [reflexivity | exact W]|].
    destruct (oc_dround_ok x W) as [E1 W1]. rewrite E1. cbn [obind]. exact (IH _ W1).
  Qed.
End OChaCha.

Section OBlake.
  Variables (o : vops) (oo : ovops o).
  Variables k1 k2 k3 k4 : N.

  Definition ob_round (xs : brows o) (m0 m1 : vt o) : outcome (brows o) :=
    let '(a, b, c, d) := xs in
    let* a := oo_add oo a m0 in
    let* a := oo_add oo a b in
    let* d := oo_xor oo d a in
    let* d := oo_rotr oo k1 d in
    let* c := oo_add oo c d in
    let* b := oo_xor oo b c in
    let* b := oo_rotr oo k2 b in
    let* a := oo_add oo a m1 in
    let* a := oo_add oo a b in
    let* d := oo_xor oo d a in
    let* d := oo_rotr oo k3 d in
    let* c := oo_add oo c d in
    let* b := oo_xor oo b c in
    let* b := oo_rotr oo k4 b in
    Ok (a, b, c, d).

  Definition ob_diagonalize (xs : brows o) : outcome (brows o) :=
    let '(a, b, c, d) := xs in
    let* a := oo_sh1230 oo a in let* c := oo_sh3012 oo c in let* d := oo_sh2301 oo d in Ok (a, b, c, d).
  Definition ob_undiagonalize (xs : brows o) : outcome (brows o) :=
    let '(a, b, c, d) := xs in
    let* a := oo_sh3012 oo a in let* c := oo_sh1230 oo c in let* d := oo_sh2301 oo d in Ok (a, b, c, d).

  Definition ob_step (xs : brows o) (ms : list N * list N * list N * list N) : outcome (brows o) :=
    let '(c0, c1, d0, d1) := ms in
    let* v0 := oo_vec oo c0 in
    let* v1 := oo_vec oo c1 in
    let* xs := ob_round xs v0 v1 in
    let* xs := ob_diagonalize xs in
    let* w0 := oo_vec oo d0 in
    let* w1 := oo_vec oo d1 in
    let* xs := ob_round xs w0 w1 in
    ob_undiagonalize xs.

  Fixpoint ob_rounds (xs : brows o) (mss : list (list N * list N * list N * list N)) : outcome (brows o) :=
    match mss with [] => Ok xs | ms :: r => let* xs := ob_step xs ms in ob_rounds xs r end.

  Context {w : N} {ks : list N}.
  Hypothesis R : vops_refines w 4 ks o.
  Hypothesis A : ovops_agree w 4 ks o oo.
  Hypothesis Hks : incl [k1; k2; k3; k4] ks.

  Definition bwf (xs : brows o) : Prop :=
    let '(a, b, c, d) := xs in v_wf o a /\ v_wf o b /\ v_wf o c /\ v_wf o d.

  Let Hk1 : In k1 ks. Proof. apply Hks. cbn. tauto. Qed.
  Let Hk2 : In k2 ks. Proof. apply Hks. cbn. tauto. Qed.
  Let Hk3 : In k3 ks. Proof. apply Hks. cbn. tauto. Qed.
  Let Hk4 : In k4 ks. Proof. apply Hks. cbn. tauto. Qed.

  Ltac vstep :=
    first [ rewrite (a_add _ _ _ _ _ A) by wf_tac
          | rewrite (a_xor _ _ _ _ _ A) by wf_tac
          | rewrite (a_rotr _ _ _ _ _ A) by wf_tac
          | rewrite (a_sh1230 _ _ _ _ _ A) by wf_tac
          | rewrite (a_sh2301 _ _ _ _ _ A) by wf_tac
          | rewrite (a_sh3012 _ _ _ _ _ A) by wf_tac
          | rewrite (a_vec _ _ _ _ _ A) by wf_tac ]; cbn [obind].

  Lemma ob_round_ok xs m0 m1 : bwf xs -> v_wf o m0 -> v_wf o m1 ->
    ob_round xs m0 m1 = Ok (b_round o k1 k2 k3 k4 xs m0 m1) /\ bwf (b_round o k1 k2 k3 k4 xs m0 m1).
  Proof.
    destruct xs as [[[a b] c] d]. intros (Wa & Wb & Wc & Wd) W0 W1.
    unfold ob_round, b_round, bwf. repeat vstep. split; [reflexivity | repeat split; wf_tac].
  Qed.
  Lemma ob_diagonalize_ok xs : bwf xs -> ob_diagonalize xs = Ok (b_diagonalize o xs) /\ bwf (b_diagonalize o xs).
  Proof.
    destruct xs as [[[a b] c] d]. intros (Wa & Wb & Wc & Wd).
    unfold ob_diagonalize, b_diagonalize, bwf. repeat vstep. split; [reflexivity | repeat split; wf_tac].
  Qed.
  Lemma ob_undiagonalize_ok xs : bwf xs -> ob_undiagonalize xs = Ok (b_undiagonalize o xs) /\ bwf (b_undiagonalize o xs).
  Proof.
    destruct xs as [[[a b] c] d]. intros (Wa & Wb & Wc & Wd).
    unfold ob_undiagonalize, b_undiagonalize, bwf. repeat vstep. split; [reflexivity | repeat split; wf_tac].
  Qed.

  Definition ms_ok (ms : list N * list N * list N * list N) : Prop :=
    let '(c0, c1, d0, d1) := ms in words_ok w 4 c0 /\ words_ok w 4 c1 /\ words_ok w 4 d0 /\ words_ok w 4 d1.

  Lemma ob_step_ok xs ms : bwf xs -> ms_ok ms ->
    ob_step xs ms = Ok (b_step o k1 k2 k3 k4 xs ms) /\ bwf (b_step o k1 k2 k3 k4 xs ms).
  Proof.
    destruct ms as [[[c0 c1] d0] d1]. intros W (M0 & M1 & M2 & M3). unfold ob_step, b_step.
    repeat vstep.
    destruct (ob_round_ok xs (v_vec o c0) (v_vec o c1) W) as [E1 W1]; [wf_tac | wf_tac |]. rewrite E1. cbn [obind].
    destruct (ob_diagonalize_ok _ W1) as [E2 W2]. rewrite E2. cbn [obind]. repeat vstep.
    destruct (ob_round_ok _ (v_vec o d0) (v_vec o d1) W2) as [E3 W3]; [wf_tac | wf_tac |]. rewrite E3. cbn [obind].
    exact (ob_undiagonalize_ok _ W3).
  Qed.

  Lemma ob_rounds_ok mss : Forall ms_ok mss -> forall xs, bwf xs ->
    ob_rounds xs mss = Ok (b_rounds o k1 k2 k3 k4 xs mss) /\ bwf (b_rounds o k1 k2 k3 k4 xs mss).
  Proof.
    unfold b_rounds. induction 1 as [|ms mss Hm _ IH]; intros xs W; cbn [ob_rounds fold_left];
      [split; [reflexivity | exact W]|].
    destruct (ob_step_ok xs ms W Hm) as [E1 W1]. rewrite E1. cbn [obind]. exact (IH _ W1).
  Qed.
End OBlake.

Section OJH.
  Variables (j : jops) (oj : ojops j).

  Definition oj_ss (s : jx8 j) (k : jt2 j) : outcome (jx8 j) :=
    let* m0 := oj_zip oj (q0 s) (q1 s) in let* m1 := oj_zip oj (q2 s) (q3 s) in
    let* m2 := oj_zip oj (q4 s) (q5 s) in let* m3 := oj_zip oj (q6 s) (q7 s) in
    let* m3 := oj_not2 oj m3 in
    let* t := oj_andnot2 oj m2 k in let* m0 := oj_xor2 oj m0 t in
    let* t := oj_and2 oj m0 m1 in let* k := oj_xor2 oj k t in
    let* t := oj_and2 oj m3 m2 in let* m0 := oj_xor2 oj m0 t in
    let* t := oj_andnot2 oj m1 m2 in let* m3 := oj_xor2 oj m3 t in
    let* t := oj_and2 oj m0 m2 in let* m1 := oj_xor2 oj m1 t in
    let* t := oj_andnot2 oj m3 m0 in let* m2 := oj_xor2 oj m2 t in
    let* t := oj_or2 oj m1 m3 in let* m0 := oj_xor2 oj m0 t in
    let* t := oj_and2 oj m1 m2 in let* m3 := oj_xor2 oj m3 t in
    let* m2 := oj_xor2 oj m2 k in
    let* t := oj_and2 oj k m0 in let* m1 := oj_xor2 oj m1 t in
    let* r0 := oj_ext oj m0 false in let* r1 := oj_ext oj m0 true in
    let* r2 := oj_ext oj m1 false in let* r3 := oj_ext oj m1 true in
    let* r4 := oj_ext oj m2 false in let* r5 := oj_ext oj m2 true in
    let* r6 := oj_ext oj m3 false in let* r7 := oj_ext oj m3 true in
    Ok (JX8 r0 r1 r2 r3 r4 r5 r6 r7).

  Definition oj_l (y : jx8 j) : outcome (jx8 j) :=
    let '(JX8 a0 a1 a2 a3 a4 a5 a6 a7) := y in
    let* a1 := oj_xor1 oj a1 a2 in
    let* a3 := oj_xor1 oj a3 a4 in
    let* t := oj_xor1 oj a6 a0 in let* a5 := oj_xor1 oj a5 t in
    let* a7 := oj_xor1 oj a7 a0 in
    let* a0 := oj_xor1 oj a0 a3 in
    let* a2 := oj_xor1 oj a2 a5 in
    let* t := oj_xor1 oj a7 a1 in let* a4 := oj_xor1 oj a4 t in
    let* a6 := oj_xor1 oj a6 a1 in
    Ok (JX8 a0 a1 a2 a3 a4 a5 a6 a7).

  Definition oj_round (e : nat) (rc : N * N) (y : jx8 j) : outcome (jx8 j) :=
    let* k := oj_const oj rc in
    let* y := oj_ss y k in
    let* y := oj_l y in
    let* s1 := oj_swap oj e (q1 y) in let* s3 := oj_swap oj e (q3 y) in
    let* s5 := oj_swap oj e (q5 y) in let* s7 := oj_swap oj e (q7 y) in
    Ok (JX8 (q0 y) s1 (q2 y) s3 (q4 y) s5 (q6 y) s7).

  Fixpoint oj_rounds (y : jx8 j) (sched : list (nat * (N * N))) : outcome (jx8 j) :=
    match sched with [] => Ok y | jr :: r => let* y := oj_round (fst jr) (snd jr) y in oj_rounds y r end.

  Hypothesis R : jops_refines j.
  Hypothesis A : ojops_agree j oj.

  Definition jwf8 (y : jx8 j) : Prop :=
    j_wf1 j (q0 y) /\ j_wf1 j (q1 y) /\ j_wf1 j (q2 y) /\ j_wf1 j (q3 y) /\
    j_wf1 j (q4 y) /\ j_wf1 j (q5 y) /\ j_wf1 j (q6 y) /\ j_wf1 j (q7 y).

  Ltac jstep :=
    first [ rewrite (a_zip _ _ A) by wf_tac
          | rewrite (a_not2 _ _ A) by wf_tac
          | rewrite (a_andnot2 _ _ A) by wf_tac
          | rewrite (a_and2 _ _ A) by wf_tac
          | rewrite (a_or2 _ _ A) by wf_tac
          | rewrite (a_xor2 _ _ A) by wf_tac
          | rewrite (a_xor1 _ _ A) by wf_tac
          | rewrite (a_ext _ _ A) by wf_tac
          | rewrite (a_const _ _ A) by wf_tac
          | rewrite (a_swap _ _ A) by wf_tac ]; cbn [obind].

  Lemma oj_ss_ok s k : jwf8 s -> j_wf2 j k -> oj_ss s k = Ok (j_ss j s k) /\ jwf8 (j_ss j s k).
  Proof.
    destruct s as [a0 a1 a2 a3 a4 a5 a6 a7]. intros (W0 & W1 & W2 & W3 & W4 & W5 & W6 & W7) Wk.
    cbn [q0 q1 q2 q3 q4 q5 q6 q7] in *. unfold oj_ss, j_ss, jwf8. cbn [q0 q1 q2 q3 q4 q5 q6 q7].
    repeat jstep. split; [reflexivity | repeat split; wf_tac].
  Qed.

  Lemma oj_l_ok y : jwf8 y -> oj_l y = Ok (j_l j y) /\ jwf8 (j_l j y).
  Proof.
    destruct y as [a0 a1 a2 a3 a4 a5 a6 a7]. intros (W0 & W1 & W2 & W3 & W4 & W5 & W6 & W7).
    cbn [q0 q1 q2 q3 q4 q5 q6 q7] in *. unfold oj_l, j_l, jwf8. repeat jstep. cbn [q0 q1 q2 q3 q4 q5 q6 q7].
    split; [reflexivity | repeat split; wf_tac].
  Qed.

  Lemma oj_round_ok e rc y : (e < 7)%nat -> w128 (fst rc) -> w128 (snd rc) -> jwf8 y ->
    oj_round e rc y = Ok (j_round j e rc y) /\ jwf8 (j_round j e rc y).
  Proof.
    intros He H1 H2 W. unfold oj_round, j_round. jstep.
    destruct (oj_ss_ok y (j_const j rc) W) as [E1 W1]; [wf_tac|]. rewrite E1. cbn [obind].
    destruct (oj_l_ok _ W1) as [E2 W2]. rewrite E2. cbn [obind].
    destruct W2 as (V0 & V1 & V2 & V3 & V4 & V5 & V6 & V7).
    repeat jstep. unfold jwf8. cbn [q0 q1 q2 q3 q4 q5 q6 q7].
    split; [reflexivity | repeat split; wf_tac].
  Qed.

  Lemma oj_rounds_ok sched : sched_ok sched -> forall y, jwf8 y ->
    oj_rounds y sched = Ok (j_rounds j y sched) /\ jwf8 (j_rounds j y sched).
  Proof.
    unfold j_rounds. induction 1 as [|jr sched (He & H1 & H2) _ IH]; intros y W; cbn [oj_rounds fold_left];
      [split; [reflexivity | exact W]|].
    destruct (oj_round_ok (fst jr) (snd jr) y He H1 H2 W) as [E1 W1]. rewrite E1. cbn [obind]. exact (IH _ W1).
  Qed.
End OJH.

(** * (3'') the framing of Model/MachineFull.v in the outcome monad *)
Section ONarrow.
  Variables (o : vops) (n : nops o) (oo : ovops o) (on : onops o).

  Definition ox_refill_narrow_rounds (drounds : nat) (s : cstore)
    : outcome (list N * list N * list N * list N) :=
    let* k := oo_vec oo chacha_k in
    let* b := o4_unpack on (st_b s) in
    let* c := o4_unpack on (st_c s) in
    let* d := o4_unpack on (st_d s) in
    let* x := oc_rounds o oo drounds (CS k b c d) in
    let* ra := o4_into on (sa x) in
    let* rb := o4_into on (sb x) in
    let* rc := o4_into on (sc x) in
    let* rd := o4_into on (sd x) in
    Ok (ra, rb, rc, rd).

  Definition ox_output_narrow (s : cstore) (x : cstate o) : outcome (list N) :=
    let* k := oo_vec oo chacha_k in
    let* t := oo_add oo (sa x) k in
    let* w0 := o4_write_le on t in
    let* u := o4_unpack on (st_b s) in
    let* t := oo_add oo (sb x) u in
    let* w1 := o4_write_le on t in
    let* u := o4_unpack on (st_c s) in
    let* t := oo_add oo (sc x) u in
    let* w2 := o4_write_le on t in
    let* u := o4_unpack on (st_d s) in
    let* t := oo_add oo (sd x) u in
    let* w3 := o4_write_le on t in
    Ok (w0 ++ w1 ++ w2 ++ w3).

  Definition ox_pos64 (s : cstore) : outcome N :=
    let* d := o4_unpack on (st_d s) in
    let* hi := o4_extract on d 1 in
    let* lo := o4_extract on d 0 in
    Ok (N.lor (N.shiftl hi 32) lo).

  Definition ox_inc_block_ct (s : cstore) : outcome cstore :=
    let* pos := ox_pos64 s in
    let* d0 := o4_unpack on (st_d s) in
    let pos := wrap 64 (pos + 1) in
    let* d1 := o4_insert on d0 (wrap 32 (N.shiftr pos 32)) 1 in
    let* d1 := o4_insert on d1 (wrap 32 pos) 0 in
    let* st := o4_into on d1 in
    Ok (CSt (st_b s) (st_c s) st).

  Definition ox_refill_narrow_tail (s : cstore) (r : list N * list N * list N * list N) : outcome (list N * cstore) :=
    let* a := o4_unpack on (t4_0 r) in
    let* b := o4_unpack on (t4_1 r) in
    let* c := o4_unpack on (t4_2 r) in
    let* d := o4_unpack on (t4_3 r) in
    let* out := ox_output_narrow s (CS a b c d) in
    let* s' := ox_inc_block_ct s in
    Ok (out, s').

  Hypothesis R : vops_refines 32 4 ks32 o.
  Hypothesis NR : nops_refines o n.
  Hypothesis A : ovops_agree 32 4 ks32 o oo.
  Hypothesis AN : onops_agree o n on.

  Ltac nstep :=
    first [ rewrite (a_add _ _ _ _ _ A) by wf_tac
          | rewrite (a_vec _ _ _ _ _ A) by wf_tac
          | rewrite (a4_unpack _ _ _ AN) by wf_tac
          | rewrite (a4_into _ _ _ AN) by wf_tac
          | rewrite (a4_extract _ _ _ AN) by wf_tac
          | rewrite (a4_insert _ _ _ AN) by wf_tac
          | rewrite (a4_write_le _ _ _ AN) by wf_tac ]; cbn [obind].

  Lemma ox_refill_narrow_rounds_ok k s : cstore_ok s ->
    ox_refill_narrow_rounds k s = Ok (x_refill_narrow_rounds o n k s) /\
    (let r := x_refill_narrow_rounds o n k s in
     bytes_ok 16 (t4_0 r) /\ bytes_ok 16 (t4_1 r) /\ bytes_ok 16 (t4_2 r) /\ bytes_ok 16 (t4_3 r)).
  Proof.
    intros (Hb & Hc & Hd). unfold ox_refill_narrow_rounds, x_refill_narrow_rounds. repeat nstep.
    destruct (oc_rounds_ok o oo R A incl_chacha_ks32 k
                (CS (v_vec o chacha_k) (v4_unpack n (st_b s)) (v4_unpack n (st_c s)) (v4_unpack n (st_d s))))
      as [E (Wa & Wb & Wc & Wd)].
    { repeat split; cbn [sa sb sc sd]; wf_tac. }
    rewrite E. cbn [obind]. repeat nstep.
    split; [reflexivity|]. cbv zeta. unfold x_refill_narrow_rounds, t4_0, t4_1, t4_2, t4_3. cbn [fst snd].
    refine (conj _ (conj _ (conj _ _))); wf_tac.
  Qed.

  Lemma ox_output_narrow_ok s x : cstore_ok s -> cwf o x -> ox_output_narrow s x = Ok (x_output_narrow o n s x).
  Proof.
    intros (Hb & Hc & Hd) (Wa & Wb & Wc & Wd). unfold ox_output_narrow, x_output_narrow. repeat nstep. reflexivity.
  Qed.

  Lemma ox_pos64_ok s : cstore_ok s -> ox_pos64 s = Ok (x_pos64 o n s).
  Proof. intros (Hb & Hc & Hd). unfold ox_pos64, x_pos64. repeat nstep. reflexivity. Qed.

  Lemma ox_inc_block_ct_ok s : cstore_ok s -> ox_inc_block_ct s = Ok (x_inc_block_ct o n s).
  Proof.
    intros Hs. pose proof Hs as (Hb & Hc & Hd). unfold ox_inc_block_ct, x_inc_block_ct.
    rewrite (ox_pos64_ok s Hs). cbn [obind]. repeat nstep. reflexivity.
  Qed.

  Lemma ox_refill_narrow_tail_ok s r : cstore_ok s ->
    bytes_ok 16 (t4_0 r) -> bytes_ok 16 (t4_1 r) -> bytes_ok 16 (t4_2 r) -> bytes_ok 16 (t4_3 r) ->
    ox_refill_narrow_tail s r = Ok (x_refill_narrow_tail o n s r).
  Proof.
    intros Hs B0 B1 B2 B3. unfold ox_refill_narrow_tail, x_refill_narrow_tail. repeat nstep.
    rewrite (ox_output_narrow_ok s _ Hs) by (repeat split; cbn [sa sb sc sd]; wf_tac). cbn [obind].
    rewrite (ox_inc_block_ct_ok s Hs). reflexivity.
  Qed.
End ONarrow.

Section OWide.
  Variables (o4 o16 : vops) (n : nops o4) (q : dops) (x : wops o4 o16).
  Variables (ov4 : ovops o4) (ov16 : ovops o16) (on : onops o4) (oq : odops q) (ow : owops o4 o16).

  Definition ox_d0123 (d : list N) : outcome (vt o16) :=
    let* d0 := od2_unpack oq d in
    let* i0 := od2_vec oq [0; 0] in
    let* i1 := od2_vec oq [1; 0] in
    let* i2 := od2_vec oq [2; 0] in
    let* i3 := od2_vec oq [3; 0] in
    let* incr := od8_from_lanes oq i0 i1 i2 i3 in
    let* dd := od8_from_lanes oq d0 d0 d0 d0 in
    let* s := od8_add oq dd incr in
    let* st := od8_into oq s in
    o16_unpack ow st.

  Definition ox_add_pos (d : vt o4) (i : N) : outcome (vt o4) :=
    let* st := o4_into on d in
    let* d0 := od2_unpack oq st in
    let* incr := od2_vec oq [i; 0] in
    let* s := od2_add oq d0 incr in
    let* st := od2_into oq s in
    o4_unpack on st.

  Definition ox_refill_wide (drounds : nat) (s : cstore) : outcome (list N * cstore) :=
    let* k := oo_vec ov4 chacha_k in
    let* b := o4_unpack on (st_b s) in
    let* c := o4_unpack on (st_c s) in
    let* kk := o16_from_lanes ow k k k k in
    let* bb := o16_from_lanes ow b b b b in
    let* cc := o16_from_lanes ow c c c c in
    let* dd := ox_d0123 (st_d s) in
    let* st := oc_rounds o16 ov16 drounds (CS kk bb cc dd) in
    let* kk := o16_from_lanes ow k k k k in
    let* sb' := o4_unpack on (st_b s) in
    let* sb' := o16_from_lanes ow sb' sb' sb' sb' in
    let* sc' := o4_unpack on (st_c s) in
    let* sc' := o16_from_lanes ow sc' sc' sc' sc' in
    let* sd' := ox_d0123 (st_d s) in
    let* ra := oo_add ov16 (sa st) kk in
    let* rb := oo_add ov16 (sb st) sb' in
    let* rc := oo_add ov16 (sc st) sc' in
    let* rd := oo_add ov16 (sd st) sd' in
    let* results := o16_transpose4 ow ra rb rc rd in
    let* w0 := o16_write_le ow (t4_0 results) in
    let* w1 := o16_write_le ow (t4_1 results) in
    let* w2 := o16_write_le ow (t4_2 results) in
    let* w3 := o16_write_le ow (t4_3 results) in
    let* lanes := o16_to_lanes ow sd' in
    let* np := ox_add_pos (t4_0 lanes) 4 in
    let* dst := o4_into on np in
    Ok (w0 ++ w1 ++ w2 ++ w3, CSt (st_b s) (st_c s) dst).

  Hypothesis R4 : vops_refines 32 4 ks32 o4.
  Hypothesis R16 : vops_refines 32 16 ks32 o16.
  Hypothesis NR : nops_refines o4 n.
  Hypothesis DR : dops_refines q.
  Hypothesis WR : wops_refines o4 o16 x.
  Hypothesis A4 : ovops_agree 32 4 ks32 o4 ov4.
  Hypothesis A16 : ovops_agree 32 16 ks32 o16 ov16.
  Hypothesis AN : onops_agree o4 n on.
  Hypothesis AD : odops_agree q oq.
  Hypothesis AW : owops_agree o4 o16 x ow.

  Ltac wstep :=
    first [ rewrite (a_vec _ _ _ _ _ A4) by wf_tac
          | rewrite (a_add _ _ _ _ _ A16) by wf_tac
          | rewrite (a4_unpack _ _ _ AN) by wf_tac
          | rewrite (a4_into _ _ _ AN) by wf_tac
          | rewrite (ad2_vec _ _ AD) by wf_tac
          | rewrite (ad2_unpack _ _ AD) by wf_tac
          | rewrite (ad2_into _ _ AD) by wf_tac
          | rewrite (ad2_add _ _ AD) by wf_tac
          | rewrite (ad8_from_lanes _ _ AD) by wf_tac
          | rewrite (ad8_add _ _ AD) by wf_tac
          | rewrite (ad8_into _ _ AD) by wf_tac
          | rewrite (a16_from_lanes _ _ _ _ AW) by wf_tac
          | rewrite (a16_to_lanes _ _ _ _ AW) by wf_tac
          | rewrite (a16_unpack _ _ _ _ AW) by wf_tac
          | rewrite (a16_transpose4 _ _ _ _ AW) by wf_tac
          | rewrite (a16_write_le _ _ _ _ AW) by wf_tac ]; cbn [obind].

  Hint Resolve pair_ok64 : owf.

  Lemma ox_d0123_ok d : bytes_ok 16 d -> ox_d0123 d = Ok (x_d0123 o4 o16 q x d) /\ v_wf o16 (x_d0123 o4 o16 q x d).
  Proof.
    intros Hd. unfold ox_d0123, x_d0123. repeat wstep. split; [reflexivity | wf_tac].
  Qed.

  Lemma ox_add_pos_ok d i : v_wf o4 d -> i < 2 ^ 64 ->
    ox_add_pos d i = Ok (x_add_pos o4 n q d i) /\ v_wf o4 (x_add_pos o4 n q d i).
  Proof.
    intros Wd Hi. unfold ox_add_pos, x_add_pos. repeat wstep. split; [reflexivity | wf_tac].
  Qed.

  Lemma ox_refill_wide_ok k s : cstore_ok s -> ox_refill_wide k s = Ok (x_refill_wide o4 o16 n q x k s).
  Proof.
    intros (Hb & Hc & Hd). unfold ox_refill_wide, x_refill_wide. repeat wstep.
    destruct (ox_d0123_ok (st_d s) Hd) as [ED WD]. rewrite ED. cbn [obind].
    match goal with |- context [oc_rounds o16 ov16 k ?st0] =>
      destruct (oc_rounds_ok o16 ov16 R16 A16 incl_chacha_ks32 k st0) as [E (Wa & Wb & Wc & Wd)] end.
    { repeat split; cbn [sa sb sc sd]; wf_tac. }
    rewrite E. cbn [obind]. repeat wstep.
    match goal with |- context [v16_transpose4 x ?a ?b ?c ?d] =>
      destruct (wwf_transpose4 WR a b c d) as (T0 & T1 & T2 & T3); [wf_tac ..|] end.
    repeat wstep.
    destruct (ox_add_pos_ok (t4_0 (v16_to_lanes x (x_d0123 o4 o16 q x (st_d s)))) 4) as [EP WP]; [wf_tac | reflexivity |].
    rewrite EP. cbn [obind]. repeat wstep. reflexivity.
  Qed.
End OWide.

Section OJHFull.
  Variables (j : jops) (u : uops j) (oj : ojops j) (ou : ouops j).

  Definition ox_f8 (sched : list (nat * (N * N))) (state data : list N) : outcome (list N) :=
    let* u0 := ou_unpack ou (slice16 0 state) in let* u1 := ou_unpack ou (slice16 1 state) in
    let* u2 := ou_unpack ou (slice16 2 state) in let* u3 := ou_unpack ou (slice16 3 state) in
    let* u4 := ou_unpack ou (slice16 4 state) in let* u5 := ou_unpack ou (slice16 5 state) in
    let* u6 := ou_unpack ou (slice16 6 state) in let* u7 := ou_unpack ou (slice16 7 state) in
    let* r0 := ou_read ou (slice16 0 data) in let* r1 := ou_read ou (slice16 1 data) in
    let* r2 := ou_read ou (slice16 2 data) in let* r3 := ou_read ou (slice16 3 data) in
    let* y0 := oj_xor1 oj u0 r0 in let* y1 := oj_xor1 oj u1 r1 in
    let* y2 := oj_xor1 oj u2 r2 in let* y3 := oj_xor1 oj u3 r3 in
    let* y := oj_rounds j oj (JX8 y0 y1 y2 y3 u4 u5 u6 u7) sched in
    let* r0 := ou_read ou (slice16 0 data) in let* r1 := ou_read ou (slice16 1 data) in
    let* r2 := ou_read ou (slice16 2 data) in let* r3 := ou_read ou (slice16 3 data) in
    let* z4 := oj_xor1 oj (q4 y) r0 in let* z5 := oj_xor1 oj (q5 y) r1 in
    let* z6 := oj_xor1 oj (q6 y) r2 in let* z7 := oj_xor1 oj (q7 y) r3 in
    let* b0 := ou_into ou (q0 y) in let* b1 := ou_into ou (q1 y) in
    let* b2 := ou_into ou (q2 y) in let* b3 := ou_into ou (q3 y) in
    let* b4 := ou_into ou z4 in let* b5 := ou_into ou z5 in
    let* b6 := ou_into ou z6 in let* b7 := ou_into ou z7 in
    Ok (b0 ++ b1 ++ b2 ++ b3 ++ b4 ++ b5 ++ b6 ++ b7).

  Hypothesis R : jops_refines j.
  Hypothesis UR : uops_refines j u.
  Hypothesis A : ojops_agree j oj.
  Hypothesis AU : ouops_agree j u ou.

  Lemma uwf_unpack st : bytes_ok 16 st -> j_wf1 j (o1_unpack u st).
  Proof. intros H. exact (proj1 (ur_unpack _ _ UR st H)). Qed.
  Lemma uwf_read st : bytes_ok 16 st -> j_wf1 j (o1_read u st).
  Proof. intros H. exact (proj1 (ur_read _ _ UR st H)). Qed.
  Hint Resolve uwf_unpack uwf_read : owf.

  Ltac ustep :=
    first [ rewrite (au_unpack _ _ _ AU) by wf_tac
          | rewrite (au_read _ _ _ AU) by wf_tac
          | rewrite (au_into _ _ _ AU) by wf_tac
          | rewrite (a_xor1 _ _ A) by wf_tac ]; cbn [obind].

  Lemma slice_state i state : bytes_ok 128 state -> (i < 8)%nat -> bytes_ok 16 (slice16 i state).
  Proof. intros H Hi. exact (slice_ok 16 8 state i H Hi). Qed.
  Lemma slice_data i data : bytes_ok 64 data -> (i < 4)%nat -> bytes_ok 16 (slice16 i data).
  Proof. intros H Hi. exact (slice_ok 16 4 data i H Hi). Qed.

  Lemma ox_f8_ok sched state data : sched_ok sched -> bytes_ok 128 state -> bytes_ok 64 data ->
    ox_f8 sched state data = Ok (x_f8 j u sched state data).
  Proof.
    intros Hs Hst Hd.
    assert (S0 := slice_state 0 state Hst ltac:(lia)). assert (S1 := slice_state 1 state Hst ltac:(lia)).
    assert (S2 := slice_state 2 state Hst ltac:(lia)). assert (S3 := slice_state 3 state Hst ltac:(lia)).
    assert (S4 := slice_state 4 state Hst ltac:(lia)). assert (S5 := slice_state 5 state Hst ltac:(lia)).
    assert (S6 := slice_state 6 state Hst ltac:(lia)). assert (S7 := slice_state 7 state Hst ltac:(lia)).
    assert (D0 := slice_data 0 data Hd ltac:(lia)). assert (D1 := slice_data 1 data Hd ltac:(lia)).
    assert (D2 := slice_data 2 data Hd ltac:(lia)). assert (D3 := slice_data 3 data Hd ltac:(lia)).
    unfold ox_f8, x_f8. cbn [q0 q1 q2 q3 q4 q5 q6 q7]. repeat ustep.
    match goal with |- context [oj_rounds j oj ?y0 sched] =>
      destruct (oj_rounds_ok j oj R A sched Hs y0) as [E (W0 & W1 & W2 & W3 & W4 & W5 & W6 & W7)] end.
    { unfold jwf8. cbn [q0 q1 q2 q3 q4 q5 q6 q7]. repeat split; wf_tac. }
    rewrite E. cbn [obind]. repeat ustep. reflexivity.
  Qed.
End OJHFull.

Section OBlakeFull.
  Variables (o : vops) (oo : ovops o).
  Variables (kb : nat) (ks : list N) (k1 k2 k3 k4 : N) (U : list N) (nrounds : nat).
  Variables (unpack : list N -> vt o) (into : vt o -> list N) (wr_be : vt o -> list N).
  Variables (ounpack : list N -> outcome (vt o)) (ointo : vt o -> outcome (list N)) (owr_be : vt o -> outcome (list N)).
  Let w : N := 8 * N.of_nat kb.

  Definition ox_put_block_words (h : list N * list N) (mw : list N) (t : N * N) : outcome (list N * list N) :=
    let* u0 := oo_vec oo [nth 0 U 0; nth 1 U 0; nth 2 U 0; nth 3 U 0] in
    let* u1 := oo_vec oo [nth 4 U 0; nth 5 U 0; nth 6 U 0; nth 7 U 0] in
    let* a := ounpack (fst h) in
    let* b := ounpack (snd h) in
    let* tv := oo_vec oo [fst t; fst t; snd t; snd t] in
    let* d := oo_xor oo u1 tv in
    let* xs := ob_rounds o oo k1 k2 k3 k4 (a, b, u0, d) (map (x_msgs U mw) (firstn nrounds Blake.SIGMA)) in
    let* h0 := ounpack (fst h) in
    let* h1 := ounpack (snd h) in
    let* r0 := oo_xor oo h0 (t4_0 xs) in
    let* r0 := oo_xor oo r0 (t4_2 xs) in
    let* o0 := ointo r0 in
    let* r1 := oo_xor oo h1 (t4_1 xs) in
    let* r1 := oo_xor oo r1 (t4_3 xs) in
    let* o1 := ointo r1 in
    Ok (o0, o1).

  Definition ox_finalize (h : list N * list N) : outcome (list N) :=
    let* a := ounpack (fst h) in
    let* w0 := owr_be a in
    let* b := ounpack (snd h) in
    let* w1 := owr_be b in
    Ok (w0 ++ w1).

  Hypothesis Hkb : (0 < kb)%nat.
  Hypothesis R : vops_refines w 4 ks o.
  Hypothesis A : ovops_agree w 4 ks o oo.
  Hypothesis Hks : incl [k1; k2; k3; k4] ks.
  Hypothesis Hun : forall st, bytes_ok (kb * 4) st -> v_wf o (unpack st) /\ ounpack st = Ok (unpack st).
  Hypothesis Hin : forall a, v_wf o a -> ointo a = Ok (into a).
  Hypothesis Hbe : forall a, v_wf o a -> owr_be a = Ok (wr_be a).
  Hypothesis HU : Forall (fun x => x < 2 ^ w) U.

  Lemma msgs_all_ok mw sigmas : Forall (fun x => x < 2 ^ w) mw -> Forall (ms_ok (w := w)) (map (x_msgs U mw) sigmas).
  Proof.
    intros Hm. induction sigmas as [|sg sigmas IH]; cbn [map]; constructor; [|exact IH].
    pose proof (x_msgs_ok kb U HU mw sg Hm) as H. unfold ms_ok. destruct (x_msgs U mw sg) as [[[c0 c1] d0] d1]. exact H.
  Qed.

  Ltac bstep :=
    first [ rewrite (a_vec _ _ _ _ _ A) by wf_tac
          | rewrite (a_xor _ _ _ _ _ A) by wf_tac ]; cbn [obind].

  Lemma ox_put_block_words_ok h mw t :
    bytes_ok (kb * 4) (fst h) -> bytes_ok (kb * 4) (snd h) ->
    Forall (fun x => x < 2 ^ w) mw -> fst t < 2 ^ w -> snd t < 2 ^ w ->
    ox_put_block_words h mw t = Ok (x_put_block_words o k1 k2 k3 k4 U nrounds unpack into h mw t).
  Proof.
    intros H0 H1 Hm Ht0 Ht1. destruct (Hun _ H0) as [W0 E0]. destruct (Hun _ H1) as [W1 E1].
    assert (PU : forall i, nth i U 0 < 2 ^ w) by (intros i; apply nth_Forall; [exact HU | apply pow2_pos]).
    assert (OU0 : words_ok w 4 [nth 0 U 0; nth 1 U 0; nth 2 U 0; nth 3 U 0])
      by (split; [reflexivity | repeat (apply Forall_cons; [apply PU|]); apply Forall_nil]).
    assert (OU1 : words_ok w 4 [nth 4 U 0; nth 5 U 0; nth 6 U 0; nth 7 U 0])
      by (split; [reflexivity | repeat (apply Forall_cons; [apply PU|]); apply Forall_nil]).
    assert (OT : words_ok w 4 [fst t; fst t; snd t; snd t])
      by (split; [reflexivity | repeat (apply Forall_cons; [assumption|]); apply Forall_nil]).
    unfold ox_put_block_words, x_put_block_words. repeat bstep. rewrite E0, E1. cbn [obind]. repeat bstep.
    match goal with |- context [ob_rounds o oo k1 k2 k3 k4 ?x0 ?mss] =>
      destruct (ob_rounds_ok o oo k1 k2 k3 k4 R A Hks mss (msgs_all_ok mw _ Hm) x0) as [E W] end.
    { unfold bwf. repeat split; wf_tac. }
    rewrite E. cbn [obind].
    destruct (b_rounds o k1 k2 k3 k4 _ _) as [[[xa xb] xc] xd]. destruct W as (Wa & Wb & Wc & Wd).
    unfold t4_0, t4_1, t4_2, t4_3. cbn [fst snd]. repeat bstep.
    rewrite Hin by wf_tac. cbn [obind]. repeat bstep. rewrite Hin by wf_tac. reflexivity.
  Qed.

  Lemma ox_finalize_ok h : bytes_ok (kb * 4) (fst h) -> bytes_ok (kb * 4) (snd h) ->
    ox_finalize h = Ok (x_finalize o unpack wr_be h).
  Proof.
    intros H0 H1. destruct (Hun _ H0) as [W0 E0]. destruct (Hun _ H1) as [W1 E1].
    unfold ox_finalize, x_finalize. rewrite E0. cbn [obind]. rewrite (Hbe _ W0). cbn [obind].
    rewrite E1. cbn [obind]. rewrite (Hbe _ W1). reflexivity.
  Qed.
End OBlakeFull.

(** * (4) the seven block functions over an outcome machine, and: they return *)
Definition oxm_refill_narrow {m1 m2} (om1 : oxmachine m1) (om2 : oxmachine m2) (k : nat) (s : cstore)
  : outcome (list N * cstore) :=
  let* r := ox_refill_narrow_rounds _ (ox_v4 om1) (ox_n om1) k s in
  ox_refill_narrow_tail _ (ox_v4 om2) (ox_n om2) s r.
Definition oxm_refill_wide {m} (om : oxmachine m) : nat -> cstore -> outcome (list N * cstore) :=
  ox_refill_wide _ _ _ (ox_v4 om) (ox_v16 om) (ox_n om) (ox_d om) (ox_w om).
Definition oxm_f8 {m} (om : oxmachine m) : list (nat * (N * N)) -> list N -> list N -> outcome (list N) :=
  ox_f8 _ (ox_j om) (ox_u om).
Definition oxm_put_block32 {m} (om : oxmachine m) (h : list N * list N) (block : list N) (t : N * N) :=
  ox_put_block_words _ (ox_v4 om) 16 12 8 7 Blake.BLAKE256_U 14 (o4_unpack (ox_n om)) (o4_into (ox_n om))
    h (Blake.read_words_be 4 block) t.
Definition oxm_put_block64 {m} (om : oxmachine m) (h : list N * list N) (block : list N) (t : N * N) :=
  ox_put_block_words _ (ox_q4 om) 32 25 16 11 Blake.BLAKE512_U 16 (oh_unpack (ox_h om)) (oh_into (ox_h om))
    h (Blake.read_words_be 8 block) t.
Definition oxm_finalize32 {m} (om : oxmachine m) := ox_finalize _ (o4_unpack (ox_n om)) (o4_write_be (ox_n om)).
Definition oxm_finalize64 {m} (om : oxmachine m) := ox_finalize _ (oh_unpack (ox_h om)) (oh_write_be (ox_h om)).

Theorem refill_narrow_returns : forall m1 m2 (om1 : oxmachine m1) (om2 : oxmachine m2),
  xmachine_refines m1 -> xmachine_refines m2 -> oxm_agree m1 om1 -> oxm_agree m2 om2 ->
  forall k s, cstore_ok s -> oxm_refill_narrow om1 om2 k s = Ok (x_refill_narrow m1 m2 k s).
Proof.
  intros m1 m2 om1 om2 X1 X2 A1 A2 k s Hs. unfold oxm_refill_narrow, x_refill_narrow.
  destruct (xr_base _ X1) as (R1 & _). destruct (xr_base _ X2) as (R2 & _).
  destruct (ox_refill_narrow_rounds_ok _ (xm_n m1) (ox_v4 om1) (ox_n om1) R1 (xr_n _ X1) (ag_v4 _ _ A1) (ag_n _ _ A1) k s Hs)
    as [E (B0 & B1 & B2 & B3)].
  rewrite E. cbn [obind].
  exact (ox_refill_narrow_tail_ok _ (xm_n m2) (ox_v4 om2) (ox_n om2) R2 (xr_n _ X2) (ag_v4 _ _ A2) (ag_n _ _ A2) s _ Hs B0 B1 B2 B3).
Qed.

Theorem refill_wide_returns : forall m (om : oxmachine m), xmachine_refines m -> oxm_agree m om ->
  forall k s, cstore_ok s -> oxm_refill_wide om k s = Ok (xm_refill_wide m k s).
Proof.
  intros m om X A k s Hs. destruct (xr_base _ X) as (R4 & R16 & _).
  exact (ox_refill_wide_ok _ _ (xm_n m) (xm_d m) (xm_w m) _ _ _ _ _ R4 R16 (xr_n _ X) (xr_d _ X) (xr_w _ X)
           (ag_v4 _ _ A) (ag_v16 _ _ A) (ag_n _ _ A) (ag_d _ _ A) (ag_w _ _ A) k s Hs).
Qed.

Theorem f8_returns : forall m (om : oxmachine m), xmachine_refines m -> oxm_agree m om ->
  forall state data, bytes_ok 128 state -> bytes_ok 64 data ->
    oxm_f8 om e8_sched state data = Ok (xm_f8 m e8_sched state data).
Proof.
  intros m om X A state data Hst Hd. destruct (xr_base _ X) as (_ & _ & _ & RJ).
  exact (ox_f8_ok _ (xm_u m) _ _ RJ (xr_u _ X) (ag_j _ _ A) (ag_u _ _ A) e8_sched state data e8_sched_ok Hst Hd).
Qed.

Theorem put_block32_returns : forall m (om : oxmachine m), xmachine_refines m -> oxm_agree m om ->
  forall h block t0 t1, bytes_ok 16 (fst h) -> bytes_ok 16 (snd h) -> Forall is_byte block ->
    t0 < 2 ^ 32 -> t1 < 2 ^ 32 ->
    oxm_put_block32 om h block (t0, t1) = Ok (xm_put_block32 m h block (t0, t1)).
Proof.
  intros m om X A h block t0 t1 H0 H1 Hb Ht0 Ht1. destruct (xr_base _ X) as (R4 & _).
  pose proof (xr_n _ X) as NR. pose proof (ag_n _ _ A) as AN.
  unfold oxm_put_block32, xm_put_block32.
  apply (ox_put_block_words_ok (m_u32x4 (xm_base m)) (ox_v4 om) 4 ks32 16 12 8 7 Blake.BLAKE256_U 14
           (v4_unpack (xm_n m)) (v4_into (xm_n m)) (o4_unpack (ox_n om)) (o4_into (ox_n om))
           R4 (ag_v4 _ _ A) incl_blake32_ks32); try assumption.
  - intros st Hst. split; [exact (proj1 (nr_unpack _ _ NR st Hst)) | exact (a4_unpack _ _ _ AN st Hst)].
  - exact (a4_into _ _ _ AN).
  - exact U256_ok.
  - exact (read_words_be_lt 4 block Hb).
Qed.

Theorem put_block64_returns : forall m (om : oxmachine m), xmachine_refines m -> oxm_agree m om ->
  forall h block t0 t1, bytes_ok 32 (fst h) -> bytes_ok 32 (snd h) -> Forall is_byte block ->
    t0 < 2 ^ 64 -> t1 < 2 ^ 64 ->
    oxm_put_block64 om h block (t0, t1) = Ok (xm_put_block64 m h block (t0, t1)).
Proof.
  intros m om X A h block t0 t1 H0 H1 Hb Ht0 Ht1. destruct (xr_base _ X) as (_ & _ & R64 & _).
  pose proof (xr_h _ X) as HR. pose proof (ag_h _ _ A) as AH.
  unfold oxm_put_block64, xm_put_block64.
  apply (ox_put_block_words_ok (m_u64x4 (xm_base m)) (ox_q4 om) 8 ks64 32 25 16 11 Blake.BLAKE512_U 16
           (d4_unpack (xm_h m)) (d4_into (xm_h m)) (oh_unpack (ox_h om)) (oh_into (ox_h om))
           R64 (ag_q4 _ _ A) incl_blake64_ks64); try assumption.
  - intros st Hst. split; [exact (proj1 (hr_unpack _ _ HR st Hst)) | exact (ah_unpack _ _ _ AH st Hst)].
  - exact (ah_into _ _ _ AH).
  - exact U512_ok.
  - exact (read_words_be_lt 8 block Hb).
Qed.

Theorem finalize_returns : forall m (om : oxmachine m), xmachine_refines m -> oxm_agree m om ->
  (forall h, bytes_ok 16 (fst h) -> bytes_ok 16 (snd h) -> oxm_finalize32 om h = Ok (xm_finalize32 m h)) /\
  (forall h, bytes_ok 32 (fst h) -> bytes_ok 32 (snd h) -> oxm_finalize64 om h = Ok (xm_finalize64 m h)).
Proof.
  intros m om X A. pose proof (xr_n _ X) as NR. pose proof (ag_n _ _ A) as AN.
  pose proof (xr_h _ X) as HR. pose proof (ag_h _ _ A) as AH. split; intros h H0 H1.
  - apply (ox_finalize_ok (m_u32x4 (xm_base m)) 4 (v4_unpack (xm_n m)) (v4_write_be (xm_n m))
             (o4_unpack (ox_n om)) (o4_write_be (ox_n om))); try assumption.
    + intros st Hst. split; [exact (proj1 (nr_unpack _ _ NR st Hst)) | exact (a4_unpack _ _ _ AN st Hst)].
    + exact (a4_write_be _ _ _ AN).
  - apply (ox_finalize_ok (m_u64x4 (xm_base m)) 8 (d4_unpack (xm_h m)) (d4_write_be (xm_h m))
             (oh_unpack (ox_h om)) (oh_write_be (ox_h om))); try assumption.
    + intros st Hst. split; [exact (proj1 (hr_unpack _ _ HR st Hst)) | exact (ah_unpack _ _ _ AH st Hst)].
    + exact (ah_write_be _ _ _ AH).
Qed.

(** * (5) the six real back ends as outcome machines: the portable one with its raw calls, the x86
        ones (total intrinsic-level models) wrapped in [Ok] *)
Definition oxm_of_type (p : profile) (t : mtype) : oxmachine (xmachine_of_type p t) :=
  match t return oxmachine (xmachine_of_type p t) with
  | TGeneric => generic_oxm p
  | TSse s3 s4 => total_oxm _
  | TAvx2 => total_oxm _
  end.
Definition real_oxm (p : profile) (b : backend) : oxmachine (real_xinst p b) := oxm_of_type p (type_of b).

Lemma real_oxm_agree p b : oxm_agree _ (real_oxm p b).
Proof.
  unfold real_oxm, real_xinst. destruct (type_of b); cbn [oxm_of_type xmachine_of_type].
  - apply generic_fields_return. - apply total_oxm_agree. - apply total_oxm_agree.
Qed.

Lemma real_oxm_generic p : real_oxm p Generic = generic_oxm p.
Proof. reflexivity. Qed.

(** "no back end panics where another returns": on every back-end name, in every build profile, each
    of the seven block functions, run in the outcome monad over the back end's own calls, returns
    [Ok], and the value is the executable model's (hence, by C01/C04/C06, the specification's) *)
Theorem real_blocks_return : forall p,
  (forall b1 b2 k s, cstore_ok s ->
     oxm_refill_narrow (real_oxm p b1) (real_oxm p b2) k s =
     Ok (fst (ChaChaGuts.refill (cc_of s) k), store_of (snd (ChaChaGuts.refill (cc_of s) k)))) /\
  (forall b k s, cstore_ok s ->
     oxm_refill_wide (real_oxm p b) k s =
     Ok (fst (ChaChaGuts.refill_wide (cc_of s) k), store_of (snd (ChaChaGuts.refill_wide (cc_of s) k)))) /\
  (forall b state data, bytes_ok 128 state -> bytes_ok 64 data ->
     oxm_f8 (real_oxm p b) e8_sched state data = Ok (JH.m_f8 state data)) /\
  (forall b h block t0 t1, bytes_ok 16 (fst h) -> bytes_ok 16 (snd h) -> Forall is_byte block ->
     t0 < 2 ^ 32 -> t1 < 2 ^ 32 ->
     oxm_put_block32 (real_oxm p b) h block (t0, t1) = Ok (h_bytes 4 (Blake.put_block32 (h_words 4 h) block (t0, t1)))) /\
  (forall b h block t0 t1, bytes_ok 32 (fst h) -> bytes_ok 32 (snd h) -> Forall is_byte block ->
     t0 < 2 ^ 64 -> t1 < 2 ^ 64 ->
     oxm_put_block64 (real_oxm p b) h block (t0, t1) = Ok (h_bytes 8 (Blake.put_block64 (h_words 8 h) block (t0, t1)))) /\
  (forall b h, bytes_ok 16 (fst h) -> bytes_ok 16 (snd h) ->
     oxm_finalize32 (real_oxm p b) h = Ok (Blake.compressor_finalize 4 (h_words 4 h))) /\
  (forall b h, bytes_ok 32 (fst h) -> bytes_ok 32 (snd h) ->
     oxm_finalize64 (real_oxm p b) h = Ok (Blake.compressor_finalize 8 (h_words 8 h))).
Proof.
  intros p. repeat apply conj.
  - intros b1 b2 k s Hs.
    rewrite (refill_narrow_returns _ _ _ _ (real_xinst_refines p b1) (real_xinst_refines p b2)
               (real_oxm_agree p b1) (real_oxm_agree p b2) k s Hs).
    now rewrite (real_refill_narrow_is_model p b1 b2 k s Hs).
  - intros b k s Hs.
    rewrite (refill_wide_returns _ _ (real_xinst_refines p b) (real_oxm_agree p b) k s Hs).
    now rewrite (real_refill_wide_is_model p b k s Hs).
  - intros b state data Hst Hd.
    rewrite (f8_returns _ _ (real_xinst_refines p b) (real_oxm_agree p b) state data Hst Hd).
    now rewrite (real_f8_is_model p b state data Hst Hd).
  - intros b h block t0 t1 H0 H1 Hb Ht0 Ht1.
    rewrite (put_block32_returns _ _ (real_xinst_refines p b) (real_oxm_agree p b) h block t0 t1 H0 H1 Hb Ht0 Ht1).
    now rewrite (real_put_block32_is_model p b h block t0 t1 H0 H1 Hb Ht0 Ht1).
  - intros b h block t0 t1 H0 H1 Hb Ht0 Ht1.
    rewrite (put_block64_returns _ _ (real_xinst_refines p b) (real_oxm_agree p b) h block t0 t1 H0 H1 Hb Ht0 Ht1).
    now rewrite (real_put_block64_is_model p b h block t0 t1 H0 H1 Hb Ht0 Ht1).
  - intros b h H0 H1.
    rewrite (proj1 (finalize_returns _ _ (real_xinst_refines p b) (real_oxm_agree p b)) h H0 H1).
    now rewrite (real_finalize32_is_model p b h H0 H1).
  - intros b h H0 H1.
    rewrite (proj2 (finalize_returns _ _ (real_xinst_refines p b) (real_oxm_agree p b)) h H0 H1).
    now rewrite (real_finalize64_is_model p b h H0 H1).
Qed.

(** the portable back end alone, stated over [generic_oxm p] (its raw calls), both profiles *)
Theorem portable_blocks_return : forall p,
  (forall k s, cstore_ok s ->
     oxm_refill_narrow (generic_oxm p) (generic_oxm p) k s =
     Ok (fst (ChaChaGuts.refill (cc_of s) k), store_of (snd (ChaChaGuts.refill (cc_of s) k)))) /\
  (forall k s, cstore_ok s ->
     oxm_refill_wide (generic_oxm p) k s =
     Ok (fst (ChaChaGuts.refill_wide (cc_of s) k), store_of (snd (ChaChaGuts.refill_wide (cc_of s) k)))) /\
  (forall state data, bytes_ok 128 state -> bytes_ok 64 data ->
     oxm_f8 (generic_oxm p) e8_sched state data = Ok (JH.m_f8 state data)) /\
  (forall h block t0 t1, bytes_ok 16 (fst h) -> bytes_ok 16 (snd h) -> Forall is_byte block ->
     t0 < 2 ^ 32 -> t1 < 2 ^ 32 ->
     oxm_put_block32 (generic_oxm p) h block (t0, t1) = Ok (h_bytes 4 (Blake.put_block32 (h_words 4 h) block (t0, t1)))) /\
  (forall h block t0 t1, bytes_ok 32 (fst h) -> bytes_ok 32 (snd h) -> Forall is_byte block ->
     t0 < 2 ^ 64 -> t1 < 2 ^ 64 ->
     oxm_put_block64 (generic_oxm p) h block (t0, t1) = Ok (h_bytes 8 (Blake.put_block64 (h_words 8 h) block (t0, t1)))) /\
  (forall h, bytes_ok 16 (fst h) -> bytes_ok 16 (snd h) ->
     oxm_finalize32 (generic_oxm p) h = Ok (Blake.compressor_finalize 4 (h_words 4 h))) /\
  (forall h, bytes_ok 32 (fst h) -> bytes_ok 32 (snd h) ->
     oxm_finalize64 (generic_oxm p) h = Ok (Blake.compressor_finalize 8 (h_words 8 h))).
Proof.
  intros p. destruct (real_blocks_return p) as (H1 & H2 & H3 & H4 & H5 & H6 & H7).
  repeat apply conj.
  - exact (H1 Generic Generic). - exact (H2 Generic). - exact (H3 Generic). - exact (H4 Generic).
  - exact (H5 Generic). - exact (H6 Generic). - exact (H7 Generic).
Qed.

(** non-vacuity: the outcome machine really can panic - outside the domain a raw call panics (and
    then so does the block function), while the projected pure field silently returns its filler *)
Example portable_calls_can_panic :
  g_extract [1; 2; 3; 4] 4 = Panic /\
  v4_extract (xm_n (generic_xm Debug)) [1; 2; 3; 4] 4 = 0 /\
  o4_read_le (ox_n (generic_oxm Debug)) [1; 2; 3] = Panic /\
  o4_insert (ox_n (generic_oxm Release)) [1; 2; 3] 5 3 = Panic /\
  oxm_refill_narrow (generic_oxm Release) (generic_oxm Release) 1 (CSt [1; 2; 3] [] []) = Panic /\
  x_refill_narrow (generic_xm Release) (generic_xm Release) 1 (CSt [1; 2; 3] [] []) <> ([], CSt [] [] []).
Proof. repeat apply conj; vm_compute; try reflexivity. discriminate. Qed.

(** and it runs: the outcome form on the sample store (counter 2^64 - 1) returns the model's block *)
Example portable_outcome_runs :
  oxm_refill_narrow (generic_oxm Debug) (generic_oxm Release) 10 sample_store =
  Ok (fst (ChaChaGuts.refill (cc_of sample_store) 10), store_of (snd (ChaChaGuts.refill (cc_of sample_store) 10))).
Proof. vm_compute. reflexivity. Qed.

Print Assumptions generic_fields_return.
Print Assumptions refill_narrow_returns.
Print Assumptions refill_wide_returns.
Print Assumptions f8_returns.
Print Assumptions put_block32_returns.
Print Assumptions put_block64_returns.
Print Assumptions finalize_returns.
Print Assumptions real_blocks_return.
Print Assumptions portable_blocks_return.
Print Assumptions portable_calls_can_panic.
