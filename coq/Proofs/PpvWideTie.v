(** C12/C13 (audit finding F1, second half): the x86 model carries its own executable copy of the
    soft.rs wrappers (Model/PpvSse.v, Section Soft: [xn_unop], [xn_binop], [xn_extract],
    [xn_insert], [xn_to_lanes], [xn_from_lanes], [x4_transpose4], [x2_read], [x2_write],
    [x4_read], [x4_write], and [x2_unpack], [x4_unpack], [xn_into_storage]). Here every one of
    them is proved equal to the corresponding definition of the soft.rs model
    (Model/PpvSoft.v, the one the parametric theorems C12g_x2_forwards / C13g_* are about)
    instantiated at the register element type, for EVERY element method. The two models use
    two copies of the [outcome] type; [o2s] is the obvious conversion. With these equalities
    the x86 wide theorems (Proofs/PpvWideSse.v, PpvWideAvx2.v, PpvWideMove.v) are statements
    about the soft.rs model, and the assign macros (Model/PpvSoftAssign.v) get their x86
    lane meaning. *)
From Coq Require Import NArith List Bool Arith Lia.
From CC Require Import Lib.Words Lib.Bytes Lib.ListX Model.Intrinsics Model.PpvSse Model.PpvAvx2 Spec.Lanes.
From CC Require Model.PpvSoft Model.PpvSoftAssign.
From CC Require Import Proofs.PpvWideLift Proofs.PpvWideSse Proofs.PpvWideAvx2.
Import ListNotations.
Local Open Scope N_scope.

(** x86-model outcome -> soft.rs-model outcome *)
Definition o2s {A} (o : outcome A) : PpvSoft.outcome A :=
  match o with Ok a => PpvSoft.Ok a | Panic => PpvSoft.Panic end.

Notation ok1 := PpvSoftAssign.ok1.
Notation ok2 := PpvSoftAssign.ok2.

Section Tie.
  Context {W : Type}.
  Variable d : W.

  (** fwd_unop / Not / BSwap / Swap64 / RotateEachWord / LaneWords4 *)
  Lemma x2_unop_tie (f : W -> W) v : length v = 2%nat ->
    PpvSoft.x2_unop d (ok1 f) v = PpvSoft.Ok (xn_unop f v).
  Proof. intros L. explode v. reflexivity. Qed.
  Lemma x4_unop_tie (f : W -> W) v : length v = 4%nat ->
    PpvSoft.x4_unop d (ok1 f) v = PpvSoft.Ok (xn_unop f v).
  Proof. intros L. explode v. reflexivity. Qed.
  (** fwd_binop *)
  Lemma x2_binop_tie (f : W -> W -> W) a b : length a = 2%nat -> length b = 2%nat ->
    PpvSoft.x2_binop d (ok2 f) a b = PpvSoft.Ok (xn_binop f a b).
  Proof. intros La Lb. explode a. explode b. reflexivity. Qed.
  Lemma x4_binop_tie (f : W -> W -> W) a b : length a = 4%nat -> length b = 4%nat ->
    PpvSoft.x4_binop d (ok2 f) a b = PpvSoft.Ok (xn_binop f a b).
  Proof. intros La Lb. explode a. explode b. reflexivity. Qed.
  (** fwd_binop_assign with the element assign [*self = self.f(rhs)] *)
  Lemma x2_assign_tie (f : W -> W -> W) a b : length a = 2%nat -> length b = 2%nat ->
    PpvSoftAssign.x2_binop_assign d (PpvSoftAssign.elem_assign (ok2 f)) a b = PpvSoft.Ok (xn_binop f a b).
  Proof. intros La Lb. explode a. explode b. reflexivity. Qed.
  Lemma x4_assign_tie (f : W -> W -> W) a b : length a = 4%nat -> length b = 4%nat ->
    PpvSoftAssign.x4_binop_assign d (PpvSoftAssign.elem_assign (ok2 f)) a b = PpvSoft.Ok (xn_binop f a b).
  Proof. intros La Lb. explode a. explode b. reflexivity. Qed.

  (** Vec2 / Vec4 *)
  Lemma xn_extract_tie (v : list W) i : o2s (xn_extract v i) = PpvSoft.xn_extract v i.
  Proof.
    unfold xn_extract, PpvSoft.xn_extract, PpvSoft.index.
    destruct (i <? N.of_nat (length v)); [|reflexivity]. now destruct (nth_error v (N.to_nat i)).
  Qed.
  Lemma xn_insert_tie (v : list W) w i : o2s (xn_insert v w i) = PpvSoft.xn_insert v w i.
  Proof.
    unfold xn_insert, PpvSoft.xn_insert, PpvSoft.store. now destruct (i <? N.of_nat (length v)).
  Qed.
  (** MultiLane / UnsafeFrom / transpose4 *)
  Lemma xn_lanes_tie (v : list W) :
    xn_to_lanes v = PpvSoft.xn_to_lanes v /\ xn_from_lanes v = PpvSoft.xn_from_lanes v.
  Proof. split; reflexivity. Qed.
  Lemma x4_transpose4_tie (a b c e : list W) :
    x4_transpose4 d a b c e = PpvSoft.x4_transpose4 d a b c e.
  Proof. reflexivity. Qed.

  (** StoreBytes *)
  Lemma x2_read_tie (rd : list N -> outcome W) bs :
    o2s (x2_read rd bs) = PpvSoft.x2_read (fun b => o2s (rd b)) bs.
  Proof.
    unfold x2_read, PpvSoft.x2_read. cbv zeta.
    destruct (rd (firstn (length bs / 2) bs)); [|reflexivity].
    now destruct (rd (skipn (length bs / 2) bs)).
  Qed.
  Lemma x4_read_tie (rd : list N -> outcome W) bs :
    o2s (x4_read rd bs) = PpvSoft.x4_read (fun b => o2s (rd b)) bs.
  Proof.
    unfold x4_read, PpvSoft.x4_read. cbv zeta. set (n := Nat.div (length bs) 4).
    destruct (rd (firstn n bs)); [|reflexivity].
    destruct (rd (firstn n (skipn n bs))); [|reflexivity].
    destruct (rd (firstn n (skipn (2 * n) bs))); [|reflexivity].
    now destruct (rd (skipn (3 * n) bs)).
  Qed.
  Lemma x2_write_tie (wr : W -> nat -> outcome (list N)) v outlen :
    o2s (x2_write wr d v outlen) = PpvSoft.x2_write d (fun w n => o2s (wr w n)) v outlen.
  Proof.
    unfold x2_write, PpvSoft.x2_write. cbv zeta.
    destruct (wr (nth 0 v d) (outlen / 2)%nat); [|reflexivity].
    now destruct (wr (nth 1 v d) (outlen - outlen / 2)%nat).
  Qed.
  Lemma x4_write_tie (wr : W -> nat -> outcome (list N)) v outlen :
    o2s (x4_write wr d v outlen) = PpvSoft.x4_write d (fun w n => o2s (wr w n)) v outlen.
  Proof.
    unfold x4_write, PpvSoft.x4_write. cbv zeta. set (n := Nat.div outlen 4).
    destruct (wr (nth 0 v d) n); [|reflexivity].
    destruct (wr (nth 1 v d) n); [|reflexivity].
    destruct (wr (nth 2 v d) n); [|reflexivity].
    now destruct (wr (nth 3 v d) (outlen - 3 * n)%nat).
  Qed.
End Tie.

(** Store<vec256_storage> / Store<vec512_storage> and Into: on x86 the storage union is the byte
    image, [split128] cuts it into 16-byte parts ([split_regs]), [new128] concatenates;
    [W::unpack] / [W::into] are the identity on the register image *)
Lemma unpack_tie (st : list N) :
  PpvSoft.x2_unpack [] (ok1 sse_unpack) (split_regs 2 16 st) = PpvSoft.Ok (map sse_unpack (x2_unpack st)) /\
  PpvSoft.x4_unpack [] (ok1 sse_unpack) (split_regs 4 16 st) = PpvSoft.Ok (map sse_unpack (x4_unpack st)).
Proof. split; reflexivity. Qed.
Lemma into_tie (v : list reg) :
  (length v = 2%nat ->
   PpvSoft.omapo (@concat N) (PpvSoft.x2_into [] (ok1 sse_into_storage) v)
   = PpvSoft.Ok (xn_into_storage (map sse_into_storage v))) /\
  (length v = 4%nat ->
   PpvSoft.omapo (@concat N) (PpvSoft.x4_into [] (ok1 sse_into_storage) v)
   = PpvSoft.Ok (xn_into_storage (map sse_into_storage v))).
Proof. split; intros L; explode v; reflexivity. Qed.

(** all ties in one statement (pinned as C12_x86_soft_wrappers_agree / C13_x86_soft_wrappers_agree) *)
Theorem x86_soft_ops_agree (W : Type) (d : W) :
  (forall (f : W -> W) v, length v = 2%nat -> PpvSoft.x2_unop d (ok1 f) v = PpvSoft.Ok (xn_unop f v)) /\
  (forall (f : W -> W) v, length v = 4%nat -> PpvSoft.x4_unop d (ok1 f) v = PpvSoft.Ok (xn_unop f v)) /\
  (forall (f : W -> W -> W) a b, length a = 2%nat -> length b = 2%nat ->
     PpvSoft.x2_binop d (ok2 f) a b = PpvSoft.Ok (xn_binop f a b) /\
     PpvSoftAssign.x2_binop_assign d (PpvSoftAssign.elem_assign (ok2 f)) a b = PpvSoft.Ok (xn_binop f a b)) /\
  (forall (f : W -> W -> W) a b, length a = 4%nat -> length b = 4%nat ->
     PpvSoft.x4_binop d (ok2 f) a b = PpvSoft.Ok (xn_binop f a b) /\
     PpvSoftAssign.x4_binop_assign d (PpvSoftAssign.elem_assign (ok2 f)) a b = PpvSoft.Ok (xn_binop f a b)).
Proof.
  repeat split.
  - apply x2_unop_tie. - apply x4_unop_tie.
  - now apply x2_binop_tie. - now apply x2_assign_tie.
  - now apply x4_binop_tie. - now apply x4_assign_tie.
Qed.
Theorem x86_soft_moves_agree (W : Type) (d : W) :
  (forall (v : list W) i, o2s (xn_extract v i) = PpvSoft.xn_extract v i) /\
  (forall (v : list W) w i, o2s (xn_insert v w i) = PpvSoft.xn_insert v w i) /\
  (forall (v : list W), xn_to_lanes v = PpvSoft.xn_to_lanes v /\ xn_from_lanes v = PpvSoft.xn_from_lanes v) /\
  (forall (a b c e : list W), x4_transpose4 d a b c e = PpvSoft.x4_transpose4 d a b c e) /\
  (forall (rd : list N -> outcome W) bs,
     o2s (x2_read rd bs) = PpvSoft.x2_read (fun b => o2s (rd b)) bs /\
     o2s (x4_read rd bs) = PpvSoft.x4_read (fun b => o2s (rd b)) bs) /\
  (forall (wr : W -> nat -> outcome (list N)) v outlen,
     o2s (x2_write wr d v outlen) = PpvSoft.x2_write d (fun w n => o2s (wr w n)) v outlen /\
     o2s (x4_write wr d v outlen) = PpvSoft.x4_write d (fun w n => o2s (wr w n)) v outlen).
Proof.
  repeat split.
  - apply xn_extract_tie. - apply xn_insert_tie. - apply x2_read_tie. - apply x4_read_tie.
  - apply x2_write_tie. - apply x4_write_tie.
Qed.
Theorem x86_soft_storage_agree :
  (forall st : list N,
     PpvSoft.x2_unpack [] (ok1 sse_unpack) (split_regs 2 16 st) = PpvSoft.Ok (map sse_unpack (x2_unpack st)) /\
     PpvSoft.x4_unpack [] (ok1 sse_unpack) (split_regs 4 16 st) = PpvSoft.Ok (map sse_unpack (x4_unpack st))) /\
  (forall v : list reg,
     (length v = 2%nat ->
      PpvSoft.omapo (@concat N) (PpvSoft.x2_into [] (ok1 sse_into_storage) v)
      = PpvSoft.Ok (xn_into_storage (map sse_into_storage v))) /\
     (length v = 4%nat ->
      PpvSoft.omapo (@concat N) (PpvSoft.x4_into [] (ok1 sse_into_storage) v)
      = PpvSoft.Ok (xn_into_storage (map sse_into_storage v)))).
Proof. exact (conj unpack_tie into_tie). Qed.

(** * the assign forms of the x86 wide types: composed lane meaning.
    [+=] of u32x4x2/u32x4x4 (32-bit words) and u64x2x2/u64x4/u64x2x4 (64-bit words);
    [^=], [|=], [&=] of all seven wide types ([k] = bytes per word) *)
Theorem sse_wide_assign_lanewise k a b : In k [4; 8; 16]%nat ->
  (wide16 2 a -> wide16 2 b ->
   let asg f := PpvSoft.omapo (@concat N)
                  (PpvSoftAssign.x2_binop_assign [] (PpvSoftAssign.elem_assign (ok2 f)) a b) in
   asg u32x4_add = PpvSoft.Ok (bytes_le 4 (v_add 32 (words_le 4 (concat a)) (words_le 4 (concat b)))) /\
   asg u64x2_add = PpvSoft.Ok (bytes_le 8 (v_add 64 (words_le 8 (concat a)) (words_le 8 (concat b)))) /\
   asg sse_xor = PpvSoft.Ok (bytes_le k (v_xor (words_le k (concat a)) (words_le k (concat b)))) /\
   asg sse_or = PpvSoft.Ok (bytes_le k (v_or (words_le k (concat a)) (words_le k (concat b)))) /\
   asg sse_and = PpvSoft.Ok (bytes_le k (v_and (words_le k (concat a)) (words_le k (concat b))))) /\
  (wide16 4 a -> wide16 4 b ->
   let asg f := PpvSoft.omapo (@concat N)
                  (PpvSoftAssign.x4_binop_assign [] (PpvSoftAssign.elem_assign (ok2 f)) a b) in
   asg u32x4_add = PpvSoft.Ok (bytes_le 4 (v_add 32 (words_le 4 (concat a)) (words_le 4 (concat b)))) /\
   asg u64x2_add = PpvSoft.Ok (bytes_le 8 (v_add 64 (words_le 8 (concat a)) (words_le 8 (concat b)))) /\
   asg sse_xor = PpvSoft.Ok (bytes_le k (v_xor (words_le k (concat a)) (words_le k (concat b)))) /\
   asg sse_or = PpvSoft.Ok (bytes_le k (v_or (words_le k (concat a)) (words_le k (concat b)))) /\
   asg sse_and = PpvSoft.Ok (bytes_le k (v_and (words_le k (concat a)) (words_le k (concat b))))).
Proof.
  intros Hk. split; intros Ha Hb asg; subst asg; cbv beta;
    destruct (sse_wide_add_lanewise _ a b Ha Hb) as [A32 A64];
    destruct (sse_wide_bitops_lanewise k _ a b Hk Ha Hb) as (X & A & O & _ & _);
    pose proof (proj1 Ha) as La; pose proof (proj1 Hb) as Lb.
  - rewrite !(fun f => x2_assign_tie [] f a b La Lb). cbn [PpvSoft.omapo].
    repeat split; apply f_equal; assumption.
  - rewrite !(fun f => x4_assign_tie [] f a b La Lb). cbn [PpvSoft.omapo].
    repeat split; apply f_equal; assumption.
Qed.
(** u32x4x4_avx2 = x2<u32x4x2_avx2, G0>: [+=], [^=], [|=], [&=] *)
Theorem avx2_wide_assign_lanewise a b : wide32 2 a -> wide32 2 b ->
  let asg f := PpvSoft.omapo (@concat N)
                 (PpvSoftAssign.x2_binop_assign [] (PpvSoftAssign.elem_assign (ok2 f)) a b) in
  asg avx2_add = PpvSoft.Ok (bytes_le 4 (v_add 32 (words_le 4 (concat a)) (words_le 4 (concat b)))) /\
  asg avx2_xor = PpvSoft.Ok (bytes_le 4 (v_xor (words_le 4 (concat a)) (words_le 4 (concat b)))) /\
  asg avx2_or = PpvSoft.Ok (bytes_le 4 (v_or (words_le 4 (concat a)) (words_le 4 (concat b)))) /\
  asg avx2_and = PpvSoft.Ok (bytes_le 4 (v_and (words_le 4 (concat a)) (words_le 4 (concat b)))).
Proof.
  intros Ha Hb asg; subst asg; cbv beta.
  pose proof (avx2_wide_add_lanewise _ a b Ha Hb) as A32.
  destruct (avx2_wide_bitops_lanewise _ a b Ha Hb) as (X & A & O & _ & _).
  rewrite !(fun f => x2_assign_tie [] f a b (proj1 Ha) (proj1 Hb)). cbn [PpvSoft.omapo].
  repeat split; apply f_equal; assumption.
Qed.
