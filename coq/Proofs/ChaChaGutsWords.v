(** Word- and byte-level lemmas for Model/ChaChaGuts.v: u32x4 <-> u64x2 views, the 64-bit
    block counter in words 0,1 of [d] ([pos64], [set_pos], [d0123], [add_pos]). *)
From Coq Require Import NArith List Lia Arith Bool ZArith ZifyBool ZifyN.
From CC Require Import Lib.Words Lib.Bytes Lib.ListX Spec.Lanes Model.ChaChaGuts.
Import ListNotations.
Local Open Scope N_scope.
Ltac Zify.zify_post_hook ::= Z.div_mod_to_equations.

Lemma le_join_app x y : le_join (x ++ y) = le_join x + 2 ^ (8 * N.of_nat (length x)) * le_join y.
Proof.
  induction x as [|b r IH]; [cbn [app length le_join]; change (2 ^ (8 * N.of_nat 0)) with 1; lia|].
  cbn [app length le_join]. rewrite IH, !N.shiftl_mul_pow2.
  replace (8 * N.of_nat (S (length r))) with (8 * N.of_nat (length r) + 8) by lia.
  rewrite N.pow_add_r. lia.
Qed.

Lemma le_join_split_mod n x : le_join (le_split n x) = x mod 2 ^ (8 * N.of_nat n).
Proof.
  revert x. induction n as [|k IH]; intro x.
  - cbn. now rewrite N.mod_1_r.
  - cbn [le_split le_join]. rewrite IH, land_255, shiftr_8, shiftl_8.
    replace (8 * N.of_nat (S k)) with (8 + 8 * N.of_nat k) by lia.
    rewrite N.pow_add_r. change (2 ^ 8) with 256.
    rewrite N.mod_mul_r by (try apply pow2_nz; discriminate).
    f_equal. apply N.mul_comm.
Qed.

Lemma le_split_app n m x : le_split (n + m) x = le_split n x ++ le_split m (N.shiftr x (8 * N.of_nat n)).
Proof.
  revert x. induction n as [|k IH]; intro x.
  - cbn [plus le_split app]. now rewrite N.shiftr_0_r.
  - cbn [plus le_split app]. rewrite IH. f_equal. f_equal.
    rewrite N.shiftr_shiftr. replace (8 * N.of_nat (S k)) with (8 + 8 * N.of_nat k) by (rewrite Nat2N.inj_succ; lia). reflexivity.
Qed.

(** u32x4 <-> u64x2 views *)
Lemma reinterpret_4_8 a b c d : a < 2^32 -> b < 2^32 -> c < 2^32 -> d < 2^32 ->
  reinterpret 4 8 [a; b; c; d] = [a + 2^32 * b; c + 2^32 * d].
Proof.
  intros Ha Hb Hc Hd. unfold reinterpret.
  change (words_le 8 (bytes_le 4 [a; b; c; d])) with
    [le_join (le_split 4 a ++ le_split 4 b); le_join (le_split 4 c ++ le_split 4 d)].
  rewrite !le_join_app, !le_split_length, !le_join_split_mod.
  change (2 ^ (8 * N.of_nat 4)) with (2^32).
  rewrite !N.mod_small by assumption. reflexivity.
Qed.

Lemma reinterpret_8_4 x y :
  reinterpret 8 4 [x; y] = [x mod 2^32; (x / 2^32) mod 2^32; y mod 2^32; (y / 2^32) mod 2^32].
Proof.
  unfold reinterpret.
  change (words_le 4 (bytes_le 8 [x; y])) with
    [le_join (le_split 4 x); le_join (le_split 4 (N.shiftr x 32));
     le_join (le_split 4 y); le_join (le_split 4 (N.shiftr y 32))].
  rewrite !le_join_split_mod, !N.shiftr_div_pow2. reflexivity.
Qed.

Definition w32 (x : N) : Prop := x < 2 ^ 32.
Definition wf4 (l : list N) : Prop := length l = 4%nat /\ Forall w32 l.
Definition wf (s : chacha) : Prop := wf4 (cb s) /\ wf4 (cc s) /\ wf4 (cd s).

Lemma wf4_inv l : wf4 l -> exists a b c d, l = [a; b; c; d] /\ a < 2^32 /\ b < 2^32 /\ c < 2^32 /\ d < 2^32.
Proof.
  intros [Hl Hf].
  destruct l as [|a [|b [|c [|d [|e r]]]]]; try discriminate Hl.
  exists a, b, c, d.
  repeat match goal with H : Forall _ (_ :: _) |- _ => inversion H; clear H; subst end.
  repeat split; assumption.
Qed.

Lemma reinterpret_8_4_x4 x0 y0 x1 y1 x2 y2 x3 y3 :
  reinterpret 8 4 [x0; y0; x1; y1; x2; y2; x3; y3] =
  [x0 mod 2^32; (x0 / 2^32) mod 2^32; y0 mod 2^32; (y0 / 2^32) mod 2^32;
   x1 mod 2^32; (x1 / 2^32) mod 2^32; y1 mod 2^32; (y1 / 2^32) mod 2^32;
   x2 mod 2^32; (x2 / 2^32) mod 2^32; y2 mod 2^32; (y2 / 2^32) mod 2^32;
   x3 mod 2^32; (x3 / 2^32) mod 2^32; y3 mod 2^32; (y3 / 2^32) mod 2^32].
Proof.
  unfold reinterpret.
  change (words_le 4 (bytes_le 8 [x0; y0; x1; y1; x2; y2; x3; y3])) with
    [le_join (le_split 4 x0); le_join (le_split 4 (N.shiftr x0 32));
     le_join (le_split 4 y0); le_join (le_split 4 (N.shiftr y0 32));
     le_join (le_split 4 x1); le_join (le_split 4 (N.shiftr x1 32));
     le_join (le_split 4 y1); le_join (le_split 4 (N.shiftr y1 32));
     le_join (le_split 4 x2); le_join (le_split 4 (N.shiftr x2 32));
     le_join (le_split 4 y2); le_join (le_split 4 (N.shiftr y2 32));
     le_join (le_split 4 x3); le_join (le_split 4 (N.shiftr x3 32));
     le_join (le_split 4 y3); le_join (le_split 4 (N.shiftr y3 32))].
  rewrite !le_join_split_mod, !N.shiftr_div_pow2. reflexivity.
Qed.

(** the 64-bit counter held in words 0,1 *)
Definition ctr_of (d : list N) : N := nth 0 d 0 + 2 ^ 32 * nth 1 d 0.

Lemma lor_shiftl_add h l : l < 2 ^ 32 -> N.lor (N.shiftl h 32) l = l + 2 ^ 32 * h.
Proof.
  intros Hl. rewrite <- N.lxor_lor, <- N.add_nocarry_lxor, N.shiftl_mul_pow2; try lia.
  all: apply N.bits_inj; intro i; rewrite N.land_spec, testbit_shiftl, N.bits_0;
    destruct (N.leb_spec 32 i) as [H|H]; [|reflexivity];
    rewrite (testbit_high 32 l i Hl H); apply andb_false_r.
Qed.

Lemma pos64_ctr s : wf4 (cd s) -> pos64 s = ctr_of (cd s).
Proof.
  intros H. destruct (wf4_inv _ H) as (a & b & c & d & E & Ha & Hb & Hc & Hd).
  unfold pos64, ctr_of. rewrite E. cbn [nth]. now apply lor_shiftl_add.
Qed.

Lemma set_pos_words a b c d p :
  set_pos [a; b; c; d] p = [p mod 2^32; (p / 2^32) mod 2^32; c; d].
Proof. unfold set_pos. cbn [upd]. now rewrite !wrap_mod, N.shiftr_div_pow2. Qed.

Lemma ctr_lt a b : a < 2^32 -> b < 2^32 -> a + 2^32 * b < 2^64.
Proof. intros. change (2^64) with (2^32 * 2^32). nia. Qed.

(** [d0123]: lane i carries counter + i (mod 2^64) in words 0,1; words 2,3 untouched *)
Lemma d0123_lanes d : wf4 d ->
  d0123 d = set_pos d (wrap 64 (ctr_of d + 0)) ++ set_pos d (wrap 64 (ctr_of d + 1)) ++
            set_pos d (wrap 64 (ctr_of d + 2)) ++ set_pos d (wrap 64 (ctr_of d + 3)).
Proof.
  intros H. destruct (wf4_inv _ H) as (a & b & c & e & -> & Ha & Hb & Hc & He).
  unfold d0123, ctr_of. cbn [nth]. rewrite reinterpret_4_8 by assumption.
  cbn [app v_add map2]. rewrite reinterpret_8_4_x4, !set_pos_words.
  unfold addw. rewrite !wrap_mod.
  pose proof (ctr_lt c e Hc He) as Hy. rewrite !N.add_0_r.
  rewrite (N.mod_small (c + 2^32 * e)) by assumption.
  assert (Ec : (c + 2^32 * e) mod 2^32 = c).
  { rewrite N.mul_comm, N.mod_add by discriminate. now apply N.mod_small. }
  assert (Ee : ((c + 2^32 * e) / 2^32) mod 2^32 = e).
  { rewrite N.mul_comm, N.div_add by discriminate. rewrite (N.div_small c) by assumption. now apply N.mod_small. }
  rewrite Ec, Ee. reflexivity.
Qed.

Lemma add_pos_set_pos d i : wf4 d -> add_pos d i = set_pos d (wrap 64 (ctr_of d + i)).
Proof.
  intros H. destruct (wf4_inv _ H) as (a & b & c & e & -> & Ha & Hb & Hc & He).
  unfold add_pos, ctr_of. cbn [nth]. rewrite reinterpret_4_8 by assumption.
  cbn [v_add map2]. rewrite reinterpret_8_4, set_pos_words.
  unfold addw. rewrite !wrap_mod.
  pose proof (ctr_lt c e Hc He) as Hy. rewrite (N.add_0_r (c + _)).
  rewrite (N.mod_small (c + 2^32 * e)) by assumption.
  assert (Ec : (c + 2^32 * e) mod 2^32 = c).
  { rewrite N.mul_comm, N.mod_add by discriminate. now apply N.mod_small. }
  assert (Ee : ((c + 2^32 * e) / 2^32) mod 2^32 = e).
  { rewrite N.mul_comm, N.div_add by discriminate. rewrite (N.div_small c) by assumption. now apply N.mod_small. }
  rewrite Ec, Ee. reflexivity.
Qed.

Lemma set_pos_wf d p : wf4 d -> wf4 (set_pos d p).
Proof.
  intros H. destruct (wf4_inv _ H) as (a & b & c & e & -> & Ha & Hb & Hc & He).
  rewrite set_pos_words. split; [reflexivity|].
  repeat constructor; try assumption; apply N.mod_lt; discriminate.
Qed.

Lemma ctr_set_pos d p : wf4 d -> p < 2^64 -> ctr_of (set_pos d p) = p.
Proof.
  intros H Hp. destruct (wf4_inv _ H) as (a & b & c & e & -> & Ha & Hb & Hc & He).
  rewrite set_pos_words. unfold ctr_of. cbn [nth].
  rewrite (N.mod_small (p / 2^32)).
  - rewrite N.add_comm. symmetry. apply N.div_mod. discriminate.
  - apply N.div_lt_upper_bound; [discriminate|]. exact Hp.
Qed.

Lemma set_pos_set_pos d p q : wf4 d -> set_pos (set_pos d p) q = set_pos d q.
Proof.
  intros H. destruct (wf4_inv _ H) as (a & b & c & e & -> & Ha & Hb & Hc & He).
  now rewrite !set_pos_words.
Qed.

Lemma wrap64_add_l x y : wrap 64 (wrap 64 x + y) = wrap 64 (x + y).
Proof. rewrite !wrap_mod. apply N.add_mod_idemp_l. discriminate. Qed.
