(** Proofs about [Model/Hasher.v]: chunking, histories on instance tables, cloning, reset.
    Everything is parametric in the hasher record (state, closure, finalisation, block
    size, eager or lazy buffering) subject to [hasher_ok]. *)
From Coq Require Import NArith List Arith Lia Bool.
From CC Require Import Lib.Words Lib.Bytes Lib.ListX Model.BlockBuffer Model.Hasher
  Proofs.BlockBufferLazy Proofs.BlockBufferEager.
Import ListNotations.

(** What the theorems need from the parameters:
    - the block size is positive;
    - [h_pre] (JH's [datalen += data.len()], the identity elsewhere) is additive in the
      length, does nothing to the initial state for length 0, and commutes with the
      per-block closure;
    - the finalisation does not look at stale buffer bytes at or beyond the position. *)
Record hasher_ok {st digest} (h : hasher st digest) : Prop := {
  ok_size : 0 < h_size h;
  ok_pre_init : h_pre h (h_init h) 0 = h_init h;
  ok_pre_add : forall s a b, h_pre h (h_pre h s a) b = h_pre h s (a + b);
  ok_pre_step : forall s n blk, h_step h (h_pre h s n) blk = h_pre h (h_step h s blk) n;
  ok_fin_eqv : forall s b b', bb_wf b -> bb_eqv b b' -> h_fin h s b = h_fin h s b' }.

(** * the two buffering disciplines, uniformly *)
Definition bb_count (lazy : bool) : nat -> nat -> nat :=
  if lazy then lazy_count else eager_count.

Lemma bb_input_char lazy b input :
  bb_wf b ->
  let size := bb_size b in
  let all := bb_content b ++ input in
  let n := bb_count lazy size (length all) in
  snd (bb_input lazy b input) = take_blocks size n all
  /\ bb_size (fst (bb_input lazy b input)) = size
  /\ bb_pos (fst (bb_input lazy b input)) = length all - n * size
  /\ bb_content (fst (bb_input lazy b input)) = skipn (n * size) all.
Proof. destruct lazy; [apply input_lazy_char|apply input_block_char]. Qed.

Lemma bb_input_wf lazy b input : bb_wf b -> bb_wf (fst (bb_input lazy b input)).
Proof. destruct lazy; [apply input_lazy_wf|apply input_block_wf]. Qed.

Lemma bb_input_size lazy b input :
  bb_wf b -> bb_size (fst (bb_input lazy b input)) = bb_size b.
Proof. intros H. apply (bb_input_char lazy b input H). Qed.

Lemma bb_input_eqv lazy b b' input :
  bb_wf b -> bb_eqv b b' ->
  snd (bb_input lazy b input) = snd (bb_input lazy b' input)
  /\ bb_eqv (fst (bb_input lazy b input)) (fst (bb_input lazy b' input)).
Proof. destruct lazy; [apply input_lazy_eqv|apply input_block_eqv]. Qed.

Lemma bb_input_app lazy b a c :
  bb_wf b ->
  snd (bb_input lazy b (a ++ c))
  = snd (bb_input lazy b a) ++ snd (bb_input lazy (fst (bb_input lazy b a)) c)
  /\ bb_eqv (fst (bb_input lazy (fst (bb_input lazy b a)) c)) (fst (bb_input lazy b (a ++ c))).
Proof. destruct lazy; [apply input_lazy_app|apply input_block_app]. Qed.

Lemma bb_count_0 lazy size : bb_count lazy size 0 = 0.
Proof. destruct lazy; cbn [bb_count]; [apply lazy_count_small; lia|].
  unfold eager_count. destruct size; reflexivity. Qed.

Lemma bb_input_new_nil lazy size :
  0 < size -> snd (bb_input lazy (bb_new size) []) = []
              /\ bb_eqv (bb_new size) (fst (bb_input lazy (bb_new size) [])).
Proof.
  intros Hs. pose proof (bb_new_wf size Hs) as Hwf.
  destruct (bb_input_char lazy (bb_new size) [] Hwf) as (Ho & Hsz & Hp & Hc).
  assert (Ec : bb_content (bb_new size) = []) by reflexivity.
  rewrite Ec in Ho, Hp, Hc. cbn [app length] in Ho, Hp, Hc. rewrite bb_count_0 in Ho, Hp, Hc.
  split; [exact Ho|]. unfold bb_eqv. rewrite Hsz, Hp, Hc, Ec. repeat split.
Qed.

Section HasherProofs.
Context {st digest : Type}.
Variable h : hasher st digest.
Hypothesis Hok : hasher_ok h.

(** buffer invariant of an instance *)
Definition inst_wf (i : inst st) : Prop := bb_wf (i_buf i) /\ bb_size (i_buf i) = h_size h.
(** same state, same buffered bytes and position (stale buffer bytes may differ) *)
Definition inst_eqv (i i' : inst st) : Prop := i_st i = i_st i' /\ bb_eqv (i_buf i) (i_buf i').

Lemma inst_eqv_refl i : inst_eqv i i.
Proof. split; [reflexivity|apply bb_eqv_refl]. Qed.
Lemma inst_eqv_sym i i' : inst_eqv i i' -> inst_eqv i' i.
Proof. intros [A B]. split; [now symmetry|now apply bb_eqv_sym]. Qed.
Lemma inst_eqv_trans i1 i2 i3 : inst_eqv i1 i2 -> inst_eqv i2 i3 -> inst_eqv i1 i3.
Proof. intros [A B] [C D]. split; [congruence|eapply bb_eqv_trans; eassumption]. Qed.

Lemma inst_wf_eqv i i' : inst_wf i -> inst_eqv i i' -> inst_wf i'.
Proof.
  intros [[W1 W2] W3] [_ (E1 & E2 & _)]. unfold inst_wf, bb_wf. rewrite <- E1, <- E2. auto.
Qed.

Lemma new_wf : inst_wf (h_new h).
Proof.
  split; [apply bb_new_wf, Hok|]. unfold h_new, bb_new, bb_size. cbn [i_buf bb_buf].
  apply repeat_length.
Qed.

Lemma update_wf i d : inst_wf i -> inst_wf (h_update h i d).
Proof.
  intros [W1 W2]. unfold inst_wf, h_update. cbn [i_buf].
  split; [now apply bb_input_wf|]. rewrite bb_input_size by assumption. exact W2.
Qed.

Lemma fold_pre l : forall s n,
  fold_left (h_step h) l (h_pre h s n) = h_pre h (fold_left (h_step h) l s) n.
Proof.
  induction l as [|b l IH]; intros s n; cbn [fold_left]; [reflexivity|].
  rewrite (ok_pre_step h Hok). apply IH.
Qed.

(** [update] does not look at stale buffer bytes *)
Lemma update_eqv i i' d : inst_wf i -> inst_eqv i i' -> inst_eqv (h_update h i d) (h_update h i' d).
Proof.
  intros [W _] [Es Eb]. destruct (bb_input_eqv (h_lazy h) _ _ d W Eb) as [Eo Eb'].
  unfold inst_eqv, h_update. cbn [i_st i_buf]. rewrite Es, Eo. split; [reflexivity|exact Eb'].
Qed.

(** two updates = one update with the concatenation *)
Theorem update_app i a c :
  inst_wf i -> inst_eqv (h_update h (h_update h i a) c) (h_update h i (a ++ c)).
Proof.
  intros [W _]. destruct (bb_input_app (h_lazy h) (i_buf i) a c W) as [Eo Eb].
  unfold inst_eqv, h_update. cbn [i_st i_buf]. split; [|exact Eb].
  rewrite Eo, fold_left_app, app_length, <- (ok_pre_add h Hok), !fold_pre. reflexivity.
Qed.

(** a new instance is an instance that absorbed the empty string *)
Lemma new_update_nil : inst_eqv (h_new h) (h_update h (h_new h) []).
Proof.
  destruct (bb_input_new_nil (h_lazy h) (h_size h) (ok_size h Hok)) as [Eo Eb].
  unfold inst_eqv, h_update, h_new. cbn [i_st i_buf length]. rewrite Eo. cbn [fold_left].
  split; [symmetry; apply (ok_pre_init h Hok)|exact Eb].
Qed.

Lemma finalize_eqv i i' : inst_wf i -> inst_eqv i i' -> h_finalize h i = h_finalize h i'.
Proof.
  intros [W _] [Es Eb]. unfold h_finalize. rewrite Es. now apply (ok_fin_eqv h Hok).
Qed.

(** * chunking *)
Theorem update_chunks_from pieces : forall i a,
  inst_wf i ->
  inst_eqv (fold_left (h_update h) pieces (h_update h i a)) (h_update h i (a ++ concat pieces)).
Proof.
  induction pieces as [|p ps IH]; intros i a W; cbn [fold_left concat].
  - rewrite app_nil_r. apply inst_eqv_refl.
  - rewrite app_assoc. eapply inst_eqv_trans; [|apply IH; exact W].
    clear IH. revert ps. 
    assert (G : forall ps x y, inst_wf x -> inst_eqv x y ->
                 inst_eqv (fold_left (h_update h) ps x) (fold_left (h_update h) ps y)).
    { induction ps as [|q ps IH]; intros x y Wx E; cbn [fold_left]; [exact E|].
      apply IH; [now apply update_wf|now apply update_eqv]. }
    intros ps. apply G; [now apply update_wf, update_wf|now apply update_app].
Qed.

Lemma fold_update_wf pieces : forall i, inst_wf i -> inst_wf (fold_left (h_update h) pieces i).
Proof. induction pieces as [|p ps IH]; intros i W; cbn [fold_left]; [exact W|]. apply IH, update_wf, W. Qed.

Lemma fold_update_eqv pieces : forall x y, inst_wf x -> inst_eqv x y ->
  inst_eqv (fold_left (h_update h) pieces x) (fold_left (h_update h) pieces y).
Proof.
  induction pieces as [|q ps IH]; intros x y Wx E; cbn [fold_left]; [exact E|].
  apply IH; [now apply update_wf|now apply update_eqv].
Qed.

(** feeding the pieces one by one to a new instance = feeding their concatenation *)
Theorem update_chunks pieces :
  inst_eqv (fold_left (h_update h) pieces (h_new h)) (h_update h (h_new h) (concat pieces)).
Proof.
  eapply inst_eqv_trans.
  - apply fold_update_eqv; [apply new_wf|apply new_update_nil].
  - apply (update_chunks_from pieces (h_new h) []), new_wf.
Qed.

Theorem chunking_invariant pieces :
  h_finalize h (fold_left (h_update h) pieces (h_new h)) = h_oneshot h (concat pieces).
Proof.
  unfold h_oneshot. apply finalize_eqv; [apply fold_update_wf, new_wf|apply update_chunks].
Qed.

(** * histories *)
Definition slot_rel (oi : option (inst st)) (om : option (list N)) : Prop :=
  match oi, om with
  | None, None => True
  | Some i, Some m => inst_wf i /\ inst_eqv i (h_update h (h_new h) m)
  | _, _ => False
  end.

Lemma Forall2_nth_error {A B} (R : A -> B -> Prop) l l' k :
  Forall2 R l l' ->
  match nth_error l k, nth_error l' k with
  | Some x, Some y => R x y
  | None, None => True
  | _, _ => False
  end.
Proof.
  intros F. revert k. induction F as [|x y l l' Hxy F IH]; intros [|k]; cbn [nth_error]; auto.
  apply IH.
Qed.

Lemma Forall2_upd {A B} (R : A -> B -> Prop) l l' k x y :
  Forall2 R l l' -> R x y -> Forall2 R (upd k x l) (upd k y l').
Proof.
  intros F Hxy. revert k. induction F as [|a b l l' Hab F IH]; intros [|k]; cbn [upd];
    constructor; auto.
Qed.

Lemma live_rel T A k :
  Forall2 slot_rel T A ->
  match live T k, slive A k with
  | Some i, Some m => inst_wf i /\ inst_eqv i (h_update h (h_new h) m)
  | None, None => True
  | _, _ => False
  end.
Proof.
  intros F. pose proof (Forall2_nth_error _ _ _ k F) as H. unfold live, slive.
  destruct (nth_error T k) as [[i|]|], (nth_error A k) as [[m|]|]; cbn [slot_rel] in H; auto.
Qed.

Lemma exec_rel T A o :
  Forall2 slot_rel T A ->
  Forall2 slot_rel (fst (exec h T o)) (fst (sexec (h_oneshot h) A o))
  /\ snd (exec h T o) = snd (sexec (h_oneshot h) A o).
Proof.
  intros F.
  assert (Hnew : slot_rel (Some (h_new h)) (Some [])).
  { split; [apply new_wf|apply new_update_nil]. }
  destruct o as [k d|k|k|k|k]; cbn [exec sexec];
    pose proof (live_rel T A k F) as L;
    destruct (live T k) as [i|], (slive A k) as [m|]; try contradiction;
    cbn [fst snd]; try (split; [exact F|reflexivity]); destruct L as [W E].
  - split; [|reflexivity]. apply Forall2_upd; [exact F|].
    split; [now apply update_wf|].
    eapply inst_eqv_trans; [apply update_eqv; eassumption|apply update_app, new_wf].
  - split; [|reflexivity]. apply Forall2_app; [exact F|]. constructor; [|constructor].
    split; assumption.
  - split; [|reflexivity]. apply Forall2_upd; assumption.
  - split; [apply Forall2_upd; assumption|]. unfold h_oneshot.
    now rewrite (finalize_eqv _ _ W E).
  - split; [apply Forall2_upd; [assumption|exact I]|]. unfold h_oneshot.
    now rewrite (finalize_eqv _ _ W E).
Qed.

Lemma run_rel ops : forall T A,
  Forall2 slot_rel T A ->
  Forall2 slot_rel (fst (run h T ops)) (fst (srun (h_oneshot h) A ops))
  /\ snd (run h T ops) = snd (srun (h_oneshot h) A ops).
Proof.
  induction ops as [|o r IH]; intros T A F; cbn [run srun fst snd]; [split; [exact F|reflexivity]|].
  destruct (exec_rel T A o F) as [F1 E1]. destruct (IH _ _ F1) as [F2 E2].
  split; [exact F2|]. now rewrite E1, E2.
Qed.

(** Every digest a history returns is the one-shot hash of the bytes its slot absorbed
    since its creation or last reset, where a clone starts with the bytes of its origin
    and from then on is a slot of its own. *)
Theorem hasher_history_correct ops :
  snd (run h [Some (h_new h)] ops) = snd (srun (h_oneshot h) [Some []] ops).
Proof.
  apply run_rel. constructor; [|constructor]. split; [apply new_wf|apply new_update_nil].
Qed.

End HasherProofs.

(** * a slot only depends on its own operations (no hypotheses on the hasher) *)
Section Local.
Context {st digest : Type}.
Variable h : hasher st digest.

Lemma run_app a : forall T b,
  run h T (a ++ b) =
  (fst (run h (fst (run h T a)) b), snd (run h T a) ++ snd (run h (fst (run h T a)) b)).
Proof.
  induction a as [|o a IH]; intros T b; cbn [app run fst snd].
  - now destruct (run h T b).
  - rewrite IH. cbn [fst snd]. now rewrite app_assoc.
Qed.

Lemma outputs_of_app j (a b : list (nat * digest)) :
  outputs_of j (a ++ b) = outputs_of j a ++ outputs_of j b.
Proof. unfold outputs_of. now rewrite filter_app, map_app. Qed.

Lemma nth_error_upd_same {A} k (x : A) l : k < length l -> nth_error (upd k x l) k = Some x.
Proof.
  revert k. induction l as [|y l IH]; intros [|k] H; cbn [length] in H; cbn [upd nth_error];
    try lia; [reflexivity|apply IH; lia].
Qed.

Lemma nth_error_upd_other {A} k j (x : A) l : k <> j -> nth_error (upd k x l) j = nth_error l j.
Proof.
  revert k j. induction l as [|y l IH]; intros [|k] [|j] H; cbn [upd nth_error]; try reflexivity;
    try congruence. apply IH. congruence.
Qed.

Lemma live_lt (T : table st) k i : live T k = Some i -> k < length T.
Proof.
  unfold live. intros H. apply nth_error_Some. destruct (nth_error T k); congruence.
Qed.

Lemma run1_None l : run1 h None l = [].
Proof. induction l as [|a l IH]; [reflexivity|]. cbn [run1]. destruct a; exact IH. Qed.

(** one operation seen from slot [j] *)
Lemma exec_local T o j x :
  nth_error T j = Some x ->
  exists x', nth_error (fst (exec h T o)) j = Some x'
    /\ forall r, outputs_of j (snd (exec h T o)) ++ run1 h x' r = run1 h x (proj1 j o ++ r).
Proof.
  intros Hj.
  assert (Hlt : j < length T) by (apply nth_error_Some; congruence).
  assert (Hlive : live T j = match x with Some i => Some i | None => None end).
  { unfold live. rewrite Hj. now destruct x. }
  assert (Hsame : forall k, k <> j -> forall y, nth_error (upd k y T) j = Some x).
  { intros k Hne y. rewrite nth_error_upd_other by exact Hne. exact Hj. }
  assert (Hout : forall k (d : digest), k <> j -> outputs_of j [(k, d)] = []).
  { intros k d Hne. unfold outputs_of. cbn [filter fst]. now destruct (Nat.eqb_spec k j). }
  destruct o as [k d|k|k|k|k]; cbn [exec proj1]; destruct (Nat.eqb_spec k j) as [->|Hne].
  (* Update *)
  - rewrite Hlive. destruct x as [i|]; cbn [fst snd].
    + eexists; split; [now apply nth_error_upd_same|]. reflexivity.
    + exists None; split; [exact Hj|]. intros r. now rewrite !run1_None.
  - destruct (live T k); cbn [fst snd]; exists x; (split; [auto|reflexivity]).
  (* Clone *)
  - rewrite Hlive. destruct x as [i|]; cbn [fst snd].
    + eexists; split; [rewrite nth_error_app1 by exact Hlt; exact Hj|]. reflexivity.
    + exists None; split; [exact Hj|]. intros r. now rewrite !run1_None.
  - destruct (live T k); cbn [fst snd]; exists x; (split; [|reflexivity]); auto.
    rewrite nth_error_app1 by exact Hlt; exact Hj.
  (* Reset *)
  - rewrite Hlive. destruct x as [i|]; cbn [fst snd].
    + eexists; split; [now apply nth_error_upd_same|]. reflexivity.
    + exists None; split; [exact Hj|]. intros r. now rewrite !run1_None.
  - destruct (live T k); cbn [fst snd]; exists x; (split; [auto|reflexivity]).
  (* FinalizeReset *)
  - rewrite Hlive. destruct x as [i|]; cbn [fst snd].
    + eexists; split; [now apply nth_error_upd_same|]. intros r.
      unfold outputs_of. cbn [filter fst]. rewrite Nat.eqb_refl. reflexivity.
    + exists None; split; [exact Hj|]. intros r. now rewrite !run1_None.
  - destruct (live T k); cbn [fst snd]; exists x; (split; [auto|]); intros r;
      rewrite ?Hout by exact Hne; reflexivity.
  (* Finalize *)
  - rewrite Hlive. destruct x as [i|]; cbn [fst snd].
    + eexists; split; [now apply nth_error_upd_same|]. intros r.
      unfold outputs_of. cbn [filter fst]. rewrite Nat.eqb_refl. reflexivity.
    + exists None; split; [exact Hj|]. intros r. now rewrite !run1_None.
  - destruct (live T k); cbn [fst snd]; exists x; (split; [auto|]); intros r;
      rewrite ?Hout by exact Hne; reflexivity.
Qed.

Theorem slot_local ops : forall T j x,
  nth_error T j = Some x ->
  outputs_of j (snd (run h T ops)) = run1 h x (proj j ops).
Proof.
  induction ops as [|o r IH]; intros T j x Hj; cbn [run snd proj flat_map].
  - destruct x; reflexivity.
  - destruct (exec_local T o j x Hj) as (x' & Hj' & E).
    rewrite outputs_of_app, (IH _ _ _ Hj'). apply E.
Qed.

End Local.

(** * clone and reset, seen from one slot *)
Section Corollaries.
Context {st digest : Type}.
Variable h : hasher st digest.

Lemma run_cons T o r :
  run h T (o :: r) = (fst (run h (fst (exec h T o)) r), snd (exec h T o) ++ snd (run h (fst (exec h T o)) r)).
Proof. reflexivity. Qed.

(** From the moment of [Clone k] on, the clone (the new last slot) and the origin each
    return exactly what a single instance started in the origin's state at that moment
    returns under the operations that name it: neither depends on what is done to the
    other (or to any other slot). *)
Theorem clone_independent (T : table st) k i post :
  live T k = Some i ->
  outputs_of (length T) (snd (run h T (Clone k :: post))) = run1 h (Some i) (proj (length T) post)
  /\ outputs_of k (snd (run h T (Clone k :: post))) = run1 h (Some i) (proj k post).
Proof.
  intros Hl. rewrite run_cons. cbn [exec]. rewrite Hl. cbn [fst snd app].
  pose proof (live_lt T k i Hl) as Hlt.
  split; apply slot_local.
  - rewrite nth_error_app2, Nat.sub_diag by lia. reflexivity.
  - rewrite nth_error_app1 by exact Hlt. unfold live in Hl.
    destruct (nth_error T k) as [[i'|]|]; congruence.
Qed.

(** After [Reset k] slot [k] returns exactly what a new instance returns under the
    operations that name it; same after [FinalizeReset k], which first returns the digest. *)
Theorem reset_like_new (T : table st) k i post :
  live T k = Some i ->
  outputs_of k (snd (run h T (Reset k :: post))) = run1 h (Some (h_new h)) (proj k post)
  /\ outputs_of k (snd (run h T (FinalizeReset k :: post)))
     = h_finalize h i :: run1 h (Some (h_new h)) (proj k post).
Proof.
  intros Hl. pose proof (live_lt T k i Hl) as Hlt. rewrite !run_cons. cbn [exec]. rewrite Hl.
  cbn [fst snd app]. split.
  - apply slot_local. now apply nth_error_upd_same.
  - unfold outputs_of. cbn [filter fst]. rewrite Nat.eqb_refl. cbn [map snd]. f_equal.
    apply (slot_local h). now apply nth_error_upd_same.
Qed.

(** ... and a table that consists of one new instance is the same thing *)
Theorem new_table_run1 ops :
  outputs_of 0 (snd (run h [Some (h_new h)] ops)) = run1 h (Some (h_new h)) (proj 0 ops).
Proof. now apply slot_local. Qed.

End Corollaries.

(** * the parameters used for the four crates satisfy [hasher_ok] *)
Lemma fin_of_content_eqv {st digest} (f : st -> list N -> digest) s b b' :
  bb_wf b -> bb_eqv b b' -> fin_of_content f s b = fin_of_content f s b'.
Proof. intros _ (_ & _ & E). unfold fin_of_content. fold (bb_content b) (bb_content b'). now rewrite E. Qed.

Definition fin_ok {st digest} (fin : st -> bb -> digest) : Prop :=
  forall s b b', bb_wf b -> bb_eqv b b' -> fin s b = fin s b'.

Lemma hasher_ok_id_pre {st digest} size lazy init step (fin : st -> bb -> digest) :
  0 < size -> fin_ok fin -> hasher_ok (Hasher size lazy init (fun s _ => s) step fin).
Proof. intros Hs Hf. constructor; cbn; auto. Qed.

Section ShapesOk.
Context {X digest : Type}.

Lemma blake_shape_ok w size iv put_block (fin : X * (N * N) -> bb -> digest) :
  0 < size -> fin_ok fin -> hasher_ok (blake_shape w size iv put_block fin).
Proof. apply hasher_ok_id_pre. Qed.

Lemma groestl_shape_ok size iv input (fin : X * N -> bb -> digest) :
  0 < size -> fin_ok fin -> hasher_ok (groestl_shape size iv input fin).
Proof. apply hasher_ok_id_pre. Qed.

Lemma skein_shape_ok size init process_block (fin : X * (N * N) -> bb -> digest) :
  0 < size -> fin_ok fin -> hasher_ok (skein_shape size init process_block fin).
Proof. apply hasher_ok_id_pre. Qed.

Lemma jh_shape_ok size iv input (fin : X * N -> bb -> digest) :
  0 < size -> fin_ok fin -> hasher_ok (jh_shape size iv input fin).
Proof.
  intros Hs Hf. constructor; cbn [jh_shape h_size h_init h_pre h_step h_fin fst snd]; auto.
  - intros [x d] a b. cbn [fst snd]. f_equal.
    rewrite Nat2N.inj_add, !wrap_mod, N.add_mod_idemp_l by apply pow2_nz.
    f_equal. lia.
Qed.

End ShapesOk.

(** the four shapes at once (statement pinned in Props/C08.v) *)
Lemma shapes_ok :
  forall X digest,
    (forall w size iv put_block (fin : X * (N * N) -> bb -> digest),
        0 < size -> fin_ok fin -> hasher_ok (blake_shape w size iv put_block fin))
    /\ (forall size iv input (fin : X * N -> bb -> digest),
        0 < size -> fin_ok fin -> hasher_ok (groestl_shape size iv input fin))
    /\ (forall size iv input (fin : X * N -> bb -> digest),
        0 < size -> fin_ok fin -> hasher_ok (jh_shape size iv input fin))
    /\ (forall size init process_block (fin : X * (N * N) -> bb -> digest),
        0 < size -> fin_ok fin -> hasher_ok (skein_shape size init process_block fin)).
Proof.
  intros X digest. split; [|split; [|split]]; intros.
  - now apply blake_shape_ok.
  - now apply groestl_shape_ok.
  - now apply jh_shape_ok.
  - now apply skein_shape_ok.
Qed.
