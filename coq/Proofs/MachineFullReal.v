(** C03, machine-framing, composed for the real back ends: the extended machines of the six
    back-end names ([real_xinst p b] over [real_inst p b] of Proofs/MachineInstReal.v) refine the
    lane meaning, hence the WHOLE block functions — ChaCha [refill_narrow] / [refill_wide], JH F8,
    BLAKE [put_block] (both word sizes) and [finalize] — computed on any back end, in any build
    profile, are the executable models Model/ChaChaGuts.v, Model/JH.v, Model/Blake.v (which C01,
    C06, C04 prove equal to the specifications), and any two configurations agree and neither
    reaches the [unimplemented!()] arm. *)
From Coq Require Import NArith List Bool Lia Arith.
From CC Require Import Lib.Words Lib.Bytes Lib.ListX Spec.Lanes Model.Dispatch Model.Machine Model.MachineFull.
From CC Require Import Proofs.Dispatch Proofs.Machine Proofs.MachineFullLib.
From CC Require Model.PpvSoft Model.JH Model.Blake Model.ChaChaGuts.
From CC Require Proofs.MachineFullSse Proofs.MachineFullAvx2 Proofs.MachineFullGeneric.
From CC Require Import Proofs.MachineInstReal.
From CC Require Import Proofs.MachineFullChaCha Proofs.MachineFullJH Proofs.MachineFullBlake.
Import ListNotations.
Local Open Scope N_scope.

(** * the extended machine behind each Machine type and each back-end name; [s4] (SSE4.1) now
      matters: it selects the [extract]/[insert]/[from_lanes] code paths *)
Definition xmachine_of_type (p : PpvSoft.profile) (t : mtype) : xmachine :=
  match t with
  | TGeneric => MachineFullGeneric.generic_xm p
  | TSse s3 s4 => MachineFullSse.sse_xm s3 s4
  | TAvx2 => MachineFullAvx2.avx2_xm
  end.
Definition real_xinst (p : PpvSoft.profile) (b : backend) : xmachine := xmachine_of_type p (type_of b).

Lemma real_xinst_cases : forall p,
  real_xinst p Generic = MachineFullGeneric.generic_xm p /\
  real_xinst p SSE2 = MachineFullSse.sse_xm false false /\
  real_xinst p SSSE3 = MachineFullSse.sse_xm true false /\
  real_xinst p SSE41 = MachineFullSse.sse_xm true true /\
  real_xinst p AVX = MachineFullSse.sse_xm true true /\
  real_xinst p AVX2 = MachineFullAvx2.avx2_xm.
Proof. intros p. repeat split; reflexivity. Qed.

(** it extends the machine of Proofs/MachineInstReal.v *)
Lemma real_xinst_base : forall p b, xm_base (real_xinst p b) = real_inst p b.
Proof. intros p b. destruct b; reflexivity. Qed.

Theorem real_xinst_refines : forall p b, xmachine_refines (real_xinst p b).
Proof.
  intros p b. unfold real_xinst. destruct (type_of b) as [|s3 s4|]; cbn [xmachine_of_type].
  - apply MachineFullGeneric.generic_xm_refines.
  - apply MachineFullSse.sse_xm_refines.
  - apply MachineFullAvx2.avx2_xm_refines.
Qed.

(** * every real back end computes the executable models *)
Theorem real_refill_narrow_is_model : forall p b1 b2 k s, cstore_ok s ->
  x_refill_narrow (real_xinst p b1) (real_xinst p b2) k s =
  (fst (ChaChaGuts.refill (cc_of s) k), store_of (snd (ChaChaGuts.refill (cc_of s) k))).
Proof. intros p b1 b2. exact (refill_narrow_is_model _ _ (real_xinst_refines p b1) (real_xinst_refines p b2)). Qed.

Theorem real_refill_wide_is_model : forall p b k s, cstore_ok s ->
  xm_refill_wide (real_xinst p b) k s =
  (fst (ChaChaGuts.refill_wide (cc_of s) k), store_of (snd (ChaChaGuts.refill_wide (cc_of s) k))).
Proof. intros p b. exact (refill_wide_is_model _ (real_xinst_refines p b)). Qed.

(** XChaCha set-up ([init_chacha_x] under dispatch_light128!, its rounds under dispatch!), and
    [pos64] / [seek64] / [seek32] *)
Theorem real_init_chacha_x_is_model : forall p b1 b2 key nonce k, bytes_ok 32 key -> bytes_ok 24 nonce ->
  x_init_chacha_x (real_xinst p b1) (real_xinst p b2) key nonce k = store_of (ChaChaGuts.init_chacha_x key nonce k).
Proof. intros p b1 b2. exact (init_chacha_x_is_model _ _ (real_xinst_refines p b1) (real_xinst_refines p b2)). Qed.

Theorem real_seek_is_model : forall p b s, cstore_ok s ->
  x_pos64 _ (xm_n (real_xinst p b)) s = ChaChaGuts.pos64 (cc_of s) /\
  (forall c, x_seek64 _ (xm_n (real_xinst p b)) s c = store_of (ChaChaGuts.seek64 (cc_of s) c)) /\
  (forall c, c < 2 ^ 32 -> x_seek32 _ (xm_n (real_xinst p b)) s c = store_of (ChaChaGuts.seek32 (cc_of s) c)).
Proof. intros p b. exact (seek_is_model _ (real_xinst_refines p b)). Qed.

Theorem real_f8_is_model : forall p b state data, bytes_ok 128 state -> bytes_ok 64 data ->
  xm_f8 (real_xinst p b) e8_sched state data = JH.m_f8 state data.
Proof. intros p b. exact (f8_is_model _ (real_xinst_refines p b)). Qed.

Theorem real_put_block32_is_model : forall p b h block t0 t1,
  bytes_ok 16 (fst h) -> bytes_ok 16 (snd h) -> Forall is_byte block -> t0 < 2 ^ 32 -> t1 < 2 ^ 32 ->
  xm_put_block32 (real_xinst p b) h block (t0, t1) = h_bytes 4 (Blake.put_block32 (h_words 4 h) block (t0, t1)).
Proof. intros p b. exact (put_block32_is_model _ (real_xinst_refines p b)). Qed.

Theorem real_put_block64_is_model : forall p b h block t0 t1,
  bytes_ok 32 (fst h) -> bytes_ok 32 (snd h) -> Forall is_byte block -> t0 < 2 ^ 64 -> t1 < 2 ^ 64 ->
  xm_put_block64 (real_xinst p b) h block (t0, t1) = h_bytes 8 (Blake.put_block64 (h_words 8 h) block (t0, t1)).
Proof. intros p b. exact (put_block64_is_model _ (real_xinst_refines p b)). Qed.

Theorem real_finalize32_is_model : forall p b h, bytes_ok 16 (fst h) -> bytes_ok 16 (snd h) ->
  xm_finalize32 (real_xinst p b) h = Blake.compressor_finalize 4 (h_words 4 h).
Proof. intros p b. exact (finalize32_is_model _ (real_xinst_refines p b)). Qed.
Theorem real_finalize64_is_model : forall p b h, bytes_ok 32 (fst h) -> bytes_ok 32 (snd h) ->
  xm_finalize64 (real_xinst p b) h = Blake.compressor_finalize 8 (h_words 8 h).
Proof. intros p b. exact (finalize64_is_model _ (real_xinst_refines p b)). Qed.

(** * composed with the selection: a configuration = build profile, cargo features [no_simd] and
      [std], detected CPU features, compile-time target features. [None] = the [unimplemented!()]
      arm. ChaCha's [refill_narrow] is entered through [dispatch_light128!] and calls
      [refill_narrow_rounds] through [dispatch!] (two selections in the same configuration). *)
Definition xconfig := (PpvSoft.profile * bool * bool * features * features)%type.
Definition xcpu (c : xconfig) : features := let '(_, _, _, cpu, _) := c in cpu.

Definition on_x {X Y} (m : macro) (algo : xmachine -> X -> Y) (c : xconfig) (x : X) : option Y :=
  let '(p, n, s, cpu, tf) := c in dispatched (fun b => algo (real_xinst p b)) m n s cpu tf x.

Definition refill_narrow_on (k : nat) (c : xconfig) (s : cstore) : option (list N * cstore) :=
  let '(p, n, st, cpu, tf) := c in
  match dispatch MDispatch n st cpu tf, dispatch MLight128 n st cpu tf with
  | Run b1, Run b2 => Some (x_refill_narrow (real_xinst p b1) (real_xinst p b2) k s)
  | _, _ => None
  end.

Lemma on_x_is : forall {X Y} (m : macro) (algo : xmachine -> X -> Y) (ref : X -> Y) (dom : X -> Prop),
  (forall p b x, dom x -> algo (real_xinst p b) x = ref x) ->
  forall c x, f_sse2 (xcpu c) = true -> dom x -> on_x m algo c x = Some (ref x).
Proof.
  intros X Y m algo ref dom H [[[[p n] s] cpu] tf] x Hc Hx. cbn [xcpu] in Hc. unfold on_x.
  apply (dispatched_eq_ref (fun b => algo (real_xinst p b)) ref dom (H p)); assumption.
Qed.

Theorem real_blocks_agree : forall c,
  f_sse2 (xcpu c) = true ->
  (forall k s, cstore_ok s ->
     refill_narrow_on k c s =
     Some (fst (ChaChaGuts.refill (cc_of s) k), store_of (snd (ChaChaGuts.refill (cc_of s) k)))) /\
  (forall k s, cstore_ok s ->
     on_x MDispatch (fun m => xm_refill_wide m k) c s =
     Some (fst (ChaChaGuts.refill_wide (cc_of s) k), store_of (snd (ChaChaGuts.refill_wide (cc_of s) k)))) /\
  (forall state data, bytes_ok 128 state -> bytes_ok 64 data ->
     on_x MDispatch (fun m => xm_f8 m e8_sched state) c data = Some (JH.m_f8 state data)) /\
  (forall h block t0 t1,
     bytes_ok 16 (fst h) -> bytes_ok 16 (snd h) -> Forall is_byte block -> t0 < 2 ^ 32 -> t1 < 2 ^ 32 ->
     on_x MDispatch (fun m h => xm_put_block32 m h block (t0, t1)) c h =
     Some (h_bytes 4 (Blake.put_block32 (h_words 4 h) block (t0, t1)))) /\
  (forall h block t0 t1,
     bytes_ok 32 (fst h) -> bytes_ok 32 (snd h) -> Forall is_byte block -> t0 < 2 ^ 64 -> t1 < 2 ^ 64 ->
     on_x MDispatch (fun m h => xm_put_block64 m h block (t0, t1)) c h =
     Some (h_bytes 8 (Blake.put_block64 (h_words 8 h) block (t0, t1)))) /\
  (forall h, bytes_ok 16 (fst h) -> bytes_ok 16 (snd h) ->
     on_x MLight256 xm_finalize32 c h = Some (Blake.compressor_finalize 4 (h_words 4 h))) /\
  (forall h, bytes_ok 32 (fst h) -> bytes_ok 32 (snd h) ->
     on_x MLight256 xm_finalize64 c h = Some (Blake.compressor_finalize 8 (h_words 8 h))).
Proof.
  intros c Hc. repeat apply conj.
  - intros k s Hs. destruct c as [[[[p n] st] cpu] tf]. cbn [xcpu] in Hc. unfold refill_narrow_on.
    destruct (dispatch_total MDispatch n st cpu tf Hc) as [b1 ->].
    destruct (dispatch_total MLight128 n st cpu tf Hc) as [b2 ->].
    now rewrite (real_refill_narrow_is_model p b1 b2 k s Hs).
  - intros k s Hs.
    apply (on_x_is MDispatch (fun m => xm_refill_wide m k)
             (fun s => (fst (ChaChaGuts.refill_wide (cc_of s) k), store_of (snd (ChaChaGuts.refill_wide (cc_of s) k))))
             cstore_ok); [|assumption ..].
    intros p b x Hx. now apply real_refill_wide_is_model.
  - intros state data Hst Hd.
    apply (on_x_is MDispatch (fun m => xm_f8 m e8_sched state) (JH.m_f8 state) (bytes_ok 64)); [|assumption ..].
    intros p b x Hx. now apply real_f8_is_model.
  - intros h block t0 t1 H0 H1 Hb Ht0 Ht1.
    apply (on_x_is MDispatch (fun m h => xm_put_block32 m h block (t0, t1))
             (fun h => h_bytes 4 (Blake.put_block32 (h_words 4 h) block (t0, t1)))
             (fun h => bytes_ok 16 (fst h) /\ bytes_ok 16 (snd h))); [|assumption | split; assumption].
    intros p b x [Hx0 Hx1]. now apply real_put_block32_is_model.
  - intros h block t0 t1 H0 H1 Hb Ht0 Ht1.
    apply (on_x_is MDispatch (fun m h => xm_put_block64 m h block (t0, t1))
             (fun h => h_bytes 8 (Blake.put_block64 (h_words 8 h) block (t0, t1)))
             (fun h => bytes_ok 32 (fst h) /\ bytes_ok 32 (snd h))); [|assumption | split; assumption].
    intros p b x [Hx0 Hx1]. now apply real_put_block64_is_model.
  - intros h H0 H1.
    apply (on_x_is MLight256 xm_finalize32 (fun h => Blake.compressor_finalize 4 (h_words 4 h))
             (fun h => bytes_ok 16 (fst h) /\ bytes_ok 16 (snd h))); [|assumption | split; assumption].
    intros p b x [Hx0 Hx1]. now apply real_finalize32_is_model.
  - intros h H0 H1.
    apply (on_x_is MLight256 xm_finalize64 (fun h => Blake.compressor_finalize 8 (h_words 8 h))
             (fun h => bytes_ok 32 (fst h) /\ bytes_ok 32 (snd h))); [|assumption | split; assumption].
    intros p b x [Hx0 Hx1]. now apply real_finalize64_is_model.
Qed.

(** * the machines run: the intrinsic-level / portable models are executable, e.g. at the counter
      carry (block counter 2^64 - 1: [inc_block_ct] wraps to 0, [add_pos 4] gives 3) *)
Definition sample_store : cstore :=
  CSt (bytes_le 4 [0x03020100; 0x07060504; 0x0b0a0908; 0x0f0e0d0c])
      (bytes_le 4 [0x13121110; 0x17161514; 0x1b1a1918; 0x1f1e1d1c])
      (bytes_le 4 [0xffffffff; 0xffffffff; 0x4a000000; 0x00000000]).

Example real_xinst_runs :
  x_refill_narrow (real_xinst PpvSoft.Debug AVX2) (real_xinst PpvSoft.Debug AVX) 10 sample_store =
    (fst (ChaChaGuts.refill (cc_of sample_store) 10), store_of (snd (ChaChaGuts.refill (cc_of sample_store) 10))) /\
  st_d (snd (x_refill_narrow (real_xinst PpvSoft.Debug SSE2) (real_xinst PpvSoft.Debug SSE2) 10 sample_store)) =
    bytes_le 4 [0; 0; 0x4a000000; 0] /\
  xm_refill_wide (real_xinst PpvSoft.Release Generic) 4 sample_store = xm_refill_wide (real_xinst PpvSoft.Debug AVX2) 4 sample_store /\
  st_d (snd (xm_refill_wide (real_xinst PpvSoft.Debug SSSE3) 4 sample_store)) = bytes_le 4 [3; 0; 0x4a000000; 0].
Proof. vm_compute. repeat split; reflexivity. Qed.

(** the refinement hypothesis is not vacuous: a u32x4 whose [extract] numbers the lanes from the
    other end is rejected, and it does change [inc_block_ct] *)
Definition bad_nops : nops (okv 32 4) :=
  NOps (okv 32 4) (words_le 4) (bytes_le 4)
       (fun a i => nth (3 - N.to_nat i) a 0) (fun a v i => upd (N.to_nat i) v a)
       (write_le 4) (write_be 4) (read_le 4).
Definition bad_xm : xmachine := XMachine lane_base bad_nops lane_dops lane_wops lane_hops lane_uops.

Example bad_xm_rejected :
  ~ xmachine_refines bad_xm /\
  snd (x_refill_narrow lane_xm bad_xm 0 sample_store) <> snd (x_refill_narrow lane_xm lane_xm 0 sample_store).
Proof.
  split.
  - intros X. pose proof (nr_extract _ _ (xr_n _ X) [1; 2; 3; 4] 0) as H.
    cbn [bad_xm xm_base xm_n lane_base m_u32x4 okv v_wf v_rep bad_nops v4_extract] in H.
    assert (W : words_ok 32 4 [1; 2; 3; 4]) by (split; [reflexivity | repeat constructor]).
    specialize (H W eq_refl). vm_compute in H. discriminate H.
  - vm_compute. intros H. discriminate H.
Qed.

Print Assumptions real_xinst_refines.
Print Assumptions real_refill_narrow_is_model.
Print Assumptions real_refill_wide_is_model.
Print Assumptions real_init_chacha_x_is_model.
Print Assumptions real_seek_is_model.
Print Assumptions real_f8_is_model.
Print Assumptions real_put_block32_is_model.
Print Assumptions real_put_block64_is_model.
Print Assumptions real_blocks_agree.
