(** Lemmas about [Model/BlockBuffer.v]: eager buffering ([input_block]).

    [input_block_char]: what is emitted and what stays buffered is a function of
    "previously buffered bytes ++ input" only: with L bytes in total, the first
    L/size full blocks are emitted and the remaining L mod size bytes stay in
    the buffer.
    [input_block_reconstructs]: emitted blocks followed by the buffered tail are
    the buffered bytes followed by the input.
    [input_block_app]: feeding [a] then [c] = feeding [a ++ c] (same blocks in
    the same order, same buffered bytes and position; bytes of the buffer at
    and beyond the position are stale and may differ, hence [bb_eqv]).
    [input_block_eqv]: nothing observable depends on the stale bytes. *)
From Coq Require Import NArith List Arith Lia.
From CC Require Import Lib.Words Lib.Bytes Lib.ListX Model.BlockBuffer Proofs.BlockBufferLazy.
Import ListNotations.

(** number of blocks emitted when [len] bytes are available in total *)
Definition eager_count (size len : nat) : nat := len / size.

Lemma eager_count_bounds size len : 0 < size ->
  eager_count size len * size <= len /\ len - eager_count size len * size < size.
Proof.
  intros Hs. unfold eager_count.
  pose proof (Nat.div_mod len size ltac:(lia)) as E.
  pose proof (Nat.mod_upper_bound len size ltac:(lia)) as U.
  nia.
Qed.

Lemma eager_count_small size len : len < size -> eager_count size len = 0.
Proof. intros H. apply Nat.div_small, H. Qed.

Lemma eager_count_step size len : 0 < size -> size <= len ->
  eager_count size len = S (eager_count size (len - size)).
Proof.
  intros Hs H. unfold eager_count.
  replace len with ((len - size) + 1 * size) at 1 by lia.
  rewrite Nat.div_add by lia. lia.
Qed.

Lemma eager_count_add size l1 lc : 0 < size ->
  eager_count size (l1 + lc) =
  eager_count size l1 + eager_count size (l1 - eager_count size l1 * size + lc).
Proof.
  intros Hs. destruct (eager_count_bounds size l1 Hs) as (B1 & B2).
  set (n1 := eager_count size l1) in *. unfold eager_count.
  replace (l1 + lc) with ((l1 - n1 * size + lc) + n1 * size) at 1 by lia.
  rewrite Nat.div_add by lia. lia.
Qed.

(** [chunks_exact] with enough fuel = the first [len / size] blocks *)
Lemma chunks_exact_take_blocks size fuel l :
  0 < size -> length l <= fuel ->
  chunks_exact size fuel l = take_blocks size (eager_count size (length l)) l.
Proof.
  intros Hs. revert l. induction fuel as [|f IH]; intros l Hl.
  - destruct l; [|cbn [length] in Hl; lia]. cbn [length].
    rewrite eager_count_small by lia. reflexivity.
  - cbn [chunks_exact]. destruct (Nat.leb_spec size (length l)) as [H|H].
    + rewrite (eager_count_step size (length l)) by lia. cbn [take_blocks].
      rewrite IH by (rewrite skipn_length; lia). rewrite skipn_length. reflexivity.
    + rewrite eager_count_small by lia. reflexivity.
Qed.

(** * characterisation of [input_block] *)
Lemma input_block_char b input :
  bb_wf b ->
  let size := bb_size b in
  let all := bb_content b ++ input in
  let n := eager_count size (length all) in
  snd (input_block b input) = take_blocks size n all
  /\ bb_size (fst (input_block b input)) = size
  /\ bb_pos (fst (input_block b input)) = length all - n * size
  /\ bb_content (fst (input_block b input)) = skipn (n * size) all.
Proof.
  intros [Hpos Hsz]. destruct b as [buf pos].
  unfold bb_size, bb_content in *. cbn [bb_buf bb_pos] in *.
  cbv zeta. set (size := length buf) in *.
  assert (Hc : length (firstn pos buf) = pos) by (rewrite firstn_length; lia).
  unfold input_block, bb_remaining, bb_size. cbn [bb_buf bb_pos]. fold size.
  rewrite app_length, Hc.
  destruct (Nat.ltb_spec (length input) (size - pos)) as [Hlt|Hge].
  - (* everything fits, no block completes *)
    cbn [fst snd bb_buf bb_pos].
    rewrite eager_count_small by lia. cbn [take_blocks mult skipn].
    rewrite Nat.sub_0_r.
    split; [reflexivity|]. split; [apply copy_at_length; fold size; lia|].
    split; [reflexivity|].
    unfold copy_at. rewrite app_assoc. apply firstn_exact.
    rewrite app_length, Hc. reflexivity.
  - destruct (Nat.eqb_spec pos 0) as [->|Hnz]; cbn [negb].
    + (* empty buffer: blocks straight from the input *)
      cbn [firstn app] in *. cbn [plus].
      rewrite chunks_exact_take_blocks by lia.
      set (n := eager_count size (length input)).
      destruct (eager_count_bounds size (length input) Hsz) as (B1 & B2). fold n in B1, B2.
      rewrite take_blocks_length.
      cbn [fst snd bb_buf bb_pos app].
      split; [reflexivity|].
      assert (Hr : length (skipn (size * n) input) = length input - n * size)
        by (rewrite skipn_length; lia).
      split; [apply copy_at_length; fold size; lia|].
      split; [exact Hr|].
      unfold copy_at. cbn [firstn app plus]. rewrite Nat.mul_comm.
      apply firstn_exact. reflexivity.
    + (* complete the pending block first *)
      set (r := size - pos) in *.
      assert (Hfr : length (firstn r input) = r) by (rewrite firstn_length; lia).
      assert (Hb1 : copy_at buf pos (firstn r input) = firstn size (firstn pos buf ++ input)).
      { unfold copy_at. rewrite Hfr. replace (pos + r) with size by lia.
        rewrite (skipn_all2 buf) by (unfold size; lia). rewrite app_nil_r.
        replace size with (pos + r) at 1 by lia.
        rewrite firstn_add. rewrite firstn_exact by (symmetry; exact Hc).
        rewrite skipn_exact by (symmetry; exact Hc). reflexivity. }
      assert (Hi1 : skipn r input = skipn size (firstn pos buf ++ input)).
      { replace size with (pos + r) at 1 by lia. rewrite <- skipn_skipn_add.
        rewrite skipn_exact by (symmetry; exact Hc). reflexivity. }
      rewrite Hb1, Hi1.
      set (all := firstn pos buf ++ input) in *.
      assert (Hall : length all = pos + length input) by (unfold all; rewrite app_length; lia).
      set (in1 := skipn size all).
      assert (Hin1 : length in1 = pos + length input - size)
        by (unfold in1; rewrite skipn_length; lia).
      rewrite chunks_exact_take_blocks by lia.
      rewrite (eager_count_step size (pos + length input)) by lia.
      rewrite <- Hin1.
      set (n1 := eager_count size (length in1)).
      destruct (eager_count_bounds size (length in1) Hsz) as (B1 & B2). fold n1 in B1, B2.
      rewrite take_blocks_length.
      cbn [fst snd bb_buf bb_pos].
      cbn [take_blocks app]. fold in1.
      split; [reflexivity|].
      assert (Hr : length (skipn (size * n1) in1) = length in1 - n1 * size)
        by (rewrite skipn_length; lia).
      assert (Hf : length (firstn size all) = size) by (rewrite firstn_length; lia).
      split; [rewrite copy_at_length; [exact Hf|rewrite Hf; lia]|].
      split; [rewrite Hr; cbn [mult]; lia|].
      unfold copy_at. cbn [firstn app plus].
      rewrite firstn_exact by reflexivity.
      unfold in1. rewrite skipn_skipn_add. f_equal. cbn [mult]. lia.
Qed.

(** after [input_block] the buffer is never full: [pos < size] *)
Lemma input_block_pos_lt b input :
  bb_wf b -> bb_pos (fst (input_block b input)) < bb_size b.
Proof.
  intros Hwf. destruct (input_block_char b input Hwf) as (_ & _ & Hp & _). rewrite Hp.
  apply eager_count_bounds, Hwf.
Qed.

Lemma input_block_wf b input : bb_wf b -> bb_wf (fst (input_block b input)).
Proof.
  intros Hwf. pose proof (input_block_pos_lt b input Hwf) as Hlt.
  destruct (input_block_char b input Hwf) as (_ & Hs & _ & _).
  unfold bb_wf. rewrite Hs. destruct Hwf as [_ Hsz]. lia.
Qed.

(** emitted blocks have the block size *)
Lemma input_block_blocks_length b input :
  bb_wf b -> Forall (fun c => length c = bb_size b) (snd (input_block b input)).
Proof.
  intros Hwf. destruct (input_block_char b input Hwf) as (Ho & _). rewrite Ho.
  apply take_blocks_Forall_length.
  apply (eager_count_bounds (bb_size b) (length (bb_content b ++ input))), Hwf.
Qed.

(** emitted blocks followed by the buffered tail = buffered bytes followed by the input *)
Theorem input_block_reconstructs b input :
  bb_wf b ->
  concat (snd (input_block b input)) ++ bb_content (fst (input_block b input))
  = bb_content b ++ input.
Proof.
  intros Hwf. destruct (input_block_char b input Hwf) as (Ho & _ & _ & Hc).
  rewrite Ho, Hc, take_blocks_concat. apply firstn_skipn.
Qed.

(** only the buffered bytes matter, not the stale part of the buffer *)
Theorem input_block_eqv b b' input :
  bb_wf b -> bb_eqv b b' ->
  snd (input_block b input) = snd (input_block b' input)
  /\ bb_eqv (fst (input_block b input)) (fst (input_block b' input)).
Proof.
  intros Hwf (E1 & E2 & E3).
  assert (Hwf' : bb_wf b') by (unfold bb_wf in *; rewrite <- E1, <- E2; exact Hwf).
  destruct (input_block_char b input Hwf) as (Ho & Hs & Hp & Hc).
  destruct (input_block_char b' input Hwf') as (Ho' & Hs' & Hp' & Hc').
  rewrite <- E1 in Ho', Hs', Hp', Hc'. rewrite <- E3 in Ho', Hp', Hc'.
  split; [congruence|]. unfold bb_eqv. repeat split; congruence.
Qed.

(** feeding [a] then [c] = feeding [a ++ c] *)
Theorem input_block_app b a c :
  bb_wf b ->
  let r1 := input_block b a in
  let r2 := input_block (fst r1) c in
  let r3 := input_block b (a ++ c) in
  snd r3 = snd r1 ++ snd r2 /\ bb_eqv (fst r2) (fst r3).
Proof.
  intros Hwf. cbv zeta.
  pose proof (input_block_wf b a Hwf) as Hwf1.
  destruct (input_block_char b a Hwf) as (Ho1 & Hs1 & Hp1 & Hc1).
  destruct (input_block_char _ c Hwf1) as (Ho2 & Hs2 & Hp2 & Hc2).
  destruct (input_block_char b (a ++ c) Hwf) as (Ho3 & Hs3 & Hp3 & Hc3).
  rewrite Hs1 in Ho2, Hs2, Hp2, Hc2. rewrite Hc1 in Ho2, Hp2, Hc2.
  destruct Hwf as [Hpos Hsz].
  set (size := bb_size b) in *.
  set (all1 := bb_content b ++ a) in *.
  rewrite app_assoc in Ho3, Hp3, Hc3. fold all1 in Ho3, Hp3, Hc3.
  rewrite app_length in Ho3, Hp3, Hc3.
  destruct (eager_count_bounds size (length all1) Hsz) as (B1 & B2).
  set (n1 := eager_count size (length all1)) in *.
  assert (Hl2 : length (skipn (n1 * size) all1 ++ c) = length all1 - n1 * size + length c)
    by (rewrite app_length, skipn_length; reflexivity).
  rewrite Hl2 in Ho2, Hp2, Hc2.
  rewrite (eager_count_add size (length all1) (length c) Hsz) in Ho3, Hp3, Hc3. fold n1 in Ho3, Hp3, Hc3.
  set (n2 := eager_count size (length all1 - n1 * size + length c)) in *.
  destruct (eager_count_bounds size (length all1 - n1 * size + length c) Hsz) as (C1 & C2).
  fold n2 in C1, C2.
  split.
  - rewrite Ho3, Ho1, Ho2, take_blocks_add.
    rewrite take_blocks_app_le by lia. rewrite skipn_app_le by lia. reflexivity.
  - unfold bb_eqv. rewrite Hs2, Hs3, Hp2, Hp3, Hc2, Hc3.
    split; [reflexivity|]. split; [lia|].
    replace ((n1 + n2) * size) with (n1 * size + n2 * size) by lia.
    rewrite <- skipn_skipn_add.
    rewrite (skipn_app_le all1 c) by lia. reflexivity.
Qed.
