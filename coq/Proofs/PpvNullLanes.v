(** C19 — scalar lane lemmas: each Rust primitive used by ppv-null (as modelled in
    Model/PpvNull.v) equals the arithmetic meaning of Spec/NullLanes.v. *)
From Coq Require Import NArith List Bool Lia.
From CC Require Import Lib.Words Lib.ListX Spec.NullLanes Model.PpvNull.
Import ListNotations.
Local Open Scope N_scope.

Lemma lane_rotr_disjoint w r x : x < 2 ^ w -> r <= w ->
  N.land (x / 2 ^ r) ((x mod 2 ^ r) * 2 ^ (w - r)) = 0.
Proof.
  intros Hx Hr. apply N.bits_inj. intro m.
  rewrite N.land_spec, N.bits_0, N.div_pow2_bits.
  destruct (N.ltb_spec m (w - r)) as [H|H].
  - rewrite N.mul_pow2_bits_low by assumption. apply andb_false_r.
  - rewrite (testbit_high w x (m + r)) by (assumption || lia). reflexivity.
Qed.

Lemma lane_rotr_lor w r x : x < 2 ^ w -> r <= w ->
  lane_rotr w r x = N.lor (x / 2 ^ r) ((x mod 2 ^ r) * 2 ^ (w - r)).
Proof.
  intros Hx Hr. unfold lane_rotr.
  rewrite N.add_nocarry_lxor by now apply lane_rotr_disjoint.
  apply N.lxor_lor. now apply lane_rotr_disjoint.
Qed.

Lemma testbit_lane_rotr w r x i : x < 2 ^ w -> r <= w ->
  N.testbit (lane_rotr w r x) i =
  (i <? w) && (if i + r <? w then N.testbit x (i + r) else N.testbit x (i + r - w)).
Proof.
  intros Hx Hr. rewrite lane_rotr_lor by assumption.
  rewrite N.lor_spec, N.div_pow2_bits.
  destruct (N.ltb_spec i w) as [Hi|Hi]; cbn [andb].
  - destruct (N.ltb_spec (i + r) w) as [H|H].
    + rewrite N.mul_pow2_bits_low by lia. apply orb_false_r.
    + rewrite (testbit_high w x (i + r)) by (assumption || lia). cbn [orb].
      rewrite N.mul_pow2_bits_high by lia.
      rewrite N.mod_pow2_bits_low by lia. f_equal. lia.
  - rewrite (testbit_high w x (i + r)) by (assumption || lia). cbn [orb].
    rewrite N.mul_pow2_bits_high by lia.
    apply N.mod_pow2_bits_high. lia.
Qed.

Lemma rotrw_lane w r x : x < 2 ^ w -> r <= w -> rotrw w r x = lane_rotr w r x.
Proof.
  intros Hx Hr. apply N.bits_inj. intro i.
  now rewrite testbit_rotrw, testbit_lane_rotr.
Qed.

Lemma lane_rotr_lt w r x : x < 2 ^ w -> r <= w -> lane_rotr w r x < 2 ^ w.
Proof. intros. rewrite <- rotrw_lane by assumption. apply rotrw_lt. Qed.
(** ** rotate_right: the amount is reduced modulo the width *)
Lemma amount32 i : N.land (as_u32 i) (32 - 1) = i mod 32.
Proof.
  unfold as_u32, wrap. rewrite <- N.land_assoc.
  change (N.land (N.ones 32) (32 - 1)) with (N.ones 5). now rewrite N.land_ones.
Qed.
Lemma amount64 i : N.land (as_u32 i) (64 - 1) = i mod 64.
Proof.
  unfold as_u32, wrap. rewrite <- N.land_assoc.
  change (N.land (N.ones 32) (64 - 1)) with (N.ones 6). now rewrite N.land_ones.
Qed.
Lemma amount128 i : N.land (as_u32 i) (128 - 1) = i mod 128.
Proof.
  unfold as_u32, wrap. rewrite <- N.land_assoc.
  change (N.land (N.ones 32) (128 - 1)) with (N.ones 7). now rewrite N.land_ones.
Qed.

Lemma rotate_right_lane w x i : (w = 32 \/ w = 64 \/ w = 128) -> x < 2 ^ w ->
  rotate_right w x (as_u32 i) = lane_rotr w (i mod w) x.
Proof.
  intros Hw Hx. unfold rotate_right.
  assert (E : N.land (as_u32 i) (w - 1) = i mod w)
    by (destruct Hw as [->|[->| ->]]; [apply amount32|apply amount64|apply amount128]).
  rewrite E. apply rotrw_lane; [assumption|].
  apply N.lt_le_incl, N.mod_lt. destruct Hw as [->|[->| ->]]; discriminate.
Qed.

(** ** not *)
Lemma bitnot_lane w a : 0 < w -> a < 2 ^ w -> bitnot w a = lane_not w a.
Proof.
  intros Hw Ha. unfold bitnot, notw, lane_not. rewrite wrap_small by assumption.
  change (N.lxor a (N.ones w)) with (N.lnot a w).
  rewrite N.lnot_sub_low.
  - rewrite N.ones_equiv, <- N.sub_1_r. reflexivity.
  - destruct (N.eq_dec a 0) as [->|Hnz]; [exact Hw|]. apply N.log2_lt_pow2; lia.
Qed.

(** ** splat_rotate_right: shift-or rotation, 1 <= i < w *)
Lemma shiftr_lt w x i : x < 2 ^ w -> N.shiftr x i < 2 ^ w.
Proof.
  intro Hx. rewrite N.shiftr_div_pow2.
  eapply N.le_lt_trans; [|exact Hx]. apply N.div_le_upper_bound; [apply pow2_nz|].
  pose proof (pow2_pos i). nia.
Qed.

Lemma splat_rotr_lane_ok p w x i : w < 2 ^ 32 -> x < 2 ^ w -> 1 <= i -> i < w ->
  splat_rotr_lane w p x i = Ok (lane_rotr w i x).
Proof.
  intros Hw Hx H1 Hi. unfold splat_rotr_lane, shr_chk, sub_chk, shl_chk.
  replace (i <? w) with true by (symmetry; apply N.ltb_lt; assumption).
  cbn [bind].
  replace (i <=? w) with true by (symmetry; apply N.leb_le; lia).
  cbn [bind].
  replace (w - i <? w) with true by (symmetry; apply N.ltb_lt; lia).
  cbn [bind]. f_equal.
  rewrite <- rotrw_lane by (assumption || lia). unfold rotrw, wrap.
  rewrite N.land_lor_distr_l. f_equal.
  symmetry. apply wrap_small. now apply shiftr_lt.
Qed.

(** ** swapN *)
Lemma testbit_of_bits l : forall j, N.testbit (of_bits l) j = nth (N.to_nat j) l false.
Proof.
  induction l as [|b r IH]; intro j; cbn [of_bits].
  - rewrite N.bits_0. now destruct (N.to_nat j).
  - rewrite N.add_comm.
    destruct (N.eq_dec j 0) as [->|Hj].
    + now rewrite N.testbit_0_r.
    + rewrite <- (N.succ_pred j Hj), N.testbit_succ_r, N2Nat.inj_succ. cbn [nth]. apply IH.
Qed.

Lemma testbit_lane_swap w n x j :
  N.testbit (lane_swap w n x) j = if j <? w then N.testbit x (N.lxor j n) else false.
Proof.
  unfold lane_swap, bit_positions. rewrite testbit_of_bits, map_map.
  destruct (N.ltb_spec j w) as [H|H].
  - rewrite nth_map_seq by lia. now rewrite N2Nat.id.
  - apply nth_overflow. rewrite map_length, seq_length. lia.
Qed.

Lemma lane_swap_lt w n x : lane_swap w n x < 2 ^ w.
Proof.
  destruct (N.eq_dec (lane_swap w n x) 0) as [->|Hnz]; [apply pow2_pos|].
  apply N.log2_lt_pow2; [lia|].
  destruct (N.lt_ge_cases (N.log2 (lane_swap w n x)) w) as [H|H]; [assumption|].
  pose proof (N.bit_log2 _ Hnz) as Hb. rewrite testbit_lane_swap in Hb.
  destruct (N.ltb_spec (N.log2 (lane_swap w n x)) w); [lia|discriminate].
Qed.

Lemma in_bit_positions w j : j < w -> In j (bit_positions w).
Proof.
  intro H. unfold bit_positions. apply in_map_iff. exists (N.to_nat j). split.
  - apply N2Nat.id.
  - apply in_seq. lia.
Qed.

(** the mask/shift formula of [define_vec1!]'s private [swap] *)
Definition swap_formula (x m n : N) : N :=
  N.lor (N.shiftr (N.land x m) n) (N.land (wrap 128 (N.shiftl x n)) m).

Lemma testbit_swap_formula x m n j :
  N.testbit (swap_formula x m n) j =
  (N.testbit x (j + n) && N.testbit m (j + n))
  || ((if n <=? j then N.testbit x (j - n) else false) && (j <? 128) && N.testbit m j).
Proof.
  unfold swap_formula.
  now rewrite N.lor_spec, N.shiftr_spec', !N.land_spec, testbit_wrap, testbit_shiftl.
Qed.

(** per bit position: which of the two terms supplies bit [j], and that it is bit [j xor n] *)
Definition swap_ok (m n j : N) : bool :=
  if N.testbit m (j + n)
  then (N.lxor j n =? j + n) && negb ((n <=? j) && N.testbit m j)
  else (n <=? j) && N.testbit m j && (N.lxor j n =? j - n).

Lemma swap_formula_lane m n x :
  forallb (swap_ok m n) (bit_positions 128) = true ->
  m < 2 ^ 128 -> x < 2 ^ 128 ->
  swap_formula x m n = lane_swap 128 n x.
Proof.
  intros Hall Hm Hx. apply N.bits_inj. intro j.
  rewrite testbit_swap_formula, testbit_lane_swap.
  destruct (N.ltb_spec j 128) as [Hj|Hj].
  - rewrite forallb_forall in Hall. specialize (Hall j (in_bit_positions _ _ Hj)).
    unfold swap_ok in Hall.
    destruct (N.testbit m (j + n)).
    + apply andb_prop in Hall. destruct Hall as [E Hn].
      apply N.eqb_eq in E. rewrite E, andb_true_r.
      destruct (n <=? j); cbn [andb negb] in *.
      * destruct (N.testbit m j); [discriminate|]. now rewrite andb_false_r, orb_false_r.
      * now rewrite orb_false_r.
    + apply andb_prop in Hall. destruct Hall as [Hall E].
      apply andb_prop in Hall. destruct Hall as [Hn Hmj].
      apply N.eqb_eq in E. rewrite E, Hn, Hmj, andb_false_r. cbn [orb].
      now rewrite !andb_true_r.
  - rewrite (testbit_high 128 m (j + n)) by (assumption || lia).
    now rewrite andb_false_r, andb_false_r.
Qed.

Definition m1 := 0xaaaaaaaaaaaaaaaaaaaaaaaaaaaaaaaa.
Definition m2 := 0xcccccccccccccccccccccccccccccccc.
Definition m4 := 0xf0f0f0f0f0f0f0f0f0f0f0f0f0f0f0f0.
Definition m8 := 0xff00ff00ff00ff00ff00ff00ff00ff00.
Definition m16 := 0xffff0000ffff0000ffff0000ffff0000.
Definition m32 := 0xffffffff00000000ffffffff00000000.

Lemma swap_masks_ok :
  forallb (fun mn => forallb (swap_ok (fst mn) (snd mn)) (bit_positions 128) && (fst mn <? 2 ^ 128))
    [(m1, 1); (m2, 2); (m4, 4); (m8, 8); (m16, 16); (m32, 32)] = true.
Proof. vm_compute. reflexivity. Qed.

Lemma v1_swap_lane p x m n :
  In (m, n) [(m1, 1); (m2, 2); (m4, 4); (m8, 8); (m16, 16); (m32, 32)] ->
  x < 2 ^ 128 -> v1_swap 128 p [x] m n = Ok [lane_swap 128 n x].
Proof.
  intros Hin Hx.
  pose proof swap_masks_ok as H. rewrite forallb_forall in H. specialize (H _ Hin).
  cbn [fst snd] in H. apply andb_prop in H. destruct H as [Hall Hm]. apply N.ltb_lt in Hm.
  assert (Hn : n < 128) by (cbn [In] in Hin;
    repeat (destruct Hin as [Hin|Hin]; [injection Hin as <- <-; reflexivity|]); contradiction).
  unfold v1_swap, shr_chk, shl_chk, f0. cbn [nth].
  replace (n <? 128) with true by (symmetry; now apply N.ltb_lt).
  cbn [bind]. do 2 f_equal. now apply swap_formula_lane.
Qed.

(** [swap64]: [x << 64 | x >> 64] *)
Lemma lxor64 : forallb (fun j => N.lxor j 64 =? (if j + 64 <? 128 then j + 64 else j + 64 - 128)) (bit_positions 128) = true.
Proof. vm_compute. reflexivity. Qed.

Lemma v1_swap64_lane p x : x < 2 ^ 128 -> v1_swap64 128 p [x] = Ok [lane_swap 128 64 x].
Proof.
  intro Hx. unfold v1_swap64, shr_chk, shl_chk, f0. cbn [nth].
  change (64 <? 128) with true. cbn [bind]. do 2 f_equal.
  apply N.bits_inj. intro j.
  rewrite N.lor_comm, <- (wrap_small 128 (N.shiftr x 64)) by now apply shiftr_lt.
  unfold wrap at 1 2. rewrite <- N.land_lor_distr_l.
  change (N.land (N.lor (N.shiftr x 64) (N.shiftl x 64)) (N.ones 128)) with (rotrw 128 64 x).
  rewrite testbit_rotrw by (assumption || discriminate). rewrite testbit_lane_swap.
  destruct (N.ltb_spec j 128) as [Hj|Hj]; [|reflexivity]. cbn [andb].
  pose proof lxor64 as H. rewrite forallb_forall in H. specialize (H j (in_bit_positions _ _ Hj)).
  apply N.eqb_eq in H. rewrite H. now destruct (j + 64 <? 128).
Qed.
