(** C17 (JH part), work package c17-fromstate: a hasher ENTERED through the state hook
    (128-byte chaining value, byte counter [datalen], buffered bytes), continued by any sequence
    of [update] calls and [finalize], yields the specification continued from that chaining
    value:

      [h_finalize] after [h_updates] from the entered state
        = [Spec.JH.jh_tail size cv (datalen + bytes fed) (buffered ++ bytes fed)]

    ([Spec.JH.jh_tail] is what Run/JH.v [spec_run] evaluates for hook cases; the entered state
    [entered v cv D buffered] is literally the state Run/JH.v [model_run] builds), in both build
    profiles, without overflow panic, for fewer than 2^61 bytes in total, for the four variants.

    Consistency hypothesis (stated explicitly): [D mod 64 = length buffered] - the byte counter
    and the buffer position agree, as in every state reached by hashing
    ([reached_state_consistent]); Run/JH.v [spec_applies] tests exactly this and the bound.

    [inv_from]                   the invariant of Proofs/JHPad.v with an arbitrary starting
                                 compressor state and a prior byte count [P]
    [from_state_len_exact]       no panic, counter = D + bytes fed, length field = 8 * that
    [from_state_blocks_eq_spec]  blocks compressed = blocks of [Spec.JH.pad_tail]
    [from_state_digest_eq_spec]  digest = [Spec.JH.jh_tail]  (the theorem asked for)
    [run_hook_model_eq_spec]     the same in the vocabulary of Run/JH.v *)
From Coq Require Import NArith List Arith Bool Lia.
From CC Require Import Lib.Words Lib.Bytes Lib.ListX Model.BlockBuffer Model.JH
  Proofs.BlockBufferLazy Proofs.BlockBufferEager.
From CC Require Spec.JH.
From CC Require Import Proofs.JHWf Proofs.JHF8 Proofs.JHTables Proofs.JHPad Proofs.JHDigest.
Import ListNotations.

(** * the state of a hasher that started from compressor state [st0] with [P] bytes counted
      (nothing buffered) and has since absorbed the bytes [D] *)
Definition inv_from (st0 : x8) (P : N) (h : hasher) (D : list N) : Prop :=
  let q := length D / 64 in
  bb_size (h_buffer h) = 64
  /\ bb_pos (h_buffer h) = length D - q * 64
  /\ bb_content (h_buffer h) = skipn (q * 64) D
  /\ h_state h = fold_left compressor_input (take_blocks 64 q D) st0
  /\ h_datalen h = (P + N.of_nat (length D))%N.

(** the invariant of Proofs/JHPad.v is the instance [st0 = new(H0)], [P = 0] *)
Lemma inv_is_inv_from v h D : inv v h D <-> inv_from (compressor_new (v_h0 v)) 0 h D.
Proof. unfold inv, inv_from. cbv zeta. rewrite N.add_0_l. reflexivity. Qed.

Lemma inv_from_pos st0 P h D : inv_from st0 P h D -> bb_pos (h_buffer h) = length D mod 64.
Proof. intros (_ & Hp & _). rewrite Hp. apply sub_div_mod. Qed.

Lemma inv_from_wf st0 P h D : inv_from st0 P h D -> bb_wf (h_buffer h).
Proof.
  intros Hi. pose proof (inv_from_pos st0 P h D Hi) as Hp. destruct Hi as (Hs & _).
  pose proof (Nat.mod_upper_bound (length D) 64 ltac:(discriminate)).
  unfold bb_wf. rewrite Hs, Hp. lia.
Qed.

(** one [update]: no overflow below 2^64 bytes, and the invariant is kept *)
Lemma update_inv_from p st0 P h D d :
  inv_from st0 P h D -> (P + N.of_nat (length (D ++ d)) < 2 ^ 64)%N ->
  exists h1, h_update p h d = Some h1 /\ inv_from st0 P h1 (D ++ d).
Proof.
  intros Hi Hlt. pose proof (inv_from_wf st0 P h D Hi) as Hwf.
  destruct Hi as (Hs & Hp & Hc & Hst & Hdl).
  destruct h as [st b dl]. cbn [h_state h_buffer h_datalen] in *.
  unfold h_update. cbn [h_datalen h_buffer h_state].
  replace (dl + N.of_nat (length d))%N with (P + N.of_nat (length (D ++ d)))%N
    by (rewrite Hdl, app_length; lia).
  destruct (N.leb_spec (2 ^ 64) (P + N.of_nat (length (D ++ d)))) as [H|_]; [lia|].
  rewrite andb_false_r.
  destruct (input_block_char b d Hwf) as (Ho & Hs1 & Hp1 & Hc1).
  destruct (input_block b d) as [b1 blocks]. cbn [fst snd] in *.
  eexists. split; [reflexivity|].
  rewrite Hs, Hc in *. clear Hs Hc.
  set (q := length D / 64) in *.
  assert (B1 : q * 64 <= length D)
    by (apply (eager_count_bounds 64 (length D)); lia).
  set (all := skipn (q * 64) D ++ d) in *.
  assert (Hall : length all = length D - q * 64 + length d)
    by (unfold all; rewrite app_length, skipn_length; reflexivity).
  set (n := eager_count 64 (length all)) in *.
  assert (Hq : length (D ++ d) / 64 = q + n).
  { rewrite app_length. unfold n. rewrite Hall.
    apply (eager_count_add 64 (length D) (length d)). lia. }
  assert (C1 : n * 64 <= length all)
    by (apply (eager_count_bounds 64 (length all)); lia).
  unfold inv_from. cbn [h_state h_buffer h_datalen]. cbv zeta. rewrite Hq.
  split; [exact Hs1|].
  split; [rewrite Hp1, app_length; lia|].
  split.
  { rewrite Hc1. replace ((q + n) * 64) with (q * 64 + n * 64) by lia.
    rewrite <- skipn_skipn_add. rewrite (skipn_app_le D d) by lia. reflexivity. }
  split.
  { rewrite Hst, Ho, <- fold_left_app. f_equal.
    rewrite take_blocks_add. rewrite take_blocks_app_le by lia.
    rewrite skipn_app_le by lia. reflexivity. }
  apply wrap_small. exact Hlt.
Qed.

(** any sequence of [update] calls *)
Lemma updates_inv_from p st0 P calls : forall h D,
  inv_from st0 P h D -> (P + N.of_nat (length (D ++ concat calls)) < 2 ^ 64)%N ->
  exists h', h_updates p h calls = Some h' /\ inv_from st0 P h' (D ++ concat calls).
Proof.
  induction calls as [|d r IH]; intros h D Hi Hlt; cbn [h_updates concat] in *.
  - exists h. rewrite app_nil_r. split; [reflexivity|exact Hi].
  - destruct (update_inv_from p st0 P h D d Hi) as (h1 & Hu & Hi1).
    { rewrite !app_length in *. lia. }
    rewrite Hu. rewrite app_assoc in *. apply IH; assumption.
Qed.

(** [self.datalen as u64 * 8] is exact below 2^61 bytes *)
Lemma bitlen_inv_from p st0 P h D :
  inv_from st0 P h D -> (P + N.of_nat (length D) < 2 ^ 61)%N ->
  h_bitlen p h = Some (8 * (P + N.of_nat (length D)))%N.
Proof.
  intros (_ & _ & _ & _ & Hdl) Hlt. unfold h_bitlen. rewrite Hdl.
  rewrite pow_2_61 in Hlt.
  destruct (N.leb_spec (2 ^ 64) ((P + N.of_nat (length D)) * 8)) as [H|H];
    [rewrite pow_2_64 in H; lia|].
  rewrite andb_false_r, wrap_small by exact H. f_equal. apply N.mul_comm.
Qed.

Lemma final_inv_from st0 P h D len :
  inv_from st0 P h D -> (len < 2 ^ 64)%N ->
  h_final_blocks h len =
  Some (Spec.JH.blocks_of (skipn (length D / 64 * 64) D ++ suffix (length D mod 64) len)).
Proof.
  intros Hi Hl. pose proof (inv_from_pos st0 P h D Hi) as Hp. destruct Hi as (Hs & _ & Hc & _).
  destruct h as [st b dl]. cbn [h_buffer] in *.
  rewrite final_blocks_char; [rewrite Hc, Hp; reflexivity|exact Hs| |exact Hl].
  rewrite Hp. apply Nat.mod_upper_bound. discriminate.
Qed.

(** the continuation form of the specified padding: [D] is the not yet compressed rest of a
    message of [P + length D] bytes of which a whole number of blocks ([P] bytes) is compressed *)
Lemma pad_tail_suffix P D : (P mod 64 = 0)%N ->
  Spec.JH.pad_tail (P + N.of_nat (length D)) D
  = D ++ suffix (length D mod 64) (8 * (P + N.of_nat (length D))).
Proof.
  intros HP. unfold Spec.JH.pad_tail, suffix. do 4 f_equal.
  assert (E : ((P + N.of_nat (length D)) mod 64 = N.of_nat (length D mod 64))%N).
  { rewrite <- N.add_mod_idemp_l, HP, N.add_0_l by discriminate.
    change 64%N with (N.of_nat 64). rewrite <- Nat2N.inj_mod. reflexivity. }
  rewrite E.
  pose proof (Nat.mod_upper_bound (length D) 64 ltac:(discriminate)) as U.
  replace (64 - N.of_nat (length D mod 64))%N with (N.of_nat (64 - length D mod 64)) by lia.
  change 64%N with (N.of_nat 64). rewrite <- Nat2N.inj_mod, Nat2N.id. reflexivity.
Qed.

(** the complete list of blocks compressed since the start state: those compressed by the
    [update] calls, then those of [finalize] = the blocks of the continued padding *)
Lemma inv_from_blocks_spec st0 P h D :
  inv_from st0 P h D -> (P mod 64 = 0)%N -> (P + N.of_nat (length D) < 2 ^ 61)%N ->
  exists fin, h_final_blocks h (8 * (P + N.of_nat (length D))) = Some fin
    /\ take_blocks 64 (length D / 64) D ++ fin
       = Spec.JH.blocks_of (Spec.JH.pad_tail (P + N.of_nat (length D)) D).
Proof.
  intros Hi HP Hlt. eexists. split; [apply (final_inv_from st0 P h D _ Hi), bitlen_lt, Hlt|].
  rewrite (pad_tail_suffix P D HP). symmetry. apply blocks_of_split.
  apply (eager_count_bounds 64 (length D)). lia.
Qed.

(** * the entered state (hook [verif_set_state]); literally the [h1] of Run/JH.v [model_run] *)
Definition entered (v : variant) (cv : list N) (D : N) (buffered : list N) : hasher :=
  Hasher (compressor_new cv)
         (fst (input_block (bb_reset (h_buffer (h_default v))) buffered))
         D.

Lemma consistent_short D (buffered : list N) :
  (D mod 64 = N.of_nat (length buffered))%N -> length buffered < 64 /\ (N.of_nat (length buffered) <= D)%N.
Proof.
  intros H. pose proof (N.mod_upper_bound D 64 ltac:(discriminate)) as U.
  pose proof (N.mod_le D 64 ltac:(discriminate)) as L. rewrite H in U, L. split; [lia|exact L].
Qed.

Lemma entered_inv v cv D buffered :
  (D mod 64 = N.of_nat (length buffered))%N ->
  inv_from (compressor_new cv) (D - N.of_nat (length buffered)) (entered v cv D buffered) buffered.
Proof.
  intros Hc. destruct (consistent_short D buffered Hc) as [Hlt Hle].
  unfold entered, h_default. cbn [h_buffer].
  assert (Hwf : bb_wf (bb_reset (bb_new 64))).
  { unfold bb_wf, bb_reset, bb_new, bb_size. cbn [bb_buf bb_pos]. rewrite repeat_length. lia. }
  destruct (input_block_char (bb_reset (bb_new 64)) buffered Hwf) as (_ & Hs1 & Hp1 & Hc1).
  assert (Hsz : bb_size (bb_reset (bb_new 64)) = 64) by reflexivity.
  assert (Hct : bb_content (bb_reset (bb_new 64)) = []) by reflexivity.
  rewrite Hsz, Hct in *. cbn [app] in *.
  rewrite (eager_count_small 64 (length buffered) Hlt) in *.
  unfold inv_from. cbn [h_state h_buffer h_datalen]. cbv zeta.
  rewrite (Nat.div_small (length buffered) 64 Hlt).
  split; [exact Hs1|]. split; [exact Hp1|]. split; [exact Hc1|].
  split; [reflexivity|lia].
Qed.

Lemma prior_whole_blocks D (buffered : list N) :
  (D mod 64 = N.of_nat (length buffered))%N -> ((D - N.of_nat (length buffered)) mod 64 = 0)%N.
Proof.
  intros H. rewrite <- H.
  pose proof (N.div_mod D 64 ltac:(discriminate)) as E.
  assert (X : (D - D mod 64 = 64 * (D / 64))%N).
  { set (x := (D / 64)%N) in *. set (y := (D mod 64)%N) in *. clearbody x y. lia. }
  rewrite X.
  rewrite N.mul_comm. apply N.mod_mul. discriminate.
Qed.

Section FromState.
  Variables (p : profile) (v : variant) (cv : list N) (D : N) (buffered : list N) (calls : list (list N)).
  Hypothesis Hcons : (D mod 64 = N.of_nat (length buffered))%N.
  Hypothesis Hlt : (D + N.of_nat (length (concat calls)) < 2 ^ 61)%N.

  Local Notation total := (D + N.of_nat (length (concat calls)))%N.
  Local Notation data := (buffered ++ concat calls).
  Local Notation P := (D - N.of_nat (length buffered))%N.

  Lemma total_eq : (P + N.of_nat (length data))%N = total.
  Proof. destruct (consistent_short D buffered Hcons) as [_ Hle]. rewrite app_length. lia. Qed.

  Lemma from_state_inv :
    exists h, h_updates p (entered v cv D buffered) calls = Some h
           /\ inv_from (compressor_new cv) P h data.
  Proof.
    apply (updates_inv_from p (compressor_new cv) P calls _ buffered (entered_inv v cv D buffered Hcons)).
    rewrite total_eq. apply lt_61_64, Hlt.
  Qed.

  (** no overflow panic in either profile; the byte counter and the bit length written into the
      final block are exact; buffer position and compressor state as read back by the hook *)
  Theorem from_state_len_exact :
    exists h, h_updates p (entered v cv D buffered) calls = Some h
           /\ h_datalen h = total
           /\ h_bitlen p h = Some (8 * total)%N
           /\ bb_pos (h_buffer h) = length data mod 64
           /\ h_state h = fold_left compressor_input (take_blocks 64 (length data / 64) data) (compressor_new cv).
  Proof.
    destruct from_state_inv as (h & Hu & Hi). exists h. split; [exact Hu|].
    split; [rewrite <- total_eq; apply Hi|].
    split; [rewrite <- total_eq; apply (bitlen_inv_from p _ _ h _ Hi); rewrite total_eq; exact Hlt|].
    split; [exact (inv_from_pos _ _ _ _ Hi)|apply Hi].
  Qed.

  (** the blocks compressed from the entered state on (by the [update] calls, then by
      [finalize]) are the blocks of the specified padding continued at [total] bytes *)
  Theorem from_state_blocks_eq_spec :
    exists h bl fin,
      h_updates p (entered v cv D buffered) calls = Some h
      /\ h_state h = fold_left compressor_input bl (compressor_new cv)
      /\ h_bitlen p h = Some (8 * total)%N
      /\ h_final_blocks h (8 * total) = Some fin
      /\ bl ++ fin = Spec.JH.blocks_of (Spec.JH.pad_tail total data).
  Proof.
    destruct from_state_inv as (h & Hu & Hi).
    destruct (inv_from_blocks_spec _ _ h _ Hi (prior_whole_blocks D buffered Hcons)) as (fin & Hf & Hb).
    { rewrite total_eq. exact Hlt. }
    rewrite total_eq in Hf, Hb.
    exists h, (take_blocks 64 (length data / 64) data), fin.
    split; [exact Hu|]. split; [apply Hi|].
    split; [rewrite <- total_eq; apply (bitlen_inv_from p _ _ h _ Hi); rewrite total_eq; exact Hlt|].
    split; [exact Hf|exact Hb].
  Qed.
End FromState.

(** * digest level *)
Lemma pad_tail_bytes total data : Forall is_byte data -> Forall is_byte (Spec.JH.pad_tail total data).
Proof.
  intros H. unfold Spec.JH.pad_tail.
  apply Forall_app. split; [exact H|]. apply Forall_app. split; [repeat constructor|].
  apply Forall_app. split; [|apply be_split_bytes].
  apply Forall_forall. intros x Hx. apply repeat_spec in Hx. subst x. reflexivity.
Qed.

Lemma blocks_tail_ok total data :
  Forall is_byte data -> Forall block_ok (Spec.JH.blocks_of (Spec.JH.pad_tail total data)).
Proof.
  intros H. unfold Spec.JH.blocks_of.
  set (pd := Spec.JH.pad_tail total data).
  pose proof (chunks_exact_Forall_length 64 (length pd) pd) as L.
  pose proof (chunks_exact_Forall_bytes 64 (length pd) pd (pad_tail_bytes total data H)) as B.
  rewrite Forall_forall in *. intros b Hb. split; [apply L|apply B]; exact Hb.
Qed.

(** THE from-state theorem: every variant, both profiles, every chaining value (128 bytes),
    every consistent counter value, every buffered prefix, every sequence of update calls,
    fewer than 2^61 bytes in total: no panic and the digest is the specification continued from
    the chaining value *)
Theorem from_state_digest_eq_spec p v size cv D buffered calls :
  variant_size v size ->
  length cv = 128 -> Forall is_byte cv ->
  Forall is_byte buffered -> Forall is_byte (concat calls) ->
  (D mod 64 = N.of_nat (length buffered))%N ->
  (D + N.of_nat (length (concat calls)) < 2 ^ 61)%N ->
  exists h, h_updates p (entered v cv D buffered) calls = Some h
         /\ h_datalen h = (D + N.of_nat (length (concat calls)))%N
         /\ h_bitlen p h = Some (8 * (D + N.of_nat (length (concat calls))))%N
         /\ h_finalize p v h
            = Some (Spec.JH.jh_tail size cv (D + N.of_nat (length (concat calls))) (buffered ++ concat calls)).
Proof.
  intros Hv Lcv Bcv Bb Bc Hcons Hlt.
  destruct (variant_facts v size Hv) as (_ & Eo & _ & _).
  destruct (from_state_blocks_eq_spec p v cv D buffered calls Hcons Hlt) as (h & bl & fin & Hu & Hst & Hbl & Hf & Hb).
  destruct (from_state_len_exact p v cv D buffered calls Hcons Hlt) as (h' & Hu' & Hdl & _).
  rewrite Hu in Hu'. injection Hu' as <-.
  exists h. split; [exact Hu|]. split; [exact Hdl|]. split; [exact Hbl|].
  unfold h_finalize. rewrite Hbl, Hf, Hst, <- fold_left_app, Hb.
  rewrite fold_f8_eq_spec;
    [|apply new_wf; assumption|apply blocks_tail_ok, Forall_app; split; assumption].
  rewrite finalize_new by assumption.
  unfold Spec.JH.jh_tail. cbv zeta. rewrite Eo. reflexivity.
Qed.

(** * the consistency hypothesis is met by every state reached by really hashing *)
Lemma reached_state_consistent p v calls :
  (N.of_nat (length (concat calls)) < 2 ^ 64)%N ->
  exists h, h_updates p (h_default v) calls = Some h
         /\ (h_datalen h mod 64 = N.of_nat (length (bb_content (h_buffer h))))%N
         /\ length (bb_content (h_buffer h)) = bb_pos (h_buffer h)
         /\ bb_size (h_buffer h) = 64.
Proof.
  intros Hlt.
  destruct (updates_inv p v calls (h_default v) [] (inv_default v)) as (h & Hu & Hi); [exact Hlt|].
  cbn [app] in Hi. exists h. split; [exact Hu|].
  pose proof (inv_pos v h _ Hi) as Hp. destruct Hi as (Hs & _ & Hc & _ & Hdl).
  assert (Hl : length (bb_content (h_buffer h)) = bb_pos (h_buffer h)).
  { apply bb_content_length. rewrite Hs, Hp.
    pose proof (Nat.mod_upper_bound (length (concat calls)) 64 ltac:(discriminate)). lia. }
  split; [|split; [exact Hl|exact Hs]].
  rewrite Hl, Hp, Hdl. change 64%N with (N.of_nat 64). rewrite <- Nat2N.inj_mod. reflexivity.
Qed.

(** a state really reached (JH-256, 60 + 15 bytes in two calls: one block compressed, 11 bytes
    buffered over a stale buffer), read back as the hook does, and entered again: the hypotheses
    of the from-state theorem hold, and it gives the digest of a 200-byte continuation *)
Definition ex_calls : list (list N) := [repeat 1%N 60; repeat 2%N 15].
Definition ex_reached : hasher :=
  match h_updates Debug (h_default Jh256) ex_calls with Some h => h | None => h_default Jh256 end.
Definition ex_cv : list N := compressor_finalize (h_state ex_reached).
Definition ex_D : N := h_datalen ex_reached.
Definition ex_buffered : list N := bb_content (h_buffer ex_reached).
Definition ex_more : list (list N) := [repeat 3%N 100; []; repeat 4%N 100].

Example reached_state_values :
  h_updates Debug (h_default Jh256) ex_calls = Some ex_reached
  /\ ex_D = 75%N /\ ex_buffered = repeat 2%N 11 /\ length ex_cv = 128
  /\ (ex_D mod 64 = N.of_nat (length ex_buffered))%N.
Proof. vm_compute. repeat split; reflexivity. Qed.

Lemma forall_bytes l : forallb (fun x => (x <? 256)%N) l = true -> Forall is_byte l.
Proof.
  intros E. apply Forall_forall. intros x Hx. rewrite forallb_forall in E. apply N.ltb_lt. now apply E.
Qed.

Example reached_state_from_state_theorem_applies : forall p,
  exists h, h_updates p (entered Jh256 ex_cv ex_D ex_buffered) ex_more = Some h
         /\ h_datalen h = 275%N
         /\ h_bitlen p h = Some 2200%N
         /\ h_finalize p Jh256 h = Some (Spec.JH.jh_tail 256 ex_cv 275 (ex_buffered ++ concat ex_more)).
Proof.
  intros p.
  apply (from_state_digest_eq_spec p Jh256 256 ex_cv ex_D ex_buffered ex_more).
  - right. left. split; reflexivity.
  - vm_compute. reflexivity.
  - apply forall_bytes. vm_compute. reflexivity.
  - apply forall_bytes. vm_compute. reflexivity.
  - apply forall_bytes. vm_compute. reflexivity.
  - vm_compute. reflexivity.
  - vm_compute. reflexivity.
Qed.

(** ... and that continuation is the specified digest of the whole 275-byte message *)
Example reached_state_continuation_is_whole_digest :
  Spec.JH.jh_tail 256 ex_cv 275 (ex_buffered ++ concat ex_more)
  = Spec.JH.jh 256 (concat ex_calls ++ concat ex_more).
Proof. vm_compute. reflexivity. Qed.

(** a state entered far out: 2^32 bytes counted before (datalen = 2^32 + 11, i.e. across
    2^32 bytes = 2^35 bits), symbolic chaining value, both profiles *)
Example entered_state_above_2_32_bytes : forall p cv,
  length cv = 128 -> Forall is_byte cv ->
  exists h, h_updates p (entered Jh512 cv (2 ^ 32 + 11) ex_buffered) ex_more = Some h
         /\ h_datalen h = (2 ^ 32 + 211)%N
         /\ h_bitlen p h = Some (8 * (2 ^ 32 + 211))%N
         /\ h_finalize p Jh512 h = Some (Spec.JH.jh_tail 512 cv (2 ^ 32 + 211) (ex_buffered ++ concat ex_more)).
Proof.
  intros p cv Lcv Bcv.
  apply (from_state_digest_eq_spec p Jh512 512 cv (2 ^ 32 + 11) ex_buffered ex_more).
  - right. right. right. split; reflexivity.
  - exact Lcv.
  - exact Bcv.
  - apply forall_bytes. vm_compute. reflexivity.
  - apply forall_bytes. vm_compute. reflexivity.
  - vm_compute. reflexivity.
  - vm_compute. reflexivity.
Qed.

(** the bound is tight from an entered state too: at 2^61 bytes the bit length no longer fits *)
Example entered_state_limit : forall cv,
  h_bitlen Debug (entered Jh256 cv (2 ^ 61) []) = None
  /\ h_bitlen Release (entered Jh256 cv (2 ^ 61) []) = Some 0%N.
Proof. intros cv. split; reflexivity. Qed.

(** * the same in the vocabulary of Run/JH.v

    For every hook case of the correspondence check on which the runner compares with the
    specification ([spec_applies c = true]: counter consistent with the buffered bytes, total
    below 2^61 bytes), whatever the implementation's outputs stored in the case: the model run
    does not panic and its digest IS the specification value [spec_run c] the runner compares
    the implementation with.  (So on such a case [run_c06 c = true] says: implementation =
    model = specification continued from the entered state.) *)
From CC Require Run.Runner Run.JH.

Lemma B_length n x : length (Run.Runner.B n x) = N.to_nat n.
Proof. apply le_split_length. Qed.
Lemma B_bytes n x : Forall is_byte (Run.Runner.B n x).
Proof. apply le_split_bytes. Qed.

Lemma variant_of_size size :
  In size [224; 256; 384; 512]%N -> variant_size (Run.JH.variant_of size) size.
Proof.
  cbn [In]. intros [<-|[<-|[<-|[<-|[]]]]]; unfold variant_size, Run.JH.variant_of; cbn [N.eqb Pos.eqb];
    [left|right; left|right; right; left|right; right; right]; split; reflexivity.
Qed.

Lemma calls_of_concat c :
  concat (Run.JH.calls_of c) = Run.Runner.B (Run.JH.jc_len c) (Run.JH.jc_msg c).
Proof.
  unfold Run.JH.calls_of. destruct (N.eqb _ _); cbn [concat]; rewrite app_nil_r; [reflexivity|].
  apply firstn_skipn.
Qed.

Theorem run_hook_model_eq_spec c :
  In (Run.JH.jc_size c) [224; 256; 384; 512]%N ->
  Run.JH.jc_hook c = true -> Run.JH.spec_applies c = true ->
  exists dl pos cv,
    Run.JH.model_run c = Some (dl, pos, cv, Run.JH.spec_run c)
    /\ dl = (Run.JH.jc_datalen c + Run.JH.jc_len c)%N.
Proof.
  intros Hsz Hh Ha. unfold Run.JH.spec_applies in Ha. rewrite Hh in Ha.
  apply andb_true_iff in Ha. destruct Ha as [Hc Hl]. apply N.eqb_eq in Hc. apply N.ltb_lt in Hl.
  unfold Run.JH.model_run, Run.JH.spec_run. rewrite Hh. cbv zeta.
  set (v := Run.JH.variant_of (Run.JH.jc_size c)). set (p := Run.JH.prof_of c).
  set (cv := Run.Runner.B 128 (Run.JH.jc_cv c)).
  set (bf := Run.Runner.B (Run.JH.jc_nbuf c) (Run.JH.jc_buf c)).
  set (msg := Run.Runner.B (Run.JH.jc_len c) (Run.JH.jc_msg c)).
  change (Hasher (compressor_new cv) (fst (input_block (bb_reset (h_buffer (h_default v))) bf))
            (Run.JH.jc_datalen c)) with (entered v cv (Run.JH.jc_datalen c) bf).
  assert (Lb : N.of_nat (length bf) = Run.JH.jc_nbuf c) by (unfold bf; rewrite B_length; apply N2Nat.id).
  assert (Lm : N.of_nat (length (concat (Run.JH.calls_of c))) = Run.JH.jc_len c).
  { rewrite calls_of_concat, B_length. apply N2Nat.id. }
  destruct (from_state_digest_eq_spec p v (Run.JH.jc_size c) cv (Run.JH.jc_datalen c) bf (Run.JH.calls_of c))
    as (h & Hu & Hdl & _ & Hf).
  - apply variant_of_size, Hsz.
  - unfold cv. rewrite B_length. reflexivity.
  - apply B_bytes.
  - apply B_bytes.
  - rewrite calls_of_concat. apply B_bytes.
  - rewrite Lb. exact Hc.
  - rewrite Lm. exact Hl.
  - rewrite Hu, Hf. rewrite Lm, calls_of_concat in *. fold msg.
    eexists _, _, _. split; [reflexivity|exact Hdl].
Qed.
