(** Audit examples (tag HashA) for C04 (BLAKE) and C07 (Groestl).

    Every pinned main theorem of Props/C04.v and Props/C07.v is applied to
    concrete, non-trivial data: its hypotheses are discharged, and the
    conclusion is computed down to a literal digest.  The literals were
    produced by an implementation written independently by the auditor from
    the submission documents (Python, bit-level padding, pi computed by a
    Machin series, S-box computed from inverse + affine map), which
    reproduces the published vectors BLAKE-256(""), BLAKE-256(0x00),
    BLAKE-256(72 x 0x00), BLAKE-256/512("The quick brown fox jumps over the
    lazy dog"), Groestl-256(""), Groestl-256(0xcc).  No axioms. *)
From Coq Require Import NArith List Lia Arith.
From CC Require Import Lib.Words Lib.Bytes Lib.ListX Spec.AES Model.BlockBuffer
     Model.GroestlIntrinsics.
From CC Require Model.Blake Model.Groestl Spec.Blake Spec.Groestl.
From CC Require Import Proofs.BlakeRounds Proofs.GroestlLayout Proofs.GroestlSchedule.
From CC Require Import Props.C04 Props.C07.
Import ListNotations.
Ltac conj := repeat match goal with |- _ /\ _ => split end.
Ltac vmr := vm_compute; reflexivity.
Module MB := Model.Blake.
Module MG := Model.Groestl.
Module SBk := Spec.Blake.
Module SG := Spec.Groestl.

Definition hx (n : nat) (x : N) : list N := be_split n x.
(** 200 bytes 0,1,2,...,199: 4 blocks of 64 / 2 blocks of 128 incl. padding *)
Definition msg200 : list N := map N.of_nat (seq 0 200).
Definition ff (n : nat) : list N := repeat 0xff%N n.

(** * C04 *)

(** ** the four digest theorems: hypothesis met, conclusion = a literal digest
       on the model side (through the theorem) and on the spec side (computed) *)
Definition d_b256_200 := hx 32 0xc4d944c2b1c00a8ee627726b35d4cd7fe018de090bc637553cc782e25f974cba.
Definition d_b224_200 := hx 28 0x6232a150d66306fbd3a43413572eb96503fe447224e9ab1707172c22.
Definition d_b512_200 := hx 64 0xe327afcd4b6113e8f9571f030f60b4b85ea29df58c35ac1d0daceefe9edb17c6ce5a8bf5934214da6a3746f72c8b96cfce9625f4edf157408d67a6d3071d5980.
Definition d_b384_200 := hx 48 0x17a0c53fb0a5ff00f258da03cb2a08a568abba0b6eec3dd6cdb7a35237f4f19eeb206f4c768ba3e803d5069291f51cf7.

Example A_C04_blake256_msg200 :
  MB.blake256 msg200 = Some (SBk.hash SBk.blake256 msg200)
  /\ SBk.hash SBk.blake256 msg200 = d_b256_200
  /\ MB.blake256 msg200 = Some d_b256_200
  /\ length (SBk.schedule SBk.blake256 msg200) = 4.
Proof.
  split; [apply C04_blake256_eq_spec; vm_compute; reflexivity|].
  conj; vmr.
Qed.

Example A_C04_blake224_msg200 :
  MB.blake224 msg200 = Some (SBk.hash SBk.blake224 msg200)
  /\ SBk.hash SBk.blake224 msg200 = d_b224_200
  /\ MB.blake224 msg200 = Some d_b224_200.
Proof.
  split; [apply C04_blake224_eq_spec; vm_compute; reflexivity|].
  conj; vmr.
Qed.

Example A_C04_blake512_msg200 :
  MB.blake512 msg200 = Some (SBk.hash SBk.blake512 msg200)
  /\ SBk.hash SBk.blake512 msg200 = d_b512_200
  /\ MB.blake512 msg200 = Some d_b512_200
  /\ length (SBk.schedule SBk.blake512 msg200) = 2.
Proof.
  split; [apply C04_blake512_eq_spec; vm_compute; reflexivity|].
  conj; vmr.
Qed.

Example A_C04_blake384_msg200 :
  MB.blake384 msg200 = Some (SBk.hash SBk.blake384 msg200)
  /\ SBk.hash SBk.blake384 msg200 = d_b384_200
  /\ MB.blake384 msg200 = Some d_b384_200.
Proof.
  split; [apply C04_blake384_eq_spec; vm_compute; reflexivity|].
  conj; vmr.
Qed.

(** ** the one-vs-two final block boundary against independent digests
       (the published vectors do not reach it: 0, 1, 72 / 144 bytes only).
       55 -> one block ending in 0x81; 56 and 64 -> a padding-only block with t = 0. *)
Example A_C04_boundary_32_independent :
  map (fun n => SBk.hash SBk.blake256 (ff n)) [55; 56; 64]%nat =
    [hx 32 0xd806c129c0a95654d746419667a9f0878da9cc5d55d77e3e22df7c1b12176010;
     hx 32 0x6b573a7fa4bac4924ee40c1160d401843488828037ba13f0a82cce8fc841c3e6;
     hx 32 0x80a0ace8b131870da8de11bca85a811f44ece342c57cb8cd5567d2a33685b5be]
  /\ map (fun n => SBk.hash SBk.blake224 (ff n)) [55; 56; 64]%nat =
    [hx 28 0x5a0f6dcd0e2ebb236675cfdef8013f2eaea713d63333d6c0716666d8;
     hx 28 0xa77de60c6275c12720399aa6c37f1694d2ef591f064b5d02b99c6ac5;
     hx 28 0xa83cb960f1afcbdcf2d493e145fa89a5c807a09a42fcbc4f3749a654]
  /\ map (fun n => MB.blake256 (ff n)) [55; 56; 64]%nat =
     map (fun n => Some (SBk.hash SBk.blake256 (ff n))) [55; 56; 64]%nat
  /\ map (fun n => MB.blake224 (ff n)) [55; 56; 64]%nat =
     map (fun n => Some (SBk.hash SBk.blake224 (ff n))) [55; 56; 64]%nat.
Proof. conj; vmr. Qed.

Example A_C04_boundary_64_independent :
  map (fun n => SBk.hash SBk.blake512 (ff n)) [111; 112; 128]%nat =
    [hx 64 0x6c8fb5a0d0ccb348284234baf7d9306d850652205cf891e92026eb27e8660c62045c62e7a0c2860fc6ccb793cdaa34e40a4a8c12f1c32414ee9e766691a8195e;
     hx 64 0x1e196c0fe8012ce859013b35f7f33b62d1e71e71c6e4e7b9d6100d7bce9b6ed106614b4fd08230605c452275ca8fa88e48d3dbc1fdcd8b6a85861937e2d6da37;
     hx 64 0x02398332482e4c82dde58b0d9085ac1ced7cd48f167e98d6bcb1dc66531473c0efe85cebfbbc83af9e70381e4c086925facc22350613879c8287d46e9e53d388]
  /\ map (fun n => SBk.hash SBk.blake384 (ff n)) [111; 112; 128]%nat =
    [hx 48 0x25e264fb88fae5aa62967d3275f1f8a932fdd9f717e42e91e6c8c2293d7ede5a9b7afe2841892648a6f5b215d94f2f6b;
     hx 48 0x9770fe18993d6582952c1d137981a4f32c31270b0104d0da65d4e2306db38931901614b03a7bbd67c0835bb8e8e1b63a;
     hx 48 0x88eb477dbf877a052ce95347bab16c72ef6cb4b0823eb09d6f1f38417db54891fc4407c2015137ecbfeaa632889484d8]
  /\ map (fun n => MB.blake512 (ff n)) [111; 112; 128]%nat =
     map (fun n => Some (SBk.hash SBk.blake512 (ff n))) [111; 112; 128]%nat
  /\ map (fun n => MB.blake384 (ff n)) [111; 112; 128]%nat =
     map (fun n => Some (SBk.hash SBk.blake384 (ff n))) [111; 112; 128]%nat.
Proof. conj; vmr. Qed.

(** ASCII bytes of "The quick brown fox jumps over the lazy dog" *)
Definition fox : list N :=
  [84; 104; 101; 32; 113; 117; 105; 99; 107; 32; 98; 114; 111; 119; 110; 32; 102; 111; 120; 32; 106; 117; 109; 112; 115; 32; 111; 118; 101; 114; 32; 116; 104; 101; 32; 108; 97; 122; 121; 32; 100; 111; 103]%N.

(** well-known digests through the MODEL (the KAT file has them for the spec only) *)
Example A_C04_model_wellknown :
  MB.blake256 [] = Some (hx 32 0x716f6e863f744b9ac22c97ec7b76ea5f5908bc5b2f67c61510bfc4751384ea7a)
  /\ MB.blake256 fox
     = Some (hx 32 0x7576698ee9cad30173080678e5965916adbb11cb5245d386bf1ffda1cb26c9d7)
  /\ MB.blake512 fox
     = Some (hx 64 0x1f7e26f63b6ad25a0896fd978fd050a1766391d2fd0471a77afb975e5034b7ad2d9ccf8dfb47abbbe656e1b82fbc634ba42ce186e8dc5e1ce09a885d41f43451).
Proof. conj; vmr. Qed.

(** ** C04_updates_eq_spec: msg200 cut into 5 uneven update calls (one empty,
       one crossing a block edge, one holding a whole block) *)
Definition parts200 : list (list N) :=
  [firstn 3 msg200; []; firstn 70 (skipn 3 msg200); firstn 64 (skipn 73 msg200); skipn 137 msg200].

Example A_C04_updates_msg200 :
  concat parts200 = msg200
  /\ MB.digest_parts MB.put_block32 32 4 false MB.BLAKE224_IV 28 parts200 = Some d_b224_200
  /\ MB.digest_parts MB.put_block32 32 4 true MB.BLAKE256_IV 32 parts200 = Some d_b256_200
  /\ MB.digest_parts MB.put_block64 64 8 false MB.BLAKE384_IV 48 parts200 = Some d_b384_200
  /\ MB.digest_parts MB.put_block64 64 8 true MB.BLAKE512_IV 64 parts200 = Some d_b512_200.
Proof.
  assert (E : concat parts200 = msg200) by (vm_compute; reflexivity).
  destruct (C04_updates_eq_spec parts200) as (H1 & H2 & H3 & H4).
  rewrite E in *. split; [reflexivity|].
  rewrite H1, H2, H3, H4.
  conj; f_equal; vmr.
Qed.

(** ** C04_schedule_eq_spec with a compressor that records what it is fed:
       56 bytes in two update calls -> two blocks, the second one padding-only
       with counter (0,0); the first carries t = 448 bits *)
Definition rec_put (c : list (list N * (N * N))) (blk : list N) (t : N * N) := c ++ [(blk, t)].

Example A_C04_schedule_recorded_56 :
  MB.finalize _ rec_put 32 4 true
     (fold_left (MB.update _ rec_put 32 4) [ff 50; ff 6] (MB.new _ 4 []))
  = Some [ (ff 56 ++ 0x80%N :: repeat 0%N 7, (448%N, 0%N));
           (repeat 0%N 55 ++ [1%N] ++ hx 8 448, (0%N, 0%N)) ].
Proof.
  rewrite (C04_schedule_eq_spec SBk.blake256 32 4 true);
    [vm_compute; reflexivity | left; split; reflexivity | reflexivity | reflexivity | reflexivity].
Qed.

(** the same for the 64-bit family at 111 bytes: one block, last padding byte 0x81 *)
Example A_C04_schedule_recorded_111 :
  MB.finalize _ rec_put 64 8 true
     (fold_left (MB.update _ rec_put 64 8) [ff 111] (MB.new _ 8 []))
  = Some [ (ff 111 ++ [0x81%N] ++ hx 16 888, (888%N, 0%N)) ].
Proof.
  rewrite (C04_schedule_eq_spec SBk.blake512 64 8 true);
    [vm_compute; reflexivity | right; split; reflexivity | reflexivity | reflexivity | reflexivity].
Qed.

(** ** C04_compress_eq_spec_32/64 and C04_round_eq_spec: hypotheses satisfiable,
       conclusion computes to the same non-trivial words *)
Example A_C04_compress32_instance :
  let blk := firstn 64 msg200 in
  to_list (MB.put_block32 MB.BLAKE256_IV blk (512%N, 7%N))
  = SBk.compress_v SBk.blake256 (to_list MB.BLAKE256_IV) (SBk.block_words SBk.blake256 blk) 512 7
  /\ nth 0 (to_list (MB.put_block32 MB.BLAKE256_IV blk (512%N, 7%N))) 0%N
     <> nth 0 (to_list MB.BLAKE256_IV) 0%N.
Proof.
  cbv zeta. split.
  - apply (C04_compress_eq_spec_32 SBk.blake256); [right; reflexivity | split; reflexivity | reflexivity].
  - vm_compute. discriminate.
Qed.

Example A_C04_compress64_instance :
  let blk := firstn 128 msg200 in
  to_list (MB.put_block64 MB.BLAKE384_IV blk (1024%N, 7%N))
  = SBk.compress_v SBk.blake384 (to_list MB.BLAKE384_IV) (SBk.block_words SBk.blake384 blk) 1024 7.
Proof.
  cbv zeta.
  apply (C04_compress_eq_spec_64 SBk.blake384); [left; reflexivity | split; reflexivity | reflexivity].
Qed.

Example A_C04_round_instance :
  let xs := ([1;2;3;4], [5;6;7;8], [9;10;11;12], [13;14;15;16])%N in
  let m := map N.of_nat (seq 100 16) in
  flat (MB.round_body (addw 32) N.lxor (rotrw 32 16) (rotrw 32 12) (rotrw 32 8) (rotrw 32 7)
          MB.BLAKE256_U m xs (nth 3 MB.SIGMA []))
  = SBk.round (addw 32) N.lxor (rotrw 32 16) (rotrw 32 12) (rotrw 32 8) (rotrw 32 7)
          MB.BLAKE256_U m (flat xs) 3.
Proof.
  cbv zeta.
  refine (proj1 (C04_round_eq_spec (addw 32) N.lxor _ _ _ _ (C04_round_side_condition 32) _ _ _ 3 _ _ _ _));
    try reflexivity; [cbv; conj; reflexivity | lia].
Qed.

(** * C07 *)

Definition d_g224_200 := hx 28 0x6d702bcd0f0edcc2ee9494688bc63310ddd95ffaf77d86512f7b874e.
Definition d_g256_200 := hx 32 0x5e4874941276bacd43cf9f5078a5d620143b0b105f633f44d65ed13d27f6a849.
Definition d_g384_200 := hx 48 0xe1b7333f1da75cc060d8dccdcd9813e66a07c3e2c7bf29b5ec09fbb9d1924fe01c50346078baa102e6584e937ef7ee64.
Definition d_g512_200 := hx 64 0xff6dabc4aacd1f3955daba7ee2f36b2e24cca8aef87bdf286ea77b2d86dc40526ca5290c0558e95b4f620d78241a2665ab300216016b66ae87c6dc2e216348bb.

(** ** the four digest theorems on msg200 (4 resp. 2 blocks incl. padding) *)
Example A_C07_groestl256_msg200 :
  MG.m_groestl256 msg200 = SG.groestl256 msg200
  /\ SG.groestl256 msg200 = d_g256_200 /\ MG.m_groestl256 msg200 = d_g256_200
  /\ SG.pad_blocks 64 (length msg200) = 4.
Proof.
  split; [apply C07_groestl256_eq_spec; vm_compute; reflexivity|].
  conj; vmr.
Qed.

Example A_C07_groestl224_msg200 :
  MG.m_groestl224 msg200 = SG.groestl224 msg200
  /\ SG.groestl224 msg200 = d_g224_200 /\ MG.m_groestl224 msg200 = d_g224_200.
Proof.
  split; [apply C07_groestl224_eq_spec; vm_compute; reflexivity|].
  conj; vmr.
Qed.

Example A_C07_groestl512_msg200 :
  MG.m_groestl512 msg200 = SG.groestl512 msg200
  /\ SG.groestl512 msg200 = d_g512_200 /\ MG.m_groestl512 msg200 = d_g512_200
  /\ SG.pad_blocks 128 (length msg200) = 2.
Proof.
  split; [apply C07_groestl512_eq_spec; vm_compute; reflexivity|].
  conj; vmr.
Qed.

Example A_C07_groestl384_msg200 :
  MG.m_groestl384 msg200 = SG.groestl384 msg200
  /\ SG.groestl384 msg200 = d_g384_200 /\ MG.m_groestl384 msg200 = d_g384_200.
Proof.
  split; [apply C07_groestl384_eq_spec; vm_compute; reflexivity|].
  conj; vmr.
Qed.

(** ** the <=8-bytes-left boundary (an extra padding block from 56 / 120 bytes on),
       spec against independent digests, model = spec *)
Example A_C07_boundary_512_independent :
  map (fun n => SG.groestl256 (ff n)) [55; 56; 63; 64]%nat =
    [hx 32 0x111b3b093150d9d5ba7658db6353bfe1790baa8a1d2dc79a22f9b0011711869b;
     hx 32 0x6fcc07966f1a52bdc4c342c118578682db420fab9e51ec156f98310db70ef811;
     hx 32 0x36dc4eefa215cd60a9a570fd7ac3b330437eb0bf0c4246c98b9b75b2fb5e6e8f;
     hx 32 0x99933cfcfae9d9b9308f64cffbfda5467bd15da4b3b98a6e42d238e3d8dc5e32]
  /\ map (fun n => MG.m_groestl256 (ff n)) [55; 56; 63; 64]%nat
     = map (fun n => SG.groestl256 (ff n)) [55; 56; 63; 64]%nat
  /\ map (fun n => SG.pad_blocks 64 n) [55; 56; 63; 64]%nat = [1; 2; 2; 2]%nat.
Proof. conj; vmr. Qed.

Example A_C07_boundary_1024_independent :
  map (fun n => SG.groestl512 (ff n)) [119; 120; 127; 128]%nat =
    [hx 64 0x274ba637fe099e4b4313af00976232f88027f0c3822f65c04ca8086773bd228272baae5b1f7e0569fc8325f2bbcf5bb13f30a3cb4b560813efae08c797ee3bec;
     hx 64 0x8179ff3b9a7da2bc5bb89557203c2141d627c2a149620504a1a2c45588065a6c819dd41ff429e9e5b64e6a80f5d45585309e388f08eb62273cb37e349af83920;
     hx 64 0x1b7d3d48795c3dacc9c66952a03e7eaf6f6851859e206867c9fb2e26554779c03057d7a9cc27e336c56021e90acf36d3652ebf951aa8a942aebaa84821cbd9fd;
     hx 64 0x8b6ad6cb012f0e2ad7156f4e792797da4f37ffab8d521a6fd59248e08e7dc8c51561bd8512627e48d543ce27ff8e68cca82ecb9a1cfbd6a7be4a16af375fcf72]
  /\ map (fun n => MG.m_groestl512 (ff n)) [119; 120; 127; 128]%nat
     = map (fun n => SG.groestl512 (ff n)) [119; 120; 127; 128]%nat
  /\ map (fun n => SG.pad_blocks 128 n) [119; 120; 127; 128]%nat = [1; 2; 2; 2]%nat.
Proof. conj; vmr. Qed.

(** well-known digest through the MODEL *)
Example A_C07_model_wellknown :
  MG.m_groestl256 [] = hx 32 0x1a52d11d550039be16107f9c58db9ebcc417f16f736adb2502567119f0083467.
Proof. vm_compute. reflexivity. Qed.

(** ** C07_schedule_eq_spec with the REAL compressor, from an entered state:
       10 bytes buffered, block_counter = 65 530, a non-trivial chaining value,
       then 330 more bytes (5 blocks absorbed, count crosses 65 535, and
       340 mod 64 = 20 bytes left) *)
Definition st_buffered : list N := firstn 10 msg200.
Definition st_tail : list N := msg200 ++ firstn 130 msg200.
Definition st_h : MG.hasher :=
  MG.H (fst (input_block (bb_new 64) st_buffered)) 65530 (LA (skipn 100 (firstn 164 msg200))).

Definition c512 : MG.comp := MG.comp512 sbox_fast.

Example A_C07_schedule_real_state_hyps :
  (8 < MG.c_bytes c512)%nat
  /\ holds (MG.c_bytes c512) (MG.h_buf st_h) st_buffered
  /\ (MG.h_count st_h + N.of_nat (SG.pad_blocks (MG.c_bytes c512) (length st_buffered + length st_tail)) < 2 ^ 64)%N.
Proof.
  split; [cbn; lia|]. split; [|vmr].
  unfold holds; conj; [vmr | vmr | cbn; lia | vmr].
Qed.

Example A_C07_schedule_real_state :
  MG.finalize_dirty c512 (MG.update c512 st_h st_tail)
  = concat (MG.c_of c512 (fold_left (MG.c_tf c512)
        (SG.blocks (MG.c_bytes c512) (SG.pad_from (MG.c_bytes c512) (MG.h_count st_h) (st_buffered ++ st_tail)))
        (MG.h_cv st_h))).
Proof.
  destruct A_C07_schedule_real_state_hyps as (H1 & H2 & H3).
  exact (C07_schedule_eq_spec c512 st_h st_buffered st_tail H1 H2 H3).
Qed.

(** the padded stream of that instance: 6 blocks, the count field reads 65 536 *)
Example A_C07_schedule_real_state_padding :
  skipn 376 (SG.pad_from 64 65530 (st_buffered ++ st_tail)) = hx 8 65536
  /\ length (SG.pad_from 64 65530 (st_buffered ++ st_tail)) = (6 * 64)%nat.
Proof. conj; vmr. Qed.

(** both sides of the above really compute (to the same 64 bytes) *)
Example A_C07_schedule_real_state_computes :
  be_join (MG.finalize_dirty c512 (MG.update c512 st_h st_tail))
  = be_join (concat (MG.of512 sbox_fast (fold_left (MG.tf512 sbox_fast)
        (SG.blocks 64 (SG.pad_from 64 65530 (st_buffered ++ st_tail)))
        (LA (skipn 100 (firstn 164 msg200))))))
  /\ length (MG.finalize_dirty (MG.comp512 sbox_fast) (MG.update (MG.comp512 sbox_fast) st_h st_tail)) = 64%nat.
Proof. conj; vmr. Qed.

(** ** C07_schedule_recorded: prior count 255, 60 bytes -> two blocks, count 257 = 0x0101 *)
Example A_C07_schedule_recorded_257 :
  MG.finalize_dirty (comp_rec 64) (MG.update (comp_rec 64) (MG.H (bb_new 64) 255 []) (ff 60))
  = ff 60 ++ [0x80%N] ++ repeat 0%N 59 ++ [0; 0; 0; 0; 0; 0; 1; 1]%N.
Proof.
  rewrite C07_schedule_recorded; [vm_compute; reflexivity | lia | vm_compute; reflexivity].
Qed.

(** ** compression function and output transformation on concrete states, real S-box *)
Example A_C07_tf512_instance :
  let h := firstn 64 msg200 in let m := firstn 64 (skipn 64 msg200) in
  MG.tf512 sbox_fast (LA h) m = LA (SG.f sbox_fast SG.p512 h m)
  /\ SG.f sbox_fast SG.p512 h m <> h.
Proof.
  cbv zeta. split; [apply C07_tf512_eq_f; reflexivity | vm_compute; discriminate].
Qed.

Example A_C07_tf1024_instance :
  let h := firstn 128 msg200 in let m := firstn 128 (skipn 64 msg200) in
  MG.tf1024 sbox_fast (L1024 h) m = L1024 (SG.f sbox_fast SG.p1024 h m).
Proof. cbv zeta. apply C07_tf1024_eq_f; reflexivity. Qed.

Example A_C07_of_instances :
  let h := firstn 64 msg200 in let h' := firstn 128 msg200 in
  skipn 32 (concat (MG.of512 sbox_fast (LA h))) = skipn 32 (SG.omega sbox_fast SG.p512 h)
  /\ skipn 64 (concat (MG.of1024 sbox_fast (L1024 h'))) = skipn 64 (SG.omega sbox_fast SG.p1024 h')
  /\ length (skipn 32 (concat (MG.of512 sbox_fast (LA h)))) = 32%nat
  /\ length (skipn 64 (concat (MG.of1024 sbox_fast (L1024 h')))) = 64%nat.
Proof.
  cbv zeta. split; [apply C07_of512_eq_omega; reflexivity|].
  split; [apply C07_of1024_eq_omega; reflexivity|].
  conj; vmr.
Qed.

(** ** the permutations on the register layout, real S-box, concrete state *)
Example A_C07_rounds_instances :
  let a := firstn 64 msg200 in let b := firstn 64 (skipn 100 msg200) in let c := firstn 128 msg200 in
  MG.rounds_p_q sbox_fast (rows2 a b) = rows2 (SG.P sbox_fast SG.p512 a) (SG.Q sbox_fast SG.p512 b)
  /\ MG.rounds_p sbox_fast (L1024 c) = L1024 (SG.P sbox_fast SG.p1024 c)
  /\ MG.rounds_q sbox_fast (L1024 c) = L1024 (SG.Q sbox_fast SG.p1024 c).
Proof.
  cbv zeta. split; [apply C07_rounds_p_q_eq_spec; reflexivity|].
  split; [apply C07_rounds_p_eq_spec; reflexivity | apply C07_rounds_q_eq_spec; reflexivity].
Qed.

Print Assumptions A_C04_blake256_msg200.
Print Assumptions A_C04_updates_msg200.
Print Assumptions A_C04_schedule_recorded_56.
Print Assumptions A_C07_groestl256_msg200.
Print Assumptions A_C07_schedule_real_state.
Print Assumptions A_C07_schedule_real_state_hyps.
