(** How compressor.rs lays a Groestl state out in registers.

    [row_major c st]: the 8 x [c] matrix [st] (a byte string in column order,
    Spec/Groestl.v) written row after row.  The 512-bit chaining value is kept
    as 4 registers = the row-major string (two rows per register), the
    1024-bit one as 8 registers = the row-major string (one row per
    register).  During the 512-bit rounds register [i] holds row [i] of the
    P-state in its low and row [i] of the Q-state in its high half
    ([rows2]). *)
From Coq Require Import NArith List Arith Lia.
From CC Require Import Lib.Words Lib.Bytes Lib.ListX Spec.AES Spec.Groestl
     Model.GroestlIntrinsics Model.Groestl.
Import ListNotations.

Definition row (c : nat) (st : list N) (i : nat) : list N :=
  map (fun col => get st i col) (seq 0 c).
Definition row_major (c : nat) (st : list N) : list N :=
  flat_map (row c st) (seq 0 8).
(** inverse: the column-ordered string of the matrix whose row-major string is [rm] *)
Definition col_major (c : nat) (rm : list N) : list N :=
  build c (fun row col => nth (c * row + col) rm 0%N).

(** registers of the 512-bit chaining value / message block *)
Definition LA (st : list N) : X := regs_of_bytes 4 (row_major 8 st).
(** registers of the 1024-bit chaining value *)
Definition L1024 (st : list N) : X := regs_of_bytes 8 (row_major 16 st).
(** P-state and Q-state side by side *)
Definition rows2 (a b : list N) : X := map (fun i => row 8 a i ++ row 8 b i) (seq 0 8).
