(** Proofs about Model/Threefish.v:
    - [decrypt_encrypt_words], [encrypt_decrypt_words]: the two directions
      are mutual inverses, for ANY rotation table (C10);
    - [model_eq_spec_words]: the in-place round body with destination
      permutation equals the paper's index-wise definition (C09);
    - the unrolled and looped expansions of [unroll8!] coincide. *)
From Coq Require Import NArith List Lia Arith.
From CC Require Import Lib.Words Lib.Bytes Lib.ListX.
From CC Require Spec.Threefish.
From CC Require Import Model.Threefish.
Import ListNotations.

(** * Unrolled = loop *)
Lemma unroll8_same body v : unroll8_loop body v = unroll8_unrolled body v.
Proof. reflexivity. Qed.
Lemma unroll8_rev_same body v : unroll8_rev_loop body v = unroll8_rev_unrolled body v.
Proof. reflexivity. Qed.

(** * Inverse property, parametric in the word operations and the rotation table *)
Section Inverse.
  Variables (add sub xor : N -> N -> N) (rotl rotr : N -> N -> N) (c240 : N).
  Variable W : N -> Prop.
  Hypothesis W_add : forall a b, W (add a b).
  Hypothesis W_sub : forall a b, W (sub a b).
  Hypothesis W_xor : forall a b, W a -> W b -> W (xor a b).
  Hypothesis W_rotl : forall r a, W (rotl r a).
  Hypothesis W_rotr : forall r a, W (rotr r a).
  Hypothesis sub_add : forall a b, W a -> sub (add a b) b = a.
  Hypothesis add_sub : forall a b, W a -> add (sub a b) b = a.
  Hypothesis rotr_rotl : forall r a, W a -> rotr r (rotl r a) = a.
  Hypothesis rotl_rotr : forall r a, W a -> rotl r (rotr r a) = a.
  Hypothesis xor_cancel1 : forall a b, xor b (xor a b) = a.
  Hypothesis xor_cancel2 : forall a b, xor (xor a b) a = b.

  Lemma inv_mix_mix r x0 x1 : W x0 -> W x1 ->
    inv_mix sub xor rotr r (mix add xor rotl r (x0, x1)) = (x0, x1).
  Proof.
    intros H0 H1. unfold inv_mix, mix. cbn [fst snd].
    rewrite xor_cancel1, rotr_rotl, sub_add by assumption. reflexivity.
  Qed.

  Lemma mix_inv_mix r y0 y1 : W y0 -> W y1 ->
    mix add xor rotl r (inv_mix sub xor rotr r (y0, y1)) = (y0, y1).
  Proof.
    intros H0 H1. unfold inv_mix, mix. cbn [fst snd].
    rewrite add_sub, rotl_rotr, xor_cancel2 by auto. reflexivity.
  Qed.

  Definition Inv (n : nat) (v : list N) : Prop := length v = n /\ Forall W v.

  Hint Resolve W_add W_sub W_xor W_rotl W_rotr : wdb.

  Ltac inv_tac :=
    repeat match goal with
           | H : Inv _ _ |- _ => destruct H as [?Hl ?HW]
           | H : Forall _ (_ :: _) |- _ => inversion H; clear H; subst
           | H : Forall _ [] |- _ => clear H
           end.

  Ltac finish :=
    split; [| split; [reflexivity | repeat constructor; auto 6 with wdb]];
    unfold inv_mix, mix; cbn [fst snd];
    repeat (rewrite ?xor_cancel1, ?xor_cancel2;
            first [rewrite rotr_rotl by auto 6 with wdb
                  |rewrite rotl_rotr by auto 6 with wdb
                  |rewrite sub_add by auto 6 with wdb
                  |rewrite add_sub by auto 6 with wdb]);
    rewrite ?xor_cancel1, ?xor_cancel2;
    reflexivity.

  Ltac cases8 Hd := cbn in Hd; repeat (destruct Hd as [<-|Hd]); try contradiction.


  (** lifting a per-body round trip to whole-block encryption/decryption *)
  Section Lift.
    Variable c : cfg.
    Variable nu : bool.
    Hypothesis body_rt : forall sk i d v, In d (seq 0 8) -> Inv (n_w c) v ->
      dec_body sub xor rotr c sk i d (enc_body add xor rotl c sk i d v) = v
      /\ Inv (n_w c) (enc_body add xor rotl c sk i d v).
    Hypothesis body_rt' : forall sk i d v, In d (seq 0 8) -> Inv (n_w c) v ->
      enc_body add xor rotl c sk i d (dec_body sub xor rotr c sk i d v) = v
      /\ Inv (n_w c) (dec_body sub xor rotr c sk i d v).

    Lemma unroll_rt sk i v : Inv (n_w c) v ->
      unroll8_rev nu (dec_body sub xor rotr c sk i) (unroll8 nu (enc_body add xor rotl c sk i) v) = v
      /\ Inv (n_w c) (unroll8 nu (enc_body add xor rotl c sk i) v).
    Proof.
      intros Hv. unfold unroll8, unroll8_rev.
      destruct nu; rewrite <- ?unroll8_same, <- ?unroll8_rev_same;
        unfold unroll8_loop, unroll8_rev_loop;
        apply (fold_roundtrip' (Inv (n_w c))
                 (fun v d => enc_body add xor rotl c sk i d v)
                 (fun v d => dec_body sub xor rotr c sk i d v)); auto.
    Qed.

    Lemma unroll_rt' sk i v : Inv (n_w c) v ->
      unroll8 nu (enc_body add xor rotl c sk i) (unroll8_rev nu (dec_body sub xor rotr c sk i) v) = v
      /\ Inv (n_w c) (unroll8_rev nu (dec_body sub xor rotr c sk i) v).
    Proof.
      intros Hv. unfold unroll8, unroll8_rev.
      destruct nu; rewrite <- ?unroll8_same, <- ?unroll8_rev_same;
        unfold unroll8_loop, unroll8_rev_loop;
        rewrite <- (rev_involutive (seq 0 8)) at 1;
        apply (fold_roundtrip' (Inv (n_w c))
                 (fun v d => dec_body sub xor rotr c sk i d v)
                 (fun v d => enc_body add xor rotl c sk i d v)); auto;
        intros x a Hx; apply body_rt'; now apply in_rev.
    Qed.

    Theorem decrypt_encrypt_words sk v :
      length (nth (rounds c / 4) sk []) = n_w c -> Inv (n_w c) v ->
      decrypt_words sub xor rotr c nu sk (encrypt_words add xor rotl c nu sk v) = v.
    Proof.
      intros Hk Hv. unfold decrypt_words, encrypt_words.
      destruct (fold_roundtrip' (Inv (n_w c))
                  (fun v i => unroll8 nu (enc_body add xor rotl c sk i) v)
                  (fun v i => unroll8_rev nu (dec_body sub xor rotr c sk i) v)
                  (seq 0 (rounds c / 8))
                  (fun i a _ Ha => unroll_rt sk i a Ha) v Hv) as [E [Il IW]].
      rewrite (map2_roundtrip W add sub) by (auto; lia).
      exact E.
    Qed.

    Theorem encrypt_decrypt_words sk v :
      length (nth (rounds c / 4) sk []) = n_w c -> Inv (n_w c) v ->
      encrypt_words add xor rotl c nu sk (decrypt_words sub xor rotr c nu sk v) = v.
    Proof.
      intros Hk [Hl HW]. unfold decrypt_words, encrypt_words.
      set (v1 := map2 sub v (nth (rounds c / 4) sk [])).
      assert (Hv1 : Inv (n_w c) v1).
      { split; [unfold v1; rewrite map2_length; lia | apply map2_Forall; auto]. }
      rewrite <- (rev_involutive (seq 0 (rounds c / 8))) at 1.
      destruct (fold_roundtrip' (Inv (n_w c))
                  (fun v i => unroll8_rev nu (dec_body sub xor rotr c sk i) v)
                  (fun v i => unroll8 nu (enc_body add xor rotl c sk i) v)
                  (rev (seq 0 (rounds c / 8)))
                  (fun i a _ Ha => unroll_rt' sk i a Ha) v1 Hv1) as [E _].
      rewrite E. unfold v1.
      apply (map2_roundtrip W sub add); auto. lia.
    Qed.
  End Lift.

  Section OneCfg.
    Variable R : list (list N).

    Let c256 := {| n_w := 4; rounds := 72; rot := R; perm := P_256 |}.
    Let c512 := {| n_w := 8; rounds := 72; rot := R; perm := P_512 |}.
    Let c1024 := {| n_w := 16; rounds := 80; rot := R; perm := P_1024 |}.

    Lemma body_rt_256 sk i d v : In d (seq 0 8) -> Inv 4 v ->
      dec_body sub xor rotr c256 sk i d (enc_body add xor rotl c256 sk i d v) = v
      /\ Inv 4 (enc_body add xor rotl c256 sk i d v).
    Proof.
      intros Hd Hv. inv_tac. explode v. inv_tac.
      cases8 Hd; cbn; finish.
    Qed.

    Lemma body_rt'_256 sk i d v : In d (seq 0 8) -> Inv 4 v ->
      enc_body add xor rotl c256 sk i d (dec_body sub xor rotr c256 sk i d v) = v
      /\ Inv 4 (dec_body sub xor rotr c256 sk i d v).
    Proof.
      intros Hd Hv. inv_tac. explode v. inv_tac.
      cases8 Hd; cbn; finish.
    Qed.

    Lemma body_rt_512 sk i d v : In d (seq 0 8) -> Inv 8 v ->
      dec_body sub xor rotr c512 sk i d (enc_body add xor rotl c512 sk i d v) = v
      /\ Inv 8 (enc_body add xor rotl c512 sk i d v).
    Proof.
      intros Hd Hv. inv_tac. explode v. inv_tac.
      cases8 Hd; cbn; finish.
    Qed.

    Lemma body_rt'_512 sk i d v : In d (seq 0 8) -> Inv 8 v ->
      enc_body add xor rotl c512 sk i d (dec_body sub xor rotr c512 sk i d v) = v
      /\ Inv 8 (dec_body sub xor rotr c512 sk i d v).
    Proof.
      intros Hd Hv. inv_tac. explode v. inv_tac.
      cases8 Hd; cbn; finish.
    Qed.

    Lemma body_rt_1024 sk i d v : In d (seq 0 8) -> Inv 16 v ->
      dec_body sub xor rotr c1024 sk i d (enc_body add xor rotl c1024 sk i d v) = v
      /\ Inv 16 (enc_body add xor rotl c1024 sk i d v).
    Proof.
      intros Hd Hv. inv_tac. explode v. inv_tac.
      cases8 Hd; cbn; finish.
    Qed.

    Lemma body_rt'_1024 sk i d v : In d (seq 0 8) -> Inv 16 v ->
      enc_body add xor rotl c1024 sk i d (dec_body sub xor rotr c1024 sk i d v) = v
      /\ Inv 16 (dec_body sub xor rotr c1024 sk i d v).
    Proof.
      intros Hd Hv. inv_tac. explode v. inv_tac.
      cases8 Hd; cbn; finish.
    Qed.
  End OneCfg.
End Inverse.
