(** C13 portable part: StoreBytes (little-/big-endian byte loads and stores). *)
From Coq Require Import NArith List Bool Arith Lia.
From CC Require Import Lib.Words Lib.Bytes Lib.ListX Model.PpvSoft Model.PpvGeneric.
From CC Require Spec.Lanes.
From CC Require Import Proofs.PpvGenericLib Proofs.PpvGenericOps Proofs.PpvSoftFwd Proofs.PpvGenericWide.
Import ListNotations.
Local Open Scope N_scope.

(** [StoreBytes] exists for u32x4_generic and u64x2_generic only *)
Definition has_bytes (t : vt) : Prop := t = U32x4 \/ t = U64x2.

Lemma wmap_same p t g v : has_bytes t -> wfv t v -> (forall x, x < 2 ^ vt_w t -> g x < 2 ^ vt_w t) ->
  wmap p t (fun x => Ok (g x)) v = Ok (map g v).
Proof.
  intros [-> | ->] Hv Hg; cbn [wmap].
  - rewrite (dmap_img p U32x4 _ g) by (auto || reflexivity). f_equal. now apply (imap_same U32x4).
  - rewrite (qmap_img p U64x2 _ g) by (auto || reflexivity). f_equal. now apply (imap_same U64x2).
Qed.

Lemma k_of_w t : N.to_nat (vt_w t / 8) = vt_k t.
Proof. now destruct t. Qed.
Lemma swap_bytes_join t c : length c = vt_k t -> Forall is_byte c -> swap_bytes (vt_w t) (le_join c) = be_join c.
Proof.
  intros L B. unfold swap_bytes, be_join. rewrite k_of_w, <- L. now rewrite le_split_join.
Qed.
Lemma split_swap_bytes t x : le_split (vt_k t) (swap_bytes (vt_w t) x) = be_split (vt_k t) x.
Proof.
  unfold swap_bytes, be_split. rewrite k_of_w. apply le_split_join'.
  - now rewrite rev_length, le_split_length.
  - apply Forall_rev, le_split_bytes.
Qed.
Lemma swap_bytes_lt' t x : swap_bytes (vt_w t) x < 2 ^ vt_w t.
Proof. pose proof (swap_bytes_lt (vt_w t) x) as H. rewrite k_of_w in H. destruct t; exact H. Qed.
Lemma swap_bytes_invol t x : x < 2 ^ vt_w t -> swap_bytes (vt_w t) (swap_bytes (vt_w t) x) = x.
Proof.
  intros Hx. unfold swap_bytes at 1. rewrite k_of_w, split_swap_bytes. unfold be_split.
  rewrite rev_involutive. apply le_join_split. destruct t; exact Hx.
Qed.

Section Bytes.
  Variable p : profile.
  Variable t : vt.
  Hypothesis Ht : has_bytes t.
  Let k := vt_k t.

  Theorem g_read_le_spec bs : wfb bs -> g_read_le p t bs = Ok (Lanes.read_le (vt_k t) bs).
  Proof.
    intros Hb. unfold g_read_le, read_from_bytes. rewrite (proj1 Hb). cbn [Nat.eqb obind].
    rewrite (wmap_same p t (to_le (vt_w t))) by (auto using words_wfv). now rewrite map_id.
  Qed.
  Theorem g_write_le_spec v : wfv t v -> g_write_le p t v 16 = Ok (Lanes.write_le (vt_k t) v).
  Proof.
    intros Hv. unfold g_write_le. rewrite (wmap_same p t (to_le (vt_w t))) by auto.
    cbn [obind]. now rewrite map_id.
  Qed.
  Theorem g_read_be_spec bs : wfb bs -> g_read_be p t bs = Ok (Lanes.read_be (vt_k t) bs).
  Proof.
    intros Hb. unfold g_read_be, read_from_bytes. rewrite (proj1 Hb). cbn [Nat.eqb obind].
    rewrite (wmap_same p t (to_be (vt_w t))) by (auto using words_wfv; intros; apply swap_bytes_lt').
    f_equal. unfold Lanes.read_be, words_le. rewrite map_map.
    pose proof (chunks_exact_Forall_length (vt_k t) (length bs) bs) as FL.
    pose proof (chunks_exact_Forall_bytes (vt_k t) (length bs) bs (proj2 Hb)) as FB.
    induction (chunks_exact (vt_k t) (length bs) bs) as [|c cs IH]; [reflexivity|].
    inversion FL; inversion FB; subst. cbn [map]. f_equal; [now apply swap_bytes_join | now apply IH].
  Qed.
  Theorem g_write_be_spec v : wfv t v -> g_write_be p t v 16 = Ok (Lanes.write_be (vt_k t) v).
  Proof.
    intros Hv. unfold g_write_be. rewrite (wmap_same p t (to_be (vt_w t))) by (auto; intros; apply swap_bytes_lt').
    cbn [obind]. unfold write_to. cbn [Nat.eqb]. f_equal. unfold Lanes.write_be, bytes_le.
    clear Hv. induction v as [|x v IH]; [reflexivity|]. cbn [map flat_map]. f_equal; [apply split_swap_bytes | exact IH].
  Qed.
  (** a slice of the wrong length panics (the unwrap of zerocopy's size check), in both profiles *)
  Theorem g_storebytes_wrong_len bs v n : length bs <> 16%nat -> n <> 16%nat -> wfv t v ->
    g_read_le p t bs = Panic /\ g_read_be p t bs = Panic /\
    g_write_le p t v n = Panic /\ g_write_be p t v n = Panic.
  Proof.
    intros Hl Hn Hv. apply Nat.eqb_neq in Hl. apply Nat.eqb_neq in Hn.
    unfold g_read_le, g_read_be, read_from_bytes, g_write_le, g_write_be, write_to. rewrite Hl.
    rewrite (wmap_same p t (to_le (vt_w t))) by auto.
    rewrite (wmap_same p t (to_be (vt_w t))) by (auto; intros; apply swap_bytes_lt').
    cbn [obind]. rewrite Hn. repeat split.
  Qed.
  (** round trips *)
  Theorem g_le_roundtrip v : wfv t v ->
    exists bs, g_write_le p t v 16 = Ok bs /\ wfb bs /\ g_read_le p t bs = Ok v.
  Proof.
    intros Hv. exists (img t v). pose proof (img_wfb t v Hv) as Hb.
    split; [now apply g_write_le_spec|]. split; [exact Hb|].
    rewrite g_read_le_spec by exact Hb. f_equal. now apply words_img.
  Qed.
  Theorem g_be_roundtrip v : wfv t v ->
    exists bs, g_write_be p t v 16 = Ok bs /\ wfb bs /\ g_read_be p t bs = Ok v.
  Proof.
    intros Hv. exists (img t (map (swap_bytes (vt_w t)) v)).
    assert (Hv' : wfv t (map (swap_bytes (vt_w t)) v)).
    { destruct Hv as [L F]. split; [now rewrite map_length|].
      apply Forall_forall. intros y Hy. apply in_map_iff in Hy. destruct Hy as [x [<- _]]. apply swap_bytes_lt'. }
    pose proof (img_wfb t _ Hv') as Hb. split; [|split; [exact Hb|]].
    - unfold g_write_be. rewrite (wmap_same p t (to_be (vt_w t))) by (auto; intros; apply swap_bytes_lt').
      reflexivity.
    - unfold g_read_be, read_from_bytes. rewrite (proj1 Hb). cbn [Nat.eqb obind].
      rewrite words_img by exact Hv'.
      rewrite (wmap_same p t (to_be (vt_w t))) by (auto; intros; apply swap_bytes_lt').
      f_equal. rewrite map_map. destruct Hv as [_ F]. clear Hv' Hb.
      induction F as [|x v Hx F IH]; [reflexivity|]. cbn [map]. f_equal; [now apply swap_bytes_invol | exact IH].
  Qed.
End Bytes.

(** * StoreBytes of x2 / x4 (soft.rs): the slice is cut into 2 / 4 equal parts, element 0 first *)
Section WideBytes.
  Context {W : Type}.
  Variable d : W.
  Lemma x2_read_parts rd (sp : list N -> W) bs :
    (forall s, wfb s -> rd s = Ok (sp s)) -> length bs = 32%nat -> Forall is_byte bs ->
    x2_read rd bs = Ok [sp (firstn 16 bs); sp (skipn 16 bs)].
  Proof.
    intros H L B. unfold x2_read. rewrite L. change (Nat.div 32 2) with 16%nat.
    rewrite !H; [reflexivity| |]; split;
      (rewrite ?firstn_length, ?skipn_length, L; reflexivity) || (now apply Forall_firstn' || now apply Forall_skipn').
  Qed.
  Lemma x4_read_parts rd (sp : list N -> W) bs :
    (forall s, wfb s -> rd s = Ok (sp s)) -> length bs = 64%nat -> Forall is_byte bs ->
    x4_read rd bs = Ok [sp (firstn 16 bs); sp (firstn 16 (skipn 16 bs)); sp (firstn 16 (skipn 32 bs)); sp (skipn 48 bs)].
  Proof.
    intros H L B. unfold x4_read. rewrite L. change (Nat.div 64 4) with 16%nat.
    change (2 * 16)%nat with 32%nat. change (3 * 16)%nat with 48%nat.
    rewrite !H; [reflexivity| | | |]; split;
      (rewrite ?firstn_length, ?skipn_length, L; reflexivity) ||
      (repeat (apply Forall_firstn' || apply Forall_skipn'); assumption).
  Qed.
  Lemma x2_write_parts wr (sp : W -> list N) (P : W -> Prop) v :
    (forall x, P x -> wr x 16%nat = Ok (sp x)) -> length v = 2%nat -> Forall P v ->
    x2_write d wr v 32 = Ok (concat (map sp v)).
  Proof.
    intros H L F. explode v. inversion F as [|? ? F0 F']; inversion F' as [|? ? F1 _]; subst.
    unfold x2_write. change (Nat.div 32 2) with 16%nat. change (32 - 16)%nat with 16%nat.
    cbn [nth]. rewrite (H _ F0), (H _ F1). cbn [obind map concat]. now rewrite app_nil_r.
  Qed.
  Lemma x4_write_parts wr (sp : W -> list N) (P : W -> Prop) v :
    (forall x, P x -> wr x 16%nat = Ok (sp x)) -> length v = 4%nat -> Forall P v ->
    x4_write d wr v 64 = Ok (concat (map sp v)).
  Proof.
    intros H L F. explode v.
    inversion F as [|? ? F0 F']; inversion F' as [|? ? F1 F'']; inversion F'' as [|? ? F2 F''']; inversion F''' as [|? ? F3 _]; subst.
    unfold x4_write. change (Nat.div 64 4) with 16%nat. change (64 - 3 * 16)%nat with 16%nat.
    cbn [nth]. rewrite (H _ F0), (H _ F1), (H _ F2), (H _ F3). cbn [obind map concat]. now rewrite app_nil_r.
  Qed.
End WideBytes.

Lemma bytes_le_concat k (v : list (list N)) : bytes_le k (concat v) = concat (map (bytes_le k) v).
Proof.
  unfold bytes_le. induction v as [|l v IH]; [reflexivity|]. cbn [concat map]. now rewrite flat_map_app, IH.
Qed.
Lemma write_be_concat k (v : list (list N)) : Lanes.write_be k (concat v) = concat (map (Lanes.write_be k) v).
Proof.
  unfold Lanes.write_be. induction v as [|l v IH]; [reflexivity|]. cbn [concat map]. now rewrite flat_map_app, IH.
Qed.

Theorem wide_write_spec p t n v : has_bytes t -> (n = 2 \/ n = 4)%nat -> wide t n v ->
  (if (n =? 2)%nat then x2_write [] (g_write_le p t) v 32 else x4_write [] (g_write_le p t) v 64)
    = Ok (Lanes.write_le (vt_k t) (concat v)) /\
  (if (n =? 2)%nat then x2_write [] (g_write_be p t) v 32 else x4_write [] (g_write_be p t) v 64)
    = Ok (Lanes.write_be (vt_k t) (concat v)).
Proof.
  intros Ht Hn [L F]. unfold Lanes.write_le. rewrite bytes_le_concat, write_be_concat.
  destruct Hn as [-> | ->]; cbn [Nat.eqb]; split;
    (apply (x2_write_parts [] _ _ (wfv t)) || apply (x4_write_parts [] _ _ (wfv t))); auto;
    intros x Hx; (now apply g_write_le_spec) || (now apply g_write_be_spec).
Qed.

Theorem wide_read_spec p t n bs : has_bytes t -> (n = 2 \/ n = 4)%nat ->
  length bs = (16 * n)%nat -> Forall is_byte bs ->
  (exists r, (if (n =? 2)%nat then x2_read (g_read_le p t) bs else x4_read (g_read_le p t) bs) = Ok r /\
             concat r = Lanes.read_le (vt_k t) bs) /\
  (exists r, (if (n =? 2)%nat then x2_read (g_read_be p t) bs else x4_read (g_read_be p t) bs) = Ok r /\
             concat r = Lanes.read_be (vt_k t) bs).
Proof.
  intros Ht Hn L B.
  destruct Hn as [-> | ->]; cbn [Nat.eqb]; cbn in L; split; eexists;
    (split;
     [ (apply x2_read_parts || apply x4_read_parts); try assumption; intros s Hs;
       (now apply g_read_le_spec) || (now apply g_read_be_spec)
     | clear B; explode bs; destruct Ht as [-> | ->]; reflexivity ]).
Qed.
