(** C14: the 4-block path [refill_wide] of Model/ChaChaGuts.v equals four consecutive
    single-block [refill]s (bytes and final state), for every number of double rounds. *)
From Coq Require Import NArith List Lia Arith Bool.
From CC Require Import Lib.Words Lib.Bytes Lib.ListX Spec.Lanes Model.ChaChaGuts.
From CC Require Import Proofs.ChaChaRounds Proofs.ChaChaGutsWords Proofs.ChaChaGuts.
Import ListNotations.
Local Open Scope N_scope.

(** the state [s] with its 64-bit block counter advanced by [k] (mod 2^64) *)
Definition at_ctr (s : chacha) (k : N) : chacha :=
  CC (cb s) (cc s) (set_pos (cd s) (wrap 64 (ctr_of (cd s) + k))).

Lemma set_pos_id d : wf4 d -> set_pos d (wrap 64 (ctr_of d + 0)) = d.
Proof.
  intros H. destruct (wf4_inv _ H) as (a & b & c & e & -> & Ha & Hb & Hc & He).
  rewrite set_pos_words. unfold ctr_of. cbn [nth]. rewrite N.add_0_r, wrap_small by now apply ctr_lt.
  rewrite (N.mul_comm (2^32) b), N.mod_add, N.div_add by discriminate.
  rewrite (N.mod_small a), (N.div_small a), (N.mod_small (0 + b)) by assumption. reflexivity.
Qed.

Lemma at_ctr_0 s : wf4 (cd s) -> at_ctr s 0 = s.
Proof. intros H. unfold at_ctr. rewrite set_pos_id by exact H. now destruct s. Qed.

Lemma inc_block_ct_1 s : wf4 (cd s) -> inc_block_ct s = at_ctr s 1.
Proof. intros H. unfold inc_block_ct, at_ctr. rewrite pos64_ctr by exact H. reflexivity. Qed.

Lemma inc_at_ctr s k : wf4 (cd s) -> inc_block_ct (at_ctr s k) = at_ctr s (k + 1).
Proof.
  intros H. rewrite inc_block_ct_1 by (apply set_pos_wf, H).
  unfold at_ctr. cbn [cb cc cd].
  rewrite ctr_set_pos by (exact H || apply wrap_lt).
  rewrite set_pos_set_pos by exact H. rewrite wrap64_add_l. now rewrite N.add_assoc.
Qed.

Lemma at_ctr_wf s k : wf s -> wf (at_ctr s k).
Proof. intros (Hb & Hc & Hd). repeat split; try apply Hb; try apply Hc; apply set_pos_wf, Hd. Qed.

(** * lanes of a 16-word row *)
Section LaneMap.
  Variable f : N -> N -> N.
  Lemma lane_map2 i u v : In i [0; 1; 2; 3]%nat -> length u = 16%nat -> length v = 16%nat ->
    lane i (map2 f u v) = map2 f (lane i u) (lane i v).
  Proof.
    intros Hi Hu Hv. explode u. explode v. cbn in Hi.
    repeat (destruct Hi as [<-|Hi]); try contradiction; reflexivity.
  Qed.
End LaneMap.

Lemma lane_app4 i (a b c d : list N) :
  length a = 4%nat -> length b = 4%nat -> length c = 4%nat -> length d = 4%nat ->
  In i [0; 1; 2; 3]%nat -> lane i (a ++ b ++ c ++ d) = nth i [a; b; c; d] [].
Proof.
  intros Ha Hb Hc Hd Hi. explode a. explode b. explode c. explode d. cbn in Hi.
  repeat (destruct Hi as [<-|Hi]); try contradiction; reflexivity.
Qed.

Lemma lane_x4 i v : length v = 4%nat -> In i [0; 1; 2; 3]%nat -> lane i (x4 v) = v.
Proof.
  intros Hv Hi. unfold x4. rewrite lane_app4 by assumption. cbn in Hi.
  repeat (destruct Hi as [<-|Hi]); try contradiction; reflexivity.
Qed.

Lemma x4_length v : length v = 4%nat -> length (x4 v) = 16%nat.
Proof. intros H. unfold x4. rewrite !app_length, H. reflexivity. Qed.

Lemma set_pos_length d p : length d = 4%nat -> length (set_pos d p) = 4%nat.
Proof. intros H. unfold set_pos. now rewrite !upd_length. Qed.

Lemma d0123_length d : wf4 d -> length (d0123 d) = 16%nat.
Proof.
  intros H. rewrite d0123_lanes by exact H. destruct H as [H _].
  rewrite !app_length, !set_pos_length by exact H. reflexivity.
Qed.

(** lane [i] of [d0123 d] is [d] with the counter advanced by [i] *)
Lemma d0123_lane i s : wf4 (cd s) -> In i [0; 1; 2; 3]%nat ->
  lane i (d0123 (cd s)) = cd (at_ctr s (N.of_nat i)).
Proof.
  intros H Hi. rewrite d0123_lanes by exact H.
  rewrite lane_app4 by (try apply set_pos_length, H; exact Hi).
  cbn in Hi. repeat (destruct Hi as [<-|Hi]); try contradiction; reflexivity.
Qed.

Definition four_refills (s : chacha) (dr : nat) : list N * chacha :=
  let '(o0, s1) := refill s dr in let '(o1, s2) := refill s1 dr in
  let '(o2, s3) := refill s2 dr in let '(o3, s4) := refill s3 dr in
  (o0 ++ o1 ++ o2 ++ o3, s4).

Section Wide.
  Variables (s : chacha) (dr : nat).
  Hypothesis Hwf : wf s.

  Let X0 := VS (x4 K) (x4 (cb s)) (x4 (cc s)) (d0123 (cd s)).
  Let x := m_rounds dr X0.

  Lemma X0_shape : shape 16 X0.
  Proof.
    destruct Hwf as ((Hb & _) & (Hc & _) & Hd).
    repeat split; cbn [va vb vc vd X0]; try (apply x4_length; assumption || reflexivity).
    now apply d0123_length.
  Qed.

  Lemma X0_lane i : In i [0; 1; 2; 3]%nat ->
    lane_state i X0 = VS K (cb s) (cc s) (cd (at_ctr s (N.of_nat i))).
  Proof.
    intros Hi. destruct Hwf as ((Hb & _) & (Hc & _) & Hd).
    unfold lane_state, X0. cbn [va vb vc vd].
    rewrite !lane_x4 by (assumption || reflexivity). now rewrite d0123_lane.
  Qed.

  Lemma x_lane i : In i [0; 1; 2; 3]%nat ->
    lane_state i x = refill_narrow_rounds (at_ctr s (N.of_nat i)) dr /\ shape 16 x.
  Proof.
    intros Hi. destruct (rounds_wide add32 N.lxor rotr32 dr X0 X0_shape) as [E Hs].
    split; [|exact Hs]. unfold x, m_rounds. rewrite E by exact Hi. now rewrite X0_lane.
  Qed.

  (** block [i] of the wide output *)
  Definition wide_res (i : nat) : list N :=
    lane i (vadd32 (va x) (x4 K)) ++ lane i (vadd32 (vb x) (x4 (cb s))) ++
    lane i (vadd32 (vc x) (x4 (cc s))) ++ lane i (vadd32 (vd x) (d0123 (cd s))).

  Lemma wide_block i : In i [0; 1; 2; 3]%nat ->
    bytes_le 4 (wide_res i) = fst (refill (at_ctr s (N.of_nat i)) dr).
  Proof.
    intros Hi. destruct (x_lane i Hi) as [E (Sa & Sb & Sc & Sd)].
    destruct Hwf as ((Hb & _) & (Hc & _) & Hd).
    unfold wide_res, vadd32, vadd.
    rewrite !lane_map2 by (try assumption; try (apply x4_length; assumption || reflexivity); now apply d0123_length).
    rewrite !lane_x4 by (assumption || reflexivity). rewrite d0123_lane by assumption.
    unfold refill, fst, output_narrow. rewrite <- E. unfold lane_state, vadd32, vadd. cbn [va vb vc vd at_ctr cb cc cd].
    now rewrite !bytes_le_app.
  Qed.

  Lemma wide_state : add_pos (lane 0 (d0123 (cd s))) 4 = cd (at_ctr s 4).
  Proof.
    destruct Hwf as (_ & _ & Hd).
    rewrite (d0123_lane 0 s Hd) by (now left). cbn [N.of_nat]. rewrite at_ctr_0 by exact Hd.
    now rewrite add_pos_set_pos.
  Qed.

  Lemma refill_wide_unfold :
    refill_wide s dr =
    (bytes_le 4 (wide_res 0) ++ bytes_le 4 (wide_res 1) ++ bytes_le 4 (wide_res 2) ++ bytes_le 4 (wide_res 3),
     CC (cb s) (cc s) (add_pos (lane 0 (d0123 (cd s))) 4)).
  Proof. reflexivity. Qed.

  Lemma four_refills_unfold :
    four_refills s dr =
    (fst (refill (at_ctr s 0) dr) ++ fst (refill (at_ctr s 1) dr) ++
     fst (refill (at_ctr s 2) dr) ++ fst (refill (at_ctr s 3) dr), at_ctr s 4).
  Proof.
    destruct Hwf as (_ & _ & Hd).
    unfold four_refills, refill. cbn [fst snd].
    rewrite !(inc_block_ct_1 s Hd), !inc_at_ctr by exact Hd. cbn [N.add Pos.add Pos.succ].
    now rewrite (at_ctr_0 s Hd).
  Qed.

  Theorem refill_wide_eq_four_refills : refill_wide s dr = four_refills s dr.
  Proof.
    rewrite refill_wide_unfold, four_refills_unfold, wide_state.
    rewrite (wide_block 0), (wide_block 1), (wide_block 2), (wide_block 3) by (cbn; tauto).
    reflexivity.
  Qed.
End Wide.

(** * Explicit forms for Props/C14.v *)
Definition ctr_words (p c e : N) : list N := [p mod 2^32; p / 2^32; c; e].

Lemma set_pos_ctr_words a b c e p : p < 2^64 -> set_pos [a; b; c; e] p = ctr_words p c e.
Proof.
  intros Hp. rewrite set_pos_words. unfold ctr_words. f_equal. f_equal.
  apply N.mod_small. apply N.div_lt_upper_bound; [discriminate|exact Hp].
Qed.

Lemma wf4_cons a b c e : a < 2^32 -> b < 2^32 -> c < 2^32 -> e < 2^32 -> wf4 [a; b; c; e].
Proof. intros. split; [reflexivity|]. repeat constructor; assumption. Qed.

Lemma d0123_counters a b c e i :
  a < 2^32 -> b < 2^32 -> c < 2^32 -> e < 2^32 -> In i [0; 1; 2; 3]%nat ->
  lane i (d0123 [a; b; c; e]) = ctr_words ((a + 2^32 * b + N.of_nat i) mod 2^64) c e.
Proof.
  intros Ha Hb Hc He Hi.
  change [a; b; c; e] with (cd (CC [] [] [a; b; c; e])) at 1.
  rewrite (d0123_lane i (CC [] [] [a; b; c; e])) by (try apply wf4_cons; assumption).
  unfold at_ctr. cbn [cd]. rewrite set_pos_ctr_words by apply wrap_lt. now rewrite wrap_mod.
Qed.

Lemma add_pos_counter a b c e k :
  a < 2^32 -> b < 2^32 -> c < 2^32 -> e < 2^32 ->
  add_pos [a; b; c; e] k = ctr_words ((a + 2^32 * b + k) mod 2^64) c e.
Proof.
  intros Ha Hb Hc He. rewrite add_pos_set_pos by now apply wf4_cons.
  rewrite set_pos_ctr_words by apply wrap_lt. now rewrite wrap_mod.
Qed.

Lemma inc_block_ct_counter kb kc a b c e :
  a < 2^32 -> b < 2^32 -> c < 2^32 -> e < 2^32 ->
  inc_block_ct (CC kb kc [a; b; c; e]) = CC kb kc (ctr_words ((a + 2^32 * b + 1) mod 2^64) c e).
Proof.
  intros Ha Hb Hc He. rewrite inc_block_ct_1 by now apply wf4_cons.
  unfold at_ctr. cbn [cb cc cd]. rewrite set_pos_ctr_words by apply wrap_lt. now rewrite wrap_mod.
Qed.

(** what [at_ctr] does to the observable parameters *)
Lemma at_ctr_spec s k : wf s ->
  cb (at_ctr s k) = cb s /\ cc (at_ctr s k) = cc s /\
  pos64 (at_ctr s k) = (pos64 s + k) mod 2^64 /\
  nth 2 (cd (at_ctr s k)) 0 = nth 2 (cd s) 0 /\ nth 3 (cd (at_ctr s k)) 0 = nth 3 (cd s) 0 /\
  wf (at_ctr s k).
Proof.
  intros Hwf. pose proof (at_ctr_wf s k Hwf) as Hwf'. destruct Hwf as (Hb & Hc & Hd).
  repeat split; try (apply Hwf' || apply Hb || apply Hc).
  - rewrite !pos64_ctr by (exact Hd || apply Hwf'). unfold at_ctr. cbn [cd].
    rewrite ctr_set_pos by (exact Hd || apply wrap_lt). apply wrap_mod.
  - destruct (wf4_inv _ Hd) as (a & b & c & e & E & _). unfold at_ctr. cbn [cd]. rewrite E.
    now rewrite set_pos_words.
  - destruct (wf4_inv _ Hd) as (a & b & c & e & E & _). unfold at_ctr. cbn [cd]. rewrite E.
    now rewrite set_pos_words.
Qed.

Theorem refill_emits_then_advances s dr : wf s ->
  refill s dr = (bytes_le 4 (S.spec_block_words dr (init_words s)), at_ctr s 1).
Proof.
  intros Hwf. rewrite <- refill_eq_block by now apply wf_len4.
  unfold refill at 1. cbn [fst]. f_equal. apply inc_block_ct_1, Hwf.
Qed.

Theorem refill_wide_emits_then_advances s dr : wf s ->
  refill_wide s dr =
  (bytes_le 4 (S.spec_block_words dr (init_words (at_ctr s 0))) ++
   bytes_le 4 (S.spec_block_words dr (init_words (at_ctr s 1))) ++
   bytes_le 4 (S.spec_block_words dr (init_words (at_ctr s 2))) ++
   bytes_le 4 (S.spec_block_words dr (init_words (at_ctr s 3))), at_ctr s 4).
Proof.
  intros Hwf. rewrite refill_wide_eq_four_refills, four_refills_unfold by exact Hwf.
  now rewrite !refill_eq_block by (apply wf_len4, at_ctr_wf, Hwf).
Qed.

(** non-vacuity: a well-formed state whose low counter word carries in lane 1 and one that wraps at 2^64 *)
Example wf_example : wf (CC [1; 2; 3; 4] [5; 6; 7; 8] [0xffffffff; 0xffffffff; 9; 10]).
Proof. repeat split; repeat constructor. Qed.

(** * Seek forms (for the corollary that joins C01, C02 and C14): the states a cipher passes
    through are [seek64 s0 c] resp. [seek32 s0 c] for a fixed [s0] *)
Lemma at_ctr_seek64 s c k : wf4 (cd s) -> c < 2^64 ->
  at_ctr (seek64 s c) k = seek64 s (wrap 64 (c + k)).
Proof.
  intros H Hc. unfold at_ctr, seek64. cbn [cb cc cd].
  now rewrite ctr_set_pos, set_pos_set_pos by assumption.
Qed.

Lemma seek64_wf s c : wf s -> wf (seek64 s c).
Proof. intros (Hb & Hc & Hd). repeat split; try apply Hb; try apply Hc; apply set_pos_wf, Hd. Qed.

Theorem refill_seek64 s c dr : wf s -> c < 2^64 ->
  refill (seek64 s c) dr =
  (bytes_le 4 (S.spec_block_words dr (init_words (seek64 s c))), seek64 s (wrap 64 (c + 1))).
Proof.
  intros Hwf Hc. rewrite refill_emits_then_advances by now apply seek64_wf.
  now rewrite at_ctr_seek64 by (apply Hwf || exact Hc).
Qed.

Theorem refill_wide_seek64 s c dr : wf s -> c < 2^64 ->
  refill_wide (seek64 s c) dr =
  (bytes_le 4 (S.spec_block_words dr (init_words (seek64 s (wrap 64 (c + 0))))) ++
   bytes_le 4 (S.spec_block_words dr (init_words (seek64 s (wrap 64 (c + 1))))) ++
   bytes_le 4 (S.spec_block_words dr (init_words (seek64 s (wrap 64 (c + 2))))) ++
   bytes_le 4 (S.spec_block_words dr (init_words (seek64 s (wrap 64 (c + 3))))),
   seek64 s (wrap 64 (c + 4))).
Proof.
  intros Hwf Hc. rewrite refill_wide_emits_then_advances by now apply seek64_wf.
  now rewrite !at_ctr_seek64 by (apply Hwf || exact Hc).
Qed.

(** 32-bit counter (IETF layout): as long as the low word does not overflow, advancing the
    64-bit counter by k is [seek32] to c + k (word 1, the first nonce word, is untouched) *)
Lemma at_ctr_seek32 s c k : wf4 (cd s) -> c + k < 2^32 ->
  at_ctr (seek32 s c) k = seek32 s (c + k).
Proof.
  intros H Hck. destruct (wf4_inv _ H) as (a & b & e2 & e3 & E & Ha & Hb & H2 & H3).
  unfold at_ctr, seek32. cbn [cb cc cd]. rewrite E. cbn [upd].
  rewrite set_pos_words. unfold ctr_of. cbn [nth].
  assert (Hc : c < 2^32) by lia.
  rewrite !(wrap_small 32) by lia.
  rewrite (wrap_small 64).
  2:{ change (2^64) with (2^32 * 2^32). change (2^32) with 4294967296 in *. nia. }
  replace (c + 2^32 * b + k) with (c + k + b * 2^32) by lia.
  rewrite N.mod_add, N.div_add by discriminate.
  rewrite (N.mod_small (c + k)), (N.div_small (c + k)), (N.mod_small (0 + b)) by lia.
  reflexivity.
Qed.

Lemma seek32_wf s c : wf s -> wf (seek32 s c).
Proof.
  intros (Hb & Hc & Hd). repeat split; try apply Hb; try apply Hc.
  - unfold seek32. cbn [cd]. rewrite upd_length. apply Hd.
  - destruct (wf4_inv _ Hd) as (a & b & e2 & e3 & E & Ha & Hb' & H2 & H3).
    unfold seek32. cbn [cd]. rewrite E. cbn [upd]. repeat constructor; try assumption. apply wrap_lt.
Qed.

Theorem refill_seek32 s c dr : wf s -> c + 1 < 2^32 ->
  refill (seek32 s c) dr =
  (bytes_le 4 (S.spec_block_words dr (init_words (seek32 s c))), seek32 s (c + 1)).
Proof.
  intros Hwf Hc. rewrite refill_emits_then_advances by now apply seek32_wf.
  now rewrite at_ctr_seek32 by (apply Hwf || exact Hc).
Qed.

Theorem refill_wide_seek32 s c dr : wf s -> c + 4 < 2^32 ->
  refill_wide (seek32 s c) dr =
  (bytes_le 4 (S.spec_block_words dr (init_words (seek32 s (c + 0)))) ++
   bytes_le 4 (S.spec_block_words dr (init_words (seek32 s (c + 1)))) ++
   bytes_le 4 (S.spec_block_words dr (init_words (seek32 s (c + 2)))) ++
   bytes_le 4 (S.spec_block_words dr (init_words (seek32 s (c + 3)))),
   seek32 s (c + 4)).
Proof.
  intros Hwf Hc. rewrite refill_wide_emits_then_advances by now apply seek32_wf.
  now rewrite !at_ctr_seek32 by (apply Hwf || lia).
Qed.

(** the last IETF block (c = 2^32 - 1): the block is still the right one; the state afterwards
    has carried into word 1 (the wrapper never uses it: fix 26e2eb5) *)
Theorem refill_seek32_block s c dr : wf s ->
  fst (refill (seek32 s c) dr) = bytes_le 4 (S.spec_block_words dr (init_words (seek32 s c))).
Proof. intros Hwf. apply refill_eq_block, wf_len4, seek32_wf, Hwf. Qed.

(** * The two facts the stream-level proofs (C02/C11) need about the block producers *)
Lemma refill_length s dr : len4 s -> length (fst (refill s dr)) = 64%nat.
Proof.
  intros H. destruct (narrow_rounds_eq_spec s dr H) as [_ (Ha & Hb & Hc & Hd)].
  destruct H as (Lb & Lc & Ld).
  unfold refill, fst, output_narrow, vadd32, vadd.
  rewrite !app_length, !bytes_le_length, !map2_length, Ha, Hb, Hc, Hd, Lb, Lc, Ld. reflexivity.
Qed.

Theorem refill_wide_eq_inc_chain s dr : wf s ->
  refill_wide s dr =
  (fst (refill s dr) ++ fst (refill (inc_block_ct s) dr) ++
   fst (refill (inc_block_ct (inc_block_ct s)) dr) ++
   fst (refill (inc_block_ct (inc_block_ct (inc_block_ct s))) dr),
   inc_block_ct (inc_block_ct (inc_block_ct (inc_block_ct s)))).
Proof. intros Hwf. rewrite refill_wide_eq_four_refills by exact Hwf. reflexivity. Qed.

Lemma inc_block_ct_wf s : wf s -> wf (inc_block_ct s).
Proof. intros Hwf. rewrite inc_block_ct_1 by apply Hwf. now apply at_ctr_wf. Qed.
