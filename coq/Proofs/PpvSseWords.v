(** C12 for the 128-bit x86 types [u32x4_sse2], [u64x2_sse2] (and the operations shared with
    [u128x1_sse2]): every operation of Model/PpvSse.v equals the lane-wise contract of
    Spec/Lanes.v, for every well-formed register and every capability variant. Statement form:
    [op x = bytes_le k (SPEC (words_le k x))] — the result register is the little-endian image of
    the lane-wise result on the little-endian word view ([k] = bytes per word). *)
From Coq Require Import NArith List Lia Bool Arith.
From CC Require Import Lib.Words Lib.Bytes Lib.ListX Model.Intrinsics Model.PpvSse Spec.Lanes.
From CC Require Import Proofs.IntrinsicsLemmas.
Import ListNotations.
Local Open Scope N_scope.

Lemma k4 : (0 < 4)%nat. Proof. lia. Qed.
Lemma k8 : (0 < 8)%nat. Proof. lia. Qed.

(** * add *)
Theorem sse_u32x4_add_lanewise a b : wf 16 a -> wf 16 b ->
  u32x4_add a b = bytes_le 4 (v_add 32 (words_le 4 a) (words_le 4 b)).
Proof.
  apply (lift2 4 16 u32x4_add (v_add 32)); [lia|reflexivity|].
  intros. unfold u32x4_add, mm_add_epi32. apply lanes_map2_bytes; [lia|assumption|assumption].
Qed.
Theorem sse_u64x2_add_lanewise a b : wf 16 a -> wf 16 b ->
  u64x2_add a b = bytes_le 8 (v_add 64 (words_le 8 a) (words_le 8 b)).
Proof.
  apply (lift2 8 16 u64x2_add (v_add 64)); [lia|reflexivity|].
  intros. unfold u64x2_add, mm_add_epi64. apply lanes_map2_bytes; [lia|assumption|assumption].
Qed.

(** * bit operations, for any word size [k] dividing 16 (4: u32x4, 8: u64x2, 16: u128x1) *)

Section Bitops.
  Variable k : nat.
  Hypothesis Hk : (0 < k)%nat.
  Hypothesis Hm : (16 mod k = 0)%nat.
  Let w := 8 * N.of_nat k.

  Theorem sse_xor_lanewise a b : wf 16 a -> wf 16 b ->
    sse_xor a b = bytes_le k (v_xor (words_le k a) (words_le k b)).
  Proof.
    apply (lift2 k 16 sse_xor v_xor Hk Hm). intros. apply bytes_le_lxor. congruence.
  Qed.
  Theorem sse_and_lanewise a b : wf 16 a -> wf 16 b ->
    sse_and a b = bytes_le k (v_and (words_le k a) (words_le k b)).
  Proof.
    apply (lift2 k 16 sse_and v_and Hk Hm). intros. apply bytes_le_land. congruence.
  Qed.
  Theorem sse_or_lanewise a b : wf 16 a -> wf 16 b ->
    sse_or a b = bytes_le k (v_or (words_le k a) (words_le k b)).
  Proof.
    apply (lift2 k 16 sse_or v_or Hk Hm). intros. apply bytes_le_lor. congruence.
  Qed.
  Lemma ff16 : mm_set1_epi64x 0xffffffffffffffff = repeat 255 16.
  Proof. reflexivity. Qed.
  Theorem sse_not_lanewise a : wf 16 a ->
    sse_not a = bytes_le k (v_not w (words_le k a)).
  Proof.
    apply (lift1 k 16 sse_not (v_not w) Hk Hm). intros ws Hw Hl.
    unfold sse_not, sse_xor, mm_xor. rewrite ff16.
    rewrite map2_repeat_r by (rewrite bytes_le_length, Hl; symmetry; apply Nat.div_exact; [lia|exact Hm]).
    rewrite bytes_le_not. f_equal. unfold v_not. apply map_ext_in. intros x Hx.
    apply notw_word. rewrite Forall_forall in Hw. now apply Hw.
  Qed.
  Theorem sse_andnot_lanewise a b : wf 16 a -> wf 16 b ->
    sse_andnot a b = bytes_le k (v_andnot w (words_le k a) (words_le k b)).
  Proof.
    apply (lift2 k 16 sse_andnot (v_andnot w) Hk Hm). intros ws vs Hw Hl Hv Hl'.
    unfold sse_andnot, mm_andnot. rewrite <- (map2_map_l N.land (fun x => N.lxor x 255)).
    rewrite bytes_le_not, bytes_le_land by (rewrite map_length; congruence).
    f_equal. rewrite map2_map_l. unfold v_andnot.
    apply (map2_ext_Forall (is_wordk k)); [|assumption]. intros x y Hx. now rewrite notw_word.
  Qed.
End Bitops.

(** shift-or forms *)
Lemma rotr_32_lanewise i x : wf 16 x -> rotr_32 i x = bytes_le 4 (v_rotr 32 i (words_le 4 x)).
Proof.
  apply (lift1 4 16 (rotr_32 i) (v_rotr 32 i)); [lia|reflexivity|]. intros ws Hw _.
  apply (shift_or_rotr 4 i ws); [lia|assumption].
Qed.
Lemma rotr_64_lanewise i x : wf 16 x -> rotr_64 i x = bytes_le 8 (v_rotr 64 i (words_le 8 x)).
Proof.
  apply (lift1 8 16 (rotr_64 i) (v_rotr 64 i)); [lia|reflexivity|]. intros ws Hw _.
  apply (shift_or_rotr 8 i ws); [lia|assumption].
Qed.

(** byte-granular forms: pshufb constants, pshuflw/pshufhw, pshufd *)
Ltac byte_rot k j :=
  match goal with
  | Hx : wf 16 ?x |- _ = bytes_le _ (v_rotr ?w ?r _) =>
      change w with (8 * N.of_nat k);
      rewrite (v_rotr_bytes k j r 16 x Hx) by (try lia; reflexivity);
      bytes_of x; reflexivity
  end.

Theorem sse_u32x4_rotr_lanewise s3 k x :
  In k [7; 8; 11; 12; 16; 20; 24; 25] -> wf 16 x ->
  u32x4_rotr s3 k x = bytes_le 4 (v_rotr 32 k (words_le 4 x)).
Proof.
  intros Hk Hx. destruct s3; cbn [In] in Hk;
    repeat (destruct Hk as [<-|Hk]; [cbn [u32x4_rotr]; try apply rotr_32_lanewise; try assumption|]);
    try contradiction.
  - byte_rot 4%nat 1%nat.
  - byte_rot 4%nat 2%nat.
  - byte_rot 4%nat 3%nat.
  - byte_rot 4%nat 2%nat.
Qed.

Theorem sse_u64x2_rotr_lanewise s3 k x :
  In k [7; 8; 11; 12; 16; 20; 24; 25; 32] -> wf 16 x ->
  u64x2_rotr s3 k x = bytes_le 8 (v_rotr 64 k (words_le 8 x)).
Proof.
  intros Hk Hx. destruct s3; cbn [In] in Hk;
    repeat (destruct Hk as [<-|Hk]; [cbn [u64x2_rotr]; try apply rotr_64_lanewise; try assumption|]);
    try contradiction.
  - byte_rot 8%nat 1%nat.
  - byte_rot 8%nat 2%nat.
  - byte_rot 8%nat 3%nat.
  - byte_rot 8%nat 4%nat.
  - byte_rot 8%nat 4%nat.
Qed.

(** * bswap *)
Ltac byte_swap k :=
  match goal with
  | Hx : wf 16 ?x |- _ = bytes_le _ (v_bswap ?w _) =>
      change w with (8 * N.of_nat k);
      rewrite (v_bswap_bytes k 16 x Hx);
      bytes_of x; reflexivity
  end.
Theorem sse_u32x4_bswap_lanewise s3 x : wf 16 x ->
  u32x4_bswap s3 x = bytes_le 4 (v_bswap 32 (words_le 4 x)).
Proof. intros Hx. destruct s3; byte_swap 4%nat. Qed.
Theorem sse_u64x2_bswap_lanewise s3 x : wf 16 x ->
  u64x2_bswap s3 x = bytes_le 8 (v_bswap 64 (words_le 8 x)).
Proof. intros Hx. destruct s3; byte_swap 8%nat. Qed.
Theorem sse_u128x1_bswap_lanewise s3 x : wf 16 x ->
  u128x1_bswap s3 x = bytes_le 16 (v_bswap 128 (words_le 16 x)).
Proof. intros Hx. destruct s3; byte_swap 16%nat. Qed.

(** * word shuffles *)
Lemma shuffle1230_map A B (f : A -> B) l : shuffle1230 (map f l) = map f (shuffle1230 l).
Proof. destruct l as [|a [|b [|c [|d [|e l]]]]]; reflexivity. Qed.
Lemma shuffle2301_map A B (f : A -> B) l : shuffle2301 (map f l) = map f (shuffle2301 l).
Proof. destruct l as [|a [|b [|c [|d [|e l]]]]]; reflexivity. Qed.
Lemma shuffle3012_map A B (f : A -> B) l : shuffle3012 (map f l) = map f (shuffle3012 l).
Proof. destruct l as [|a [|b [|c [|d [|e l]]]]]; reflexivity. Qed.
Lemma shuffle1230_Forall A (P : A -> Prop) l : Forall P l -> Forall P (shuffle1230 l).
Proof.
  destruct l as [|a [|b [|c [|d [|e l]]]]]; cbn; auto. intros H.
  repeat match goal with Hf : Forall _ (_ :: _) |- _ => inversion Hf; clear Hf; subst end.
  repeat constructor; assumption.
Qed.
Lemma shuffle2301_Forall A (P : A -> Prop) l : Forall P l -> Forall P (shuffle2301 l).
Proof.
  destruct l as [|a [|b [|c [|d [|e l]]]]]; cbn; auto. intros H.
  repeat match goal with Hf : Forall _ (_ :: _) |- _ => inversion Hf; clear Hf; subst end.
  repeat constructor; assumption.
Qed.
Lemma shuffle3012_Forall A (P : A -> Prop) l : Forall P l -> Forall P (shuffle3012 l).
Proof.
  destruct l as [|a [|b [|c [|d [|e l]]]]]; cbn; auto. intros H.
  repeat match goal with Hf : Forall _ (_ :: _) |- _ => inversion Hf; clear Hf; subst end.
  repeat constructor; assumption.
Qed.

Theorem sse_u32x4_shuffle_is_perm x : wf 16 x ->
  u32x4_shuffle1230 x = bytes_le 4 (shuffle1230 (words_le 4 x)) /\
  u32x4_shuffle2301 x = bytes_le 4 (shuffle2301 (words_le 4 x)) /\
  u32x4_shuffle3012 x = bytes_le 4 (shuffle3012 (words_le 4 x)).
Proof.
  intros Hx.
  rewrite (v_perm_bytes 4 16 x (@shuffle1230) shuffle1230_map shuffle1230_Forall Hx).
  rewrite (v_perm_bytes 4 16 x (@shuffle2301) shuffle2301_map shuffle2301_Forall Hx).
  rewrite (v_perm_bytes 4 16 x (@shuffle3012) shuffle3012_map shuffle3012_Forall Hx).
  bytes_of x. repeat split; reflexivity.
Qed.

(** the five bit operations at the three word sizes *)
Theorem sse_bitops_lanewise k : In k [4; 8; 16]%nat -> forall a b, wf 16 a -> wf 16 b ->
  sse_xor a b = bytes_le k (v_xor (words_le k a) (words_le k b)) /\
  sse_and a b = bytes_le k (v_and (words_le k a) (words_le k b)) /\
  sse_or a b = bytes_le k (v_or (words_le k a) (words_le k b)) /\
  sse_not a = bytes_le k (v_not (8 * N.of_nat k) (words_le k a)) /\
  sse_andnot a b = bytes_le k (v_andnot (8 * N.of_nat k) (words_le k a) (words_le k b)).
Proof.
  intros Hk a b Ha Hb.
  assert (H0 : (0 < k)%nat /\ (16 mod k = 0)%nat).
  { cbn [In] in Hk. repeat (destruct Hk as [<-|Hk]; [split; [lia|reflexivity]|]). contradiction. }
  destruct H0 as [H0 Hm].
  repeat split.
  - now apply sse_xor_lanewise.
  - now apply sse_and_lanewise.
  - now apply sse_or_lanewise.
  - now apply sse_not_lanewise.
  - now apply sse_andnot_lanewise.
Qed.
