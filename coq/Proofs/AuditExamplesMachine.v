(** Audit examples for C03 (auditor's additions): the hypotheses of the composed theorems are met by
    concrete non-trivial data, the real intrinsic-level machines are executable, and two concrete
    configurations (std + SSE2-only CPU vs. no-std + avx2 target feature vs. no_simd) give the RFC 7539
    block through [C03_real_blocks_agree]. *)
From Coq Require Import NArith List Bool Lia.
From CC Require Import Lib.Words Lib.Bytes Lib.ListX Spec.Lanes Model.Dispatch Model.Machine Model.MachineFull.
From CC Require Model.PpvSoft Model.ChaChaGuts Model.ChaChaStream.
From CC Require Import Proofs.Dispatch Proofs.Machine Proofs.MachineFullLib Proofs.MachineFullReal Proofs.MachineInstReal.
From CC Require Spec.ChaCha Spec.KAT_ChaCha.
From CC Require Import Props.C03.
Import ListNotations.
Local Open Scope N_scope.

(** RFC 7539 2.3.2 state: key 00..1f, counter 1, nonce 00 00 00 09 00 00 00 4a 00 00 00 00 *)
Definition rfc_store : cstore :=
  CSt (map N.of_nat (seq 0 16)) (map N.of_nat (seq 16 16))
      (bytes_le 4 [1; 0x09000000; 0x4a000000; 0]).

Lemma rfc_store_ok : cstore_ok rfc_store.
Proof.
  unfold cstore_ok, bytes_ok. cbn [rfc_store st_b st_c st_d].
  repeat split; try reflexivity; apply Forall_forall; intros x Hx; vm_compute in Hx;
    repeat (destruct Hx as [<- | Hx]; [reflexivity|]); destruct Hx.
Qed.

Definition cpu_sse2_only : features := F true false false false false.
Definition cpu_avx2 : features := F true true true true true.
Definition no_features : features := F false false false false false.

(** std build, release profile, CPU reports SSE2 only *)
Definition cfg_std_sse2 : xconfig := (PpvSoft.Release, false, true, cpu_sse2_only, cpu_sse2_only).
(** no-std build with -C target-feature=+avx2 (debug profile) *)
Definition cfg_nostd_avx2 : xconfig := (PpvSoft.Debug, false, false, cpu_avx2, cpu_avx2).
(** no_simd feature (portable back end), debug profile *)
Definition cfg_no_simd : xconfig := (PpvSoft.Debug, true, true, cpu_avx2, cpu_avx2).

Definition rfc_block : list N :=
  be_split 64 0x10f1e7e4d13b5915500fdd1fa32071c4c7d1f4c733c068030422aa9ac3d46c4ed2826446079faa0914c2d705d98b02a2b5129cd1de164eb9cbd083e8a2503c4e.

(** the theorem applies (all hypotheses met) and its right-hand side is the published block *)
Example audit_C03_three_configs_rfc_block :
  forall c, In c [cfg_std_sse2; cfg_nostd_avx2; cfg_no_simd] ->
    option_map fst (refill_narrow_on 10 c rfc_store) = Some rfc_block.
Proof.
  intros c Hc.
  assert (Hs : f_sse2 (xcpu c) = true) by (cbn in Hc; destruct Hc as [<-|[<-|[<-|[]]]]; reflexivity).
  rewrite (proj1 (C03_real_blocks_agree c Hs) 10%nat rfc_store rfc_store_ok).
  vm_compute. reflexivity.
Qed.

(** ... and the three selections really are three different machines *)
Example audit_C03_three_configs_select :
  dispatch MDispatch false true cpu_sse2_only cpu_sse2_only = Run SSE2 /\
  dispatch MDispatch false false cpu_avx2 cpu_avx2 = Run AVX2 /\
  dispatch MDispatch true true cpu_avx2 cpu_avx2 = Run Generic /\
  dispatch MLight128 false true cpu_avx2 cpu_sse2_only = Run AVX.
Proof. repeat split; reflexivity. Qed.

(** the left-hand side computed directly on the intrinsic-level models (no theorem involved):
    SSE2 (shift-or rotates), SSSE3 (pshufb rotates), AVX2 and the portable machine all give the block *)
Example audit_C03_real_machines_run_rfc_block :
  fst (x_refill_narrow (real_xinst PpvSoft.Release SSE2) (real_xinst PpvSoft.Release SSE2) 10 rfc_store) = rfc_block /\
  fst (x_refill_narrow (real_xinst PpvSoft.Release SSSE3) (real_xinst PpvSoft.Release AVX) 10 rfc_store) = rfc_block /\
  fst (x_refill_narrow (real_xinst PpvSoft.Debug AVX2) (real_xinst PpvSoft.Debug AVX) 10 rfc_store) = rfc_block /\
  fst (x_refill_narrow (real_xinst PpvSoft.Debug Generic) (real_xinst PpvSoft.Debug Generic) 10 rfc_store) = rfc_block /\
  firstn 64 (skipn 0 (fst (xm_refill_wide (real_xinst PpvSoft.Debug AVX2) 10 rfc_store))) = rfc_block /\
  firstn 64 (fst (xm_refill_wide (real_xinst PpvSoft.Debug Generic) 10 rfc_store)) = rfc_block.
Proof. vm_compute. repeat split; reflexivity. Qed.

(** without SSE2 detected the std arm does reach [unimplemented!()] (the hypothesis is needed) *)
Example audit_C03_no_sse2_is_none :
  refill_narrow_on 10 (PpvSoft.Release, false, true, no_features, cpu_sse2_only) rfc_store = None.
Proof. reflexivity. Qed.
