(** C13 for the 128-bit x86 types and [u64x4_sse2]: lane order of [from_lanes]/[to_lanes] per
    S4 variant, [extract]/[insert] at every index (SSE2 shuffle sequences and SSE4.1
    pinsr/pextr), incl. the out-of-range panics. *)
From Coq Require Import NArith List Lia Bool Arith.
From CC Require Import Lib.Words Lib.Bytes Lib.ListX Model.Intrinsics Model.PpvSse Spec.Lanes
  Proofs.IntrinsicsLemmas Proofs.PpvSseWords.
Import ListNotations.
Local Open Scope N_scope.

(** * joins and splits of concatenations *)
Lemma lor_cat r lo hi : lo < 2 ^ r -> N.lor lo (N.shiftl hi r) = lo + hi * 2 ^ r.
Proof.
  intros H. apply N.bits_inj; intro i.
  rewrite N.lor_spec, testbit_shiftl, testbit_cat by assumption.
  destruct (N.ltb_spec i r) as [Hi|Hi].
  - destruct (N.leb_spec r i); [lia|]. now rewrite orb_false_r.
  - destruct (N.leb_spec r i); [|lia]. now rewrite (testbit_high r lo i).
Qed.
Lemma wrap_cat r lo hi : lo < 2 ^ r -> wrap r (lo + hi * 2 ^ r) = lo.
Proof. intros. rewrite wrap_mod, N.mod_add by apply pow2_nz. now apply N.mod_small. Qed.
Lemma shiftr_cat r lo hi : lo < 2 ^ r -> N.shiftr (lo + hi * 2 ^ r) r = hi.
Proof. intros. rewrite N.shiftr_div_pow2, N.div_add by apply pow2_nz. now rewrite N.div_small. Qed.

Lemma le_split_cat n m lo hi :
  lo < 2 ^ (8 * N.of_nat n) ->
  le_split (n + m) (lo + hi * 2 ^ (8 * N.of_nat n)) = le_split n lo ++ le_split m hi.
Proof.
  revert lo. induction n as [|n IH]; intros lo Hlo.
  - cbn in Hlo. assert (lo = 0) by lia. subst. cbn. f_equal. lia.
  - cbn [Nat.add le_split app].
    replace (8 * N.of_nat (S n)) with (8 * N.of_nat n + 8) in * by lia.
    rewrite N.pow_add_r in *. change (2 ^ 8) with 256 in *.
    rewrite !land_255, !shiftr_8. f_equal.
    + replace (hi * (2 ^ (8 * N.of_nat n) * 256)) with (hi * 2 ^ (8 * N.of_nat n) * 256) by lia.
      now rewrite N.mod_add.
    + replace (hi * (2 ^ (8 * N.of_nat n) * 256)) with (hi * 2 ^ (8 * N.of_nat n) * 256) by lia.
      rewrite N.div_add by lia. apply IH.
      apply N.div_lt_upper_bound; lia.
Qed.

(** * MultiLane: lane order is memory order, little-endian words *)
Lemma or_low_high A B : length A = 8%nat -> length B = 8%nat ->
  mm_or (A ++ repeat 0 8) (repeat 0 8 ++ B) = A ++ B.
Proof.
  intros HA HB. unfold mm_or. rewrite map2_app by now rewrite repeat_length.
  rewrite map2_repeat_r, map2_repeat_l by assumption. f_equal.
  - rewrite <- (map_id A) at 2. apply map_ext. intro. apply N.lor_0_r.
  - rewrite <- (map_id B) at 2. apply map_ext. intro. apply N.lor_0_l.
Qed.
Lemma from2_s4 x y : mm_insert_epi64 (mm_cvtsi64_si128 x) y 1 = le_split 8 x ++ le_split 8 y.
Proof. reflexivity. Qed.
Lemma from2_s2 x y :
  mm_or (mm_cvtsi64_si128 x) (mm_slli_si128 (mm_cvtsi64_si128 y) 8) = le_split 8 x ++ le_split 8 y.
Proof.
  unfold mm_cvtsi64_si128, mm_slli_si128.
  change (repeat 0 (Nat.min 8 16)) with (repeat 0 8).
  change (firstn (16 - 8) (le_split 8 y ++ repeat 0 8)) with (le_split 8 y).
  apply or_low_high; apply le_split_length.
Qed.

Theorem sse_u64x2_from_lanes_order s4 a b : a < 2 ^ 64 -> b < 2 ^ 64 ->
  u64x2_from_lanes s4 [a; b] = bytes_le 8 [a; b].
Proof.
  intros. unfold u64x2_from_lanes. cbn [nth]. destruct s4; [rewrite from2_s4|rewrite from2_s2];
    cbn [bytes_le flat_map]; now rewrite app_nil_r.
Qed.
Lemma pack64_split a b : a < 2 ^ 32 -> le_split 8 (pack64 a b) = le_split 4 a ++ le_split 4 b.
Proof.
  intros Ha. unfold pack64. rewrite (lor_cat 32) by assumption.
  apply (le_split_cat 4 4 a b). exact Ha.
Qed.
Theorem sse_u32x4_from_lanes_order s4 a b c d : a < 2 ^ 32 -> c < 2 ^ 32 ->
  u32x4_from_lanes s4 [a; b; c; d] = bytes_le 4 [a; b; c; d].
Proof.
  intros Ha Hc. unfold u32x4_from_lanes. cbn [nth].
  destruct s4; [rewrite from2_s4|rewrite from2_s2]; rewrite !pack64_split by assumption;
    cbn [bytes_le flat_map]; now rewrite app_nil_r, <- !app_assoc.
Qed.
Theorem sse_u128x1_from_lanes_order a : u128x1_from_lanes [a] = bytes_le 16 [a].
Proof. unfold u128x1_from_lanes. cbn [nth bytes_le flat_map]. now rewrite app_nil_r. Qed.

Lemma join8_halves (x : list N) : wf 8 x ->
  wrap 32 (le_join x) = le_join (firstn 4 x) /\ wrap 32 (N.shiftr (le_join x) 32) = le_join (skipn 4 x).
Proof.
  intros [Hl Hb]. rewrite <- (firstn_skipn 4 x) at 1 3. rewrite le_join_app.
  pose proof (le_join_lt _ (Forall_firstn' _ 4 _ Hb)) as L1.
  pose proof (le_join_lt _ (Forall_skipn' _ 4 _ Hb)) as L2.
  rewrite firstn_length_le in * by lia. rewrite skipn_length, Hl in L2.
  change (8 * N.of_nat 4) with 32 in *. change (8 * N.of_nat (8 - 4)) with 32 in *.
  split; [now apply wrap_cat|]. rewrite shiftr_cat by assumption. now apply wrap_small.
Qed.

Theorem sse_u32x4_to_lanes_order s4 x : wf 16 x -> u32x4_to_lanes s4 x = words_le 4 x.
Proof.
  intros Hx. unfold u32x4_to_lanes.
  assert (H1 : mm_cvtsi128_si64 x = le_join (firstn 8 x)) by reflexivity.
  assert (H2 : (if s4 then mm_extract_epi64 x 1 else mm_cvtsi128_si64 (mm_shuffle_epi32 x 0xee))
               = le_join (firstn 8 (skipn 8 x))).
  { destruct s4; [reflexivity|]. bytes_of x. reflexivity. }
  rewrite H1, H2. clear H1 H2.
  destruct Hx as [Hl Hb].
  destruct (join8_halves (firstn 8 x)) as [E1 E2].
  { split; [apply firstn_length_le; lia|now apply Forall_firstn']. }
  destruct (join8_halves (firstn 8 (skipn 8 x))) as [E3 E4].
  { split; [rewrite firstn_length_le; [reflexivity|rewrite skipn_length; lia]|now apply Forall_firstn', Forall_skipn']. }
  rewrite E1, E2, E3, E4. explode x. reflexivity.
Qed.
Theorem sse_u64x2_to_lanes_order s4 x : wf 16 x -> u64x2_to_lanes s4 x = words_le 8 x.
Proof. intros Hx. destruct s4; bytes_of x; reflexivity. Qed.
Theorem sse_u128x1_to_lanes_order x : wf 16 x -> u128x1_to_lanes x = words_le 16 x.
Proof. intros Hx. bytes_of x; reflexivity. Qed.

(** [upd] on the word view = replacing the bytes of that word *)
Lemma bytes_le_upd k cs i v :
  Forall (fun c => length c = k) cs -> Forall (Forall is_byte) cs ->
  bytes_le k (upd i v (map le_join cs)) = concat (upd i (le_split k v) cs).
Proof.
  intros Hl Hb. revert i. induction Hl as [|c cs Hc Hl IH]; intros i; [destruct i; reflexivity|].
  inversion Hb as [|? ? Hbc Hbcs]; subst.
  destruct i as [|i]; cbn [map upd concat bytes_le flat_map].
  - f_equal. change (flat_map (le_split (length c)) (map le_join cs)) with (bytes_le (length c) (map le_join cs)).
    now apply bytes_le_joins.
  - rewrite le_split_join by assumption. f_equal. now apply IH.
Qed.
Lemma v_insert_bytes k n x i v : wf n x ->
  bytes_le k (v_insert (words_le k x) v i) = concat (upd i (le_split k v) (chunks_exact k (length x) x)).
Proof.
  intros Hx. destruct (chunks_wf k n x Hx). unfold v_insert, words_le. now apply bytes_le_upd.
Qed.

Lemma byte_land_255 b : is_byte b -> N.land 255 b = b.
Proof. intros H. rewrite N.land_comm, land_255. now apply N.mod_small. Qed.
Lemma byte_land_0 b : N.land 0 b = 0. Proof. reflexivity. Qed.

(** * Vec4<u32> for u32x4 *)
Theorem sse_u32x4_extract s4 x i : wf 16 x ->
  u32x4_extract s4 x i = if i <? 4 then Ok (v_extract (words_le 4 x) (N.to_nat i)) else Panic.
Proof.
  intros Hx. unfold u32x4_extract. destruct (i <? 4); [|reflexivity].
  now rewrite sse_u32x4_to_lanes_order.
Qed.

Ltac lor0 := repeat rewrite ?N.lor_0_r, ?N.lor_0_l.

Ltac land0 := repeat first [rewrite N.land_0_l | rewrite byte_land_255 by assumption].
Ltac out_of_range i :=
  destruct i as [|p]; [lia|]; destruct p as [p|p|]; [destruct p|destruct p|]; try lia; reflexivity.

Theorem sse_u32x4_insert s4 x v i : wf 16 x ->
  u32x4_insert s4 x v i =
  if i <? 4 then Ok (bytes_le 4 (v_insert (words_le 4 x) v (N.to_nat i))) else Panic.
Proof.
  intros Hx.
  destruct (N.ltb_spec i 4) as [Hi|Hi].
  - rewrite (v_insert_bytes 4 16 x _ v Hx).
    assert (Hc : i = 0 \/ i = 1 \/ i = 2 \/ i = 3) by lia.
    bytes_of x.
    destruct s4; destruct Hc as [ -> | [ -> | [ -> | -> ] ] ]; cbn [u32x4_insert]; f_equal;
      unfold mm_insert_epi32, mm_cvtsi32_si128;
      generalize (le_split_length 4 v); generalize (le_split 4 v); intros vb Hv; explode vb;
      first [ cbv -[N.lor]; lor0; reflexivity | cbv -[N.lor N.land]; land0; lor0; reflexivity ].
  - destruct s4; unfold u32x4_insert; out_of_range i.
Qed.

(** * Vec2<u64> for u64x2 *)
Theorem sse_u64x2_extract s4 x i : wf 16 x ->
  u64x2_extract s4 x i = if i <? 2 then Ok (v_extract (words_le 8 x) (N.to_nat i)) else Panic.
Proof.
  intros Hx. destruct (N.ltb_spec i 2) as [Hi|Hi].
  - assert (Hc : i = 0 \/ i = 1) by lia. bytes_of x.
    destruct s4; destruct Hc as [ -> | -> ]; reflexivity.
  - unfold u64x2_extract. out_of_range i.
Qed.
Theorem sse_u64x2_insert s4 x v i : wf 16 x ->
  u64x2_insert s4 x v i =
  if i <? 2 then Ok (bytes_le 8 (v_insert (words_le 8 x) v (N.to_nat i))) else Panic.
Proof.
  intros Hx.
  destruct (N.ltb_spec i 2) as [Hi|Hi].
  - rewrite (v_insert_bytes 8 16 x _ v Hx).
    assert (Hc : i = 0 \/ i = 1) by lia.
    bytes_of x.
    destruct s4; destruct Hc as [ -> | -> ]; cbn [u64x2_insert]; f_equal;
      unfold mm_insert_epi64, mm_cvtsi64_si128;
      generalize (le_split_length 8 v); generalize (le_split 8 v); intros vb Hv; explode vb;
      first [ cbv -[N.lor]; lor0; reflexivity | cbv -[N.lor N.land]; land0; lor0; reflexivity ].
  - unfold u64x2_insert. out_of_range i.
Qed.

(** * u64x4_sse2 = x2<u64x2_sse2, G1>: the value is the pair of registers *)
Definition img2 (v : reg * reg) : list N := fst v ++ snd v.
Definition wf2 (v : reg * reg) : Prop := wf 16 (fst v) /\ wf 16 (snd v).

Lemma wf2_img v : wf2 v -> wf 32 (img2 v).
Proof.
  intros [[L1 B1] [L2 B2]]. split; unfold img2; [rewrite app_length; lia|now apply Forall_app].
Qed.

Theorem sse_u64x4_shuffle_is_perm s3 v : wf2 v ->
  img2 (u64x4_shuffle1230 s3 v) = bytes_le 8 (shuffle1230 (words_le 8 (img2 v))) /\
  img2 (u64x4_shuffle2301 v) = bytes_le 8 (shuffle2301 (words_le 8 (img2 v))) /\
  img2 (u64x4_shuffle3012 s3 v) = bytes_le 8 (shuffle3012 (words_le 8 (img2 v))).
Proof.
  intros Hv. pose proof (wf2_img v Hv) as Hi.
  rewrite (v_perm_bytes 8 32 _ (@shuffle1230) shuffle1230_map shuffle1230_Forall Hi).
  rewrite (v_perm_bytes 8 32 _ (@shuffle2301) shuffle2301_map shuffle2301_Forall Hi).
  rewrite (v_perm_bytes 8 32 _ (@shuffle3012) shuffle3012_map shuffle3012_Forall Hi).
  clear Hi. destruct v as [x y]. destruct Hv as [Hx Hy]. cbn [fst snd] in *.
  bytes_of x. bytes_of y.
  destruct s3; repeat split; cbv -[N.lor]; lor0; reflexivity.
Qed.

Lemma words_le_app16 k x y : wf 16 x -> wf 16 y -> In k [4; 8; 16]%nat ->
  words_le k (x ++ y) = words_le k x ++ words_le k y.
Proof.
  intros Hx Hy Hk. bytes_of x. bytes_of y. cbn [In] in Hk.
  repeat (destruct Hk as [<-|Hk]; [reflexivity|]). contradiction.
Qed.

Theorem sse_u64x4_to_lanes_order s4 v : wf2 v -> u64x4_to_lanes s4 v = words_le 8 (img2 v).
Proof.
  intros [Hx Hy]. unfold u64x4_to_lanes, img2.
  rewrite !sse_u64x2_to_lanes_order by assumption.
  symmetry. apply words_le_app16; cbn; auto.
Qed.
Theorem sse_u64x4_from_lanes_order s4 a b c d :
  a < 2 ^ 64 -> b < 2 ^ 64 -> c < 2 ^ 64 -> d < 2 ^ 64 ->
  img2 (u64x4_from_lanes s4 [a; b; c; d]) = bytes_le 8 [a; b; c; d].
Proof.
  intros. unfold u64x4_from_lanes, img2. cbn [nth fst snd].
  rewrite !sse_u64x2_from_lanes_order by assumption. cbn [bytes_le flat_map]. now rewrite <- !app_assoc.
Qed.

Definition oimg2 (o : outcome (reg * reg)) : outcome (list N) := omap img2 o.

Theorem sse_u64x4_extract s4 v i : wf2 v ->
  u64x4_extract s4 v i = if i <? 4 then Ok (v_extract (words_le 8 (img2 v)) (N.to_nat i)) else Panic.
Proof.
  intros [Hx Hy]. destruct (N.ltb_spec i 4) as [Hi|Hi].
  - assert (Hc : i = 0 \/ i = 1 \/ i = 2 \/ i = 3) by lia.
    unfold img2. rewrite (words_le_app16 8) by (cbn; auto).
    rewrite <- !(sse_u64x2_to_lanes_order s4) by assumption.
    destruct Hc as [ -> | [ -> | [ -> | -> ] ] ]; cbn [u64x4_extract];
      rewrite sse_u64x2_extract by assumption; cbn [N.ltb N.compare Pos.compare Pos.compare_cont];
      rewrite <- !(sse_u64x2_to_lanes_order s4) by assumption; reflexivity.
  - unfold u64x4_extract. out_of_range i.
Qed.

Theorem sse_u64x4_insert s4 v w i : wf2 v ->
  oimg2 (u64x4_insert s4 v w i) =
  if i <? 4 then Ok (bytes_le 8 (v_insert (words_le 8 (img2 v)) w (N.to_nat i))) else Panic.
Proof.
  intros Hv. pose proof (wf2_img v Hv) as Hi32. destruct Hv as [Hx Hy].
  destruct (N.ltb_spec i 4) as [Hi|Hi].
  - assert (Hc : i = 0 \/ i = 1 \/ i = 2 \/ i = 3) by lia.
    rewrite (v_insert_bytes 8 32 _ _ w Hi32). clear Hi32.
    destruct v as [x y]. cbn [fst snd] in *.
    destruct Hc as [ -> | [ -> | [ -> | -> ] ] ]; cbn [u64x4_insert fst snd];
      rewrite sse_u64x2_insert by assumption; cbn [N.ltb N.compare Pos.compare Pos.compare_cont omap oimg2];
      f_equal; unfold img2; cbn [fst snd];
      match goal with |- context [bytes_le 8 (v_insert (words_le 8 ?r) _ _)] =>
        rewrite (v_insert_bytes 8 16 r) by assumption end;
      bytes_of x; bytes_of y; reflexivity.
  - unfold u64x4_insert, oimg2. destruct i as [|p]; [lia|]; destruct p as [p|p|]; [destruct p|destruct p|]; try lia; reflexivity.
Qed.
