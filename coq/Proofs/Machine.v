(** Machine independence (C03): an algorithm written over the record of vector operations
    computes, through the view [rep], the same word lists on every back end that refines the
    lane-wise meaning. Pure rewriting with the refinement fields; nothing is computed. *)
From Coq Require Import NArith List Bool.
From CC Require Import Lib.Words Lib.Bytes Lib.ListX Spec.Lanes Model.Machine.
Import ListNotations.
Local Open Scope N_scope.

Ltac split4 := split; [|split; [|split]].
Ltac split8 := split; [|split; [|split; [|split; [|split; [|split; [|split]]]]]].

(** * the lane-wise instances refine themselves *)
Lemma lane_vops_refines : forall w n ks, vops_refines w n ks (lane_vops w).
Proof.
  intros w n ks. constructor; unfold rel; cbn; intros;
    repeat match goal with H : _ /\ _ |- _ => destruct H end; subst; split; auto.
Qed.

Lemma lane_jops_refines : jops_refines lane_jops.
Proof.
  constructor; unfold jrel1, jrel2; cbn; intros;
    repeat match goal with H : _ /\ _ |- _ => destruct H end; subst; split; auto.
Qed.

Lemma lane_m_refines : machine_refines lane_m.
Proof.
  unfold machine_refines, lane_m; cbn.
  split; [apply lane_vops_refines | split; [apply lane_vops_refines | split; [apply lane_vops_refines | apply lane_jops_refines]]].
Qed.

(** * ChaCha *)
Section ChaChaIndep.
  Variables (o : vops) (w : N) (n : nat) (ks : list N).
  Hypothesis R : vops_refines w n ks o.
  Hypothesis Hks : incl chacha_ks ks.

  (** [x] (back end) denotes [y] (lane-wise state) *)
  Definition c_sim (x : cstate o) (y : cstate (lane_vops w)) : Prop :=
    rel o (sa x) (sa y) /\ rel o (sb x) (sb y) /\ rel o (sc x) (sc y) /\ rel o (sd x) (sd y).

  Ltac ops :=
    repeat first
      [ eassumption
      | apply (r_add _ _ _ _ R)
      | apply (r_xor _ _ _ _ R)
      | apply (r_rotr _ _ _ _ R); [apply Hks; cbn; tauto | ]
      | apply (r_sh1230 _ _ _ _ R)
      | apply (r_sh2301 _ _ _ _ R)
      | apply (r_sh3012 _ _ _ _ R) ].

  Lemma c_round_sim : forall x y, c_sim x y -> c_sim (c_round o x) (c_round (lane_vops w) y).
  Proof.
    intros x y (Ha & Hb & Hc & Hd). unfold c_sim, c_round. cbn [sa sb sc sd].
    split4; ops.
  Qed.

  Lemma c_diagonalize_sim : forall x y, c_sim x y -> c_sim (c_diagonalize o x) (c_diagonalize (lane_vops w) y).
  Proof.
    intros x y (Ha & Hb & Hc & Hd). unfold c_sim, c_diagonalize. cbn [sa sb sc sd]. split4; ops.
  Qed.

  Lemma c_undiagonalize_sim : forall x y, c_sim x y -> c_sim (c_undiagonalize o x) (c_undiagonalize (lane_vops w) y).
  Proof.
    intros x y (Ha & Hb & Hc & Hd). unfold c_sim, c_undiagonalize. cbn [sa sb sc sd]. split4; ops.
  Qed.

  Lemma c_dround_sim : forall x y, c_sim x y -> c_sim (c_dround o x) (c_dround (lane_vops w) y).
  Proof.
    intros x y H. unfold c_dround.
    apply c_undiagonalize_sim, c_round_sim, c_diagonalize_sim, c_round_sim, H.
  Qed.

  Lemma c_rounds_sim : forall k x y, c_sim x y -> c_sim (c_rounds o k x) (c_rounds (lane_vops w) k y).
  Proof.
    induction k as [|k IH]; intros x y H; cbn [c_rounds]; [exact H | apply IH, c_dround_sim, H].
  Qed.

  Lemma c_sim_rep : forall x y, c_sim x y -> c_rep o x = c_rep (lane_vops w) y.
  Proof.
    intros x y ((_ & Ha) & (_ & Hb) & (_ & Hc) & (_ & Hd)). unfold c_rep. cbn [lane_vops v_rep].
    now rewrite Ha, Hb, Hc, Hd.
  Qed.

  Lemma c_vec_sim : forall a b c d,
    words_ok w n a -> words_ok w n b -> words_ok w n c -> words_ok w n d ->
    c_sim (c_vec o a b c d) (c_vec (lane_vops w) a b c d).
  Proof.
    intros. unfold c_sim, c_vec. cbn [sa sb sc sd lane_vops v_vec].
    split4; apply (r_vec _ _ _ _ R); assumption.
  Qed.

  (** well-formedness is preserved, and the view commutes with any number of double rounds *)
  Lemma chacha_rounds_commute : forall k x y,
    c_sim x y ->
    c_rep o (c_rounds o k x) = c_rep (lane_vops w) (c_rounds (lane_vops w) k y) /\
    v_wf o (sa (c_rounds o k x)) /\ v_wf o (sb (c_rounds o k x)) /\
    v_wf o (sc (c_rounds o k x)) /\ v_wf o (sd (c_rounds o k x)).
  Proof.
    intros k x y H. pose proof (c_rounds_sim k x y H) as S. split; [apply c_sim_rep, S|].
    destruct S as ((? & _) & (? & _) & (? & _) & (? & _)). auto.
  Qed.

  Lemma chacha_rounds_on_indep : forall k a b c d,
    words_ok w n a -> words_ok w n b -> words_ok w n c -> words_ok w n d ->
    chacha_rounds_on o k a b c d = chacha_rounds_on (lane_vops w) k a b c d.
  Proof.
    intros. unfold chacha_rounds_on. apply c_sim_rep, c_rounds_sim, c_vec_sim; assumption.
  Qed.
End ChaChaIndep.

(** * BLAKE *)
Section BlakeIndep.
  Variables (o : vops) (w : N) (ks : list N) (k1 k2 k3 k4 : N).
  Hypothesis R : vops_refines w 4 ks o.
  Hypothesis Hks : incl [k1; k2; k3; k4] ks.

  Definition b_sim (x : brows o) (y : brows (lane_vops w)) : Prop :=
    let '(a, b, c, d) := x in let '(la, lb, lc, ld) := y in
    rel o a la /\ rel o b lb /\ rel o c lc /\ rel o d ld.

  Ltac ops :=
    repeat first
      [ eassumption
      | apply (r_add _ _ _ _ R)
      | apply (r_xor _ _ _ _ R)
      | apply (r_rotr _ _ _ _ R); [apply Hks; cbn; tauto | ]
      | apply (r_sh1230 _ _ _ _ R)
      | apply (r_sh2301 _ _ _ _ R)
      | apply (r_sh3012 _ _ _ _ R) ].

  Lemma b_round_sim : forall x y m0 m1 l0 l1,
    b_sim x y -> rel o m0 l0 -> rel o m1 l1 ->
    b_sim (b_round o k1 k2 k3 k4 x m0 m1) (b_round (lane_vops w) k1 k2 k3 k4 y l0 l1).
  Proof.
    intros [[[a b] c] d] [[[la lb] lc] ld] m0 m1 l0 l1 (Ha & Hb & Hc & Hd) H0 H1.
    unfold b_sim, b_round. split4; ops.
  Qed.

  Lemma b_diagonalize_sim : forall x y, b_sim x y -> b_sim (b_diagonalize o x) (b_diagonalize (lane_vops w) y).
  Proof.
    intros [[[a b] c] d] [[[la lb] lc] ld] (Ha & Hb & Hc & Hd). unfold b_sim, b_diagonalize. split4; ops.
  Qed.
  Lemma b_undiagonalize_sim : forall x y, b_sim x y -> b_sim (b_undiagonalize o x) (b_undiagonalize (lane_vops w) y).
  Proof.
    intros [[[a b] c] d] [[[la lb] lc] ld] (Ha & Hb & Hc & Hd). unfold b_sim, b_undiagonalize. split4; ops.
  Qed.

  Lemma b_step_sim : forall x y ms,
    (let '(c0, c1, d0, d1) := ms in
     words_ok w 4 c0 /\ words_ok w 4 c1 /\ words_ok w 4 d0 /\ words_ok w 4 d1) ->
    b_sim x y -> b_sim (b_step o k1 k2 k3 k4 x ms) (b_step (lane_vops w) k1 k2 k3 k4 y ms).
  Proof.
    intros x y [[[c0 c1] d0] d1] (H0 & H1 & H2 & H3) H. unfold b_step.
    apply b_undiagonalize_sim, b_round_sim;
      [apply b_diagonalize_sim, b_round_sim; [exact H | |] | |];
      cbn [lane_vops v_vec]; apply (r_vec _ _ _ _ R); assumption.
  Qed.

  Lemma b_rounds_sim : forall mss x y,
    msgs_ok w mss -> b_sim x y ->
    b_sim (b_rounds o k1 k2 k3 k4 x mss) (b_rounds (lane_vops w) k1 k2 k3 k4 y mss).
  Proof.
    unfold b_rounds, msgs_ok.
    induction mss as [|ms mss IH]; intros x y Hm H; cbn [fold_left]; [exact H|].
    inversion Hm; subst. apply IH; [assumption | apply b_step_sim; assumption].
  Qed.

  Lemma b_sim_rep : forall x y, b_sim x y -> b_rep o x = b_rep (lane_vops w) y.
  Proof.
    intros [[[a b] c] d] [[[la lb] lc] ld] ((_ & Ha) & (_ & Hb) & (_ & Hc) & (_ & Hd)).
    unfold b_rep. cbn [lane_vops v_rep]. now rewrite Ha, Hb, Hc, Hd.
  Qed.

  Lemma b_vec_sim : forall xs,
    (let '(a, b, c, d) := xs in words_ok w 4 a /\ words_ok w 4 b /\ words_ok w 4 c /\ words_ok w 4 d) ->
    b_sim (b_vec o xs) (b_vec (lane_vops w) xs).
  Proof.
    intros [[[a b] c] d] (Ha & Hb & Hc & Hd). unfold b_sim, b_vec. cbn [lane_vops v_vec].
    split4; apply (r_vec _ _ _ _ R); assumption.
  Qed.

  Lemma blake_rounds_indep : forall xs mss,
    (let '(a, b, c, d) := xs in words_ok w 4 a /\ words_ok w 4 b /\ words_ok w 4 c /\ words_ok w 4 d) ->
    msgs_ok w mss ->
    b_rep o (b_rounds o k1 k2 k3 k4 (b_vec o xs) mss) =
    b_rep (lane_vops w) (b_rounds (lane_vops w) k1 k2 k3 k4 (b_vec (lane_vops w) xs) mss).
  Proof.
    intros xs mss Hx Hm. apply b_sim_rep, b_rounds_sim; [exact Hm | apply b_vec_sim, Hx].
  Qed.
End BlakeIndep.

(** * JH *)
Section JHIndep.
  Variable o : jops.
  Hypothesis R : jops_refines o.

  Definition j_sim (x : jx8 o) (y : jx8 lane_jops) : Prop :=
    jrel1 o (q0 x) (q0 y) /\ jrel1 o (q1 x) (q1 y) /\ jrel1 o (q2 x) (q2 y) /\ jrel1 o (q3 x) (q3 y) /\
    jrel1 o (q4 x) (q4 y) /\ jrel1 o (q5 x) (q5 y) /\ jrel1 o (q6 x) (q6 y) /\ jrel1 o (q7 x) (q7 y).

  Ltac jops :=
    repeat first
      [ eassumption
      | apply (jr_zip _ R)
      | apply (jr_xor1 _ R)
      | apply (jr_xor2 _ R)
      | apply (jr_and2 _ R)
      | apply (jr_or2 _ R)
      | apply (jr_andnot2 _ R)
      | apply (jr_not2 _ R) ].

  Lemma j_ss_sim : forall x y k lk, j_sim x y -> jrel2 o k lk -> j_sim (j_ss o x k) (j_ss lane_jops y lk).
  Proof.
    intros x y k lk (H0 & H1 & H2 & H3 & H4 & H5 & H6 & H7) Hk.
    unfold j_sim, j_ss. cbn [q0 q1 q2 q3 q4 q5 q6 q7].
    split8;
      match goal with
      | |- jrel1 o (j_ext o ?a ?i) _ =>
          refine (jr_ext _ R a _ i _); jops
      end.
  Qed.

  Lemma j_l_sim : forall x y, j_sim x y -> j_sim (j_l o x) (j_l lane_jops y).
  Proof.
    intros [a0 a1 a2 a3 a4 a5 a6 a7] [b0 b1 b2 b3 b4 b5 b6 b7].
    unfold j_sim, j_l. cbn [q0 q1 q2 q3 q4 q5 q6 q7].
    intros (H0 & H1 & H2 & H3 & H4 & H5 & H6 & H7). split8; jops.
  Qed.

  Lemma j_round_sim : forall j rc x y,
    (j < 7)%nat -> w128 (fst rc) -> w128 (snd rc) ->
    j_sim x y -> j_sim (j_round o j rc x) (j_round lane_jops j rc y).
  Proof.
    intros j rc x y Hj Hc0 Hc1 H. unfold j_round.
    assert (S : j_sim (j_l o (j_ss o x (j_const o rc))) (j_l lane_jops (j_ss lane_jops y (j_const lane_jops rc)))).
    { apply j_l_sim, j_ss_sim; [exact H|]. cbn [lane_jops j_const]. destruct rc; apply (jr_const _ R); assumption. }
    destruct S as (S0 & S1 & S2 & S3 & S4 & S5 & S6 & S7).
    unfold j_sim. cbn [q0 q1 q2 q3 q4 q5 q6 q7].
    split8; try assumption; apply (jr_swap _ R); assumption.
  Qed.

  Lemma j_rounds_sim : forall sched x y,
    sched_ok sched -> j_sim x y -> j_sim (j_rounds o x sched) (j_rounds lane_jops y sched).
  Proof.
    unfold j_rounds, sched_ok.
    induction sched as [|[j rc] sched IH]; intros x y Hs H; cbn [fold_left]; [exact H|].
    inversion Hs as [|? ? (Hj & Hc0 & Hc1) Hs']; subst. apply IH; [assumption|].
    cbn [fst snd] in *. apply j_round_sim; assumption.
  Qed.

  Lemma j_sim_rep : forall x y, j_sim x y -> j_rep8 o x = j_rep8 lane_jops y.
  Proof.
    intros x y ((_ & H0) & (_ & H1) & (_ & H2) & (_ & H3) & (_ & H4) & (_ & H5) & (_ & H6) & (_ & H7)).
    unfold j_rep8. cbn [lane_jops j_rep1]. now rewrite H0, H1, H2, H3, H4, H5, H6, H7.
  Qed.

  Lemma j_load8_sim : forall l,
    length l = 8%nat -> Forall w128 l -> j_sim (j_load8 o l) (j_load8 lane_jops l).
  Proof.
    intros l Hl Hw. explode l. unfold j_sim, j_load8. cbn [q0 q1 q2 q3 q4 q5 q6 q7 nth lane_jops j_load].
    repeat match goal with H : Forall _ (_ :: _) |- _ => inversion H; clear H; subst end.
    split8; apply (jr_load _ R); assumption.
  Qed.

  Lemma jh_rounds_on_indep : forall l sched,
    length l = 8%nat -> Forall w128 l -> sched_ok sched ->
    jh_rounds_on o l sched = jh_rounds_on lane_jops l sched.
  Proof.
    intros. unfold jh_rounds_on. apply j_sim_rep, j_rounds_sim; [assumption | apply j_load8_sim; assumption].
  Qed.
End JHIndep.

(** * On a Machine *)
Lemma incl_chacha_ks32 : incl chacha_ks ks32.
Proof. intros k H; cbn in *; tauto. Qed.
Lemma incl_blake32_ks32 : incl [16; 12; 8; 7] ks32.
Proof. intros k H; cbn in *; tauto. Qed.
Lemma incl_blake64_ks64 : incl [32; 25; 16; 11] ks64.
Proof. intros k H; cbn in *; tauto. Qed.

Lemma chacha_round_machine_indep : forall m, machine_refines m ->
  forall k a b c d,
    (words_ok 32 4 a -> words_ok 32 4 b -> words_ok 32 4 c -> words_ok 32 4 d ->
     chacha_rounds_on (m_u32x4 m) k a b c d = chacha_rounds_on (m_u32x4 lane_m) k a b c d) /\
    (words_ok 32 16 a -> words_ok 32 16 b -> words_ok 32 16 c -> words_ok 32 16 d ->
     chacha_rounds_on (m_u32x4x4 m) k a b c d = chacha_rounds_on (m_u32x4x4 lane_m) k a b c d).
Proof.
  intros m (R4 & R16 & _ & _) k a b c d. split; intros.
  - apply (chacha_rounds_on_indep _ 32 4%nat ks32 R4 incl_chacha_ks32); assumption.
  - apply (chacha_rounds_on_indep _ 32 16%nat ks32 R16 incl_chacha_ks32); assumption.
Qed.

Lemma blake_round_machine_indep : forall m, machine_refines m ->
  forall xs mss,
    ((let '(a, b, c, d) := xs in words_ok 32 4 a /\ words_ok 32 4 b /\ words_ok 32 4 c /\ words_ok 32 4 d) ->
     msgs_ok 32 mss ->
     blake32_rounds_on (m_u32x4 m) xs mss = blake32_rounds_on (m_u32x4 lane_m) xs mss) /\
    ((let '(a, b, c, d) := xs in words_ok 64 4 a /\ words_ok 64 4 b /\ words_ok 64 4 c /\ words_ok 64 4 d) ->
     msgs_ok 64 mss ->
     blake64_rounds_on (m_u64x4 m) xs mss = blake64_rounds_on (m_u64x4 lane_m) xs mss).
Proof.
  intros m (R4 & _ & R64 & _) xs mss. split; intros Hx Hm.
  - apply (blake_rounds_indep _ 32 ks32 16 12 8 7 R4 incl_blake32_ks32); assumption.
  - apply (blake_rounds_indep _ 64 ks64 32 25 16 11 R64 incl_blake64_ks64); assumption.
Qed.

Lemma jh_layer_machine_indep : forall m, machine_refines m ->
  forall l sched,
    length l = 8%nat -> Forall w128 l -> sched_ok sched ->
    jh_rounds_on (m_u128 m) l sched = jh_rounds_on (m_u128 lane_m) l sched.
Proof.
  intros m (_ & _ & _ & RJ) l sched. apply (jh_rounds_on_indep _ RJ).
Qed.

(** * The obligations of a concrete back end, in the equational form of C12/C13
      ([wf] preserved, view of the result = lane meaning of the views). Instantiating a back
      end = supplying these. *)
Lemma vops_refines_intro : forall (w : N) (n : nat) (ks : list N) (o : vops),
  (forall l, words_ok w n l -> v_wf o (v_vec o l) /\ v_rep o (v_vec o l) = l) ->
  (forall a b, v_wf o a -> v_wf o b ->
     v_wf o (o_add o a b) /\ v_rep o (o_add o a b) = v_add w (v_rep o a) (v_rep o b)) ->
  (forall a b, v_wf o a -> v_wf o b ->
     v_wf o (o_xor o a b) /\ v_rep o (o_xor o a b) = v_xor (v_rep o a) (v_rep o b)) ->
  (forall k a, In k ks -> v_wf o a ->
     v_wf o (o_rotr o k a) /\ v_rep o (o_rotr o k a) = v_rotr w k (v_rep o a)) ->
  (forall a, v_wf o a ->
     v_wf o (o_sh1230 o a) /\ v_rep o (o_sh1230 o a) = per_lane4 shuffle1230 (v_rep o a)) ->
  (forall a, v_wf o a ->
     v_wf o (o_sh2301 o a) /\ v_rep o (o_sh2301 o a) = per_lane4 shuffle2301 (v_rep o a)) ->
  (forall a, v_wf o a ->
     v_wf o (o_sh3012 o a) /\ v_rep o (o_sh3012 o a) = per_lane4 shuffle3012 (v_rep o a)) ->
  vops_refines w n ks o.
Proof.
  intros w n ks o Hvec Hadd Hxor Hrot H1 H2 H3. constructor; unfold rel.
  - exact Hvec.
  - intros a b la lb [Wa <-] [Wb <-]. apply Hadd; assumption.
  - intros a b la lb [Wa <-] [Wb <-]. apply Hxor; assumption.
  - intros k a la Hk [Wa <-]. apply Hrot; assumption.
  - intros a la [Wa <-]. apply H1; assumption.
  - intros a la [Wa <-]. apply H2; assumption.
  - intros a la [Wa <-]. apply H3; assumption.
Qed.
