(** Audit examples (tag Misc): concrete, non-trivial instances of the pinned theorems of
    C14, C15, C16, C18, C20 showing that every hypothesis is satisfiable, plus compositions
    that the Props files do not state.  No axioms. *)
From Coq Require Import NArith List Lia Arith Bool.
From CC Require Import Lib.Words Lib.Bytes Lib.ListX Spec.Lanes Model.ChaChaGuts.
From CC Require Import Proofs.ChaChaRounds Proofs.ChaChaGutsWords Proofs.ChaChaGuts
                       Proofs.ChaChaGutsWide Proofs.ChaChaGutsParams Proofs.ChaChaGutsHistory.
From CC Require Props.C14 Props.C15 Props.C16 Props.C18 Props.C20 Props.C03.
From CC Require Spec.ChaCha.
Import ListNotations.
Local Open Scope N_scope.

(** * C14 *)
Module ExC14.
  (** non-zero key 01 02 .. 20, non-zero stream id *)
  Definition key : list N := map N.of_nat (seq 1 32).
  Definition nonce8 : list N := [0xde; 0xad; 0xbe; 0xef; 0x01; 0x02; 0x03; 0x04].
  (** low counter word = 2^32 - 2, high word = 5: the carry lands in lane 2 *)
  Definition ctr_lo : N := 6 * 2^32 - 2.
  (** counter = 2^64 - 2: lanes 2, 3 wrap to 0, 1 *)
  Definition ctr_hi : N := 2^64 - 2.
  Definition s_lo := seek64 (init_chacha key nonce8) ctr_lo.
  Definition s_hi := seek64 (init_chacha key nonce8) ctr_hi.

  Lemma key_bytes : Forall is_byte key.
  Proof. unfold key. cbn. repeat (constructor; [reflexivity|]). constructor. Qed.
  Lemma nonce_bytes : Forall is_byte nonce8.
  Proof. repeat (constructor; [reflexivity|]). constructor. Qed.

  Lemma base_wf : wf (init_chacha key nonce8).
  Proof. apply init_chacha_wf; [apply key_bytes | reflexivity | apply nonce_bytes | left; reflexivity]. Qed.
  Lemma s_lo_wf : wf s_lo. Proof. apply seek64_wf, base_wf. Qed.
  Lemma s_hi_wf : wf s_hi. Proof. apply seek64_wf, base_wf. Qed.

  (** the states, explicitly (key words non-zero, stream-id words non-zero) *)
  Example states :
    s_lo = CC [0x04030201; 0x08070605; 0x0c0b0a09; 0x100f0e0d] [0x14131211; 0x18171615; 0x1c1b1a19; 0x201f1e1d]
              [0xfffffffe; 5; 0xefbeadde; 0x04030201]
    /\ cd s_hi = [0xfffffffe; 0xffffffff; 0xefbeadde; 0x04030201].
  Proof. repeat apply conj; vm_compute; reflexivity. Qed.

  (** the pinned theorem applies (hypothesis [wf] met) for drounds = 10 and 0, both states *)
  Definition four (s : chacha) (dr : nat) :=
    let '(o0, s1) := refill s dr in let '(o1, s2) := refill s1 dr in
    let '(o2, s3) := refill s2 dr in let '(o3, s4) := refill s3 dr in (o0 ++ o1 ++ o2 ++ o3, s4).

  Example thm_lo_10 : refill_wide s_lo 10 = four s_lo 10.
  Proof. exact (Props.C14.C14_refill4_eq_4_refills s_lo 10 s_lo_wf). Qed.
  Example thm_hi_0 : refill_wide s_hi 0 = four s_hi 0.
  Proof. exact (Props.C14.C14_refill4_eq_4_refills s_hi 0 s_hi_wf). Qed.

  (** the same four equalities by evaluating both sides (independent of the proof), and the final
      states: counter + 4 with the carry into word 1, wrap at 2^64, words 2,3 (stream id) and key
      untouched *)
  Example computed :
    refill_wide s_lo 10 = four s_lo 10 /\ refill_wide s_lo 0 = four s_lo 0 /\
    refill_wide s_hi 10 = four s_hi 10 /\ refill_wide s_hi 0 = four s_hi 0 /\
    snd (refill_wide s_lo 10) = CC (cb s_lo) (cc s_lo) [2; 6; 0xefbeadde; 0x04030201] /\
    snd (refill_wide s_hi 10) = CC (cb s_hi) (cc s_hi) [2; 0; 0xefbeadde; 0x04030201] /\
    snd (refill_wide s_hi 0) = CC (cb s_hi) (cc s_hi) [2; 0; 0xefbeadde; 0x04030201] /\
    length (fst (refill_wide s_lo 10)) = 256%nat.
  Proof. repeat apply conj; vm_compute; reflexivity. Qed.

  (** the bytes are the specified blocks (Spec/ChaCha.v, which does not mention the model) for the
      counters c, c+1, c+2, c+3 mod 2^64 *)
  Example blocks_are_spec_lo :
    fst (refill_wide s_lo 10) =
      Spec.ChaCha.spec_block Spec.ChaCha.Djb 10 key nonce8 ctr_lo ++
      Spec.ChaCha.spec_block Spec.ChaCha.Djb 10 key nonce8 (ctr_lo + 1) ++
      Spec.ChaCha.spec_block Spec.ChaCha.Djb 10 key nonce8 (ctr_lo + 2) ++
      Spec.ChaCha.spec_block Spec.ChaCha.Djb 10 key nonce8 (ctr_lo + 3).
  Proof. vm_compute. reflexivity. Qed.

  Example blocks_are_spec_hi :
    fst (refill_wide s_hi 10) =
      Spec.ChaCha.spec_block Spec.ChaCha.Djb 10 key nonce8 (2^64 - 2) ++
      Spec.ChaCha.spec_block Spec.ChaCha.Djb 10 key nonce8 (2^64 - 1) ++
      Spec.ChaCha.spec_block Spec.ChaCha.Djb 10 key nonce8 0 ++
      Spec.ChaCha.spec_block Spec.ChaCha.Djb 10 key nonce8 1
    /\ fst (refill_wide s_hi 0) =
      Spec.ChaCha.spec_block Spec.ChaCha.Djb 0 key nonce8 (2^64 - 2) ++
      Spec.ChaCha.spec_block Spec.ChaCha.Djb 0 key nonce8 (2^64 - 1) ++
      Spec.ChaCha.spec_block Spec.ChaCha.Djb 0 key nonce8 0 ++
      Spec.ChaCha.spec_block Spec.ChaCha.Djb 0 key nonce8 1.
  Proof. repeat apply conj; vm_compute; reflexivity. Qed.

  (** the four blocks differ pairwise, also with zero double rounds (the statement is not about a
      degenerate output) *)
  Example blocks_distinct :
    let o := fst (refill_wide s_hi 0) in
    nlist_eqb (firstn 64 o) (firstn 64 (skipn 64 o)) = false /\
    nlist_eqb (firstn 64 (skipn 64 o)) (firstn 64 (skipn 128 o)) = false /\
    nlist_eqb (firstn 64 (skipn 128 o)) (firstn 64 (skipn 192 o)) = false.
  Proof. repeat apply conj; vm_compute; reflexivity. Qed.

  (** [d0123]: the carry out of the low word lands in lane 1, 2 or 3 according to the low word *)
  Example d0123_carry_each_lane :
    d0123 [0xffffffff; 7; 9; 10] = [0xffffffff; 7; 9; 10;  0; 8; 9; 10;  1; 8; 9; 10;  2; 8; 9; 10] /\
    d0123 [0xfffffffe; 7; 9; 10] = [0xfffffffe; 7; 9; 10;  0xffffffff; 7; 9; 10;  0; 8; 9; 10;  1; 8; 9; 10] /\
    d0123 [0xfffffffd; 7; 9; 10] = [0xfffffffd; 7; 9; 10;  0xfffffffe; 7; 9; 10;  0xffffffff; 7; 9; 10;  0; 8; 9; 10] /\
    d0123 [0xfffffffd; 0xffffffff; 9; 10]
      = [0xfffffffd; 0xffffffff; 9; 10;  0xfffffffe; 0xffffffff; 9; 10;  0xffffffff; 0xffffffff; 9; 10;  0; 0; 9; 10] /\
    add_pos [0xfffffffd; 0xffffffff; 9; 10] 4 = [1; 0; 9; 10].
  Proof. repeat apply conj; vm_compute; reflexivity. Qed.
End ExC14.

(** * C14 on every real back end (composition of C14 with C03_real_blocks_are_model; no pinned
      theorem of Props/C14.v states this): on each of the six back-end names, in each build
      profile, the wide refill returns the bytes of four narrow refills (each possibly on two other
      back ends, as dispatch! / dispatch_light128! may choose) and the same final store *)
Module ExC14Backends.
  Import CC.Model.Dispatch CC.Model.MachineFull CC.Proofs.MachineFullChaCha CC.Proofs.MachineFullReal.

  Lemma ok_wf c : chacha_ok c -> wf c.
  Proof. intros H. exact H. Qed.

  Theorem refill_wide_eq_four_narrow_every_backend :
    forall p b b1 b2 k s, cstore_ok s ->
      xm_refill_wide (real_xinst p b) k s =
      (let '(o0, s1) := x_refill_narrow (real_xinst p b1) (real_xinst p b2) k s in
       let '(o1, s2) := x_refill_narrow (real_xinst p b1) (real_xinst p b2) k s1 in
       let '(o2, s3) := x_refill_narrow (real_xinst p b1) (real_xinst p b2) k s2 in
       let '(o3, s4) := x_refill_narrow (real_xinst p b1) (real_xinst p b2) k s3 in
       (o0 ++ o1 ++ o2 ++ o3, s4)).
  Proof.
    intros p b b1 b2 k s Hs.
    destruct (Props.C03.C03_real_blocks_are_model p) as (Hn & Hw & _).
    pose proof (cc_of_ok s Hs) as Hc. pose proof (ok_wf _ Hc) as W0.
    assert (step : forall c, wf c -> chacha_ok c ->
              x_refill_narrow (real_xinst p b1) (real_xinst p b2) k (store_of c)
              = (fst (refill c k), store_of (inc_block_ct c))).
    { intros c Wc Oc. rewrite Hn by now apply store_of_ok. rewrite cc_of_store_of by exact Oc. reflexivity. }
    rewrite Hw by exact Hs.
    rewrite (Props.C14.C14_refill4_eq_inc_chain (cc_of s) k W0). cbn [fst snd].
    pose proof (eq_sym (store_of_cc_of s Hs)) as E.
    set (c := cc_of s) in *. clearbody c. subst s.
    pose proof (inc_block_ct_wf _ W0) as W1. pose proof (inc_block_ct_wf _ W1) as W2.
    pose proof (inc_block_ct_wf _ W2) as W3.
    rewrite (step _ W0 W0), (step _ W1 W1), (step _ W2 W2), (step _ W3 W3). reflexivity.
  Qed.

  (** a concrete store (key 00..1f, counter 2^64 - 1) meets [cstore_ok] *)
  Example sample_ok : cstore_ok sample_store.
  Proof. repeat apply conj; try reflexivity; cbn; repeat (constructor; [reflexivity|]); constructor. Qed.
End ExC14Backends.

(** * C15 *)
Module ExC15.
  Import ExC14.
  Definition v : N := 0xfedcba9876543210.          (* full 64-bit value, both halves non-zero *)
  Definition s1 : chacha := CC (cb s_lo) (cc s_lo) [0xfffffffe; 5; 0x76543210; 0xfedcba98].
  Definition s0 : chacha := CC (cb s_lo) (cc s_lo) [0x76543210; 0xfedcba98; 0xefbeadde; 0x04030201].

  (** set, evaluated *)
  Example set_computed :
    set_stream_param s_lo 1 v = Some s1 /\ set_stream_param s_lo 0 v = Some s0 /\
    set_stream_param s_lo 2 v = None /\ get_stream_param s_lo 2 = None.
  Proof. repeat apply conj; vm_compute; reflexivity. Qed.

  (** the pinned theorems applied to this state: all hypotheses hold *)
  Example get_set_1 : get_stream_param s1 1 = Some v.
  Proof.
    apply (Props.C15.C15_get_set_param s_lo 1 v s1 s_lo_wf); [reflexivity | reflexivity | apply set_computed].
  Qed.
  Example get_set_0 : get_stream_param s0 0 = Some v.
  Proof.
    apply (Props.C15.C15_get_set_param s_lo 0 v s0 s_lo_wf); [reflexivity | reflexivity | apply set_computed].
  Qed.
  Example isolated_1 :
    get_stream_param s1 0 = Some ctr_lo /\ cb s1 = cb s_lo /\ cc s1 = cc s_lo.
  Proof.
    destruct (Props.C15.C15_set_param_isolated s_lo 1 v s1 s_lo_wf eq_refl (proj1 set_computed)) as (G & B & C).
    change (1 - 1) with 0 in G. repeat apply conj; [rewrite G; vm_compute; reflexivity | exact B | exact C].
  Qed.
  Example isolated_0 :
    get_stream_param s0 1 = Some (le_join nonce8) /\ cb s0 = cb s_lo /\ cc s0 = cc s_lo.
  Proof.
    destruct (Props.C15.C15_set_param_isolated s_lo 0 v s0 s_lo_wf eq_refl (proj1 (proj2 set_computed))) as (G & B & C).
    change (1 - 0) with 1 in G. repeat apply conj; [rewrite G; vm_compute; reflexivity | exact B | exact C].
  Qed.

  (** set id then counter, from a state that held another id and counter: the next block is the
      specified block of (key, id v, counter 2^64 - 1); by the theorem and by evaluation *)
  Example refill_after_sets :
    exists sa sb,
      set_stream_param (init_chacha key nonce8) 1 v = Some sa /\ set_stream_param sa 0 (2^64 - 1) = Some sb /\
      fst (refill sb 10) = Spec.ChaCha.spec_block Spec.ChaCha.Djb 10 key (le_split 8 v) (2^64 - 1) /\
      sb = seek64 (init_chacha key (le_split 8 v)) (2^64 - 1) /\
      pos64 (snd (refill sb 10)) = 0 /\ get_stream_param (snd (refill sb 10)) 1 = Some v.
  Proof.
    eexists. eexists. split; [reflexivity|]. split; [reflexivity|].
    split; [|repeat apply conj; vm_compute; reflexivity].
    eapply (Props.C15.C15_set_params_refill_eq_spec key nonce8 (2^64 - 1) v); try reflexivity.
    left. split; reflexivity.
  Qed.

  (** stream equality on these well-formed states: the iff theorems, both directions used *)
  Example eq_predicates :
    stream64_eq s_lo s_hi = true /\ stream32_eq s_lo s_hi = false /\
    stream64_eq s_lo s1 = false /\ stream32_eq s_lo s0 = false /\
    stream32_eq s_lo (seek32 s_lo 77) = true.
  Proof. repeat apply conj; vm_compute; reflexivity. Qed.

  Example eq64_iff_used : s_hi = seek64 s_lo (pos64 s_hi) /\ s1 <> seek64 s_lo (pos64 s1).
  Proof.
    split.
    - apply (Props.C15.C15_stream64_eq_iff_seek s_lo s_hi s_lo_wf s_hi_wf). apply eq_predicates.
    - intros E. assert (W1 : wf s1) by (repeat apply conj; try reflexivity; repeat (constructor; [reflexivity|]); constructor).
      apply (Props.C15.C15_stream64_eq_iff_seek s_lo s1 s_lo_wf W1) in E.
      assert (F : stream64_eq s_lo s1 = false) by apply eq_predicates. congruence.
  Qed.

  (** the theorems that need [wf] / [length (cd s) = 4] also apply to XChaCha and 12-byte-nonce
      states: those constructors produce well-formed states *)
  Definition nonce24 : list N := map N.of_nat (seq 100 24).
  Definition nonce12 : list N := map N.of_nat (seq 200 12).
  Example x_and_ietf_states_wf :
    wf (init_chacha_x key nonce24 10) /\ wf (init_chacha key nonce12) /\
    get_stream_param (init_chacha key nonce12) 0 = Some (2^32 * le_join (firstn 4 nonce12)) /\
    (exists s', set_stream_param (init_chacha_x key nonce24 10) 1 v = Some s' /\ get_stream_param s' 1 = Some v
                /\ cb s' = cb (init_chacha_x key nonce24 10)).
  Proof.
    assert (Wx : wf (init_chacha_x key nonce24 10)).
    { assert (E : init_chacha_x key nonce24 10 =
                  CC [2536303901; 1066037511; 2291448921; 1783810280] [3164959504; 707711552; 38007660; 2170971634]
                     [0; 0; 2004252020; 2071624056]) by (vm_compute; reflexivity).
      rewrite E. repeat apply conj; try reflexivity; repeat (constructor; [reflexivity|]); constructor. }
    split; [|split; [|split]].
    - exact Wx.
    - apply init_chacha_wf; [apply key_bytes | reflexivity | | right; reflexivity].
      unfold nonce12. cbn. repeat (constructor; [reflexivity|]). constructor.
    - vm_compute. reflexivity.
    - destruct (Props.C15.C15_set_param_ok _ 1 v Wx eq_refl) as (s' & E & W').
      exists s'. repeat apply conj; [exact E | |].
      + exact (Props.C15.C15_get_set_param _ 1 v s' Wx eq_refl eq_refl E).
      + apply (Props.C15.C15_set_param_isolated _ 1 v s' Wx eq_refl E).
  Qed.

  (** a history with refills, a refill4 across the low-word carry, sets of both parameters: the
      hypotheses of the history theorem hold and it never fails *)
  Definition ops : list gop :=
    [GSet 0 (2^32 - 3); GRefill; GRefill4; GGet 0; GSet 1 v; GRefill; GGet 1; GSet 0 (2^64 - 1); GRefill4; GGet 0].
  Example history :
    Forall gop_ok ops /\
    (exists obs sf, g_run 10 (init_chacha key nonce8) ops = Some (obs, sf) /\
       nth 3 obs GUnit = GVal (2^32 + 2) /\ nth 6 obs GUnit = GVal v /\ nth 9 obs GUnit = GVal 3 /\
       sf = seek64 (init_chacha key (le_split 8 v)) 3).
  Proof.
    assert (Hok : Forall gop_ok ops).
    { unfold ops. repeat (constructor; [cbn; try exact I; try (split; reflexivity); try reflexivity|]). constructor. }
    split; [exact Hok|].
    destruct (Props.C15.C15_history_eq_abstract_machine 10 key nonce8 ops key_bytes eq_refl nonce_bytes eq_refl Hok)
      as (E & _).
    eexists. eexists. split; [exact E|].
    repeat apply conj; vm_compute; reflexivity.
  Qed.
End ExC15.

(** * C16 *)
Module ExC16.
  Import CC.Model.BlockBuffer CC.Model.SliceApi CC.Proofs.SliceApi CC.Proofs.SliceApiBuf CC.Proofs.SliceApiXor.
  Local Open Scope nat_scope.

  (** the Section variables [refill] / [refill4] of the key-stream theorems instantiated with the
      REAL block producers of Model/ChaChaGuts.v (the Props file leaves them universally
      quantified and never instantiates them): the two length hypotheses hold *)
  Definition base := ExC14.s_lo.
  Definition real_refill (c : N) : list N := fst (ChaChaGuts.refill (seek64 base c) 10).
  Definition real_refill4 (c : N) : list N := fst (ChaChaGuts.refill_wide (seek64 base c) 10).

  Lemma real_refill_len : forall c, length (real_refill c) = 64.
  Proof. intros c. apply refill_length, wf_len4, seek64_wf, ExC14.s_lo_wf. Qed.
  Lemma real_refill4_len : forall c, length (real_refill4 c) = 256.
  Proof.
    intros c. unfold real_refill4.
    pose proof (seek64_wf base c ExC14.s_lo_wf) as W0.
    rewrite (Props.C14.C14_refill4_eq_inc_chain _ 10 W0). cbn [fst].
    pose proof (inc_block_ct_wf _ W0) as W1. pose proof (inc_block_ct_wf _ W1) as W2.
    pose proof (inc_block_ct_wf _ W2) as W3.
    rewrite !app_length, !refill_length by (apply wf_len4; assumption). reflexivity.
  Qed.

  (** a memory of 17 + 700 + 5 bytes; the slice starts at the odd address 17; five key-stream
      bytes are buffered, so the call runs the prefix, two wide chunks and a 183-byte tail *)
  Definition data : list N := map (fun i => N.of_nat (i * 7 mod 256)) (seq 0 700).
  Definition m1 : mem := repeat 0xAA%N 17 ++ data ++ repeat 0xBB%N 5.
  Definition sl1 : slice := Sl 17 700.
  (** the same bytes as the whole of memory: the slice starts at the first and ends at the last
      mapped byte *)
  Definition m2 : mem := data.
  Definition sl2 : slice := Sl 0 700.
  Definition st : kstate := KS (real_refill 41) 5 42.

  Example hyps : slice_ok m1 sl1 /\ slice_ok m2 sl2 /\ kstate_ok st /\ sbytes m1 sl1 = sbytes m2 sl2.
  Proof.
    repeat apply conj.
    - vm_compute. repeat constructor.
    - vm_compute. repeat constructor.
    - apply real_refill_len.
    - vm_compute. repeat constructor.
    - vm_compute. reflexivity.
  Qed.

  Example apply_real :
    exists m1' m2' st',
      m_apply real_refill real_refill4 m1 sl1 st = Some (m1', st') /\
      m_apply real_refill real_refill4 m2 sl2 st = Some (m2', st') /\
      sbytes m1' sl1 = sbytes m2' sl2 /\
      sbytes m1' sl1 = xor_bytes data (key_stream real_refill real_refill4 st 700) /\
      firstn 17 m1' = repeat 0xAA%N 17 /\ skipn 717 m1' = repeat 0xBB%N 5 /\ length m2' = 700 /\
      ks_ctr st' = 53%N /\ ks_have st' = 9.
  Proof.
    destruct hyps as (H1 & H2 & Hk & Hb).
    destruct (Props.C16.C16_apply_keystream_address_independent real_refill real_refill4
                real_refill_len real_refill4_len m1 sl1 m2 sl2 st H1 H2 Hk Hb) as (m1' & m2' & st' & E1 & E2 & E3).
    exists m1', m2', st'. split; [exact E1|]. split; [exact E2|]. split; [exact E3|].
    destruct (Props.C16.C16_apply_keystream_value real_refill real_refill4 real_refill_len real_refill4_len
                m1 sl1 st H1 Hk) as (ma & sa & Ea & Va).
    rewrite E1 in Ea. injection Ea as <- <-.
    destruct (Props.C16.C16_apply_keystream_writes_exactly real_refill real_refill4 real_refill_len real_refill4_len
                m1 sl1 st m1' st' H1 Hk E1) as (L1 & F1 & S1).
    destruct (Props.C16.C16_apply_keystream_writes_exactly real_refill real_refill4 real_refill_len real_refill4_len
                m2 sl2 st m2' st' H2 Hk E2) as (L2 & _ & _).
    split; [rewrite Va; f_equal; vm_compute; reflexivity|].
    split; [change (firstn 17 m1') with (firstn (s_off sl1) m1'); rewrite F1; vm_compute; reflexivity|].
    split; [change (skipn 717 m1') with (skipn (s_off sl1 + s_len sl1) m1'); rewrite S1; vm_compute; reflexivity|].
    split; [rewrite L2; vm_compute; reflexivity|].
    assert (Ec : option_map (fun r => (ks_ctr (snd r), ks_have (snd r)))
                   (m_apply real_refill real_refill4 m2 sl2 st) = Some (53%N, 9)) by (vm_compute; reflexivity).
    rewrite E2 in Ec. cbn in Ec. injection Ec as -> ->. split; reflexivity.
  Qed.

  (** the accessors do fail outside the slice although the bytes are mapped, and outside memory:
      "never None" is not a property of the accessors but of the index arithmetic of the shapes *)
  Example accessors_can_fail :
    sread m1 sl1 0 701 = None /\ sread m1 sl1 699 2 = None /\ mread m1 0 701 <> None /\
    swrite m1 sl1 696 [1; 2; 3; 4; 5]%N = None /\ mread m2 699 2 = None /\
    xor_at m1 sl1 690 (repeat 0%N 64) 11 = None /\ xor_at m1 sl1 690 (repeat 0%N 64) 10 <> None.
  Proof. repeat apply conj; vm_compute; try reflexivity; discriminate. Qed.

  (** hash update: a 64-byte block buffer holding 10 bytes absorbs 150 bytes from an odd address:
      two blocks are emitted, 32 bytes stay *)
  Definition b0 : bb := BB (map N.of_nat (seq 0 10) ++ repeat 0%N 54) 10.
  Definition m3 : mem := repeat 0xCC%N 3 ++ firstn 150 data ++ repeat 0xDD%N 1.
  Example hash_update :
    slice_ok m3 (Sl 3 150) /\ bb_ok b0 /\
    m_input_block b0 m3 (Sl 3 150) = Some (input_block b0 (firstn 150 data)) /\
    length (snd (input_block b0 (firstn 150 data))) = 2 /\ bb_pos (fst (input_block b0 (firstn 150 data))) = 32.
  Proof.
    assert (H1 : slice_ok m3 (Sl 3 150)) by (vm_compute; repeat constructor).
    assert (H2 : bb_ok b0) by (vm_compute; split; repeat constructor).
    split; [exact H1|]. split; [exact H2|].
    split; [rewrite (Props.C16.C16_hash_update_address_independent m3 (Sl 3 150) b0 H1 H2); f_equal; f_equal; vm_compute; reflexivity|].
    split; vm_compute; reflexivity.
  Qed.

  (** StoreBytes: a 16-byte read from a 15- or 17-byte slice panics and leaves memory as it was;
      [sb_read4] (for which Props/C16.v has no theorem) evaluated on a 64-byte slice *)
  Example storebytes :
    sb_read 16 m1 (Sl 17 16) = Ok (firstn 16 data) /\
    sb_read 16 m1 (Sl 17 15) = Panic m1 /\ sb_read 16 m1 (Sl 17 17) = Panic m1 /\
    sb_read4 16 m1 (Sl 17 64) = Ok (firstn 64 data) /\ sb_read4 16 m1 (Sl 17 63) = Panic m1 /\
    sb_write2 (repeat 1%N 16) (repeat 2%N 16) m1 (Sl 17 33) = Panic (firstn 17 m1 ++ repeat 1%N 16 ++ skipn 33 m1).
  Proof. repeat apply conj; vm_compute; reflexivity. Qed.
End ExC16.

(** * C18 *)
Module ExC18.
  Import CC.Model.Concurrency CC.Proofs.Concurrency.
  Local Open Scope nat_scope.

  (** an instantiation shaped like the Groestl entry points: six cells (tf512, of512, init512,
      tf1024, of1024, init1024), the value stored is the module chosen from the CPU oracle
      (2 = aes, 1 = ssse3, 0 = sse2; here a CPU with SSSE3 and without AES), every operation
      consults the cell of its entry point *)
  Definition cpu (f : nat) : bool := match f with 0 => false | _ => true end.   (* feature 0 = aes, 1 = ssse3 *)
  Definition choose (f : nat -> bool) (c : nat) : nat := if f 0 then 2 else if f 1 then 1 else 0.
  Definition cell_of (o : nat) : nat := o mod 6.
  (** the state absorbs the operation; the output also records which module ran *)
  Definition exec (v o s : nat) : nat * nat := ((3 * s + o + 1) mod 97, 200 * v + (3 * s + o + 1) mod 97).
  Definition th (i : nat) (p : list nat) := Th nat nat nat i p (Idle nat) [].
  (** instances 10, 20, 30 with different initial states; all three first call entry point 0 *)
  Definition tb0 (i : nat) : nat := i + 1.
  Definition g0 := G nat nat nat nat (fun _ => None) tb0 [th 10 [0; 6; 1]; th 20 [0; 1]; th 30 [6; 7]].
  Definition run := run nat nat nat nat cpu choose cell_of exec.
  Definition seq i p := seq_run nat nat nat nat cpu choose cell_of exec (tb0 i) p.

  (** thread 0 and thread 1 both read cell 0 empty; thread 0 computes and stores, runs its
      operation; thread 2 then reads the cell FULL; thread 1, still holding its stale "empty"
      observation, computes and stores again (second store); then everybody finishes *)
  Definition prefix := [0; 1; 0; 0; 0; 2; 1; 1].
  Definition sched := prefix ++ [1; 2; 1; 1; 1; 1; 0; 0; 0; 0; 0; 0; 2; 2; 2; 2; 2; 2; 0; 0].

  Lemma g0_initial : initial nat nat nat nat g0.
  Proof.
    split; [reflexivity|]. split.
    - intros t [<-|[<-|[<-|[]]]]; split; reflexivity.
    - cbn. repeat constructor; cbn; intuition discriminate.
  Qed.

  Example racy_prefix :
    map (t_pc nat nat nat) (threads _ _ _ _ (run [0; 1; 0; 0; 0; 2] g0)) = [Idle nat; SawNone nat 0; Ready nat 1]
    /\ map (t_pc nat nat nat) (threads _ _ _ _ (run prefix g0)) = [Idle nat; Ready nat 1; Ready nat 1]
    /\ cells _ _ _ _ (run prefix g0) 0 = Some 1 /\ cells _ _ _ _ (run prefix g0) 1 = None.
  Proof. repeat apply conj; reflexivity. Qed.

  (** the fairness hypothesis of C18_fair_schedule_sequential holds for [sched], hence (by the
      theorem, not by evaluation) every thread ends with the sequential outputs and state *)
  Lemma fair : forall i t0, nth_error (threads _ _ _ _ g0) i = Some t0 ->
      4 * length (t_prog _ _ _ t0) <= count_occ Nat.eq_dec sched i.
  Proof.
    intros [|[|[|i]]] t0 H; cbn in H; try (injection H as <-; vm_compute; repeat constructor).
    destruct i; discriminate.
  Qed.

  Example by_theorem : forall i t0, nth_error (threads _ _ _ _ g0) i = Some t0 ->
    exists t, nth_error (threads _ _ _ _ (run sched g0)) i = Some t /\ t_prog _ _ _ t = []
      /\ t_outs _ _ _ t = snd (seq (t_inst _ _ _ t0) (t_prog _ _ _ t0))
      /\ tbl _ _ _ _ (run sched g0) (t_inst _ _ _ t0) = fst (seq (t_inst _ _ _ t0) (t_prog _ _ _ t0)).
  Proof.
    exact (Props.C18.C18_fair_schedule_sequential nat nat nat nat cpu choose cell_of exec g0 sched g0_initial fair).
  Qed.

  (** and by evaluation: the outputs (module 1 = ssse3 everywhere), the final instance states, an
      instance nobody owns *)
  Example by_evaluation :
    map (t_outs nat nat nat) (threads _ _ _ _ (run sched g0)) = [[234; 212; 238]; [264; 200]; [203; 217]]
    /\ map (tbl _ _ _ _ (run sched g0)) [10; 20; 30; 40] = [38; 0; 17; 41]
    /\ map (fun c => cells _ _ _ _ (run sched g0) c) [0; 1; 2] = [Some 1; Some 1; None].
  Proof. repeat apply conj; vm_compute; reflexivity. Qed.

  (** an unfair schedule (thread 2 never runs, thread 1 is cut inside its second operation):
      C18_concurrent_equals_sequential gives the prefix property; here k = 0, 1 and 3 *)
  Example unfair :
    let g := run [0; 1; 0; 0; 0; 1; 1; 1; 0; 0; 0; 0; 0; 0; 0; 0; 1] g0 in
    map (fun t => (length (t_prog nat nat nat t), t_outs nat nat nat t)) (threads _ _ _ _ g)
      = [(0, snd (seq 10 [0; 6; 1])); (1, snd (seq 20 [0])); (2, [])].
  Proof. vm_compute. reflexivity. Qed.

  (** the hypothesis [NoDup (map t_inst ..)] of [initial] is needed: two threads on ONE instance
      do not get the one-at-a-time results (so the theorems say nothing about a hasher shared by
      two threads, which safe Rust forbids for &mut self operations) *)
  Definition g_shared := G nat nat nat nat (fun _ => None) tb0 [th 10 [0]; th 10 [1]].
  Example shared_instance_differs :
    ~ initial nat nat nat nat g_shared /\
    map (t_outs nat nat nat) (threads _ _ _ _ (run [0; 0; 0; 0; 1; 1; 1; 1] g_shared))
      <> [snd (seq 10 [0]); snd (seq 10 [1])].
  Proof.
    split.
    - intros (_ & _ & H). cbn in H. inversion H as [|? ? N _]. apply N. left. reflexivity.
    - vm_compute. discriminate.
  Qed.
End ExC18.

(** * C20: the open hypothesis of C20_dispatch_selection_irrelevant_partial
      ("the six instantiations of the generic body compute one function") is dischargeable TODAY
      from C03_real_blocks_are_model for ChaCha's block functions; Props/C20.v does not do it.
      Result: at every two points of c2-chacha's lattice, in every two environments, under each
      macro, on every two CPUs with SSE2 and any compile-time target features, in every build
      profile, [refill_wide] returns the value of the executable model (and never reaches
      unimplemented!()). *)
Module ExC20.
  Import CC.Model.Dispatch CC.Model.MachineFull CC.Proofs.MachineFullChaCha CC.Proofs.MachineFullReal.
  Import CC.Model.Features CC.Proofs.Features CC.Proofs.FeaturesCompose.

  Definition wide_ref (k : nat) (s : cstore) : list N * cstore :=
    (fst (ChaChaGuts.refill_wide (cc_of s) k), store_of (snd (ChaChaGuts.refill_wide (cc_of s) k))).

  Theorem chacha_refill_wide_feature_irrelevant :
    forall prof k m m' p p' e e' cpu cpu' tf tf' s,
      f_sse2 cpu = true -> f_sse2 cpu' = true -> cstore_ok s ->
      dispatch_run (fun b => xm_refill_wide (real_xinst prof b) k) m cpu tf (select ChaCha p e) s
      = dispatch_run (fun b => xm_refill_wide (real_xinst prof b) k) m' cpu' tf' (select ChaCha p' e') s
      /\ dispatch_run (fun b => xm_refill_wide (real_xinst prof b) k) m cpu tf (select ChaCha p e) s
         = Some (wide_ref k s).
  Proof.
    intros prof k m m' p p' e e' cpu cpu' tf tf' s H1 H2 Hs.
    apply (Props.C20.C20_dispatch_selection_irrelevant_partial _ _
             (fun b => xm_refill_wide (real_xinst prof b) k) (wide_ref k) cstore_ok); auto.
    intros b x Hx. destruct (Props.C03.C03_real_blocks_are_model prof) as (_ & Hw & _). now apply Hw.
  Qed.

  (** concrete points: default features on an AVX2 machine vs `--no-default-features --features
      no_simd` on an SSE2-only machine, for the store with counter 2^64 - 1 *)
  Import Coq.Strings.String.
  Open Scope string_scope.
  Example two_points :
    let e := mk_env false false true true false false in
    select ChaCha (default_point ChaCha) e = SelDispatch false true true /\
    select ChaCha ["no_simd"] e = SelDispatch true false false /\
    dispatch MDispatch false true (F true true true true true) (F true false false false false) = Run AVX2 /\
    dispatch MDispatch true false (F true false false false false) (F true false false false false) = Run Generic /\
    dispatch_run (fun b => xm_refill_wide (real_xinst PpvSoft.Release b) 10) MDispatch
                 (F true true true true true) (F true false false false false) (select ChaCha (default_point ChaCha) e) sample_store
    = dispatch_run (fun b => xm_refill_wide (real_xinst PpvSoft.Debug b) 10) MDispatch
                 (F true false false false false) (F true false false false false) (select ChaCha ["no_simd"] e) sample_store.
  Proof.
    intros e. do 4 (split; [reflexivity|]).
    destruct (chacha_refill_wide_feature_irrelevant PpvSoft.Release 10 MDispatch MDispatch (default_point ChaCha) ["no_simd"] e e
                (F true true true true true) (F true false false false false)
                (F true false false false false) (F true false false false false) sample_store eq_refl eq_refl
                ExC14Backends.sample_ok) as (_ & ->).
    destruct (chacha_refill_wide_feature_irrelevant PpvSoft.Debug 10 MDispatch MDispatch ["no_simd"] ["no_simd"] e e
                (F true false false false false) (F true false false false false)
                (F true false false false false) (F true false false false false) sample_store eq_refl eq_refl
                ExC14Backends.sample_ok) as (_ & ->).
    reflexivity.
  Qed.
End ExC20.

Print Assumptions ExC14.computed.
Print Assumptions ExC14.blocks_are_spec_hi.
Print Assumptions ExC14Backends.refill_wide_eq_four_narrow_every_backend.
Print Assumptions ExC15.refill_after_sets.
Print Assumptions ExC15.history.
Print Assumptions ExC16.apply_real.
Print Assumptions ExC18.by_theorem.
Print Assumptions ExC20.chacha_refill_wide_feature_irrelevant.
