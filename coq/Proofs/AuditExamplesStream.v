(** Audit examples (auditor's additions, no new assumptions): concrete non-trivial instances of the
    hypotheses of the C01 / C02 / C11 / C03 theorems, run through the REAL model (real block
    producers of Model/ChaChaGuts.v), plus the closed form of [producers_spec] that lets every
    generic C02/C11 theorem be applied to the model of the seven cipher types. *)
From Coq Require Import NArith ZArith List Lia Bool.
From CC Require Import Lib.Words Lib.Bytes Lib.ListX Model.ChaChaGuts Model.ChaChaStream.
From CC Require Import Proofs.ChaChaStreamCtr Proofs.ChaChaStreamSpec Proofs.ChaChaStreamSeek Proofs.ChaChaStreamInv
  Proofs.ChaChaStreamHist Proofs.ChaChaStreamMain Proofs.ChaChaStreamReal Proofs.ChaChaCompose.
From CC Require Spec.ChaCha.
From CC Require Import Props.C01 Props.C02 Props.C11.
Import ListNotations.
Local Open Scope N_scope.

(** * 1. the closed instance missing from Props/C02.v, C11.v: the real producers meet
      [producers_spec] on every constructed state, with no hypothesis beyond byte-ness / lengths *)
Lemma audit_real_producers_closed v drounds key nonce :
  Forall is_byte key -> length key = 32%nat -> Forall is_byte nonce ->
  length nonce = (match v with VDjb => 8 | VIetf => 12 | VX => 24 end)%nat ->
  producers_spec (real_refill1 drounds) (real_refill4 drounds) (fun s => fst (refill s drounds))
                 (init_of v drounds key nonce)
  /\ stream_init (is12_of v) (init_of v drounds key nonce).
Proof.
  intros Hk Hkl Hn Hnl. split.
  - apply real_producers_wf, init_of_wf; assumption.
  - apply stream_init_of; assumption.
Qed.

(** hence C11 (stated for abstract producers) holds of the real IETF model: exhaustion iff
    pos + n > 2^38, atomically, from every reachable buffer *)
Lemma audit_C11_ietf_real drounds key nonce :
  Forall is_byte key -> length key = 32%nat -> Forall is_byte nonce -> length nonce = 12%nat ->
  let s0 := init_of VIetf drounds key nonce in
  let blk := fun s => fst (refill s drounds) in
  forall b pos data, reachable blk true s0 b pos -> N.of_nat (length data) < 2 ^ 64 ->
    (fst (fst (try_apply (real_refill1 drounds) (real_refill4 drounds) true b data)) = ROk
       <-> pos + N.of_nat (length data) <= 2 ^ 38)
    /\ fst (fst (try_apply (real_refill1 drounds) (real_refill4 drounds) true b data)) <> RPanic.
Proof.
  intros Hk Hkl Hn Hnl s0 blk b pos data HR Hd.
  destruct (audit_real_producers_closed VIetf drounds key nonce Hk Hkl Hn Hnl) as [HP HS].
  exact (C11_ietf_apply_ok_iff _ _ _ _ HP HS b pos data HR Hd).
Qed.

(** * 2. a concrete history through the real ChaCha20 (64-bit counter) model that crosses 2^64:
      mid-block seek into block 0 (lazy fill with fresh = true), 5-byte apply, position, 300-byte
      apply (buffered prefix + wide path + tail), seek to 2^64 - 1, 2-byte apply across 2^64
      (accepted: the 64-bit variants have 2^70 bytes), position as u64 (Err) and as u128 (2^64+1) *)
Definition a_key : list N := map N.of_nat (seq 1 32).
Definition a_nonce8 : list N := [9; 8; 7; 6; 5; 4; 3; 2].
Definition a_ops : list op :=
  [OSeek 10; OApply [1; 2; 3; 4; 5]; OPos (2 ^ 64 - 1); OApply (repeat 0xAA 300);
   OSeek (2 ^ 64 - 1); OApply [0; 0]; OPos (2 ^ 64 - 1); OPos (2 ^ 128 - 1)].

Lemma a_key_bytes : Forall is_byte a_key.
Proof. unfold a_key. apply Forall_forall. intros x Hx. apply in_map_iff in Hx. destruct Hx as (i & <- & Hi).
  apply in_seq in Hi. unfold is_byte. lia. Qed.
Lemma a_nonce8_bytes : Forall is_byte a_nonce8.
Proof. repeat constructor. Qed.
Lemma a_ops_ok : Forall op_ok a_ops.
Proof. repeat constructor; cbn; lia. Qed.

Definition shape (o : obs) : result * Z :=
  match o with
  | ObsSeek r => (r, 0%Z)
  | ObsApply r out => (r, Z.of_nat (length out))
  | ObsPos (Some z) => (ROk, z)
  | ObsPos None => (RErr, (-1)%Z)
  end.

Example audit_chacha20_history_crosses_2_64 :
  m_run VDjb 10 a_key a_nonce8 a_ops
    = spec_run (spec_block_fn VDjb 10 a_key a_nonce8) false (init_of VDjb 10 a_key a_nonce8) 0 a_ops
  /\ existsb obs_panics (m_run VDjb 10 a_key a_nonce8 a_ops) = false
  /\ map shape (m_run VDjb 10 a_key a_nonce8 a_ops)
     = [(ROk, 0); (ROk, 5); (ROk, 15); (ROk, 300); (ROk, 0); (ROk, 2); (RErr, -1); (ROk, 2 ^ 64 + 1)]%Z.
Proof.
  destruct (C01_apply_keystream_eq_spec VDjb 10 a_key a_nonce8 a_ops a_key_bytes eq_refl a_nonce8_bytes eq_refl a_ops_ok)
    as [E P].
  split; [exact E | split; [exact P |]]. vm_compute. reflexivity.
Qed.

(** the 300 bytes handed out after [seek 10; apply 5] are the specification's key stream at
    positions 15..314 (computed with Spec/ChaCha.v alone on the right-hand side) *)
Example audit_chacha20_bytes_are_spec :
  nth 3 (m_run VDjb 10 a_key a_nonce8 a_ops) (ObsSeek RPanic)
  = ObsApply ROk (Spec.ChaCha.spec_apply Spec.ChaCha.Djb 10 a_key a_nonce8 15 (repeat 0xAA 300)).
Proof. vm_compute. reflexivity. Qed.

(** * 3. a reachable state with a partly consumed block exists (the invariant is not only met by
      the new buffer): after [seek 10; apply 5 bytes] the IETF buffer holds 49 unread bytes *)
Example audit_reachable_midblock :
  let r1 := real_refill1 10 in let r4 := real_refill4 10 in
  let s0 := init_of VIetf 10 ex_key ex_nonce in
  let blk := fun s => fst (refill s 10) in
  let b1 := fst (step r1 r4 true (new_buffer true s0) (OSeek 10)) in
  let b2 := fst (step r1 r4 true b1 (OApply [1; 2; 3; 4; 5])) in
  reachable blk true s0 b2 15 /\ b_have b2 = 49%Z /\ b_len b2 = 2 ^ 32 - 1 /\ b_fresh b2 = false.
Proof.
  cbv zeta.
  destruct (audit_real_producers_closed VIetf 10 ex_key ex_nonce ex_key_bytes eq_refl ex_nonce_bytes eq_refl) as [HP HS].
  split.
  - pose proof (C02_reachable_init _ _ _ _ _ HS HP) as R0.
    pose proof (C02_reachable_step _ _ _ _ _ HS HP _ _ (OSeek 10) R0 I) as R1.
    assert (Hok : op_ok (OApply [1; 2; 3; 4; 5])) by (cbn; lia).
    pose proof (C02_reachable_step _ _ _ _ _ HS HP _ _ (OApply [1; 2; 3; 4; 5]) R1 Hok) as R2.
    exact R2.
  - vm_compute. repeat split; reflexivity.
Qed.

(** * 4. IETF: the last block. seek to 2^38 - 3, a 4-byte request fails atomically (data unchanged,
      position kept), the remaining 3 bytes are then delivered, and nonce word d1 is still intact
      after the 64-bit counter increment of the last block (fix 26e2eb5) *)
Example audit_ietf_last_block :
  let ops := [OSeek (2 ^ 38 - 3); OApply [1; 2; 3; 4]; OPos (2 ^ 64 - 1); OApply [1; 2; 3]; OPos (2 ^ 64 - 1);
              OApply [7]; OSeek (2 ^ 38 + 1); OSeek 0; OApply [0]] in
  map shape (m_run VIetf 10 ex_key ex_nonce ops)
  = [(ROk, 0); (RErr, 4); (ROk, 2 ^ 38 - 3); (ROk, 3); (ROk, 2 ^ 38); (RErr, 1); (RErr, 0); (ROk, 0); (ROk, 1)]%Z
  /\ nth 1 (m_run VIetf 10 ex_key ex_nonce ops) (ObsSeek RPanic) = ObsApply RErr [1; 2; 3; 4]
  /\ nth 8 (m_run VIetf 10 ex_key ex_nonce ops) (ObsSeek RPanic)
     = ObsApply ROk (Spec.ChaCha.spec_apply Spec.ChaCha.Ietf 10 ex_key ex_nonce 0 [0]).
Proof. vm_compute. repeat split; reflexivity. Qed.
