(** C12, AVX2: u32x4x4_avx2 = x2<u32x4x2_avx2, G0> — the soft.rs x2 wrapper over the native
    256-bit type. COMPOSED lane theorems on the 16 words of the 64-byte image ([wide32 n v]: [n]
    well-formed 32-byte registers, n = 2 for u32x4x4_avx2). The other wide types of the AVX2
    machine (u64x2x2, u64x4, u128x2, u64x2x4, u128x4) are the SSE-family types with s3 = true:
    Proofs/PpvWideSse.v. *)
From Coq Require Import NArith List Lia Bool Arith.
From CC Require Import Lib.Words Lib.Bytes Lib.ListX Model.Intrinsics Model.PpvSse Model.PpvAvx2 Spec.Lanes
  Proofs.IntrinsicsLemmas Proofs.PpvAvx2Words Proofs.PpvWideLift.
Import ListNotations.
Local Open Scope N_scope.

Lemma k4ok32 : (0 < 4)%nat /\ (32 mod 4 = 0)%nat. Proof. split; [lia|reflexivity]. Qed.

Theorem avx2_wide_add_lanewise n a b : wide32 n a -> wide32 n b ->
  concat (xn_binop avx2_add a b) = bytes_le 4 (v_add 32 (words_le 4 (concat a)) (words_le 4 (concat b))).
Proof.
  intros [La Fa] [Lb Fb].
  apply (lift_binop 4 32 (proj1 k4ok32) (proj2 k4ok32) avx2_add (addw 32)); try assumption; [|congruence].
  exact avx2_add_lanewise.
Qed.

Theorem avx2_wide_bitops_lanewise n a b : wide32 n a -> wide32 n b ->
  concat (xn_binop avx2_xor a b) = bytes_le 4 (v_xor (words_le 4 (concat a)) (words_le 4 (concat b))) /\
  concat (xn_binop avx2_and a b) = bytes_le 4 (v_and (words_le 4 (concat a)) (words_le 4 (concat b))) /\
  concat (xn_binop avx2_or a b) = bytes_le 4 (v_or (words_le 4 (concat a)) (words_le 4 (concat b))) /\
  concat (xn_unop avx2_not a) = bytes_le 4 (v_not 32 (words_le 4 (concat a))) /\
  concat (xn_binop avx2_andnot a b) = bytes_le 4 (v_andnot 32 (words_le 4 (concat a)) (words_le 4 (concat b))).
Proof.
  intros [La Fa] [Lb Fb]. destruct k4ok32 as [H0 Hm].
  assert (L : length a = length b) by congruence.
  pose proof avx2_bitops_lanewise as E.
  repeat split.
  - apply (lift_binop 4 32 H0 Hm avx2_xor N.lxor); try assumption. intros x y Hx Hy. exact (proj1 (E x y Hx Hy)).
  - apply (lift_binop 4 32 H0 Hm avx2_and N.land); try assumption. intros x y Hx Hy. exact (proj1 (proj2 (E x y Hx Hy))).
  - apply (lift_binop 4 32 H0 Hm avx2_or N.lor); try assumption. intros x y Hx Hy.
    exact (proj1 (proj2 (proj2 (E x y Hx Hy)))).
  - apply (lift_unop 4 32 H0 Hm avx2_not (notw 32)); try assumption. intros x Hx.
    exact (proj1 (proj2 (proj2 (proj2 (E x x Hx Hx))))).
  - apply (lift_binop 4 32 H0 Hm avx2_andnot (fun x y => N.land (notw 32 x) y)); try assumption.
    intros x y Hx Hy. exact (proj2 (proj2 (proj2 (proj2 (E x y Hx Hy))))).
Qed.

Theorem avx2_wide_rotr_lanewise k n v :
  In k [7; 8; 11; 12; 16; 20; 24; 25] -> wide32 n v ->
  concat (xn_unop (avx2_rotr k) v) = bytes_le 4 (v_rotr 32 k (words_le 4 (concat v))).
Proof.
  intros Hk [_ F]. apply (lift_unop 4 32 (proj1 k4ok32) (proj2 k4ok32) (avx2_rotr k) (rotrw 32 k)); [|exact F].
  intros x Hx. now apply avx2_rotr_lanewise.
Qed.

Theorem avx2_wide_bswap_lanewise n v : wide32 n v ->
  concat (xn_unop avx2_bswap v) = bytes_le 4 (v_bswap 32 (words_le 4 (concat v))).
Proof.
  intros [_ F]. apply (lift_unop 4 32 (proj1 k4ok32) (proj2 k4ok32) avx2_bswap (bswapw 32)); [|exact F].
  intros x Hx. now apply avx2_bswap_lanewise.
Qed.

Theorem avx2_wide_lane_shuffle_is_perm n v : wide32 n v ->
  concat (xn_unop avx2_shuffle_lane_words1230 v) = bytes_le 4 (per_lane4 shuffle1230 (words_le 4 (concat v))) /\
  concat (xn_unop avx2_shuffle_lane_words2301 v) = bytes_le 4 (per_lane4 shuffle2301 (words_le 4 (concat v))) /\
  concat (xn_unop avx2_shuffle_lane_words3012 v) = bytes_le 4 (per_lane4 shuffle3012 (words_le 4 (concat v))).
Proof.
  intros [_ F]. repeat split; apply lift_lane_shuffle32; try exact F; intros x Hx;
    destruct (avx2_lane_shuffle_is_perm x Hx) as (E1 & E2 & E3); assumption.
Qed.
