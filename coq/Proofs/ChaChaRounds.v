(** The vectorised ChaCha rounds of Model/ChaChaGuts.v equal the index-wise
    quarter-round schedule of Spec/ChaCha.v, for any word operations, for the
    narrow (one block) and the wide (four blocks) state. *)
From Coq Require Import NArith List Lia Arith.
From CC Require Import Lib.Words Lib.Bytes Lib.ListX Spec.Lanes.
From CC Require Spec.ChaCha.
From CC Require Import Model.ChaChaGuts.
Import ListNotations.
Module S := Spec.ChaCha.

Definition flat (x : vstate) : list N := va x ++ vb x ++ vc x ++ vd x.
Definition shape (n : nat) (x : vstate) : Prop :=
  length (va x) = n /\ length (vb x) = n /\ length (vc x) = n /\ length (vd x) = n.

Section Sym.
  Variables (add xor : N -> N -> N) (rotr : N -> N -> N).
  (** the spec rotates left by r = rotates right by 32 - r *)
  Definition rotl_of (r x : N) : N := rotr (32 - r)%N x.

  Lemma dround_narrow x : shape 4 x ->
    flat (dround add xor rotr x) = S.double_round add xor rotl_of (flat x)
    /\ shape 4 (dround add xor rotr x).
  Proof.
    destruct x as [a b c d]. intros (Ha & Hb & Hc & Hd). cbn in Ha, Hb, Hc, Hd.
    explode a. explode b. explode c. explode d.
    split; [vm_compute; reflexivity | repeat split].
  Qed.

  Lemma rounds_S n x : rounds add xor rotr (S n) x = rounds add xor rotr n (dround add xor rotr x).
  Proof. reflexivity. Qed.
  Lemma siter_S {A} n (f : A -> A) (y : A) : S.iter (S n) f y = S.iter n f (f y).
  Proof. reflexivity. Qed.

  Lemma rounds_narrow n x : shape 4 x ->
    flat (rounds add xor rotr n x) = S.iter n (S.double_round add xor rotl_of) (flat x)
    /\ shape 4 (rounds add xor rotr n x).
  Proof.
    revert x. induction n as [|n IH]; intros x Hx; [now split|].
    rewrite (rounds_S n x), (siter_S n (S.double_round add xor rotl_of) (flat x)).
    destruct (dround_narrow x Hx) as [E Hs].
    rewrite <- E. apply IH, Hs.
  Qed.

  (** wide state: lane [i] (words 4i..4i+3 of each row) evolves like a narrow state *)
  Definition lane_state (i : nat) (x : vstate) : vstate :=
    VS (lane i (va x)) (lane i (vb x)) (lane i (vc x)) (lane i (vd x)).

  Lemma dround_wide x : shape 16 x ->
    (forall i, In i [0;1;2;3] ->
       lane_state i (dround add xor rotr x) = dround add xor rotr (lane_state i x))
    /\ shape 16 (dround add xor rotr x).
  Proof.
    destruct x as [a b c d]. intros (Ha & Hb & Hc & Hd). cbn in Ha, Hb, Hc, Hd.
    explode a. explode b. explode c. explode d.
    split; [|repeat split].
    intros i Hi. cbn in Hi.
    repeat (destruct Hi as [<-|Hi]); try contradiction; vm_compute; reflexivity.
  Qed.

  Lemma rounds_wide n x : shape 16 x ->
    (forall i, In i [0;1;2;3] ->
       lane_state i (rounds add xor rotr n x) = rounds add xor rotr n (lane_state i x))
    /\ shape 16 (rounds add xor rotr n x).
  Proof.
    revert x. induction n as [|n IH]; intros x Hx; [now split|].
    rewrite (rounds_S n x).
    destruct (dround_wide x Hx) as [E Hs].
    destruct (IH _ Hs) as [E' Hs'].
    split; [|exact Hs'].
    intros i Hi. rewrite E' by exact Hi. rewrite E by exact Hi. symmetry. apply rounds_S.
  Qed.
End Sym.

(** every word of the state after at least one double round is the result of an [add] or a
    [rotr], so any predicate that holds of all such results (e.g. "< 2^32") holds of the state *)
Section Bounded.
  Variables (add xor : N -> N -> N) (rotr : N -> N -> N) (P : N -> Prop).
  Hypothesis Hadd : forall a b, P (add a b).
  Hypothesis Hrot : forall k x, P (rotr k x).

  Lemma dround_bounded x : shape 4 x -> Forall P (flat (dround add xor rotr x)).
  Proof.
    destruct x as [a b c d]. intros (Ha & Hb & Hc & Hd). cbn in Ha, Hb, Hc, Hd.
    explode a. explode b. explode c. explode d.
    vm_compute. repeat constructor; first [apply Hadd | apply Hrot].
  Qed.

  Lemma rounds_bounded n x : shape 4 x -> Forall P (flat x) -> Forall P (flat (rounds add xor rotr n x)).
  Proof.
    revert x. induction n as [|n IH]; intros x Hx HP; [exact HP|].
    rewrite (rounds_S add xor rotr n x).
    destruct (dround_narrow add xor rotr x Hx) as [_ Hs].
    apply IH; [exact Hs | now apply dround_bounded].
  Qed.
End Bounded.
