(** Shared lemmas for the whole-block machine-independence proofs (C03, machine-framing):
    word lists <-> byte images, closure of [words_ok] under the lane operations used by the
    framing code, and the proof that the lane-wise instance [lane_xm] of Model/MachineFull.v
    satisfies [xmachine_refines]. *)
From Coq Require Import NArith List Bool Lia Arith.
From CC Require Import Lib.Words Lib.Bytes Lib.ListX Spec.Lanes Model.Machine Model.MachineFull.
From CC Require Import Proofs.Machine Proofs.MachineBytes.
From CC Require Proofs.IntrinsicsLemmas Proofs.PpvSseSwap.
Import ListNotations.
Local Open Scope N_scope.

Ltac inv_fa :=
  repeat match goal with H : Forall _ (_ :: _) |- _ => inversion H; clear H; subst end;
  repeat match goal with H : Forall _ [] |- _ => clear H end.
Ltac fa := repeat (apply Forall_cons; [assumption|]); apply Forall_nil.

(** * word lists and their little-endian byte images *)
Lemma ok_bytes (k n : nat) l : (0 < k)%nat -> words_ok (8 * N.of_nat k) n l ->
  bytes_ok (k * n) (bytes_le k l) /\ words_le k (bytes_le k l) = l.
Proof. intros Hk H. exact (ok_to_bytes k n Hk l H). Qed.

Lemma bytes_words (k n : nat) bs : (0 < k)%nat -> bytes_ok (k * n) bs ->
  words_ok (8 * N.of_nat k) n (words_le k bs) /\ bytes_le k (words_le k bs) = bs.
Proof.
  intros Hk [Hl Hb]. split; [split|].
  - rewrite words_le_length by exact Hk. rewrite Hl, Nat.mul_comm. apply Nat.div_mul. lia.
  - apply words_le_Forall_word. exact Hb.
  - apply bytes_words_le; [exact Hk | rewrite Hl, Nat.mul_comm; apply Nat.mod_mul; lia | exact Hb].
Qed.

Lemma k4 : (0 < 4)%nat. Proof. lia. Qed.
Lemma k8 : (0 < 8)%nat. Proof. lia. Qed.

Lemma ok4_bytes l : words_ok 32 4 l -> bytes_ok 16 (bytes_le 4 l) /\ words_le 4 (bytes_le 4 l) = l.
Proof. exact (ok_bytes 4 4 l k4). Qed.
Lemma ok16_bytes l : words_ok 32 16 l -> bytes_ok 64 (bytes_le 4 l) /\ words_le 4 (bytes_le 4 l) = l.
Proof. exact (ok_bytes 4 16 l k4). Qed.
Lemma ok2q_bytes l : words_ok 64 2 l -> bytes_ok 16 (bytes_le 8 l) /\ words_le 8 (bytes_le 8 l) = l.
Proof. exact (ok_bytes 8 2 l k8). Qed.
Lemma ok4q_bytes l : words_ok 64 4 l -> bytes_ok 32 (bytes_le 8 l) /\ words_le 8 (bytes_le 8 l) = l.
Proof. exact (ok_bytes 8 4 l k8). Qed.
Lemma ok8q_bytes l : words_ok 64 8 l -> bytes_ok 64 (bytes_le 8 l) /\ words_le 8 (bytes_le 8 l) = l.
Proof. exact (ok_bytes 8 8 l k8). Qed.

Lemma bytes16_words4 bs : bytes_ok 16 bs -> words_ok 32 4 (words_le 4 bs) /\ bytes_le 4 (words_le 4 bs) = bs.
Proof. exact (bytes_words 4 4 bs k4). Qed.
Lemma bytes64_words16 bs : bytes_ok 64 bs -> words_ok 32 16 (words_le 4 bs) /\ bytes_le 4 (words_le 4 bs) = bs.
Proof. exact (bytes_words 4 16 bs k4). Qed.
Lemma bytes16_words2 bs : bytes_ok 16 bs -> words_ok 64 2 (words_le 8 bs) /\ bytes_le 8 (words_le 8 bs) = bs.
Proof. exact (bytes_words 8 2 bs k8). Qed.
Lemma bytes32_words4 bs : bytes_ok 32 bs -> words_ok 64 4 (words_le 8 bs) /\ bytes_le 8 (words_le 8 bs) = bs.
Proof. exact (bytes_words 8 4 bs k8). Qed.
Lemma bytes64_words8 bs : bytes_ok 64 bs -> words_ok 64 8 (words_le 8 bs) /\ bytes_le 8 (words_le 8 bs) = bs.
Proof. exact (bytes_words 8 8 bs k8). Qed.

Lemma bytes_le_app k a b : bytes_le k (a ++ b) = bytes_le k a ++ bytes_le k b.
Proof. unfold bytes_le. apply flat_map_app. Qed.
Lemma write_be_app k a b : write_be k (a ++ b) = write_be k a ++ write_be k b.
Proof. unfold write_be. apply flat_map_app. Qed.

(** a list of [r]-byte registers: its memory image is the image of the concatenated word views *)
Lemma concat_regs_bytes k r (v : list (list N)) : (0 < k)%nat -> (r mod k = 0)%nat ->
  Forall (bytes_ok r) v -> bytes_le k (concat (map (words_le k) v)) = concat v.
Proof.
  intros Hk Hr Hv. induction Hv as [|a v [La Ba] _ IH]; [reflexivity|].
  cbn [map concat]. rewrite bytes_le_app, IH. f_equal.
  apply bytes_words_le; [exact Hk | now rewrite La | exact Ba].
Qed.

Lemma slice_ok k n bs i : bytes_ok (k * n) bs -> (i < n)%nat -> bytes_ok k (firstn k (skipn (k * i) bs)).
Proof.
  intros [Hl Hb] Hi. split.
  - rewrite firstn_length, skipn_length, Hl. nia.
  - apply Forall_firstn', Forall_skipn', Hb.
Qed.

(** * closure of [words_ok] *)
Lemma ok_app w n m a b : words_ok w n a -> words_ok w m b -> words_ok w (n + m) (a ++ b).
Proof.
  intros [La Fa] [Lb Fb]. split; [rewrite app_length, La, Lb; reflexivity | apply Forall_app; split; assumption].
Qed.

Lemma ok_upd w n l i v : words_ok w n l -> v < 2 ^ w -> words_ok w n (upd i v l).
Proof.
  intros [Hl Hf] Hv. split; [now rewrite upd_length|].
  clear Hl. revert i. induction Hf as [|x l Hx Hf IH]; intros i; [destruct i; constructor|].
  destruct i; cbn [upd]; constructor; auto.
Qed.

Lemma ok_lane4 v i : words_ok 32 16 v -> (i < 4)%nat -> words_ok 32 4 (lane4 i v).
Proof.
  intros [Hl Hf] Hi. unfold lane4. split.
  - rewrite firstn_length, skipn_length, Hl. lia.
  - apply Forall_firstn', Forall_skipn', Hf.
Qed.

Lemma lane4_app4 a b c d : length a = 4%nat -> length b = 4%nat -> length c = 4%nat -> length d = 4%nat ->
  lane4 0 (a ++ b ++ c ++ d) = a /\ lane4 1 (a ++ b ++ c ++ d) = b /\
  lane4 2 (a ++ b ++ c ++ d) = c /\ lane4 3 (a ++ b ++ c ++ d) = d.
Proof. intros La Lb Lc Ld. explode a. explode b. explode c. explode d. repeat split; reflexivity. Qed.

Lemma lanes4_concat v : length v = 16%nat -> lane4 0 v ++ lane4 1 v ++ lane4 2 v ++ lane4 3 v = v.
Proof. intros L. explode v. reflexivity. Qed.

Lemma ok_transpose4 a b c d : words_ok 32 16 a -> words_ok 32 16 b -> words_ok 32 16 c -> words_ok 32 16 d ->
  let l := l_transpose4 a b c d in
  words_ok 32 16 (t4_0 l) /\ words_ok 32 16 (t4_1 l) /\ words_ok 32 16 (t4_2 l) /\ words_ok 32 16 (t4_3 l).
Proof.
  intros Ha Hb Hc Hd. cbv zeta. unfold l_transpose4, t4_0, t4_1, t4_2, t4_3. cbn [fst snd].
  split; [|split; [|split]];
    (apply (ok_app 32 4 12); [apply ok_lane4; [assumption | lia]|];
     apply (ok_app 32 4 8); [apply ok_lane4; [assumption | lia]|];
     apply (ok_app 32 4 4); apply ok_lane4; (assumption || lia)).
Qed.

(** * the lane-wise vector types with their range invariant refine themselves *)
Lemma okv_refines (k n : nat) ks : (0 < k)%nat -> (n = 4 \/ n = 16)%nat ->
  vops_refines (8 * N.of_nat k) n ks (okv (8 * N.of_nat k) n).
Proof.
  intros Hk Hn. apply vops_refines_intro;
    cbn [okv v_wf v_rep v_vec o_add o_xor o_rotr o_sh1230 o_sh2301 o_sh3012].
  - intros l Hl. split; [exact Hl | reflexivity].
  - intros a b Wa Wb. split; [apply (ok_add k n); assumption | reflexivity].
  - intros a b Wa Wb. split; [apply (ok_xor k n); assumption | reflexivity].
  - intros r a _ Wa. split; [apply (ok_rotr k n); assumption | reflexivity].
  - intros a Wa. split; [apply (ok_sh1230 k n); assumption | reflexivity].
  - intros a Wa. split; [apply (ok_sh2301 k n); assumption | reflexivity].
  - intros a Wa. split; [apply (ok_sh3012 k n); assumption | reflexivity].
Qed.

Lemma pow2_swaps k : (k < 7)%nat -> In (2 ^ N.of_nat k) [1; 2; 4; 8; 16; 32; 64].
Proof.
  intros Hk. do 7 (destruct k as [|k]; [vm_compute; repeat (first [left; reflexivity | right]) |]). lia.
Qed.
Lemma notw_lt128 a : notw 128 a < 2 ^ 128.
Proof.
  unfold notw. apply lxor_lt; [apply wrap_lt|].
  rewrite N.ones_equiv. pose proof (pow2_pos 128). lia.
Qed.

Lemma ok_jops_refines : jops_refines ok_jops.
Proof.
  constructor; unfold jrel1, jrel2, w128;
    cbn [ok_jops j_wf1 j_wf2 j_rep1 j_rep2 j_load j_const j_zip j_ext j_xor1 j_xor2 j_and2 j_or2
         j_andnot2 j_not2 j_swap].
  - intros x Hx. split; [exact Hx | reflexivity].
  - intros x H0 H1. split; [split; assumption | reflexivity].
  - intros a b x y [Ha <-] [Hb <-]. split; [split; assumption | reflexivity].
  - intros a x i [[H0 H1] <-]. destruct i; (split; [assumption | reflexivity]).
  - intros a b x y [Ha <-] [Hb <-]. split; [now apply lxor_lt | reflexivity].
  - intros a b x y [[Ha0 Ha1] <-] [[Hb0 Hb1] <-]. unfold p2. cbn [fst snd].
    split; [split; now apply lxor_lt | reflexivity].
  - intros a b x y [[Ha0 Ha1] <-] [[Hb0 Hb1] <-]. unfold p2. cbn [fst snd].
    split; [split; now apply IntrinsicsLemmas.land_lt | reflexivity].
  - intros a b x y [[Ha0 Ha1] <-] [[Hb0 Hb1] <-]. unfold p2. cbn [fst snd].
    split; [split; now apply IntrinsicsLemmas.lor_lt | reflexivity].
  - intros a b x y [[Ha0 Ha1] <-] [[Hb0 Hb1] <-]. unfold p2. cbn [fst snd].
    split; [split; unfold l_andnot; now apply IntrinsicsLemmas.land_lt_r | reflexivity].
  - intros a x [[Ha0 Ha1] <-]. unfold l_not. cbn [fst snd].
    split; [split; apply notw_lt128 | reflexivity].
  - intros k a x Hk [Ha <-]. split; [|reflexivity].
    unfold l_swap. apply PpvSseSwap.swapw_lt; [now apply pow2_swaps | exact Ha].
Qed.

Lemma lane_base_refines : machine_refines lane_base.
Proof.
  unfold machine_refines, lane_base. cbn [m_u32x4 m_u32x4x4 m_u64x4 m_u128].
  split; [|split; [|split]].
  - apply (okv_refines 4 4); [lia | auto].
  - apply (okv_refines 4 16); [lia | auto].
  - apply (okv_refines 8 4); [lia | auto].
  - apply ok_jops_refines.
Qed.

Lemma le_join_lt16 st : bytes_ok 16 st -> le_join st < 2 ^ 128.
Proof. intros [Hl Hb]. pose proof (le_join_lt st Hb) as H. rewrite Hl in H. exact H. Qed.

Theorem lane_xm_refines : xmachine_refines lane_xm.
Proof.
  constructor; cbn [lane_xm xm_base xm_n xm_d xm_w xm_h xm_u].
  - apply lane_base_refines.
  - constructor; unfold rel; cbn [lane_base m_u32x4 okv v_wf v_rep lane_nops v4_unpack v4_into v4_extract
                                   v4_insert v4_write_le v4_write_be v4_read_le].
    + auto.
    + intros st Hst. split; [apply bytes16_words4, Hst | reflexivity].
    + reflexivity.
    + reflexivity.
    + intros a v i Wa Hv _. split; [now apply ok_upd | reflexivity].
    + reflexivity.
    + reflexivity.
    + intros bs Hbs. split; [apply bytes16_words4, Hbs | reflexivity].
  - constructor; cbn [lane_dops d2_wf d2_rep d2_vec d2_unpack d2_into d2_add d8_wf d8_rep d8_from_lanes
                       d8_add d8_into].
    + auto.
    + auto.
    + intros st Hst. split; [apply bytes16_words2, Hst | reflexivity].
    + reflexivity.
    + intros a b Wa Wb. split; [apply (ok_add 8 2); assumption | reflexivity].
    + auto.
    + intros a b c d Wa Wb Wc Wd. split; [|reflexivity].
      apply (ok_app 64 2 6); [assumption|]. apply (ok_app 64 2 4); [assumption|]. now apply (ok_app 64 2 2).
    + intros a b Wa Wb. split; [apply (ok_add 8 8); assumption | reflexivity].
    + reflexivity.
  - constructor; unfold rel; cbn [lane_base m_u32x4 m_u32x4x4 okv v_wf v_rep lane_wops v16_from_lanes v16_to_lanes
                                   v16_unpack v16_transpose4 v16_write_le].
    + auto.
    + intros a b c d Wa Wb Wc Wd. split; [|reflexivity].
      apply (ok_app 32 4 12); [assumption|]. apply (ok_app 32 4 8); [assumption|]. now apply (ok_app 32 4 4).
    + intros v Wv. unfold t4_0, t4_1, t4_2, t4_3. cbn [fst snd].
      split; [|split; [|split]]; (split; [apply ok_lane4; (assumption || lia) | reflexivity]).
    + intros st Hst. split; [apply bytes64_words16, Hst | reflexivity].
    + intros a b c d Wa Wb Wc Wd. cbv zeta.
      destruct (ok_transpose4 a b c d Wa Wb Wc Wd) as (H0 & H1 & H2 & H3).
      split; [|split; [|split]]; (split; [assumption | reflexivity]).
    + reflexivity.
  - constructor; unfold rel; cbn [lane_base m_u64x4 okv v_wf v_rep lane_hops d4_unpack d4_into d4_write_be].
    + auto.
    + intros st Hst. split; [apply bytes32_words4, Hst | reflexivity].
    + reflexivity.
    + reflexivity.
  - constructor; unfold jrel1; cbn [lane_base m_u128 ok_jops j_wf1 j_rep1 lane_uops o1_unpack o1_read o1_into].
    + auto.
    + intros st Hst. split; [apply le_join_lt16, Hst | reflexivity].
    + intros st Hst. split; [apply le_join_lt16, Hst | reflexivity].
    + reflexivity.
Qed.
