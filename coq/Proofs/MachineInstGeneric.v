(** The concrete Machine of the portable back end of ppv-lite86 (C03): [GenericMachine]
    (generic.rs + the soft.rs x2/x4 wrappers; cargo feature no_simd or no SSE2 target feature), built
    from the outcome-typed models Model/PpvGeneric.v and Model/PpvSoft.v, for each build profile [p]
    (overflow checks on / off). A 128-bit vector is the list of its words; the wide types are
    lists of 2 / 4 such lists. Every operation field is the model's operation projected out of
    its outcome ([gunwrap]: the value returned, or a filler if the call panicked); the C12g/C13g
    theorems show that on well-formed operands the call returns ([Ok]), so the filler is never
    taken, and that the value is the lane meaning. *)
From Coq Require Import NArith List Bool Lia Arith.
From CC Require Import Lib.Words Lib.Bytes Lib.ListX Spec.Lanes Model.PpvSoft Model.PpvGeneric.
From CC Require Import Model.Machine Proofs.Machine Proofs.MachineBytes Proofs.MachineInstLib.
From CC Require Import Proofs.PpvGenericLib Proofs.PpvGenericOps Proofs.PpvGenericSwap Proofs.PpvSoftFwd
  Proofs.PpvGenericWide Proofs.PpvGenericMove.
From CC Require Proofs.PpvSseSwap.
Import ListNotations.
Local Open Scope N_scope.

Definition gunwrap {A} (d : A) (o : outcome A) : A := match o with Ok a => a | Panic => d end.
Lemma ok_gunwrap {A} (d : A) o v : o = Ok v -> o = Ok (gunwrap d o).
Proof. intros ->. reflexivity. Qed.

Ltac fall := repeat (apply Forall_cons; [assumption|]); apply Forall_nil.

Section Generic.
  Variable p : profile.

  (** element operations of a 128-bit type [t], projected *)
  Definition e_add (t : PpvGeneric.vt) (a b : list N) : list N := gunwrap [] (g_binop p t OAdd a b).
  Definition e_xor (t : PpvGeneric.vt) (a b : list N) : list N := gunwrap [] (g_binop p t OXor a b).
  Definition e_rotr (t : PpvGeneric.vt) (k : N) (a : list N) : list N := gunwrap [] (g_wunop p t (WRotr k) a).

  Lemma wfv_ok32 a : wfv U32x4 a <-> words_ok 32 4 a.
  Proof. split; intros H; exact H. Qed.
  Lemma wfv_ok64 a : wfv U64x2 a <-> words_ok 64 2 a.
  Proof. split; intros H; exact H. Qed.

  Lemma e_add_ok t a b : wfv t a -> wfv t b -> g_binop p t OAdd a b = Ok (e_add t a b) /\ e_add t a b = v_add (vt_w t) a b.
  Proof.
    intros Wa Wb. pose proof (g_binop_lanewise p t OAdd a b Wa Wb) as E. cbn [spec_bin] in E.
    unfold e_add. rewrite E. split; reflexivity.
  Qed.
  Lemma e_xor_ok t a b : wfv t a -> wfv t b -> g_binop p t OXor a b = Ok (e_xor t a b) /\ e_xor t a b = v_xor a b.
  Proof.
    intros Wa Wb. pose proof (g_binop_lanewise p t OXor a b Wa Wb) as E. cbn [spec_bin] in E.
    unfold e_xor. rewrite E. split; reflexivity.
  Qed.
  Lemma e_rotr_ok t k a : In k (rot_amounts t) -> wfv t a ->
    g_wunop p t (WRotr k) a = Ok (e_rotr t k a) /\ e_rotr t k a = v_rotr (vt_w t) k a.
  Proof.
    intros Hk Wa. pose proof (g_wunop_lanewise p t (WRotr k) a Hk Wa) as E. cbn [spec_un] in E.
    unfold e_rotr. rewrite E. split; reflexivity.
  Qed.

  (** * u32x4_generic *)
  Definition e_shuffle (k : N) (a : list N) : list N := gunwrap [] (g32_lane_shuffle p k a).
  Lemma e_shuffle_ok k a : wfv U32x4 a ->
    g32_lane_shuffle p k a = Ok (e_shuffle k a) /\ e_shuffle k a = spec_shuffle k a.
  Proof.
    intros Wa. pose proof (g32_lane_shuffle_perm p k a Wa) as E. unfold e_shuffle. rewrite E. split; reflexivity.
  Qed.

  Definition g_u32x4_vops : vops :=
    VOps (list N) (wfv U32x4) g_to_lanes g_from_lanes
         (e_add U32x4) (e_xor U32x4) (e_rotr U32x4)
         (e_shuffle 1230) (e_shuffle 2301) (e_shuffle 3012).

  Lemma ks32_rot k : In k ks32 -> In k (rot_amounts U32x4).
  Proof. cbn. tauto. Qed.
  Lemma ks64_rot k : In k ks64 -> In k (rot_amounts U64x2).
  Proof. cbn. tauto. Qed.

  Lemma g_u32x4_refines : vops_refines 32 4 ks32 g_u32x4_vops.
  Proof.
    apply vops_refines_intro;
      cbn [g_u32x4_vops v_wf v_rep v_vec o_add o_xor o_rotr o_sh1230 o_sh2301 o_sh3012];
      unfold g_to_lanes, g_from_lanes.
    - intros l Hl. split; [exact Hl | reflexivity].
    - intros a b Wa Wb. rewrite (proj2 (e_add_ok U32x4 a b Wa Wb)).
      split; [apply (ok_add 4 4); assumption | reflexivity].
    - intros a b Wa Wb. rewrite (proj2 (e_xor_ok U32x4 a b Wa Wb)).
      split; [apply (ok_xor 4 4); assumption | reflexivity].
    - intros k a Hk Wa. rewrite (proj2 (e_rotr_ok U32x4 k a (ks32_rot k Hk) Wa)).
      split; [apply (ok_rotr 4 4); assumption | reflexivity].
    - intros a Wa. rewrite (proj2 (e_shuffle_ok 1230 a Wa)). change (spec_shuffle 1230) with (@shuffle1230 N).
      rewrite <- (per_lane4_len4 shuffle1230) by apply Wa.
      split; [apply (ok_sh1230 4 4); [auto | exact Wa] | reflexivity].
    - intros a Wa. rewrite (proj2 (e_shuffle_ok 2301 a Wa)). change (spec_shuffle 2301) with (@shuffle2301 N).
      rewrite <- (per_lane4_len4 shuffle2301) by apply Wa.
      split; [apply (ok_sh2301 4 4); [auto | exact Wa] | reflexivity].
    - intros a Wa. rewrite (proj2 (e_shuffle_ok 3012 a Wa)). change (spec_shuffle 3012) with (@shuffle3012 N).
      rewrite <- (per_lane4_len4 shuffle3012) by apply Wa.
      split; [apply (ok_sh3012 4 4); [auto | exact Wa] | reflexivity].
  Qed.

  (** * u32x4x4_generic = x4<u32x4_generic> *)
  Definition g_u32x4x4_vops : vops :=
    prod_vops g_u32x4_vops 4
      (fun l => gunwrap [] (x4_unpack [] (unpack128 p U32x4) (split128 (new128 (map st_of_d (chunk 4 4 l))))))
      (fun a b => gunwrap [] (x4_binop [] (g_binop p U32x4 OAdd) a b))
      (fun a b => gunwrap [] (x4_binop [] (g_binop p U32x4 OXor) a b))
      (fun k a => gunwrap [] (x4_unop [] (g_wunop p U32x4 (WRotr k)) a))
      (fun a => gunwrap [] (x4_unop [] (g32_lane_shuffle p 1230) a))
      (fun a => gunwrap [] (x4_unop [] (g32_lane_shuffle p 2301) a))
      (fun a => gunwrap [] (x4_unop [] (g32_lane_shuffle p 3012) a)).

  Lemma g_u32x4x4_refines : vops_refines 32 16 ks32 g_u32x4x4_vops.
  Proof.
    apply (prod_refines g_u32x4_vops 32 4%nat ks32 4%nat 1%nat g_u32x4_refines);
      cbn [g_u32x4_vops vt v_wf v_rep v_vec o_add o_xor o_rotr o_sh1230 o_sh2301 o_sh3012]; cbv beta.
    - intros a Wa. apply Wa.
    - reflexivity.
    - intros l Hl.
      assert (W : wide U32x4 4 (chunk 4 4 l)).
      { split; [apply chunk_length | apply (chunk_words_ok 32 4 4 l Hl)]. }
      destruct (wide_storage_roundtrip p U32x4 4 _ (or_intror eq_refl) W) as [_ E].
      cbn [Nat.eqb] in E. change (img U32x4) with st_of_d in E.
      transitivity (gunwrap [] (Ok (chunk 4 4 l))); [exact (f_equal (gunwrap []) E)|].
      cbn [gunwrap]. unfold g_from_lanes. symmetry. apply map_id.
    - intros a b [La Fa] [Lb Fb].
      rewrite (x4_binop_forwards [] (wfv U32x4) _ (e_add U32x4));
        [reflexivity | intros x y Wx Wy; apply (e_add_ok U32x4 x y Wx Wy) | assumption ..].
    - intros a b [La Fa] [Lb Fb].
      rewrite (x4_binop_forwards [] (wfv U32x4) _ (e_xor U32x4));
        [reflexivity | intros x y Wx Wy; apply (e_xor_ok U32x4 x y Wx Wy) | assumption ..].
    - intros k a Hk [La Fa].
      rewrite (x4_unop_forwards [] (wfv U32x4) _ (e_rotr U32x4 k));
        [reflexivity | intros x Wx; apply (e_rotr_ok U32x4 k x (ks32_rot k Hk) Wx) | assumption ..].
    - intros a [La Fa]. rewrite (x4_unop_forwards [] (wfv U32x4) _ (e_shuffle 1230));
        [reflexivity | intros x Wx; apply (e_shuffle_ok 1230 x Wx) | assumption ..].
    - intros a [La Fa]. rewrite (x4_unop_forwards [] (wfv U32x4) _ (e_shuffle 2301));
        [reflexivity | intros x Wx; apply (e_shuffle_ok 2301 x Wx) | assumption ..].
    - intros a [La Fa]. rewrite (x4_unop_forwards [] (wfv U32x4) _ (e_shuffle 3012));
        [reflexivity | intros x Wx; apply (e_shuffle_ok 3012 x Wx) | assumption ..].
  Qed.

  (** * u64x4_generic = x2<u64x2_generic, G1> *)
  Definition g_u64x4_vops : vops :=
    VOps (list (list N)) (wide U64x2 2) u64x4_to_lanes u64x4_from_lanes
         (fun a b => gunwrap [] (x2_binop [] (g_binop p U64x2 OAdd) a b))
         (fun a b => gunwrap [] (x2_binop [] (g_binop p U64x2 OXor) a b))
         (fun k a => gunwrap [] (x2_unop [] (g_wunop p U64x2 (WRotr k)) a))
         u64x4_shuffle1230 u64x4_shuffle2301 u64x4_shuffle3012.

  Lemma wide_lrep v : wide U64x2 2 v -> u64x4_to_lanes v = lrep (fun x : list N => x) v.
  Proof. intros W. rewrite (proj2 (u64x4_to_from_lanes v W)). unfold lrep. now rewrite map_id. Qed.
  Lemma len2 : forall a, wfv U64x2 a -> length ((fun x : list N => x) a) = 2%nat.
  Proof. intros a [L _]. exact L. Qed.

  Lemma u64x4_shuffle_wide v : wide U64x2 2 v ->
    wide U64x2 2 (u64x4_shuffle1230 v) /\ wide U64x2 2 (u64x4_shuffle2301 v) /\ wide U64x2 2 (u64x4_shuffle3012 v).
  Proof.
    intros [L F]. explode v. inv_forall.
    repeat match goal with H : wfv U64x2 ?l |- _ => destruct H as [?L ?F]; cbn [vt_n vt_w] in *; explode l end.
    inv_forall.
    unfold u64x4_shuffle1230, u64x4_shuffle2301, u64x4_shuffle3012, u64x4_to_lanes, u64x4_from_lanes,
      g_to_lanes, g_from_lanes. cbn [nth].
    repeat split; try reflexivity; repeat (apply Forall_cons; [split; [reflexivity | cbn [vt_w]; fall]|]); apply Forall_nil.
  Qed.

  Lemma g_u64x4_refines : vops_refines 64 4 ks64 g_u64x4_vops.
  Proof.
    apply vops_refines_intro;
      cbn [g_u64x4_vops v_wf v_rep v_vec o_add o_xor o_rotr o_sh1230 o_sh2301 o_sh3012].
    - intros l [Hl Hf]. explode l. inv_forall.
      unfold u64x4_from_lanes, u64x4_to_lanes, g_from_lanes, g_to_lanes. cbn [nth].
      split; [|reflexivity].
      split; [reflexivity|]. repeat (apply Forall_cons; [split; [reflexivity | cbn [vt_w]; fall]|]); apply Forall_nil.
    - intros a b Wa Wb. pose proof Wa as [La Fa]. pose proof Wb as [Lb Fb].
      rewrite (x2_binop_forwards [] (wfv U64x2) _ (e_add U64x2));
        [| intros x y Wx Wy; apply (e_add_ok U64x2 x y Wx Wy) | assumption ..]. cbn [gunwrap].
      destruct (lift_bin (wfv U64x2) (fun x : list N => x) 2 2 len2 (e_add U64x2) (addw 64)) with (A := a) (B := b)
        as [W E]; [| exact Wa | exact Wb |].
      { intros x y Wx Wy. rewrite (proj2 (e_add_ok U64x2 x y Wx Wy)).
        split; [apply (ok_add 8 2); assumption | reflexivity]. }
      split; [exact W|]. rewrite !wide_lrep by assumption. exact E.
    - intros a b Wa Wb. pose proof Wa as [La Fa]. pose proof Wb as [Lb Fb].
      rewrite (x2_binop_forwards [] (wfv U64x2) _ (e_xor U64x2));
        [| intros x y Wx Wy; apply (e_xor_ok U64x2 x y Wx Wy) | assumption ..]. cbn [gunwrap].
      destruct (lift_bin (wfv U64x2) (fun x : list N => x) 2 2 len2 (e_xor U64x2) N.lxor) with (A := a) (B := b)
        as [W E]; [| exact Wa | exact Wb |].
      { intros x y Wx Wy. rewrite (proj2 (e_xor_ok U64x2 x y Wx Wy)).
        split; [apply (ok_xor 8 2); assumption | reflexivity]. }
      split; [exact W|]. rewrite !wide_lrep by assumption. exact E.
    - intros k a Hk Wa. pose proof Wa as [La Fa].
      rewrite (x2_unop_forwards [] (wfv U64x2) _ (e_rotr U64x2 k));
        [| intros x Wx; apply (e_rotr_ok U64x2 k x (ks64_rot k Hk) Wx) | assumption ..]. cbn [gunwrap].
      destruct (lift_un (wfv U64x2) (fun x : list N => x) 2 2 len2 (e_rotr U64x2 k) (v_rotr 64 k)) with (A := a)
        as [W E]; [| | exact Wa |].
      { intros vs _. apply concat_map. }
      { intros x Wx. rewrite (proj2 (e_rotr_ok U64x2 k x (ks64_rot k Hk) Wx)).
        split; [apply (ok_rotr 8 2); assumption | reflexivity]. }
      split; [exact W|]. rewrite !wide_lrep by assumption. exact E.
    - intros a Wa. destruct (u64x4_shuffle_wide a Wa) as (W & _ & _). split; [exact W|].
      destruct (u64x4_to_from_lanes _ W) as [_ ->]. destruct (u64x4_to_from_lanes _ Wa) as [_ ->].
      destruct (u64x4_shuffle_is_perm a Wa) as (_ & -> & _).
      symmetry. apply per_lane4_len4. destruct Wa as [L F]. explode a. inv_forall.
      repeat match goal with H : wfv U64x2 ?l |- _ => destruct H as [?L _]; cbn [vt_n] in *; explode l end. reflexivity.
    - intros a Wa. destruct (u64x4_shuffle_wide a Wa) as (_ & W & _). split; [exact W|].
      destruct (u64x4_to_from_lanes _ W) as [_ ->]. destruct (u64x4_to_from_lanes _ Wa) as [_ ->].
      destruct (u64x4_shuffle_is_perm a Wa) as (-> & _ & _).
      symmetry. apply per_lane4_len4. destruct Wa as [L F]. explode a. inv_forall.
      repeat match goal with H : wfv U64x2 ?l |- _ => destruct H as [?L _]; cbn [vt_n] in *; explode l end. reflexivity.
    - intros a Wa. destruct (u64x4_shuffle_wide a Wa) as (_ & _ & W). split; [exact W|].
      destruct (u64x4_to_from_lanes _ W) as [_ ->]. destruct (u64x4_to_from_lanes _ Wa) as [_ ->].
      destruct (u64x4_shuffle_is_perm a Wa) as (_ & _ & ->).
      symmetry. apply per_lane4_len4. destruct Wa as [L F]. explode a. inv_forall.
      repeat match goal with H : wfv U64x2 ?l |- _ => destruct H as [?L _]; cbn [vt_n] in *; explode l end. reflexivity.
  Qed.

  (** * u128x1_generic, u128x2_generic = x2<u128x1_generic, G0> (JH) *)
  Definition grep1 (v : list N) : N := nth 0 v 0.
  Definition grep2 (v : list (list N)) : N * N := (grep1 (nth 0 v []), grep1 (nth 1 v [])).

  Definition g_jops : jops :=
    JOps (list N) (list (list N)) (wfv U128x1) (wide U128x1 2) grep1 grep2
         (fun x => gunwrap [] (unpack128 p U128x1 (img U128x1 [x])))
         (fun c => gunwrap [] (x2_unpack [] (unpack128 p U128x1)
                                 (split128 (new128 [img U128x1 [fst c]; img U128x1 [snd c]]))))
         (fun a b => xn_from_lanes [a; b])
         (fun v i => gunwrap [] (xn_extract v (if i then 1 else 0)))
         (fun a b => gunwrap [] (g_binop p U128x1 OXor a b))
         (fun a b => gunwrap [] (x2_binop [] (g_binop p U128x1 OXor) a b))
         (fun a b => gunwrap [] (x2_binop [] (g_binop p U128x1 OAnd) a b))
         (fun a b => gunwrap [] (x2_binop [] (g_binop p U128x1 OOr) a b))
         (fun a b => gunwrap [] (x2_binop [] (g_binop p U128x1 OAndnot) a b))
         (fun a => gunwrap [] (x2_unop [] (g_wunop p U128x1 WNot) a))
         (fun k a => gunwrap [] (g_swap p U128x1 (2 ^ N.of_nat k) a)).

  Lemma wfv1 x : x < 2 ^ 128 -> wfv U128x1 [x].
  Proof. intros H. split; [reflexivity | cbn [vt_w]; fall]. Qed.
  Lemma wfv1_inv v : wfv U128x1 v -> exists x, v = [x] /\ x < 2 ^ 128.
  Proof. intros [L F]. cbn [vt_n vt_w] in *. explode v. inv_forall. eexists. split; [reflexivity | assumption]. Qed.

  (** binary word operation on one u128x1, projected *)
  Lemma e1_bin o x y : x < 2 ^ 128 -> y < 2 ^ 128 ->
    g_binop p U128x1 o [x] [y] = Ok [word_bin 128 o x y].
  Proof.
    intros Hx Hy. rewrite (g_binop_lanewise p U128x1 o [x] [y] (wfv1 x Hx) (wfv1 y Hy)).
    rewrite spec_bin_map2. reflexivity.
  Qed.
  Lemma word_bin_lt o x y : o <> OAdd -> x < 2 ^ 128 -> y < 2 ^ 128 -> word_bin 128 o x y < 2 ^ 128.
  Proof.
    intros Ho Hx Hy. destruct o; cbn [word_bin]; try congruence.
    - now apply lxor_lt.
    - apply Proofs.IntrinsicsLemmas.land_lt; assumption.
    - apply Proofs.IntrinsicsLemmas.lor_lt; assumption.
    - apply Proofs.IntrinsicsLemmas.land_lt_r; assumption.
  Qed.

  Lemma j2g_bin o : o <> OAdd ->
    forall a b x y, wide U128x1 2 a /\ grep2 a = x -> wide U128x1 2 b /\ grep2 b = y ->
      wide U128x1 2 (gunwrap [] (x2_binop [] (g_binop p U128x1 o) a b)) /\
      grep2 (gunwrap [] (x2_binop [] (g_binop p U128x1 o) a b)) = p2 (word_bin 128 o) x y.
  Proof.
    intros Ho a b x y [[La Fa] <-] [[Lb Fb] <-]. explode a. explode b. inv_forall.
    repeat match goal with H : wfv U128x1 _ |- _ => apply wfv1_inv in H; destruct H as (? & -> & ?) end.
    unfold x2_binop. cbn [nth]. rewrite !e1_bin by assumption. cbn [obind gunwrap].
    unfold grep2, grep1, p2. cbn [nth fst snd].
    split; [|reflexivity].
    split; [reflexivity|]. repeat (apply Forall_cons; [apply wfv1, word_bin_lt; assumption|]). apply Forall_nil.
  Qed.

  Lemma pow2_swaps k : (k < 7)%nat -> In (2 ^ N.of_nat k) [1; 2; 4; 8; 16; 32; 64].
  Proof.
    intros Hk. do 7 (destruct k as [|k]; [vm_compute; repeat (first [left; reflexivity | right]) |]). lia.
  Qed.

  Lemma lane1 x : x < 2 ^ 128 -> lane U128x1 [x] = x.
  Proof.
    intros Hx. unfold lane, img. cbn [vt_k]. rewrite bytes_le16_single. apply le_join_split. exact Hx.
  Qed.

  Lemma g_jops_refines : jops_refines g_jops.
  Proof.
    constructor; unfold jrel1, jrel2;
      cbn [g_jops j_wf1 j_wf2 j_rep1 j_rep2 j_load j_const j_zip j_ext j_xor1 j_xor2 j_and2 j_or2
           j_andnot2 j_not2 j_swap].
    - intros x Hx. destruct (storage128_views p U128x1 U128x1 [x] (wfv1 x Hx)) as (_ & _ & E).
      rewrite E. cbn [gunwrap]. split; [apply wfv1, Hx | reflexivity].
    - intros [x y] Hx Hy. cbn [fst snd] in *.
      assert (W : wide U128x1 2 [[x]; [y]]) by (split; [reflexivity | repeat (apply Forall_cons; [now apply wfv1|]); apply Forall_nil]).
      destruct (wide_storage_roundtrip p U128x1 2 _ (or_introl eq_refl) W) as [_ E].
      cbn [Nat.eqb map] in E. rewrite E. cbn [gunwrap]. split; [exact W | reflexivity].
    - intros a b x y [Wa <-] [Wb <-]. unfold xn_from_lanes.
      split; [split; [reflexivity | fall] | reflexivity].
    - intros a x i [[La Fa] <-]. explode a. inv_forall.
      destruct i; (split; [assumption | reflexivity]).
    - intros a b x y [Wa <-] [Wb <-].
      apply wfv1_inv in Wa. destruct Wa as (xa & -> & Hxa). apply wfv1_inv in Wb. destruct Wb as (xb & -> & Hxb).
      rewrite e1_bin by assumption. cbn [gunwrap word_bin]. unfold grep1. cbn [nth].
      split; [apply wfv1; now apply lxor_lt | reflexivity].
    - apply (j2g_bin OXor); discriminate.
    - apply (j2g_bin OAnd); discriminate.
    - apply (j2g_bin OOr); discriminate.
    - apply (j2g_bin OAndnot); discriminate.
    - intros a x [[La Fa] <-]. explode a. inv_forall.
      repeat match goal with H : wfv U128x1 _ |- _ => apply wfv1_inv in H; destruct H as (? & -> & ?) end.
      unfold x2_unop. cbn [nth].
      rewrite !(g_wunop_lanewise p U128x1 WNot) by (try exact I; now apply wfv1).
      cbn [obind gunwrap spec_un v_not map]. unfold grep2, grep1, l_not. cbn [nth fst snd].
      split; [|reflexivity].
      split; [reflexivity|]. repeat (apply Forall_cons; [apply wfv1, notw_lt'|]). apply Forall_nil.
    - intros k a x Hk [Wa <-]. pose proof (pow2_swaps k Hk) as Hn.
      destruct (g_swap_groups p U128x1 _ a Hn Wa) as (r & E & Wr & Hb).
      rewrite E. cbn [gunwrap]. split; [exact Wr|].
      apply wfv1_inv in Wa. destruct Wa as (xa & -> & Hxa). apply wfv1_inv in Wr. destruct Wr as (xr & -> & Hxr).
      rewrite !lane1 in Hb by assumption. unfold grep1, l_swap. cbn [nth].
      apply Proofs.PpvSseSwap.eq_by_bits128; [exact Hxr | now apply Proofs.PpvSseSwap.swapw_lt |].
      intros j Hj. rewrite (Hb j Hj). rewrite Proofs.PpvSseSwap.swapw_bits by assumption.
      destruct (N.ltb_spec j 128); [reflexivity | lia].
  Qed.

  (** * the machine *)
  Definition generic_m : machine := Machine g_u32x4_vops g_u32x4x4_vops g_u64x4_vops g_jops.

  Theorem generic_m_refines : machine_refines generic_m.
  Proof.
    unfold machine_refines, generic_m. cbn [m_u32x4 m_u32x4x4 m_u64x4 m_u128].
    split; [apply g_u32x4_refines | split; [apply g_u32x4x4_refines | split;
      [apply g_u64x4_refines | apply g_jops_refines]]].
  Qed.
End Generic.

(** the operations are the outcome-typed model calls: on well-formed operands the call returns
    and the field is the returned value (no filler), e.g. for the wide add and the 64-bit rotate *)
Lemma generic_m_fields_return : forall p,
  (forall a b, v_wf (m_u32x4x4 (generic_m p)) a -> v_wf (m_u32x4x4 (generic_m p)) b ->
     x4_binop [] (g_binop p U32x4 OAdd) a b = Ok (o_add (m_u32x4x4 (generic_m p)) a b)) /\
  (forall k a, In k ks64 -> v_wf (m_u64x4 (generic_m p)) a ->
     x2_unop [] (g_wunop p U64x2 (WRotr k)) a = Ok (o_rotr (m_u64x4 (generic_m p)) k a)).
Proof.
  intros p. split.
  - intros a b [La Fa] [Lb Fb]. cbn [generic_m m_u32x4x4 g_u32x4x4_vops prod_vops o_add].
    eapply ok_gunwrap. apply (x4_binop_forwards [] (wfv U32x4) _ (e_add p U32x4));
      [intros x y Wx Wy; apply (e_add_ok p U32x4 x y Wx Wy) | assumption ..].
  - intros k a Hk [La Fa]. cbn [generic_m m_u64x4 g_u64x4_vops o_rotr].
    eapply ok_gunwrap. apply (x2_unop_forwards [] (wfv U64x2) _ (e_rotr p U64x2 k));
      [intros x Wx; apply (e_rotr_ok p U64x2 k x (ks64_rot k Hk) Wx) | assumption ..].
Qed.

Example generic_m_is_concrete :
  v_vec (m_u32x4x4 (generic_m Debug)) [0; 1; 2; 3; 4; 5; 6; 7; 8; 9; 10; 11; 12; 13; 14; 15]
    = [[0; 1; 2; 3]; [4; 5; 6; 7]; [8; 9; 10; 11]; [12; 13; 14; 15]] /\
  o_add (m_u64x4 (generic_m Release)) [[1; 2]; [3; 4]] [[10; 20]; [30; 2 ^ 64 - 1]] = [[11; 22]; [33; 3]].
Proof. vm_compute. split; reflexivity. Qed.
