(** Lemmas about the back-end selection model (C03). *)
From Coq Require Import NArith List Bool Lia.
From CC Require Import Model.Dispatch.
Import ListNotations.
Local Open Scope N_scope.

Ltac split_ifs :=
  repeat match goal with
         | |- context [if ?b then _ else _] => destruct b eqn:?
         end.
Ltac split_matches :=
  repeat match goal with
         | |- context [match ?x with _ => _ end] => destruct x eqn:?
         end.

(** SSE2 is architectural on x86-64: [is_x86_feature_detected!("sse2")] is true. Then every
    selection runs a back end; the [unimplemented!()] arms are dead. *)
Lemma dispatch_total : forall m no_simd std cpu tf,
  f_sse2 cpu = true -> exists b, dispatch m no_simd std cpu tf = Run b.
Proof.
  intros m no_simd std cpu tf H. unfold dispatch, std_arm, dispatch_detect, light_detect, nostd_arm.
  rewrite H. destruct m; split_ifs; eauto.
Qed.

Lemma dispatch_hooked_total : forall m no_simd std level cpu tf,
  f_sse2 cpu = true -> exists b, dispatch_hooked m no_simd std level cpu tf = Run b.
Proof.
  intros m no_simd std level cpu tf H.
  unfold dispatch_hooked, hook_std_arm, hook_dispatch, hook_light, dispatch_detect, light_detect, nostd_arm.
  rewrite H.
  destruct m; split_matches; eauto.
Qed.

(** the selected back end executes only instructions the CPU has: run-time detection on a real
    (monotone) CPU; compile-time selection when the promised target features are monotone and
    the program runs on a CPU that has them *)
Lemma dispatch_supported : forall m no_simd std cpu tf b,
  monotone cpu = true -> monotone tf = true -> subset tf cpu = true ->
  dispatch m no_simd std cpu tf = Run b -> needs b cpu = true.
Proof.
  intros m no_simd std [c1 c2 c3 c4 c5] [t1 t2 t3 t4 t5] b.
  unfold dispatch, arch_is_x86, std_arm, dispatch_detect, light_detect, nostd_arm, monotone, subset; cbn.
  destruct m, no_simd, std, c1, c2, c3, c4, c5; cbn; try discriminate;
    destruct t1, t2, t3, t4, t5; cbn; intros; try discriminate;
    match goal with H : Run _ = Run _ |- _ => injection H as <- end; reflexivity.
Qed.

(** hook H1 with level [l] behaves exactly like the unmodified std arm on a CPU that lacks the
    features above [l]; level 0 (and any value above 5) changes nothing *)
Lemma hook_is_cap : forall m l cpu,
  monotone cpu = true -> 1 <= l <= 5 ->
  hook_std_arm m l cpu = std_arm m (cap l cpu).
Proof.
  intros m l [c1 c2 c3 c4 c5] Hm [Hl Hu].
  assert (l = 1 \/ l = 2 \/ l = 3 \/ l = 4 \/ l = 5) as Hc.
  { clear - Hl Hu. lia. }
  revert Hm. unfold monotone; cbn.
  destruct Hc as [->|[->|[->|[->| ->]]]];
    destruct m, c1, c2, c3, c4, c5; cbn; intros; try discriminate; reflexivity.
Qed.

Lemma hook_level0 : forall m cpu, hook_std_arm m 0 cpu = std_arm m cpu.
Proof. intros [] cpu; reflexivity. Qed.

Lemma dispatch_hooked_level0 : forall m no_simd std cpu tf,
  dispatch_hooked m no_simd std 0 cpu tf = dispatch m no_simd std cpu tf.
Proof. intros. unfold dispatch_hooked, dispatch. now rewrite hook_level0. Qed.

Lemma dispatch_hooked_is_cap : forall m no_simd std l cpu tf,
  monotone cpu = true -> 1 <= l <= 5 ->
  dispatch_hooked m no_simd std l cpu tf = dispatch m no_simd std (cap l cpu) tf.
Proof. intros. unfold dispatch_hooked, dispatch. now rewrite hook_is_cap. Qed.

(** every back end name is selected by some configuration (non-vacuity of the case analysis);
    [upto 5] is this host *)
Lemma every_backend_reachable :
  dispatch MDispatch true true (upto 5) (upto 1) = Run Generic /\
  dispatch MDispatch false true (upto 1) (upto 1) = Run SSE2 /\
  dispatch MDispatch false true (upto 2) (upto 1) = Run SSSE3 /\
  dispatch MDispatch false true (upto 3) (upto 1) = Run SSE41 /\
  dispatch MDispatch false true (upto 4) (upto 1) = Run AVX /\
  dispatch MDispatch false true (upto 5) (upto 1) = Run AVX2 /\
  dispatch MLight128 false true (upto 5) (upto 1) = Run AVX /\
  dispatch MLight256 false true (upto 3) (upto 1) = Run SSE2 /\
  dispatch MLight128 false false (upto 5) (upto 2) = Run SSSE3 /\
  dispatch MLight256 false false (upto 5) (upto 5) = Run AVX2 /\
  dispatch MDispatch false false (upto 5) (upto 0) = Run Generic.
Proof. repeat split. Qed.

(** the hypothesis of [dispatch_total] is needed: the model does contain the panic arm *)
Lemma unimplemented_arm_exists :
  dispatch MDispatch false true (upto 0) (upto 1) = Unimplemented /\
  dispatch MLight128 false true (upto 0) (upto 1) = Unimplemented.
Proof. split; reflexivity. Qed.

(** * Irrelevance of the selection for any family of instantiations that all compute the same
      function on the domain [dom] (this is what [machine_refines] provides, see
      Proofs/Machine*.v) *)
Section Irrelevant.
  Context {X Y : Type}.
  Variable algo : backend -> X -> Y.     (* the generic body instantiated per back end *)
  Variable ref : X -> Y.                 (* the lane-wise meaning *)
  Variable dom : X -> Prop.              (* well-formed inputs *)
  Hypothesis all_same : forall b x, dom x -> algo b x = ref x.

  (** the function the macro defines: [None] = the [unimplemented!()] panic *)
  Definition dispatched (m : macro) (no_simd std : bool) (cpu tf : features) (x : X) : option Y :=
    match dispatch m no_simd std cpu tf with
    | Run b => Some (algo b x)
    | Unimplemented => None
    end.

  Lemma dispatched_eq_ref : forall m no_simd std cpu tf x,
    f_sse2 cpu = true -> dom x -> dispatched m no_simd std cpu tf x = Some (ref x).
  Proof.
    intros m no_simd std cpu tf x H Hx. unfold dispatched.
    destruct (dispatch_total m no_simd std cpu tf H) as [b ->]. now rewrite all_same.
  Qed.

  (** two arbitrary configurations: same value, and neither panics *)
  Lemma dispatched_config_indep : forall m1 n1 s1 cpu1 tf1 m2 n2 s2 cpu2 tf2 x,
    f_sse2 cpu1 = true -> f_sse2 cpu2 = true -> dom x ->
    dispatched m1 n1 s1 cpu1 tf1 x = dispatched m2 n2 s2 cpu2 tf2 x /\
    dispatched m1 n1 s1 cpu1 tf1 x <> None.
  Proof.
    intros. rewrite !dispatched_eq_ref by assumption. split; [reflexivity | discriminate].
  Qed.
End Irrelevant.
