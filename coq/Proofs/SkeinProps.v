(** The C05 / C17 (Skein) theorems in the explicit form pinned in
    [Props/C05.v] and [Props/C17_skein.v] (no auxiliary definitions of the proof
    files in the statements), and the computed examples beside them. *)
From Coq Require Import NArith List Lia Arith Bool.
From CC Require Import Lib.Words Lib.Bytes Lib.ListX.
From CC Require Import Model.Threefish Model.BlockBuffer Model.Skein.
From CC Require Import Proofs.BlockBufferLazy Proofs.SkeinBlock Proofs.SkeinSchedule Proofs.SkeinDigest.
From CC Require Import Proofs.SkeinOverflow.
From CC Require Spec.Threefish Spec.Skein Spec.KAT_Skein.
Import ListNotations.
Local Open Scope N_scope.

(** the three instantiations of [define_hasher!] with their parameter sets *)
Definition std_pair (v : variant) (p : SS.sparams) : Prop :=
  (v = skein256 /\ p = SS.skein256p) \/ (v = skein512 /\ p = SS.skein512p)
  \/ (v = skein1024 /\ p = SS.skein1024p).

Lemma std_pair_sp v p : std_pair v p -> std_variant v /\ p = sp v.
Proof.
  intros [[-> ->] | [[-> ->] | [-> ->]]]; (split; [|reflexivity]); unfold std_variant; auto.
Qed.

Theorem ubi_block_eq_spec_explicit :
  forall prof nu v p,
    (v = skein256 /\ p = SS.skein256p) \/ (v = skein512 /\ p = SS.skein512p)
    \/ (v = skein1024 /\ p = SS.skein1024p) ->
  forall s block add ty (first final : bool),
    ty = SS.T_CFG \/ ty = SS.T_MSG \/ ty = SS.T_OUT ->
    st_t1 s = N.shiftl ty 56 + (if first then N.shiftl 1 62 else 0) + (if final then N.shiftl 1 63 else 0) ->
    length block = v_bytes v -> Forall is_byte block ->
    (st_t0 s + add < 2 ^ 64 ->
     process_block prof nu v s block add =
     Ok (St (st_t0 s + add)
            (N.shiftl ty 56 + 0 + (if final then N.shiftl 1 63 else 0))
            (SS.ubi_block p (st_x s) (SS.tweak (st_t0 s + add) ty first final) block)))
    /\ (2 ^ 64 <= st_t0 s + add ->
        process_block Debug nu v s block add = Panic
        /\ process_block Release nu v s block add =
           Ok (St ((st_t0 s + add) mod 2 ^ 64)
                  (N.shiftl ty 56 + 0 + (if final then N.shiftl 1 63 else 0))
                  (SS.ubi_block p (st_x s) (SS.tweak ((st_t0 s + add) mod 2 ^ 64) ty first final) block))).
Proof.
  intros prof nu v p Hp s block add ty first final Hty Ht1 Hl Hb.
  destruct (std_pair_sp v p Hp) as [Hv ->].
  split; [intros Hlt|intros Hge; split].
  - exact (process_block_eq_spec prof nu v s block add ty first final Hv Hty Ht1 Hlt Hl Hb).
  - exact (process_block_overflow Debug nu v s block add ty first final Hv Hty Ht1 Hge Hl Hb).
  - exact (process_block_overflow Release nu v s block add ty first final Hv Hty Ht1 Hge Hl Hb).
Qed.

Theorem skein_lazy_schedule_explicit :
  forall prof nu v p,
    (v = skein256 /\ p = SS.skein256p) \/ (v = skein512 /\ p = SS.skein512p)
    \/ (v = skein1024 /\ p = SS.skein1024p) ->
  forall (x : list N) (off : N) (first : bool) (b : bb) (pieces : list (list N)),
    bb_wf b -> bb_size b = v_bytes v ->
    Forall is_byte (bb_content b) -> Forall (Forall is_byte) pieces ->
    let nb := v_bytes v in
    let all := bb_content b ++ concat pieces in
    let len := length all in
    let n := ((len - 1) / nb)%nat in
    off + N.of_nat len < 2 ^ 64 ->
    let step := fun (h : list N) (i : nat) =>
      SS.ubi_block p h (SS.tweak (off + N.of_nat ((i + 1) * nb)) SS.T_MSG ((i =? 0)%nat && first) false)
                   (firstn nb (skipn (i * nb) all)) in
    let last :=
      SS.ubi_block p (fold_left step (seq 0 n) x)
                   (SS.tweak (off + N.of_nat len) SS.T_MSG ((n =? 0)%nat && first) true)
                   (skipn (n * nb) all ++ repeat 0 (nb - (len - n * nb))) in
    exists buf,
      bind (updates prof nu v
              (Hs (St off (N.shiftl SS.T_MSG 56 + (if first then N.shiftl 1 62 else 0) + 0) x) b) pieces)
           (finalize_message prof nu v)
      = Ok (St (off + N.of_nat len) (N.shiftl SS.T_MSG 56 + 0 + N.shiftl 1 63) last, buf)
      /\ last = SS.ubi_from p x SS.T_MSG off first all.
Proof.
  intros prof nu v p Hp x off first b pieces Hwf Hsz Hbc Hbp nb all len n Hlt step last.
  destruct (std_pair_sp v p Hp) as [Hv ->].
  destruct (msg_stage_eq_ubi prof nu v Hv (St off (t1w SS.T_MSG first false) x) b first pieces
              Hwf Hsz eq_refl Hbc Hbp Hlt) as [buf E].
  assert (Hnb : SS.nb (sp v) = nb) by apply (vf_nb v (std_variant_facts v Hv)).
  assert (Hge := vf_ge v (std_variant_facts v Hv)).
  assert (Hpos : (0 < SS.nb (sp v))%nat) by (rewrite Hnb; unfold nb; lia).
  assert (EL : last = SS.ubi_from (sp v) x SS.T_MSG off first all).
  { rewrite ubi_from_schedule by exact Hpos. clear E Hpos Hnb Hge Hlt.
    unfold last, step, n, len, nb, last_step, full_step, lazy_count.
    destruct Hv as [-> | [-> | ->]]; reflexivity. }
  exists buf. split; [|exact EL].
  rewrite EL. exact E.
Qed.

Theorem skein_eq_spec_explicit :
  forall prof nu v p,
    (v = skein256 /\ p = SS.skein256p) \/ (v = skein512 /\ p = SS.skein512p)
    \/ (v = skein1024 /\ p = SS.skein1024p) ->
  forall (pieces : list (list N)) (n : nat),
    Forall (Forall is_byte) pieces ->
    (1 <= n)%nat -> 8 * N.of_nat n < 2 ^ 64 ->
    N.of_nat (length (concat pieces)) < 2 ^ 64 ->
    digest_pieces prof nu v n pieces = Ok (SS.skein p n (concat pieces)).
Proof.
  intros prof nu v p Hp pieces n Hb _ Hn Hl. destruct (std_pair_sp v p Hp) as [Hv ->].
  now apply digest_pieces_eq_spec.
Qed.

Theorem skein_digest_eq_spec_explicit :
  forall prof nu v p,
    (v = skein256 /\ p = SS.skein256p) \/ (v = skein512 /\ p = SS.skein512p)
    \/ (v = skein1024 /\ p = SS.skein1024p) ->
  forall (msg : list N) (n : nat),
    Forall is_byte msg ->
    (1 <= n)%nat -> 8 * N.of_nat n < 2 ^ 64 ->
    N.of_nat (length msg) < 2 ^ 64 ->
    digest prof nu v n msg = Ok (SS.skein p n msg).
Proof.
  intros prof nu v p Hp msg n Hb _ Hn Hl. destruct (std_pair_sp v p Hp) as [Hv ->].
  now apply digest_eq_spec.
Qed.

Theorem skein_default_eq_iv_explicit :
  forall prof nu v p,
    (v = skein256 /\ p = SS.skein256p) \/ (v = skein512 /\ p = SS.skein512p)
    \/ (v = skein1024 /\ p = SS.skein1024p) ->
  forall n_out : N,
    (n_out * 8 < 2 ^ 64 ->
     default prof nu v n_out =
     Ok (Hs (St 0 (N.shiftl SS.T_MSG 56 + N.shiftl 1 62 + 0) (SS.iv p (8 * n_out))) (bb_new (v_bytes v))))
    /\ (2 ^ 64 <= n_out * 8 -> default Debug nu v n_out = Panic).
Proof.
  intros prof nu v p Hp n_out. destruct (std_pair_sp v p Hp) as [Hv ->]. split.
  - intros H. now apply default_eq_iv.
  - intros H. unfold default, mul_u64, two64. change 0x10000000000000000 with (2 ^ 64).
    destruct (N.leb_spec (2 ^ 64) (n_out * 8)); [reflexivity|lia].
Qed.

Theorem skein_output_eq_spec_explicit :
  forall prof nu v p,
    (v = skein256 /\ p = SS.skein256p) \/ (v = skein512 /\ p = SS.skein512p)
    \/ (v = skein1024 /\ p = SS.skein1024p) ->
  forall (x : list N) (n_out : nat),
    let size := N.to_nat (v_bits v / 8) in
    output_loop prof nu v x size n_out (seq 0 ((n_out + size - 1) / size)) = Ok (SS.output p x n_out).
Proof.
  intros prof nu v p Hp x n_out. destruct (std_pair_sp v p Hp) as [Hv ->].
  now apply output_eq_spec.
Qed.

(** C17 *)
Theorem skein_pos_exact_explicit :
  forall prof nu v p,
    (v = skein256 /\ p = SS.skein256p) \/ (v = skein512 /\ p = SS.skein512p)
    \/ (v = skein1024 /\ p = SS.skein1024p) ->
  forall (x : list N) (off : N) (first : bool) (b : bb) (pieces : list (list N)),
    bb_wf b -> bb_size b = v_bytes v ->
    Forall is_byte (bb_content b) -> Forall (Forall is_byte) pieces ->
    let nb := v_bytes v in
    let total := (length (bb_content b) + length (concat pieces))%nat in
    let blocks := ((total - 1) / nb)%nat in
    off + N.of_nat total < 2 ^ 64 ->
    exists h' s'' buf,
      updates prof nu v
        (Hs (St off (N.shiftl SS.T_MSG 56 + (if first then N.shiftl 1 62 else 0) + 0) x) b) pieces = Ok h'
      /\ st_t0 (h_state h') = off + N.of_nat (blocks * nb)
      /\ bb_pos (h_buffer h') = (total - blocks * nb)%nat
      /\ st_t0 (h_state h') + N.of_nat (bb_pos (h_buffer h')) = off + N.of_nat total
      /\ finalize_message prof nu v h' = Ok (s'', buf)
      /\ st_t0 s'' = off + N.of_nat total /\ st_t0 s'' < 2 ^ 64.
Proof.
  intros prof nu v p Hp x off first b pieces Hwf Hsz Hbc Hbp nb total blocks Hlt.
  destruct (std_pair_sp v p Hp) as [Hv ->].
  assert (Et : total = length (bb_content b ++ concat pieces)) by (unfold total; now rewrite app_length).
  pose proof (skein_pos_exact prof nu v Hv (St off (t1w SS.T_MSG first false) x) b first pieces
                Hwf Hsz eq_refl Hbc Hbp) as H.
  cbv zeta in H. rewrite <- Et in H. cbn [st_t0] in H. exact (H Hlt).
Qed.

Theorem skein_from_state_eq_spec_explicit :
  forall prof nu v p,
    (v = skein256 /\ p = SS.skein256p) \/ (v = skein512 /\ p = SS.skein512p)
    \/ (v = skein1024 /\ p = SS.skein1024p) ->
  forall (x : list N) (off : N) (first : bool) (b : bb) (pieces : list (list N)) (n_out : nat),
    bb_wf b -> bb_size b = v_bytes v ->
    Forall is_byte (bb_content b) -> Forall (Forall is_byte) pieces ->
    let all := bb_content b ++ concat pieces in
    off + N.of_nat (length all) < 2 ^ 64 ->
    finish_pieces prof nu v
      (Hs (St off (N.shiftl SS.T_MSG 56 + (if first then N.shiftl 1 62 else 0) + 0) x) b) n_out pieces
    = Ok (SS.output p (SS.ubi_from p x SS.T_MSG off first all) n_out).
Proof.
  intros prof nu v p Hp x off first b pieces n_out Hwf Hsz Hbc Hbp all Hlt.
  destruct (std_pair_sp v p Hp) as [Hv ->].
  exact (finish_pieces_eq_spec prof nu v Hv (St off (t1w SS.T_MSG first false) x) b first pieces n_out
           Hwf Hsz eq_refl Hbc Hbp Hlt).
Qed.

Theorem skein_beyond_2_64_explicit :
  forall nu v,
    v = skein256 \/ v = skein512 \/ v = skein1024 ->
  forall (x : list N) (off : N) (first : bool) (b : bb) (pieces : list (list N)) (n_out : nat),
    bb_wf b -> bb_size b = v_bytes v ->
    Forall is_byte (bb_content b) -> Forall (Forall is_byte) pieces ->
    let total := (length (bb_content b) + length (concat pieces))%nat in
    let h := Hs (St off (N.shiftl SS.T_MSG 56 + (if first then N.shiftl 1 62 else 0) + 0) x) b in
    off < 2 ^ 64 ->
    2 ^ 64 <= off + N.of_nat total ->
    finish_pieces Debug nu v h n_out pieces = Panic
    /\ exists r, bind (updates Release nu v h pieces) (finalize_message Release nu v) = Ok r.
Proof.
  intros nu v Hv x off first b pieces n_out Hwf Hsz Hbc Hbp total h H0 Hge.
  assert (Et : total = length (bb_content b ++ concat pieces)) by (unfold total; now rewrite app_length).
  split.
  - pose proof (msg_stage_debug_panics nu v Hv (St off (t1w SS.T_MSG first false) x) b first pieces
                  Hwf Hsz eq_refl Hbc Hbp) as P.
    cbv zeta in P. rewrite <- Et in P. cbn [st_t0] in P. specialize (P H0 Hge).
    assert (P' : bind (updates Debug nu v h pieces) (finalize_message Debug nu v) = Panic) by exact P.
    clear P. unfold finish_pieces, finalize_into_dirty.
    destruct (updates Debug nu v h pieces) as [h'|]; cbn [bind] in P' |- *; [|reflexivity].
    rewrite P'. reflexivity.
  - exact (msg_stage_release_total nu v h pieces Hwf).
Qed.

(** * computed examples (non-vacuity, and the behaviour beyond the bounds) *)

(** the model, fed the 17-byte vector of the crate's test suite in three update calls
    (one of them empty), returns the published digest in every configuration *)
Example model_kat_256_32_len17 :
  forall prof nu,
    digest_pieces prof nu skein256 32
      [firstn 5 (Spec.KAT_Skein.msg 17 0xea5eabf090946c57c057c228bc965513a0); [];
       skipn 5 (Spec.KAT_Skein.msg 17 0xea5eabf090946c57c057c228bc965513a0)]
    = Ok (be_split 32 0x4608b31b249228fba55d31f7f2c86178be01e37437d1e6bce18427a22b19f2cb).
Proof. intros [|] [|]; vm_compute; reflexivity. Qed.

(** the hypotheses of the digest theorem are satisfiable, e.g. by a 70-byte message in three
    pieces with 33 bytes of output *)
Example eq_spec_hypotheses_satisfiable :
  let pieces := [repeat 1 31; []; repeat 2 39] in
  Forall (Forall is_byte) pieces /\ (1 <= 33)%nat /\ 8 * N.of_nat 33 < 2 ^ 64
  /\ N.of_nat (length (concat pieces)) < 2 ^ 64.
Proof.
  cbv zeta. split; [|split; [lia|split; reflexivity]].
  repeat constructor; apply Forall_forall; intros y Hy; apply repeat_spec in Hy; subst y;
    unfold is_byte; lia.
Qed.

(** an entered state whose buffered block and tail cross 2^32 bytes: hypotheses hold, and
    the computed model digest is the specified continuation *)
Definition ex_x : list N := le_split 32 0x0123456789abcdef0123456789abcdef0123456789abcdef0123456789abcdef.
Definition ex_buf (content : list N) : bb := fst (input_lazy (bb_new 32) content).

Example pos_exact_crossing_2_32 :
  let b := ex_buf (repeat 7 32) in
  let pieces := [repeat 9 20; repeat 10 13] in
  bb_wf b /\ bb_size b = 32%nat /\ Forall is_byte (bb_content b) /\ Forall (Forall is_byte) pieces
  /\ (2 ^ 32 - 32) + N.of_nat (length (bb_content b ++ concat pieces)) < 2 ^ 64
  /\ 2 ^ 32 < (2 ^ 32 - 32) + N.of_nat (length (bb_content b ++ concat pieces))
  /\ finish_pieces Debug false skein256
       (Hs (St (2 ^ 32 - 32) (N.shiftl SS.T_MSG 56 + 0 + 0) ex_x) b) 32 pieces
     = Ok (SS.output SS.skein256p
             (SS.ubi_from SS.skein256p ex_x SS.T_MSG (2 ^ 32 - 32) false (bb_content b ++ concat pieces)) 32).
Proof.
  cbv zeta.
  assert (Hb : forall c n, c < 256 -> Forall is_byte (repeat c n)).
  { intros c n Hc. apply Forall_forall; intros y Hy; apply repeat_spec in Hy; subst y. exact Hc. }
  split; [vm_compute; lia|]. split; [reflexivity|].
  split; [vm_compute; repeat constructor|].
  split; [repeat constructor; apply Hb; lia|].
  split; [vm_compute; reflexivity|]. split; [vm_compute; reflexivity|].
  vm_compute; reflexivity.
Qed.

(** beyond the bound: with 2^64 - 32 bytes processed and a full block pending, one more byte
    makes the position reach 2^64: the debug build panics, the release build wraps the position
    to 0 and the digest is not the Skein value (whose 96-bit position is 2^64 + 1 at the end) *)
Example overflow_at_2_64 :
  let b := ex_buf (repeat 7 32) in
  let h := Hs (St (2 ^ 64 - 32) (N.shiftl SS.T_MSG 56 + 0 + 0) ex_x) b in
  let spec := SS.output SS.skein256p
                (SS.ubi_from SS.skein256p ex_x SS.T_MSG (2 ^ 64 - 32) false (repeat 7 32 ++ [9])) 32 in
  finish_pieces Debug false skein256 h 32 [[9]] = Panic
  /\ (exists d, finish_pieces Release false skein256 h 32 [[9]] = Ok d /\ d <> spec)
  /\ (exists h', updates Release false skein256 h [[9]] = Ok h' /\ st_t0 (h_state h') = 0).
Proof.
  cbv zeta. split; [vm_compute; reflexivity|]. split.
  - eexists. split; [vm_compute; reflexivity|]. vm_compute. discriminate.
  - eexists. split; [vm_compute; reflexivity|]. reflexivity.
Qed.
