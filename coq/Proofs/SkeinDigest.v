(** Configuration block, output stage and the digest theorems of the Skein
    model: [Default] computes the IV of the specification, the output loop is
    counter-mode [Output], and the whole digest (any number of [update] calls)
    is the Skein 1.3 value.  Also the position statement used by C17. *)
From Coq Require Import NArith List Lia Arith Bool.
From CC Require Import Lib.Words Lib.Bytes Lib.ListX.
From CC Require Import Model.Threefish Model.BlockBuffer Model.Skein.
From CC Require Import Proofs.BlockBufferLazy Proofs.SkeinBlock Proofs.SkeinSchedule.
From CC Require Spec.Threefish Spec.Skein.
Import ListNotations.
Local Open Scope N_scope.

Lemma bind_assoc {A B C} (r : res A) (f : A -> res B) (g : B -> res C) :
  bind (bind r f) g = bind r (fun a => bind (f a) g).
Proof. destruct r; reflexivity. Qed.

Lemma firstn_min_length {A} k (l : list A) : firstn k l = firstn (Nat.min (length l) k) l.
Proof.
  destruct (Nat.le_ge_cases k (length l)) as [H|H].
  - now rewrite Nat.min_r.
  - rewrite Nat.min_l by exact H. rewrite !firstn_all2; auto.
Qed.

Lemma repeat_zero_bytes n : Forall is_byte (repeat 0 n).
Proof. apply Forall_forall. intros x Hx. apply repeat_spec in Hx. subst x. unfold is_byte. lia. Qed.

(** UBI of a message that fits one block *)
Lemma ubi_one_block p g ty m :
  (0 < SS.nb p)%nat -> (length m <= SS.nb p)%nat ->
  SS.ubi p g ty m =
  SS.ubi_block p g (SS.tweak (N.of_nat (length m)) ty true true) (m ++ repeat 0 (SS.nb p - length m)).
Proof.
  intros Hnb Hl. unfold SS.ubi. rewrite ubi_from_schedule by assumption.
  rewrite lazy_count_small by assumption. cbn [seq fold_left]. unfold last_step.
  cbn [mult skipn Nat.eqb andb]. rewrite Nat.sub_0_r, N.add_0_l. reflexivity.
Qed.

Section Digest.
  Variable prof : profile.
  Variable nu : bool.
  Variable v : variant.
  Hypothesis Hv : std_variant v.

  Let nb := v_bytes v.
  Let p := sp v.

  Lemma nb_eq : SS.nb p = nb.
  Proof. apply (vf_nb v (std_variant_facts v Hv)). Qed.
  Lemma nb_ge : (32 <= nb)%nat.
  Proof. apply (vf_ge v (std_variant_facts v Hv)). Qed.

  (** * configuration block *)
  Lemma cfg_block out_bits :
    copy_at (copy_at (copy_at (repeat 0 nb) 0 (le_split 8 SCHEMA_VER)) 8 (le_split 8 out_bits))
            16 (le_split 8 CFG_TREE_INFO_SEQUENTIAL)
    = SS.config_string out_bits ++ repeat 0 (nb - 32).
  Proof. unfold nb. destruct Hv as [-> | [-> | ->]]; reflexivity. Qed.

  Lemma config_string_length out_bits : length (SS.config_string out_bits) = 32%nat.
  Proof. reflexivity. Qed.

  Lemma config_string_bytes out_bits : Forall is_byte (SS.config_string out_bits).
  Proof.
    unfold SS.config_string. repeat (apply Forall_app; split);
      try apply le_split_bytes; try apply repeat_zero_bytes;
      repeat constructor; unfold is_byte; lia.
  Qed.

  Theorem default_eq_iv n_out :
    n_out * 8 < 2 ^ 64 ->
    default prof nu v n_out =
    Ok (Hs (St 0 (t1w SS.T_MSG true false) (SS.iv p (8 * n_out))) (bb_new nb)).
  Proof.
    intros Hlt. pose proof (std_variant_facts v Hv) as F.
    unfold default. rewrite mul_u64_ok by assumption. cbn [bind].
    fold nb. rewrite cfg_block. unfold state_new. rewrite t1_cfg.
    rewrite (process_block_eq_spec prof nu v _ _ CFG_STR_LEN SS.T_CFG true true);
      try assumption; try reflexivity; cbn [st_t0 st_t1 st_x].
    - cbn [bind]. rewrite t1_msg. f_equal. f_equal. f_equal.
      unfold SS.iv. rewrite ubi_one_block.
      + rewrite config_string_length. rewrite nb_eq.
        rewrite (N.mul_comm 8 n_out). reflexivity.
      + rewrite nb_eq. pose proof nb_ge. lia.
      + rewrite config_string_length, nb_eq. apply nb_ge.
    - left; reflexivity.
    - rewrite app_length, config_string_length, repeat_length. pose proof nb_ge. fold nb. lia.
    - apply Forall_app. split; [apply config_string_bytes|apply repeat_zero_bytes].
  Qed.

  (** * output stage *)
  Definition out_block (x : list N) (i : nat) : list N := SS.ubi p x SS.T_OUT (le_split 8 (N.of_nat i)).

  Lemma ctr_block i :
    copy_at (repeat 0 nb) 0 (le_split 8 (N.of_nat i)) = le_split 8 (N.of_nat i) ++ repeat 0 (nb - 8).
  Proof. unfold nb. destruct Hv as [-> | [-> | ->]]; reflexivity. Qed.

  Lemma out_block_length x i : length (out_block x i) = nb.
  Proof.
    pose proof (std_variant_facts v Hv) as F. unfold out_block.
    rewrite ubi_one_block; rewrite ?le_split_length, ?nb_eq; try (pose proof nb_ge; lia).
    apply ubi_block_length; [exact Hv|].
    rewrite app_length, le_split_length, repeat_length. pose proof nb_ge. fold nb. lia.
  Qed.

  Lemma output_chunk_eq x i n :
    output_chunk prof nu v x i n = Ok (firstn n (out_block x i)).
  Proof.
    pose proof (std_variant_facts v Hv) as F. unfold output_chunk, state_new.
    fold nb. rewrite ctr_block, t1_out.
    rewrite (process_block_eq_spec prof nu v _ _ 8 SS.T_OUT true true);
      try assumption; try reflexivity; cbn [st_t0 st_t1 st_x].
    - cbn [bind]. f_equal. f_equal. unfold out_block.
      rewrite ubi_one_block; rewrite ?le_split_length, ?nb_eq; try (pose proof nb_ge; lia).
      reflexivity.
    - right; right; reflexivity.
    - rewrite app_length, le_split_length, repeat_length. pose proof nb_ge. fold nb. lia.
    - apply Forall_app. split; [apply le_split_bytes|apply repeat_zero_bytes].
  Qed.

  Lemma output_loop_eq x n_out m : forall a,
    output_loop prof nu v x nb n_out (seq a m) =
    Ok (firstn (n_out - a * nb) (flat_map (out_block x) (seq a m))).
  Proof.
    induction m as [|m IH]; intros a; cbn [seq output_loop flat_map].
    - now rewrite firstn_nil.
    - rewrite output_chunk_eq, IH. cbn [bind]. f_equal.
      rewrite firstn_app, out_block_length.
      rewrite (firstn_min_length (n_out - a * nb)), out_block_length.
      f_equal. f_equal. cbn [mult]. lia.
  Qed.

  Theorem output_eq_spec x n_out :
    output_loop prof nu v x (N.to_nat (v_bits v / 8)) n_out
                (seq 0 ((n_out + N.to_nat (v_bits v / 8) - 1) / N.to_nat (v_bits v / 8)))
    = Ok (SS.output p x n_out).
  Proof.
    pose proof (std_variant_facts v Hv) as F.
    rewrite (vf_bits v F), Nat2N.id. fold nb. rewrite output_loop_eq.
    cbn [mult]. rewrite Nat.sub_0_r. unfold SS.output. rewrite nb_eq. reflexivity.
  Qed.

  (** * digest from an entered state (hook / C17) and from [Default] *)
  Theorem finish_pieces_eq_spec s b first pieces n_out :
    bb_wf b -> bb_size b = nb ->
    st_t1 s = t1w SS.T_MSG first false ->
    Forall is_byte (bb_content b) -> Forall (Forall is_byte) pieces ->
    let all := bb_content b ++ concat pieces in
    st_t0 s + N.of_nat (length all) < 2 ^ 64 ->
    finish_pieces prof nu v (Hs s b) n_out pieces =
    Ok (SS.output p (SS.ubi_from p (st_x s) SS.T_MSG (st_t0 s) first all) n_out).
  Proof.
    intros Hwf Hsz Ht1 Hbc Hbp all Hlt.
    destruct (msg_stage_eq_ubi prof nu v Hv s b first pieces Hwf Hsz Ht1 Hbc Hbp Hlt) as [buf E].
    unfold finish_pieces, finalize_into_dirty. unfold msg_stage in E.
    destruct (updates prof nu v (Hs s b) pieces) as [h'|]; cbn [bind] in E |- *; [|discriminate E].
    rewrite E. cbn [bind fst snd st_x].
    rewrite output_eq_spec. reflexivity.
  Qed.

  (** C05: [Default], any number of [update] calls, [finalize] *)
  Theorem digest_pieces_eq_spec pieces n_out :
    Forall (Forall is_byte) pieces ->
    8 * N.of_nat n_out < 2 ^ 64 ->
    N.of_nat (length (concat pieces)) < 2 ^ 64 ->
    digest_pieces prof nu v n_out pieces = Ok (SS.skein p n_out (concat pieces)).
  Proof.
    intros Hbp Hn Hlen. unfold digest_pieces.
    rewrite default_eq_iv by lia. cbn [bind].
    rewrite (finish_pieces_eq_spec _ _ true); cbn [st_t0 st_t1 st_x]; try reflexivity; try assumption.
    - apply bb_new_wf. pose proof nb_ge. lia.
    - unfold bb_size, bb_new. cbn [bb_buf]. apply repeat_length.
    - constructor.
  Qed.

  Theorem digest_eq_spec msg n_out :
    Forall is_byte msg ->
    8 * N.of_nat n_out < 2 ^ 64 ->
    N.of_nat (length msg) < 2 ^ 64 ->
    digest prof nu v n_out msg = Ok (SS.skein p n_out msg).
  Proof.
    intros Hb Hn Hlen.
    assert (E : digest prof nu v n_out msg = digest_pieces prof nu v n_out [msg]).
    { unfold digest, digest_pieces, finish_pieces. cbn [updates].
      destruct (default prof nu v (N.of_nat n_out)) as [h|]; cbn [bind]; [|reflexivity].
      destruct (update prof nu v h msg); reflexivity. }
    rewrite E, digest_pieces_eq_spec; cbn [concat]; rewrite ?app_nil_r; auto.
  Qed.

  (** * C17: the tweak position is the number of bytes processed *)
  Theorem skein_pos_exact s b first pieces :
    bb_wf b -> bb_size b = nb ->
    st_t1 s = t1w SS.T_MSG first false ->
    Forall is_byte (bb_content b) -> Forall (Forall is_byte) pieces ->
    let all := bb_content b ++ concat pieces in
    st_t0 s + N.of_nat (length all) < 2 ^ 64 ->
    exists h' s'' buf,
      updates prof nu v (Hs s b) pieces = Ok h'
      /\ (* after the updates: position = bytes fed to Threefish; the rest is buffered *)
         st_t0 (h_state h') = st_t0 s + N.of_nat (lazy_count nb (length all) * nb)
      /\ bb_pos (h_buffer h') = (length all - lazy_count nb (length all) * nb)%nat
      /\ st_t0 (h_state h') + N.of_nat (bb_pos (h_buffer h')) = st_t0 s + N.of_nat (length all)
      /\ (* after the final block: position = all bytes absorbed, not wrapped *)
         finalize_message prof nu v h' = Ok (s'', buf)
      /\ st_t0 s'' = st_t0 s + N.of_nat (length all) /\ st_t0 s'' < 2 ^ 64.
  Proof.
    intros Hwf Hsz Ht1 Hbc Hbp all Hlt.
    destruct (msg_stage_eq_ubi prof nu v Hv s b first pieces Hwf Hsz Ht1 Hbc Hbp Hlt) as [buf E].
    unfold msg_stage in E.
    pose proof (updates_concat prof nu v pieces (Hs s b) Hwf) as Q.
    rewrite update_unfold in Q. cbn [h_state h_buffer] in Q.
    destruct (input_lazy_char b (concat pieces) Hwf) as (Ho & Hs' & Hp & Hc).
    rewrite Hsz in *. fold all in Ho, Hp, Hc.
    set (n := lazy_count nb (length all)) in *.
    assert (Hnb : (0 < nb)%nat) by (pose proof nb_ge; lia).
    destruct (lazy_count_bounds nb (length all) Hnb) as (B1 & B2 & B3). fold n in B1, B2, B3.
    assert (Hball : Forall is_byte all).
    { apply Forall_app; split; [assumption|].
      clear -Hbp. induction Hbp as [|x l Hx Hl IH]; cbn [concat]; [constructor|].
      apply Forall_app. split; assumption. }
    rewrite Ho in Q.
    assert (PF := process_full_blocks prof nu v Hv SS.T_MSG first all n s).
    fold nb in PF. rewrite PF in Q by (try assumption; try lia; right; left; reflexivity).
    cbn [bind] in Q.
    destruct (updates prof nu v (Hs s b) pieces) as [h'|]; [|contradiction Q].
    cbn [reqv] in Q. destruct Q as [Qs (_ & Qp & _)]. cbn [h_state h_buffer] in Qs, Qp.
    cbn [bind] in E.
    exists h', (St (st_t0 s + N.of_nat (length all)) (t1w SS.T_MSG false true)
                   (SS.ubi_from p (st_x s) SS.T_MSG (st_t0 s) first all)), buf.
    rewrite Qs, Qp, Hp. cbn [st_t0].
    repeat split; try assumption; try reflexivity. lia.
  Qed.
End Digest.
