(** Audit follow-ups (work package audit-followups), part 1: the small compositions the audit
    (notes/audit.md) asked to pin.

      C10-F1  E(b) and D(b) are well-formed blocks, E is onto the byte blocks   (Module F_C10)
      C14-F1  refill_wide = four narrow refills on each real back end            (Module F_C14)
      C20-F2  the [_partial] hypotheses of Props/C20.v discharged with C03 for the seven block
              functions of c2-chacha, blake-hash and jh-x86_64                     (Module F_C20)

    Only Proofs/ and Model/ files are imported (no Props/, no AuditExamples), so Props/C10.v,
    C14.v, C20.v can pin these by [exact]. *)
From Coq Require Import NArith List Lia Arith Bool.
Require Coq.Strings.String.
From CC Require Import Lib.Words Lib.Bytes Lib.ListX Spec.Lanes.
From CC Require Import Model.Threefish Proofs.Threefish64.
From CC Require Import Model.ChaChaGuts Proofs.ChaChaGuts Proofs.ChaChaGutsWide.
From CC Require Import Model.Dispatch Model.Machine Model.MachineFull Proofs.Dispatch.
From CC Require Import Proofs.MachineInstReal Proofs.MachineFullChaCha Proofs.MachineFullJH Proofs.MachineFullBlake Proofs.MachineFullReal.
From CC Require Import Model.Features Proofs.Features Proofs.FeaturesCompose.
From CC Require Model.PpvSoft Model.JH Model.Blake.
Import ListNotations.
Local Open Scope N_scope.

(** * C10: "bijection on the blocks" stated literally *)
Module F_C10.
  Lemma bytes_le_bytes k ws : Forall is_byte (bytes_le k ws).
  Proof.
    unfold bytes_le. induction ws as [|w ws IH]; [constructor|].
    cbn [flat_map]. apply Forall_app. split; [apply le_split_bytes | exact IH].
  Qed.

  (** D maps every list of the block length to a block: right length, all bytes *)
  Theorem decrypt_wellformed : forall c nu key t0 t1 block,
    is_tf_cfg c -> length block = (8 * n_w c)%nat ->
    length (m_decrypt c nu key t0 t1 block) = (8 * n_w c)%nat
    /\ Forall is_byte (m_decrypt c nu key t0 t1 block).
  Proof.
    intros c nu key t0 t1 block Hc Hl. split; [|apply bytes_le_bytes].
    unfold m_decrypt. rewrite bytes_le_length.
    rewrite decrypt_words_length; auto using last_row_length, block_words.
  Qed.

  Theorem encrypt_wellformed : forall c nu key t0 t1 block,
    is_tf_cfg c -> length block = (8 * n_w c)%nat ->
    length (m_encrypt c nu key t0 t1 block) = (8 * n_w c)%nat
    /\ Forall is_byte (m_encrypt c nu key t0 t1 block).
  Proof.
    intros c nu key t0 t1 block Hc Hl. split; [|apply bytes_le_bytes].
    unfold m_encrypt. rewrite bytes_le_length.
    rewrite encrypt_words_length; auto using last_row_length, block_words.
  Qed.

  (** E is onto the set of byte blocks (with [threefish_encrypt_injective]: a bijection of it);
      likewise D *)
  Theorem encrypt_surjective : forall c nu key t0 t1 b,
    is_tf_cfg c -> length b = (8 * n_w c)%nat -> Forall is_byte b ->
    exists a, length a = (8 * n_w c)%nat /\ Forall is_byte a /\ m_encrypt c nu key t0 t1 a = b.
  Proof.
    intros c nu key t0 t1 b Hc Hl Hb. exists (m_decrypt c nu key t0 t1 b).
    destruct (decrypt_wellformed c nu key t0 t1 b Hc Hl) as [L B].
    split; [exact L|]. split; [exact B|]. now apply threefish_encrypt_decrypt.
  Qed.

  Theorem decrypt_surjective : forall c nu key t0 t1 b,
    is_tf_cfg c -> length b = (8 * n_w c)%nat -> Forall is_byte b ->
    exists a, length a = (8 * n_w c)%nat /\ Forall is_byte a /\ m_decrypt c nu key t0 t1 a = b.
  Proof.
    intros c nu key t0 t1 b Hc Hl Hb. exists (m_encrypt c nu key t0 t1 b).
    destruct (encrypt_wellformed c nu key t0 t1 b Hc Hl) as [L B].
    split; [exact L|]. split; [exact B|]. now apply threefish_decrypt_encrypt.
  Qed.

  (** the bijection in one statement: on the set of [8 * n_w c]-byte blocks, E and D map into the
      set and are mutually inverse *)
  Definition is_block (c : cfg) (b : list N) : Prop := length b = (8 * n_w c)%nat /\ Forall is_byte b.

  Theorem encrypt_bijection : forall c nu key t0 t1,
    is_tf_cfg c ->
    (forall b, is_block c b -> is_block c (m_encrypt c nu key t0 t1 b)) /\
    (forall b, is_block c b -> is_block c (m_decrypt c nu key t0 t1 b)) /\
    (forall b, is_block c b -> m_decrypt c nu key t0 t1 (m_encrypt c nu key t0 t1 b) = b) /\
    (forall b, is_block c b -> m_encrypt c nu key t0 t1 (m_decrypt c nu key t0 t1 b) = b).
  Proof.
    intros c nu key t0 t1 Hc. unfold is_block. repeat apply conj.
    - intros b [L _]. now apply encrypt_wellformed.
    - intros b [L _]. now apply decrypt_wellformed.
    - intros b [L B]. now apply threefish_decrypt_encrypt.
    - intros b [L B]. now apply threefish_encrypt_decrypt.
  Qed.
End F_C10.

(** * C14 x every back end (C14 composed with C03): on each of the six back-end names [b], in each
      build profile [p], the wide refill returns the bytes of four narrow refills - each of which
      may itself run on two other back ends [b1] (dispatch!) and [b2] (dispatch_light128!) - and
      the same final store *)
Module F_C14.
  Theorem refill_wide_eq_four_narrow_every_backend :
    forall p b b1 b2 k s, cstore_ok s ->
      xm_refill_wide (real_xinst p b) k s =
      (let '(o0, s1) := x_refill_narrow (real_xinst p b1) (real_xinst p b2) k s in
       let '(o1, s2) := x_refill_narrow (real_xinst p b1) (real_xinst p b2) k s1 in
       let '(o2, s3) := x_refill_narrow (real_xinst p b1) (real_xinst p b2) k s2 in
       let '(o3, s4) := x_refill_narrow (real_xinst p b1) (real_xinst p b2) k s3 in
       (o0 ++ o1 ++ o2 ++ o3, s4)).
  Proof.
    intros p b b1 b2 k s Hs.
    pose proof (cc_of_ok s Hs) as W0.
    assert (step : forall c, chacha_ok c ->
              x_refill_narrow (real_xinst p b1) (real_xinst p b2) k (store_of c)
              = (fst (refill c k), store_of (inc_block_ct c))).
    { intros c Oc. rewrite (real_refill_narrow_is_model p b1 b2 k _ (store_of_ok c Oc)).
      rewrite cc_of_store_of by exact Oc. reflexivity. }
    rewrite (real_refill_wide_is_model p b k s Hs).
    rewrite (refill_wide_eq_inc_chain (cc_of s) k W0). cbn [fst snd].
    pose proof (eq_sym (store_of_cc_of s Hs)) as E.
    set (c := cc_of s) in *. clearbody c. subst s.
    pose proof (inc_block_ct_wf _ W0) as W1. pose proof (inc_block_ct_wf _ W1) as W2.
    pose proof (inc_block_ct_wf _ W2) as W3.
    rewrite (step _ W0), (step _ W1), (step _ W2), (step _ W3). reflexivity.
  Qed.

  (** the same under the selection: in every configuration with SSE2 detected, the dispatched
      wide refill is four dispatched narrow refills (neither reaches unimplemented!()) *)
  Theorem refill_wide_eq_four_narrow_every_config :
    forall c k s, f_sse2 (xcpu c) = true -> cstore_ok s ->
      on_x MDispatch (fun m => xm_refill_wide m k) c s =
      match refill_narrow_on k c s with
      | Some (o0, s1) =>
        match refill_narrow_on k c s1 with
        | Some (o1, s2) =>
          match refill_narrow_on k c s2 with
          | Some (o2, s3) =>
            match refill_narrow_on k c s3 with
            | Some (o3, s4) => Some (o0 ++ o1 ++ o2 ++ o3, s4)
            | None => None
            end
          | None => None
          end
        | None => None
        end
      | None => None
      end.
  Proof.
    intros c k s Hc Hs.
    destruct (real_blocks_agree c Hc) as (Hn & Hw & _).
    pose proof (cc_of_ok s Hs) as W0.
    rewrite (Hw k s Hs). rewrite (refill_wide_eq_inc_chain (cc_of s) k W0). cbn [fst snd].
    pose proof (eq_sym (store_of_cc_of s Hs)) as E.
    set (c0 := cc_of s) in *. clearbody c0. subst s.
    pose proof (inc_block_ct_wf _ W0) as W1. pose proof (inc_block_ct_wf _ W1) as W2.
    pose proof (inc_block_ct_wf _ W2) as W3.
    assert (step : forall c1, chacha_ok c1 ->
              refill_narrow_on k c (store_of c1) = Some (fst (refill c1 k), store_of (inc_block_ct c1))).
    { intros c1 O1. rewrite (Hn k _ (store_of_ok c1 O1)). rewrite cc_of_store_of by exact O1. reflexivity. }
    rewrite (step _ W0), (step _ W1), (step _ W2), (step _ W3). reflexivity.
  Qed.
End F_C14.

(** * C20: feature selection is irrelevant for the block functions behind the dispatch macros,
      WITHOUT hypothesis.

    [dispatch_run algo m cpu tf (select c p e) x] (Proofs/FeaturesCompose.v) = the body [algo]
    run through macro [m] of ppv-lite86 with the cargo-level inputs (no_simd, std) that lattice
    point [p] of crate [c] selects in environment [e] (feature unification), on a CPU reporting
    [cpu], compiled with target features [tf]; [None] = the unimplemented!() arm. The bodies are
    the whole block functions on the six REAL machines [real_xinst prof b] (Proofs/MachineFullReal.v),
    [prof] = build profile. Each theorem: any two lattice points, environments, macros, CPUs with
    SSE2, target-feature sets AND build profiles return the same value, which is the executable
    model's (= the specification's, C01/C04/C06); none reaches unimplemented!(). *)
Module F_C20.
  (** a body that is the same function at every (profile, back end) *)
  Section Generic.
    Context {X Y : Type}.
    Variable algo : PpvSoft.profile -> backend -> X -> Y.
    Variable ref : X -> Y.
    Variable dom : X -> Prop.
    Hypothesis all_same : forall prof b x, dom x -> algo prof b x = ref x.

    Lemma feature_irrelevant :
      forall c, c = Blake \/ c = JH \/ c = ChaCha ->
      forall prof prof' m m' p p' e e' cpu cpu' tf tf' x,
        f_sse2 cpu = true -> f_sse2 cpu' = true -> dom x ->
        dispatch_run (algo prof) m cpu tf (select c p e) x
        = dispatch_run (algo prof') m' cpu' tf' (select c p' e') x
        /\ dispatch_run (algo prof) m cpu tf (select c p e) x = Some (ref x).
    Proof.
      intros c Hc prof prof' m m' p p' e e' cpu cpu' tf tf' x H1 H2 Hx.
      destruct (dispatch_selection_irrelevant (algo prof) ref dom (all_same prof) c Hc
                  m m p p e e cpu cpu tf tf x H1 H1 Hx) as [_ E1].
      destruct (dispatch_selection_irrelevant (algo prof') ref dom (all_same prof') c Hc
                  m' m' p' p' e' e' cpu' cpu' tf' tf' x H2 H2 Hx) as [_ E2].
      rewrite E1, E2. split; reflexivity.
    Qed.
  End Generic.

  (** ** c2-chacha *)
  Definition wide_ref (k : nat) (s : cstore) : list N * cstore :=
    (fst (ChaChaGuts.refill_wide (cc_of s) k), store_of (snd (ChaChaGuts.refill_wide (cc_of s) k))).
  Definition narrow_ref (k : nat) (s : cstore) : list N * cstore :=
    (fst (ChaChaGuts.refill (cc_of s) k), store_of (snd (ChaChaGuts.refill (cc_of s) k))).

  Theorem chacha_refill_wide_feature_irrelevant :
    forall prof prof' k m m' p p' e e' cpu cpu' tf tf' s,
      f_sse2 cpu = true -> f_sse2 cpu' = true -> cstore_ok s ->
      dispatch_run (fun b => xm_refill_wide (real_xinst prof b) k) m cpu tf (select ChaCha p e) s
      = dispatch_run (fun b => xm_refill_wide (real_xinst prof' b) k) m' cpu' tf' (select ChaCha p' e') s
      /\ dispatch_run (fun b => xm_refill_wide (real_xinst prof b) k) m cpu tf (select ChaCha p e) s
         = Some (wide_ref k s).
  Proof.
    intros prof prof' k.
    apply (feature_irrelevant (fun pr b => xm_refill_wide (real_xinst pr b) k) (wide_ref k) cstore_ok).
    - intros pr b x Hx. now apply real_refill_wide_is_model.
    - right; right; reflexivity.
  Qed.

  (** [refill_narrow] has TWO dispatch sites in one build: [refill_narrow_rounds] under dispatch!
      and the rest under dispatch_light128!; both see the same selected (no_simd, std) *)
  Definition narrow_run (prof : PpvSoft.profile) (k : nat) (cpu tf : features) (sel : selection)
             (s : cstore) : option (list N * cstore) :=
    match sel with
    | SelDispatch n st _ => refill_narrow_on k (prof, n, st, cpu, tf) s
    | _ => None
    end.

  Theorem chacha_refill_narrow_feature_irrelevant :
    forall prof prof' k p p' e e' cpu cpu' tf tf' s,
      f_sse2 cpu = true -> f_sse2 cpu' = true -> cstore_ok s ->
      narrow_run prof k cpu tf (select ChaCha p e) s = narrow_run prof' k cpu' tf' (select ChaCha p' e') s
      /\ narrow_run prof k cpu tf (select ChaCha p e) s = Some (narrow_ref k s).
  Proof.
    intros prof prof' k p p' e e' cpu cpu' tf tf' s H1 H2 Hs.
    cbn [select narrow_run].
    match goal with |- context [refill_narrow_on k ?c s = Some _] =>
      destruct (real_blocks_agree c H1) as (E1 & _) end.
    match goal with |- _ = refill_narrow_on k ?c s /\ _ =>
      destruct (real_blocks_agree c H2) as (E2 & _) end.
    rewrite (E1 k s Hs), (E2 k s Hs). split; reflexivity.
  Qed.

  (** ** blake-hash *)
  Definition h32_ok (h : list N * list N) : Prop := bytes_ok 16 (fst h) /\ bytes_ok 16 (snd h).
  Definition h64_ok (h : list N * list N) : Prop := bytes_ok 32 (fst h) /\ bytes_ok 32 (snd h).

  Theorem blake_put_block32_feature_irrelevant :
    forall block t0 t1, Forall is_byte block -> t0 < 2 ^ 32 -> t1 < 2 ^ 32 ->
    forall prof prof' m m' p p' e e' cpu cpu' tf tf' h,
      f_sse2 cpu = true -> f_sse2 cpu' = true -> h32_ok h ->
      dispatch_run (fun b h => xm_put_block32 (real_xinst prof b) h block (t0, t1)) m cpu tf (select Blake p e) h
      = dispatch_run (fun b h => xm_put_block32 (real_xinst prof' b) h block (t0, t1)) m' cpu' tf' (select Blake p' e') h
      /\ dispatch_run (fun b h => xm_put_block32 (real_xinst prof b) h block (t0, t1)) m cpu tf (select Blake p e) h
         = Some (h_bytes 4 (Blake.put_block32 (h_words 4 h) block (t0, t1))).
  Proof.
    intros block t0 t1 Hb Ht0 Ht1 prof prof'.
    apply (feature_irrelevant (fun pr b h => xm_put_block32 (real_xinst pr b) h block (t0, t1))
             (fun h => h_bytes 4 (Blake.put_block32 (h_words 4 h) block (t0, t1))) h32_ok).
    - intros pr b x [Hx0 Hx1]. now apply real_put_block32_is_model.
    - left; reflexivity.
  Qed.

  Theorem blake_put_block64_feature_irrelevant :
    forall block t0 t1, Forall is_byte block -> t0 < 2 ^ 64 -> t1 < 2 ^ 64 ->
    forall prof prof' m m' p p' e e' cpu cpu' tf tf' h,
      f_sse2 cpu = true -> f_sse2 cpu' = true -> h64_ok h ->
      dispatch_run (fun b h => xm_put_block64 (real_xinst prof b) h block (t0, t1)) m cpu tf (select Blake p e) h
      = dispatch_run (fun b h => xm_put_block64 (real_xinst prof' b) h block (t0, t1)) m' cpu' tf' (select Blake p' e') h
      /\ dispatch_run (fun b h => xm_put_block64 (real_xinst prof b) h block (t0, t1)) m cpu tf (select Blake p e) h
         = Some (h_bytes 8 (Blake.put_block64 (h_words 8 h) block (t0, t1))).
  Proof.
    intros block t0 t1 Hb Ht0 Ht1 prof prof'.
    apply (feature_irrelevant (fun pr b h => xm_put_block64 (real_xinst pr b) h block (t0, t1))
             (fun h => h_bytes 8 (Blake.put_block64 (h_words 8 h) block (t0, t1))) h64_ok).
    - intros pr b x [Hx0 Hx1]. now apply real_put_block64_is_model.
    - left; reflexivity.
  Qed.

  Theorem blake_finalize_feature_irrelevant :
    forall prof prof' m m' p p' e e' cpu cpu' tf tf',
      f_sse2 cpu = true -> f_sse2 cpu' = true ->
      (forall h, h32_ok h ->
         dispatch_run (fun b => xm_finalize32 (real_xinst prof b)) m cpu tf (select Blake p e) h
         = dispatch_run (fun b => xm_finalize32 (real_xinst prof' b)) m' cpu' tf' (select Blake p' e') h
         /\ dispatch_run (fun b => xm_finalize32 (real_xinst prof b)) m cpu tf (select Blake p e) h
            = Some (Blake.compressor_finalize 4 (h_words 4 h))) /\
      (forall h, h64_ok h ->
         dispatch_run (fun b => xm_finalize64 (real_xinst prof b)) m cpu tf (select Blake p e) h
         = dispatch_run (fun b => xm_finalize64 (real_xinst prof' b)) m' cpu' tf' (select Blake p' e') h
         /\ dispatch_run (fun b => xm_finalize64 (real_xinst prof b)) m cpu tf (select Blake p e) h
            = Some (Blake.compressor_finalize 8 (h_words 8 h))).
  Proof.
    intros prof prof' m m' p p' e e' cpu cpu' tf tf' H1 H2. split; intros h Hh.
    - apply (feature_irrelevant (fun pr b => xm_finalize32 (real_xinst pr b))
               (fun h => Blake.compressor_finalize 4 (h_words 4 h)) h32_ok); auto.
      intros pr b x [Hx0 Hx1]. now apply real_finalize32_is_model.
    - apply (feature_irrelevant (fun pr b => xm_finalize64 (real_xinst pr b))
               (fun h => Blake.compressor_finalize 8 (h_words 8 h)) h64_ok); auto.
      intros pr b x [Hx0 Hx1]. now apply real_finalize64_is_model.
  Qed.

  (** ** jh-x86_64 *)
  Theorem jh_f8_feature_irrelevant :
    forall state, bytes_ok 128 state ->
    forall prof prof' m m' p p' e e' cpu cpu' tf tf' data,
      f_sse2 cpu = true -> f_sse2 cpu' = true -> bytes_ok 64 data ->
      dispatch_run (fun b => xm_f8 (real_xinst prof b) e8_sched state) m cpu tf (select JH p e) data
      = dispatch_run (fun b => xm_f8 (real_xinst prof' b) e8_sched state) m' cpu' tf' (select JH p' e') data
      /\ dispatch_run (fun b => xm_f8 (real_xinst prof b) e8_sched state) m cpu tf (select JH p e) data
         = Some (JH.m_f8 state data).
  Proof.
    intros state Hst prof prof'.
    apply (feature_irrelevant (fun pr b => xm_f8 (real_xinst pr b) e8_sched state) (JH.m_f8 state) (bytes_ok 64)).
    - intros pr b x Hx. now apply real_f8_is_model.
    - right; left; reflexivity.
  Qed.

  (** ** the general statement of Props/C20.v with its [dispatch_inputs_irrelevant] hypothesis
         DISCHARGED for a concrete meaning: [via_dispatch c n st] = the seven block functions of
         crate [c] run with the cargo-level inputs (n, st) on a fixed (profile, macro-independent)
         platform with SSE2; inputs outside the well-formed domain, and crates other than the
         three, give [None] on both sides. What stays a hypothesis: [arch_irrelevant] (ppv-lite86's
         own generic vs x86_64 module seen as a crate of its own; C12/C13) - and it is not needed
         for the three crates (they never select [SelArch]). *)
  Record block_input := BI {
    bi_k : nat; bi_store : cstore;                         (* ChaCha *)
    bi_h : list N * list N; bi_block : list N; bi_t : N * N;   (* BLAKE *)
    bi_state : list N; bi_data : list N                    (* JH *)
  }.
  Record block_output := BO {
    bo_narrow : option (list N * cstore); bo_wide : option (list N * cstore);
    bo_put32 : option (list N * list N); bo_put64 : option (list N * list N);
    bo_fin32 : option (list N); bo_fin64 : option (list N);
    bo_f8 : option (list N)
  }.
  Definition input_ok (x : block_input) : Prop :=
    cstore_ok (bi_store x) /\ Forall is_byte (bi_block x) /\ bytes_ok 128 (bi_state x) /\ bytes_ok 64 (bi_data x).

  Definition blocks_on (prof : PpvSoft.profile) (cpu tf : features) (n st : bool) (x : block_input) : block_output :=
    let c := (prof, n, st, cpu, tf) in
    BO (refill_narrow_on (bi_k x) c (bi_store x))
       (on_x MDispatch (fun m => xm_refill_wide m (bi_k x)) c (bi_store x))
       (on_x MDispatch (fun m h => xm_put_block32 m h (bi_block x) (bi_t x)) c (bi_h x))
       (on_x MDispatch (fun m h => xm_put_block64 m h (bi_block x) (bi_t x)) c (bi_h x))
       (on_x MLight256 xm_finalize32 c (bi_h x))
       (on_x MLight256 xm_finalize64 c (bi_h x))
       (on_x MDispatch (fun m => xm_f8 m e8_sched (bi_state x)) c (bi_data x)).

  (** every component, in every configuration, on every well-formed input of the right shape *)
  Theorem blocks_on_inputs_irrelevant :
    forall prof prof' cpu cpu' tf tf' n st n' st' x,
      f_sse2 cpu = true -> f_sse2 cpu' = true -> input_ok x ->
      (bo_narrow (blocks_on prof cpu tf n st x) = bo_narrow (blocks_on prof' cpu' tf' n' st' x)) /\
      (bo_wide (blocks_on prof cpu tf n st x) = bo_wide (blocks_on prof' cpu' tf' n' st' x)) /\
      (h32_ok (bi_h x) -> fst (bi_t x) < 2 ^ 32 -> snd (bi_t x) < 2 ^ 32 ->
         bo_put32 (blocks_on prof cpu tf n st x) = bo_put32 (blocks_on prof' cpu' tf' n' st' x)) /\
      (h64_ok (bi_h x) -> fst (bi_t x) < 2 ^ 64 -> snd (bi_t x) < 2 ^ 64 ->
         bo_put64 (blocks_on prof cpu tf n st x) = bo_put64 (blocks_on prof' cpu' tf' n' st' x)) /\
      (h32_ok (bi_h x) ->
         bo_fin32 (blocks_on prof cpu tf n st x) = bo_fin32 (blocks_on prof' cpu' tf' n' st' x)) /\
      (h64_ok (bi_h x) ->
         bo_fin64 (blocks_on prof cpu tf n st x) = bo_fin64 (blocks_on prof' cpu' tf' n' st' x)) /\
      (bo_f8 (blocks_on prof cpu tf n st x) = bo_f8 (blocks_on prof' cpu' tf' n' st' x)).
  Proof.
    intros prof prof' cpu cpu' tf tf' n st n' st' x H1 H2 (Hs & Hb & Hst & Hd).
    destruct (real_blocks_agree (prof, n, st, cpu, tf) H1) as (A1 & A2 & A3 & A4 & A5 & A6 & A7).
    destruct (real_blocks_agree (prof', n', st', cpu', tf') H2) as (B1 & B2 & B3 & B4 & B5 & B6 & B7).
    unfold blocks_on. cbn [bo_narrow bo_wide bo_put32 bo_put64 bo_fin32 bo_fin64 bo_f8].
    destruct (bi_t x) as [t0 t1]. cbn [fst snd].
    repeat apply conj.
    - now rewrite A1, B1.
    - now rewrite A2, B2.
    - intros [G0 G1] T0 T1. now rewrite A4, B4.
    - intros [G0 G1] T0 T1. now rewrite A5, B5.
    - intros [G0 G1]. now rewrite A6, B6.
    - intros [G0 G1]. now rewrite A7, B7.
    - now rewrite A3, B3.
  Qed.
End F_C20.

(** non-vacuity: two real lattice points of c2-chacha on two machines and two profiles *)
Module F_C20_Example.
  Import F_C20.
  Import Coq.Strings.String.
  Open Scope string_scope.

  Lemma sample_ok : cstore_ok sample_store.
  Proof. repeat apply conj; try reflexivity; cbn; repeat (constructor; [reflexivity|]); constructor. Qed.

  Example two_points :
    let e := mk_env false false true true false false in
    select ChaCha (default_point ChaCha) e = SelDispatch false true true /\
    select ChaCha ["no_simd"] e = SelDispatch true false false /\
    dispatch MDispatch false true (F true true true true true) (F true false false false false) = Run AVX2 /\
    dispatch MDispatch true false (F true false false false false) (F true false false false false) = Run Generic /\
    narrow_run PpvSoft.Release 10 (F true true true true true) (F true false false false false)
               (select ChaCha (default_point ChaCha) e) sample_store
    = narrow_run PpvSoft.Debug 10 (F true false false false false) (F true false false false false)
               (select ChaCha ["no_simd"] e) sample_store /\
    narrow_run PpvSoft.Release 10 (F false false false false false) (F true false false false false)
               (select ChaCha (default_point ChaCha) e) sample_store = None.
  Proof.
    intros e. do 4 (split; [reflexivity|]). split; [|reflexivity].
    apply (chacha_refill_narrow_feature_irrelevant PpvSoft.Release PpvSoft.Debug 10
             (default_point ChaCha) ["no_simd"] e e); [reflexivity | reflexivity | exact sample_ok].
  Qed.
End F_C20_Example.

Print Assumptions F_C10.encrypt_bijection.
Print Assumptions F_C10.encrypt_surjective.
Print Assumptions F_C14.refill_wide_eq_four_narrow_every_backend.
Print Assumptions F_C14.refill_wide_eq_four_narrow_every_config.
Print Assumptions F_C20.chacha_refill_wide_feature_irrelevant.
Print Assumptions F_C20.chacha_refill_narrow_feature_irrelevant.
Print Assumptions F_C20.blake_put_block32_feature_irrelevant.
Print Assumptions F_C20.blake_put_block64_feature_irrelevant.
Print Assumptions F_C20.blake_finalize_feature_irrelevant.
Print Assumptions F_C20.jh_f8_feature_irrelevant.
Print Assumptions F_C20.blocks_on_inputs_irrelevant.
Print Assumptions F_C20_Example.two_points.
