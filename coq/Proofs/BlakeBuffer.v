(** Eager buffering ([BlockBuffer::input_block]) as used by the BLAKE hasher:
    what is emitted and what stays buffered depends only on
    "buffered bytes ++ input": with L those bytes, the first |L|/size
    full blocks are emitted, in order, and the rest (fewer than size bytes)
    stays buffered. Local to the BLAKE work (C04, C17). *)
From Coq Require Import NArith List Arith Lia.
From CC Require Import Lib.Words Lib.Bytes Lib.ListX Model.BlockBuffer.
Import ListNotations.

(** invariant of an eagerly used buffer: position strictly below the size *)
Definition wfb (bs : nat) (b : bb) : Prop := length (bb_buf b) = bs /\ bb_pos b < bs.
(** the buffered bytes [buffer[..pos]] *)
Definition content (b : bb) : list N := firstn (bb_pos b) (bb_buf b).

(** the first [n] consecutive [size]-byte blocks of [l] *)
Fixpoint take_blocks (size n : nat) (l : list N) : list (list N) :=
  match n with
  | O => []
  | S k => firstn size l :: take_blocks size k (skipn size l)
  end.

Lemma take_blocks_length size n l : length (take_blocks size n l) = n.
Proof. revert l; induction n as [|n IH]; intros l; cbn [take_blocks length]; auto. Qed.

Lemma content_length bs b : wfb bs b -> length (content b) = bb_pos b.
Proof. intros [Hl Hp]. unfold content. rewrite firstn_length. lia. Qed.

Lemma wfb_new bs : 0 < bs -> wfb bs (bb_new bs) /\ content (bb_new bs) = [].
Proof.
  intros H. unfold wfb, content, bb_new. cbn [bb_buf bb_pos]. rewrite repeat_length.
  repeat split; auto.
Qed.

Lemma skipn_skipn' {A} a b (l : list A) : skipn b (skipn a l) = skipn (a + b) l.
Proof.
  revert l; induction a as [|a IH]; intros l; [reflexivity|].
  destruct l as [|x l]; cbn [plus skipn]; [now rewrite skipn_nil|apply IH].
Qed.

Lemma firstn_exact' {A} (a b : list A) n : n = length a -> firstn n (a ++ b) = a.
Proof.
  intros ->. rewrite firstn_app, Nat.sub_diag, firstn_all. cbn [firstn]. apply app_nil_r.
Qed.

Lemma skipn_exact' {A} (a b : list A) n : n = length a -> skipn n (a ++ b) = b.
Proof. intros ->. rewrite skipn_app, Nat.sub_diag, skipn_all. reflexivity. Qed.

Lemma div_add_block bs y : 0 < bs -> (bs + y) / bs = S (y / bs).
Proof.
  intros H. replace (bs + y) with (y + 1 * bs) by lia. rewrite Nat.div_add by lia. lia.
Qed.

Lemma chunks_exact_take k fuel l :
  0 < k -> length l <= fuel -> chunks_exact k fuel l = take_blocks k (length l / k) l.
Proof.
  intros Hk. revert l; induction fuel as [|f IH]; intros l Hl.
  - destruct l; [|cbn [length] in Hl; lia]. cbn [length]. rewrite Nat.div_0_l by lia. reflexivity.
  - cbn [chunks_exact]. destruct (Nat.leb_spec k (length l)) as [H|H].
    + assert (E : length l / k = S ((length l - k) / k)).
      { rewrite <- div_add_block by assumption. f_equal. lia. }
      rewrite E. cbn [take_blocks].
      rewrite IH by (rewrite skipn_length; lia). rewrite skipn_length. reflexivity.
    + rewrite Nat.div_small by assumption. reflexivity.
Qed.

(** the part of [input_block] after the buffer has been completed *)
Lemma input_tail bs buf1 input1 :
  0 < bs -> length buf1 = bs ->
  let chunks := chunks_exact bs (length input1) input1 in
  let rem := skipn (bs * length chunks) input1 in
  chunks = take_blocks bs (length input1 / bs) input1
  /\ wfb bs (BB (copy_at buf1 0 rem) (length rem))
  /\ content (BB (copy_at buf1 0 rem) (length rem)) = skipn (bs * (length input1 / bs)) input1.
Proof.
  intros Hbs Hb chunks rem.
  assert (Ec : chunks = take_blocks bs (length input1 / bs) input1)
    by (apply chunks_exact_take; auto).
  assert (El : length chunks = length input1 / bs) by (rewrite Ec; apply take_blocks_length).
  assert (Er : rem = skipn (bs * (length input1 / bs)) input1) by (unfold rem; now rewrite El).
  assert (Hr : length rem < bs).
  { rewrite Er, skipn_length.
    pose proof (Nat.div_mod (length input1) bs). pose proof (Nat.mod_upper_bound (length input1) bs). lia. }
  split; [exact Ec|]. unfold wfb, content, copy_at. cbn [bb_buf bb_pos firstn app].
  split; [split|].
  - rewrite app_length, skipn_length. cbn [plus]. lia.
  - exact Hr.
  - rewrite firstn_exact' by reflexivity. exact Er.
Qed.

Theorem input_block_spec bs b input :
  wfb bs b ->
  let L := content b ++ input in
  let n := length L / bs in
  exists b', input_block b input = (b', take_blocks bs n L)
             /\ wfb bs b' /\ content b' = skipn (bs * n) L.
Proof.
  intros [Hl Hp] L n. destruct b as [buf pos]. cbn [bb_buf bb_pos] in *.
  assert (Hbs : 0 < bs) by lia.
  assert (Hc : length (firstn pos buf) = pos) by (rewrite firstn_length; lia).
  unfold input_block, bb_remaining, bb_size. cbn [bb_buf bb_pos]. rewrite !Hl.
  assert (HL : length L = pos + length input).
  { unfold L, content. cbn [bb_buf bb_pos]. rewrite app_length, Hc. reflexivity. }
  destruct (Nat.ltb_spec (length input) (bs - pos)) as [Hs|Hs].
  - (* stays below one block *)
    assert (En : n = 0) by (unfold n; apply Nat.div_small; lia).
    rewrite En. cbn [take_blocks]. rewrite Nat.mul_0_r. cbn [skipn].
    eexists; split; [reflexivity|]. unfold wfb, content, copy_at. cbn [bb_buf bb_pos].
    split; [split|].
    + rewrite !app_length, skipn_length, Hc. lia.
    + lia.
    + rewrite app_assoc. apply firstn_exact'. symmetry. exact HL.
  - destruct (Nat.eqb_spec pos 0) as [E0|E0]; cbn [negb].
    + (* buffer empty: blocks come straight from the input *)
      subst pos. assert (EL : L = input) by reflexivity.
      destruct (input_tail bs buf input Hbs Hl) as (Ec & W & C).
      eexists; split; [apply (f_equal2 pair); [reflexivity|]|split; [exact W|]].
      * cbn [app]. rewrite Ec. unfold n. now rewrite EL.
      * rewrite C. unfold n. now rewrite EL.
    + (* complete the buffered block first *)
      set (r := bs - pos).
      assert (Hf : length (firstn r input) = r) by (rewrite firstn_length; lia).
      set (buf1 := copy_at buf pos (firstn r input)).
      assert (Eb : buf1 = firstn pos buf ++ firstn r input).
      { unfold buf1, copy_at. rewrite skipn_all2 by (rewrite Hf; unfold r; lia).
        now rewrite app_nil_r. }
      assert (Hb1 : length buf1 = bs) by (rewrite Eb, app_length, Hc, Hf; unfold r; lia).
      assert (EL : L = buf1 ++ skipn r input).
      { unfold L, content. cbn [bb_buf bb_pos]. rewrite Eb, <- app_assoc, firstn_skipn. reflexivity. }
      destruct (input_tail bs buf1 (skipn r input) Hbs Hb1) as (Ec & W & C).
      assert (En : n = S (length (skipn r input) / bs)).
      { unfold n. rewrite EL, app_length, Hb1. now apply div_add_block. }
      eexists; split; [apply (f_equal2 pair); [reflexivity|]|split; [exact W|]].
      { rewrite Ec, En. cbn [take_blocks app]. rewrite EL.
        rewrite (firstn_exact' buf1) by (symmetry; exact Hb1).
        rewrite (skipn_exact' buf1) by (symmetry; exact Hb1). reflexivity. }
      rewrite C, En, EL. replace (bs * S (length (skipn r input) / bs))
        with (bs + bs * (length (skipn r input) / bs)) by lia.
      rewrite <- skipn_skipn'. rewrite (skipn_exact' buf1) by (symmetry; exact Hb1). reflexivity.
Qed.

(** the two special cases used in finalisation *)
Corollary input_block_small bs b input :
  wfb bs b -> bb_pos b + length input < bs ->
  exists b', input_block b input = (b', []) /\ wfb bs b' /\ content b' = content b ++ input
             /\ bb_pos b' = bb_pos b + length input.
Proof.
  intros W H. destruct (input_block_spec bs b input W) as (b' & E & W' & C).
  assert (HL : length (content b ++ input) = bb_pos b + length input)
    by (rewrite app_length, (content_length bs); auto).
  rewrite Nat.div_small in E, C by lia. cbn [take_blocks] in E. rewrite Nat.mul_0_r in C.
  cbn [skipn] in C. exists b'. repeat split; try apply W'; auto.
  rewrite <- (content_length bs b' W'), C. exact HL.
Qed.

Corollary input_block_fill bs b input :
  wfb bs b -> bb_pos b + length input = bs ->
  exists b', input_block b input = (b', [content b ++ input]) /\ wfb bs b' /\ content b' = []
             /\ bb_pos b' = 0.
Proof.
  intros W H. destruct (input_block_spec bs b input W) as (b' & E & W' & C).
  assert (HL : length (content b ++ input) = bs)
    by (rewrite app_length, (content_length bs); auto).
  assert (Hbs : 0 < bs) by (destruct W; lia).
  rewrite HL, Nat.div_same in E, C by lia. cbn [take_blocks] in E.
  rewrite Nat.mul_1_r in C. rewrite <- HL in E at 1. rewrite firstn_all in E.
  rewrite <- HL, skipn_all in C.
  exists b'. repeat split; try apply W'; auto.
  rewrite <- (content_length bs b' W'), C. reflexivity.
Qed.
