(** C12, Swap64 of [u128x1_sse2], part 3: all seven swaps, both capability variants. *)
From Coq Require Import NArith List Lia Bool Arith.
From CC Require Import Lib.Words Lib.Bytes Lib.ListX Model.Intrinsics Model.PpvSse Spec.Lanes
  Proofs.IntrinsicsLemmas Proofs.PpvSseWords.
From CC Require Import Proofs.PpvSseSwap Proofs.PpvSseSwapLanes.
Import ListNotations.
Local Open Scope N_scope.

Lemma le_join_words_cons k w l : is_wordk k w ->
  le_join (bytes_le k (w :: l)) = w + le_join (bytes_le k l) * 2 ^ (8 * N.of_nat k).
Proof.
  intros Hw. cbn [bytes_le flat_map]. rewrite le_join_app, le_split_length. now rewrite le_join_split.
Qed.

Lemma testbit_join_words16 l j : Forall (is_wordk 2) l ->
  N.testbit (le_join (bytes_le 2 l)) j = N.testbit (nth (N.to_nat (j / 16)) l 0) (j mod 16).
Proof.
  intros Hl. revert j. induction Hl as [|w l Hw Hl IH]; intro j.
  - cbn. destruct (N.to_nat (j / 16)); now rewrite !N.bits_0.
  - rewrite le_join_words_cons by assumption. change (8 * N.of_nat 2) with 16.
    rewrite (testbit_cat 16) by exact Hw.
    destruct (N.ltb_spec j 16) as [Hj|Hj].
    + rewrite N.div_small, N.mod_small by assumption. reflexivity.
    + rewrite IH.
      assert (E1 : j / 16 = (j - 16) / 16 + 1).
      { replace j with ((j - 16) + 1 * 16) at 1 by lia. now rewrite N.div_add by lia. }
      assert (E2 : j mod 16 = (j - 16) mod 16).
      { replace j with ((j - 16) + 1 * 16) at 1 by lia. now rewrite N.mod_add by lia. }
      rewrite E1, E2. rewrite N.add_1_r, N2Nat.inj_succ. reflexivity.
Qed.

Definition chk16 (n j : N) : bool :=
  (N.lxor j n / 16 =? j / 16) && (N.lxor j n mod 16 =? N.lxor (j mod 16) n).

Lemma g_of_0 n : In n [1; 2; 4; 8] -> g_of n 0 = 0.
Proof. intros Hn. cbn [In] in Hn. repeat (destruct Hn as [<-|Hn]; [reflexivity|]). contradiction. Qed.
Lemma g_of_lt n v : In n [1; 2; 4; 8] -> v < 2 ^ 16 -> g_of n v < 2 ^ 16.
Proof.
  intros Hn Hv. cbn [In] in Hn.
  repeat (destruct Hn as [<-|Hn]; [cbn [g_of]; unfold g_swapi, g_swap8; apply lor_lt;
    first [apply shiftr_lt; first [assumption|now apply land_lt]
          |apply land_lt; apply wrap_lt | apply wrap_lt]|]).
  contradiction.
Qed.

Theorem sse_u128x1_swap_lanes_is_bitgroup_swap s3 n x :
  In n [1; 2; 4; 8] -> (n = 8 -> s3 = false) -> wf 16 x ->
  u128x1_swap s3 n x = bytes_le 16 (v_swap n 128 (words_le 16 x)).
Proof.
  intros Hn H8 Hx.
  assert (Hn' : In n [1; 2; 4; 8; 16; 32; 64]) by (cbn [In] in *; intuition).
  assert (E : words_le 16 x = [le_join x]) by (bytes_of x; reflexivity).
  rewrite E. cbn [v_swap map bytes_le flat_map]. rewrite app_nil_r.
  destruct (wf_words 2 16 x) as (Ex & Hw & Hl); [lia|reflexivity|assumption|].
  change (16 / 2)%nat with 8%nat in Hl.
  set (ws := words_le 2 x) in *.
  assert (ER : u128x1_swap s3 n x = bytes_le 2 (map (g_of n) ws)).
  { rewrite Ex at 1. now apply swap_lane_words. }
  assert (Hgw : Forall (is_wordk 2) (map (g_of n) ws)).
  { eapply Forall_map_in; [|exact Hw]. intros v Hv. now apply g_of_lt. }
  pose proof (bytes_le_wf 2 (map (g_of n) ws)) as HwfR. rewrite map_length, Hl in HwfR.
  change (2 * 8)%nat with 16%nat in HwfR. rewrite <- ER in HwfR.
  destruct HwfR as [LR BR]. destruct Hx as [Lx Bx].
  rewrite <- LR at 1. symmetry.
  replace (swapw n 128 (le_join x)) with (le_join (u128x1_swap s3 n x)); [now apply le_split_join|].
  pose proof (le_join_lt x Bx) as Hxl. pose proof (le_join_lt _ BR) as HRl.
  rewrite Lx in Hxl. rewrite LR in HRl. change (2 ^ (8 * N.of_nat 16)) with (2 ^ 128) in *.
  apply eq_by_bits128; [assumption|now apply swapw_lt|].
  intros j Hj. rewrite swapw_bits by assumption.
  destruct (N.ltb_spec j 128); [|lia]. cbn [andb]. unfold swap_spec_bit.
  rewrite ER. clearbody ws. rewrite Ex. rewrite !testbit_join_words16 by assumption.
  assert (Hc : forallb (chk16 n) (below 128) = true).
  { cbn [In] in Hn. repeat (destruct Hn as [<-|Hn]; [vm_compute; reflexivity|]). contradiction. }
  rewrite forallb_forall in Hc. specialize (Hc j (in_below 128 j Hj)).
  unfold chk16 in Hc. apply andb_prop in Hc. destruct Hc as [H1 H2].
  apply N.eqb_eq in H1, H2. rewrite H1, H2.
  rewrite <- (g_of_0 n Hn) at 1. rewrite map_nth.
  apply lane_bits; [assumption| |apply N.mod_lt; lia].
  destruct (nth_in_or_default (N.to_nat (j / 16)) ws 0) as [Hin|Hd].
  - rewrite Forall_forall in Hw. exact (Hw _ Hin).
  - rewrite Hd. reflexivity.
Qed.

(** all seven swaps, both capability variants *)
Theorem sse_u128x1_swap_is_bitgroup_swap s3 n x :
  In n [1; 2; 4; 8; 16; 32; 64] -> wf 16 x ->
  u128x1_swap s3 n x = bytes_le 16 (v_swap n 128 (words_le 16 x)) /\
  (forall j, j < 128 ->
     N.testbit (le_join (u128x1_swap s3 n x)) j = N.testbit (le_join x) (N.lxor j n)).
Proof.
  intros Hn Hx.
  assert (E : u128x1_swap s3 n x = bytes_le 16 (v_swap n 128 (words_le 16 x))).
  { cbn [In] in Hn.
    destruct Hn as [<-|Hn]; [apply sse_u128x1_swap_lanes_is_bitgroup_swap; cbn; auto; discriminate|].
    destruct Hn as [<-|Hn]; [apply sse_u128x1_swap_lanes_is_bitgroup_swap; cbn; auto; discriminate|].
    destruct Hn as [<-|Hn]; [apply sse_u128x1_swap_lanes_is_bitgroup_swap; cbn; auto; discriminate|].
    destruct Hn as [<-|Hn].
    { destruct s3; [apply sse_u128x1_swap_bytes_is_bitgroup_swap|apply sse_u128x1_swap_lanes_is_bitgroup_swap];
        cbn; auto. }
    destruct Hn as [<-|Hn]; [apply sse_u128x1_swap_bytes_is_bitgroup_swap; cbn; auto; discriminate|].
    destruct Hn as [<-|Hn]; [apply sse_u128x1_swap_bytes_is_bitgroup_swap; cbn; auto; discriminate|].
    destruct Hn as [<-|Hn]; [apply sse_u128x1_swap_bytes_is_bitgroup_swap; cbn; auto; discriminate|].
    contradiction. }
  split; [exact E|]. intros j Hj. rewrite E.
  assert (E16 : words_le 16 x = [le_join x]) by (bytes_of x; reflexivity).
  rewrite E16. cbn [v_swap map bytes_le flat_map]. rewrite app_nil_r.
  destruct Hx as [Lx Bx]. pose proof (le_join_lt x Bx) as Hxl. rewrite Lx in Hxl.
  change (2 ^ (8 * N.of_nat 16)) with (2 ^ 128) in Hxl.
  rewrite le_join_split by (now apply swapw_lt).
  rewrite swapw_bits by assumption. destruct (N.ltb_spec j 128); [reflexivity|lia].
Qed.
