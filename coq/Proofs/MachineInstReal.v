(** C03 composed for the real back ends: the assignment [real_inst] of the concrete machines
    (Proofs/MachineInstSse.v, MachineInstAvx2.v, MachineInstGeneric.v — built from the
    intrinsic-level / portable models of ppv-lite86) to the six back-end names, the proof that
    each refines the lane meaning, and hence [backends_agree] WITHOUT refinement hypothesis.
    Also the link of the JH lane meaning to the executable forms of Model/JH.v. *)
From Coq Require Import NArith List Bool Lia Arith.
From CC Require Import Lib.Words Lib.Bytes Lib.ListX Spec.Lanes Model.Dispatch Model.Machine.
From CC Require Import Proofs.Dispatch Proofs.Machine Proofs.DispatchMachine Proofs.MachineInstLib.
From CC Require Model.PpvSoft Model.JH.
From CC Require Proofs.MachineInstSse Proofs.MachineInstAvx2 Proofs.MachineInstGeneric.
From CC Require Proofs.IntrinsicsLemmas.
Import ListNotations.
Local Open Scope N_scope.

(** * the machine behind each Machine type and each back-end name
    [p] = the build profile (it only matters for the portable code, whose shifts and
    subtractions are overflow-checked in debug builds) *)
Definition machine_of_type (p : PpvSoft.profile) (t : mtype) : machine :=
  match t with
  | TGeneric => MachineInstGeneric.generic_m p
  | TSse s3 _ => MachineInstSse.sse_m s3
  | TAvx2 => MachineInstAvx2.avx2_m
  end.
Definition real_inst (p : PpvSoft.profile) (b : backend) : machine := machine_of_type p (type_of b).

Lemma real_inst_cases : forall p,
  real_inst p Generic = MachineInstGeneric.generic_m p /\
  real_inst p SSE2 = MachineInstSse.sse_m false /\
  real_inst p SSSE3 = MachineInstSse.sse_m true /\
  real_inst p SSE41 = MachineInstSse.sse_m true /\
  real_inst p AVX = MachineInstSse.sse_m true /\
  real_inst p AVX2 = MachineInstAvx2.avx2_m.
Proof. intros p. repeat split; reflexivity. Qed.

Theorem real_inst_refines : forall p b, machine_refines (real_inst p b).
Proof.
  intros p b. unfold real_inst. destruct (type_of b) as [|s3 s4|]; cbn [machine_of_type].
  - apply MachineInstGeneric.generic_m_refines.
  - apply MachineInstSse.sse_m_refines.
  - apply MachineInstAvx2.avx2_m_refines.
Qed.

(** the composed theorem at the real machines: no refinement hypothesis left *)
Theorem backends_agree_real : forall (p : PpvSoft.profile) (c1 c2 : config),
  f_sse2 (cpu_of c1) = true -> f_sse2 (cpu_of c2) = true ->
  (forall k x, rows_ok 32 4 x ->
     on (chacha_narrow (real_inst p) k) c1 x = on (chacha_narrow (real_inst p) k) c2 x /\
     on (chacha_narrow (real_inst p) k) c1 x <> None) /\
  (forall k x, rows_ok 32 16 x ->
     on (chacha_wide (real_inst p) k) c1 x = on (chacha_wide (real_inst p) k) c2 x /\
     on (chacha_wide (real_inst p) k) c1 x <> None) /\
  (forall mss x, msgs_ok 32 mss -> rows_ok 32 4 x ->
     on (blake32 (real_inst p) mss) c1 x = on (blake32 (real_inst p) mss) c2 x /\
     on (blake32 (real_inst p) mss) c1 x <> None) /\
  (forall mss x, msgs_ok 64 mss -> rows_ok 64 4 x ->
     on (blake64 (real_inst p) mss) c1 x = on (blake64 (real_inst p) mss) c2 x /\
     on (blake64 (real_inst p) mss) c1 x <> None) /\
  (forall sched l, sched_ok sched -> length l = 8%nat -> Forall w128 l ->
     on (jh (real_inst p) sched) c1 l = on (jh (real_inst p) sched) c2 l /\
     on (jh (real_inst p) sched) c1 l <> None).
Proof. intros p. exact (backends_agree (real_inst p) (real_inst_refines p)). Qed.

(** every real back end computes the lane-wise result (the executable models of the
    correspondence), whatever the name and the profile *)
Theorem real_backends_are_lane : forall p b,
  (forall k a bb c d,
     words_ok 32 4 a -> words_ok 32 4 bb -> words_ok 32 4 c -> words_ok 32 4 d ->
     chacha_rounds_on (m_u32x4 (real_inst p b)) k a bb c d = chacha_rounds_on (lane_vops 32) k a bb c d) /\
  (forall k a bb c d,
     words_ok 32 16 a -> words_ok 32 16 bb -> words_ok 32 16 c -> words_ok 32 16 d ->
     chacha_rounds_on (m_u32x4x4 (real_inst p b)) k a bb c d = chacha_rounds_on (lane_vops 32) k a bb c d) /\
  (forall xs mss, rows_ok 32 4 xs -> msgs_ok 32 mss ->
     blake32_rounds_on (m_u32x4 (real_inst p b)) xs mss = blake32_rounds_on (lane_vops 32) xs mss) /\
  (forall xs mss, rows_ok 64 4 xs -> msgs_ok 64 mss ->
     blake64_rounds_on (m_u64x4 (real_inst p b)) xs mss = blake64_rounds_on (lane_vops 64) xs mss) /\
  (forall l sched, length l = 8%nat -> Forall w128 l -> sched_ok sched ->
     jh_rounds_on (m_u128 (real_inst p b)) l sched = jh_rounds_on lane_jops l sched).
Proof.
  intros p b. pose proof (real_inst_refines p b) as R. repeat apply conj.
  - intros k a bb c d. exact (proj1 (chacha_round_machine_indep _ R k a bb c d)).
  - intros k a bb c d. exact (proj2 (chacha_round_machine_indep _ R k a bb c d)).
  - intros xs mss Hx Hm. apply (proj1 (blake_round_machine_indep _ R xs mss)); [|exact Hm].
    destruct xs as [[[? ?] ?] ?]. exact Hx.
  - intros xs mss Hx Hm. apply (proj2 (blake_round_machine_indep _ R xs mss)); [|exact Hm].
    destruct xs as [[[? ?] ?] ?]. exact Hx.
  - intros l sched. exact (jh_layer_machine_indep _ R l sched).
Qed.

(** * JH: the lane meaning is the executable form of Model/JH.v
    [model_jops]: carriers are the 128-bit words themselves, the operations are Model/JH.v's
    [not128], [andnot128], [swapk] (mask-and-shift with the source's constants). It refines the
    lane meaning ([notw 128], [swapw (2^j) 128] of Spec/Lanes.v) on words below 2^128; so by
    machine independence the lane-wise round sequence is Model/JH.v's [round] sequence. *)
Definition model_jops : jops :=
  JOps N (N * N) w128 (fun x => w128 (fst x) /\ w128 (snd x)) (fun x => x) (fun x => x) (fun x => x) (fun x => x)
       (fun a b => (a, b)) (fun a i => if i then snd a else fst a)
       N.lxor JH.xor2 JH.and2 JH.or2 JH.andnot2 JH.not2 JH.swapk.

Lemma not128_notw x : x < 2 ^ 128 -> JH.not128 x = notw 128 x.
Proof. intros H. unfold JH.not128, JH.ones128, notw. now rewrite wrap_small. Qed.
Lemma andnot128_lane a b : a < 2 ^ 128 -> JH.andnot128 a b = l_andnot a b.
Proof. intros H. unfold JH.andnot128, l_andnot. now rewrite not128_notw. Qed.

Lemma swapk_swapw_at k n :
  n = 2 ^ N.of_nat k ->
  group_mask (N.to_nat (128 / (2 * n))) n 128 = JH.swap_lo k ->
  JH.swap_amount k = n ->
  N.shiftr (JH.swap_hi k) n = JH.swap_lo k ->
  forall x, JH.swapk k x = swapw (2 ^ N.of_nat k) 128 x.
Proof.
  intros -> Hm Ha Hh x. unfold JH.swapk, swapw. rewrite Hm, Ha, N.shiftr_land, Hh. reflexivity.
Qed.

(** for every word, not only those below 2^128 *)
Theorem swapk_is_swapw : forall k x, (k < 7)%nat -> JH.swapk k x = l_swap k x.
Proof.
  intros k x Hk. unfold l_swap.
  destruct k as [|[|[|[|[|[|[|k]]]]]]]; [| | | | | | | lia].
  - apply (swapk_swapw_at 0%nat 1); vm_compute; reflexivity.
  - apply (swapk_swapw_at 1%nat 2); vm_compute; reflexivity.
  - apply (swapk_swapw_at 2%nat 4); vm_compute; reflexivity.
  - apply (swapk_swapw_at 3%nat 8); vm_compute; reflexivity.
  - apply (swapk_swapw_at 4%nat 16); vm_compute; reflexivity.
  - apply (swapk_swapw_at 5%nat 32); vm_compute; reflexivity.
  - apply (swapk_swapw_at 6%nat 64); vm_compute; reflexivity.
Qed.

Lemma pow2_swaps k : (k < 7)%nat -> In (2 ^ N.of_nat k) [1; 2; 4; 8; 16; 32; 64].
Proof.
  intros Hk. do 7 (destruct k as [|k]; [vm_compute; repeat (first [left; reflexivity | right]) |]). lia.
Qed.

Lemma model_jops_refines : jops_refines model_jops.
Proof.
  constructor; unfold jrel1, jrel2, w128;
    cbn [model_jops j_wf1 j_wf2 j_rep1 j_rep2 j_load j_const j_zip j_ext j_xor1 j_xor2 j_and2 j_or2
         j_andnot2 j_not2 j_swap].
  - intros x Hx. split; [exact Hx | reflexivity].
  - intros x H0 H1. split; [split; assumption | reflexivity].
  - intros a b x y [Ha <-] [Hb <-]. split; [split; assumption | reflexivity].
  - intros a x i [[H0 H1] <-]. destruct i; (split; [assumption | reflexivity]).
  - intros a b x y [Ha <-] [Hb <-]. split; [now apply lxor_lt | reflexivity].
  - intros a b x y [[Ha0 Ha1] <-] [[Hb0 Hb1] <-]. unfold JH.xor2, p2. cbn [fst snd].
    split; [split; now apply lxor_lt | reflexivity].
  - intros a b x y [[Ha0 Ha1] <-] [[Hb0 Hb1] <-]. unfold JH.and2, p2. cbn [fst snd].
    split; [split; now apply IntrinsicsLemmas.land_lt | reflexivity].
  - intros a b x y [[Ha0 Ha1] <-] [[Hb0 Hb1] <-]. unfold JH.or2, p2. cbn [fst snd].
    split; [split; now apply IntrinsicsLemmas.lor_lt | reflexivity].
  - intros a b x y [[Ha0 Ha1] <-] [[Hb0 Hb1] <-]. unfold JH.andnot2, p2. cbn [fst snd].
    rewrite !andnot128_lane by assumption.
    split; [split; unfold l_andnot; now apply IntrinsicsLemmas.land_lt_r | reflexivity].
  - intros a x [[Ha0 Ha1] <-]. unfold JH.not2, l_not. cbn [fst snd].
    rewrite !not128_notw by assumption. split; [split; apply notw_lt' | reflexivity].
  - intros k a x Hk [Ha <-]. rewrite swapk_is_swapw by exact Hk.
    split; [|reflexivity]. unfold l_swap. apply Proofs.PpvSseSwap.swapw_lt; [now apply pow2_swaps | exact Ha].
Qed.

Definition to_x8 (y : jx8 model_jops) : JH.x8 :=
  JH.X8 (q0 y) (q1 y) (q2 y) (q3 y) (q4 y) (q5 y) (q6 y) (q7 y).
Definition x8_list (y : JH.x8) : list N :=
  [JH.y0 y; JH.y1 y; JH.y2 y; JH.y3 y; JH.y4 y; JH.y5 y; JH.y6 y; JH.y7 y].
Definition x8_of_list (l : list N) : JH.x8 :=
  JH.X8 (nth 0 l 0) (nth 1 l 0) (nth 2 l 0) (nth 3 l 0) (nth 4 l 0) (nth 5 l 0) (nth 6 l 0) (nth 7 l 0).

Lemma model_round_is_JH : forall j rc y,
  to_x8 (j_round model_jops j rc y) = JH.round j rc (to_x8 y).
Proof. intros j [c0 c1] [a0 a1 a2 a3 a4 a5 a6 a7]. reflexivity. Qed.

Lemma model_rounds_is_JH : forall sched y,
  to_x8 (j_rounds model_jops y sched) =
  fold_left (fun y jr => JH.round (fst jr) (snd jr) y) sched (to_x8 y).
Proof.
  unfold j_rounds. induction sched as [|[j rc] sched IH]; intros y; cbn [fold_left fst snd]; [reflexivity|].
  rewrite IH, model_round_is_JH. reflexivity.
Qed.

(** the lane-wise JH round sequence is literally Model/JH.v's round sequence *)
Theorem jh_lane_is_model : forall l sched,
  length l = 8%nat -> Forall w128 l -> sched_ok sched ->
  jh_rounds_on lane_jops l sched =
  x8_list (fold_left (fun y jr => JH.round (fst jr) (snd jr) y) sched (x8_of_list l)).
Proof.
  intros l sched Hl Hw Hs.
  rewrite <- (jh_rounds_on_indep model_jops model_jops_refines l sched Hl Hw Hs).
  unfold jh_rounds_on.
  change (x8_of_list l) with (to_x8 (j_load8 model_jops l)).
  rewrite <- model_rounds_is_JH. reflexivity.
Qed.

(** and the whole of Model/JH.v's [e8] (42 rounds with the table constants) is such a sequence *)
Definition e8_sched : list (nat * (N * N)) :=
  flat_map (fun rc => map (fun j => (j, nth j rc (0, 0))) (seq 0 7)) (JH.chunks7 6 JH.rc_table).
Lemma e8_is_rounds : forall y,
  JH.e8 y = fold_left (fun y jr => JH.round (fst jr) (snd jr) y) e8_sched y.
Proof.
  intros y. unfold JH.e8, e8_sched. generalize (JH.chunks7 6 JH.rc_table). intros cs. revert y.
  induction cs as [|rc cs IH]; intros y; cbn [fold_left flat_map]; [reflexivity|].
  rewrite fold_left_app, IH. f_equal.
Qed.
Lemma e8_sched_ok : sched_ok e8_sched.
Proof.
  unfold sched_ok. apply Forall_forall. intros jr Hin.
  assert (H : forallb (fun jr => (fst jr <? 7)%nat && (fst (snd jr) <? 2 ^ 128) && (snd (snd jr) <? 2 ^ 128)) e8_sched = true)
    by (vm_compute; reflexivity).
  rewrite forallb_forall in H. specialize (H jr Hin).
  apply andb_prop in H. destruct H as [H H2]. apply andb_prop in H. destruct H as [H0 H1].
  apply Nat.ltb_lt in H0. apply N.ltb_lt in H1, H2. unfold w128. auto.
Qed.

(** JH's [E8] on every real back end = Model/JH.v's [e8] *)
Theorem real_backends_e8_is_model : forall p b l,
  length l = 8%nat -> Forall w128 l ->
  jh_rounds_on (m_u128 (real_inst p b)) l e8_sched = x8_list (JH.e8 (x8_of_list l)).
Proof.
  intros p b l Hl Hw.
  rewrite (jh_layer_machine_indep _ (real_inst_refines p b) l e8_sched Hl Hw e8_sched_ok).
  change (m_u128 lane_m) with lane_jops.
  rewrite (jh_lane_is_model l e8_sched Hl Hw e8_sched_ok), <- e8_is_rounds. reflexivity.
Qed.

Print Assumptions backends_agree_real.
Print Assumptions real_backends_are_lane.
Print Assumptions jh_lane_is_model.
Print Assumptions real_backends_e8_is_model.
