(** Audit examples (auditor tag HashB) for C05 (Skein), C06 (JH), C09/C10 (Threefish).

    Every main pinned theorem is instantiated at concrete non-trivial data: the hypotheses
    are shown satisfiable and the conclusion is computed.  Vectors marked "paper" are the
    test vectors of appendix C of "The Skein Hash Function Family" v1.3; they are not in
    Spec/KAT_Skein.v (whose non-empty vectors come from the crate's own test suite) and so
    anchor the specification independently on a 1-byte, a one-block and a two-block message.
    Everything here is closed under the global context. *)
From Coq Require Import NArith List Lia Arith Bool.
From CC Require Import Lib.Words Lib.Bytes Lib.ListX.
From CC Require Import Model.Threefish Model.BlockBuffer.
From CC Require Model.Skein Model.JH.
From CC Require Import Proofs.Threefish64 Proofs.BlockBufferLazy.
From CC Require Proofs.JHDigest Proofs.JHRound Proofs.JHRounds Proofs.JHBits.
From CC Require Spec.Threefish Spec.Skein Spec.JH Spec.KAT_Threefish Spec.KAT_Skein Spec.KAT_JH.
From CC Require Props.C05 Props.C06 Props.C09 Props.C10.
Import ListNotations.
Local Open Scope N_scope.

Module ST := Spec.Threefish.
Module SS := Spec.Skein.
Module SJ := Spec.JH.
Module KT := Spec.KAT_Threefish.

Lemma countup_bytes from n : from + N.of_nat n <= 256 -> Forall is_byte (KT.countup from n).
Proof.
  intros H. unfold KT.countup. apply Forall_forall. intros x Hx.
  apply in_map_iff in Hx. destruct Hx as (i & <- & Hi). apply in_seq in Hi. unfold is_byte. lia.
Qed.
Lemma countdown_bytes from n : from < 256 -> Forall is_byte (KT.countdown from n).
Proof.
  intros H. unfold KT.countdown. apply Forall_forall. intros x Hx.
  apply in_map_iff in Hx. destruct Hx as (i & <- & Hi). unfold is_byte. lia.
Qed.

(** * C09 / C10: Threefish *)
Module TF.
Definition key256 := KT.countup 0x10 32.
Definition blk256 := KT.countdown 0xff 32.
Definition tw0 : N := 0x0706050403020100.
Definition tw1 : N := 0x0f0e0d0c0b0a0908.

(* C09 instantiated: model (both unroll settings) = published vector, via the theorem + KAT *)
Example c09_tf256_model_kat nu :
  be_join (m_encrypt threefish256 nu key256 tw0 tw1 blk256)
  = 0xe0d091ff0eea8fdfc98192e62ed80ad59d865d08588df476657056b5955e97df.
Proof.
  rewrite (Props.C09.C09_encrypt_eq_spec threefish256 nu key256 tw0 tw1 blk256
             (or_introl eq_refl) eq_refl).
  exact KT.tf256_kat.
Qed.
Example c09_tf512_model_kat nu :
  be_join (m_encrypt threefish512 nu (KT.countup 0x10 64) tw0 tw1 (KT.countdown 0xff 64))
  = 0xe304439626d45a2cb401cad8d636249a6338330eb06d45dd8b36b90e97254779272a0a8d99463504784420ea18c9a725af11dffea10162348927673d5c1caf3d.
Proof.
  rewrite (Props.C09.C09_encrypt_eq_spec threefish512 nu (KT.countup 0x10 64) tw0 tw1 (KT.countdown 0xff 64)
             (or_intror (or_introl eq_refl)) eq_refl).
  exact KT.tf512_kat.
Qed.
Example c09_tf1024_model_kat nu :
  be_join (m_encrypt threefish1024 nu (KT.countup 0x10 128) tw0 tw1 (KT.countdown 0xff 128))
  = 0xa6654ddbd73cc3b05dd777105aa849bce49372eaaffc5568d254771bab85531c94f780e7ffaae430d5d8af8c70eebbe1760f3b42b737a89cb363490d670314bd8aa41ee63c2e1f45fbd477922f8360b388d6125ea6c7af0ad7056d01796e90c83313f4150a5716b30ed5f569288ae974ce2b4347926fce57de44512177dd7cde.
Proof.
  rewrite (Props.C09.C09_encrypt_eq_spec threefish1024 nu (KT.countup 0x10 128) tw0 tw1 (KT.countdown 0xff 128)
             (or_intror (or_intror eq_refl)) eq_refl).
  exact KT.tf1024_kat.
Qed.
(* direct computation of the model agrees (independent of the theorem) *)
Example c09_tf256_model_computes :
  m_encrypt threefish256 true key256 tw0 tw1 blk256
  = be_split 32 0xe0d091ff0eea8fdfc98192e62ed80ad59d865d08588df476657056b5955e97df
  /\ m_encrypt threefish256 false key256 tw0 tw1 blk256
  = be_split 32 0xe0d091ff0eea8fdfc98192e62ed80ad59d865d08588df476657056b5955e97df.
Proof. split; vm_compute; reflexivity. Qed.

(* C10 instantiated, both orders, non-zero key/tweak; encryption is not the identity here *)
Example c10_tf512_roundtrip nu :
  let key := KT.countup 0x10 64 in let b := KT.countdown 0xff 64 in
  m_decrypt threefish512 nu key tw0 tw1 (m_encrypt threefish512 nu key tw0 tw1 b) = b
  /\ m_encrypt threefish512 nu key tw0 tw1 (m_decrypt threefish512 nu key tw0 tw1 b) = b
  /\ m_encrypt threefish512 nu key tw0 tw1 b <> b
  /\ m_decrypt threefish512 nu key tw0 tw1 b <> b
  /\ m_decrypt threefish512 nu key tw0 tw1 b <> m_encrypt threefish512 nu key tw0 tw1 b.
Proof.
  cbv zeta.
  assert (Hb : Forall is_byte (KT.countdown 0xff 64)) by (apply countdown_bytes; lia).
  split; [apply Props.C10.C10_decrypt_encrypt; [exact std_cfg_512|reflexivity|exact Hb]|].
  split; [apply Props.C10.C10_encrypt_decrypt; [exact std_cfg_512|reflexivity|exact Hb]|].
  destruct nu; (split; [vm_compute; discriminate|split; vm_compute; discriminate]).
Qed.
(* decryption of the published ciphertext, computed *)
Example c10_tf1024_decrypt_kat :
  m_decrypt threefish1024 false (KT.countup 0x10 128) tw0 tw1
    (be_split 128 0xa6654ddbd73cc3b05dd777105aa849bce49372eaaffc5568d254771bab85531c94f780e7ffaae430d5d8af8c70eebbe1760f3b42b737a89cb363490d670314bd8aa41ee63c2e1f45fbd477922f8360b388d6125ea6c7af0ad7056d01796e90c83313f4150a5716b30ed5f569288ae974ce2b4347926fce57de44512177dd7cde)
  = KT.countdown 0xff 128.
Proof. vm_compute. reflexivity. Qed.

(* what C10 does not pin: decryption maps well-formed blocks to well-formed blocks, which
   together with C10_encrypt_decrypt gives surjectivity of E on byte blocks (the "bijection"
   clause of the property); likewise for encryption *)
Lemma bytes_le_bytes k ws : Forall is_byte (bytes_le k ws).
Proof.
  unfold bytes_le. induction ws as [|w ws IH]; [constructor|].
  cbn [flat_map]. apply Forall_app. split; [apply le_split_bytes|exact IH].
Qed.
Lemma c10_decrypt_wellformed c nu key t0 t1 block :
  is_tf_cfg c -> length block = (8 * n_w c)%nat ->
  length (m_decrypt c nu key t0 t1 block) = (8 * n_w c)%nat
  /\ Forall is_byte (m_decrypt c nu key t0 t1 block).
Proof.
  intros Hc Hl. split; [|apply bytes_le_bytes].
  unfold m_decrypt. rewrite bytes_le_length.
  rewrite decrypt_words_length; auto using last_row_length, block_words.
Qed.
Lemma c10_encrypt_wellformed c nu key t0 t1 block :
  is_tf_cfg c -> length block = (8 * n_w c)%nat ->
  length (m_encrypt c nu key t0 t1 block) = (8 * n_w c)%nat
  /\ Forall is_byte (m_encrypt c nu key t0 t1 block).
Proof.
  intros Hc Hl. split; [|apply bytes_le_bytes].
  unfold m_encrypt. rewrite bytes_le_length.
  rewrite encrypt_words_length; auto using last_row_length, block_words.
Qed.
Corollary c10_encrypt_surjective c nu key t0 t1 b :
  is_tf_cfg c -> length b = (8 * n_w c)%nat -> Forall is_byte b ->
  exists a, length a = (8 * n_w c)%nat /\ Forall is_byte a /\ m_encrypt c nu key t0 t1 a = b.
Proof.
  intros Hc Hl Hb. exists (m_decrypt c nu key t0 t1 b).
  destruct (c10_decrypt_wellformed c nu key t0 t1 b Hc Hl) as [L B].
  split; [exact L|]. split; [exact B|]. now apply Props.C10.C10_encrypt_decrypt.
Qed.

(* the byte order shared by model and specification really is little-endian *)
Example words_le_is_little_endian :
  words_le 8 [1;2;3;4;5;6;7;8; 0xff;0;0;0;0;0;0;0x80] = [0x0807060504030201; 0x80000000000000ff]
  /\ bytes_le 8 [0x0807060504030201] = [1;2;3;4;5;6;7;8].
Proof. split; vm_compute; reflexivity. Qed.
End TF.

(** * C05: Skein *)
Module SK.
Import Model.Skein.
(* 70-byte message = 3 Skein-256 blocks (2 full + 6 bytes), fed in 4 update calls, N = 100 bytes
   = 4 output blocks, the last truncated to 4 bytes *)
Definition m70 := KT.countdown 0xff 70.
Definition pieces70 := [firstn 5 m70; []; firstn 40 (skipn 5 m70); skipn 45 m70].

Example c05_256_n100_hyps :
  Forall (Forall is_byte) pieces70 /\ (1 <= 100)%nat /\ 8 * N.of_nat 100 < 2 ^ 64
  /\ N.of_nat (length (concat pieces70)) < 2 ^ 64 /\ concat pieces70 = m70.
Proof.
  assert (H := countdown_bytes 0xff 70 ltac:(lia)). fold m70 in H.
  split.
  { repeat constructor; auto using Forall_firstn', Forall_skipn'. }
  split; [lia|]. split; [reflexivity|]. split; reflexivity.
Qed.

Example c05_256_n100_instance prof nu :
  digest_pieces prof nu skein256 100 pieces70 = Ok (SS.skein SS.skein256p 100 m70).
Proof.
  destruct c05_256_n100_hyps as (H1 & H2 & H3 & H4 & H5).
  rewrite <- H5. now apply Props.C05.C05_skein256_eq_spec.
Qed.

(* the conclusion computes: 100 bytes, both sides, and N enters the configuration block
   (the first 32 bytes differ from Skein-256-256 of the same message) *)
Example c05_256_n100_computes :
  exists d, digest_pieces Debug false skein256 100 pieces70 = Ok d
    /\ SS.skein SS.skein256p 100 m70 = d /\ length d = 100%nat
    /\ firstn 32 d <> SS.skein SS.skein256p 32 m70
    /\ be_join (firstn 8 d) = be_join (firstn 8 (SS.skein SS.skein256p 100 m70)).
Proof.
  eexists. split; [vm_compute; reflexivity|].
  split; [vm_compute; reflexivity|]. split; [reflexivity|].
  split; [vm_compute; discriminate|vm_compute; reflexivity].
Qed.

(* vectors of the Skein 1.3 paper (appendix C), not in KAT_Skein.v: 1 byte, exactly one block,
   exactly two blocks (the lazy hold-back of a full final block) *)
Example paper_256_ff : be_join (SS.skein SS.skein256p 32 [0xff]) =
  0x0B98DCD198EA0E50A7A244C444E25C23DA30C10FC9A1F270A6637F1F34E67ED2.
Proof. vm_compute. reflexivity. Qed.
Example paper_256_32 : be_join (SS.skein SS.skein256p 32 (KT.countdown 0xff 32)) =
  0x8D0FA4EF777FD759DFD4044E6F6A5AC3C774AEC943DCFC07927B723B5DBF408B.
Proof. vm_compute. reflexivity. Qed.
Example paper_256_64 : be_join (SS.skein SS.skein256p 32 (KT.countdown 0xff 64)) =
  0xDF28E916630D0B44C4A849DC9A02F07A07CB30F732318256B15D865AC4AE162F.
Proof. vm_compute. reflexivity. Qed.
Example paper_512_ff : be_join (SS.skein SS.skein512p 64 [0xff]) =
  0x71B7BCE6FE6452227B9CED6014249E5BF9A9754C3AD618CCC4E0AAE16B316CC8CA698D864307ED3E80B6EF1570812AC5272DC409B5A012DF2A579102F340617A.
Proof. vm_compute. reflexivity. Qed.
Example paper_512_64 : be_join (SS.skein SS.skein512p 64 (KT.countdown 0xff 64)) =
  0x45863BA3BE0C4DFC27E75D358496F4AC9A736A505D9313B42B2F5EADA79FC17F63861E947AFB1D056AA199575AD3F8C9A3CC1780B5E5FA4CAE050E989876625B.
Proof. vm_compute. reflexivity. Qed.
Example paper_512_128 : be_join (SS.skein SS.skein512p 64 (KT.countdown 0xff 128)) =
  0x91CCA510C263C4DDD010530A33073309628631F308747E1BCBAA90E451CAB92E5188087AF4188773A332303E6667A7A210856F742139000071F48E8BA2A5ADB7.
Proof. vm_compute. reflexivity. Qed.

(* the model, through the theorem, returns the paper's two-block vector; message split inside
   the first block and exactly at the block boundary *)
Example c05_256_paper_64_model prof nu :
  let m := KT.countdown 0xff 64 in
  digest_pieces prof nu skein256 32 [firstn 32 m; skipn 32 m]
  = Ok (be_split 32 0xDF28E916630D0B44C4A849DC9A02F07A07CB30F732318256B15D865AC4AE162F).
Proof.
  cbv zeta. assert (H := countdown_bytes 0xff 64 ltac:(lia)).
  rewrite Props.C05.C05_skein256_eq_spec.
  - vm_compute. reflexivity.
  - repeat constructor; auto using Forall_firstn', Forall_skipn'.
  - lia.
  - reflexivity.
  - reflexivity.
Qed.

(* Skein-1024 with a second and third message block and an output length that is not a multiple
   of 8 (the crate's tests never reach a second Skein-1024 block) *)
Definition m300 := KT.countdown 0xff 200 ++ KT.countdown 0xff 100.
Example c05_1024_300_n13 prof nu :
  digest_pieces prof nu skein1024 13 [firstn 129 m300; skipn 129 m300] = Ok (SS.skein SS.skein1024p 13 m300).
Proof.
  assert (H : Forall is_byte m300) by (apply Forall_app; split; apply countdown_bytes; lia).
  rewrite Props.C05.C05_skein1024_eq_spec.
  - cbn [concat]. rewrite app_nil_r, firstn_skipn. reflexivity.
  - repeat constructor; auto using Forall_firstn', Forall_skipn'.
  - lia.
  - reflexivity.
  - reflexivity.
Qed.
Example c05_1024_300_n13_computes :
  digest_pieces Release true skein1024 13 [firstn 129 m300; skipn 129 m300]
  = Ok (SS.skein SS.skein1024p 13 m300)
  /\ length (SS.skein SS.skein1024p 13 m300) = 13%nat
  /\ SS.skein SS.skein1024p 13 m300 <> firstn 13 (SS.skein SS.skein1024p 128 m300).
Proof. split; [vm_compute; reflexivity|split; [vm_compute; reflexivity|vm_compute; discriminate]]. Qed.

(* empty message: no update call at all, and one empty update call *)
Example c05_empty_model prof nu :
  digest_pieces prof nu skein512 64 [] = Ok (SS.skein SS.skein512p 64 [])
  /\ digest_pieces prof nu skein512 64 [[]] = Ok (SS.skein SS.skein512p 64 []).
Proof.
  split; rewrite Props.C05.C05_skein512_eq_spec; try reflexivity; try lia; repeat constructor.
Qed.
Example c05_empty_model_computes :
  digest_pieces Debug false skein512 64 [] =
  Ok (be_split 64 0xbc5b4c50925519c290cc634277ae3d6257212395cba733bbad37a4af0fa06af41fca7903d06564fea7a2d3730dbdb80c1f85562dfcc070334ea4d1d9e72cba7a).
Proof. vm_compute. reflexivity. Qed.

(* C05_skein_lazy_schedule instantiated on a fresh hasher and exactly two blocks: hypotheses hold;
   one non-final step, then the held-back full block as FINAL with position 64 *)
Example c05_lazy_schedule_instance :
  let m := KT.countdown 0xff 64 in
  let x := SS.iv SS.skein256p 256 in
  exists buf,
    bind (updates Debug false skein256
            (Hs (St 0 (N.shiftl SS.T_MSG 56 + N.shiftl 1 62 + 0) x) (bb_new 32)) [firstn 40 m; skipn 40 m])
         (finalize_message Debug false skein256)
    = Ok (St 64 (N.shiftl SS.T_MSG 56 + 0 + N.shiftl 1 63)
            (SS.ubi_block SS.skein256p
               (SS.ubi_block SS.skein256p x (SS.tweak 32 SS.T_MSG true false) (firstn 32 m))
               (SS.tweak 64 SS.T_MSG false true) (skipn 32 m)), buf).
Proof.
  cbv zeta.
  assert (H := countdown_bytes 0xff 64 ltac:(lia)).
  destruct (Props.C05.C05_skein_lazy_schedule Debug false skein256 SS.skein256p
              (or_introl (conj eq_refl eq_refl)) (SS.iv SS.skein256p 256) 0 true (bb_new 32)
              [firstn 40 (KT.countdown 0xff 64); skipn 40 (KT.countdown 0xff 64)])
    as (buf & E & _).
  - split; cbn; lia.
  - reflexivity.
  - constructor.
  - repeat constructor; auto using Forall_firstn', Forall_skipn'.
  - reflexivity.
  - exists buf. rewrite E. reflexivity.
Qed.

(* paper vector of Skein-1024-1024 *)
Example paper_1024_ff : be_join (SS.skein SS.skein1024p 128 [0xff]) =
  0xE62C05802EA0152407CDD8787FDA9E35703DE862A4FBC119CFF8590AFE79250BCCC8B3FAF1BD2422AB5C0D263FB2F8AFB3F796F048000381531B6F00D85161BC0FFF4BEF2486B1EBCD3773FABF50AD4AD5639AF9040E3F29C6C931301BF79832E9DA09857E831E82EF8B4691C235656515D437D2BDA33BCEC001C67FFDE15BA8.
Proof. vm_compute. reflexivity. Qed.


(* C05_skein_default_eq_iv at N = 100: the configuration block carries 800 bits, and that
   chaining value differs from the one for N = 32 *)
Example c05_default_n100 :
  default Debug false skein256 100 =
  Ok (Hs (St 0 (N.shiftl SS.T_MSG 56 + N.shiftl 1 62 + 0) (SS.iv SS.skein256p 800)) (bb_new 32))
  /\ SS.iv SS.skein256p 800 <> SS.iv SS.skein256p 256
  /\ nth 8 (SS.config_string 800) 0 = 0x20 /\ nth 9 (SS.config_string 800) 0 = 0x03.
Proof.
  split.
  - apply (Props.C05.C05_skein_default_eq_iv Debug false skein256 SS.skein256p
             (or_introl (conj eq_refl eq_refl)) 100). reflexivity.
  - split; [vm_compute; discriminate|split; reflexivity].
Qed.
End SK.

(** * C06: JH *)
Module JHX.
Import Model.JH Proofs.JHDigest Proofs.JHRound Proofs.JHRounds Proofs.JHBits.
(* C06_f8_eq_spec at a non-trivial state (the JH-256 initial value) and a non-zero block:
   hypotheses hold, both sides compute to the same 128 bytes, and F8 changes the state *)
Definition blk64 : list N := map (fun i => (N.of_nat i * 37 + 11) mod 256) (seq 0 64).
Example c06_f8_hyps :
  length JH256_H0 = 128%nat /\ Forall is_byte JH256_H0 /\ length blk64 = 64%nat /\ Forall is_byte blk64.
Proof.
  split; [reflexivity|]. split; [apply be_split_bytes|]. split; [reflexivity|].
  unfold blk64. apply Forall_forall. intros x Hx. apply in_map_iff in Hx. destruct Hx as (i & <- & _).
  unfold is_byte. apply N.mod_lt. discriminate.
Qed.
Example c06_f8_instance : m_f8 JH256_H0 blk64 = SJ.F8 JH256_H0 blk64.
Proof. destruct c06_f8_hyps as (A & B & C & D). now apply Props.C06.C06_f8_eq_spec. Qed.
Example c06_f8_computes :
  exists out, m_f8 JH256_H0 blk64 = out /\ SJ.F8 JH256_H0 blk64 = out
    /\ length out = 128%nat /\ out <> JH256_H0
    /\ firstn 64 out <> firstn 64 (m_f8 JH256_H0 (repeat 0 64)).
Proof.
  eexists. split; [vm_compute; reflexivity|]. split; [vm_compute; reflexivity|].
  split; [reflexivity|]. split; vm_compute; discriminate.
Qed.

(* the digest theorem instantiated at a NIST vector that takes the unaligned padding branch
   (65 bytes: one full block, then ISO7816 block and length block) *)
Example c06_jh256_len65_model p :
  m_digest p Jh256 (be_split 65 0x16e8b3d8f988e9bb04de9c96f2627811c973ce4a5296b4772ca3eefeb80a652bdf21f50df79f32db23f9f73d393b2d57d9a0297f7a2f2e79cfda39fa393df1ac00)
  = Some (be_split 32 0x334f80e3a32b128528267a1541821dda9ea69199ce506f6e88dcbf35ebb80f4e).
Proof.
  rewrite Props.C06.C06_jh256_eq_spec.
  - apply f_equal. exact Spec.KAT_JH.jh256_len65.
  - apply be_split_bytes.
  - reflexivity.
Qed.
(* the model alone (no theorem) computes a 200-byte NIST vector of JH-512 (aligned branch not taken;
   3 full blocks + 8 bytes) and the four empty-message digests *)
Example c06_jh512_len200_model_computes :
  m_digest Release Jh512 (be_split 200 0x8c3798e51bc68482d7337d3abb75dc9ffe860714a9ad73551e120059860dde24ab87327222b64cf774415a70f724cdf270de3fe47dda07b61c9ef2a3551f45a5584860248fabde676e1cd75f6355aa3eaeabe3b51dc813d9fb2eaa4f0f1d9f834d7cad9c7c695ae84b329385bc0bef895b9f1edf44a03d4b410cc23a79a6b62e4f346a5e8dd851c2857995ddbf5b2d717aeb847310e1f6a46ac3d26a7f9b44985af656d2b7c9406e8a9e8f47dcb4ef6b83caacf9aefb6118bfcff7e44bef6937ebddc89186839b77)
  = Some (be_split 64 0x598b79981ec49e93c1bfa7af343d3c5b18c798200e4f774ddfca64dfd17c0dff5038710d51fc1777f89541a454f967688cbab1eaf498993821493022025420f4).
Proof. vm_compute. reflexivity. Qed.
Example c06_empty_digests_model :
  m_digest Debug Jh224 [] = Some (be_split 28 0x2c99df889b019309051c60fecc2bd285a774940e43175b76b2626630)
  /\ m_digest Debug Jh256 [] = Some (be_split 32 0x46e64619c18bb0a92a5e87185a47eef83ca747b8fcc8e1412921357e326df434)
  /\ m_digest Debug Jh384 [] = Some (be_split 48 0x2fe5f71b1b3290d3c017fb3c1a4d02a5cbeb03a0476481e25082434a881994b0ff99e078d2c16b105ad069b569315328)
  /\ m_digest Debug Jh512 [] = Some (be_split 64 0x90ecf2f76f9d2c8017d979ad5ab96b87d58fc8fc4b83060f3f900774faa2c8fabe69c5f4ff1ec2b61d6b316941cedee117fb04b1f4c5bc1b919ae841c50eec4f).
Proof. repeat split; vm_compute; reflexivity. Qed.

(* aligned branch: 128-byte message = 2 blocks + ONE padding block; 129 bytes = 2 + TWO *)
Example c06_schedule_counts :
  (exists bl, m_blocks Debug Jh256 (repeat 7 128) = Some bl /\ length bl = 3%nat)
  /\ (exists bl, m_blocks Debug Jh256 (repeat 7 129) = Some bl /\ length bl = 4%nat).
Proof. split; eexists; (split; [vm_compute; reflexivity|reflexivity]). Qed.

(* C06_round_eq_spec / constants at the last round, on a concrete state *)
Example c06_round41_instance :
  let y := compressor_new JH256_H0 in
  Spec.JH.R (gather (posT (41 mod 7)%nat) (cols y)) (nth 41 Spec.JH.round_consts [])
  = gather (posT (42 mod 7)%nat) (cols (round (41 mod 7)%nat (nth 41 rc_table (0, 0)) y)).
Proof. cbv zeta. apply Props.C06.C06_round_eq_spec. lia. Qed.

(* the position tables in the statements of C06_round_eq_spec / C06_bitslice_constants_eq_spec
   are permutations of the 256 (parity, column) positions, so those statements lose nothing *)
Example c06_posT_permutations :
  forallb (fun r => (length (posT r) =? 256)%nat &&
                    forallb (fun t => existsb (N.eqb (N.of_nat t)) (posT r)) (seq 0 256))
          (seq 0 7) = true.
Proof. vm_compute. reflexivity. Qed.

End JHX.
