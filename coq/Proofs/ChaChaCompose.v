(** C01, end to end: the model of the seven ChaCha cipher types (constructor, then ANY finite
    history of seek / apply_keystream / current_pos, run with the real block producers of
    Model/ChaChaGuts.v through the buffer logic of Model/ChaChaStream.v) is the abstract
    position machine over the key stream of the SPECIFICATION Spec/ChaCha.v:

      key-stream byte at absolute position p = byte (p mod 64) of
        Spec.ChaCha.spec_block layout drounds key nonce (p / 64)

    (djb: 64-bit block counter in words 12,13 + 8-byte nonce; IETF: 32-bit counter in word 12 +
    12-byte nonce; X: HChaCha subkey, then the djb layout on the last 8 nonce bytes), and no
    step panics.

    Glue of  C02_real_model_history_correct (Proofs/ChaChaStreamReal.v: the model run is the
    abstract machine over the MODEL's [refill] on the states [stA s0 q])  with
    C01_block_djb / C01_block_ietf / C01_block_x (Proofs/ChaChaGuts.v: [refill] of the
    constructed state seeked to block [ctr] is the specified block [ctr]). *)
From Coq Require Import NArith ZArith List Lia Arith Bool ZifyBool ZifyN ZifyNat.
From CC Require Import Lib.Words Lib.Bytes Lib.ListX Model.ChaChaGuts Model.ChaChaStream.
From CC Require Import Proofs.ChaChaGutsWords Proofs.ChaChaGuts Proofs.ChaChaGutsWide.
From CC Require Import Proofs.ChaChaStreamCtr Proofs.ChaChaStreamLoops Proofs.ChaChaStreamSpec
  Proofs.ChaChaStreamHist Proofs.ChaChaStreamMain Proofs.ChaChaStreamReal.
From CC Require Spec.ChaCha.
Import ListNotations.
Ltac Zify.zify_post_hook ::= Z.div_mod_to_equations.
Local Open Scope N_scope.

Module S := Spec.ChaCha.

(** * 1. The block function of the specification, as a function of the state's counter *)

Definition layout_of (v : variant) : S.layout :=
  match v with VDjb => S.Djb | VIetf => S.Ietf | VX => S.XDjb end.

(** the block counter held by a state: word 12 (IETF), words 12,13 (djb, X) *)
Definition ctr_of (v : variant) (s : chacha) : N :=
  match v with
  | VIetf => nth 0 (cd s) 0
  | _ => nth 0 (cd s) 0 + 2 ^ 32 * nth 1 (cd s) 0
  end.

(** defined from Spec/ChaCha.v and the counter of the state only: key, nonce and round count
    come from the arguments, NOT from the state *)
Definition spec_block_fn (v : variant) (drounds : nat) (key nonce : list N) : chacha -> list N :=
  fun s => S.spec_block (layout_of v) drounds key nonce (ctr_of v s).

Definition nonce_len (v : variant) : nat := match v with VDjb => 8 | VIetf => 12 | VX => 24 end.

Lemma nblocks_blocks_of v : nblocks (is12_of v) = S.blocks_of (layout_of v).
Proof. destruct v; reflexivity. Qed.

(** * 2. Extensionality of the abstract machine in its block function, on the counters it can reach *)

Section Ext.
  Variables (blk blk' : chacha -> list N) (is12 : bool) (s0 : chacha).
  Hypothesis Hext : forall k, k < nblocks is12 -> kblock blk is12 s0 k = kblock blk' is12 s0 k.

  Lemma keystream_ext n : forall p, p + N.of_nat n <= stream_bytes is12 ->
    keystream blk is12 s0 p n = keystream blk' is12 s0 p n.
  Proof.
    unfold stream_bytes. induction n as [|n IH]; intros p Hp; [reflexivity|].
    cbn [keystream]. f_equal.
    - unfold ks_byte. rewrite Hext by lia. reflexivity.
    - apply IH. lia.
  Qed.

  Lemma spec_step_ext pos o : spec_step blk is12 s0 pos o = spec_step blk' is12 s0 pos o.
  Proof.
    destruct o as [p|data|tmax]; cbn [spec_step]; try reflexivity.
    destruct (N.leb_spec (pos + N.of_nat (length data)) (stream_bytes is12)) as [H|H]; [|reflexivity].
    rewrite keystream_ext by exact H. reflexivity.
  Qed.

  Lemma spec_run_ext ops : forall pos, spec_run blk is12 s0 pos ops = spec_run blk' is12 s0 pos ops.
  Proof.
    induction ops as [|o r IH]; intros pos; [reflexivity|].
    cbn [spec_run]. rewrite spec_step_ext. destruct (spec_step blk' is12 s0 pos o) as [pos' ob].
    rewrite IH. reflexivity.
  Qed.
End Ext.

(** * 3. The glue: the model's block at counter [k] of the stream is the specified block [k] *)

Lemma stA_ietf s0 k : length (cd s0) = 4%nat -> nth 0 (cd s0) 0 = 0 -> nth 1 (cd s0) 0 < 2 ^ 32 -> k < 2 ^ 32 ->
  stA s0 (nth 1 (cd s0) 0 * 2 ^ 32 + k) = seek32 s0 k.
Proof.
  intros Hl H0 H1 Hk. destruct (cd s0) as [|d0 [|d1 [|d2 [|d3 [|]]]]] eqn:Hd; try discriminate.
  rewrite (stA_words s0 _ d0 d1 d2 d3 Hd). unfold seek32. rewrite Hd. cbn [upd nth] in *.
  rewrite wrap_small by exact Hk. f_equal. f_equal; [|f_equal]; lia.
Qed.

Section Glue.
  Variables (v : variant) (drounds : nat) (key nonce : list N).
  Hypothesis Hkl : length key = 32%nat.
  Hypothesis Hn : Forall is_byte nonce.
  Hypothesis Hnl : length nonce = nonce_len v.
  Set Default Proof Using "All".

  Let s0 := init_of v drounds key nonce.
  Let is12 := is12_of v.

  Lemma init_stream_init : stream_init is12 s0.
  Proof. apply stream_init_of; [exact Hn | destruct v; exact Hnl]. Qed.

  (** the state of the stream for block [k] *)
  Definition block_state (k : N) : chacha := stA s0 (ctr_base is12 s0 + k).

  (** [fst (refill (state at block k))] = the specified block [k], for every [k] the layout offers
      ([k < 2^64] for djb and X, [k < 2^32] for IETF) *)
  Theorem refill_block_state_eq_spec k : k < S.blocks_of (layout_of v) ->
    fst (refill (block_state k) drounds) = S.spec_block (layout_of v) drounds key nonce k.
  Proof.
    intros Hk. destruct init_stream_init as (Hl & Hw1 & Hw0 & Hw1').
    unfold block_state, ctr_base. subst s0 is12. destruct v; cbn [is12_of init_of layout_of S.blocks_of nonce_len] in *.
    - rewrite N.add_0_l. unfold stA. rewrite wrap_small by exact Hk. apply block_djb; assumption.
    - rewrite stA_ietf by assumption. apply block_ietf; assumption.
    - rewrite N.add_0_l. unfold stA. rewrite wrap_small by exact Hk. apply block_x; assumption.
  Qed.

  (** the counter held by that state is [k] *)
  Lemma ctr_of_block_state k : k < S.blocks_of (layout_of v) -> ctr_of v (block_state k) = k.
  Proof.
    intros Hk. destruct init_stream_init as (Hl & Hw1 & Hw0 & Hw1').
    unfold block_state, ctr_base. subst s0 is12.
    destruct (cd (init_of v drounds key nonce)) as [|d0 [|d1 [|d2 [|d3 [|]]]]] eqn:Hd; try discriminate.
    rewrite (stA_words _ _ d0 d1 d2 d3 Hd).
    destruct v; cbn [is12_of layout_of S.blocks_of ctr_of cd nth] in *; lia.
  Qed.

  Lemma kblock_real_eq_spec k : k < nblocks is12 ->
    kblock (fun s => fst (refill s drounds)) is12 s0 k = S.spec_block (layout_of v) drounds key nonce k.
  Proof. intros Hk. unfold is12 in Hk. rewrite nblocks_blocks_of in Hk. exact (refill_block_state_eq_spec k Hk). Qed.

  Lemma kblock_spec_fn k : k < nblocks is12 ->
    kblock (spec_block_fn v drounds key nonce) is12 s0 k = S.spec_block (layout_of v) drounds key nonce k.
  Proof.
    intros Hk. unfold is12 in Hk. rewrite nblocks_blocks_of in Hk.
    unfold kblock, rawblock, spec_block_fn. fold (block_state k). rewrite ctr_of_block_state by exact Hk. reflexivity.
  Qed.

  (** hence the key-stream byte of the abstract machine over [spec_block_fn] at an absolute position
      [p] inside the stream: byte [p mod 64] of the specified block [p / 64] *)
  Lemma ks_byte_spec_fn p : p < 64 * S.blocks_of (layout_of v) ->
    ks_byte (spec_block_fn v drounds key nonce) is12 s0 p
    = nth (N.to_nat (p mod 64)) (S.spec_block (layout_of v) drounds key nonce (p / 64)) 0.
  Proof.
    intros Hp. unfold ks_byte. rewrite kblock_spec_fn; [reflexivity|].
    unfold is12. rewrite nblocks_blocks_of. lia.
  Qed.
End Glue.

(** * 4. End to end: every history of the model is the abstract machine over the specified key stream *)

Theorem apply_keystream_eq_spec v drounds key nonce ops :
  Forall is_byte key -> length key = 32%nat -> Forall is_byte nonce ->
  length nonce = (match v with VDjb => 8 | VIetf => 12 | VX => 24 end)%nat ->
  Forall op_ok ops ->
  m_run v drounds key nonce ops
    = spec_run (spec_block_fn v drounds key nonce) (is12_of v) (init_of v drounds key nonce) 0 ops
  /\ existsb obs_panics (m_run v drounds key nonce ops) = false.
Proof.
  intros Hk Hkl Hn Hnl Hops.
  destruct (real_history_correct v drounds key nonce ops Hk Hkl Hn Hnl Hops) as [E NP].
  split; [|exact NP]. rewrite E. apply spec_run_ext. intros k Hk'.
  assert (Hnl' : length nonce = nonce_len v) by (destruct v; exact Hnl).
  rewrite (kblock_real_eq_spec v drounds key nonce Hkl Hn Hnl' k Hk').
  rewrite (kblock_spec_fn v drounds key nonce Hkl Hn Hnl' k Hk').
  reflexivity.
Qed.

(** * 5. The same against a machine written with Spec/ChaCha.v alone
    ([S.spec_apply] = xor with [S.spec_keystream], [S.blocks_of]); no model state in sight *)

Section SpecMachine.
  Variables (l : S.layout) (drounds : nat) (key nonce : list N).

  (** total key-stream length in bytes: 2^38 (IETF) or 2^70 *)
  Definition spec_limit : N := 64 * S.blocks_of l.

  Definition machine_step (pos : N) (o : op) : N * obs :=
    match o with
    | OSeek p =>
        if ((0 <=? p) && (p <? 2 ^ 64) && (p <=? Z.of_N spec_limit))%Z
        then (Z.to_N p, ObsSeek ROk) else (pos, ObsSeek RErr)
    | OApply data =>
        if pos + N.of_nat (length data) <=? spec_limit
        then (pos + N.of_nat (length data), ObsApply ROk (S.spec_apply l drounds key nonce pos data))
        else (pos, ObsApply RErr data)
    | OPos tmax => (pos, ObsPos (if (Z.of_N pos <=? tmax)%Z then Some (Z.of_N pos) else None))
    end.

  Fixpoint machine_run (pos : N) (ops : list op) : list obs :=
    match ops with
    | [] => []
    | o :: r => let '(pos', ob) := machine_step pos o in ob :: machine_run pos' r
    end.
End SpecMachine.

(** [S.spec_keystream] (block-wise, with fuel) is the byte-wise key stream of the abstract machine *)
Section KS.
  Variables (v : variant) (drounds : nat) (key nonce : list N).
  Hypothesis Hk : Forall is_byte key.
  Hypothesis Hkl : length key = 32%nat.
  Hypothesis Hn : Forall is_byte nonce.
  Hypothesis Hnl : length nonce = nonce_len v.
  Set Default Proof Using "All".

  Let s0 := init_of v drounds key nonce.
  Let is12 := is12_of v.
  Let l := layout_of v.
  Let blk := fun s => fst (refill s drounds).
  Let lim := stream_bytes is12.

  Lemma Hnl' : length nonce = (match v with VDjb => 8 | VIetf => 12 | VX => 24 end)%nat.
  Proof. destruct v; exact Hnl. Qed.

  Lemma blk_len q : length (blk (stA s0 q)) = 64%nat.
  Proof.
    exact (proj1 (real_producers_wf drounds s0 (init_of_wf v drounds key nonce Hk Hkl Hn Hnl')) q).
  Qed.

  Lemma spec_block_kblock k : k < nblocks is12 -> S.spec_block l drounds key nonce k = kblock blk is12 s0 k.
  Proof. intros H. symmetry. apply kblock_real_eq_spec; assumption. Qed.

  Lemma keystream_from_eq fuel : forall b off n,
    (off <= 64)%nat -> (off + n <= 64 * fuel)%nat -> 64 * b + N.of_nat off + N.of_nat n <= lim ->
    S.spec_keystream_from l drounds key nonce b off n fuel = keystream blk is12 s0 (64 * b + N.of_nat off) n.
  Proof.
    unfold lim, stream_bytes.
    induction fuel as [|f IH]; intros b off n Ho Hf Hlim.
    - replace n with 0%nat by lia. reflexivity.
    - cbn [S.spec_keystream_from].
      destruct n as [|n'].
      { cbn [Nat.leb firstn keystream]. reflexivity. }
      set (n := S n') in *.
      assert (Hb : b < nblocks is12) by lia.
      rewrite spec_block_kblock by exact Hb.
      rewrite skipn_length, (kblock_length blk is12 s0 blk_len).
      destruct (Nat.leb_spec n (64 - off)) as [Hle|Hgt].
      + symmetry. apply (keystream_in_block blk is12 s0 blk_len). lia.
      + replace n with ((64 - off) + (n - (64 - off)))%nat at 2 by lia.
        rewrite (keystream_add blk is12 s0 blk_len).
        rewrite (keystream_in_block blk is12 s0 blk_len) by lia.
        rewrite firstn_all2 by (rewrite skipn_length, (kblock_length blk is12 s0 blk_len); lia).
        f_equal. rewrite IH by lia. f_equal. lia.
  Qed.

  Lemma spec_keystream_eq p n : p + N.of_nat n <= lim ->
    S.spec_keystream l drounds key nonce p n = keystream blk is12 s0 p n.
  Proof.
    intros H. unfold S.spec_keystream.
    pose proof (Nat.div_mod n 64 ltac:(lia)) as Hd.
    pose proof (Nat.mod_upper_bound n 64 ltac:(lia)) as Hm.
    rewrite keystream_from_eq.
    - f_equal. lia.
    - lia.
    - lia.
    - lia.
  Qed.

  (** byte [i] of [S.spec_keystream p n] is byte [(p+i) mod 64] of the specified block [(p+i)/64] *)
  Lemma spec_keystream_nth p n i : p + N.of_nat n <= spec_limit l -> (i < n)%nat ->
    nth i (S.spec_keystream l drounds key nonce p n) 0
    = nth (N.to_nat ((p + N.of_nat i) mod 64)) (S.spec_block l drounds key nonce ((p + N.of_nat i) / 64)) 0.
  Proof.
    intros H Hi. unfold spec_limit, l in H. rewrite <- nblocks_blocks_of in H. fold is12 in H.
    rewrite spec_keystream_eq by exact H.
    rewrite (keystream_nth blk is12 s0 blk_len) by exact Hi. unfold ks_byte.
    rewrite spec_block_kblock by lia. reflexivity.
  Qed.

  Lemma machine_step_eq pos o :
    spec_step blk is12 s0 pos o = machine_step l drounds key nonce pos o.
  Proof.
    assert (El : spec_limit l = lim) by (unfold spec_limit, lim, stream_bytes, l, is12; rewrite nblocks_blocks_of; reflexivity).
    destruct o as [p|data|tmax]; cbn [spec_step machine_step]; try reflexivity.
    - rewrite El. replace (seek_in_rangeb is12 p) with ((0 <=? p) && (p <? 2 ^ 64) && (p <=? Z.of_N lim))%Z; [reflexivity|].
      unfold seek_in_rangeb, lim, stream_bytes, nblocks. destruct is12; cbn [negb orb]; [reflexivity|].
      rewrite andb_true_r. destruct (0 <=? p)%Z eqn:E0, (p <? 2 ^ 64)%Z eqn:E1; cbn [andb]; try reflexivity. lia.
    - rewrite El. fold lim.
      destruct (N.leb_spec (pos + N.of_nat (length data)) lim) as [H|H]; [|reflexivity].
      unfold S.spec_apply. rewrite spec_keystream_eq by exact H. reflexivity.
  Qed.

  Lemma machine_run_eq ops : forall pos,
    spec_run blk is12 s0 pos ops = machine_run l drounds key nonce pos ops.
  Proof.
    induction ops as [|o r IH]; intros pos; [reflexivity|].
    cbn [spec_run machine_run]. rewrite machine_step_eq.
    destruct (machine_step l drounds key nonce pos o) as [pos' ob]. rewrite IH. reflexivity.
  Qed.
End KS.

Theorem model_history_eq_spec_machine v drounds key nonce ops :
  Forall is_byte key -> length key = 32%nat -> Forall is_byte nonce ->
  length nonce = (match v with VDjb => 8 | VIetf => 12 | VX => 24 end)%nat ->
  Forall op_ok ops ->
  m_run v drounds key nonce ops = machine_run (layout_of v) drounds key nonce 0 ops
  /\ existsb obs_panics (m_run v drounds key nonce ops) = false.
Proof.
  intros Hk Hkl Hn Hnl Hops.
  destruct (real_history_correct v drounds key nonce ops Hk Hkl Hn Hnl Hops) as [E NP].
  split; [|exact NP]. rewrite E. apply machine_run_eq; assumption.
Qed.

(** * 6. Corollaries in the most readable form: seek to [p], then apply = xor with the specified key stream *)

Lemma machine_run_app l drounds key nonce pre : forall pos post,
  exists pos', machine_run l drounds key nonce pos (pre ++ post)
             = machine_run l drounds key nonce pos pre ++ machine_run l drounds key nonce pos' post.
Proof.
  induction pre as [|o r IH]; intros pos post.
  - exists pos. reflexivity.
  - cbn [app machine_run]. destruct (machine_step l drounds key nonce pos o) as [pos1 ob].
    destruct (IH pos1 post) as [pos' E]. exists pos'. rewrite E. reflexivity.
Qed.

Lemma machine_seek_apply l drounds key nonce pos p data :
  p < 2 ^ 64 -> p + N.of_nat (length data) <= 64 * S.blocks_of l ->
  machine_run l drounds key nonce pos [OSeek (Z.of_N p); OApply data]
  = [ObsSeek ROk; ObsApply ROk (S.spec_apply l drounds key nonce p data)].
Proof.
  intros Hp Hfit. cbn [machine_run machine_step]. unfold spec_limit.
  replace ((0 <=? Z.of_N p) && (Z.of_N p <? 2 ^ 64) && (Z.of_N p <=? Z.of_N (64 * S.blocks_of l)))%Z with true by lia.
  rewrite N2Z.id.
  replace (p + N.of_nat (length data) <=? 64 * S.blocks_of l) with true by lia.
  reflexivity.
Qed.

(** after ANY history [pre] (and in particular after none): seek to byte position [p], then
    apply_keystream on [data] with [p + |data|] within the key stream (2^38 bytes for IETF, 2^70
    otherwise; [p] itself must be a u64): both succeed and the output is
    [data xor S.spec_keystream layout drounds key nonce p |data|] *)
Theorem seek_apply_after_history_eq_spec v drounds key nonce pre p data :
  Forall is_byte key -> length key = 32%nat -> Forall is_byte nonce ->
  length nonce = (match v with VDjb => 8 | VIetf => 12 | VX => 24 end)%nat ->
  Forall op_ok pre -> N.of_nat (length data) < 2 ^ 64 ->
  p < 2 ^ 64 -> p + N.of_nat (length data) <= 64 * S.blocks_of (layout_of v) ->
  m_run v drounds key nonce (pre ++ [OSeek (Z.of_N p); OApply data])
  = m_run v drounds key nonce pre
    ++ [ObsSeek ROk; ObsApply ROk (S.spec_apply (layout_of v) drounds key nonce p data)].
Proof.
  intros Hk Hkl Hn Hnl Hpre Hd Hp Hfit.
  assert (Hops : Forall op_ok (pre ++ [OSeek (Z.of_N p); OApply data])).
  { apply Forall_app. split; [exact Hpre|]. repeat constructor. exact Hd. }
  rewrite (proj1 (model_history_eq_spec_machine v drounds key nonce _ Hk Hkl Hn Hnl Hops)).
  rewrite (proj1 (model_history_eq_spec_machine v drounds key nonce _ Hk Hkl Hn Hnl Hpre)).
  destruct (machine_run_app (layout_of v) drounds key nonce pre 0 [OSeek (Z.of_N p); OApply data]) as [pos' E].
  rewrite E, machine_seek_apply by assumption. reflexivity.
Qed.

Theorem seek_apply_eq_spec v drounds key nonce p data :
  Forall is_byte key -> length key = 32%nat -> Forall is_byte nonce ->
  length nonce = (match v with VDjb => 8 | VIetf => 12 | VX => 24 end)%nat ->
  N.of_nat (length data) < 2 ^ 64 ->
  p < 2 ^ 64 -> p + N.of_nat (length data) <= 64 * S.blocks_of (layout_of v) ->
  m_run v drounds key nonce [OSeek (Z.of_N p); OApply data]
  = [ObsSeek ROk; ObsApply ROk (S.spec_apply (layout_of v) drounds key nonce p data)].
Proof.
  intros Hk Hkl Hn Hnl Hd Hp Hfit.
  exact (seek_apply_after_history_eq_spec v drounds key nonce [] p data Hk Hkl Hn Hnl (Forall_nil _) Hd Hp Hfit).
Qed.

(** ... and byte by byte: output byte [i] = data byte [i] xor byte [(p+i) mod 64] of the specified
    block number [(p+i) / 64] *)
Lemma xor_bytes_nth a : forall b i, (i < length a)%nat -> (i < length b)%nat ->
  nth i (xor_bytes a b) 0 = N.lxor (nth i a 0) (nth i b 0).
Proof.
  induction a as [|x a IH]; intros [|y b] i Ha Hb; cbn [length] in *; try lia.
  destruct i as [|i]; cbn [xor_bytes nth]; [reflexivity|]. apply IH; lia.
Qed.

Theorem spec_apply_nth v drounds key nonce p data i :
  Forall is_byte key -> length key = 32%nat -> Forall is_byte nonce ->
  length nonce = (match v with VDjb => 8 | VIetf => 12 | VX => 24 end)%nat ->
  p + N.of_nat (length data) <= 64 * S.blocks_of (layout_of v) -> (i < length data)%nat ->
  nth i (S.spec_apply (layout_of v) drounds key nonce p data) 0
  = N.lxor (nth i data 0)
      (nth (N.to_nat ((p + N.of_nat i) mod 64))
           (S.spec_block (layout_of v) drounds key nonce ((p + N.of_nat i) / 64)) 0).
Proof.
  intros Hk Hkl Hn Hnl Hfit Hi. unfold S.spec_apply.
  assert (Hnl' : length nonce = nonce_len v) by exact Hnl.
  rewrite xor_bytes_nth; [|exact Hi|].
  - rewrite (spec_keystream_nth v drounds key nonce Hk Hkl Hn Hnl') by assumption. reflexivity.
  - rewrite (spec_keystream_eq v drounds key nonce Hk Hkl Hn Hnl').
    + rewrite (keystream_length _ _ _ (blk_len v drounds key nonce Hk Hkl Hn Hnl')). exact Hi.
    + unfold stream_bytes. rewrite nblocks_blocks_of. exact Hfit.
Qed.

(** * 7. The hypotheses are satisfiable and the statement is not vacuous: RFC 7539 section 2.4.2
    (ChaCha20, key 00..1f, nonce 00 00 00 00 00 00 00 4a 00 00 00 00, initial block counter 1 =
    byte position 64, the 114-byte sunscreen text) run through the MODEL by seek + apply gives the
    published ciphertext, and so does the specification; the theorem is what ties the two for all
    other inputs. A second history on the same stream exercises current_pos, a mid-block seek,
    the wide (4-block) path and the end of the 2^38-byte IETF stream. *)
Definition ex_key : list N := map N.of_nat (seq 0 32).
Definition ex_nonce : list N := be_split 12 0x000000000000004a00000000.
Definition ex_plain : list N := be_split 114
  0x4c616469657320616e642047656e746c656d656e206f662074686520636c617373206f66202739393a204966204920636f756c64206f6666657220796f75206f6e6c79206f6e652074697020666f7220746865206675747572652c2073756e73637265656e20776f756c642062652069742e.
Definition ex_cipher : list N := be_split 114
  0x6e2e359a2568f98041ba0728dd0d6981e97e7aec1d4360c20a27afccfd9fae0bf91b65c5524733ab8f593dabcd62b3571639d624e65152ab8f530c359f0861d807ca0dbf500d6a6156a38e088a22b65e52bc514d16ccf806818ce91ab77937365af90bbf74a35be6b40b8eedf2785e42874d.

Lemma ex_key_bytes : Forall is_byte ex_key.
Proof. apply Forall_forall. intros x Hx. repeat (destruct Hx as [<-|Hx]; [reflexivity|]). destruct Hx. Qed.
Lemma ex_nonce_bytes : Forall is_byte ex_nonce.
Proof. unfold ex_nonce, be_split. apply Forall_rev, le_split_bytes. Qed.

Example rfc7539_2_4_2_through_seek_apply :
  m_run VIetf 10 ex_key ex_nonce [OSeek 64; OApply ex_plain] = [ObsSeek ROk; ObsApply ROk ex_cipher]
  /\ S.spec_apply S.Ietf 10 ex_key ex_nonce 64 ex_plain = ex_cipher.
Proof.
  assert (Hs : S.spec_apply S.Ietf 10 ex_key ex_nonce 64 ex_plain = ex_cipher) by (vm_compute; reflexivity).
  split; [|exact Hs]. rewrite <- Hs.
  apply (seek_apply_eq_spec VIetf 10 ex_key ex_nonce 64 ex_plain ex_key_bytes eq_refl ex_nonce_bytes eq_refl);
    vm_compute; first [reflexivity | discriminate].
Qed.

(** the same equation checked by running the model (no theorem involved) *)
Example rfc7539_2_4_2_model_run :
  m_run VIetf 10 ex_key ex_nonce [OSeek 64; OApply ex_plain] = [ObsSeek ROk; ObsApply ROk ex_cipher].
Proof. vm_compute. reflexivity. Qed.

Definition ex_ops : list op :=
  [OApply (repeat 0 3); OPos 255; OSeek 100; OApply (repeat 0 700); OPos (2 ^ 64 - 1);
   OSeek (2 ^ 38 - 2); OApply [1; 2; 3]; OApply [1; 2]; OSeek (2 ^ 38 + 1); OSeek (-1)].

Example ex_history_model_eq_spec_machine :
  m_run VIetf 10 ex_key ex_nonce ex_ops = machine_run S.Ietf 10 ex_key ex_nonce 0 ex_ops
  /\ map (fun o => match o with ObsSeek r => (r, 0) | ObsApply r out => (r, N.of_nat (length out))
                            | ObsPos (Some z) => (ROk, Z.to_N z) | ObsPos None => (RErr, 0) end)
       (m_run VIetf 10 ex_key ex_nonce ex_ops)
     = [(ROk, 3); (ROk, 3); (ROk, 0); (ROk, 700); (ROk, 800); (ROk, 0); (RErr, 3); (ROk, 2); (RErr, 0); (RErr, 0)].
Proof.
  split.
  - apply (model_history_eq_spec_machine VIetf 10 ex_key ex_nonce ex_ops ex_key_bytes eq_refl ex_nonce_bytes eq_refl).
    repeat constructor; vm_compute; reflexivity.
  - vm_compute. reflexivity.
Qed.

Print Assumptions refill_block_state_eq_spec.
Print Assumptions spec_run_ext.
Print Assumptions ks_byte_spec_fn.
Print Assumptions apply_keystream_eq_spec.
Print Assumptions model_history_eq_spec_machine.
Print Assumptions seek_apply_after_history_eq_spec.
Print Assumptions seek_apply_eq_spec.
Print Assumptions spec_apply_nth.
Print Assumptions spec_keystream_nth.
Print Assumptions rfc7539_2_4_2_through_seek_apply.
Print Assumptions ex_history_model_eq_spec_machine.
