(** JH: the compression function of the implementation is F8 of the specification. *)
From Coq Require Import NArith List Arith Bool Lia.
From CC Require Import Lib.Words Lib.Bytes Lib.ListX Model.JH.
From CC Require Spec.JH.
From CC Require Import Proofs.JHBits Proofs.JHRound Proofs.JHRounds Proofs.JHGroup Proofs.JHWf.
Import ListNotations.
Local Open Scope N_scope.

(** * well-formedness through e8 *)
Lemma rc_table_wf : Forall (fun rc : x2 => hi0 (fst rc) /\ hi0 (snd rc)) rc_table.
Proof. unfold rc_table. repeat constructor; apply hi0_lt; reflexivity. Qed.

Lemma rounds_from_wf : forall t r y,
  Forall (fun rc : x2 => hi0 (fst rc) /\ hi0 (snd rc)) t -> x8_wf y -> x8_wf (rounds_from r t y).
Proof.
  induction t as [|rc t IH]; intros r y Ht Hy; [exact Hy|].
  inversion Ht as [|? ? [K0 K1] Ht']; subst. cbn [rounds_from]. apply IH; [exact Ht'|].
  apply round_wf; try assumption. apply Nat.mod_upper_bound. lia.
Qed.
Lemma e8_wf y : x8_wf y -> x8_wf (e8 y).
Proof. intros H. rewrite e8_flat. apply rounds_from_wf; [exact rc_table_wf|exact H]. Qed.

(** * Compressor::new / finalize *)
Lemma cf_app a0 a1 a2 a3 a4 a5 a6 a7 :
  compressor_finalize (X8 a0 a1 a2 a3 a4 a5 a6 a7)
  = le_split 16 a0 ++ le_split 16 a1 ++ le_split 16 a2 ++ le_split 16 a3
    ++ le_split 16 a4 ++ le_split 16 a5 ++ le_split 16 a6 ++ le_split 16 a7.
Proof. unfold compressor_finalize. cbn [y0 y1 y2 y3 y4 y5 y6 y7 flat_map]. rewrite app_nil_r. reflexivity. Qed.

Lemma blocks8 (B0 B1 B2 B3 B4 B5 B6 B7 : list N) :
  length B0 = 16%nat -> length B1 = 16%nat -> length B2 = 16%nat -> length B3 = 16%nat ->
  length B4 = 16%nat -> length B5 = 16%nat -> length B6 = 16%nat -> length B7 = 16%nat ->
  let a := B0 ++ B1 ++ B2 ++ B3 ++ B4 ++ B5 ++ B6 ++ B7 in
  firstn 16 (skipn 0 a) = B0 /\ firstn 16 (skipn 16 a) = B1 /\ firstn 16 (skipn 32 a) = B2 /\
  firstn 16 (skipn 48 a) = B3 /\ firstn 16 (skipn 64 a) = B4 /\ firstn 16 (skipn 80 a) = B5 /\
  firstn 16 (skipn 96 a) = B6 /\ firstn 16 (skipn 112 a) = B7 /\
  firstn 64 a = B0 ++ B1 ++ B2 ++ B3 /\ skipn 64 a = B4 ++ B5 ++ B6 ++ B7.
Proof.
  intros H0 H1 H2 H3 H4 H5 H6 H7.
  explode B0. explode B1. explode B2. explode B3. explode B4. explode B5. explode B6. explode B7.
  cbv zeta. repeat split; reflexivity.
Qed.

Lemma blocks4 (D0 D1 D2 D3 : list N) :
  length D0 = 16%nat -> length D1 = 16%nat -> length D2 = 16%nat -> length D3 = 16%nat ->
  let a := D0 ++ D1 ++ D2 ++ D3 in
  firstn 16 (skipn 0 a) = D0 /\ firstn 16 (skipn 16 a) = D1 /\ firstn 16 (skipn 32 a) = D2 /\
  firstn 16 (skipn 48 a) = D3.
Proof.
  intros H0 H1 H2 H3. explode D0. explode D1. explode D2. explode D3.
  cbv zeta. repeat split; reflexivity.
Qed.

Lemma xor_blocks4 (B0 B1 B2 B3 D0 D1 D2 D3 : list N) :
  length B0 = 16%nat -> length B1 = 16%nat -> length B2 = 16%nat -> length B3 = 16%nat ->
  length D0 = 16%nat -> length D1 = 16%nat -> length D2 = 16%nat -> length D3 = 16%nat ->
  xor_bytes (B0 ++ B1 ++ B2 ++ B3) (D0 ++ D1 ++ D2 ++ D3)
  = xor_bytes B0 D0 ++ xor_bytes B1 D1 ++ xor_bytes B2 D2 ++ xor_bytes B3 D3.
Proof.
  intros H0 H1 H2 H3 H4 H5 H6 H7.
  explode B0. explode B1. explode B2. explode B3. explode D0. explode D1. explode D2. explode D3.
  reflexivity.
Qed.

Lemma xor_bytes_le_split n : forall a b,
  xor_bytes (le_split n a) (le_split n b) = le_split n (N.lxor a b).
Proof.
  induction n as [|n IH]; intros a b; [reflexivity|].
  cbn [le_split xor_bytes]. rewrite IH. f_equal.
  - apply N.bits_inj. intros j. rewrite !N.lxor_spec, !N.land_spec, N.lxor_spec.
    destruct (N.testbit 255 j); rewrite ?andb_true_r, ?andb_false_r; reflexivity.
  - f_equal. apply N.bits_inj. intros j. rewrite N.lxor_spec, !N.shiftr_spec', N.lxor_spec. reflexivity.
Qed.

Lemma le_join_split16 x : hi0 x -> le_join (le_split 16 x) = x.
Proof. intros H. apply le_join_split. apply hi0_lt. exact H. Qed.

Lemma new_finalize y : x8_wf y -> compressor_new (compressor_finalize y) = y.
Proof.
  intros (H0 & H1 & H2 & H3 & H4 & H5 & H6 & H7).
  destruct y as [a0 a1 a2 a3 a4 a5 a6 a7]. cbn [y0 y1 y2 y3 y4 y5 y6 y7] in *.
  rewrite cf_app. unfold compressor_new, load128.
  change (16 * 0)%nat with 0%nat. change (16 * 1)%nat with 16%nat. change (16 * 2)%nat with 32%nat.
  change (16 * 3)%nat with 48%nat. change (16 * 4)%nat with 64%nat. change (16 * 5)%nat with 80%nat.
  change (16 * 6)%nat with 96%nat. change (16 * 7)%nat with 112%nat.
  destruct (blocks8 (le_split 16 a0) (le_split 16 a1) (le_split 16 a2) (le_split 16 a3)
                    (le_split 16 a4) (le_split 16 a5) (le_split 16 a6) (le_split 16 a7))
    as (E0 & E1 & E2 & E3 & E4 & E5 & E6 & E7 & _); try apply le_split_length.
  cbv zeta in *. rewrite E0, E1, E2, E3, E4, E5, E6, E7.
  rewrite !le_join_split16 by assumption. reflexivity.
Qed.

Lemma chunk_roundtrip c : length c = 16%nat -> Forall is_byte c -> le_split 16 (le_join c) = c.
Proof. intros Hl Hb. rewrite <- Hl. apply le_split_join. exact Hb. Qed.

Lemma chunk_hi0 c : length c = 16%nat -> Forall is_byte c -> hi0 (le_join c).
Proof.
  intros Hl Hb. apply hi0_lt. pose proof (le_join_lt c Hb) as H. rewrite Hl in H. exact H.
Qed.

Lemma split8 (a : list N) : length a = 128%nat ->
  a = firstn 16 (skipn 0 a) ++ firstn 16 (skipn 16 a) ++ firstn 16 (skipn 32 a)
      ++ firstn 16 (skipn 48 a) ++ firstn 16 (skipn 64 a) ++ firstn 16 (skipn 80 a)
      ++ firstn 16 (skipn 96 a) ++ firstn 16 (skipn 112 a).
Proof. intros H. explode a. reflexivity. Qed.
Lemma split4 (a : list N) : length a = 64%nat ->
  a = firstn 16 (skipn 0 a) ++ firstn 16 (skipn 16 a) ++ firstn 16 (skipn 32 a)
      ++ firstn 16 (skipn 48 a).
Proof. intros H. explode a. reflexivity. Qed.

Lemma chunk_length (a : list N) n i : length a = n -> (i + 16 <= n)%nat ->
  length (firstn 16 (skipn i a)) = 16%nat.
Proof. intros H Hi. rewrite firstn_length, skipn_length. lia. Qed.

Lemma new_wf a : length a = 128%nat -> Forall is_byte a -> x8_wf (compressor_new a).
Proof.
  intros Hl Hb. unfold x8_wf, compressor_new, load128. cbn [y0 y1 y2 y3 y4 y5 y6 y7].
  repeat split; apply chunk_hi0;
    try (apply (chunk_length a 128); [exact Hl|lia]); apply Forall_firstn', Forall_skipn'; exact Hb.
Qed.

Lemma finalize_new a : length a = 128%nat -> Forall is_byte a ->
  compressor_finalize (compressor_new a) = a.
Proof.
  intros Hl Hb. unfold compressor_new. rewrite cf_app. unfold load128.
  rewrite !chunk_roundtrip;
    try (apply (chunk_length a 128); [exact Hl|lia]); try (apply Forall_firstn', Forall_skipn'; exact Hb).
  symmetry. apply split8. exact Hl.
Qed.

Lemma cf_length z : length (compressor_finalize z) = 128%nat.
Proof. unfold compressor_finalize. rewrite flat_split_length. reflexivity. Qed.
Lemma cf_bytes z : Forall is_byte (compressor_finalize z).
Proof.
  destruct z as [a0 a1 a2 a3 a4 a5 a6 a7]. rewrite cf_app.
  repeat (apply Forall_app; split); apply le_split_bytes.
Qed.

(** * de-grouping *)
Theorem degroup_gather z : x8_wf z ->
  Spec.JH.degroup (gather (posT 0) (cols z)) = compressor_finalize z.
Proof.
  intros Hz. rewrite (bytes_of_bits (compressor_finalize z) (cf_bytes z)), cf_length.
  unfold Spec.JH.degroup. apply map_ext_in. intros n Hn. apply in_seq in Hn.
  apply byte_of_ext. intros k Hk.
  rewrite degroup_bit_gather by lia.
  rewrite (bit_new _ _ (cf_length z) (cf_bytes z)) by lia.
  rewrite new_finalize by exact Hz. reflexivity.
Qed.

(** * E8 on byte strings *)
Theorem E8_eq_model y : x8_wf y ->
  Spec.JH.E8 (compressor_finalize y) = compressor_finalize (e8 y).
Proof.
  intros Hy. unfold Spec.JH.E8.
  rewrite (group_eq_gather _ (cf_length y) (cf_bytes y)), (new_finalize y Hy).
  rewrite e8_eq_spec. apply degroup_gather. apply e8_wf. exact Hy.
Qed.

(** * the message block is xored into words 0-3 before and 4-7 after *)
Definition xor_lo (y : x8) (d0 d1 d2 d3 : N) : x8 :=
  X8 (N.lxor (y0 y) d0) (N.lxor (y1 y) d1) (N.lxor (y2 y) d2) (N.lxor (y3 y) d3)
     (y4 y) (y5 y) (y6 y) (y7 y).
Definition xor_hi (y : x8) (d0 d1 d2 d3 : N) : x8 :=
  X8 (y0 y) (y1 y) (y2 y) (y3 y)
     (N.lxor (y4 y) d0) (N.lxor (y5 y) d1) (N.lxor (y6 y) d2) (N.lxor (y7 y) d3).
Definition cf4 (d0 d1 d2 d3 : N) : list N :=
  le_split 16 d0 ++ le_split 16 d1 ++ le_split 16 d2 ++ le_split 16 d3.

Lemma f8_impl_eq y data :
  f8_impl y data = xor_hi (e8 (xor_lo y (load128 data 0) (load128 data 1) (load128 data 2) (load128 data 3)))
                          (load128 data 0) (load128 data 1) (load128 data 2) (load128 data 3).
Proof.
  unfold f8_impl, xor_lo, xor_hi. cbv zeta. destruct y as [a0 a1 a2 a3 a4 a5 a6 a7].
  cbn [y0 y1 y2 y3 y4 y5 y6 y7]. destruct (e8 _) as [b0 b1 b2 b3 b4 b5 b6 b7]. reflexivity.
Qed.

Lemma xor_lo_bytes y d0 d1 d2 d3 :
  xor_bytes (firstn 64 (compressor_finalize y)) (cf4 d0 d1 d2 d3) ++ skipn 64 (compressor_finalize y)
  = compressor_finalize (xor_lo y d0 d1 d2 d3).
Proof.
  destruct y as [a0 a1 a2 a3 a4 a5 a6 a7]. unfold xor_lo, cf4. cbn [y0 y1 y2 y3 y4 y5 y6 y7].
  rewrite !cf_app.
  destruct (blocks8 (le_split 16 a0) (le_split 16 a1) (le_split 16 a2) (le_split 16 a3)
                    (le_split 16 a4) (le_split 16 a5) (le_split 16 a6) (le_split 16 a7))
    as (_ & _ & _ & _ & _ & _ & _ & _ & F & S); try apply le_split_length.
  cbv zeta in *. rewrite F, S.
  rewrite xor_blocks4 by apply le_split_length. rewrite !xor_bytes_le_split.
  rewrite <- !app_assoc. reflexivity.
Qed.

Lemma xor_hi_bytes z d0 d1 d2 d3 :
  firstn 64 (compressor_finalize z) ++ xor_bytes (skipn 64 (compressor_finalize z)) (cf4 d0 d1 d2 d3)
  = compressor_finalize (xor_hi z d0 d1 d2 d3).
Proof.
  destruct z as [a0 a1 a2 a3 a4 a5 a6 a7]. unfold xor_hi, cf4. cbn [y0 y1 y2 y3 y4 y5 y6 y7].
  rewrite !cf_app.
  destruct (blocks8 (le_split 16 a0) (le_split 16 a1) (le_split 16 a2) (le_split 16 a3)
                    (le_split 16 a4) (le_split 16 a5) (le_split 16 a6) (le_split 16 a7))
    as (_ & _ & _ & _ & _ & _ & _ & _ & F & S); try apply le_split_length.
  cbv zeta in *. rewrite F, S.
  rewrite xor_blocks4 by apply le_split_length. rewrite !xor_bytes_le_split.
  rewrite <- !app_assoc. reflexivity.
Qed.

Lemma xor_lo_wf y d0 d1 d2 d3 : x8_wf y -> hi0 d0 -> hi0 d1 -> hi0 d2 -> hi0 d3 -> x8_wf (xor_lo y d0 d1 d2 d3).
Proof.
  intros (H0 & H1 & H2 & H3 & H4 & H5 & H6 & H7) ? ? ? ?. unfold xor_lo, x8_wf.
  cbn [y0 y1 y2 y3 y4 y5 y6 y7]. repeat split; try assumption; apply hi0_lxor; assumption.
Qed.
Lemma xor_hi_wf y d0 d1 d2 d3 : x8_wf y -> hi0 d0 -> hi0 d1 -> hi0 d2 -> hi0 d3 -> x8_wf (xor_hi y d0 d1 d2 d3).
Proof.
  intros (H0 & H1 & H2 & H3 & H4 & H5 & H6 & H7) ? ? ? ?. unfold xor_hi, x8_wf.
  cbn [y0 y1 y2 y3 y4 y5 y6 y7]. repeat split; try assumption; apply hi0_lxor; assumption.
Qed.

Lemma block_chunks block : length block = 64%nat -> Forall is_byte block ->
  block = cf4 (load128 block 0) (load128 block 1) (load128 block 2) (load128 block 3)
  /\ hi0 (load128 block 0) /\ hi0 (load128 block 1) /\ hi0 (load128 block 2) /\ hi0 (load128 block 3).
Proof.
  intros Hl Hb. unfold cf4, load128.
  assert (L : forall i, (i + 16 <= 64)%nat -> length (firstn 16 (skipn i block)) = 16%nat)
    by (intros i Hi; apply (chunk_length block 64); [exact Hl|exact Hi]).
  assert (B : forall i, Forall is_byte (firstn 16 (skipn i block)))
    by (intros i; apply Forall_firstn', Forall_skipn'; exact Hb).
  repeat split; try (apply chunk_hi0; [apply L; lia|apply B]).
  rewrite !chunk_roundtrip by (try apply B; apply L; lia).
  apply split4. exact Hl.
Qed.

(** * F8 *)
Theorem f8_impl_eq_spec y block : x8_wf y -> length block = 64%nat -> Forall is_byte block ->
  compressor_finalize (f8_impl y block) = Spec.JH.F8 (compressor_finalize y) block
  /\ x8_wf (f8_impl y block).
Proof.
  intros Hy Hl Hb. destruct (block_chunks block Hl Hb) as (Eb & D0 & D1 & D2 & D3).
  rewrite f8_impl_eq.
  set (d0 := load128 block 0) in *. set (d1 := load128 block 1) in *.
  set (d2 := load128 block 2) in *. set (d3 := load128 block 3) in *.
  clearbody d0 d1 d2 d3.
  pose proof (xor_lo_wf y d0 d1 d2 d3 Hy D0 D1 D2 D3) as Hy'.
  split; [|apply xor_hi_wf; try assumption; apply e8_wf; exact Hy'].
  unfold Spec.JH.F8. cbv zeta. rewrite Eb.
  rewrite xor_lo_bytes, (E8_eq_model _ Hy'), xor_hi_bytes. reflexivity.
Qed.

Theorem f8_eq_spec state block :
  length state = 128%nat -> Forall is_byte state -> length block = 64%nat -> Forall is_byte block ->
  m_f8 state block = Spec.JH.F8 state block.
Proof.
  intros Hl Hb Hl' Hb'. unfold m_f8, compressor_input.
  destruct (f8_impl_eq_spec (compressor_new state) block (new_wf state Hl Hb) Hl' Hb') as [E _].
  rewrite E, finalize_new by assumption. reflexivity.
Qed.
