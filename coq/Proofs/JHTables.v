(** JH: the tables of the repository are the specified ones (computation). *)
From Coq Require Import NArith List Arith Bool.
From CC Require Import Lib.Words Lib.Bytes Lib.ListX Model.JH.
From CC Require Spec.JH.
Import ListNotations.
Local Open Scope N_scope.

(** consts.rs: the four initial values are H(0) = F8(H(-1), 0) *)
Lemma iv_table_eq_spec :
  JH224_H0 = Spec.JH.iv 224 /\ JH256_H0 = Spec.JH.iv 256 /\
  JH384_H0 = Spec.JH.iv 384 /\ JH512_H0 = Spec.JH.iv 512.
Proof. repeat split; vm_compute; reflexivity. Qed.
