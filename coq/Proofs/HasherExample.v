(** The "logging" hasher: its state is the list of blocks its closure has been given (most
    recent first) and its digest is those blocks, in order, followed by the buffered bytes.
    It is the instance used by the correspondence check (Run/Hasher.v) to predict, from an
    operation history alone, which byte string every digest must be the hash of, and it
    shows that the hypotheses of the C08 theorems are satisfiable and the statements have
    content (examples at the end). *)
From Coq Require Import NArith List Arith Lia Bool.
From CC Require Import Lib.Words Lib.Bytes Lib.ListX Model.BlockBuffer Model.Hasher
  Proofs.BlockBufferLazy Proofs.BlockBufferEager Proofs.Hasher.
Import ListNotations.

Definition log_hasher (size : nat) (lazy : bool) : hasher (list (list N)) (list N) :=
  Hasher size lazy [] (fun s _ => s) (fun log blk => blk :: log)
         (fin_of_content (fun log c => concat (rev log) ++ c)).

Lemma log_hasher_ok size lazy : 0 < size -> hasher_ok (log_hasher size lazy).
Proof.
  intros Hs. apply hasher_ok_id_pre; [exact Hs|]. intros s b b'. apply fin_of_content_eqv.
Qed.

Lemma fold_cons_rev {A} (l : list A) : forall acc, fold_left (fun a x => x :: a) l acc = rev l ++ acc.
Proof.
  induction l as [|x l IH]; intros acc; cbn [fold_left rev]; [reflexivity|].
  rewrite IH, <- app_assoc. reflexivity.
Qed.

(** the buffering neither loses, duplicates nor reorders a byte: the blocks handed to the
    closure followed by what is left in the buffer are exactly the message *)
Theorem log_oneshot_id size lazy msg :
  0 < size -> h_oneshot (log_hasher size lazy) msg = msg.
Proof.
  intros Hs. unfold h_oneshot, h_finalize, h_update, h_new, log_hasher, fin_of_content.
  cbn [h_size h_lazy h_init h_pre h_step h_fin i_st i_buf].
  rewrite fold_cons_rev, app_nil_r, rev_involutive.
  pose proof (bb_new_wf size Hs) as Hwf.
  fold (bb_content (fst (bb_input lazy (bb_new size) msg))).
  destruct lazy; cbn [bb_input].
  - rewrite input_lazy_reconstructs by exact Hwf. reflexivity.
  - rewrite input_block_reconstructs by exact Hwf. reflexivity.
Qed.

(** * Examples (block size 4) *)
Local Open Scope N_scope.

Definition ex_ops : list op :=
  [ Update 0 [1;2;3]; Clone 0; Update 0 [4;5;6;7;8;9;10;11;12]; Update 1 []; Update 1 [20];
    FinalizeReset 0; Update 0 [30;31;32;33]; Clone 0; Reset 1; Update 1 [40;41;42;43;44];
    Finalize 1; Update 2 [50]; Finalize 0; Finalize 2; Update 0 [60] ].

Definition ex_expected : list (nat * list N) :=
  [ (0%nat, [1;2;3;4;5;6;7;8;9;10;11;12]); (1%nat, [40;41;42;43;44]);
    (0%nat, [30;31;32;33]); (2%nat, [30;31;32;33;50]) ].

Example ex_eager : snd (run (log_hasher 4 false) [Some (h_new (log_hasher 4 false))] ex_ops) = ex_expected.
Proof. vm_compute. reflexivity. Qed.
Example ex_lazy : snd (run (log_hasher 4 true) [Some (h_new (log_hasher 4 true))] ex_ops) = ex_expected.
Proof. vm_compute. reflexivity. Qed.

(** eager and lazy buffering really differ: after 8 bytes the eager buffer is empty and two
    blocks have been compressed, the lazy buffer holds one full pending block *)
Example ex_eager_state :
  h_update (log_hasher 4 false) (h_new (log_hasher 4 false)) [1;2;3;4;5;6;7;8]
  = Inst [[5;6;7;8];[1;2;3;4]] (BB [0;0;0;0] 0).
Proof. vm_compute. reflexivity. Qed.
Example ex_lazy_state :
  h_update (log_hasher 4 true) (h_new (log_hasher 4 true)) [1;2;3;4;5;6;7;8]
  = Inst [[1;2;3;4]] (BB [5;6;7;8] 4).
Proof. vm_compute. reflexivity. Qed.

(** the hypotheses matter: a hasher that counts [update] calls ([h_pre] not additive) is
    not invariant under chunking *)
Definition call_counter : hasher N N :=
  Hasher 4 false 0 (fun s _ => s + 1) (fun s _ => s) (fun s _ => s).
Example ex_call_counter_not_chunking_invariant :
  h_finalize call_counter (fold_left (h_update call_counter) [[1];[2]] (h_new call_counter))
  <> h_oneshot call_counter (concat [[1];[2]]).
Proof. vm_compute. discriminate. Qed.
