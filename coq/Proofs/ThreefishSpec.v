(** Model/Threefish.v = Spec/Threefish.v, for all keys, tweaks and blocks,
    for every choice of word operations (C09). *)
From Coq Require Import NArith List Lia Arith.
From CC Require Import Lib.Words Lib.Bytes Lib.ListX.
From CC Require Spec.Threefish.
From CC Require Import Model.Threefish Proofs.ThreefishInv.
Import ListNotations.
Module S := Spec.Threefish.

Section Eq.
  Variables (add sub xor : N -> N -> N) (rotl rotr : N -> N -> N) (c240 : N).

  Definition corr (c : cfg) (p : S.params) : Prop :=
    forall k t0 t1 i d v, In i (seq 0 (rounds c / 8)) -> In d (seq 0 8) -> length v = n_w c ->
      enc_body add xor rotl c (with_tweak add xor c240 c k t0 t1) i d v =
      S.round add xor rotl p (S.ext_key xor c240 k) (S.ext_tweak xor t0 t1) (8 * i + d) v.

  Ltac split_in H := cbn in H; repeat (destruct H as [<-|H]); try contradiction.

  Lemma corr_256 : corr threefish256 S.tf256.
  Proof.
    intros k t0 t1 i d v Hi Hd Hv. cbn in Hv. explode v.
    split_in Hi; split_in Hd; vm_compute; reflexivity.
  Qed.

  Lemma corr_512 : corr threefish512 S.tf512.
  Proof.
    intros k t0 t1 i d v Hi Hd Hv. cbn in Hv. explode v.
    split_in Hi; split_in Hd; vm_compute; reflexivity.
  Qed.

  Lemma corr_1024 : corr threefish1024 S.tf1024.
  Proof.
    intros k t0 t1 i d v Hi Hd Hv. cbn in Hv. explode v.
    split_in Hi; split_in Hd; vm_compute; reflexivity.
  Qed.

  Lemma round_length p ek et d v : length (S.round add xor rotl p ek et d v) = S.nw p.
  Proof. unfold S.round. now rewrite map_length, seq_length. Qed.

  Section Lift.
    Variables (c : cfg) (p : S.params) (nu : bool).
    Hypothesis Hnw : S.nw p = n_w c.
    Hypothesis Hnr : S.nr p = rounds c.
    Hypothesis Hnr8 : rounds c = 8 * (rounds c / 8).
    Hypothesis Hcorr : corr c p.

    Let R k t0 t1 := S.round add xor rotl p (S.ext_key xor c240 k) (S.ext_tweak xor t0 t1).

    Lemma unroll_eq k t0 t1 i v : In i (seq 0 (rounds c / 8)) -> length v = n_w c ->
      unroll8 nu (enc_body add xor rotl c (with_tweak add xor c240 c k t0 t1) i) v =
      fold_left (fun v d => R k t0 t1 (8 * i + d) v) (seq 0 8) v
      /\ length (fold_left (fun v d => R k t0 t1 (8 * i + d) v) (seq 0 8) v) = n_w c.
    Proof.
      intros Hi Hv. unfold unroll8.
      replace (if nu then unroll8_loop else unroll8_unrolled) with unroll8_loop
        by (destruct nu; reflexivity).
      unfold unroll8_loop.
      apply (fold_left_ext_inv (fun v => length v = n_w c)); auto.
      - intros a d Ha Hd. now apply Hcorr.
      - intros a d Ha Hd. unfold R. now rewrite round_length.
    Qed.

    Lemma nested_flat (F : nat -> list N -> list N) n v :
      fold_left (fun v i => fold_left (fun v d => F (8 * i + d) v) (seq 0 8) v) (seq 0 n) v =
      fold_left (fun v d => F d v) (seq 0 (8 * n)) v.
    Proof.
      induction n as [|n IH]; [reflexivity|].
      rewrite (seq_S n 0), fold_left_app, IH. cbn [fold_left plus].
      replace (8 * S n) with (8 * n + 8) by lia.
      rewrite seq_app, fold_left_app. cbn [plus].
      generalize (fold_left (fun v d => F d v) (seq 0 (8 * n)) v). intro w.
      cbn [seq fold_left].
      repeat (rewrite ?Nat.add_0_r; f_equal; try lia).
    Qed.

    Lemma last_subkey k t0 t1 :
      nth (rounds c / 4) (with_tweak add xor c240 c k t0 t1) [] =
      S.subkey add p (S.ext_key xor c240 k) (S.ext_tweak xor t0 t1) (S.nr p / 4).
    Proof.
      unfold with_tweak. rewrite nth_map_seq by lia.
      unfold S.subkey. rewrite Hnw, Hnr. apply map_ext. intro i.
      unfold sk_entry, S.subkey_word. now rewrite Hnw.
    Qed.

    Theorem model_eq_spec_words k t0 t1 v : length v = n_w c ->
      encrypt_words add xor rotl c nu (with_tweak add xor c240 c k t0 t1) v =
      S.encrypt_words add xor rotl c240 p k t0 t1 v.
    Proof.
      intros Hv. unfold encrypt_words, S.encrypt_words.
      rewrite last_subkey. f_equal.
      rewrite Hnr.
      replace (seq 0 (rounds c)) with (seq 0 (8 * (rounds c / 8))) by (now rewrite <- Hnr8).
      change (fun v d => S.round add xor rotl p (S.ext_key xor c240 k) (S.ext_tweak xor t0 t1) d v)
        with (fun v d => R k t0 t1 d v).
      rewrite <- (nested_flat (R k t0 t1)).
      apply (fold_left_ext_inv (fun v => length v = n_w c)); auto.
      - intros a i Ha Hi. now apply unroll_eq.
      - intros a i Ha Hi. now apply (unroll_eq k t0 t1 i a).
    Qed.
  End Lift.
End Eq.
