(** The finalisations of the four crates read the buffer only through block-buffer calls
    ([input_block] with padding bytes, [len64_padding_be], [pad_with::<ZeroPadding>],
    [pad_with::<Iso7816>]) and [position()]/[remaining()].  Each of these is blind to the stale
    bytes at and beyond the position; hence every finalisation composed of them satisfies
    [fin_ok], the hypothesis of the C08 theorems ([fin_ok_*] combinators below). *)
From Coq Require Import NArith List Arith Lia.
From CC Require Import Lib.Words Lib.Bytes Lib.ListX Model.BlockBuffer Model.Hasher
  Proofs.BlockBufferLazy Proofs.BlockBufferEager Proofs.Hasher.
Import ListNotations.

(** * the padding helpers only see the buffered bytes *)
Lemma firstn_upd_succ {A} p (x : A) l : p < length l -> firstn (S p) (upd p x l) = firstn p l ++ [x].
Proof.
  revert p. induction l as [|y l IH]; intros [|p] H; cbn [length] in H; try lia.
  - reflexivity.
  - cbn [upd firstn app]. f_equal. apply IH. lia.
Qed.

(** [buffer[pos] = 0x80; set_zero(&mut buffer[pos+1..])]: buffered bytes, 0x80, zeros *)
Lemma pad80_char buf pos :
  pos < length buf ->
  zero_from (upd pos 0x80%N buf) (pos + 1)
  = firstn pos buf ++ [0x80%N] ++ repeat 0%N (length buf - (pos + 1)).
Proof.
  intros H. unfold zero_from. rewrite upd_length. replace (pos + 1) with (S pos) by lia.
  rewrite firstn_upd_succ by exact H. rewrite <- app_assoc. reflexivity.
Qed.

Theorem digest_pad_eqv b b' up_to :
  bb_wf b -> bb_eqv b b' -> digest_pad b up_to = digest_pad b' up_to.
Proof.
  intros [Hpos Hsz] (E1 & E2 & E3). destruct b as [buf pos], b' as [buf' pos'].
  unfold bb_size, bb_content in *. cbn [bb_buf bb_pos] in *. subst pos'.
  unfold digest_pad, bb_size. cbn [bb_buf bb_pos]. rewrite <- E1.
  destruct (Nat.eqb_spec pos (length buf)) as [->|Hne].
  - (* full buffer (lazy buffering): the whole buffer is content *)
    rewrite E1 in E3 at 2. rewrite !firstn_all in E3. subst buf'. reflexivity.
  - cbn [bb_buf bb_pos].
    rewrite (pad80_char buf pos), (pad80_char buf' pos) by lia. rewrite <- E1, E3. reflexivity.
Qed.

Theorem len_padding_be_eqv k b b' l :
  bb_wf b -> bb_eqv b b' -> len_padding_be k b l = len_padding_be k b' l.
Proof.
  intros W E. unfold len_padding_be. rewrite (digest_pad_eqv b b' k W E). reflexivity.
Qed.

(** [pad_with::<Iso7816>()]'s block: [block[pos] = 0x80; set(&mut block[pos+1..], 0)] *)
Theorem pad80_eqv b b' :
  bb_wf b -> bb_eqv b b' ->
  zero_from (upd (bb_pos b) 0x80%N (bb_buf b)) (bb_pos b + 1)
  = zero_from (upd (bb_pos b') 0x80%N (bb_buf b')) (bb_pos b' + 1).
Proof.
  intros [Hpos Hsz] (E1 & E2 & E3). destruct b as [buf pos], b' as [buf' pos'].
  unfold bb_size, bb_content in *. cbn [bb_buf bb_pos] in *. subst pos'.
  destruct (Nat.eq_dec pos (length buf)) as [->|Hne].
  - rewrite E1 in E3 at 2. rewrite !firstn_all in E3. now subst buf'.
  - rewrite (pad80_char buf pos), (pad80_char buf' pos) by lia. now rewrite <- E1, E3.
Qed.

(** several [input_block] calls in a row *)
Fixpoint feed (b : bb) (pieces : list (list N)) : bb * list (list N) :=
  match pieces with
  | [] => (b, [])
  | p :: r => let x := input_block b p in let y := feed (fst x) r in (fst y, snd x ++ snd y)
  end.

Lemma feed_eqv pieces : forall b b',
  bb_wf b -> bb_eqv b b' ->
  snd (feed b pieces) = snd (feed b' pieces) /\ bb_eqv (fst (feed b pieces)) (fst (feed b' pieces)).
Proof.
  induction pieces as [|p r IH]; intros b b' W E; cbn [feed fst snd]; [now split|].
  destruct (input_block_eqv b b' p W E) as [Eo Eb].
  destruct (IH _ _ (input_block_wf b p W) Eb) as [Eo' Eb'].
  split; [now rewrite Eo, Eo'|exact Eb'].
Qed.

Section FinOk.
Context {st digest : Type}.

Lemma eqv_size_pos b b' : bb_eqv b b' -> bb_size b' = bb_size b /\ bb_pos b' = bb_pos b.
Proof. intros (E1 & E2 & _). now split. Qed.

(** BLAKE: the finalisation feeds padding, marker and length (functions of state, block
    size and position) through [input_block] and works on the emitted blocks *)
Lemma fin_ok_feed (F : st -> nat -> nat -> list (list N) -> digest) (P : st -> nat -> nat -> list (list N)) :
  fin_ok (fun s b => F s (bb_size b) (bb_pos b) (snd (feed b (P s (bb_size b) (bb_pos b))))).
Proof.
  intros s b b' W E. destruct (eqv_size_pos _ _ E) as [-> ->].
  now destruct (feed_eqv (P s (bb_size b) (bb_pos b)) b b' W E) as [-> _].
Qed.

(** Groestl, JH with an empty buffer: [len64_padding_be] / [len128_padding_be] *)
Lemma fin_ok_len_padding k (F : st -> nat -> nat -> list (list N) -> digest) (L : st -> nat -> nat -> N) :
  fin_ok (fun s b => F s (bb_size b) (bb_pos b) (snd (len_padding_be k b (L s (bb_size b) (bb_pos b))))).
Proof.
  intros s b b' W E. destruct (eqv_size_pos _ _ E) as [-> ->].
  now rewrite (len_padding_be_eqv k b b' _ W E).
Qed.

(** Skein: [pad_with::<ZeroPadding>()] *)
Lemma fin_ok_pad_with_zero (F : st -> nat -> nat -> option (bb * list N) -> digest) :
  fin_ok (fun s b => F s (bb_size b) (bb_pos b) (pad_with_zero b)).
Proof.
  intros s b b' W E. destruct (eqv_size_pos _ _ E) as [-> ->].
  now rewrite (pad_with_zero_eqv b b' W E).
Qed.

(** JH with a non-empty buffer: [pad_with::<Iso7816>()] *)
Lemma fin_ok_pad80 (F : st -> nat -> nat -> list N -> digest) :
  fin_ok (fun s b => F s (bb_size b) (bb_pos b)
                       (zero_from (upd (bb_pos b) 0x80%N (bb_buf b)) (bb_pos b + 1))).
Proof.
  intros s b b' W E. destruct (eqv_size_pos _ _ E) as [Es Ep].
  rewrite <- (pad80_eqv b b' W E). now rewrite Es, Ep.
Qed.

(** a choice that depends on state, block size and position only *)
Lemma fin_ok_if (c : st -> nat -> nat -> bool) (f g : st -> bb -> digest) :
  fin_ok f -> fin_ok g -> fin_ok (fun s b => if c s (bb_size b) (bb_pos b) then f s b else g s b).
Proof.
  intros Hf Hg s b b' W E. destruct (eqv_size_pos _ _ E) as [-> ->].
  rewrite (Hf s b b' W E), (Hg s b b' W E). reflexivity.
Qed.

Lemma fin_ok_content (f : st -> list N -> digest) : fin_ok (fin_of_content f).
Proof. intros s b b'. apply fin_of_content_eqv. Qed.

End FinOk.

(** all combinators at once (statement pinned in Props/C08.v) *)
Lemma fin_ok_combinators :
  forall st digest,
    (forall (F : st -> nat -> nat -> list (list N) -> digest) (P : st -> nat -> nat -> list (list N)),
        fin_ok (fun s b => F s (bb_size b) (bb_pos b) (snd (feed b (P s (bb_size b) (bb_pos b))))))
    /\ (forall k (F : st -> nat -> nat -> list (list N) -> digest) (L : st -> nat -> nat -> N),
        fin_ok (fun s b => F s (bb_size b) (bb_pos b) (snd (len_padding_be k b (L s (bb_size b) (bb_pos b))))))
    /\ (forall (F : st -> nat -> nat -> list N -> digest),
        fin_ok (fun s b => F s (bb_size b) (bb_pos b)
                             (zero_from (upd (bb_pos b) 0x80%N (bb_buf b)) (bb_pos b + 1))))
    /\ (forall (F : st -> nat -> nat -> option (bb * list N) -> digest),
        fin_ok (fun s b => F s (bb_size b) (bb_pos b) (pad_with_zero b)))
    /\ (forall (c : st -> nat -> nat -> bool) (f g : st -> bb -> digest),
        fin_ok f -> fin_ok g -> fin_ok (fun s b => if c s (bb_size b) (bb_pos b) then f s b else g s b)).
Proof.
  intros st digest. split; [|split; [|split; [|split]]].
  - exact fin_ok_feed.
  - exact fin_ok_len_padding.
  - exact fin_ok_pad80.
  - exact fin_ok_pad_with_zero.
  - exact fin_ok_if.
Qed.
