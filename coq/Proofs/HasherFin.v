(** The finalisations of the four crates read the buffer only through block-buffer calls
    ([input_block] with padding bytes, [len64_padding_be], [pad_with::<ZeroPadding>],
    [pad_with::<Iso7816>]) and [position()]/[remaining()].  Each of these is blind to the stale
    bytes at and beyond the position; hence every finalisation composed of them satisfies
    [fin_ok], the hypothesis of the C08 theorems ([fin_ok_*] combinators below). *)
From Coq Require Import NArith List Arith Lia.
From CC Require Import Lib.Words Lib.Bytes Lib.ListX Model.BlockBuffer Model.Hasher
  Proofs.BlockBufferLazy Proofs.BlockBufferEager Proofs.Hasher.
Import ListNotations.

(** * the padding helpers only see the buffered bytes *)
Lemma firstn_upd_succ {A} p (x : A) l : p < length l -> firstn (S p) (upd p x l) = firstn p l ++ [x].
Proof.
  revert p. induction l as [|y l IH]; intros [|p] H; cbn [length] in H; try lia.
  - reflexivity.
  - cbn [upd firstn app]. f_equal. apply IH. lia.
Qed.

(** [buffer[pos] = 0x80; set_zero(&mut buffer[pos+1..])]: buffered bytes, 0x80, zeros *)
Lemma pad80_char buf pos :
  pos < length buf ->
  zero_from (upd pos 0x80%N buf) (pos + 1)
  = firstn pos buf ++ [0x80%N] ++ repeat 0%N (length buf - (pos + 1)).
Proof.
  intros H. unfold zero_from. rewrite upd_length. replace (pos + 1) with (S pos) by lia.
  rewrite firstn_upd_succ by exact H. rewrite <- app_assoc. reflexivity.
Qed.

Theorem digest_pad_eqv b b' up_to :
  bb_wf b -> bb_eqv b b' -> digest_pad b up_to = digest_pad b' up_to.
Proof.
  intros [Hpos Hsz] (E1 & E2 & E3). destruct b as [buf pos], b' as [buf' pos'].
  unfold bb_size, bb_content in *. cbn [bb_buf bb_pos] in *. subst pos'.
  unfold digest_pad, bb_size. cbn [bb_buf bb_pos]. rewrite <- E1.
  destruct (Nat.eqb_spec pos (length buf)) as [->|Hne].
  - (* full buffer (lazy buffering): the whole buffer is content *)
    rewrite E1 in E3 at 2. rewrite !firstn_all in E3. subst buf'. reflexivity.
  - cbn [bb_buf bb_pos].
    rewrite (pad80_char buf pos), (pad80_char buf' pos) by lia. rewrite <- E1, E3. reflexivity.
Qed.

Theorem len_padding_be_eqv k b b' l :
  bb_wf b -> bb_eqv b b' -> len_padding_be k b l = len_padding_be k b' l.
Proof.
  intros W E. unfold len_padding_be. rewrite (digest_pad_eqv b b' k W E). reflexivity.
Qed.

(** [pad_with::<Iso7816>()]'s block: [block[pos] = 0x80; set(&mut block[pos+1..], 0)] *)
Theorem pad80_eqv b b' :
  bb_wf b -> bb_eqv b b' ->
  zero_from (upd (bb_pos b) 0x80%N (bb_buf b)) (bb_pos b + 1)
  = zero_from (upd (bb_pos b') 0x80%N (bb_buf b')) (bb_pos b' + 1).
Proof.
  intros [Hpos Hsz] (E1 & E2 & E3). destruct b as [buf pos], b' as [buf' pos'].
  unfold bb_size, bb_content in *. cbn [bb_buf bb_pos] in *. subst pos'.
  destruct (Nat.eq_dec pos (length buf)) as [->|Hne].
  - rewrite E1 in E3 at 2. rewrite !firstn_all in E3. now subst buf'.
  - rewrite (pad80_char buf pos), (pad80_char buf' pos) by lia. now rewrite <- E1, E3.
Qed.

(** several [input_block] calls in a row *)
Fixpoint feed (b : bb) (pieces : list (list N)) : bb * list (list N) :=
  match pieces with
  | [] => (b, [])
  | p :: r => let x := input_block b p in let y := feed (fst x) r in (fst y, snd x ++ snd y)
  end.

Lemma feed_eqv pieces : forall b b',
  bb_wf b -> bb_eqv b b' ->
  snd (feed b pieces) = snd (feed b' pieces) /\ bb_eqv (fst (feed b pieces)) (fst (feed b' pieces)).
Proof.
  induction pieces as [|p r IH]; intros b b' W E; cbn [feed fst snd]; [now split|].
  destruct (input_block_eqv b b' p W E) as [Eo Eb].
  destruct (IH _ _ (input_block_wf b p W) Eb) as [Eo' Eb'].
  split; [now rewrite Eo, Eo'|exact Eb'].
Qed.

Section FinOk.
Context {st digest : Type}.

Lemma eqv_size_pos b b' : bb_eqv b b' -> bb_size b' = bb_size b /\ bb_pos b' = bb_pos b.
Proof. intros (E1 & E2 & _). now split. Qed.

(** BLAKE: the finalisation feeds padding, marker and length (functions of state, block
    size and position) through [input_block] and works on the emitted blocks *)
Lemma fin_ok_feed (F : st -> nat -> nat -> list (list N) -> digest) (P : st -> nat -> nat -> list (list N)) :
  fin_ok (fun s b => F s (bb_size b) (bb_pos b) (snd (feed b (P s (bb_size b) (bb_pos b))))).
Proof.
  intros s b b' W E. destruct (eqv_size_pos _ _ E) as [-> ->].
  now destruct (feed_eqv (P s (bb_size b) (bb_pos b)) b b' W E) as [-> _].
Qed.

(** Groestl, JH with an empty buffer: [len64_padding_be] / [len128_padding_be] *)
Lemma fin_ok_len_padding k (F : st -> nat -> nat -> list (list N) -> digest) (L : st -> nat -> nat -> N) :
  fin_ok (fun s b => F s (bb_size b) (bb_pos b) (snd (len_padding_be k b (L s (bb_size b) (bb_pos b))))).
Proof.
  intros s b b' W E. destruct (eqv_size_pos _ _ E) as [-> ->].
  now rewrite (len_padding_be_eqv k b b' _ W E).
Qed.

(** Skein: [pad_with::<ZeroPadding>()] *)
Lemma fin_ok_pad_with_zero (F : st -> nat -> nat -> option (bb * list N) -> digest) :
  fin_ok (fun s b => F s (bb_size b) (bb_pos b) (pad_with_zero b)).
Proof.
  intros s b b' W E. destruct (eqv_size_pos _ _ E) as [-> ->].
  now rewrite (pad_with_zero_eqv b b' W E).
Qed.

(** JH with a non-empty buffer: [pad_with::<Iso7816>()] *)
Lemma fin_ok_pad80 (F : st -> nat -> nat -> list N -> digest) :
  fin_ok (fun s b => F s (bb_size b) (bb_pos b)
                       (zero_from (upd (bb_pos b) 0x80%N (bb_buf b)) (bb_pos b + 1))).
Proof.
  intros s b b' W E. destruct (eqv_size_pos _ _ E) as [Es Ep].
  rewrite <- (pad80_eqv b b' W E). now rewrite Es, Ep.
Qed.

(** a choice that depends on state, block size and position only *)
Lemma fin_ok_if (c : st -> nat -> nat -> bool) (f g : st -> bb -> digest) :
  fin_ok f -> fin_ok g -> fin_ok (fun s b => if c s (bb_size b) (bb_pos b) then f s b else g s b).
Proof.
  intros Hf Hg s b b' W E. destruct (eqv_size_pos _ _ E) as [-> ->].
  rewrite (Hf s b b' W E), (Hg s b b' W E). reflexivity.
Qed.

Lemma fin_ok_content (f : st -> list N -> digest) : fin_ok (fin_of_content f).
Proof. intros s b b'. apply fin_of_content_eqv. Qed.

End FinOk.

(** all combinators at once (statement pinned in Props/C08.v) *)
Lemma fin_ok_combinators :
  forall st digest,
    (forall (F : st -> nat -> nat -> list (list N) -> digest) (P : st -> nat -> nat -> list (list N)),
        fin_ok (fun s b => F s (bb_size b) (bb_pos b) (snd (feed b (P s (bb_size b) (bb_pos b))))))
    /\ (forall k (F : st -> nat -> nat -> list (list N) -> digest) (L : st -> nat -> nat -> N),
        fin_ok (fun s b => F s (bb_size b) (bb_pos b) (snd (len_padding_be k b (L s (bb_size b) (bb_pos b))))))
    /\ (forall (F : st -> nat -> nat -> list N -> digest),
        fin_ok (fun s b => F s (bb_size b) (bb_pos b)
                             (zero_from (upd (bb_pos b) 0x80%N (bb_buf b)) (bb_pos b + 1))))
    /\ (forall (F : st -> nat -> nat -> option (bb * list N) -> digest),
        fin_ok (fun s b => F s (bb_size b) (bb_pos b) (pad_with_zero b)))
    /\ (forall (c : st -> nat -> nat -> bool) (f g : st -> bb -> digest),
        fin_ok f -> fin_ok g -> fin_ok (fun s b => if c s (bb_size b) (bb_pos b) then f s b else g s b)).
Proof.
  intros st digest. split; [|split; [|split; [|split]]].
  - exact fin_ok_feed.
  - exact fin_ok_len_padding.
  - exact fin_ok_pad80.
  - exact fin_ok_pad_with_zero.
  - exact fin_ok_if.
Qed.

(** * several [input_block] calls, each with its own closure (BLAKE) *)
Lemma feed_calls_eqv pieces : forall b b',
  bb_wf b -> bb_eqv b b' ->
  snd (feed_calls b pieces) = snd (feed_calls b' pieces)
  /\ bb_eqv (fst (feed_calls b pieces)) (fst (feed_calls b' pieces)).
Proof.
  induction pieces as [|p r IH]; intros b b' W E; cbn [feed_calls fst snd]; [now split|].
  destruct (input_block_eqv b b' p W E) as [Eo Eb].
  destruct (IH _ _ (input_block_wf b p W) Eb) as [Eo' Eb'].
  split; [now rewrite Eo, Eo'|exact Eb'].
Qed.

Lemma fin_ok_feed_calls {st digest} (F : st -> nat -> nat -> list (list (list N)) -> digest)
      (P : st -> nat -> nat -> list (list N)) :
  fin_ok (fun s b => F s (bb_size b) (bb_pos b) (snd (feed_calls b (P s (bb_size b) (bb_pos b))))).
Proof.
  intros s b b' W E. destruct (eqv_size_pos _ _ E) as [-> ->].
  now destruct (feed_calls_eqv (P s (bb_size b) (bb_pos b)) b b' W E) as [-> _].
Qed.


(** * the finalisations of the four crates (Model/Hasher.v) satisfy [fin_ok], and the complete
    plumbing models satisfy [hasher_ok], for every compression / output function *)
Section CrateFinOk.
Context {X digest : Type}.
Variable dflt : digest.
Local Open Scope N_scope.

Lemma blake_fin_ok w size isfull (put_block : X -> list N -> N * N -> X) (out : X -> digest) :
  fin_ok (blake_fin dflt w size isfull put_block out).
Proof.
  unfold blake_fin.
  set (wb := N.to_nat (w / 8)).
  set (footerlen := (1 + 2 * wb)%nat).
  set (extra := fun pos : nat => (size <? pos + footerlen)%nat).
  set (tt := fun (s : X * (N * N)) (pos : nat) => blake_increase_count w (snd s) (N.of_nat pos)).
  set (position := fun pos : nat => if extra pos then 0%nat else pos).
  set (t2 := fun (s : X * (N * N)) (pos : nat) => if (position pos =? 0)%nat then (0, 0) else tt s pos).
  set (P := fun (s : X * (N * N)) (_ pos : nat) =>
              (if extra pos then [firstn (size - pos) (0x80 :: repeat 0 size)] else [])
              ++ [skipn (if extra pos then 1%nat else 0%nat)
                        (firstn ((if extra pos then 1%nat else 0%nat) + (size - footerlen - position pos))
                                (0x80 :: repeat 0 size));
                  [N.lor isfull (if (pos + footerlen =? size)%nat then 0x80 else 0)];
                  be_split wb (snd (tt s pos)) ++ be_split wb (fst (tt s pos))]).
  set (F := fun (s : X * (N * N)) (_ pos : nat) (emitted : list (list (list N))) =>
              match emitted, extra pos with
              | [b1; []; []; b4], true =>
                  out (fold_left (fun h blk => put_block h blk (t2 s pos)) b4
                         (fold_left (fun h blk => put_block h blk (tt s pos)) b1 (fst s)))
              | [[]; []; b4], false => out (fold_left (fun h blk => put_block h blk (t2 s pos)) b4 (fst s))
              | _, _ => dflt
              end).
  exact (fin_ok_feed_calls F P).
Qed.

Lemma groestl_fin_ok (input : X -> list N -> X) (out : X -> digest) : fin_ok (groestl_fin input out).
Proof.
  exact (fin_ok_len_padding 8
           (fun s _ _ blocks => out (fold_left input blocks (fst s)))
           (fun s size pos => wrap 64 (snd s + 1 + (if (size - pos <=? 8)%nat then 1 else 0)))).
Qed.

Lemma jh_fin_ok (input : X -> list N -> X) (out : X -> digest) : fin_ok (jh_fin dflt input out).
Proof.
  unfold jh_fin.
  apply (fin_ok_if (fun _ _ pos => (pos =? 0)%nat)).
  - exact (fin_ok_len_padding 8 (fun s _ _ blocks => out (fold_left input blocks (fst s)))
                              (fun s _ _ => wrap 64 (snd s * 8))).
  - apply (fin_ok_if (fun _ size pos => (size <=? pos)%nat)).
    + intros s b b' _ _. reflexivity.
    + exact (fin_ok_pad80 (fun s _ _ blk =>
               out (input (input (fst s) blk) (copy_at (repeat 0 64%nat) 56 (be_split 8 (wrap 64 (snd s * 8))))))).
Qed.

Lemma skein_fin_ok size (process_block : X * (N * N) -> list N -> nat -> X * (N * N)) (output : X -> digest) :
  fin_ok (skein_fin dflt size process_block output).
Proof.
  exact (fin_ok_pad_with_zero
           (fun s _ pos r => match r with
                             | Some (_, blk) =>
                                 output (fst (process_block
                                   (fst s, (fst (snd s), N.lor (snd (snd s)) (N.shiftl 1 63))) blk pos))
                             | None => dflt end)).
Qed.


Lemma crate_hashers_ok :
  (forall w size isfull (iv : X) put_block (out : X -> digest), (0 < size)%nat ->
      hasher_ok (blake_hasher dflt w size isfull iv put_block out))
  /\ (forall size (iv : X) input (out : X -> digest), (0 < size)%nat ->
      hasher_ok (groestl_hasher size iv input out))
  /\ (forall (iv : X) input (out : X -> digest), hasher_ok (jh_hasher dflt iv input out))
  /\ (forall size (init : X * (N * N)) process_block (output : X -> digest), (0 < size)%nat ->
      hasher_ok (skein_hasher dflt size init process_block output)).
Proof.
  split; [|split; [|split]]; intros.
  - apply blake_shape_ok; [assumption|apply blake_fin_ok].
  - apply groestl_shape_ok; [assumption|apply groestl_fin_ok].
  - apply jh_shape_ok; [apply Nat.lt_0_succ|apply jh_fin_ok].
  - apply skein_shape_ok; [assumption|apply skein_fin_ok].
Qed.

End CrateFinOk.
