(** C03, machine-framing: ChaCha's WHOLE block functions (guts.rs [refill_narrow] =
    [refill_narrow_rounds] + [output_narrow] + [inc_block_ct], and [refill_wide_impl] with [d0123],
    [transpose4], [add_pos]) written over the extended machine record (Model/MachineFull.v) equal, on
    every back end that refines the lane meaning, the executable model Model/ChaChaGuts.v
    ([refill], [refill_wide]) — for every number of double rounds and every well-formed state.
    Hence they are independent of the back end, and the lane instance is the model. *)
From Coq Require Import NArith List Bool Lia Arith.
From CC Require Import Lib.Words Lib.Bytes Lib.ListX Spec.Lanes Model.Machine Model.MachineFull.
From CC Require Import Proofs.Machine Proofs.MachineBytes Proofs.MachineModels Proofs.MachineFullLib.
From CC Require Import Model.ChaChaGuts.
Import ListNotations.
Local Open Scope N_scope.

(** the model's state (three 4-word vectors) of a store, and back *)
Definition cc_of (s : cstore) : chacha :=
  CC (words_le 4 (st_b s)) (words_le 4 (st_c s)) (words_le 4 (st_d s)).
Definition store_of (c : chacha) : cstore :=
  CSt (bytes_le 4 (cb c)) (bytes_le 4 (cc c)) (bytes_le 4 (cd c)).
Definition chacha_ok (c : chacha) : Prop :=
  words_ok 32 4 (cb c) /\ words_ok 32 4 (cc c) /\ words_ok 32 4 (cd c).

Lemma cc_of_ok s : cstore_ok s -> chacha_ok (cc_of s).
Proof. intros (Hb & Hc & Hd). repeat split; apply bytes16_words4; assumption. Qed.
Lemma store_of_ok c : chacha_ok c -> cstore_ok (store_of c).
Proof. intros (Hb & Hc & Hd). repeat split; apply ok4_bytes; assumption. Qed.
Lemma cc_of_store_of c : chacha_ok c -> cc_of (store_of c) = c.
Proof.
  intros (Hb & Hc & Hd). destruct c as [b c d]. unfold cc_of, store_of. cbn [st_b st_c st_d cb cc cd] in *.
  now rewrite (proj2 (ok4_bytes b Hb)), (proj2 (ok4_bytes c Hc)), (proj2 (ok4_bytes d Hd)).
Qed.
Lemma store_of_cc_of s : cstore_ok s -> store_of (cc_of s) = s.
Proof.
  intros (Hb & Hc & Hd). destruct s as [b c d]. unfold cc_of, store_of. cbn [st_b st_c st_d cb cc cd] in *.
  now rewrite (proj2 (bytes16_words4 b Hb)), (proj2 (bytes16_words4 c Hc)), (proj2 (bytes16_words4 d Hd)).
Qed.

Lemma K_ok : words_ok 32 4 chacha_k.
Proof. split; [reflexivity|]. repeat constructor. Qed.

(** * facts of [nops_refines] through [rel] *)
Section NopsRel.
  Variables (o : vops) (n : nops o).
  Hypothesis NR : nops_refines o n.

  Lemma rel_ok4 a la : rel o a la -> words_ok 32 4 la.
  Proof. intros [W <-]. now apply (nr_ok _ _ NR). Qed.
  Lemma rel_into a la : rel o a la -> v4_into n a = bytes_le 4 la.
  Proof. intros [W <-]. now apply (nr_into _ _ NR). Qed.
  Lemma rel_write_le a la : rel o a la -> v4_write_le n a = bytes_le 4 la.
  Proof. intros [W <-]. now apply (nr_write_le _ _ NR). Qed.
  Lemma rel_extract a la i : rel o a la -> i < 4 -> v4_extract n a i = nth (N.to_nat i) la 0.
  Proof. intros [W <-] Hi. now apply (nr_extract _ _ NR). Qed.
  Lemma rel_insert a la v i : rel o a la -> v < 2 ^ 32 -> i < 4 ->
    rel o (v4_insert n a v i) (upd (N.to_nat i) v la).
  Proof. intros [W <-] Hv Hi. now apply (nr_insert _ _ NR). Qed.
  (** unpacking the storage image of a word list *)
  Lemma rel_unpack_bytes la : words_ok 32 4 la -> rel o (v4_unpack n (bytes_le 4 la)) la.
  Proof.
    intros H. destruct (ok4_bytes la H) as [B E].
    pose proof (nr_unpack _ _ NR _ B) as R. now rewrite E in R.
  Qed.
End NopsRel.

(** * narrow *)
Section Narrow.
  Variables (o : vops) (n : nops o).
  Hypothesis R : vops_refines 32 4 ks32 o.
  Hypothesis NR : nops_refines o n.

  (** [refill_narrow_rounds]: the storage images of the model's rounds *)
  Lemma narrow_rounds_is_model : forall k s, cstore_ok s ->
    let r := refill_narrow_rounds (cc_of s) k in
    x_refill_narrow_rounds o n k s = (bytes_le 4 (va r), bytes_le 4 (vb r), bytes_le 4 (vc r), bytes_le 4 (vd r)) /\
    words_ok 32 4 (va r) /\ words_ok 32 4 (vb r) /\ words_ok 32 4 (vc r) /\ words_ok 32 4 (vd r).
  Proof.
    intros k s (Hb & Hc & Hd). cbv zeta.
    set (y0 := CS (o := lane_vops 32) chacha_k (words_le 4 (st_b s)) (words_le 4 (st_c s)) (words_le 4 (st_d s))).
    set (x0 := CS (v_vec o chacha_k) (v4_unpack n (st_b s)) (v4_unpack n (st_c s)) (v4_unpack n (st_d s))).
    assert (S0 : c_sim o 32 x0 y0).
    { unfold c_sim, x0, y0. cbn [sa sb sc sd]. split4.
      - apply (r_vec _ _ _ _ R), K_ok.
      - apply (nr_unpack _ _ NR), Hb.
      - apply (nr_unpack _ _ NR), Hc.
      - apply (nr_unpack _ _ NR), Hd. }
    pose proof (c_rounds_sim o 32 4%nat ks32 R incl_chacha_ks32 k x0 y0 S0) as (Sa & Sb & Sc & Sd).
    assert (E : refill_narrow_rounds (cc_of s) k = to_vs (c_rounds (lane_vops 32) k y0)).
    { rewrite lane_rounds_is_model. reflexivity. }
    rewrite E. unfold to_vs. cbn [va vb vc vd].
    split.
    - unfold x_refill_narrow_rounds. fold x0.
      rewrite (rel_into o n NR _ _ Sa), (rel_into o n NR _ _ Sb), (rel_into o n NR _ _ Sc), (rel_into o n NR _ _ Sd).
      reflexivity.
    - split4; eapply (rel_ok4 o n NR); eassumption.
  Qed.

  (** the body of [refill_narrow] after the rounds *)
  Lemma narrow_tail_is_model : forall s (x : vstate), cstore_ok s ->
    words_ok 32 4 (va x) -> words_ok 32 4 (vb x) -> words_ok 32 4 (vc x) -> words_ok 32 4 (vd x) ->
    x_refill_narrow_tail o n s (bytes_le 4 (va x), bytes_le 4 (vb x), bytes_le 4 (vc x), bytes_le 4 (vd x)) =
    (output_narrow (cc_of s) x, store_of (inc_block_ct (cc_of s))).
  Proof.
    intros s x (Hb & Hc & Hd) Wa Wb Wc Wd. unfold x_refill_narrow_tail. f_equal.
    - (* output_narrow *)
      unfold x_output_narrow, t4_0, t4_1, t4_2, t4_3. cbn [fst snd sa sb sc sd].
      unfold output_narrow. cbn [cc_of cb cc cd].
      pose proof (r_vec _ _ _ _ R _ K_ok) as RK.
      pose proof (nr_unpack _ _ NR _ Hb) as Rb. pose proof (nr_unpack _ _ NR _ Hc) as Rc.
      pose proof (nr_unpack _ _ NR _ Hd) as Rd.
      pose proof (rel_unpack_bytes o n NR _ Wa) as Xa. pose proof (rel_unpack_bytes o n NR _ Wb) as Xb.
      pose proof (rel_unpack_bytes o n NR _ Wc) as Xc. pose proof (rel_unpack_bytes o n NR _ Wd) as Xd.
      rewrite (rel_write_le o n NR _ _ (r_add _ _ _ _ R _ _ _ _ Xa RK)).
      rewrite (rel_write_le o n NR _ _ (r_add _ _ _ _ R _ _ _ _ Xb Rb)).
      rewrite (rel_write_le o n NR _ _ (r_add _ _ _ _ R _ _ _ _ Xc Rc)).
      rewrite (rel_write_le o n NR _ _ (r_add _ _ _ _ R _ _ _ _ Xd Rd)).
      reflexivity.
    - (* inc_block_ct *)
      unfold x_inc_block_ct, x_pos64, inc_block_ct, store_of. cbn [cc_of cb cc cd st_b st_c st_d].
      pose proof (nr_unpack _ _ NR _ Hd) as Rd.
      rewrite (rel_extract o n NR _ _ 1 Rd), (rel_extract o n NR _ _ 0 Rd) by reflexivity.
      change (N.to_nat 1) with 1%nat. change (N.to_nat 0) with 0%nat.
      unfold pos64. cbn [cd].
      set (pos := wrap 64 (N.lor (N.shiftl (nth 1 (words_le 4 (st_d s)) 0) 32) (nth 0 (words_le 4 (st_d s)) 0) + 1)).
      assert (R1 : rel o (v4_insert n (v4_unpack n (st_d s)) (wrap 32 (N.shiftr pos 32)) 1)
                         (upd 1 (wrap 32 (N.shiftr pos 32)) (words_le 4 (st_d s)))).
      { apply (rel_insert o n NR _ _ _ 1 Rd); [apply wrap_lt | reflexivity]. }
      assert (R0 : rel o (v4_insert n (v4_insert n (v4_unpack n (st_d s)) (wrap 32 (N.shiftr pos 32)) 1) (wrap 32 pos) 0)
                         (upd 0 (wrap 32 pos) (upd 1 (wrap 32 (N.shiftr pos 32)) (words_le 4 (st_d s))))).
      { apply (rel_insert o n NR _ _ _ 0 R1); [apply wrap_lt | reflexivity]. }
      rewrite (rel_into o n NR _ _ R0).
      rewrite (proj2 (bytes16_words4 _ Hb)), (proj2 (bytes16_words4 _ Hc)). reflexivity.
  Qed.

  (** [pos64], [seek64], [seek32] *)
  Lemma pos64_is_model : forall s, cstore_ok s -> x_pos64 o n s = pos64 (cc_of s).
  Proof.
    intros s (Hb & Hc & Hd). unfold x_pos64, pos64. cbn [cc_of cd].
    pose proof (nr_unpack _ _ NR _ Hd) as Rd.
    now rewrite (rel_extract o n NR _ _ 1 Rd), (rel_extract o n NR _ _ 0 Rd) by reflexivity.
  Qed.

  Lemma seek64_is_model : forall s blockct, cstore_ok s ->
    x_seek64 o n s blockct = store_of (seek64 (cc_of s) blockct).
  Proof.
    intros s c (Hb & Hc & Hd). unfold x_seek64, seek64, store_of, set_pos. cbn [cc_of cb cc cd].
    pose proof (nr_unpack _ _ NR _ Hd) as Rd.
    assert (R1 : rel o (v4_insert n (v4_unpack n (st_d s)) (wrap 32 (N.shiftr c 32)) 1)
                       (upd 1 (wrap 32 (N.shiftr c 32)) (words_le 4 (st_d s)))).
    { apply (rel_insert o n NR _ _ _ 1 Rd); [apply wrap_lt | reflexivity]. }
    assert (R0 : rel o (v4_insert n (v4_insert n (v4_unpack n (st_d s)) (wrap 32 (N.shiftr c 32)) 1) (wrap 32 c) 0)
                       (upd 0 (wrap 32 c) (upd 1 (wrap 32 (N.shiftr c 32)) (words_le 4 (st_d s))))).
    { apply (rel_insert o n NR _ _ _ 0 R1); [apply wrap_lt | reflexivity]. }
    rewrite (rel_into o n NR _ _ R0).
    now rewrite (proj2 (bytes16_words4 _ Hb)), (proj2 (bytes16_words4 _ Hc)).
  Qed.

  Lemma seek32_is_model : forall s blockct, cstore_ok s -> blockct < 2 ^ 32 ->
    x_seek32 o n s blockct = store_of (seek32 (cc_of s) blockct).
  Proof.
    intros s c (Hb & Hc & Hd) Hlt. unfold x_seek32, seek32, store_of. cbn [cc_of cb cc cd].
    pose proof (nr_unpack _ _ NR _ Hd) as Rd.
    pose proof (rel_insert o n NR _ _ c 0 Rd Hlt eq_refl) as R0.
    rewrite (rel_into o n NR _ _ R0). rewrite (wrap_small 32 c Hlt).
    now rewrite (proj2 (bytes16_words4 _ Hb)), (proj2 (bytes16_words4 _ Hc)).
  Qed.

  (** [read_le] then [into]: the 16 bytes *)
  Lemma read_into : forall bs, bytes_ok 16 bs -> v4_into n (v4_read_le n bs) = bs.
  Proof.
    intros bs Hbs. rewrite (rel_into o n NR _ _ (nr_read_le _ _ NR _ Hbs)).
    unfold read_le. apply bytes16_words4, Hbs.
  Qed.
End Narrow.

(** [refill_narrow] on any two refining back ends (rounds under [dispatch!], output under
    [dispatch_light128!]) is the model's [refill] *)
Theorem refill_narrow_is_model : forall m1 m2, xmachine_refines m1 -> xmachine_refines m2 ->
  forall k s, cstore_ok s ->
    x_refill_narrow m1 m2 k s = (fst (refill (cc_of s) k), store_of (snd (refill (cc_of s) k))).
Proof.
  intros m1 m2 X1 X2 k s Hs. unfold x_refill_narrow.
  destruct (xr_base _ X1) as (R1 & _). destruct (xr_base _ X2) as (R2 & _).
  destruct (narrow_rounds_is_model _ _ R1 (xr_n _ X1) k s Hs) as (E & Wa & Wb & Wc & Wd).
  rewrite E. rewrite (narrow_tail_is_model _ _ R2 (xr_n _ X2)) by assumption. reflexivity.
Qed.

(** [init_chacha_x]: XChaCha's key/nonce set-up (HChaCha through [refill_narrow_rounds]) *)
Theorem init_chacha_x_is_model : forall m1 m2, xmachine_refines m1 -> xmachine_refines m2 ->
  forall key nonce k, bytes_ok 32 key -> bytes_ok 24 nonce ->
    x_init_chacha_x m1 m2 key nonce k = store_of (init_chacha_x key nonce k).
Proof.
  intros m1 m2 X1 X2 key nonce k [Lk Bk] [Ln Bn]. unfold x_init_chacha_x.
  destruct (xr_base _ X1) as (R1 & _). destruct (xr_base _ X2) as (R2 & _).
  assert (K0 : bytes_ok 16 (firstn 16 key))
    by (split; [rewrite firstn_length, Lk; reflexivity | now apply Forall_firstn']).
  assert (K1 : bytes_ok 16 (skipn 16 key))
    by (split; [rewrite skipn_length, Lk; reflexivity | now apply Forall_skipn']).
  assert (N0 : bytes_ok 16 (firstn 16 nonce))
    by (split; [rewrite firstn_length, Ln; reflexivity | now apply Forall_firstn']).
  rewrite !(read_into _ _ (xr_n _ X2)) by assumption.
  destruct (narrow_rounds_is_model _ _ R1 (xr_n _ X1) k (CSt (firstn 16 key) (skipn 16 key) (firstn 16 nonce))
              (conj K0 (conj K1 N0))) as (E & _).
  rewrite E. reflexivity.
Qed.

Theorem seek_is_model : forall m, xmachine_refines m -> forall s, cstore_ok s ->
  x_pos64 _ (xm_n m) s = pos64 (cc_of s) /\
  (forall c, x_seek64 _ (xm_n m) s c = store_of (seek64 (cc_of s) c)) /\
  (forall c, c < 2 ^ 32 -> x_seek32 _ (xm_n m) s c = store_of (seek32 (cc_of s) c)).
Proof.
  intros m X s Hs. destruct (xr_base _ X) as (R & _). pose proof (xr_n _ X) as NR.
  split; [exact (pos64_is_model _ _ NR s Hs) | split].
  - intros c. exact (seek64_is_model _ _ NR s c Hs).
  - intros c Hc. exact (seek32_is_model _ _ NR s c Hs Hc).
Qed.

(** * wide *)
Section DopsRel.
  Variable q : dops.
  Hypothesis DR : dops_refines q.

  Definition drel2 (a : d2_t q) (l : list N) : Prop := d2_wf q a /\ d2_rep q a = l.
  Definition drel8 (a : d8_t q) (l : list N) : Prop := d8_wf q a /\ d8_rep q a = l.

  Lemma drel_vec l : words_ok 64 2 l -> drel2 (d2_vec q l) l.
  Proof. apply (dr_vec _ DR). Qed.
  Lemma drel_unpack st : bytes_ok 16 st -> drel2 (d2_unpack q st) (words_le 8 st).
  Proof. apply (dr_unpack _ DR). Qed.
  Lemma drel_add a b la lb : drel2 a la -> drel2 b lb -> drel2 (d2_add q a b) (v_add 64 la lb).
  Proof. intros [Wa <-] [Wb <-]. now apply (dr_add _ DR). Qed.
  Lemma drel_into a la : drel2 a la -> d2_into q a = bytes_le 8 la /\ words_ok 64 2 la.
  Proof. intros [Wa <-]. split; [now apply (dr_into _ DR) | now apply (dr_ok2 _ DR)]. Qed.
  Lemma drel_from_lanes a b c d la lb lc ld : drel2 a la -> drel2 b lb -> drel2 c lc -> drel2 d ld ->
    drel8 (d8_from_lanes q a b c d) (la ++ lb ++ lc ++ ld).
  Proof. intros [Wa <-] [Wb <-] [Wc <-] [Wd <-]. now apply (dr_from_lanes _ DR). Qed.
  Lemma drel_add8 a b la lb : drel8 a la -> drel8 b lb -> drel8 (d8_add q a b) (v_add 64 la lb).
  Proof. intros [Wa <-] [Wb <-]. now apply (dr_add8 _ DR). Qed.
  Lemma drel_into8 a la : drel8 a la -> d8_into q a = bytes_le 8 la /\ words_ok 64 8 la.
  Proof. intros [Wa <-]. split; [now apply (dr_into8 _ DR) | now apply (dr_ok8 _ DR)]. Qed.
End DopsRel.

Lemma pair_ok64 i : i < 2 ^ 64 -> words_ok 64 2 [i; 0].
Proof.
  intros H. split; [reflexivity|].
  apply Forall_cons; [exact H | apply Forall_cons; [reflexivity | apply Forall_nil]].
Qed.

Section Wide.
  Variables (o4 o16 : vops) (n : nops o4) (q : dops) (x : wops o4 o16).
  Hypothesis R4 : vops_refines 32 4 ks32 o4.
  Hypothesis R16 : vops_refines 32 16 ks32 o16.
  Hypothesis NR : nops_refines o4 n.
  Hypothesis DR : dops_refines q.
  Hypothesis WR : wops_refines o4 o16 x.

  (** [d0123] *)
  Lemma d0123_is_model : forall st, bytes_ok 16 st ->
    rel o16 (x_d0123 o4 o16 q x st) (d0123 (words_le 4 st)).
  Proof.
    intros st Hst. unfold x_d0123, d0123.
    pose proof (drel_unpack q DR st Hst) as D0.
    assert (V : forall i, i < 2 ^ 64 -> drel2 q (d2_vec q [i; 0]) [i; 0])
      by (intros i Hi; apply (drel_vec q DR), pair_ok64, Hi).
    pose proof (drel_from_lanes q DR _ _ _ _ _ _ _ _ (V 0 eq_refl) (V 1 eq_refl) (V 2 eq_refl) (V 3 eq_refl)) as I.
    pose proof (drel_from_lanes q DR _ _ _ _ _ _ _ _ D0 D0 D0 D0) as D4.
    pose proof (drel_add8 q DR _ _ _ _ D4 I) as A.
    destruct (drel_into8 q DR _ _ A) as [E W]. rewrite E.
    pose proof (wr_unpack _ _ _ WR _ (proj1 (ok8q_bytes _ W))) as U.
    unfold reinterpret. rewrite (proj2 (bytes16_words4 st Hst)).
    exact U.
  Qed.

  (** [add_pos] *)
  Lemma add_pos_is_model : forall a la i, rel o4 a la -> i < 2 ^ 64 ->
    rel o4 (x_add_pos o4 n q a i) (add_pos la i).
  Proof.
    intros a la i Ra Hi. unfold x_add_pos, add_pos.
    rewrite (rel_into o4 n NR _ _ Ra).
    pose proof (rel_ok4 o4 n NR _ _ Ra) as Wla.
    pose proof (drel_unpack q DR _ (proj1 (ok4_bytes _ Wla))) as D0.
    pose proof (drel_vec q DR _ (pair_ok64 i Hi)) as I.
    pose proof (drel_add q DR _ _ _ _ D0 I) as A.
    destruct (drel_into q DR _ _ A) as [E W]. rewrite E.
    exact (nr_unpack _ _ NR _ (proj1 (ok2q_bytes _ W))).
  Qed.

  Lemma rel_x4 a la : rel o4 a la -> rel o16 (v16_from_lanes x a a a a) (x4 la).
  Proof. intros [W <-]. now apply (wr_from_lanes _ _ _ WR). Qed.

  Lemma rel_write16 a la : rel o16 a la -> v16_write_le x a = bytes_le 4 la.
  Proof. intros [W <-]. now apply (wr_write_le _ _ _ WR). Qed.

  Theorem wide_is_model : forall k s, cstore_ok s ->
    x_refill_wide o4 o16 n q x k s =
    (fst (refill_wide (cc_of s) k), store_of (snd (refill_wide (cc_of s) k))).
  Proof.
    intros k s (Hb & Hc & Hd). unfold x_refill_wide, refill_wide. cbn [fst snd cc_of cb cc cd].
    pose proof (r_vec _ _ _ _ R4 _ K_ok) as RK.
    pose proof (nr_unpack _ _ NR _ Hb) as Rb. pose proof (nr_unpack _ _ NR _ Hc) as Rc.
    pose proof (d0123_is_model _ Hd) as Rd.
    pose proof (rel_x4 _ _ RK) as RK4. pose proof (rel_x4 _ _ Rb) as Rb4. pose proof (rel_x4 _ _ Rc) as Rc4.
    set (x0 := CS (v16_from_lanes x (v_vec o4 chacha_k) (v_vec o4 chacha_k) (v_vec o4 chacha_k) (v_vec o4 chacha_k))
                  (v16_from_lanes x (v4_unpack n (st_b s)) (v4_unpack n (st_b s)) (v4_unpack n (st_b s)) (v4_unpack n (st_b s)))
                  (v16_from_lanes x (v4_unpack n (st_c s)) (v4_unpack n (st_c s)) (v4_unpack n (st_c s)) (v4_unpack n (st_c s)))
                  (x_d0123 o4 o16 q x (st_d s))).
    set (y0 := CS (o := lane_vops 32) (x4 chacha_k) (x4 (words_le 4 (st_b s))) (x4 (words_le 4 (st_c s)))
                  (d0123 (words_le 4 (st_d s)))).
    assert (S0 : c_sim o16 32 x0 y0) by (unfold c_sim, x0, y0; cbn [sa sb sc sd]; split4; assumption).
    pose proof (c_rounds_sim o16 32 16%nat ks32 R16 incl_chacha_ks32 k x0 y0 S0) as (Sa & Sb & Sc & Sd).
    assert (E : m_rounds k (VS (x4 K) (x4 (words_le 4 (st_b s))) (x4 (words_le 4 (st_c s))) (d0123 (words_le 4 (st_d s))))
                = to_vs (c_rounds (lane_vops 32) k y0))
      by (rewrite lane_rounds_is_model; reflexivity).
    rewrite E. unfold to_vs. cbn [va vb vc vd].
    set (y1 := c_rounds (lane_vops 32) k y0) in *. set (x1 := c_rounds o16 k x0) in *.
    pose proof (r_add _ _ _ _ R16 _ _ _ _ Sa RK4) as Aa. pose proof (r_add _ _ _ _ R16 _ _ _ _ Sb Rb4) as Ab.
    pose proof (r_add _ _ _ _ R16 _ _ _ _ Sc Rc4) as Ac. pose proof (r_add _ _ _ _ R16 _ _ _ _ Sd Rd) as Ad.
    destruct Aa as [Wa Ea], Ab as [Wb Eb], Ac as [Wc Ec], Ad as [Wd Ed].
    pose proof (wr_transpose4 _ _ _ WR _ _ _ _ Wa Wb Wc Wd) as T. cbv zeta in T.
    rewrite Ea, Eb, Ec, Ed in T. destruct T as (T0 & T1 & T2 & T3).
    rewrite (rel_write16 _ _ T0), (rel_write16 _ _ T1), (rel_write16 _ _ T2), (rel_write16 _ _ T3).
    f_equal.
    destruct Rd as [Wsd Esd].
    destruct (wr_to_lanes _ _ _ WR _ Wsd) as (L0 & _). rewrite Esd in L0.
    pose proof (add_pos_is_model _ _ 4 L0 eq_refl) as P.
    rewrite (rel_into o4 n NR _ _ P). unfold store_of. cbn [cb cc cd].
    rewrite (proj2 (bytes16_words4 _ Hb)), (proj2 (bytes16_words4 _ Hc)). reflexivity.
  Qed.
End Wide.

Theorem refill_wide_is_model : forall m, xmachine_refines m ->
  forall k s, cstore_ok s ->
    xm_refill_wide m k s = (fst (refill_wide (cc_of s) k), store_of (snd (refill_wide (cc_of s) k))).
Proof.
  intros m X k s Hs. destruct (xr_base _ X) as (R4 & R16 & _).
  exact (wide_is_model _ _ _ _ _ R4 R16 (xr_n _ X) (xr_d _ X) (xr_w _ X) k s Hs).
Qed.

(** * machine independence and the lane instance, as corollaries *)
Theorem refill_narrow_machine_indep : forall m1 m2, xmachine_refines m1 -> xmachine_refines m2 ->
  forall k s, cstore_ok s -> x_refill_narrow m1 m2 k s = x_refill_narrow lane_xm lane_xm k s.
Proof.
  intros m1 m2 X1 X2 k s Hs.
  rewrite (refill_narrow_is_model m1 m2 X1 X2 k s Hs).
  now rewrite (refill_narrow_is_model lane_xm lane_xm lane_xm_refines lane_xm_refines k s Hs).
Qed.

Theorem refill_wide_machine_indep : forall m, xmachine_refines m ->
  forall k s, cstore_ok s -> xm_refill_wide m k s = xm_refill_wide lane_xm k s.
Proof.
  intros m X k s Hs.
  rewrite (refill_wide_is_model m X k s Hs). now rewrite (refill_wide_is_model lane_xm lane_xm_refines k s Hs).
Qed.

(** the lane instance, from the model's side: for every well-formed model state *)
Theorem lane_refill_narrow_is_model : forall k c, chacha_ok c ->
  x_refill_narrow lane_xm lane_xm k (store_of c) = (fst (refill c k), store_of (snd (refill c k))).
Proof.
  intros k c Hc.
  rewrite (refill_narrow_is_model lane_xm lane_xm lane_xm_refines lane_xm_refines k _ (store_of_ok c Hc)).
  now rewrite (cc_of_store_of c Hc).
Qed.
Theorem lane_refill_wide_is_model : forall k c, chacha_ok c ->
  xm_refill_wide lane_xm k (store_of c) = (fst (refill_wide c k), store_of (snd (refill_wide c k))).
Proof.
  intros k c Hc.
  rewrite (refill_wide_is_model lane_xm lane_xm_refines k _ (store_of_ok c Hc)).
  now rewrite (cc_of_store_of c Hc).
Qed.

Print Assumptions init_chacha_x_is_model.
Print Assumptions seek_is_model.
Print Assumptions refill_narrow_is_model.
Print Assumptions refill_wide_is_model.
Print Assumptions refill_narrow_machine_indep.
Print Assumptions refill_wide_machine_indep.
