(** C16 — proofs about the addressed slice model (frame lemmas, key-stream application). *)
From Coq Require Import NArith List Arith Lia Bool ZArith.
From CC Require Import Lib.Words Lib.Bytes Lib.ListX Model.BlockBuffer Model.SliceApi.
Import ListNotations.
Ltac Zify.zify_post_hook ::= Z.div_mod_to_equations.

(** * List helpers *)
Lemma skipn_plus_app {A} (a b : list A) i : skipn (length a + i) (a ++ b) = skipn i b.
Proof. induction a; simpl; auto. Qed.
Lemma firstn_plus_app {A} (a b : list A) i : firstn (length a + i) (a ++ b) = a ++ firstn i b.
Proof. induction a; simpl; auto. f_equal; auto. Qed.
Lemma firstn_app_le {A} (a b : list A) n : n <= length a -> firstn n (a ++ b) = firstn n a.
Proof. intros H. rewrite firstn_app. replace (n - length a) with 0 by lia. simpl. apply app_nil_r. Qed.
Lemma skipn_app_le {A} (a b : list A) n : n <= length a -> skipn n (a ++ b) = skipn n a ++ b.
Proof. intros H. rewrite skipn_app. replace (n - length a) with 0 by lia. reflexivity. Qed.
Lemma firstn_len_app {A} (a b : list A) : firstn (length a) (a ++ b) = a.
Proof. replace (length a) with (length a + 0) by lia. rewrite firstn_plus_app. simpl. apply app_nil_r. Qed.
Lemma skipn_len_app {A} (a b : list A) : skipn (length a) (a ++ b) = b.
Proof. replace (length a) with (length a + 0) by lia. now rewrite skipn_plus_app. Qed.

Lemma skipn_skipn' {A} (l : list A) a b : skipn a (skipn b l) = skipn (b + a) l.
Proof. revert l; induction b as [|b IH]; intros l; simpl; auto. destruct l; simpl; [now rewrite skipn_nil|apply IH]. Qed.

Lemma xor_bytes_length a b : length (xor_bytes a b) = Nat.min (length a) (length b).
Proof. revert b; induction a as [|x a IH]; intros [|y b]; simpl; auto. Qed.

(** * Views *)

(** a slice in mapped memory splits the memory into before / content / after *)
Lemma slice_view m s : slice_ok m s ->
  exists pre body post, m = pre ++ body ++ post /\ length pre = s_off s /\ length body = s_len s.
Proof.
  intros H. unfold slice_ok in H.
  exists (firstn (s_off s) m), (firstn (s_len s) (skipn (s_off s) m)), (skipn (s_len s) (skipn (s_off s) m)).
  split; [|split].
  - now rewrite !firstn_skipn.
  - apply firstn_length_le; lia.
  - apply firstn_length_le. rewrite skipn_length. lia.
Qed.

Lemma sbytes_view pre body post L :
  length body = L -> sbytes (pre ++ body ++ post) (Sl (length pre) L) = body.
Proof.
  intros <-. unfold sbytes; cbn [s_off s_len]. rewrite skipn_len_app. apply firstn_len_app.
Qed.

Lemma sread_view pre body post L i n :
  length body = L -> i + n <= L ->
  sread (pre ++ body ++ post) (Sl (length pre) L) i n = Some (firstn n (skipn i body)).
Proof.
  intros HL H. unfold sread, mread; cbn [s_off s_len].
  destruct (Nat.leb_spec (i + n) L); [|lia].
  rewrite !app_length. destruct (Nat.leb_spec (length pre + i + n) (length pre + (length body + length post))); [|lia].
  rewrite skipn_plus_app. rewrite skipn_app_le by lia.
  rewrite firstn_app_le; [reflexivity|]. rewrite skipn_length. lia.
Qed.

Lemma sread_outside m s i n : s_len s < i + n -> sread m s i n = None.
Proof. intros H. unfold sread. destruct (Nat.leb_spec (i + n) (s_len s)); [lia|reflexivity]. Qed.

Lemma swrite_view pre body post L i bs :
  length body = L -> i + length bs <= L ->
  swrite (pre ++ body ++ post) (Sl (length pre) L) i bs
  = Some (pre ++ (firstn i body ++ bs ++ skipn (i + length bs) body) ++ post).
Proof.
  intros HL H. unfold swrite, mwrite; cbn [s_off s_len].
  destruct (Nat.leb_spec (i + length bs) L); [|lia].
  rewrite !app_length. destruct (Nat.leb_spec (length pre + i + length bs) (length pre + (length body + length post))); [|lia].
  f_equal. rewrite firstn_plus_app. rewrite firstn_app_le by lia.
  replace (length pre + i + length bs) with (length pre + (i + length bs)) by lia.
  rewrite skipn_plus_app. rewrite skipn_app_le by lia.
  now rewrite <- !app_assoc.
Qed.

Lemma write_body_length (body : list N) i bs :
  i + length bs <= length body -> length (firstn i body ++ bs ++ skipn (i + length bs) body) = length body.
Proof. intros H. rewrite !app_length, firstn_length, skipn_length. lia. Qed.

(** the part of memory outside the slice, and its size, are unchanged *)
Definition same_outside (m m' : mem) (s : slice) : Prop :=
  length m' = length m /\ firstn (s_off s) m' = firstn (s_off s) m
  /\ skipn (s_off s + s_len s) m' = skipn (s_off s + s_len s) m.

Lemma same_outside_view pre body body' post L :
  length body = L -> length body' = L ->
  same_outside (pre ++ body ++ post) (pre ++ body' ++ post) (Sl (length pre) L).
Proof.
  intros H1 H2. unfold same_outside; cbn [s_off s_len]. repeat split.
  - rewrite !app_length. lia.
  - now rewrite !firstn_len_app.
  - rewrite !skipn_plus_app. rewrite <- H1 at 2. rewrite <- H2 at 1.
    now rewrite !skipn_len_app.
Qed.

Lemma same_outside_refl m s : same_outside m m s.
Proof. repeat split. Qed.

Lemma same_outside_trans m1 m2 m3 s : same_outside m1 m2 s -> same_outside m2 m3 s -> same_outside m1 m3 s.
Proof. intros (a & b & c) (d & e & f). repeat split; congruence. Qed.

Lemma same_outside_sub m m' s i n :
  i + n <= s_len s -> same_outside m m' (sub s i n) -> same_outside m m' s.
Proof.
  intros H (Hl & Hf & Hs). unfold sub in *; cbn [s_off s_len] in *. repeat split; auto.
  - assert (E : forall l : list N, firstn (s_off s) l = firstn (s_off s) (firstn (s_off s + i) l)).
    { intros l. rewrite firstn_firstn. f_equal. lia. }
    rewrite (E m'), (E m). now rewrite Hf.
  - assert (E : forall l : list N, skipn (s_off s + s_len s) l = skipn (s_len s - i - n) (skipn (s_off s + i + n) l)).
    { intros l. rewrite skipn_skipn'. f_equal. lia. }
    rewrite (E m'), (E m). now rewrite Hs.
Qed.

Lemma slice_ok_same m m' s : length m' = length m -> slice_ok m s -> slice_ok m' s.
Proof. unfold slice_ok. intros ->. auto. Qed.

Lemma slice_ok_sub m s i n : i + n <= s_len s -> slice_ok m s -> slice_ok m (sub s i n).
Proof. unfold slice_ok, sub; cbn [s_off s_len]. lia. Qed.

(** * Key-stream application *)
Section Apply.
  Variable refill : N -> list N.
  Variable refill4 : N -> list N.
  Hypothesis refill_len : forall c, length (refill c) = 64.
  Hypothesis refill4_len : forall c, length (refill4 c) = 256.

  Lemma xor_at_b_length body i ks n :
    i + n <= length body -> n <= length ks -> length (xor_at_b body i ks n) = length body.
  Proof.
    intros H Hk. unfold xor_at_b. rewrite !app_length, xor_bytes_length, !firstn_length, !skipn_length. lia.
  Qed.

  Lemma xor_at_view pre body post L i ks n :
    length body = L -> i + n <= L -> n <= length ks ->
    xor_at (pre ++ body ++ post) (Sl (length pre) L) i ks n = Some (pre ++ xor_at_b body i ks n ++ post).
  Proof.
    intros HL H Hk. unfold xor_at. rewrite sread_view by assumption.
    assert (E : length (xor_bytes (firstn n (skipn i body)) (firstn n ks)) = n).
    { rewrite xor_bytes_length, !firstn_length, skipn_length. lia. }
    rewrite swrite_view by (try assumption; rewrite E; lia).
    rewrite E. reflexivity.
  Qed.

  Lemma wide_loop_view pre post L nw : forall body i ctr,
    length body = L -> i + 256 * nw <= L ->
    wide_loop refill4 nw (pre ++ body ++ post) (Sl (length pre) L) i ctr
    = Some (pre ++ fst (wide_loop_b refill4 nw body i ctr) ++ post, snd (wide_loop_b refill4 nw body i ctr))
    /\ length (fst (wide_loop_b refill4 nw body i ctr)) = L.
  Proof.
    induction nw as [|k IH]; intros body i ctr HL H; cbn [wide_loop wide_loop_b fst snd].
    - auto.
    - rewrite xor_at_view by (try assumption; try lia; rewrite refill4_len; lia).
      apply IH; [|lia]. rewrite xor_at_b_length; [assumption|lia|rewrite refill4_len; lia].
  Qed.

  Lemma tail_loop_view pre post L nch : forall body i rem st,
    length body = L -> i + rem <= L ->
    tail_loop refill nch (pre ++ body ++ post) (Sl (length pre) L) i rem st
    = Some (pre ++ fst (tail_loop_b refill nch body i rem st) ++ post, snd (tail_loop_b refill nch body i rem st))
    /\ length (fst (tail_loop_b refill nch body i rem st)) = L.
  Proof.
    induction nch as [|k IH]; intros body i rem st HL H; cbn [tail_loop tail_loop_b fst snd].
    - auto.
    - cbv zeta.
      rewrite xor_at_view by (try assumption; try lia; rewrite refill_len; lia).
      apply IH; [|lia]. rewrite xor_at_b_length; [assumption|lia|rewrite refill_len; lia].
  Qed.

  Definition kstate_ok (st : kstate) : Prop := length (ks_out st) = 64 /\ ks_have st <= 64.

  (** the addressed model on a slice in mapped memory = the address-free computation on the
      slice's bytes, written back in place; nothing else changes *)
  Lemma m_apply_view pre body post L st :
    length body = L -> kstate_ok st ->
    m_apply refill refill4 (pre ++ body ++ post) (Sl (length pre) L) st
    = Some (pre ++ fst (apply_b refill refill4 body st) ++ post, snd (apply_b refill refill4 body st))
    /\ length (fst (apply_b refill refill4 body st)) = L.
  Proof.
    intros HL (Ho & Hh). unfold m_apply, apply_b; cbn [s_len]. rewrite HL.
    set (hr := Nat.min (ks_have st) L).
    assert (Hk : hr <= length (skipn (64 - ks_have st) (ks_out st))) by (rewrite skipn_length; lia).
    rewrite xor_at_view by (try assumption; lia).
    set (b1 := xor_at_b body 0 _ hr).
    assert (L1 : length b1 = L) by (unfold b1; rewrite xor_at_b_length; lia).
    set (nw := (L - hr) / 256).
    assert (Hnw : 256 * nw <= L - hr) by (unfold nw; apply Nat.mul_div_le; lia).
    destruct (wide_loop_view pre post L nw b1 hr (ks_ctr st) L1 ltac:(lia)) as (E2 & L2).
    rewrite E2. destruct (wide_loop_b refill4 nw b1 hr (ks_ctr st)) as [b2 ctr2]. cbn [fst snd] in *.
    apply tail_loop_view; [assumption|lia].
  Qed.

  Theorem apply_spec m s st :
    slice_ok m s -> kstate_ok st ->
    exists m', m_apply refill refill4 m s st = Some (m', snd (apply_b refill refill4 (sbytes m s) st))
               /\ same_outside m m' s
               /\ sbytes m' s = fst (apply_b refill refill4 (sbytes m s) st).
  Proof.
    intros Hs Hst. destruct (slice_view m s Hs) as (pre & body & post & -> & Hp & Hb).
    destruct s as [off len]; cbn [s_off s_len] in *. subst off.
    rewrite (sbytes_view pre body post len Hb).
    destruct (m_apply_view pre body post len st Hb Hst) as (E & Lb).
    eexists; split; [exact E|]. split.
    - now apply same_outside_view.
    - now apply sbytes_view.
  Qed.

  (** (a) every access of the call is inside the slice (and inside memory): the partial
      accessors never fail *)
  Theorem apply_reads_in_bounds m s st :
    slice_ok m s -> kstate_ok st -> m_apply refill refill4 m s st <> None.
  Proof. intros Hs Hst. destruct (apply_spec m s st Hs Hst) as (m' & E & _). now rewrite E. Qed.

  (** (b) memory outside the slice and the size of memory are unchanged *)
  Theorem apply_writes_exactly m s st m' st' :
    slice_ok m s -> kstate_ok st -> m_apply refill refill4 m s st = Some (m', st') -> same_outside m m' s.
  Proof.
    intros Hs Hst E. destruct (apply_spec m s st Hs Hst) as (m2 & E2 & Ho & _).
    rewrite E in E2. now inversion E2; subst.
  Qed.

  (** address independence: equal slice contents at any two addresses in any two memories give
      equal results and equal successor states *)
  Theorem apply_address_independent m1 s1 m2 s2 st :
    slice_ok m1 s1 -> slice_ok m2 s2 -> kstate_ok st -> sbytes m1 s1 = sbytes m2 s2 ->
    exists m1' m2' st', m_apply refill refill4 m1 s1 st = Some (m1', st')
                        /\ m_apply refill refill4 m2 s2 st = Some (m2', st')
                        /\ sbytes m1' s1 = sbytes m2' s2.
  Proof.
    intros H1 H2 Hst E.
    destruct (apply_spec m1 s1 st H1 Hst) as (m1' & E1 & _ & V1).
    destruct (apply_spec m2 s2 st H2 Hst) as (m2' & E2 & _ & V2).
    exists m1', m2', (snd (apply_b refill refill4 (sbytes m1 s1) st)).
    split; [exact E1|]. split; [rewrite E; exact E2|]. rewrite V1, V2, E. reflexivity.
  Qed.
End Apply.
