(** Audit examples for C12 / C13 / C19 (ppv-lite86, ppv-null).

    Part A: the lane contract (Spec/Lanes.v, Spec/NullLanes.v) evaluated on small recognisable
            operands, so that a reader can see the direction of every definition (rotate RIGHT,
            andnot = !a & b, swapN, bswap, the named permutations, byte orders).
    Part B: every pinned theorem family of Props/C12.v, C12g.v, C13.v, C13g.v, C19.v applied to a
            concrete, non-trivial operand (hypotheses shown satisfiable, conclusion computed).
    Part C: facts the audit report refers to (totalised defaults, restatements). *)
From Coq Require Import NArith List Bool Arith Lia.
From CC Require Import Lib.Words Lib.Bytes Lib.ListX.
From CC Require Import Model.Intrinsics Model.PpvSse Model.PpvAvx2.
From CC Require Spec.Lanes Spec.NullLanes Model.PpvSoft Model.PpvGeneric Model.PpvNull.
From CC Require Proofs.PpvSseMove Proofs.PpvAvx2Move Proofs.PpvStore
  Proofs.PpvGenericLib Proofs.PpvGenericWide Proofs.PpvGenericSwap Proofs.PpvGenericSwapWords
  Proofs.PpvGenericBytes Proofs.PpvNull.
From CC Require Props.C12 Props.C12g Props.C13 Props.C13g Props.C19.
Import ListNotations.
Local Open Scope N_scope.

(** * Operands *)
(** bytes 0..15: u32 words 0x03020100 0x07060504 .., u64 words 0x0706050403020100 .. *)
Definition b16 : list N := [0;1;2;3;4;5;6;7;8;9;10;11;12;13;14;15].
(** a bit-rich pattern for the bit-level operations *)
Definition c16 : list N :=
  [0x01;0x23;0x45;0x67;0x89;0xab;0xcd;0xef;0xfe;0xdc;0xba;0x98;0x76;0x54;0x32;0x10].
Definition f16 : list N := repeat 0xff 16.
Definition b32 : list N := b16 ++ map (fun x => x + 16) b16.     (* bytes 0..31 *)

Lemma wf_b16 : wf 16 b16.
Proof. split; [reflexivity|]. repeat constructor. Qed.
Lemma wf_c16 : wf 16 c16.
Proof. split; [reflexivity|]. unfold c16. repeat (constructor; [unfold is_byte; lia|]). constructor. Qed.
Lemma wf_f16 : wf 16 f16.
Proof. split; [reflexivity|]. unfold f16. cbn [repeat]. repeat (constructor; [unfold is_byte; lia|]). constructor. Qed.
Lemma wf_b32 : wf 32 b32.
Proof. split; [reflexivity|]. cbv [b32 b16 map app]. repeat (constructor; [unfold is_byte; lia|]). constructor. Qed.

(* ------------------------------------------------------------------------------------------ *)
(** * Part A — what the lane contract says on recognisable inputs *)
Module SpecAnchors.
  Import Spec.Lanes.
  (** rotate RIGHT: the low byte goes to the top *)
  Example rotr_is_right : v_rotr 32 8 [0x11223344] = [0x44112233] /\ v_rotr 64 16 [0x0123456789abcdef] = [0xcdef0123456789ab]
    /\ v_rotr 32 7 [1] = [0x02000000] /\ v_rotr 128 32 [1] = [2 ^ 96].
  Proof. repeat split; vm_compute; reflexivity. Qed.
  (** wrapping add *)
  Example add_wraps : v_add 32 [0xffffffff; 1] [2; 3] = [1; 4] /\ v_add 64 [2 ^ 64 - 1] [1] = [0].
  Proof. split; vm_compute; reflexivity. Qed.
  (** andnot = (!a) & b, NOT a & !b *)
  Example andnot_is_nota_and_b : v_andnot 8 [0x0f] [0x3c] = [0x30] /\ v_andnot 8 [0x3c] [0x0f] = [0x03].
  Proof. split; vm_compute; reflexivity. Qed.
  Example not_flips : v_not 32 [0x0000ffff] = [0xffff0000].
  Proof. vm_compute; reflexivity. Qed.
  (** byte reversal inside each word, words stay in place *)
  Example bswap_per_word : v_bswap 32 [0x11223344; 0xaabbccdd] = [0x44332211; 0xddccbbaa]
    /\ v_bswap 64 [0x0102030405060708] = [0x0807060504030201].
  Proof. split; vm_compute; reflexivity. Qed.
  (** swapN exchanges adjacent N-bit groups *)
  Example swap_groups :
    v_swap 1 8 [0x01] = [0x02] /\ v_swap 1 8 [0x9] = [0x6] /\ v_swap 2 8 [0x1b] = [0x4e] /\
    v_swap 4 16 [0x1234] = [0x2143] /\ v_swap 8 32 [0x11223344] = [0x22114433] /\
    v_swap 16 64 [0x1111222233334444] = [0x2222111144443333] /\
    v_swap 64 128 [0x00112233445566778899aabbccddeeff] = [0x8899aabbccddeeff0011223344556677].
  Proof. repeat split; vm_compute; reflexivity. Qed.
  Example swap_bit_form : forall j, In j [0; 1; 6; 7] ->
    N.testbit (swapw 1 8 0x41) j = swap_spec_bit 1 0x41 j.
  Proof. intros j Hj. cbn [In] in Hj. repeat (destruct Hj as [<-|Hj]; [vm_compute; reflexivity|]). contradiction. Qed.
  (** the named permutations (ppv-lite86's own test vectors: 3012 [0,1,2,3] = [1,2,3,0]) *)
  Example shuffles : shuffle3012 [0;1;2;3] = [1;2;3;0] /\ shuffle2301 [0;1;2;3] = [2;3;0;1] /\
    shuffle1230 [0;1;2;3] = [3;0;1;2] /\ shuffle1230 (shuffle3012 [0;1;2;3]) = [0;1;2;3] /\
    per_lane4 shuffle1230 [0;1;2;3;4;5;6;7] = [3;0;1;2;7;4;5;6].
  Proof. repeat split; reflexivity. Qed.
  Example transpose : transpose4 0 [1;2;3;4] [5;6;7;8] [9;10;11;12] [13;14;15;16]
    = ([1;5;9;13], [2;6;10;14], [3;7;11;15], [4;8;12;16]).
  Proof. reflexivity. Qed.
  (** byte orders *)
  Example byte_orders :
    read_le 4 [0;1;2;3;4;5;6;7] = [0x03020100; 0x07060504] /\
    read_be 4 [0;1;2;3;4;5;6;7] = [0x00010203; 0x04050607] /\
    write_le 4 [0x11223344] = [0x44;0x33;0x22;0x11] /\ write_be 4 [0x11223344] = [0x11;0x22;0x33;0x44] /\
    reinterpret 4 8 [1; 2] = [0x0000000200000001] /\ reinterpret 8 4 [0x0000000200000001] = [1; 2].
  Proof. repeat split; vm_compute; reflexivity. Qed.
  Example insert_extract : v_insert [1;2;3;4] 9 2 = [1;2;9;4] /\ v_extract [1;2;3;4] 2 = 3.
  Proof. split; reflexivity. Qed.
  (** totalised corners of the contract (never reached from the theorems: operands there have the
      right number of words): wrong-length shuffles are the identity, map2 truncates *)
  Example totalised : shuffle1230 [1;2;3] = [1;2;3] /\ v_xor [1;2;3] [1] = [0] /\ v_extract [1] 5 = 0.
  Proof. repeat split; reflexivity. Qed.
End SpecAnchors.

(* ------------------------------------------------------------------------------------------ *)
(** * Part B.1 — Props/C12.v (x86 back ends) on concrete registers *)
Module C12x86.
  Import Spec.Lanes Props.C12 Proofs.PpvSseMove.

  (** helper: a theorem instance whose right-hand side is then computed *)
  Ltac by_thm T := rewrite T; [vm_compute; reflexivity | ..].

  Example add32 : u32x4_add f16 b16 = [255;0;2;3; 3;5;6;7; 7;9;10;11; 11;13;14;15].
  Proof. rewrite (C12_sse_u32x4_add_lanewise f16 b16 wf_f16 wf_b16). vm_compute. reflexivity. Qed.
  Example add64_carries_across_u32 :
    u64x2_add f16 [1;0;0;0;0;0;0;0; 2;0;0;0;0;0;0;0] = [0;0;0;0;0;0;0;0; 1;0;0;0;0;0;0;0].
  Proof.
    assert (W : wf 16 [1;0;0;0;0;0;0;0; 2;0;0;0;0;0;0;0]) by (split; [reflexivity|repeat constructor]).
    rewrite (C12_sse_u64x2_add_lanewise _ _ wf_f16 W). vm_compute. reflexivity.
  Qed.
  (** bit operations, all three word sizes, incl. andnot = !a & b *)
  Example bitops : forall k, In k [4; 8; 16]%nat ->
    sse_xor c16 b16 = map2 N.lxor c16 b16 /\
    sse_andnot c16 f16 = map (fun x => 255 - x) c16 /\ sse_not c16 = map (fun x => 255 - x) c16 /\
    sse_andnot c16 f16 = bytes_le k (v_andnot (8 * N.of_nat k) (words_le k c16) (words_le k f16)).
  Proof.
    intros k Hk. destruct (C12_sse_bitops_lanewise k Hk c16 f16 wf_c16 wf_f16) as (_ & _ & _ & _ & E).
    repeat split; try (vm_compute; reflexivity). exact E.
  Qed.
  (** rotate_each_word_right, SSSE3 (pshufb) and SSE2 (shift-or / pshuflw) forms, same answer *)
  Example rotr8_u32 : forall s3, u32x4_rotr s3 8 b16 = [1;2;3;0; 5;6;7;4; 9;10;11;8; 13;14;15;12].
  Proof. intros s3. rewrite (C12_sse_u32x4_rotr_lanewise s3 8 b16); [vm_compute; reflexivity|cbn; tauto|exact wf_b16]. Qed.
  Example rotr_all_u32 : forall s3 k, In k [7; 8; 11; 12; 16; 20; 24; 25] ->
    words_le 4 (u32x4_rotr s3 k c16) = map (rotrw 32 k) [0x67452301; 0xefcdab89; 0x98badcfe; 0x10325476].
  Proof.
    intros s3 k Hk. rewrite (C12_sse_u32x4_rotr_lanewise s3 k c16 Hk wf_c16).
    cbn [In] in Hk. repeat (destruct Hk as [<-|Hk]; [vm_compute; reflexivity|]). contradiction.
  Qed.
  (** the past defect P2: u64x2 rotate_each_word_right16 without SSSE3 rotates the 64-bit word *)
  Example rotr16_u64_sse2 :
    words_le 8 (u64x2_rotr false 16 [0xef;0xcd;0xab;0x89;0x67;0x45;0x23;0x01; 0;0;0;0;0;0;0;1])
    = [0xcdef0123456789ab; 0x0000010000000000].
  Proof.
    assert (W : wf 16 [0xef;0xcd;0xab;0x89;0x67;0x45;0x23;0x01; 0;0;0;0;0;0;0;1]).
    { split; [reflexivity|]. repeat (constructor; [unfold is_byte; lia|]). constructor. }
    rewrite (C12_sse_u64x2_rotr_lanewise false 16 _ ltac:(cbn; tauto) W). vm_compute. reflexivity.
  Qed.
  Example rotr32_u64 : forall s3, u64x2_rotr s3 32 b16 = [4;5;6;7;0;1;2;3; 12;13;14;15;8;9;10;11].
  Proof. intros s3. rewrite (C12_sse_u64x2_rotr_lanewise s3 32 b16 ltac:(cbn; tauto) wf_b16). vm_compute. reflexivity. Qed.
  Example rotr_u128 : u128x1_rotr 8 b16 = [1;2;3;4;5;6;7;8;9;10;11;12;13;14;15;0] /\
    words_le 16 (u128x1_rotr 7 (1 :: repeat 0 15)) = [2 ^ 121].
  Proof.
    split.
    - rewrite (C12_sse_u128x1_rotr_lanewise 8 b16 ltac:(cbn; tauto) wf_b16). vm_compute. reflexivity.
    - assert (W : wf 16 (1 :: repeat 0 15)) by (split; [reflexivity|repeat constructor]).
      rewrite (C12_sse_u128x1_rotr_lanewise 7 _ ltac:(cbn; tauto) W). vm_compute. reflexivity.
  Qed.
  Example shuffles_u32 :
    u32x4_shuffle3012 b16 = [4;5;6;7; 8;9;10;11; 12;13;14;15; 0;1;2;3] /\
    u32x4_shuffle1230 b16 = [12;13;14;15; 0;1;2;3; 4;5;6;7; 8;9;10;11].
  Proof.
    destruct (C12_sse_u32x4_shuffle_is_perm b16 wf_b16) as (E1 & _ & E3). rewrite E1, E3.
    split; vm_compute; reflexivity.
  Qed.
  Example bswaps : forall s3,
    u32x4_bswap s3 b16 = [3;2;1;0; 7;6;5;4; 11;10;9;8; 15;14;13;12] /\
    u64x2_bswap s3 b16 = [7;6;5;4;3;2;1;0; 15;14;13;12;11;10;9;8] /\
    u128x1_bswap s3 b16 = rev b16.
  Proof.
    intros s3. rewrite (C12_sse_u32x4_bswap_lanewise s3 b16 wf_b16), (C12_sse_u64x2_bswap_lanewise s3 b16 wf_b16),
      (C12_sse_u128x1_bswap_lanewise s3 b16 wf_b16). repeat split; vm_compute; reflexivity.
  Qed.
  (** bswap32_s2 (SSE2) uses packus: bytes >= 0x80 must survive (seeded change C12-1's trigger) *)
  Example bswap_high_bytes : forall s3, u32x4_bswap s3 f16 = f16 /\ u32x4_bswap s3 c16 =
    [0x67;0x45;0x23;0x01; 0xef;0xcd;0xab;0x89; 0x98;0xba;0xdc;0xfe; 0x10;0x32;0x54;0x76].
  Proof.
    intros s3. rewrite (C12_sse_u32x4_bswap_lanewise s3 f16 wf_f16), (C12_sse_u32x4_bswap_lanewise s3 c16 wf_c16).
    split; vm_compute; reflexivity.
  Qed.
  Example u64x4_shuffles : forall s3,
    img2 (u64x4_shuffle3012 s3 (b16, map (fun x => x + 16) b16))
    = [8;9;10;11;12;13;14;15; 16;17;18;19;20;21;22;23; 24;25;26;27;28;29;30;31; 0;1;2;3;4;5;6;7].
  Proof.
    intros s3.
    assert (W : wf2 (b16, map (fun x => x + 16) b16)).
    { split; [exact wf_b16|]. split; [reflexivity|]. cbv [b16 map]. repeat (constructor; [unfold is_byte; lia|]). constructor. }
    destruct (C12_sse_u64x4_shuffle_is_perm s3 _ W) as (_ & _ & E). rewrite E. vm_compute. reflexivity.
  Qed.
  (** Swap64 of u128x1, both SSSE3 variants, all seven group sizes *)
  Example swaps : forall s3,
    u128x1_swap s3 1 (0x01 :: 0x09 :: repeat 0 14) = 0x02 :: 0x06 :: repeat 0 14 /\
    u128x1_swap s3 4 c16 = [0x10;0x32;0x54;0x76;0x98;0xba;0xdc;0xfe;0xef;0xcd;0xab;0x89;0x67;0x45;0x23;0x01] /\
    u128x1_swap s3 8 b16 = [1;0;3;2;5;4;7;6;9;8;11;10;13;12;15;14] /\
    u128x1_swap s3 16 b16 = [2;3;0;1;6;7;4;5;10;11;8;9;14;15;12;13] /\
    u128x1_swap s3 32 b16 = [4;5;6;7;0;1;2;3;12;13;14;15;8;9;10;11] /\
    u128x1_swap s3 64 b16 = [8;9;10;11;12;13;14;15;0;1;2;3;4;5;6;7].
  Proof.
    intros s3.
    assert (W : wf 16 (0x01 :: 0x09 :: repeat 0 14)) by (split; [reflexivity|repeat constructor]).
    rewrite (proj1 (C12_sse_u128x1_swap_is_bitgroup_swap s3 1 _ ltac:(cbn; tauto) W)).
    rewrite (proj1 (C12_sse_u128x1_swap_is_bitgroup_swap s3 4 c16 ltac:(cbn; tauto) wf_c16)).
    rewrite (proj1 (C12_sse_u128x1_swap_is_bitgroup_swap s3 8 b16 ltac:(cbn; tauto) wf_b16)).
    rewrite (proj1 (C12_sse_u128x1_swap_is_bitgroup_swap s3 16 b16 ltac:(cbn; tauto) wf_b16)).
    rewrite (proj1 (C12_sse_u128x1_swap_is_bitgroup_swap s3 32 b16 ltac:(cbn; tauto) wf_b16)).
    rewrite (proj1 (C12_sse_u128x1_swap_is_bitgroup_swap s3 64 b16 ltac:(cbn; tauto) wf_b16)).
    repeat split; vm_compute; reflexivity.
  Qed.

  (** AVX2 u32x4x2 *)
  Example avx2_not_all_ones : avx2_not b32 = map (fun x => 255 - x) b32.     (* past defect P1 *)
  Proof.
    destruct (C12_avx2_bitops_lanewise b32 b32 wf_b32 wf_b32) as (_ & _ & _ & E & _). rewrite E.
    vm_compute. reflexivity.
  Qed.
  Example avx2_rotr_per_lane : avx2_rotr 24 b32 =
    [3;0;1;2; 7;4;5;6; 11;8;9;10; 15;12;13;14; 19;16;17;18; 23;20;21;22; 27;24;25;26; 31;28;29;30].
  Proof. rewrite (C12_avx2_rotr_lanewise 24 b32 ltac:(cbn; tauto) wf_b32). vm_compute. reflexivity. Qed.
  Example avx2_add_bswap_shuffle :
    avx2_add b32 b32 = map (fun x => 2 * x) b32 /\
    firstn 8 (avx2_bswap b32) = [3;2;1;0;7;6;5;4] /\
    avx2_shuffle_lane_words1230 b32 =
      [12;13;14;15; 0;1;2;3; 4;5;6;7; 8;9;10;11;  28;29;30;31; 16;17;18;19; 20;21;22;23; 24;25;26;27].
  Proof.
    rewrite (C12_avx2_add_lanewise b32 b32 wf_b32 wf_b32), (C12_avx2_bswap_lanewise b32 wf_b32).
    destruct (C12_avx2_lane_shuffle_is_perm b32 wf_b32) as (E & _ & _). rewrite E.
    repeat split; vm_compute; reflexivity.
  Qed.
End C12x86.

(* ------------------------------------------------------------------------------------------ *)
(** * Part B.2 — Props/C12g.v (portable back end, soft.rs wrappers) *)
Module C12portable.
  Import Model.PpvSoft Model.PpvGeneric Proofs.PpvGenericLib Proofs.PpvGenericWide
    Proofs.PpvGenericSwap Proofs.PpvGenericSwapWords Props.C12g.

  Lemma wfv32 : forall a b c d, a < 2 ^ 32 -> b < 2 ^ 32 -> c < 2 ^ 32 -> d < 2 ^ 32 -> wfv U32x4 [a; b; c; d].
  Proof. intros. split; [reflexivity|]. repeat constructor; assumption. Qed.
  Lemma wfv64 : forall a b, a < 2 ^ 64 -> b < 2 ^ 64 -> wfv U64x2 [a; b].
  Proof. intros. split; [reflexivity|]. repeat constructor; assumption. Qed.
  Lemma wfv128 : forall a, a < 2 ^ 128 -> wfv U128x1 [a].
  Proof. intros. split; [reflexivity|]. repeat constructor; assumption. Qed.
  Ltac small := vm_compute; reflexivity.

  Example add_both_profiles : forall p,
    g_binop p U32x4 OAdd [0xffffffff; 1; 2; 3] [1; 1; 1; 1] = Ok [0; 2; 3; 4] /\
    g_binop p U128x1 OAdd [2 ^ 128 - 1] [2] = Ok [1] /\
    g_binop p U64x2 OAndnot [0x0f; 0] [0x3c; 7] = Ok [0x30; 7].
  Proof.
    intros p.
    assert (A1 : wfv U32x4 [0xffffffff; 1; 2; 3]) by (apply wfv32; small).
    assert (A2 : wfv U32x4 [1; 1; 1; 1]) by (apply wfv32; small).
    assert (B1 : wfv U128x1 [2 ^ 128 - 1]) by (apply wfv128; small).
    assert (B2 : wfv U128x1 [2]) by (apply wfv128; small).
    assert (C1 : wfv U64x2 [0x0f; 0]) by (apply wfv64; small).
    assert (C2 : wfv U64x2 [0x3c; 7]) by (apply wfv64; small).
    rewrite (C12g_portable_binop_lanewise p U32x4 OAdd _ _ A1 A2).
    rewrite (C12g_portable_binop_lanewise p U128x1 OAdd _ _ B1 B2).
    rewrite (C12g_portable_binop_lanewise p U64x2 OAndnot _ _ C1 C2).
    repeat split; vm_compute; reflexivity.
  Qed.
  Example unops_both_profiles : forall p,
    g_wunop p U32x4 (WRotr 8) [0x11223344; 1; 0; 0x80000000] = Ok [0x44112233; 0x01000000; 0; 0x00800000] /\
    g_wunop p U128x1 (WRotr 32) [1] = Ok [2 ^ 96] /\
    g_wunop p U64x2 WBswap [0x0102030405060708; 1] = Ok [0x0807060504030201; 2 ^ 56] /\
    g_wunop p U128x1 WNot [0] = Ok [2 ^ 128 - 1].
  Proof.
    intros p.
    assert (A : wfv U32x4 [0x11223344; 1; 0; 0x80000000]) by (apply wfv32; small).
    assert (B : wfv U128x1 [1]) by (apply wfv128; small).
    assert (C : wfv U64x2 [0x0102030405060708; 1]) by (apply wfv64; small).
    assert (D : wfv U128x1 [0]) by (apply wfv128; small).
    rewrite (C12g_portable_unop_lanewise p U32x4 (WRotr 8) _ ltac:(cbn; tauto) A).
    rewrite (C12g_portable_unop_lanewise p U128x1 (WRotr 32) _ ltac:(cbn; tauto) B).
    rewrite (C12g_portable_unop_lanewise p U64x2 WBswap _ I C).
    rewrite (C12g_portable_unop_lanewise p U128x1 WNot _ I D).
    repeat split; vm_compute; reflexivity.
  Qed.
  (** swapN on the portable back end: the theorem instance, and the computed value *)
  Example swap_both_profiles : forall p,
    g_swap p U128x1 64 [0x00112233445566778899aabbccddeeff] = Ok [0x8899aabbccddeeff0011223344556677] /\
    g_swap p U32x4 32 [1; 2; 3; 4] = Ok [2; 1; 4; 3] /\          (* adjacent 32-bit groups of the LANE *)
    g_swap p U64x2 4 [0x1234; 0] = Ok [0x2143; 0] /\
    exists r, g_swap p U128x1 1 [0x41] = Ok r /\
              forall j, j < 128 -> N.testbit (lane U128x1 r) j = N.testbit (lane U128x1 [0x41]) (N.lxor j 1).
  Proof.
    intros p. split; [destruct p; small|]. split; [destruct p; small|]. split; [destruct p; small|].
    assert (W1 : wfv U128x1 [0x41]) by (apply wfv128; small).
    destruct (C12g_portable_swapN_is_bitgroup_swap p U128x1 1 [0x41] ltac:(cbn; tauto) W1)
      as (r & E & _ & B). exists r. split; assumption.
  Qed.
  Example shuffles_portable : forall p,
    g32_lane_shuffle p 3012 [0; 1; 2; 3] = Ok [1; 2; 3; 0] /\ g32_lane_shuffle p 2301 [0; 1; 2; 3] = Ok [2; 3; 0; 1] /\
    g32_lane_shuffle p 1230 [0; 1; 2; 3] = Ok [3; 0; 1; 2] /\
    concat (u64x4_shuffle3012 [[0; 1]; [2; 3]]) = [1; 2; 3; 0].
  Proof.
    intros p.
    assert (W : wfv U32x4 [0; 1; 2; 3]) by (apply wfv32; small).
    rewrite !(C12g_portable_u32x4_shuffle_is_perm p _ _ W).
    assert (W4 : wide U64x2 2 [[0; 1]; [2; 3]]).
    { split; [reflexivity|]. repeat constructor; apply wfv64; small. }
    destruct (C12g_portable_u64x4_shuffle_is_perm _ W4) as (_ & _ & E). rewrite E.
    repeat split; reflexivity.
  Qed.
  (** wide types: u32x4x2 add, u128x4 swap, u64x2x4 rotate *)
  Example wide_types : forall p,
    (exists r, xn_binop' 2 (g_binop p U32x4 OAdd) [[0xffffffff; 1; 2; 3]; [4; 5; 6; 7]] [[1; 1; 1; 1]; [1; 1; 1; 1]] = Ok r /\
               concat r = [0; 2; 3; 4; 5; 6; 7; 8]) /\
    (exists r, xn_unop' 4 (g_wunop p U64x2 (WRotr 32)) [[1; 2]; [3; 4]; [5; 6]; [7; 8]] = Ok r /\
               concat r = map (fun x => x * 2 ^ 32) [1; 2; 3; 4; 5; 6; 7; 8]).
  Proof.
    intros p. split.
    - assert (Wa : wide U32x4 2 [[0xffffffff; 1; 2; 3]; [4; 5; 6; 7]]).
      { split; [reflexivity|]. repeat constructor; apply wfv32; small. }
      assert (Wb : wide U32x4 2 [[1; 1; 1; 1]; [1; 1; 1; 1]]).
      { split; [reflexivity|]. repeat constructor; apply wfv32; small. }
      destruct (C12g_portable_wide_binop_lanewise p U32x4 2 OAdd _ _ (or_introl eq_refl) Wa Wb) as (r & E & C).
      exists r. split; [exact E|]. rewrite C. vm_compute. reflexivity.
    - assert (W : wide U64x2 4 [[1; 2]; [3; 4]; [5; 6]; [7; 8]]).
      { split; [reflexivity|]. repeat constructor; apply wfv64; small. }
      destruct (C12g_portable_wide_unop_lanewise p U64x2 4 (WRotr 32) _ (or_intror eq_refl) ltac:(cbn; tauto) W) as (r & E & C).
      exists r. split; [exact E|]. rewrite C. vm_compute. reflexivity.
  Qed.
  Example total_instance : forall p, is_ok (g_swap p U64x2 64 [1; 2]) = true.
  Proof.
    intros p. destruct (C12g_portable_total p U64x2) as (_ & _ & T & _).
    apply T; [cbn; tauto|apply wfv64; small].
  Qed.
  (** the forwarding theorem is parametric: instantiated here with an x86 one-register operation
      wrapped in [Ok] — this composition is what gives the x86 wide types their meaning, and it is
      NOT stated anywhere in Props/C12.v (audit finding) *)
  Example x2_forwards_with_sse_element : forall s3,
    x2_unop [] (fun x => Ok (u32x4_rotr s3 8 x)) [b16; c16]
    = Ok (map (fun x => bytes_le 4 (Spec.Lanes.v_rotr 32 8 (words_le 4 x))) [b16; c16]).
  Proof.
    intros s3. destruct (C12g_x2_forwards reg [] (wf 16)) as (U & _). apply U.
    - intros x Hx. f_equal. apply Props.C12.C12_sse_u32x4_rotr_lanewise; [cbn; tauto|exact Hx].
    - reflexivity.
    - constructor; [exact wf_b16|constructor; [exact wf_c16|constructor]].
  Qed.
End C12portable.

(* ------------------------------------------------------------------------------------------ *)
(** * Part B.3 — Props/C13.v, C13g.v *)
Module C13ex.
  Import Spec.Lanes Props.C13 Proofs.PpvSseMove Proofs.PpvAvx2Move Proofs.PpvStore.

  Example lanes_roundtrip : forall s4,
    u32x4_from_lanes s4 [0x03020100; 0x07060504; 0x0b0a0908; 0x0f0e0d0c] = b16 /\
    u32x4_to_lanes s4 b16 = [0x03020100; 0x07060504; 0x0b0a0908; 0x0f0e0d0c] /\
    u64x2_from_lanes s4 [0x0706050403020100; 0x0f0e0d0c0b0a0908] = b16 /\
    u64x2_to_lanes s4 b16 = [0x0706050403020100; 0x0f0e0d0c0b0a0908] /\
    u128x1_to_lanes b16 = [0x0f0e0d0c0b0a09080706050403020100] /\
    u128x1_from_lanes [0x0f0e0d0c0b0a09080706050403020100] = b16.
  Proof.
    intros s4.
    rewrite (C13_sse_u32x4_from_lanes_order s4 0x03020100 0x07060504 0x0b0a0908 0x0f0e0d0c ltac:(vm_compute; reflexivity) ltac:(vm_compute; reflexivity)).
    rewrite (C13_sse_u32x4_to_lanes_order s4 b16 wf_b16).
    rewrite (C13_sse_u64x2_from_lanes_order s4 0x0706050403020100 0x0f0e0d0c0b0a0908 ltac:(vm_compute; reflexivity) ltac:(vm_compute; reflexivity)).
    rewrite (C13_sse_u64x2_to_lanes_order s4 b16 wf_b16).
    rewrite (C13_sse_u128x1_to_lanes_order b16 wf_b16), C13_sse_u128x1_from_lanes_order.
    repeat split; vm_compute; reflexivity.
  Qed.
  (** insert / extract, SSE4.1 (pinsrd) and SSE2 (shuffle/shift/or) forms, every index, and the panic *)
  Example insert_extract_u32 : forall s4,
    u32x4_insert s4 b16 0xaabbccdd 0 = Ok ([0xdd;0xcc;0xbb;0xaa] ++ skipn 4 b16) /\
    u32x4_insert s4 b16 0xaabbccdd 1 = Ok (firstn 4 b16 ++ [0xdd;0xcc;0xbb;0xaa] ++ skipn 8 b16) /\
    u32x4_insert s4 b16 0xaabbccdd 2 = Ok (firstn 8 b16 ++ [0xdd;0xcc;0xbb;0xaa] ++ skipn 12 b16) /\
    u32x4_insert s4 b16 0xaabbccdd 3 = Ok (firstn 12 b16 ++ [0xdd;0xcc;0xbb;0xaa]) /\
    u32x4_insert s4 b16 0xaabbccdd 4 = Panic /\
    u32x4_extract s4 b16 2 = Ok 0x0b0a0908 /\ u32x4_extract s4 b16 4 = Panic.
  Proof.
    intros s4. rewrite !(C13_sse_u32x4_insert s4 b16 _ _ wf_b16), !(C13_sse_u32x4_extract s4 b16 _ wf_b16).
    repeat split; vm_compute; reflexivity.
  Qed.
  Example insert_extract_u64 : forall s4,
    u64x2_insert s4 f16 0x0102030405060708 0 = Ok ([8;7;6;5;4;3;2;1] ++ repeat 0xff 8) /\
    u64x2_insert s4 f16 0x0102030405060708 1 = Ok (repeat 0xff 8 ++ [8;7;6;5;4;3;2;1]) /\
    u64x2_insert s4 f16 1 2 = Panic /\ u64x2_extract s4 b16 1 = Ok 0x0f0e0d0c0b0a0908.
  Proof.
    intros s4. rewrite !(C13_sse_u64x2_insert s4 f16 _ _ wf_f16), !(C13_sse_u64x2_extract s4 b16 _ wf_b16).
    repeat split; vm_compute; reflexivity.
  Qed.
  Example u64x4_moves : forall s4,
    u64x4_to_lanes s4 (b16, f16) = [0x0706050403020100; 0x0f0e0d0c0b0a0908; 2 ^ 64 - 1; 2 ^ 64 - 1] /\
    u64x4_extract s4 (b16, f16) 1 = Ok 0x0f0e0d0c0b0a0908 /\
    oimg2 (u64x4_insert s4 (b16, f16) 0 3) = Ok (b16 ++ repeat 0xff 8 ++ repeat 0 8) /\
    oimg2 (u64x4_insert s4 (b16, f16) 0 4) = Panic.
  Proof.
    intros s4. assert (W : wf2 (b16, f16)) by (split; [exact wf_b16|exact wf_f16]).
    rewrite (C13_sse_u64x4_to_lanes_order s4 _ W), (C13_sse_u64x4_extract s4 _ 1 W),
      !(C13_sse_u64x4_insert s4 _ 0 _ W).
    repeat split; vm_compute; reflexivity.
  Qed.
  (** AVX2: lanes, insert/extract, transpose4 through vperm2i128 *)
  Example avx2_moves :
    avx2_to_lanes b32 = [b16; map (fun x => x + 16) b16] /\
    avx2_extract b32 1 = Ok (map (fun x => x + 16) b16) /\ avx2_extract b32 2 = Panic /\
    avx2_insert b32 f16 0 = Ok (f16 ++ map (fun x => x + 16) b16).
  Proof.
    destruct (C13_avx2_lanes_order b32 wf_b32) as (E & _ & _). rewrite E.
    destruct (C13_avx2_extract_insert b32 f16 1 wf_b32 wf_f16) as (E1 & _).
    destruct (C13_avx2_extract_insert b32 f16 2 wf_b32 wf_f16) as (E2 & _).
    destruct (C13_avx2_extract_insert b32 f16 0 wf_b32 wf_f16) as (_ & E3).
    rewrite E1, E2, E3. repeat split; vm_compute; reflexivity.
  Qed.
  Definition tag (t : N) : reg := repeat t 16.                     (* a register filled with one byte *)
  Definition v4 (t : N) : list reg := [tag t ++ tag (t + 1); tag (t + 2) ++ tag (t + 3)].
  Lemma wfv_v4 : forall t, t + 3 < 256 -> Proofs.PpvAvx2Move.wfv (v4 t).
  Proof.
    intros t Ht. exists (tag t ++ tag (t + 1)), (tag (t + 2) ++ tag (t + 3)). split; [reflexivity|].
    split; (split; [reflexivity|]); apply Forall_app; split; apply Forall_forall; intros x Hx;
      apply repeat_spec in Hx; subst; unfold is_byte; lia.
  Qed.
  Example avx4_transpose :
    let '(p, q, r, s) := avx4_transpose4 (v4 0) (v4 4) (v4 8) (v4 12) in
    (avx4_to_lanes p, avx4_to_lanes q, avx4_to_lanes r, avx4_to_lanes s)
    = ([tag 0; tag 4; tag 8; tag 12], [tag 1; tag 5; tag 9; tag 13],
       [tag 2; tag 6; tag 10; tag 14], [tag 3; tag 7; tag 11; tag 15]).
  Proof.
    pose proof (C13_avx4_transpose4_is_transpose (v4 0) (v4 4) (v4 8) (v4 12)
                  (wfv_v4 0 ltac:(lia)) (wfv_v4 4 ltac:(lia)) (wfv_v4 8 ltac:(lia)) (wfv_v4 12 ltac:(lia))) as H.
    destruct (avx4_transpose4 (v4 0) (v4 4) (v4 8) (v4 12)) as [[[p q] r] s].
    rewrite H. vm_compute. reflexivity.
  Qed.
  (** byte loads / stores *)
  Example sse_bytes : forall s3,
    sse_read_be (bswap_of 4 s3) b16 = Ok [3;2;1;0; 7;6;5;4; 11;10;9;8; 15;14;13;12] /\
    omap (words_le 4) (sse_read_be (bswap_of 4 s3) b16) = Ok [0x00010203; 0x04050607; 0x08090a0b; 0x0c0d0e0f] /\
    omap (words_le 8) (sse_read_be (bswap_of 8 s3) b16) = Ok [0x0001020304050607; 0x08090a0b0c0d0e0f] /\
    sse_read_le b16 = Ok b16 /\ sse_read_le (0 :: b16) = Panic /\
    sse_write_be (bswap_of 8 s3) b16 16 = Ok [7;6;5;4;3;2;1;0; 15;14;13;12;11;10;9;8] /\
    sse_write_le b16 15 = Panic.
  Proof.
    intros s3.
    destruct (C13_sse_read_write_le_be 4%nat s3 ltac:(cbn; tauto)) as (P4 & Q4 & R4 & W4).
    destruct (C13_sse_read_write_le_be 8%nat s3 ltac:(cbn; tauto)) as (P8 & Q8 & R8 & W8).
    rewrite (proj2 (R4 b16 wf_b16)), (proj2 (R8 b16 wf_b16)), (proj1 (R4 b16 wf_b16)), (proj2 (W8 b16 wf_b16)).
    rewrite (proj1 (P4 (0 :: b16) ltac:(discriminate))), (proj1 (Q4 b16 15%nat ltac:(discriminate))).
    repeat split; vm_compute; reflexivity.
  Qed.
  Example avx2_bytes :
    omap (words_le 4) (avx2_read_be b32) = Ok [0x00010203; 0x04050607; 0x08090a0b; 0x0c0d0e0f;
                                                0x10111213; 0x14151617; 0x18191a1b; 0x1c1d1e1f] /\
    avx2_write_le b32 32 = Ok b32 /\ avx2_read_le b16 = Panic.
  Proof.
    destruct C13_avx2_read_write_le_be as (P & _ & R & W).
    rewrite (proj2 (R b32 wf_b32)), (proj1 (W b32 wf_b32)), (proj1 (P b16 ltac:(discriminate))).
    repeat split; vm_compute; reflexivity.
  Qed.
  Example roundtrip_instance : write_le 4 (read_le 4 c16) = c16 /\ write_be 8 (read_be 8 c16) = c16.
  Proof.
    split.
    - exact (proj1 (C13_read_write_roundtrip 4 16 c16 ltac:(lia) ltac:(reflexivity) wf_c16)).
    - exact (proj2 (C13_read_write_roundtrip 8 16 c16 ltac:(lia) ltac:(reflexivity) wf_c16)).
  Qed.
  Example storage_views :
    reinterpret 4 8 [0x03020100; 0x07060504] = [0x0706050403020100] /\
    reinterpret 4 16 [1; 2; 3; 4] = [1 + 2 * 2 ^ 32 + (3 + 4 * 2 ^ 32) * 2 ^ 64].
  Proof.
    destruct C13_storage_views_little_endian as (A & _ & C & _).
    rewrite (A 0x03020100 0x07060504 ltac:(vm_compute; reflexivity) ltac:(vm_compute; reflexivity)).
    rewrite (C 1 2 3 4 ltac:(vm_compute; reflexivity) ltac:(vm_compute; reflexivity) ltac:(vm_compute; reflexivity) ltac:(vm_compute; reflexivity)).
    split; vm_compute; reflexivity.
  Qed.
  Example to_scalars_sse : sse_x4_to_scalars [b16; b16; c16; f16]
    = [0x03020100; 0x07060504; 0x0b0a0908; 0x0f0e0d0c; 0x03020100; 0x07060504; 0x0b0a0908; 0x0f0e0d0c;
       0x67452301; 0xefcdab89; 0x98badcfe; 0x10325476; 0xffffffff; 0xffffffff; 0xffffffff; 0xffffffff].
  Proof.
    etransitivity; [exact (C13_sse_x4_to_scalars_lane_order _ _ _ _ wf_b16 wf_b16 wf_c16 wf_f16)|].
    vm_compute. reflexivity.
  Qed.
End C13ex.

Module C13portable.
  Import Model.PpvSoft Model.PpvGeneric Proofs.PpvGenericLib Proofs.PpvGenericWide Proofs.PpvGenericBytes Props.C13g.
  Ltac small := vm_compute; reflexivity.
  Lemma wfb_b16 : wfb b16. Proof. exact wf_b16. Qed.

  Example bytes_portable : forall p,
    g_read_be p U32x4 b16 = Ok [0x00010203; 0x04050607; 0x08090a0b; 0x0c0d0e0f] /\
    g_read_le p U64x2 b16 = Ok [0x0706050403020100; 0x0f0e0d0c0b0a0908] /\
    g_write_be p U64x2 [0x0102030405060708; 1] 16 = Ok [1;2;3;4;5;6;7;8; 0;0;0;0;0;0;0;1] /\
    g_read_le p U32x4 (0 :: b16) = Panic.
  Proof.
    intros p.
    destruct (C13g_portable_read_write_le_be p U32x4 (or_introl eq_refl)) as (_ & Rb & _ & _ & _ & _ & Wl).
    destruct (C13g_portable_read_write_le_be p U64x2 (or_intror eq_refl)) as (Rl & _ & _ & Wb & _).
    rewrite (Rb b16 wfb_b16), (Rl b16 wfb_b16).
    assert (W : wfv U64x2 [0x0102030405060708; 1]) by (split; [reflexivity|repeat constructor; small]).
    rewrite (Wb _ W).
    assert (W32 : wfv U32x4 [0; 0; 0; 0]) by (split; [reflexivity|repeat constructor; small]).
    destruct (Wl (0 :: b16) [0; 0; 0; 0] 17%nat ltac:(discriminate) ltac:(discriminate) W32) as (E & _).
    rewrite E. repeat split; vm_compute; reflexivity.
  Qed.
  Example storage_portable : forall p,
    into128 p U32x4 [0x03020100; 0x07060504; 0x0b0a0908; 0x0f0e0d0c] = Ok b16 /\
    unpack128 p U64x2 b16 = Ok [0x0706050403020100; 0x0f0e0d0c0b0a0908] /\
    unpack128 p U128x1 b16 = Ok [0x0f0e0d0c0b0a09080706050403020100].
  Proof. intros p. destruct p; repeat split; vm_compute; reflexivity. Qed.
  Example u64x4_insert_portable :
    u64x4_insert [[1; 2]; [3; 4]] 9 2 = Ok [[1; 2]; [9; 4]] /\ u64x4_insert [[1; 2]; [3; 4]] 9 4 = Panic /\
    u64x4_extract [[1; 2]; [3; 4]] 3 = Ok 4.
  Proof. repeat split; vm_compute; reflexivity. Qed.
  Example u64x4_insert_by_theorem : forall i, i < 4 ->
    exists v', u64x4_insert [[1; 2]; [3; 4]] 9 i = Ok v' /\ concat v' = Spec.Lanes.v_insert [1; 2; 3; 4] 9 (N.to_nat i).
  Proof.
    intros i Hi.
    assert (W : wide U64x2 2 [[1; 2]; [3; 4]]).
    { split; [reflexivity|]. repeat constructor; (split; [reflexivity|repeat constructor; small]). }
    destruct C13g_portable_u64x4_insert_extract as (H & _).
    destruct (H _ 9 i W Hi) as (_ & v' & E & _ & C & _). exists v'. split; assumption.
  Qed.
End C13portable.

(* ------------------------------------------------------------------------------------------ *)
(** * Part B.4 — Props/C19.v (ppv-null) *)
Module C19ex.
  Import Spec.NullLanes Model.PpvNull Props.C19.
  (** the master theorem at concrete operands, both profiles *)
  Example master_instances : forall p,
    run_op p U64x4 OSplatRotr [1; 2 ^ 63; 0x0123456789abcdef; 0] [] 63 = Some (Ok [2; 1; 0x02468acf13579bde; 0]) /\
    run_op p U128x2 ORotr [1; 2 ^ 127] [] (2 ^ 128 - 1) = Some (Ok [2; 1]) /\            (* amount mod 128 = 127 *)
    run_op p U128x1 OAndNot [0x0f] [0x3c] 0 = Some (Ok [0x30]) /\
    run_op p U32x4x4 ORotWords [0;1;2;3;4;5;6;7;8;9;10;11;12;13;14;15] [] 1
      = Some (Ok [3;0;1;2;7;4;5;6;11;8;9;10;15;12;13;14]) /\
    run_op p U128x1 OXorStore [0xff] [0x0f] 0 = Some (Ok [0xf0]) /\
    run_op p U32x4 ORotr [0x11223344; 1; 1; 1] [8; 32; 33; 0] 0 = Some (Ok [0x44112233; 1; 2 ^ 31; 1]).
  Proof.
    intros p.
    rewrite !(C19_model_eq_spec p) by (vm_compute; reflexivity).
    repeat split; vm_compute; reflexivity.
  Qed.
  (** boundary of the domain: splat_rotate_right by 0 or by the width *)
  Example outside_domain :
    run_op Debug U32x4 OSplatRotr [1; 2; 3; 4] [] 0 = Some Panic /\
    run_op Debug U32x4 OSplatRotr [1; 2; 3; 4] [] 32 = Some Panic /\
    run_op Release U32x4 OSplatRotr [1; 2; 3; 4] [] 0 = Some (Ok [1; 2; 3; 4]) /\
    run_op Release U32x4 OSplatRotr [1; 2; 3; 4] [] 33 = Some (Ok [2 ^ 31; 1; 2 ^ 31 + 1; 2]) /\
    run_op Debug U128x1 OExtract [7] [] 1 = Some Panic /\ run_op Release U128x1 OExtract [7] [] 1 = Some (Ok [7]).
  Proof. repeat split; vm_compute; reflexivity. Qed.
  Example total_instance : forall p, exists r,
    run_op p U64x4 OReplace [1; 2; 3; 4] [2 ^ 64 - 1] 3 = Some (Ok r).
  Proof. intros p. exact (proj2 (proj2 (C19_total p U64x4 OReplace [1; 2; 3; 4] [2 ^ 64 - 1] 3 ltac:(vm_compute; reflexivity)))). Qed.
End C19ex.

(* ------------------------------------------------------------------------------------------ *)
(** * Part C — facts referred to by the audit report *)
Module Facts.
  (** the x86 models return the operand unchanged for rotation amounts that are not method names;
      the theorems exclude them by [In k [...]] (harmless totalisation) *)
  Example unnamed_rotation_is_identity : forall s3, u32x4_rotr s3 9 b16 = b16 /\ u128x1_swap s3 3 b16 = b16.
  Proof. intros s3; destruct s3; split; reflexivity. Qed.
  (** [C13_sse_x4_transpose4_is_transpose] and [C13g_transpose4_is_transpose] relate two textually
      identical definitions: both sides unfold to the same term *)
  Example transpose4_is_a_restatement : forall (a b c d : list reg),
    PpvSse.x4_transpose4 [] a b c d = Spec.Lanes.transpose4 [] a b c d.
  Proof. reflexivity. Qed.
  Example u128x1_from_lanes_is_a_restatement : forall a, u128x1_from_lanes [a] = bytes_le 16 [a].
  Proof. intros a. unfold u128x1_from_lanes, bytes_le. cbn [nth flat_map]. now rewrite app_nil_r. Qed.
  (** there are two models of the soft.rs wrappers: Model/PpvSoft.v (outcome-valued element methods;
      the one the C12g/C13g forwarding theorems are about) and the copy in Model/PpvSse.v (total
      element methods; the one the x86 runner and C03 use). They agree, but no pinned theorem says so: *)
  Example two_soft_models_agree : forall (f : reg -> reg) (a b : reg),
    PpvSoft.x2_unop [] (fun x => PpvSoft.Ok (f x)) [a; b] = PpvSoft.Ok (PpvSse.xn_unop f [a; b]).
  Proof. reflexivity. Qed.
  (** pshufb zeroes on a set high bit; palignr takes the SECOND operand as the low half *)
  Example intrinsic_anchors :
    mm_shuffle_epi8 b16 (0x80 :: 0x0f :: 0x1f :: repeat 0 13) = 0 :: 15 :: 15 :: repeat 0 13 /\
    mm_alignr_epi8 f16 b16 8 = [8;9;10;11;12;13;14;15; 255;255;255;255;255;255;255;255] /\
    mm_shuffle_epi32 b16 0x93 = [12;13;14;15; 0;1;2;3; 4;5;6;7; 8;9;10;11] /\
    mm_andnot (0x0f :: repeat 0 15) (0x3c :: repeat 0 15) = 0x30 :: repeat 0 15 /\
    mm_srli_si128 b16 4 = [4;5;6;7;8;9;10;11;12;13;14;15;0;0;0;0] /\
    mm_packus_epi16 [0x80;0x00; 0x00;0x01; 0xff;0xff; 0x7f;0x00; 0;0; 0;0; 0;0; 0;0] (repeat 0 16)
      = [0x80; 0xff; 0; 0x7f] ++ repeat 0 12.
  Proof. repeat split; vm_compute; reflexivity. Qed.
End Facts.
