(** Wide vector types as arrays of narrower ones (soft.rs [x2<W,G>] / [x4<W>], and the AVX2
    [x2<u32x4x2_avx2>]): if every element operation refines its lane meaning, the
    element-by-element operation on a list of [m] elements refines the lane meaning on the
    concatenated word view. Used by the concrete machines of C03 (Proofs/MachineInst*.v). *)
From Coq Require Import NArith List Bool Lia Arith.
From CC Require Import Lib.Words Lib.Bytes Lib.ListX Spec.Lanes Model.Machine Proofs.Machine.
Import ListNotations.
Local Open Scope N_scope.

(** * cutting a list into [m] pieces of [n] *)
Fixpoint chunk {A} (n m : nat) (l : list A) : list (list A) :=
  match m with
  | O => []
  | S m' => firstn n l :: chunk n m' (skipn n l)
  end.

Lemma chunk_length {A} n m (l : list A) : length (chunk n m l) = m.
Proof. revert l. induction m as [|m IH]; intros l; cbn [chunk length]; [reflexivity | now rewrite IH]. Qed.

Lemma chunk_concat {A} n m (l : list A) : length l = (m * n)%nat -> concat (chunk n m l) = l.
Proof.
  revert l. induction m as [|m IH]; intros l Hl; cbn [chunk concat].
  - destruct l; [reflexivity | discriminate].
  - rewrite IH; [apply firstn_skipn | rewrite skipn_length, Hl; cbn; lia].
Qed.

Lemma chunk_words_ok w n m : forall l,
  words_ok w (m * n) l -> Forall (words_ok w n) (chunk n m l).
Proof.
  induction m as [|m IH]; intros l [Hl Hf]; cbn [chunk]; constructor.
  - split; [rewrite firstn_length, Hl; cbn; lia | now apply Forall_firstn'].
  - apply IH. split; [rewrite skipn_length, Hl; cbn; lia | now apply Forall_skipn'].
Qed.

(** * [lanes4] / [per_lane4] on concatenations *)
Lemma lanes4_fuel {A} : forall f1 f2 (l : list A),
  (length l <= f1)%nat -> (length l <= f2)%nat -> lanes4 f1 l = lanes4 f2 l.
Proof.
  induction f1 as [|f1 IH]; intros f2 l H1 H2.
  - destruct l; [|cbn in H1; lia]. destruct f2; reflexivity.
  - destruct l as [|a [|b [|c [|d r]]]]; try (destruct f2; reflexivity).
    destruct f2 as [|f2]; [cbn in H2; lia|]. cbn [lanes4]. f_equal.
    apply IH; cbn [length] in *; lia.
Qed.

Lemma per_lane4_cons4 {A} (f : list A -> list A) a b c d r :
  per_lane4 f (a :: b :: c :: d :: r) = f [a; b; c; d] ++ per_lane4 f r.
Proof.
  unfold per_lane4.
  change (lanes4 (length (a :: b :: c :: d :: r)) (a :: b :: c :: d :: r))
    with ([a; b; c; d] :: lanes4 (S (S (S (length r)))) r).
  cbn [map concat]. do 3 f_equal. apply lanes4_fuel; lia.
Qed.

Lemma per_lane4_app {A} (f : list A -> list A) : forall q a b,
  length a = (4 * q)%nat -> per_lane4 f (a ++ b) = per_lane4 f a ++ per_lane4 f b.
Proof.
  induction q as [|q IH]; intros a b Ha.
  - destruct a; [reflexivity | discriminate].
  - destruct a as [|a0 [|a1 [|a2 [|a3 r]]]]; try (cbn in Ha; lia).
    cbn [app]. rewrite !per_lane4_cons4, <- app_assoc. f_equal.
    apply IH. cbn [length] in Ha. lia.
Qed.

Lemma per_lane4_len4 {A} (f : list A -> list A) l : length l = 4%nat -> per_lane4 f l = f l.
Proof. intros Hl. explode l. unfold per_lane4. cbn [length lanes4 map concat]. apply app_nil_r. Qed.

Lemma per_lane4_concat_q {A} (f : list A -> list A) q (vs : list (list A)) :
  Forall (fun l => length l = (4 * q)%nat) vs ->
  per_lane4 f (concat vs) = concat (map (per_lane4 f) vs).
Proof.
  induction 1 as [|l vs L _ IH]; [reflexivity|].
  cbn [concat map]. rewrite (per_lane4_app f q) by exact L. now rewrite IH.
Qed.

Lemma map2_app' {A B C} (f : A -> B -> C) a a' b b' :
  length a = length b -> map2 f (a ++ a') (b ++ b') = map2 f a b ++ map2 f a' b'.
Proof.
  revert b. induction a as [|x a IH]; intros [|y b] L; try discriminate; [reflexivity|].
  cbn [app map2]. f_equal. apply IH. now inversion L.
Qed.

(** * lifting element operations to lists of elements *)
Section Lift.
  Context {T : Type}.
  Variables (wf : T -> Prop) (rep : T -> list N) (n m : nat).
  Hypothesis Hlen : forall a, wf a -> length (rep a) = n.

  Definition lwf (v : list T) : Prop := length v = m /\ Forall wf v.
  Definition lrep (v : list T) : list N := concat (map rep v).

  Lemma lift_bin (f : T -> T -> T) (g : N -> N -> N) :
    (forall a b, wf a -> wf b -> wf (f a b) /\ rep (f a b) = map2 g (rep a) (rep b)) ->
    forall A B, lwf A -> lwf B ->
      lwf (map2 f A B) /\ lrep (map2 f A B) = map2 g (lrep A) (lrep B).
  Proof.
    intros H A B [LA FA] [LB FB]. split; [split|].
    - rewrite map2_length, LA, LB. apply Nat.min_id.
    - clear LA LB. revert B FB. induction FA as [|a A Wa FA IH]; intros [|b B] FB; cbn [map2]; constructor.
      + inversion FB; subst. now apply H.
      + inversion FB; subst. now apply IH.
    - unfold lrep. clear LA LB. revert B FB.
      induction FA as [|a A Wa FA IH]; intros [|b B] FB; cbn [map2 map concat]; try reflexivity.
      + destruct (rep a ++ concat (map rep A)); reflexivity.
      + inversion FB as [|? ? Wb FB']; subst.
        rewrite map2_app' by (now rewrite !Hlen).
        rewrite (proj2 (H a b Wa Wb)). f_equal. now apply IH.
  Qed.

  Lemma lift_un (f : T -> T) (h : list N -> list N) :
    (forall vs, Forall (fun l => length l = n) vs -> h (concat vs) = concat (map h vs)) ->
    (forall a, wf a -> wf (f a) /\ rep (f a) = h (rep a)) ->
    forall A, lwf A -> lwf (map f A) /\ lrep (map f A) = h (lrep A).
  Proof.
    intros Hh H A [LA FA]. split; [split|].
    - now rewrite map_length.
    - clear LA. induction FA; cbn [map]; constructor; [now apply H | assumption].
    - unfold lrep. rewrite Hh.
      + rewrite !map_map. f_equal. clear LA. induction FA as [|a A Wa FA IH]; cbn [map]; [reflexivity|].
        rewrite (proj2 (H a Wa)). now rewrite IH.
      + clear LA. induction FA; cbn [map]; constructor; [now apply Hlen | assumption].
  Qed.

  Lemma map_concat_hom (g : N -> N) (vs : list (list N)) : map g (concat vs) = concat (map (map g) vs).
  Proof. apply concat_map. Qed.

  Lemma lift_vec (w : N) (vec : list N -> T) :
    (forall l, words_ok w n l -> wf (vec l) /\ rep (vec l) = l) ->
    forall l, words_ok w (m * n) l ->
      lwf (map vec (chunk n m l)) /\ lrep (map vec (chunk n m l)) = l.
  Proof.
    intros H l Hl. pose proof (chunk_words_ok w n m l Hl) as Hc.
    split; [split|].
    - now rewrite map_length, chunk_length.
    - induction Hc; cbn [map]; constructor; [now apply H | assumption].
    - unfold lrep. rewrite map_map. rewrite <- (chunk_concat n m l) at 2 by apply Hl.
      f_equal. induction Hc as [|c cs Hc0 _ IH]; cbn [map]; [reflexivity|].
      rewrite (proj2 (H c Hc0)). now rewrite IH.
  Qed.
End Lift.

(** * the product of [m] copies of a refining vector type *)
Section Prod.
  Variable o : vops.
  Variables (w : N) (n : nat) (ks : list N) (m q : nat).
  Hypothesis R : vops_refines w n ks o.
  Hypothesis Hlen : forall a, v_wf o a -> length (v_rep o a) = n.
  Hypothesis Hq : n = (4 * q)%nat.

  (** the wide type's own operations: any functions that, on well-formed operands, apply the
      element's operation to every element (soft.rs forwarding) *)
  Variable vec' : list N -> list (vt o).
  Variables add' xor' : list (vt o) -> list (vt o) -> list (vt o).
  Variable rotr' : N -> list (vt o) -> list (vt o).
  Variables s1230' s2301' s3012' : list (vt o) -> list (vt o).

  Definition prod_vops : vops :=
    VOps (list (vt o)) (lwf (v_wf o) m) (lrep (v_rep o)) vec' add' xor' rotr' s1230' s2301' s3012'.

  Hypothesis Hvec : forall l, words_ok w (m * n) l -> vec' l = map (v_vec o) (chunk n m l).
  Hypothesis Hadd : forall a b, lwf (v_wf o) m a -> lwf (v_wf o) m b -> add' a b = map2 (o_add o) a b.
  Hypothesis Hxor : forall a b, lwf (v_wf o) m a -> lwf (v_wf o) m b -> xor' a b = map2 (o_xor o) a b.
  Hypothesis Hrotr : forall k a, In k ks -> lwf (v_wf o) m a -> rotr' k a = map (o_rotr o k) a.
  Hypothesis H1230 : forall a, lwf (v_wf o) m a -> s1230' a = map (o_sh1230 o) a.
  Hypothesis H2301 : forall a, lwf (v_wf o) m a -> s2301' a = map (o_sh2301 o) a.
  Hypothesis H3012 : forall a, lwf (v_wf o) m a -> s3012' a = map (o_sh3012 o) a.

  Lemma prod_refines : vops_refines w (m * n) ks prod_vops.
  Proof.
    apply vops_refines_intro;
      cbn [prod_vops v_wf v_rep v_vec o_add o_xor o_rotr o_sh1230 o_sh2301 o_sh3012].
    - intros l Hl. rewrite Hvec by exact Hl.
      apply (lift_vec (v_wf o) (v_rep o) n m w (v_vec o)); [|exact Hl].
      intros c Hc. exact (r_vec _ _ _ _ R c Hc).
    - intros a b Wa Wb. rewrite Hadd by assumption.
      apply (lift_bin (v_wf o) (v_rep o) n m Hlen (o_add o) (addw w)); [|assumption|assumption].
      intros x y Wx Wy. exact (r_add _ _ _ _ R x y _ _ (conj Wx eq_refl) (conj Wy eq_refl)).
    - intros a b Wa Wb. rewrite Hxor by assumption.
      apply (lift_bin (v_wf o) (v_rep o) n m Hlen (o_xor o) N.lxor); [|assumption|assumption].
      intros x y Wx Wy. exact (r_xor _ _ _ _ R x y _ _ (conj Wx eq_refl) (conj Wy eq_refl)).
    - intros k a Hk Wa. rewrite Hrotr by assumption.
      apply (lift_un (v_wf o) (v_rep o) n m Hlen (o_rotr o k) (v_rotr w k)); [| |assumption].
      + intros vs _. apply concat_map.
      + intros x Wx. exact (r_rotr _ _ _ _ R k x _ Hk (conj Wx eq_refl)).
    - intros a Wa. rewrite H1230 by assumption.
      apply (lift_un (v_wf o) (v_rep o) n m Hlen (o_sh1230 o) (per_lane4 shuffle1230)); [| |assumption].
      + intros vs Hvs. apply (per_lane4_concat_q _ q). now rewrite <- Hq.
      + intros x Wx. exact (r_sh1230 _ _ _ _ R x _ (conj Wx eq_refl)).
    - intros a Wa. rewrite H2301 by assumption.
      apply (lift_un (v_wf o) (v_rep o) n m Hlen (o_sh2301 o) (per_lane4 shuffle2301)); [| |assumption].
      + intros vs Hvs. apply (per_lane4_concat_q _ q). now rewrite <- Hq.
      + intros x Wx. exact (r_sh2301 _ _ _ _ R x _ (conj Wx eq_refl)).
    - intros a Wa. rewrite H3012 by assumption.
      apply (lift_un (v_wf o) (v_rep o) n m Hlen (o_sh3012 o) (per_lane4 shuffle3012)); [| |assumption].
      + intros vs Hvs. apply (per_lane4_concat_q _ q). now rewrite <- Hq.
      + intros x Wx. exact (r_sh3012 _ _ _ _ R x _ (conj Wx eq_refl)).
  Qed.
End Prod.

(** * 128-bit words in 16-byte registers (JH's [u128x1]) *)
Lemma reg16_of_word v : v < 2 ^ 128 ->
  (length (le_split 16 v) = 16%nat /\ Forall is_byte (le_split 16 v)) /\ le_join (le_split 16 v) = v.
Proof.
  intros Hv. split; [split; [apply le_split_length | apply le_split_bytes]|].
  apply le_join_split. exact Hv.
Qed.

Lemma bytes_le16_single v : bytes_le 16 [v] = le_split 16 v.
Proof. unfold bytes_le. cbn [flat_map]. apply app_nil_r. Qed.

Lemma notw_lt' w a : notw w a < 2 ^ w.
Proof.
  unfold notw. apply lxor_lt; [apply wrap_lt|].
  rewrite N.ones_equiv. pose proof (pow2_pos w). lia.
Qed.
