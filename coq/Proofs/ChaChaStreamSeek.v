(** try_seek of the ChaCha stream wrapper: accepted range, never panics
    (needs no invariant: it holds from every buffer). *)
From Coq Require Import NArith ZArith List Lia Arith Bool ZifyBool ZifyN.
From CC Require Import Lib.Words Lib.Bytes Lib.ListX Model.ChaChaGuts Model.ChaChaStream.
Import ListNotations.
Ltac Zify.zify_post_hook ::= Z.div_mod_to_equations.
Local Open Scope N_scope.

(** the argument of [try_seek::<T>] is in range for the variant *)
Definition seek_in_range (is12 : bool) (pos : Z) : Prop :=
  (0 <= pos /\ pos < 2 ^ 64 /\ (is12 = true -> pos <= 2 ^ 38))%Z.

Lemma try_seek_ok_iff : forall is12 b pos,
  (fst (try_seek is12 b pos) = ROk <-> seek_in_range is12 pos)
  /\ fst (try_seek is12 b pos) <> RPanic.
Proof.
  intros is12 b pos. unfold try_seek, seek32b, seek_in_range.
  destruct ((pos <? 0)%Z || (2 ^ 64 <=? pos)%Z) eqn:E1; cbn [fst].
  - split; [split; [discriminate|] | discriminate]. intros (H0 & H1 & _). lia.
  - destruct is12; cbn [andb].
    + destruct (2 ^ 38 <? Z.to_N pos) eqn:E2; cbn [fst].
      * split; [split; [discriminate|] | discriminate]. intros (H0 & H1 & H2). specialize (H2 eq_refl). lia.
      * assert (Hc : (Z.to_N pos / 64 <? 2 ^ 32) || (Z.to_N pos / 64 =? 2 ^ 32) && (Z.to_N pos mod 64 =? 0) = true) by lia.
        rewrite Hc. cbn [fst]. split; [split; [intros _; lia | reflexivity] | discriminate].
    + cbn [fst]. split; [split; [intros _; lia | reflexivity] | discriminate].
Qed.

Lemma try_seek_err_unchanged : forall is12 b pos,
  fst (try_seek is12 b pos) <> ROk -> snd (try_seek is12 b pos) = b.
Proof.
  intros is12 b pos. unfold try_seek, seek32b.
  destruct ((pos <? 0)%Z || (2 ^ 64 <=? pos)%Z); cbn [fst snd]; [reflexivity|].
  destruct is12; cbn [andb].
  - destruct (2 ^ 38 <? Z.to_N pos); cbn [fst snd]; [reflexivity|].
    destruct ((Z.to_N pos / 64 <? 2 ^ 32) || (Z.to_N pos / 64 =? 2 ^ 32) && (Z.to_N pos mod 64 =? 0));
      cbn [fst snd]; [congruence | reflexivity].
  - cbn [fst snd]. congruence.
Qed.
