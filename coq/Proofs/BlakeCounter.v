(** C17 (BLAKE part): the two-word bit counter [t] is exact at its real word
    width, including the manual carry from [t.0] into [t.1], and none of the
    overflow-checked operations of [increase_count] can fire (debug profile)
    while the message is shorter than the format limit 2^(2w) bits. *)
From Coq Require Import NArith ZArith List Lia Arith Bool ZifyBool ZifyN.
From CC Require Import Lib.Words Lib.Bytes Lib.ListX Model.BlockBuffer Model.Blake.
From CC Require Spec.Blake.
From CC Require Import Proofs.BlakeBuffer Proofs.BlakeSchedule.
Import ListNotations.
Ltac Zify.zify_post_hook ::= Z.div_mod_to_equations.

Section Counter.
  Variables (w : N) (wb : nat).
  Hypothesis Hcase : (w = 32%N /\ wb = 4) \/ (w = 64%N /\ wb = 8).
  Variable H : Type.
  Variable put : H -> list N -> N * N -> H.

  Local Notation bs := (16 * wb).
  Local Notation bsN := (N.of_nat (16 * wb)).

  (** the pair of words represents the number *)
  Lemma tpair_value T : (T < 2 ^ (2 * w))%N ->
    (fst (tpair w T) + 2 ^ w * snd (tpair w T))%N = T.
  Proof.
    unfold tpair. cbn [fst snd]. destruct Hcase as [[-> _]|[-> _]].
    - change (2 ^ (2 * 32))%N with (4294967296 * 4294967296)%N.
      change (2 ^ 32)%N with 4294967296%N. intros HT. lia.
    - change (2 ^ (2 * 64))%N with (18446744073709551616 * 18446744073709551616)%N.
      change (2 ^ 64)%N with 18446744073709551616%N. intros HT. lia.
  Qed.

  (** [increase_count] adds exactly [8 * count], carrying from [t.0] into [t.1] *)
  Lemma increase_count_exact T c :
    (8 * c < 2 ^ 32)%N -> increase_count w (tpair w T) c = tpair w (T + 8 * c).
  Proof.
    intros Hc. unfold increase_count, tpair, addw. cbn [fst snd].
    rewrite !wrap_mod, shiftl_1.
    destruct Hcase as [[-> _]|[-> _]].
    - change (2 ^ 32)%N with 4294967296%N in *.
      match goal with |- context [N.leb ?a ?b] => destruct (N.leb_spec a b) end; f_equal; lia.
    - change (2 ^ 32)%N with 4294967296%N in *. change (2 ^ 64)%N with 18446744073709551616%N in *.
      match goal with |- context [N.leb ?a ?b] => destruct (N.leb_spec a b) end; f_equal; lia.
  Qed.

  Lemma increase_count_no_overflow T c :
    (8 * c < 2 ^ 32)%N -> (T + 8 * c < 2 ^ (2 * w))%N ->
    increase_count_overflows w (tpair w T) c = false.
  Proof.
    unfold increase_count_overflows, tpair. cbn [fst snd]. rewrite wrap_mod, shiftl_1.
    destruct Hcase as [[-> _]|[-> _]].
    - change (2 ^ (2 * 32))%N with (4294967296 * 4294967296)%N.
      change (N.ones 32) with 4294967295%N.
      change (2 ^ 32)%N with 4294967296%N. intros Hc HT.
      apply orb_false_iff. split; [apply N.leb_gt; lia|].
      match goal with |- context [N.leb ?a ?b] => destruct (N.leb_spec a b) end; [|reflexivity].
      cbn [andb]. apply N.eqb_neq. lia.
    - change (2 ^ (2 * 64))%N with (18446744073709551616 * 18446744073709551616)%N.
      change (N.ones 64) with 18446744073709551615%N.
      change (2 ^ 32)%N with 4294967296%N.
      change (2 ^ 64)%N with 18446744073709551616%N. intros Hc HT.
      apply orb_false_iff. split; [apply N.leb_gt; lia|].
      match goal with |- context [N.leb ?a ?b] => destruct (N.leb_spec a b) end; [|reflexivity].
      cbn [andb]. apply N.eqb_neq. lia.
  Qed.

  Definition ostep (tb : (N * N) * bool) (_ : list N) : (N * N) * bool :=
    (increase_count w (fst tb) (N.of_nat (wb * 16)),
     snd tb || increase_count_overflows w (fst tb) (N.of_nat (wb * 16))).

  Lemma small_block : (8 * N.of_nat (wb * 16) < 2 ^ 32)%N.
  Proof. change (2 ^ 32)%N with 4294967296%N. destruct Hcase as [[_ ->]|[_ ->]]; lia. Qed.

  Lemma ovf_fold n : forall k L,
    (8 * bsN * (k + N.of_nat n) < 2 ^ (2 * w))%N ->
    fold_left ostep (take_blocks bs n L) (tpair w (8 * bsN * k), false) =
      (tpair w (8 * bsN * (k + N.of_nat n)), false).
  Proof.
    induction n as [|n IH]; intros k L Hb.
    - cbn [take_blocks fold_left]. do 2 f_equal. lia.
    - cbn [take_blocks fold_left]. unfold ostep at 2. cbn [fst snd orb].
      rewrite increase_count_exact by apply small_block.
      rewrite increase_count_no_overflow; [|apply small_block|lia].
      replace (8 * bsN * k + 8 * N.of_nat (wb * 16))%N with (8 * bsN * (k + 1))%N by lia.
      rewrite IH by lia. do 2 f_equal. lia.
  Qed.

  Lemma update_overflows_unfold s d :
    update_overflows H w wb s d =
    (let '(_, blocks) := input_block (buffer H s) d in snd (fold_left ostep blocks (t H s, false))).
  Proof. reflexivity. Qed.

  Lemma div_bound (m : list N) : 16 * wb * (length m / bs) <= length m.
  Proof. apply Nat.mul_div_le. destruct Hcase as [[_ ->]|[_ ->]]; lia. Qed.

  (** no overflow check fires in [update] below the format limit *)
  Lemma update_no_overflow c0 s m d :
    Inv w wb H put c0 s m ->
    (8 * N.of_nat (length (m ++ d)) < 2 ^ (2 * w))%N ->
    update_overflows H w wb s d = false.
  Proof.
    intros (Hc & Ht & W & C) Hb. rewrite update_overflows_unfold.
    destruct s as [c b t0]. cbn [compressor buffer t] in *.
    destruct (input_block_spec bs b d W) as (b' & E & W' & C'). rewrite E, Ht.
    assert (Hbs : 0 < bs) by (destruct Hcase as [[_ ->]|[_ ->]]; lia).
    set (k := length m / bs) in *. set (L := content b ++ d) in *.
    assert (Hk : bs * k <= length m) by apply div_bound.
    assert (HL : length L = length m - bs * k + length d).
    { unfold L. rewrite app_length, C, skipn_length. reflexivity. }
    pose proof (Nat.mul_div_le (length L) bs) as Hn.
    rewrite ovf_fold; [reflexivity|]. rewrite app_length in Hb. lia.
  Qed.

  (** ... nor in [finalize]; and the counter that enters the length field and the
      last compression is the exact number of message bits *)
  Lemma finalize_counter c0 s m :
    Inv w wb H put c0 s m ->
    increase_count w (t H s) (N.of_nat (bb_pos (buffer H s))) = tpair w (8 * N.of_nat (length m))
    /\ ((8 * N.of_nat (length m) < 2 ^ (2 * w))%N -> finalize_overflows H w s = false).
  Proof.
    intros (Hc & Ht & W & C). unfold finalize_overflows.
    destruct s as [c b t0]. cbn [compressor buffer t] in *.
    assert (Hpos : bb_pos b = length m - bs * (length m / bs)).
    { rewrite <- (content_length bs b W), C, skipn_length. reflexivity. }
    pose proof (div_bound m) as Hk.
    assert (Hlt : bb_pos b < bs) by (destruct W; lia).
    assert (Hsm : (8 * N.of_nat (bb_pos b) < 2 ^ 32)%N) by (change (2 ^ 32)%N with 4294967296%N; destruct Hcase as [[_ ->]|[_ ->]]; lia).
    rewrite Ht. split.
    - rewrite increase_count_exact by exact Hsm. f_equal.
      clear Hsm. destruct Hcase as [[_ ->]|[_ ->]]; lia.
    - intros Hb. apply increase_count_no_overflow; [exact Hsm|].
      clear Hsm. destruct Hcase as [[-> ->]|[-> ->]]; lia.
  Qed.

  (** the counter held between calls: the bits of the full blocks absorbed so far *)
  Lemma counter_between c0 s m :
    Inv w wb H put c0 s m -> t H s = tpair w (8 * N.of_nat (bs * (length m / bs))).
  Proof. intros (_ & Ht & _). rewrite Ht. f_equal. lia. Qed.
End Counter.

(** * Summary used by Props/C17_blake.v *)
Lemma reachable_inv w wb (Hcase : (w = 32%N /\ wb = 4) \/ (w = 64%N /\ wb = 8))
      (H : Type) (put : H -> list N -> N * N -> H) c0 parts :
  Inv w wb H put c0 (fold_left (update H put w wb) parts (new H wb c0)) (concat parts).
Proof.
  destruct Hcase as [[-> ->]|[-> ->]].
  - apply (inv_updates S.blake256 32 4 true (or_introl (conj eq_refl eq_refl)) eq_refl eq_refl eq_refl
             H put c0 parts _ []).
    apply (inv_new S.blake256 32 4 true (or_introl (conj eq_refl eq_refl)) eq_refl eq_refl eq_refl).
  - apply (inv_updates S.blake512 64 8 true (or_intror (conj eq_refl eq_refl)) eq_refl eq_refl eq_refl
             H put c0 parts _ []).
    apply (inv_new S.blake512 64 8 true (or_intror (conj eq_refl eq_refl)) eq_refl eq_refl eq_refl).
Qed.

Theorem blake_t_exact w wb :
  (w = 32%N /\ wb = 4) \/ (w = 64%N /\ wb = 8) ->
  forall (H : Type) (put : H -> list N -> N * N -> H) (c0 : H) (parts : list (list N)),
    let s := fold_left (update H put w wb) parts (new H wb c0) in
    let m := concat parts in
    (8 * N.of_nat (length m) < 2 ^ (2 * w))%N ->
    (* between calls: the bits of the full blocks compressed so far *)
    (fst (t H s) + 2 ^ w * snd (t H s))%N = (8 * N.of_nat (16 * wb * (length m / (16 * wb))))%N
    (* in finalisation: all message bits *)
    /\ (let t' := increase_count w (t H s) (N.of_nat (bb_pos (buffer H s))) in
        (fst t' + 2 ^ w * snd t')%N = (8 * N.of_nat (length m))%N)
    (* no overflow-checked operation fires, in finalize or in a further update within the limit *)
    /\ finalize_overflows H w s = false
    /\ (forall d, (8 * N.of_nat (length (m ++ d)) < 2 ^ (2 * w))%N -> update_overflows H w wb s d = false).
Proof.
  intros Hcase H put c0 parts s m Hb.
  pose proof (reachable_inv w wb Hcase H put c0 parts) as HI. fold s m in HI.
  destruct (finalize_counter w wb Hcase H put c0 s m HI) as [Ef Ho].
  repeat split.
  - rewrite (counter_between w wb Hcase H put c0 s m HI). apply (tpair_value w wb Hcase).
    assert (16 * wb * (length m / (16 * wb)) <= length m)
      by (apply Nat.mul_div_le; destruct Hcase as [[_ ->]|[_ ->]]; lia).
    lia.
  - cbv zeta. rewrite Ef. now apply (tpair_value w wb Hcase).
  - now apply Ho.
  - intros d Hd. now apply (update_no_overflow w wb Hcase H put c0 s m d HI).
Qed.

(** the carry really fires: a state just below 2^w bits, one more block *)
Example carry_32 : increase_count 32 (tpair 32 (2 ^ 32 - 512)) 64 = (0%N, 1%N).
Proof. vm_compute. reflexivity. Qed.
Example carry_64 : increase_count 64 (tpair 64 (2 ^ 64 - 1024)) 128 = (0%N, 1%N).
Proof. vm_compute. reflexivity. Qed.
(** at the format limit the checked addition does fire (the bound is tight) *)
Example overflow_at_limit_32 :
  increase_count_overflows 32 (tpair 32 (2 ^ 64 - 512)) 64 = true.
Proof. vm_compute. reflexivity. Qed.
Example overflow_at_limit_64 :
  increase_count_overflows 64 (tpair 64 (2 ^ 128 - 1024)) 128 = true.
Proof. vm_compute. reflexivity. Qed.
