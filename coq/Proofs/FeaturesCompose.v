(** C20 — the selection-irrelevance statement composed with the properties it rests on:
    Threefish loop = unrolled (Proofs/Threefish64.v, C09) and the ppv-lite86 dispatch macros
    (Model/Dispatch.v, Proofs/Dispatch.v, C03). *)
From Coq Require Import String List NArith Bool.
From CC Require Import Model.Features Proofs.Features.
From CC Require Import Model.Threefish Proofs.Threefish64.
From CC Require Model.Dispatch Proofs.Dispatch.
Import ListNotations.
Open Scope string_scope.

(** * Threefish: closed.  What `encrypt_block`/`decrypt_block` compute at the selected point. *)
Definition tf_input := (list N * N * N * list N)%type.   (* key, tweak0, tweak1, block *)

Definition tf_rounds (cfg : Threefish.cfg) (looped : bool) (x : tf_input) : list N * list N :=
  let '(key, t0, t1, block) := x in
  (m_encrypt cfg looped key t0 t1 block, m_decrypt cfg looped key t0 t1 block).

Definition tf_run (cfg : Threefish.cfg) (s : selection) (x : tf_input) : list N * list N :=
  match s with SelRounds l => tf_rounds cfg l x | _ => ([], []) end.

Lemma tf_rounds_irrelevant : forall cfg l l' x, tf_rounds cfg l x = tf_rounds cfg l' x.
Proof.
  intros cfg l l' [[[key t0] t1] block]. unfold tf_rounds.
  destruct (threefish_unroll_irrelevant cfg key t0 t1 block) as [E D].
  destruct l, l'.
  - reflexivity.
  - rewrite E, D. reflexivity.
  - rewrite E, D. reflexivity.
  - reflexivity.
Qed.

(** every point of threefish-cipher's lattice, whatever the rest of the graph asks of it
    (feature unification), computes the same encryption and decryption as the default point;
    the same for skein-hash, whose Threefish is that crate *)
Theorem threefish_selection_irrelevant :
  forall cfg c, c = Threefish \/ c = Skein ->
  forall p e e' x, tf_run cfg (select c p e) x = tf_run cfg (select c (default_point c) e') x.
Proof.
  intros cfg c [-> | ->] p e e' x; cbn [select tf_run]; apply tf_rounds_irrelevant.
Qed.

(** * Crates that go through the dispatch macros (blake-hash, jh-x86_64, c2-chacha): the
      selection feeds [Model.Dispatch.dispatch]; given that the six instantiations of the
      generic body compute one function (the C03/C12/C13 statement for that body), every
      lattice point, CPU and target-feature set gives the same value and none panics. *)
Section Dispatch.
  Import CC.Model.Dispatch CC.Proofs.Dispatch.
  Context {X Y : Type}.
  Variable algo : backend -> X -> Y.
  Variable ref : X -> Y.
  Variable dom : X -> Prop.              (* the inputs on which the instantiations are shown equal *)
  Hypothesis all_same : forall b x, dom x -> algo b x = ref x.

  Definition dispatch_run (m : macro) (cpu tf : features) (s : selection) (x : X) : option Y :=
    match s with
    | SelDispatch n st _ => dispatched algo m n st cpu tf x
    | _ => None
    end.

  Theorem dispatch_selection_irrelevant :
    forall c, c = Blake \/ c = JH \/ c = ChaCha ->
    forall m m' p p' e e' cpu cpu' tf tf' x,
      f_sse2 cpu = true -> f_sse2 cpu' = true -> dom x ->
      dispatch_run m cpu tf (select c p e) x = dispatch_run m' cpu' tf' (select c p' e') x
      /\ dispatch_run m cpu tf (select c p e) x = Some (ref x).
  Proof.
    intros c Hc m m' p p' e e' cpu cpu' tf tf' x H1 H2 Hx.
    destruct Hc as [-> | [-> | ->]]; cbn [select dispatch_run];
      rewrite !(dispatched_eq_ref algo ref dom all_same) by assumption; split; reflexivity.
  Qed.
End Dispatch.

(** the general theorem instantiated with Threefish for the [rounds] parameter: the rounds
    hypothesis is discharged, the dispatch and arch hypotheses remain *)
Theorem selection_irrelevant_tf :
  forall (O : Type) (cfg : Threefish.cfg)
         (via_dispatch : crate -> bool -> bool -> tf_input -> O) (arch_ops : bool -> tf_input -> O)
         (groestl_fn : tf_input -> O) (fixed : crate -> tf_input -> O)
         (post : list N * list N -> O),
    dispatch_inputs_irrelevant tf_input O via_dispatch -> arch_irrelevant tf_input O arch_ops ->
    forall c p p' e e' x,
      run tf_input O via_dispatch arch_ops (fun _ l x => post (tf_rounds cfg l x)) groestl_fn fixed c p e x
      = run tf_input O via_dispatch arch_ops (fun _ l x => post (tf_rounds cfg l x)) groestl_fn fixed c p' e' x.
Proof.
  intros O cfg vd ao gf fx post Hd Ha. apply selection_irrelevant; auto.
  intros c l l' x. now rewrite (tf_rounds_irrelevant cfg l l').
Qed.
