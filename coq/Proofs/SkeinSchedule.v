(** The message stage of the Skein model: [update] called any number of times
    followed by the first half of [finalize_into_dirty] feeds Threefish exactly
    the blocks, byte counts and first/final flags of UBI (lazy buffering: the
    last block, full or not, is held back and processed with FINAL; the empty
    message is one zero block with count 0).

    Stated from an arbitrary entered state (chaining value [x], position
    [off], FIRST set or not, bytes already buffered), as needed for C17. *)
From Coq Require Import NArith List Lia Arith Bool.
From CC Require Import Lib.Words Lib.Bytes Lib.ListX.
From CC Require Import Model.Threefish Model.BlockBuffer Model.Skein.
From CC Require Import Proofs.BlockBufferLazy Proofs.SkeinBlock.
From CC Require Spec.Threefish Spec.Skein.
Import ListNotations.
Local Open Scope N_scope.

(** * hashers up to the stale bytes of the buffer *)
Definition heqv (h h' : hasher) : Prop :=
  h_state h = h_state h' /\ bb_eqv (h_buffer h) (h_buffer h').
Definition reqv (r r' : res hasher) : Prop :=
  match r, r' with
  | Ok h, Ok h' => heqv h h'
  | Panic, Panic => True
  | _, _ => False
  end.
Definition rwf (r : res hasher) : Prop :=
  match r with Ok h => bb_wf (h_buffer h) | Panic => True end.

Lemma heqv_refl h : heqv h h.
Proof. split; [reflexivity|apply bb_eqv_refl]. Qed.
Lemma reqv_refl r : reqv r r.
Proof. destruct r; cbn; [apply heqv_refl|exact I]. Qed.
Lemma reqv_trans a b c : reqv a b -> reqv b c -> reqv a c.
Proof.
  destruct a, b, c; cbn; try tauto.
  intros [E1 E2] [F1 F2]. split; [congruence|eapply bb_eqv_trans; eassumption].
Qed.
Lemma bb_eqv_wf b b' : bb_wf b -> bb_eqv b b' -> bb_wf b'.
Proof. intros Hwf (E1 & E2 & _). unfold bb_wf in *. rewrite <- E1, <- E2. exact Hwf. Qed.

Section Stage.
  Variable prof : profile.
  Variable nu : bool.
  Variable v : variant.

  Notation process_blocks := (process_blocks prof nu v).
  Notation update := (update prof nu v).
  Notation updates := (updates prof nu v).
  Notation finalize_message := (finalize_message prof nu v).

  Lemma process_blocks_app s b1 b2 :
    process_blocks s (b1 ++ b2) = bind (process_blocks s b1) (fun s' => process_blocks s' b2).
  Proof.
    revert s; induction b1 as [|b b1 IH]; intros s; cbn [app Skein.process_blocks]; [reflexivity|].
    destruct (process_block prof nu v s b (v_bits v / 8)) as [s'|]; cbn [bind]; [apply IH|reflexivity].
  Qed.

  Lemma update_unfold h data :
    update h data =
    bind (process_blocks (h_state h) (snd (input_lazy (h_buffer h) data)))
         (fun s => Ok (Hs s (fst (input_lazy (h_buffer h) data)))).
  Proof. unfold Skein.update. destruct (input_lazy (h_buffer h) data). reflexivity. Qed.

  Lemma update_wf h data : bb_wf (h_buffer h) -> rwf (update h data).
  Proof.
    intros Hwf. rewrite update_unfold.
    destruct (process_blocks _ _); cbn; [|exact I]. now apply input_lazy_wf.
  Qed.

  Lemma update_eqv h h' data :
    bb_wf (h_buffer h) -> heqv h h' -> reqv (update h data) (update h' data).
  Proof.
    intros Hwf [Es Eb]. rewrite !update_unfold.
    destruct (input_lazy_eqv _ _ data Hwf Eb) as [Eo Ef]. rewrite <- Eo, <- Es.
    destruct (process_blocks _ _); cbn; [|exact I]. split; [reflexivity|exact Ef].
  Qed.

  Lemma updates_wf pieces : forall h, bb_wf (h_buffer h) -> rwf (updates h pieces).
  Proof.
    induction pieces as [|p r IH]; intros h Hwf; cbn [Skein.updates]; [exact Hwf|].
    pose proof (update_wf h p Hwf) as H. destruct (update h p); cbn [bind]; [now apply IH|exact I].
  Qed.

  Lemma updates_eqv pieces : forall h h',
    bb_wf (h_buffer h) -> heqv h h' -> reqv (updates h pieces) (updates h' pieces).
  Proof.
    induction pieces as [|p r IH]; intros h h' Hwf E; cbn [Skein.updates]; [exact E|].
    pose proof (update_eqv h h' p Hwf E) as H. pose proof (update_wf h p Hwf) as W.
    destruct (update h p), (update h' p); cbn in H; try contradiction; cbn [bind]; [|exact I].
    now apply IH.
  Qed.

  (** two calls = one call on the concatenation *)
  Lemma update_app h a c :
    bb_wf (h_buffer h) ->
    reqv (bind (update h a) (fun h' => update h' c)) (update h (a ++ c)).
  Proof.
    intros Hwf. destruct (input_lazy_app (h_buffer h) a c Hwf) as [Eo Ef].
    rewrite (update_unfold h a), (update_unfold h (a ++ c)). rewrite Eo, process_blocks_app.
    destruct (process_blocks (h_state h) (snd (input_lazy (h_buffer h) a))) as [s1|]; cbn [bind]; [|exact I].
    rewrite update_unfold. cbn [h_state h_buffer].
    destruct (process_blocks s1 _); cbn; [|exact I]. split; [reflexivity|exact Ef].
  Qed.

  Lemma update_nil h : bb_wf (h_buffer h) -> reqv (Ok h) (update h []).
  Proof.
    intros Hwf. rewrite update_unfold.
    destruct (input_lazy_char (h_buffer h) [] Hwf) as (Ho & Hs & Hp & Hc).
    rewrite app_nil_r in *. rewrite bb_content_length in * by apply Hwf.
    assert (E0 : lazy_count (bb_size (h_buffer h)) (bb_pos (h_buffer h)) = 0%nat)
      by (apply lazy_count_small; apply Hwf).
    rewrite E0 in *. cbn [take_blocks mult skipn] in *. rewrite Ho.
    cbn [Skein.process_blocks bind reqv]. split; [reflexivity|]. cbn [h_buffer].
    unfold bb_eqv. rewrite Hs, Hp, Hc. repeat split; lia.
  Qed.

  (** any number of calls = one call on the concatenation *)
  Lemma updates_concat pieces : forall h,
    bb_wf (h_buffer h) -> reqv (updates h pieces) (update h (concat pieces)).
  Proof.
    induction pieces as [|p r IH]; intros h Hwf; cbn [Skein.updates concat]; [now apply update_nil|].
    eapply reqv_trans; [|apply update_app; exact Hwf].
    pose proof (update_wf h p Hwf) as W.
    destruct (update h p) as [h1|]; cbn [bind]; [|exact I]. apply IH. exact W.
  Qed.

  Lemma finalize_message_eqv h h' :
    bb_wf (h_buffer h) -> heqv h h' -> finalize_message h = finalize_message h'.
  Proof.
    intros Hwf [Es Eb]. unfold Skein.finalize_message.
    rewrite (pad_with_zero_eqv _ _ Hwf Eb), Es. destruct Eb as (_ & -> & _). reflexivity.
  Qed.

  Lemma bind_finalize_eqv r r' :
    rwf r -> reqv r r' -> bind r finalize_message = bind r' finalize_message.
  Proof.
    destruct r, r'; cbn; try tauto. intros W E. now apply finalize_message_eqv.
  Qed.

  (** the message stage: all [update] calls, then the final block *)
  Definition msg_stage (h : hasher) (pieces : list (list N)) : res (state * bb) :=
    bind (updates h pieces) finalize_message.

  Lemma msg_stage_concat h pieces :
    bb_wf (h_buffer h) ->
    msg_stage h pieces = bind (update h (concat pieces)) finalize_message.
  Proof.
    intros Hwf. unfold msg_stage. apply bind_finalize_eqv; [now apply updates_wf|now apply updates_concat].
  Qed.
End Stage.

(** * the schedule *)
Module SS := Spec.Skein.

(** UBI step number [i] when it is not the last one: a full block *)
Definition full_step (p : SS.sparams) (ty off : N) (first0 : bool) (all : list N) (h : list N) (i : nat)
  : list N :=
  SS.ubi_block p h (SS.tweak (off + N.of_nat ((i + 1) * SS.nb p)) ty ((i =? 0)%nat && first0) false)
               (firstn (SS.nb p) (skipn (i * SS.nb p) all)).

(** the last UBI step: the held-back bytes, zero padded, FINAL *)
Definition last_step (p : SS.sparams) (ty off : N) (first0 : bool) (all : list N) (n : nat) (h : list N)
  : list N :=
  SS.ubi_block p h (SS.tweak (off + N.of_nat (length all)) ty ((n =? 0)%nat && first0) true)
               (skipn (n * SS.nb p) all ++ repeat 0 (SS.nb p - (length all - n * SS.nb p))).

Lemma fold_left_ext_in {A B} (f g : A -> B -> A) l a :
  (forall a x, In x l -> f a x = g a x) -> fold_left f l a = fold_left g l a.
Proof.
  revert a; induction l as [|x l IH]; intros a H; cbn [fold_left]; [reflexivity|].
  rewrite H by now left. apply IH. intros; apply H; now right.
Qed.

Lemma firstn_repeat {A} (x : A) k n : (k <= n)%nat -> firstn k (repeat x n) = repeat x k.
Proof.
  revert n; induction k as [|k IH]; intros n H; [reflexivity|].
  destruct n as [|n]; [lia|]. cbn [repeat firstn]. rewrite IH by lia. reflexivity.
Qed.

Lemma nblocks_lazy nb len : (0 < nb)%nat -> SS.nblocks nb len = S (lazy_count nb len).
Proof.
  intros Hnb. unfold SS.nblocks, lazy_count.
  destruct len as [|len].
  - cbn [plus]. rewrite (Nat.div_small (nb - 1) nb) by lia. cbn [Nat.sub]. rewrite Nat.div_0_l by lia.
    reflexivity.
  - replace (S len + nb - 1)%nat with (len + 1 * nb)%nat by lia.
    rewrite Nat.div_add by lia. replace (S len - 1)%nat with len by lia. lia.
Qed.

(** Spec side: UBI = the full steps over the first [(len-1)/nb] blocks, then the last step *)
Lemma ubi_from_schedule p g ty off first0 all :
  (0 < SS.nb p)%nat ->
  let n := lazy_count (SS.nb p) (length all) in
  SS.ubi_from p g ty off first0 all =
  last_step p ty off first0 all n (fold_left (full_step p ty off first0 all) (seq 0 n) g).
Proof.
  intros Hnb n. unfold SS.ubi_from. rewrite nblocks_lazy by assumption. fold n.
  destruct (lazy_count_bounds (SS.nb p) (length all) Hnb) as (B1 & B2 & B3). fold n in B1, B2, B3.
  rewrite fold_seq_S.
  rewrite (fold_left_ext_in _ (full_step p ty off first0 all)).
  - unfold last_step. set (g' := fold_left _ _ g).
    replace (S n - 1)%nat with n by lia. rewrite Nat.eqb_refl.
    rewrite Nat.min_l by lia.
    unfold SS.msg_block. f_equal.
    rewrite firstn_app, skipn_length.
    rewrite firstn_all2 by (rewrite skipn_length; lia).
    rewrite firstn_repeat by lia. reflexivity.
  - intros a i Hi. apply in_seq in Hi. unfold full_step.
    assert (Hle : ((i + 1) * SS.nb p <= n * SS.nb p)%nat) by (apply Nat.mul_le_mono_r; lia).
    rewrite Nat.min_r by lia.
    replace (i =? S n - 1)%nat with false by (symmetry; apply Nat.eqb_neq; lia).
    unfold SS.msg_block. rewrite firstn_app_le by (rewrite skipn_length; lia). reflexivity.
Qed.

Section Schedule.
  Variable prof : profile.
  Variable nu : bool.
  Variable v : variant.
  Hypothesis Hv : std_variant v.

  Let nb := v_bytes v.
  Let p := sp v.

  Lemma nb_eq : SS.nb p = nb.
  Proof. apply (vf_nb v (std_variant_facts v Hv)). Qed.
  Lemma nb_pos : (0 < nb)%nat.
  Proof. pose proof (vf_ge v (std_variant_facts v Hv)). unfold nb. lia. Qed.

  (** the blocks emitted by [update]: full blocks, count [nb] each, never FINAL *)
  Lemma process_full_blocks ty first all n : forall s,
    std_type ty ->
    st_t1 s = t1w ty first false ->
    Forall is_byte all -> (n * nb <= length all)%nat ->
    st_t0 s + N.of_nat (n * nb) < 2 ^ 64 ->
    process_blocks prof nu v s (take_blocks nb n all) =
    Ok (St (st_t0 s + N.of_nat (n * nb)) (t1w ty ((n =? 0)%nat && first) false)
           (fold_left (full_step p ty (st_t0 s) first all) (seq 0 n) (st_x s))).
  Proof.
    intros s Hty Ht1 Hb. induction n as [|n IH]; intros Hlen Hlt.
    - cbn [take_blocks Skein.process_blocks mult seq fold_left Nat.eqb andb].
      destruct s as [t0 t1 x]. cbn [st_t0 st_t1 st_x] in *. rewrite N.add_0_r. now subst t1.
    - replace (S n) with (n + 1)%nat at 1 by lia.
      rewrite take_blocks_add, process_blocks_app.
      rewrite IH by lia. cbn [bind take_blocks Skein.process_blocks].
      rewrite (vf_bits v (std_variant_facts v Hv)). fold nb.
      set (blk := firstn nb (skipn (n * nb) all)).
      assert (Hbl : length blk = nb).
      { unfold blk. rewrite firstn_length, skipn_length. lia. }
      rewrite (process_block_eq_spec prof nu v _ blk (N.of_nat nb) ty ((n =? 0)%nat && first) false);
        try assumption; try reflexivity; cbn [st_t0 st_t1 st_x].
      + cbn [bind]. rewrite fold_seq_S.
        assert (E : st_t0 s + N.of_nat (n * nb) + N.of_nat nb = st_t0 s + N.of_nat ((n + 1) * nb)) by lia.
        rewrite E. clear E.
        assert (E : (S n * nb = (n + 1) * nb)%nat) by lia. rewrite E. clear E.
        f_equal. f_equal. unfold full_step at 2. rewrite nb_eq. reflexivity.
      + lia.
      + unfold blk. apply Forall_firstn', Forall_skipn'. exact Hb.
  Qed.

  (** [update] with everything that was absorbed, then the final block:
      the chaining value is UBI of (buffered bytes ++ message) continued at [off] *)
  Theorem msg_stage_one_update s b first msg :
    bb_wf b -> bb_size b = nb ->
    st_t1 s = t1w SS.T_MSG first false ->
    Forall is_byte (bb_content b) -> Forall is_byte msg ->
    let all := bb_content b ++ msg in
    st_t0 s + N.of_nat (length all) < 2 ^ 64 ->
    exists buf,
      bind (update prof nu v (Hs s b) msg) (finalize_message prof nu v) =
      Ok (St (st_t0 s + N.of_nat (length all)) (t1w SS.T_MSG false true)
             (SS.ubi_from p (st_x s) SS.T_MSG (st_t0 s) first all), buf).
  Proof.
    intros Hwf Hsz Ht1 Hbc Hbm all Hlt.
    assert (Hty : std_type SS.T_MSG) by (right; left; reflexivity).
    assert (Hball : Forall is_byte all) by (apply Forall_app; split; assumption).
    rewrite update_unfold. cbn [h_state h_buffer].
    destruct (input_lazy_char b msg Hwf) as (Ho & Hs' & Hp & Hc).
    rewrite Hsz in *. fold all in Ho, Hp, Hc.
    set (n := lazy_count nb (length all)) in *.
    destruct (lazy_count_bounds nb (length all) nb_pos) as (B1 & B2 & B3). fold n in B1, B2, B3.
    rewrite Ho.
    rewrite (process_full_blocks SS.T_MSG first all n s) by (try assumption; lia).
    cbn [bind]. unfold Skein.finalize_message. cbn [h_state h_buffer st_t0 st_t1 st_x].
    set (b' := fst (input_lazy b msg)) in *.
    assert (Hwf' : bb_wf b') by (unfold bb_wf; rewrite Hs', Hp; pose proof nb_pos; lia).
    rewrite (pad_with_zero_char b' Hwf'). rewrite Hs', Hp, Hc.
    rewrite t1w_set_final by assumption.
    set (blk := skipn (n * nb) all ++ repeat 0 (nb - (length all - n * nb))).
    assert (Hbl : length blk = nb).
    { unfold blk. rewrite app_length, skipn_length, repeat_length. lia. }
    rewrite (process_block_eq_spec prof nu v _ blk _ SS.T_MSG ((n =? 0)%nat && first) true);
      try assumption; try reflexivity; cbn [st_t0 st_t1 st_x].
    - cbn [bind]. eexists. f_equal. f_equal.
      replace (st_t0 s + N.of_nat (n * nb) + N.of_nat (length all - n * nb))
        with (st_t0 s + N.of_nat (length all)) by lia.
      f_equal.
      rewrite (ubi_from_schedule p (st_x s) SS.T_MSG (st_t0 s) first all) by (rewrite nb_eq; apply nb_pos).
      rewrite nb_eq. fold n. unfold last_step. rewrite nb_eq. fold blk. reflexivity.
    - lia.
    - unfold blk. apply Forall_app. split; [apply Forall_skipn'; exact Hball|].
      apply Forall_forall. intros x Hx. apply repeat_spec in Hx. subst x. unfold is_byte. lia.
  Qed.

  (** C05_skein_lazy_schedule (general form): any number of [update] calls *)
  Theorem msg_stage_eq_ubi s b first pieces :
    bb_wf b -> bb_size b = nb ->
    st_t1 s = t1w SS.T_MSG first false ->
    Forall is_byte (bb_content b) -> Forall (Forall is_byte) pieces ->
    let all := bb_content b ++ concat pieces in
    st_t0 s + N.of_nat (length all) < 2 ^ 64 ->
    exists buf,
      msg_stage prof nu v (Hs s b) pieces =
      Ok (St (st_t0 s + N.of_nat (length all)) (t1w SS.T_MSG false true)
             (SS.ubi_from p (st_x s) SS.T_MSG (st_t0 s) first all), buf).
  Proof.
    intros Hwf Hsz Ht1 Hbc Hbp all Hlt.
    rewrite msg_stage_concat by exact Hwf.
    apply msg_stage_one_update; try assumption.
    clear -Hbp. induction Hbp as [|x l Hx Hl IH]; cbn [concat]; [constructor|].
    apply Forall_app. split; assumption.
  Qed.
End Schedule.
