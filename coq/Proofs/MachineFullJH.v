(** C03, machine-framing: JH's whole compression function F8 (compressor.rs [f8_impl]: unpack the
    eight state registers, xor the block into the low half through unaligned loads, E8, xor the
    block into the high half, store) written over the extended machine record equals, on every
    back end that refines the lane meaning, the executable model Model/JH.v [m_f8]. *)
From Coq Require Import NArith List Bool Lia Arith.
From CC Require Import Lib.Words Lib.Bytes Lib.ListX Spec.Lanes Model.Machine Model.MachineFull.
From CC Require Import Proofs.Machine Proofs.MachineFullLib.
From CC Require Model.JH.
From CC Require Import Proofs.MachineInstReal.
Import ListNotations.
Local Open Scope N_scope.

Lemma slice16_ok n bs i : bytes_ok (16 * n) bs -> (i < n)%nat -> bytes_ok 16 (slice16 i bs).
Proof.
  intros [Hl Hb] Hi. unfold slice16. split.
  - rewrite firstn_length, skipn_length, Hl. lia.
  - apply Forall_firstn', Forall_skipn', Hb.
Qed.

(** the lane-wise round sequence from an arbitrary register file *)
Lemma lane_rounds_from : forall (y : jx8 lane_jops) sched,
  Forall w128 (j_rep8 lane_jops y) -> sched_ok sched ->
  j_rep8 lane_jops (j_rounds lane_jops y sched) =
  x8_list (fold_left (fun y jr => JH.round (fst jr) (snd jr) y) sched (x8_of_list (j_rep8 lane_jops y))).
Proof.
  intros y sched Hw Hs.
  rewrite <- (jh_lane_is_model (j_rep8 lane_jops y) sched eq_refl Hw Hs).
  unfold jh_rounds_on. destruct y. reflexivity.
Qed.

Section F8.
  Variables (j : jops) (u : uops j).
  Hypothesis RJ : jops_refines j.
  Hypothesis UR : uops_refines j u.
  (** the schedule, kept abstract: [sched] = E8's 42 (swap exponent, constant) pairs *)
  Variable sched : list (nat * (N * N)).
  Hypothesis Hs : sched_ok sched.
  Hypothesis He : forall y, JH.e8 y = fold_left (fun y jr => JH.round (fst jr) (snd jr) y) sched y.

  Lemma jrel_w128 a x : jrel1 j a x -> w128 x.
  Proof. intros [W <-]. now apply (ur_ok _ _ UR). Qed.
  Lemma jrel_into a x : jrel1 j a x -> o1_into u a = le_split 16 x.
  Proof. intros [W <-]. now apply (ur_into _ _ UR). Qed.

  Theorem f8_is_model_gen : forall state data, bytes_ok 128 state -> bytes_ok 64 data ->
    x_f8 j u sched state data = JH.m_f8 state data.
  Proof.
    intros state data Hst Hd.
    assert (S : forall i, (i < 8)%nat -> jrel1 j (o1_unpack u (slice16 i state)) (JH.load128 state i)).
    { intros i Hi. apply (ur_unpack _ _ UR), (slice16_ok 8); assumption. }
    assert (D : forall i, (i < 4)%nat -> jrel1 j (o1_read u (slice16 i data)) (JH.load128 data i)).
    { intros i Hi. apply (ur_read _ _ UR), (slice16_ok 4); assumption. }
    pose proof (S 0%nat ltac:(lia)) as S0. pose proof (S 1%nat ltac:(lia)) as S1.
    pose proof (S 2%nat ltac:(lia)) as S2. pose proof (S 3%nat ltac:(lia)) as S3.
    pose proof (S 4%nat ltac:(lia)) as S4. pose proof (S 5%nat ltac:(lia)) as S5.
    pose proof (S 6%nat ltac:(lia)) as S6. pose proof (S 7%nat ltac:(lia)) as S7.
    pose proof (D 0%nat ltac:(lia)) as D0. pose proof (D 1%nat ltac:(lia)) as D1.
    pose proof (D 2%nat ltac:(lia)) as D2. pose proof (D 3%nat ltac:(lia)) as D3.
    clear S D.
    unfold x_f8. cbv zeta. cbn [q0 q1 q2 q3 q4 q5 q6 q7].
    set (d0 := JH.load128 data 0) in *. set (d1 := JH.load128 data 1) in *.
    set (d2 := JH.load128 data 2) in *. set (d3 := JH.load128 data 3) in *.
    set (a0 := JH.load128 state 0) in *. set (a1 := JH.load128 state 1) in *.
    set (a2 := JH.load128 state 2) in *. set (a3 := JH.load128 state 3) in *.
    set (a4 := JH.load128 state 4) in *. set (a5 := JH.load128 state 5) in *.
    set (a6 := JH.load128 state 6) in *. set (a7 := JH.load128 state 7) in *.
    (* after the first xor *)
    match goal with |- context [j_rounds j ?y _] => set (x1 := y) end.
    set (y1 := JX8 (o := lane_jops) (N.lxor a0 d0) (N.lxor a1 d1) (N.lxor a2 d2) (N.lxor a3 d3) a4 a5 a6 a7).
    assert (Sim1 : j_sim j x1 y1).
    { unfold j_sim, x1, y1. cbn [q0 q1 q2 q3 q4 q5 q6 q7].
      split8; try assumption; apply (jr_xor1 _ RJ); assumption. }
    pose proof (j_rounds_sim j RJ sched x1 y1 Hs Sim1) as Sim2.
    assert (W1 : Forall w128 (j_rep8 lane_jops y1)).
    { destruct Sim1 as (H0 & H1 & H2 & H3 & H4 & H5 & H6 & H7).
      unfold j_rep8, y1. cbn [q0 q1 q2 q3 q4 q5 q6 q7 lane_jops j_rep1].
      repeat (apply Forall_cons; [eapply jrel_w128; eassumption|]). apply Forall_nil. }
    pose proof (lane_rounds_from y1 sched W1 Hs) as L.
    rewrite <- He in L.
    set (x2 := j_rounds j x1 sched) in *. set (y2 := j_rounds lane_jops y1 sched) in *.
    destruct Sim2 as (Z0 & Z1 & Z2 & Z3 & Z4 & Z5 & Z6 & Z7).
    pose proof (jr_xor1 _ RJ _ _ _ _ Z4 D0) as X4. pose proof (jr_xor1 _ RJ _ _ _ _ Z5 D1) as X5.
    pose proof (jr_xor1 _ RJ _ _ _ _ Z6 D2) as X6. pose proof (jr_xor1 _ RJ _ _ _ _ Z7 D3) as X7.
    rewrite (jrel_into _ _ Z0), (jrel_into _ _ Z1), (jrel_into _ _ Z2), (jrel_into _ _ Z3),
            (jrel_into _ _ X4), (jrel_into _ _ X5), (jrel_into _ _ X6), (jrel_into _ _ X7).
    (* the model *)
    unfold JH.m_f8, JH.compressor_input, JH.compressor_new, JH.f8_impl.
    fold a0 a1 a2 a3 a4 a5 a6 a7 d0 d1 d2 d3.
    change (JH.X8 (N.lxor a0 d0) (N.lxor a1 d1) (N.lxor a2 d2) (N.lxor a3 d3) a4 a5 a6 a7)
      with (x8_of_list (j_rep8 lane_jops y1)).
    unfold j_rep8 in L at 1. cbn [lane_jops j_rep1] in L.
    destruct (JH.e8 (x8_of_list (j_rep8 lane_jops y1))) as [e0 e1 e2 e3 e4 e5 e6 e7].
    unfold x8_list in L. cbn [JH.y0 JH.y1 JH.y2 JH.y3 JH.y4 JH.y5 JH.y6 JH.y7] in L.
    injection L as L0 L1 L2 L3 L4 L5 L6 L7.
    rewrite L0, L1, L2, L3, L4, L5, L6, L7.
    unfold JH.compressor_finalize. cbn [JH.y0 JH.y1 JH.y2 JH.y3 JH.y4 JH.y5 JH.y6 JH.y7 flat_map].
    now rewrite app_nil_r.
  Qed.
End F8.

Theorem f8_is_model : forall m, xmachine_refines m ->
  forall state data, bytes_ok 128 state -> bytes_ok 64 data ->
    xm_f8 m e8_sched state data = JH.m_f8 state data.
Proof.
  intros m X state data Hs Hd. destruct (xr_base _ X) as (_ & _ & _ & RJ).
  exact (f8_is_model_gen _ _ RJ (xr_u _ X) e8_sched e8_sched_ok e8_is_rounds state data Hs Hd).
Qed.

Theorem f8_machine_indep : forall m, xmachine_refines m ->
  forall state data, bytes_ok 128 state -> bytes_ok 64 data ->
    xm_f8 m e8_sched state data = xm_f8 lane_xm e8_sched state data.
Proof.
  intros m X state data Hs Hd.
  rewrite (f8_is_model m X state data Hs Hd). now rewrite (f8_is_model lane_xm lane_xm_refines state data Hs Hd).
Qed.

Print Assumptions f8_is_model.
Print Assumptions f8_machine_indep.
