(** Audit examples for C08 (hash streaming histories) and C17 (length counters).
    Written by the auditor (tag Hist).  Every example either applies a pinned theorem of
    Props/C08_real.v / Props/C17*.v to concrete or symbolic data with ALL hypotheses discharged,
    or evaluates the REAL model records by [vm_compute].  No axioms. *)
From Coq Require Import NArith List Arith Lia Bool.
From CC Require Import Lib.Words Lib.Bytes Lib.ListX Spec.AES Model.BlockBuffer Model.Hasher
  Proofs.BlockBufferLazy Proofs.BlockBufferEager Proofs.Hasher Proofs.HasherFin Proofs.HasherComposeLib
  Proofs.HasherComposeGroestl Proofs.HasherComposeBlake Proofs.HasherComposeJH Proofs.HasherComposeSkein.
From CC Require Props.C08 Props.C08_real Props.C17 Props.C17_blake Props.C17_groestl Props.C17_jh Props.C17_skein.
From CC Require Spec.Groestl Spec.Blake Spec.JH Spec.Skein Model.Groestl Model.Blake Model.JH Model.Skein
  Model.GroestlIntrinsics.
From CC Require Proofs.GroestlLayout Proofs.GroestlCompress Proofs.GroestlSchedule Proofs.GroestlHash
  Proofs.GroestlCounter Proofs.BlakeSchedule Proofs.BlakeCounter Proofs.BlakeBuffer Proofs.BlakeRounds
  Proofs.BlakeMain.
From Coq Require ZArith ZifyBool ZifyN.
Import ListNotations.
Local Open Scope N_scope.

(** * C08: one history, four real hashers (block size 64 bytes in all four)

    pieces: 3 bytes, 130 bytes (spans two block boundaries), exactly one block, block-1, block+1,
    two empty pieces; operations: all five, clone of a clone, reset, finalize_reset followed by
    reuse, and two operations on a slot already consumed by [Finalize] (no-ops in the model; not
    expressible in Rust). *)
Definition pa : list N := [1; 2; 3].
Definition pb : list N := map N.of_nat (seq 0 130).
Definition pc : list N := repeat 0xAB 64%nat.
Definition pd : list N := map N.of_nat (seq 100 63).
Definition pe : list N := map N.of_nat (seq 7 65).

Definition hist_ops : list op :=
  [Update 0 pa; Clone 0; Update 0 pb; FinalizeReset 0; Update 0 pc; Finalize 0;
   Update 1 pd; Clone 1; Reset 1; Update 1 []; Finalize 1;
   Update 2 pe; Update 2 []; Finalize 2; Update 0 pa; Finalize 0].

Definition hist_expected {D} (f : list N -> D) : list (nat * D) :=
  [(0%nat, f (pa ++ pb)); (0%nat, f pc); (1%nat, f []); (2%nat, f (pa ++ pd ++ pe))].

Lemma hist_srun {D} (f : list N -> D) : snd (srun f [Some []] hist_ops) = hist_expected f.
Proof. reflexivity. Qed.

Lemma hist_update_bytes_len : length (update_bytes hist_ops) = 328%nat.
Proof. reflexivity. Qed.
Lemma hist_update_bytes_byte : Forall is_byte (update_bytes hist_ops).
Proof.
  apply Forall_forall. intros x Hx.
  assert (E : forallb (fun x => x <? 256) (update_bytes hist_ops) = true) by (vm_compute; reflexivity).
  rewrite forallb_forall in E. apply N.ltb_lt. now apply E.
Qed.
Lemma small_lt k : (10 <= k)%N -> N.of_nat 328 < 2 ^ k.
Proof.
  intros Hk. apply N.lt_le_trans with (2 ^ 10); [vm_compute; reflexivity|].
  apply N.pow_le_mono_r; lia.
Qed.

(** ** BLAKE-256 *)
Example blake256_hist_bounded : ops_bounded (fun m => 8 * N.of_nat (length m) < 2 ^ 64) hist_ops.
Proof. repeat constructor; vm_compute; reflexivity. Qed.

(** the pinned theorem applies (hypothesis met) and gives the specification's digests *)
Example blake256_hist_by_theorem :
  snd (run blake256_real [Some (h_new blake256_real)] hist_ops)
  = hist_expected (Spec.Blake.hash Spec.Blake.blake256).
Proof. rewrite <- hist_srun. apply Props.C08_real.C08_real_blake256_history. exact blake256_hist_bounded. Qed.

(** the real record, evaluated: every digest is the record's own one-shot digest *)
Example blake256_hist_by_computation :
  snd (run blake256_real [Some (h_new blake256_real)] hist_ops) = hist_expected (h_oneshot blake256_real).
Proof. vm_compute. reflexivity. Qed.

(** ... and the reset instance returns the published BLAKE-256 digest of the empty string *)
Example blake256_hist_reset_kat :
  nth 2 (snd (run blake256_real [Some (h_new blake256_real)] hist_ops)) (0%nat, [])
  = (1%nat, be_split 32 0x716f6e863f744b9ac22c97ec7b76ea5f5908bc5b2f67c61510bfc4751384ea7a).
Proof. vm_compute. reflexivity. Qed.

(** ** Groestl-256 *)
Example groestl256_hist_by_theorem :
  snd (run groestl256_real [Some (h_new groestl256_real)] hist_ops)
  = hist_expected Spec.Groestl.groestl256.
Proof.
  rewrite <- hist_srun.
  destruct (Props.C08_real.C08_real_groestl_history_update_bytes hist_ops) as (_ & E & _); [|exact E].
  rewrite hist_update_bytes_len. vm_compute. reflexivity.
Qed.
Example groestl256_hist_bounded :
  ops_bounded (fun m => N.of_nat (Spec.Groestl.pad_blocks 64 (length m)) < 2 ^ 64) hist_ops.
Proof. repeat constructor; vm_compute; reflexivity. Qed.
Example groestl256_hist_by_computation :
  snd (run groestl256_real [Some (h_new groestl256_real)] hist_ops) = hist_expected (h_oneshot groestl256_real).
Proof. vm_compute. reflexivity. Qed.
Example groestl256_hist_reset_kat :
  nth 2 (snd (run groestl256_real [Some (h_new groestl256_real)] hist_ops)) (0%nat, [])
  = (1%nat, be_split 32 0x1a52d11d550039be16107f9c58db9ebcc417f16f736adb2502567119f0083467).
Proof. vm_compute. reflexivity. Qed.

(** ** JH-256 *)
Example jh256_hist_by_theorem :
  snd (run (jh_real Model.JH.Jh256) [Some (h_new (jh_real Model.JH.Jh256))] hist_ops)
  = hist_expected (Spec.JH.jh 256).
Proof.
  rewrite <- hist_srun.
  apply (Props.C08_real.C08_real_jh_history_update_bytes Model.JH.Jh256 256).
  - right. left. split; reflexivity.
  - exact hist_update_bytes_byte.
  - rewrite hist_update_bytes_len. apply small_lt. lia.
Qed.
Example jh256_hist_by_computation :
  snd (run (jh_real Model.JH.Jh256) [Some (h_new (jh_real Model.JH.Jh256))] hist_ops)
  = hist_expected (h_oneshot (jh_real Model.JH.Jh256)).
Proof. vm_compute. reflexivity. Qed.
Example jh256_hist_reset_kat :
  nth 2 (snd (run (jh_real Model.JH.Jh256) [Some (h_new (jh_real Model.JH.Jh256))] hist_ops)) (0%nat, [])
  = (1%nat, be_split 32 0x46e64619c18bb0a92a5e87185a47eef83ca747b8fcc8e1412921357e326df434).
Proof. vm_compute. reflexivity. Qed.

(** ** Skein-512-512 (lazy buffer: [pc] is exactly one block and stays pending until finalisation) *)
Definition sk512 := skein_real false Model.Skein.skein512 64.
Example skein512_hist_by_theorem :
  snd (run sk512 [Some (h_new sk512)] hist_ops) = hist_expected (Spec.Skein.skein Spec.Skein.skein512p 64).
Proof.
  rewrite <- hist_srun.
  apply (Props.C08_real.C08_real_skein_history_update_bytes false Model.Skein.skein512 Spec.Skein.skein512p 64).
  - right. left. split; reflexivity.
  - lia.
  - vm_compute. reflexivity.
  - exact hist_update_bytes_byte.
  - rewrite hist_update_bytes_len. apply small_lt. lia.
Qed.
Example skein512_hist_by_computation :
  snd (run sk512 [Some (h_new sk512)] hist_ops) = hist_expected (h_oneshot sk512).
Proof. vm_compute. reflexivity. Qed.
Example skein512_hist_reset_kat :
  nth 2 (snd (run sk512 [Some (h_new sk512)] hist_ops)) (0%nat, [])
  = (1%nat, be_split 64 0xbc5b4c50925519c290cc634277ae3d6257212395cba733bbad37a4af0fa06af41fca7903d06564fea7a2d3730dbdb80c1f85562dfcc070334ea4d1d9e72cba7a).
Proof. vm_compute. reflexivity. Qed.
(** the pending full block of the lazy buffer is really there after [Update 0 pc] *)
Example skein512_full_block_pending :
  bb_pos (i_buf (h_update sk512 (h_new sk512) pc)) = 64%nat.
Proof. vm_compute. reflexivity. Qed.

(** ** independence, as consequences of the pinned slot theorems (any hasher record) *)
Corollary clone_unaffected_by_origin {st digest} (h : hasher st digest) (T : table st) k i post post' :
  live T k = Some i -> proj (length T) post = proj (length T) post' ->
  outputs_of (length T) (snd (run h T (Clone k :: post))) = outputs_of (length T) (snd (run h T (Clone k :: post'))).
Proof.
  intros Hl Hp.
  destruct (Props.C08.C08_clone_independent st digest h T k i post Hl) as [-> _].
  destruct (Props.C08.C08_clone_independent st digest h T k i post' Hl) as [-> _].
  now rewrite Hp.
Qed.
Corollary origin_unaffected_by_clone {st digest} (h : hasher st digest) (T : table st) k i post post' :
  live T k = Some i -> proj k post = proj k post' ->
  outputs_of k (snd (run h T (Clone k :: post))) = outputs_of k (snd (run h T (Clone k :: post'))).
Proof.
  intros Hl Hp.
  destruct (Props.C08.C08_clone_independent st digest h T k i post Hl) as [_ ->].
  destruct (Props.C08.C08_clone_independent st digest h T k i post' Hl) as [_ ->].
  now rewrite Hp.
Qed.
(** after a reset nothing of the earlier state is visible: two tables with arbitrary live states in slot k *)
Corollary reset_forgets {st digest} (h : hasher st digest) (T T' : table st) k i i' post :
  live T k = Some i -> live T' k = Some i' ->
  outputs_of k (snd (run h T (Reset k :: post))) = outputs_of k (snd (run h T' (Reset k :: post))).
Proof.
  intros Hl Hl'.
  destruct (Props.C08.C08_reset_like_new st digest h T k i post Hl) as [-> _].
  destruct (Props.C08.C08_reset_like_new st digest h T' k i' post Hl') as [-> _].
  reflexivity.
Qed.

(** * C17, Groestl-256 *)
Import Model.GroestlIntrinsics Model.Groestl Proofs.GroestlLayout Proofs.GroestlCompress
  Proofs.GroestlSchedule Proofs.GroestlHash Proofs.GroestlCounter.

(** every state reached from [new] by hashing has the shape the from-state theorems ask for
    (chaining value [LA h] with [length h = 64], buffer [holds] the unprocessed tail, counter = blocks) *)
Lemma groestl256_reachable_shape S msg :
  N.of_nat (length msg / 64) < 2 ^ 64 ->
  exists b h,
    update (comp512 S) (new_truncated (comp512 S) 256) msg = H b (N.of_nat (length msg / 64)) (LA h)
    /\ length h = 64%nat
    /\ holds 64 b (skipn (64 * (length msg / 64)) msg).
Proof.
  intros Hlt.
  set (h0 := new_truncated (comp512 S) 256).
  assert (Hh : holds (c_bytes (comp512 S)) (h_buf h0) []) by (apply holds_new; cbn; lia).
  destruct (update_char (comp512 S) h0 [] msg ltac:(cbn; lia) Hh ltac:(cbn; lia)) as (Uc & Ucv & Ub).
  cbn [app c_bytes comp512] in Uc, Ucv, Ub.
  cbn [h0 new_truncated h_cv h_count c_init comp512 c_bytes c_tf] in Uc, Ucv.
  change (64 / 16)%nat with 4%nat in Ucv. change (64 / 8)%nat with 8%nat in Ucv.
  rewrite init512_iv in Ucv by (right; reflexivity).
  destruct (fold_tf512 S (chunks_exact 64 (length msg / 64) msg) (Spec.Groestl.iv Spec.Groestl.p512 256)) as [E L].
  - apply chunks_exact_Forall_length.
  - apply iv512_length.
  - rewrite E in Ucv.
    destruct (update (comp512 S) h0 msg) as [b cnt cv] eqn:EU. cbn [h_count h_cv h_buf] in *.
    exists b, (fold_left (Spec.Groestl.f S Spec.Groestl.p512) (chunks_exact 64 (length msg / 64) msg)
                 (Spec.Groestl.iv Spec.Groestl.p512 256)).
    split; [|split; [exact L|exact Ub]].
    subst cv. f_equal. rewrite Uc. unfold addw. rewrite N.add_0_l. now apply wrap_small.
Qed.

(** states just below / above 2^32 blocks: symbolic chaining value, 10 bytes buffered, 100-byte tail *)
Definition g_buffered : list N := map N.of_nat (seq 1 10).
Definition g_tail : list N := map N.of_nat (seq 50 100).
Definition g_buf : bb := fst (input_block (bb_new 64) g_buffered).

Lemma g_buf_holds : holds 64 g_buf g_buffered.
Proof. unfold holds. repeat split; try (vm_compute; reflexivity). vm_compute. lia. Qed.
Lemma g_pad_blocks : Spec.Groestl.pad_blocks 64 (length g_buffered + length g_tail) = 2%nat.
Proof. vm_compute. reflexivity. Qed.

Example groestl256_from_state_below_2_32 : forall h, length h = 64%nat ->
  out256 (finalize_dirty (comp512 sbox_fast) (update (comp512 sbox_fast) (H g_buf (2 ^ 32 - 2) (LA h)) g_tail))
  = Spec.Groestl.hash_from sbox_fast Spec.Groestl.p512 32 h (2 ^ 32 - 2) (g_buffered ++ g_tail).
Proof.
  intros h Hh. apply Props.C17_groestl.C17_groestl256_from_state_eq_spec; [exact Hh|exact g_buf_holds|].
  rewrite g_pad_blocks. vm_compute. reflexivity.
Qed.
Example groestl256_from_state_above_2_32 : forall h, length h = 64%nat ->
  out256 (finalize_dirty (comp512 sbox_fast) (update (comp512 sbox_fast) (H g_buf (2 ^ 32 + 1) (LA h)) g_tail))
  = Spec.Groestl.hash_from sbox_fast Spec.Groestl.p512 32 h (2 ^ 32 + 1) (g_buffered ++ g_tail).
Proof.
  intros h Hh. apply Props.C17_groestl.C17_groestl256_from_state_eq_spec; [exact Hh|exact g_buf_holds|].
  rewrite g_pad_blocks. vm_compute. reflexivity.
Qed.
(** debug profile: no overflow check fires there *)
Example groestl256_from_state_debug_below_2_32 : forall h,
  match update_chk true (comp512 sbox_fast) (H g_buf (2 ^ 32 - 2) (LA h)) g_tail with
  | Some h' => finalize_chk true (comp512 sbox_fast) h' | None => None end
  = Some (finalize_dirty (comp512 sbox_fast) (update (comp512 sbox_fast) (H g_buf (2 ^ 32 - 2) (LA h)) g_tail)).
Proof.
  intros h. apply (Props.C17_groestl.C17_groestl_no_overflow_below_limit true (comp512 sbox_fast) _ g_buffered g_tail).
  - cbn. lia.
  - exact g_buf_holds.
  - cbn [c_bytes comp512 h_count]. rewrite g_pad_blocks. vm_compute. reflexivity.
Qed.

(** the count field that enters the last compression: 2^32 - 2 + 2 = 2^32 exactly *)
Example groestl_count_field_crossing_2_32 :
  let out := finalize_dirty (comp_rec 64) (update (comp_rec 64) (H (bb_new 64) (2 ^ 32 - 2) []) (g_buffered ++ g_tail)) in
  be_join (skipn (length out - 8) out) = 2 ^ 32 /\ length out = 128%nat.
Proof.
  cbv zeta.
  destruct (Props.C17_groestl.C17_groestl_final_count_exact 64 (2 ^ 32 - 2) (g_buffered ++ g_tail)) as [E L].
  - lia.
  - vm_compute. reflexivity.
  - rewrite E, L. split; vm_compute; reflexivity.
Qed.
(** the reference [Spec.Groestl.hash_from] puts that same count into its padding *)
Example groestl_spec_pad_from_count :
  let p := Spec.Groestl.pad_from 64 (2 ^ 32 - 2) (g_buffered ++ g_tail) in
  skipn (length p - 8) p = [0; 0; 0; 1; 0; 0; 0; 0].
Proof. vm_compute. reflexivity. Qed.

Example groestl_boundaries_inst :
  forall p, In p [8; 16; 32] ->
  let out := finalize_dirty (comp_rec 64) (update (comp_rec 64) (H (bb_new 64) (2 ^ p - 1) []) g_tail) in
  be_join (skipn (length out - 8) out) = 2 ^ p + 1.
Proof.
  intros p Hp. cbv zeta.
  rewrite (Props.C17.C17_groestl_count_across_byte_boundaries 64 p g_tail).
  - replace (Spec.Groestl.pad_blocks 64 (length g_tail)) with 2%nat by (vm_compute; reflexivity).
    cbn in Hp. destruct Hp as [<-|[<-|[<-|[]]]]; vm_compute; reflexivity.
  - lia.
  - cbn in Hp. lia.
  - cbn in Hp. lia.
  - vm_compute. reflexivity.
Qed.

(** * C17, BLAKE-256 *)
Module MBk := CC.Model.Blake.

(** the counter step at the real width, from any (entered) value: below, across and above 2^32 bits *)
Example blake256_count_below_2_32 :
  MBk.increase_count 32 (2 ^ 32 - 1024, 0) 64 = (2 ^ 32 - 512, 0)
  /\ MBk.increase_count_overflows 32 (2 ^ 32 - 1024, 0) 64 = false.
Proof.
  destruct (Props.C17_blake.C17_blake_increase_count_exact 32 4 (or_introl (conj eq_refl eq_refl))
              (2 ^ 32 - 1024) 64 ltac:(vm_compute; reflexivity)) as [E O].
  split; [exact E|apply O; vm_compute; reflexivity].
Qed.
Example blake256_count_across_2_32 :
  MBk.increase_count 32 (2 ^ 32 - 512, 0) 64 = (0, 1)
  /\ MBk.increase_count_overflows 32 (2 ^ 32 - 512, 0) 64 = false.
Proof.
  destruct (Props.C17_blake.C17_blake_increase_count_exact 32 4 (or_introl (conj eq_refl eq_refl))
              (2 ^ 32 - 512) 64 ltac:(vm_compute; reflexivity)) as [E O].
  split; [exact E|apply O; vm_compute; reflexivity].
Qed.
Example blake256_count_above_2_32 :
  MBk.increase_count 32 (0, 1) 37 = (296, 1)
  /\ MBk.increase_count_overflows 32 (0, 1) 37 = false.
Proof.
  destruct (Props.C17_blake.C17_blake_increase_count_exact 32 4 (or_introl (conj eq_refl eq_refl))
              (2 ^ 32) 37 ltac:(vm_compute; reflexivity)) as [E O].
  split; [exact E|apply O; vm_compute; reflexivity].
Qed.

(** [C17_blake_t_exact] instantiated SYMBOLICALLY at a really streamed message of 2^29 + 10 bytes fed
    in two update calls (2^29 - 10 bytes, then 20 bytes), any compressor: after the second call the
    counter is exactly 2^32 bits (so t = (0, 1)), and the counter entering the padding is 2^32 + 80 *)
Lemma blake256_t_after_2_29_bytes_gen (n : nat) :
  N.of_nat n = 2 ^ 29 - 10 ->
  forall (X : Type) (put : X -> list N -> N * N -> X) (c0 : X),
  let s := fold_left (MBk.update X put 32 4) [repeat 0 n; repeat 1 20%nat] (MBk.new X 4 c0) in
  fst (MBk.t X s) + 2 ^ 32 * snd (MBk.t X s) = 2 ^ 32
  /\ (let t' := MBk.increase_count 32 (MBk.t X s) (N.of_nat (bb_pos (MBk.buffer X s))) in
      fst t' + 2 ^ 32 * snd t' = 2 ^ 32 + 80).
Proof.
  intros Hn X put c0.
  pose proof (Props.C17_blake.C17_blake_t_exact 32 4 (or_introl (conj eq_refl eq_refl)) X put c0
                [repeat 0 n; repeat 1 20%nat]) as T.
  cbv zeta in T |- *.
  assert (L : length (concat [repeat 0 n; repeat 1 20%nat]) = (n + 20)%nat).
  { cbn [concat]. rewrite app_nil_r, app_length, !repeat_length. reflexivity. }
  rewrite L in T.
  assert (Hb : 8 * N.of_nat (n + 20) < 2 ^ (2 * 32)).
  { rewrite Nat2N.inj_add, Hn. vm_compute. reflexivity. }
  destruct (T Hb) as (T1 & T2 & _).
  assert (Hd : ((n + 20) / (16 * 4) = N.to_nat (2 ^ 23))%nat).
  { apply Nat2N.inj. rewrite Nat2N.inj_div, Nat2N.inj_add, Hn, N2Nat.id. vm_compute. reflexivity. }
  split.
  - change (2 * 32) with 64 in *. rewrite T1, Hd.
    rewrite Nat2N.inj_mul, N2Nat.id. vm_compute. reflexivity.
  - rewrite T2, Nat2N.inj_add, Hn. vm_compute. reflexivity.
Qed.
Example blake256_t_after_2_29_bytes :
  forall (X : Type) (put : X -> list N -> N * N -> X) (c0 : X),
  let s := fold_left (MBk.update X put 32 4) [repeat 0 (N.to_nat (2 ^ 29 - 10)); repeat 1 20%nat] (MBk.new X 4 c0) in
  fst (MBk.t X s) + 2 ^ 32 * snd (MBk.t X s) = 2 ^ 32
  /\ (let t' := MBk.increase_count 32 (MBk.t X s) (N.of_nat (bb_pos (MBk.buffer X s))) in
      fst t' + 2 ^ 32 * snd t' = 2 ^ 32 + 80).
Proof. exact (blake256_t_after_2_29_bytes_gen (N.to_nat (2 ^ 29 - 10)) (N2Nat.id _)). Qed.

(** ... and the digest of that message is the specified one (C04 / C08_real at that length) *)
Example blake256_digest_2_29_bytes :
  let m := repeat 0 (N.to_nat (2 ^ 29 - 10)) ++ repeat 1 20%nat in
  h_finalize blake256_real (fold_left (h_update blake256_real)
     [repeat 0 (N.to_nat (2 ^ 29 - 10)); repeat 1 20%nat] (h_new blake256_real))
  = Spec.Blake.hash Spec.Blake.blake256 m.
Proof.
  cbv zeta.
  replace (repeat 0 (N.to_nat (2 ^ 29 - 10)) ++ repeat 1 20%nat)
    with (concat [repeat 0 (N.to_nat (2 ^ 29 - 10)); repeat 1 20%nat])
    by (cbn [concat]; now rewrite app_nil_r).
  apply blake256_chunks. unfold blake_bound.
  cbn [concat]. rewrite app_nil_r, app_length, !repeat_length, Nat2N.inj_add, N2Nat.id.
  vm_compute. reflexivity.
Qed.

(** NO pinned theorem of the development relates [digest_from] (the model of hook-entered BLAKE
    states used by Run/Blake.v) to [Spec.Blake.hash_from] (the auditor proves one at the end of this
    file, module [BlakeFromState]).  Concrete evaluation: state entered at t = 2^32 - 512 bits with
    10 buffered bytes, 100-byte tail: compressions at t = 2^32 (carry into t.1) and t = 2^32 + 368 *)
Definition b_h : MBk.row * MBk.row := ([0x01234567; 0x89abcdef; 0xdeadbeef; 0x0badf00d], [5; 6; 7; 0xffffffff]).
Definition b_hw : list N := fst b_h ++ snd b_h.

Example blake256_entered_state_across_2_32 :
  MBk.digest_from MBk.put_block32 32 4 true 32 b_h (2 ^ 32 - 512) 0 g_buffered g_tail
  = Some (Spec.Blake.hash_from Spec.Blake.blake256 b_hw ((2 ^ 32 - 512) / 512) (g_buffered ++ g_tail)).
Proof. vm_compute. reflexivity. Qed.
Example blake256_entered_state_above_2_32 :
  MBk.digest_from MBk.put_block32 32 4 true 32 b_h 512 1 g_buffered g_tail
  = Some (Spec.Blake.hash_from Spec.Blake.blake256 b_hw ((2 ^ 32 + 512) / 512) (g_buffered ++ g_tail)).
Proof. vm_compute. reflexivity. Qed.
Example blake256_schedule_counters_across_2_32 :
  map snd (Spec.Blake.schedule_from Spec.Blake.blake256 ((2 ^ 32 - 512) / 512) (g_buffered ++ g_tail))
  = [2 ^ 32; 2 ^ 32 + 8 * 46].
Proof. vm_compute. reflexivity. Qed.

(** * C17, Skein-512: state entered 64 bytes below 2^32 with a full block pending, symbolic chaining value *)
Module MSk := CC.Model.Skein.
Definition s_pending : list N := map N.of_nat (seq 0 64).
Definition s_buf : bb := fst (input_lazy (bb_new 64) s_pending).
Example skein512_from_state_across_2_32 : forall prof (x : list N),
  MSk.finish_pieces prof false MSk.skein512
    (MSk.Hs (MSk.St (2 ^ 32 - 64) (N.shiftl Spec.Skein.T_MSG 56 + 0 + 0) x) s_buf) 64 [[1]; [2; 3]]
  = MSk.Ok (Spec.Skein.output Spec.Skein.skein512p
              (Spec.Skein.ubi_from Spec.Skein.skein512p x Spec.Skein.T_MSG (2 ^ 32 - 64) false
                 (s_pending ++ [1; 2; 3])) 64).
Proof.
  intros prof x.
  apply (Props.C17_skein.C17_skein_from_state_eq_spec prof false MSk.skein512 Spec.Skein.skein512p
           ltac:(right; left; split; reflexivity) x (2 ^ 32 - 64) false s_buf [[1]; [2; 3]] 64%nat).
  - split; vm_compute; lia.
  - reflexivity.
  - apply Forall_forall. intros y Hy.
    assert (E : forallb (fun y => y <? 256) (bb_content s_buf) = true) by (vm_compute; reflexivity).
    rewrite forallb_forall in E. apply N.ltb_lt. now apply E.
  - repeat constructor.
  - vm_compute. reflexivity.
Qed.

(** states reached from [default] by hashing have the shape the Skein from-state theorems ask for:
    t.1 = MSG type + FIRST flag (before the first block) resp. MSG type alone, t.0 = bytes compressed *)
Example skein512_reachable_shape :
  match MSk.default MSk.Debug false MSk.skein512 64 with
  | MSk.Ok h0 =>
      MSk.st_t0 (MSk.h_state h0) = 0 /\ MSk.st_t1 (MSk.h_state h0) = N.shiftl Spec.Skein.T_MSG 56 + N.shiftl 1 62 + 0
      /\ match MSk.update MSk.Debug false MSk.skein512 h0 (pb ++ pc) with
         | MSk.Ok h1 => MSk.st_t0 (MSk.h_state h1) = 192 /\ bb_pos (MSk.h_buffer h1) = 2%nat
                        /\ MSk.st_t1 (MSk.h_state h1) = N.shiftl Spec.Skein.T_MSG 56 + 0 + 0
         | MSk.Panic => False end
  | MSk.Panic => False end.
Proof. vm_compute. repeat split; reflexivity. Qed.

(** * C17, JH-256: the (from-new only) theorem applied to three update calls *)
Example jh256_len_exact_inst : forall p,
  exists h, Model.JH.h_updates p (Model.JH.h_default Model.JH.Jh256) [pa; pb; pc] = Some h
         /\ Model.JH.h_datalen h = 197
         /\ Model.JH.h_bitlen p h = Some 1576
         /\ Model.JH.h_finalize p Model.JH.Jh256 h = Some (Spec.JH.jh 256 (pa ++ pb ++ pc)).
Proof.
  intros p.
  destruct (Props.C17_jh.C17_jh_digest_conforms p Model.JH.Jh256 256 [pa; pb; pc]) as (h & A & B & C & D).
  - right. left. split; reflexivity.
  - apply Forall_forall. intros y Hy.
    assert (E : forallb (fun y => y <? 256) (concat [pa; pb; pc]) = true) by (vm_compute; reflexivity).
    rewrite forallb_forall in E. apply N.ltb_lt. now apply E.
  - vm_compute. reflexivity.
  - exists h. repeat split; [exact A|exact B|exact C|].
    rewrite D. cbn [concat]. now rewrite app_nil_r.
Qed.

(** * C17, BLAKE: the missing "from any entered state" conformance theorem

    The development has NO theorem relating [Model.Blake.digest_from] (the model of hook-entered
    states that Run/Blake.v compares with the implementation) to [Spec.Blake.hash_from].  It is
    provable with the development's own lemmas: [finalize_inv] of Proofs/BlakeSchedule.v never
    uses the "compressor = fold from c0" part of [Inv] and uses the block count only through
    [N.of_nat k]; the proof below is that proof with an arbitrary prior block count [K : N]. *)
Module BlakeFromState.
Import ZArith ZifyBool ZifyN.
Import CC.Model.Blake CC.Proofs.BlakeBuffer CC.Proofs.BlakeSchedule CC.Proofs.BlakeRounds CC.Proofs.BlakeMain.
Local Close Scope N_scope.
Ltac Zify.zify_post_hook ::= Z.div_mod_to_equations.

Section FromState.
  Variable v : S.variant.
  Variables (w : N) (wb : nat) (isfull : bool).
  Hypothesis Hcase : (w = 32%N /\ wb = 4) \/ (w = 64%N /\ wb = 8).
  Hypothesis Hw : S.wbits v = w.
  Hypothesis Hwb : S.wbytes v = wb.
  Hypothesis Hmk : S.marker v = (if isfull then 1 else 0)%N.
  Variable H : Type.
  Variable put : H -> list N -> N * N -> H.
  Local Notation bs := (16 * wb).
  Local Notation bsN := (N.of_nat (16 * wb)).
  Local Notation tpair := (BlakeSchedule.tpair w).
  Local Notation putf := (BlakeSchedule.putf w H put).

  Lemma finalize_from (K : N) (c : H) (b : bb) (rest : list N) :
    wfb bs b -> content b = rest ->
    finalize H put w wb isfull (Hasher H c b (tpair (8 * bsN * K))) =
      Some (fold_left putf (S.schedule_from v K rest) c).
  Proof.
    intros W C. cbn [compressor buffer t] in *.
    assert (Hpos : bb_pos b = length rest) by (rewrite <- C; symmetry; apply (content_length bs); exact W).
    assert (Hlt : length rest < bs) by (destruct W; lia).
    assert (Hwb8 : 0 < wb <= 8) by (destruct Hcase as [[_ ->]|[_ ->]]; lia).
    unfold finalize. cbn [compressor buffer t]. 
    rewrite (increase_count_tpair v w wb isfull Hcase Hw Hwb Hmk) by lia.
    replace (8 * bsN * K + 8 * N.of_nat (bb_pos b))%N
      with (8 * (K * bsN + N.of_nat (length rest)))%N by lia.
    set (len := (K * bsN + N.of_nat (length rest))%N).
    cbv zeta. unfold bufsz. rewrite !Hpos.
    replace (be_split wb (snd (tpair (8 * len))) ++ be_split wb (fst (tpair (8 * len))))
      with (be_split (wb + wb) (8 * len))
      by (unfold tpair; cbn [fst snd]; symmetry; apply be_split_pair; lia).
    assert (HP := PADDING_length).
    assert (Emk : forall x : bool, N.lor (if isfull then 1%N else 0%N) (if x then 0%N else 128%N)
                    = if x then S.marker v else (0x80 + S.marker v)%N).
    { intros x. rewrite Hmk. destruct isfull, x; reflexivity. }
    destruct (Nat.ltb_spec bs (length rest + (1 + 2 * wb))) as [Hx|Hx].
    - (* the header does not fit *)
      destruct (input_block_fill bs b (firstn (bs - length rest) PADDING) W) as (b1 & E1 & W1 & C1 & P1).
      { rewrite firstn_length, HP. lia. }
      rewrite E1. cbv beta iota. cbn [fold_left]. rewrite P1.
      change (Nat.eqb 0 0) with true. cbv beta iota.
      rewrite Nat.sub_0_r, (slice_PADDING_1 v w wb isfull Hcase Hw Hwb Hmk) by lia.
      destruct (input_block_small bs b1 (repeat 0%N (bs - (1 + 2 * wb))) W1) as (b2 & E2 & W2 & C2 & P2).
      { rewrite P1, repeat_length. lia. }
      rewrite E2. cbv beta iota.
      match goal with |- context [input_block b2 ?i] =>
        destruct (input_block_small bs b2 i W2) as (b3 & E3 & W3 & C3 & P3) end.
      { cbn [length]. rewrite P2, P1, repeat_length. lia. }
      rewrite E3. cbv beta iota.
      destruct (input_block_fill bs b3 (be_split (wb + wb) (8 * len)) W3) as (b4 & E4 & W4 & C4 & P4).
      { rewrite be_split_length, P3, P2, P1, repeat_length. cbn [length]. lia. }
      rewrite E4. cbv beta iota. rewrite P4. change (Nat.eqb 0 0) with true. cbn [andb fold_left].
      rewrite (sched_final_two v w wb isfull Hcase Hw Hwb) by lia.
      cbn [fold_left]. unfold putf. cbn [fst snd]. rewrite tpair_0. fold len. f_equal. f_equal.
      + f_equal. rewrite C, (firstn_PADDING v w wb isfull Hcase Hw Hwb Hmk) by lia. reflexivity.
      + rewrite C3, C2, C1. cbn [app].
        replace (Nat.eqb (length rest + (1 + 2 * wb)) bs) with false by (symmetry; apply Nat.eqb_neq; lia).
        cbn [negb]. rewrite (Emk true). rewrite <- !app_assoc.
        replace (bs - (1 + 2 * wb)) with (bs - (wb + wb) - 1) by lia. reflexivity.
    - (* the header fits *)
      cbv beta iota. rewrite Hpos.
      assert (Esl : forall q, slice PADDING 0 (0 + q) = firstn q PADDING).
      { intros q. unfold slice. cbn [skipn plus]. now rewrite Nat.sub_0_r. }
      rewrite Esl. set (q := bs - (1 + 2 * wb) - length rest).
      destruct (input_block_small bs b (firstn q PADDING) W) as (b1 & E1 & W1 & C1 & P1).
      { rewrite firstn_length, HP. unfold q. lia. }
      assert (Lq : length (firstn q PADDING) = q) by (rewrite firstn_length, HP; unfold q; lia).
      rewrite E1. cbv beta iota.
      match goal with |- context [input_block b1 ?i] =>
        destruct (input_block_small bs b1 i W1) as (b2 & E2 & W2 & C2 & P2) end.
      { cbn [length]. rewrite P1, Lq. unfold q. lia. }
      rewrite E2. cbv beta iota.
      destruct (input_block_fill bs b2 (be_split (wb + wb) (8 * len)) W2) as (b3 & E3 & W3 & C3 & P3).
      { rewrite be_split_length, P2, P1, Lq. cbn [length]. unfold q. lia. }
      rewrite E3. cbv beta iota. rewrite P3. change (Nat.eqb 0 0) with true. cbn [andb fold_left].
      rewrite (sched_final_one v w wb isfull Hcase Hw Hwb) by lia.
      cbn [fold_left]. unfold putf. cbn [fst snd]. fold len. f_equal.
      replace (tpair (if Nat.eqb (length rest) 0 then 0%N else (8 * len)%N))
        with (if Nat.eqb (length rest) 0 then (0%N, 0%N) else tpair (8 * len))
        by (destruct (Nat.eqb (length rest) 0); [now rewrite tpair_0|reflexivity]).
      f_equal. rewrite C2, C1, C. rewrite <- !app_assoc. f_equal.
      destruct (Nat.eqb_spec (length rest + (1 + 2 * wb)) bs) as [Ef|Ef]; cbn [negb].
      + replace q with 0 by (unfold q; lia).
        replace (bs - length rest - (wb + wb)) with 1 by lia.
        cbn [firstn app seq map]. rewrite (Emk false). reflexivity.
      + rewrite (firstn_PADDING v w wb isfull Hcase Hw Hwb Hmk) by (unfold q; lia).
        rewrite pad_explicit by lia. rewrite (Emk true). cbn [app]. rewrite <- !app_assoc. cbn [app].
        replace (bs - length rest - (wb + wb) - 2) with (q - 1) by (unfold q; lia). reflexivity.
  Qed.



  (** one [update] from an entered state, then [finalize]: the compressor is fed the specified
      schedule continued at block [K] over buffered bytes ++ tail *)
  Theorem update_finalize_from (K : N) (c : H) (b : bb) (buffered tail : list N) :
    wfb bs b -> content b = buffered ->
    finalize H put w wb isfull (update H put w wb (Hasher H c b (tpair (8 * bsN * K))) tail) =
      Some (fold_left putf (S.schedule_from v K (buffered ++ tail)) c).
  Proof.
    intros W C. rewrite update_unfold. cbn [compressor buffer t].
    destruct (input_block_spec bs b tail W) as (b' & E & W' & C'). rewrite E, C in *.
    rewrite (update_fold v w wb isfull Hcase Hw Hwb Hmk).
    set (L := buffered ++ tail) in *. set (n := length L / bs) in *.
    rewrite (finalize_from (K + N.of_nat n) _ b' (skipn (bs * n) L) W' C').
    f_equal.
    rewrite (sched_split v w wb isfull Hcase Hw Hwb Hmk n K L).
    - now rewrite fold_left_app.
    - unfold n. pose proof (bs_pos v w wb isfull Hcase Hw Hwb Hmk). apply Nat.mul_div_le. lia.
  Qed.
End FromState.

(** digest level: [digest_from] (the model of hook-entered states) = [Spec.Blake.hash_from] *)
Section DigestFrom.
  Variable v : SB.variant.
  Variables (w : N) (wb : nat) (isfull : bool).
  Hypothesis Hcase : (w = 32%N /\ wb = 4) \/ (w = 64%N /\ wb = 8).
  Hypothesis Hw : SB.wbits v = w.
  Hypothesis Hwb : SB.wbytes v = wb.
  Hypothesis Hmk : SB.marker v = (if isfull then 1 else 0)%N.
  Variable put : row * row -> list N -> N * N -> row * row.
  Hypothesis put_spec : forall h blk t0 t1, h_shape h -> length blk = 16 * wb ->
    to_list (put h blk (t0, t1)) = SB.compress_v v (to_list h) (SB.block_words v blk) t0 t1
    /\ h_shape (put h blk (t0, t1)).
  Variable outbytes : nat.
  Hypothesis Hout : SB.outbytes v = outbytes.

  Lemma chain_sim_from sched h :
    h_shape h ->
    (forall bt, In bt sched -> length (fst bt) = 16 * wb) ->
    to_list (fold_left (putf w _ put) sched h) = fold_left (SB.chain v) sched (to_list h).
  Proof.
    intros Sh Hl.
    apply (fold_left_sim (fun a b => to_list a = b /\ h_shape a) (putf w _ put) (SB.chain v)).
    - intros a b bt Hin [<- Sa]. unfold putf, SB.chain. rewrite (tpair_spec v w Hw).
      apply put_spec; auto.
    - split; [reflexivity|exact Sh].
  Qed.

  Theorem digest_from_eq_spec (h : row * row) (K : N) (buffered tail : list N) :
    h_shape h -> length buffered < 16 * wb ->
    digest_from put w wb isfull outbytes h
      (fst (tpair w (8 * N.of_nat (16 * wb) * K))) (snd (tpair w (8 * N.of_nat (16 * wb) * K))) buffered tail
    = Some (SB.hash_from v (to_list h) K (buffered ++ tail)).
  Proof.
    intros Sh Hlen. unfold digest_from.
    assert (Hbs : 0 < 16 * wb) by (destruct Hcase as [[_ ->]|[_ ->]]; lia).
    destruct (wfb_new (16 * wb) Hbs) as [W0 C0].
    destruct (input_block_small (16 * wb) (bb_new (16 * wb)) buffered W0) as (b & E & W & C & _).
    { unfold bb_new. cbn [bb_pos]. lia. }
    rewrite E. cbn [fst]. rewrite C0 in C. cbn [app] in C.
    rewrite <- surjective_pairing.
    rewrite (update_finalize_from v w wb isfull Hcase Hw Hwb Hmk _ put K h b buffered tail W C).
    f_equal. unfold SB.hash_from, SB.output.
    rewrite <- chain_sim_from; [| exact Sh |].
    - rewrite <- Hwb, Hout. unfold compressor_finalize, to_list. now rewrite flat_map_app.
    - intros bt Hin. apply schedule_block_length in Hin.
      + rewrite Hin. unfold SB.block_bytes. now rewrite Hwb.
      + unfold SB.block_bytes. now rewrite Hwb.
  Qed.
End DigestFrom.

Theorem blake256_from_state_eq_spec h K buffered tail :
  h_shape h -> length buffered < 64 ->
  digest_from put_block32 32 4 true 32 h (fst (tpair 32 (512 * K))) (snd (tpair 32 (512 * K))) buffered tail
  = Some (SB.hash_from SB.blake256 (to_list h) K (buffered ++ tail)).
Proof.
  intros Sh Hl.
  apply (digest_from_eq_spec SB.blake256 32 4 true (or_introl (conj eq_refl eq_refl)) eq_refl eq_refl eq_refl
           put_block32); auto.
  intros h0 blk t0 t1 S0 L0. apply put_block32_eq_spec; auto.
Qed.


Theorem blake224_from_state_eq_spec h K buffered tail :
  h_shape h -> length buffered < 64 ->
  digest_from put_block32 32 4 false 28 h (fst (tpair 32 (512 * K))) (snd (tpair 32 (512 * K))) buffered tail
  = Some (SB.hash_from SB.blake224 (to_list h) K (buffered ++ tail)).
Proof.
  intros Sh Hl.
  apply (digest_from_eq_spec SB.blake224 32 4 false (or_introl (conj eq_refl eq_refl)) eq_refl eq_refl eq_refl
           put_block32); auto.
  intros h0 blk t0 t1 S0 L0. apply put_block32_eq_spec; auto.
Qed.
Theorem blake512_from_state_eq_spec h K buffered tail :
  h_shape h -> length buffered < 128 ->
  digest_from put_block64 64 8 true 64 h (fst (tpair 64 (1024 * K))) (snd (tpair 64 (1024 * K))) buffered tail
  = Some (SB.hash_from SB.blake512 (to_list h) K (buffered ++ tail)).
Proof.
  intros Sh Hl.
  apply (digest_from_eq_spec SB.blake512 64 8 true (or_intror (conj eq_refl eq_refl)) eq_refl eq_refl eq_refl
           put_block64); auto.
  intros h0 blk t0 t1 S0 L0. apply put_block64_eq_spec; auto.
Qed.
Theorem blake384_from_state_eq_spec h K buffered tail :
  h_shape h -> length buffered < 128 ->
  digest_from put_block64 64 8 false 48 h (fst (tpair 64 (1024 * K))) (snd (tpair 64 (1024 * K))) buffered tail
  = Some (SB.hash_from SB.blake384 (to_list h) K (buffered ++ tail)).
Proof.
  intros Sh Hl.
  apply (digest_from_eq_spec SB.blake384 64 8 false (or_intror (conj eq_refl eq_refl)) eq_refl eq_refl eq_refl
           put_block64); auto.
  intros h0 blk t0 t1 S0 L0. apply put_block64_eq_spec; auto.
Qed.

Local Open Scope N_scope.
(** instances with SYMBOLIC chaining value: BLAKE-256 entered one block below 2^32 bits and one block
    above; BLAKE-512 entered one block below the 2^64-bit low-word carry *)
Example blake256_from_state_below_2_32 : forall h, h_shape h ->
  digest_from put_block32 32 4 true 32 h (2 ^ 32 - 512) 0 g_buffered g_tail
  = Some (SB.hash_from SB.blake256 (to_list h) (2 ^ 23 - 1) (g_buffered ++ g_tail)).
Proof. intros h Sh. apply (blake256_from_state_eq_spec h (2 ^ 23 - 1) g_buffered g_tail Sh). cbn. lia. Qed.
Example blake256_from_state_above_2_32 : forall h, h_shape h ->
  digest_from put_block32 32 4 true 32 h 512 1 g_buffered g_tail
  = Some (SB.hash_from SB.blake256 (to_list h) (2 ^ 23 + 1) (g_buffered ++ g_tail)).
Proof. intros h Sh. apply (blake256_from_state_eq_spec h (2 ^ 23 + 1) g_buffered g_tail Sh). cbn. lia. Qed.
Example blake512_from_state_below_2_64 : forall h, h_shape h ->
  digest_from put_block64 64 8 true 64 h (2 ^ 64 - 1024) 7 g_buffered (g_tail ++ g_tail)
  = Some (SB.hash_from SB.blake512 (to_list h) (7 * 2 ^ 54 + 2 ^ 54 - 1) (g_buffered ++ g_tail ++ g_tail)).
Proof.
  intros h Sh. apply (blake512_from_state_eq_spec h (7 * 2 ^ 54 + 2 ^ 54 - 1) g_buffered (g_tail ++ g_tail) Sh).
  cbn. lia.
Qed.

(** states reached from [new] by hashing satisfy the hypotheses of the from-state theorem:
    the counter is [tpair (512 * blocks)] and the chaining value has the shape [h_shape] *)
Lemma full_sched_block_length (wbb n : nat) : forall (k : N) (L : list N), (16 * wbb * n <= length L)%nat ->
  forall bt, In bt (full_sched wbb k n L) -> length (fst bt) = (16 * wbb)%nat.
Proof.
  induction n as [|n IH]; intros k L Hl bt Hin; cbn [full_sched] in Hin; [contradiction|].
  destruct Hin as [<-|Hin].
  - cbn [fst]. rewrite firstn_length. lia.
  - apply (IH (k + 1) (skipn (16 * wbb) L)); [rewrite skipn_length; lia|exact Hin].
Qed.

Lemma blake256_reachable_shape parts :
  let s := fold_left (update (row * row) put_block32 32 4) parts (new (row * row) 4 BLAKE256_IV) in
  let m := concat parts in
  t _ s = tpair 32 (512 * N.of_nat (length m / 64))
  /\ h_shape (compressor _ s)
  /\ wfb 64 (buffer _ s) /\ content (buffer _ s) = skipn (64 * (length m / 64)) m.
Proof.
  cbv zeta.
  pose proof (BlakeCounter.reachable_inv 32 4 (or_introl (conj eq_refl eq_refl)) _ put_block32 BLAKE256_IV parts)
    as (Hc & Ht & W & C).
  split; [exact Ht|]. split; [|split; [exact W|exact C]].
  rewrite Hc.
  refine (fold_left_sim (fun a (_ : unit) => h_shape a) (putf 32 _ put_block32) (fun u _ => u) _ _ BLAKE256_IV tt _).
  - intros a b bt Hin Sa. unfold putf.
    destruct (tpair 32 (snd bt)) as [t0 t1].
    apply (put_block32_eq_spec SB.blake256); [now right|exact Sa|].
    apply (full_sched_block_length 4 _ _ _ (Nat.mul_div_le (length (concat parts)) 64 ltac:(lia)) bt Hin).
  - split; reflexivity.
Qed.
End BlakeFromState.
