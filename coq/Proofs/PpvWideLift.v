(** C12/C13, x86 wide types (work package ppv-wide): the flat byte image of an x2/x4 value is
    the concatenation of its registers; a lane theorem about the one-register operation lifts
    to the flat word view of the wide value. Everything here is generic in the element
    operation; the instances are Proofs/PpvWideSse.v, PpvWideAvx2.v. *)
From Coq Require Import NArith List Lia Bool Arith.
From CC Require Import Lib.Words Lib.Bytes Lib.ListX Model.Intrinsics Model.PpvSse Spec.Lanes
  Proofs.IntrinsicsLemmas.
From CC Require Proofs.PpvSoftFwd.
Import ListNotations.
Local Open Scope N_scope.

(** a value of [x2<W,_>] ([n] = 2) / [x4<W>] ([n] = 4) whose element [W] is one [m]-byte
    register: the list of its [n] registers, element 0 first (= memory order);
    its byte image is [concat v] *)
Definition widem (m n : nat) (v : list reg) : Prop := length v = n /\ Forall (wf m) v.
(** elements are 128-bit registers (all SSE-family wide types; on AVX2 all but u32x4x4) *)
Definition wide16 : nat -> list reg -> Prop := widem 16.
(** elements are 256-bit registers (u32x4x4_avx2 = x2<u32x4x2_avx2, G0>) *)
Definition wide32 : nat -> list reg -> Prop := widem 32.

Lemma bytes_le_concat k (ws : list (list N)) : bytes_le k (concat ws) = concat (map (bytes_le k) ws).
Proof.
  unfold bytes_le. induction ws as [|w ws IH]; [reflexivity|].
  cbn [concat map]. now rewrite flat_map_app, IH.
Qed.

Lemma bytes_le_app k (a b : list N) : bytes_le k (a ++ b) = bytes_le k a ++ bytes_le k b.
Proof. unfold bytes_le. apply flat_map_app. Qed.

Lemma Forall_concat' {A} (P : A -> Prop) ls : Forall (Forall P) ls -> Forall P (concat ls).
Proof. induction 1; cbn [concat]; [constructor|]. apply Forall_app. now split. Qed.

Section Flat.
  Variables (k m : nat).
  Hypothesis Hk : (0 < k)%nat.
  Hypothesis Hm : (m mod k = 0)%nat.

  Lemma concat_as_words v : Forall (wf m) v ->
    concat v = bytes_le k (concat (map (words_le k) v)) /\
    Forall (is_wordk k) (concat (map (words_le k) v)).
  Proof.
    intros F. split.
    - rewrite bytes_le_concat, map_map. f_equal.
      induction F as [|x v Hx _ IH]; [reflexivity|]. cbn [map]. rewrite <- IH. f_equal.
      exact (proj1 (wf_words k m x Hk Hm Hx)).
    - apply Forall_concat'. induction F as [|x v Hx _ IH]; cbn [map]; constructor; [|exact IH].
      exact (proj1 (proj2 (wf_words k m x Hk Hm Hx))).
  Qed.

  (** the word view of the image is the concatenation of the registers' word views *)
  Lemma words_le_concat v : Forall (wf m) v ->
    words_le k (concat v) = concat (map (words_le k) v).
  Proof.
    intros F. destruct (concat_as_words v F) as [E W].
    rewrite E at 1. now apply words_bytes_le.
  Qed.
  Lemma words_le_cons x v : wf m x -> Forall (wf m) v ->
    words_le k (x ++ concat v) = words_le k x ++ words_le k (concat v).
  Proof.
    intros Hx F. change (x ++ concat v) with (concat (x :: v)).
    rewrite words_le_concat by now constructor. cbn [map concat]. now rewrite words_le_concat.
  Qed.
  Lemma words_len x : wf m x -> length (words_le k x) = (m / k)%nat.
  Proof. intros Hx. exact (proj2 (proj2 (wf_words k m x Hk Hm Hx))). Qed.

  (** [fwd_unop]: the element operation is [gw] on every word  =>  so is the wide operation *)
  Lemma lift_unop (f : reg -> reg) (gw : N -> N) :
    (forall x, wf m x -> f x = bytes_le k (map gw (words_le k x))) ->
    forall v, Forall (wf m) v ->
    concat (xn_unop f v) = bytes_le k (map gw (words_le k (concat v))).
  Proof.
    intros H v F. rewrite words_le_concat by exact F. unfold xn_unop.
    rewrite concat_map, bytes_le_concat, !map_map. f_equal.
    induction F as [|x v Hx _ IH]; [reflexivity|]. cbn [map]. now rewrite IH, H.
  Qed.
  (** [fwd_binop]: the element operation is [gw] on every pair of words  =>  so is the wide one *)
  Lemma lift_binop (f : reg -> reg -> reg) (gw : N -> N -> N) :
    (forall x y, wf m x -> wf m y ->
       f x y = bytes_le k (map2 gw (words_le k x) (words_le k y))) ->
    forall a b, length a = length b -> Forall (wf m) a -> Forall (wf m) b ->
    concat (xn_binop f a b) = bytes_le k (map2 gw (words_le k (concat a)) (words_le k (concat b))).
  Proof.
    intros H a b L Fa. revert b L. unfold xn_binop.
    induction Fa as [|x a Hx Fa IH]; intros [|y b] L Fb; try discriminate; [reflexivity|].
    inversion Fb as [|? ? Hy Fb']; subst. cbn [map2 concat].
    rewrite !words_le_cons by assumption.
    rewrite IntrinsicsLemmas.map2_app by (now rewrite !words_len).
    rewrite bytes_le_app, (IH b) by (try assumption; now injection L). now rewrite H.
  Qed.

  (** result well-formed *)
  Lemma lift_wf (f : reg -> reg) : (forall x, wf m x -> wf m (f x)) ->
    forall v, Forall (wf m) v -> Forall (wf m) (xn_unop f v).
  Proof.
    intros H v F. unfold xn_unop. induction F; cbn [map]; constructor; auto.
  Qed.
End Flat.

Lemma wf_image m n v : widem m n v -> wf (m * n) (concat v).
Proof.
  intros [L F]. subst n. split.
  - induction F as [|x v [Hx _] _ IH]; [cbn; lia|]. cbn [concat length]. rewrite app_length, IH, Hx. lia.
  - apply Forall_concat'. eapply Forall_impl; [|exact F]. now intros x [_ Hb].
Qed.

(** LaneWords4 of x2/x4 over u32x4 registers: the named permutation inside each 4-word lane *)
Lemma per_lane4_words (p : list N -> list N) v : Forall (wf 16) v ->
  per_lane4 p (words_le 4 (concat v)) = concat (map (fun x => p (words_le 4 x)) v).
Proof.
  intros F. rewrite (words_le_concat 4 16) by (try exact F; lia || reflexivity).
  rewrite PpvSoftFwd.per_lane4_concat, map_map; [reflexivity|].
  induction F as [|x v Hx _ IH]; cbn [map]; constructor; [|exact IH].
  now rewrite (words_len 4 16) by (try exact Hx; lia || reflexivity).
Qed.
Lemma lift_lane_shuffle (f : reg -> reg) (p : list N -> list N) :
  (forall x, wf 16 x -> f x = bytes_le 4 (p (words_le 4 x))) ->
  forall v, Forall (wf 16) v ->
  concat (xn_unop f v) = bytes_le 4 (per_lane4 p (words_le 4 (concat v))).
Proof.
  intros H v F. rewrite per_lane4_words by exact F. unfold xn_unop.
  rewrite bytes_le_concat, map_map. f_equal.
  induction F as [|x v Hx _ IH]; [reflexivity|]. cbn [map]. now rewrite IH, H.
Qed.

(** a 32-byte register is its two 16-byte halves *)
Definition halves (x : reg) : list reg := [firstn 16 x; skipn 16 x].
Lemma halves_wf x : wf 32 x -> Forall (wf 16) (halves x) /\ concat (halves x) = x.
Proof.
  intros [L B]. split.
  - repeat constructor.
    + rewrite firstn_length. lia. + now apply Forall_firstn'.
    + rewrite skipn_length. lia. + now apply Forall_skipn'.
  - cbn [halves concat]. rewrite app_nil_r. apply firstn_skipn.
Qed.
Lemma flat_halves v : Forall (wf 32) v ->
  Forall (wf 16) (flat_map halves v) /\ concat (flat_map halves v) = concat v.
Proof.
  induction 1 as [|x v Hx _ [IH1 IH2]]; [split; [constructor|reflexivity]|].
  destruct (halves_wf x Hx) as [H1 H2]. cbn [flat_map]. split.
  - apply Forall_app. now split.
  - rewrite concat_app, H2, IH2. reflexivity.
Qed.
(** LaneWords4 of x2 over 256-bit registers *)
Lemma lift_lane_shuffle32 (f : reg -> reg) (p : list N -> list N) :
  (forall x, wf 32 x -> f x = bytes_le 4 (per_lane4 p (words_le 4 x))) ->
  forall v, Forall (wf 32) v ->
  concat (xn_unop f v) = bytes_le 4 (per_lane4 p (words_le 4 (concat v))).
Proof.
  intros H v F. destruct (flat_halves v F) as [F16 E]. rewrite <- E.
  rewrite per_lane4_words by exact F16. unfold xn_unop.
  rewrite bytes_le_concat, map_map. clear F16 E.
  induction F as [|x v Hx _ IH]; [reflexivity|].
  cbn [map flat_map concat]. rewrite map_app, concat_app, IH, H by exact Hx. f_equal.
  destruct (halves_wf x Hx) as [H16 Ex]. rewrite <- Ex at 1.
  rewrite per_lane4_words by exact H16. now rewrite bytes_le_concat, map_map.
Qed.
