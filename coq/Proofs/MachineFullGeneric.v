(** C03, machine-framing: the extended Machine of the portable back end, [generic_xm p] over
    [generic_m p] (Proofs/MachineInstGeneric.v), for each build profile [p], from the outcome-typed
    models Model/PpvGeneric.v / PpvSoft.v: [unpack]/[into] through the [vec128_storage] union
    ([unpack128]/[into128]; the 256/512-bit storages are arrays of 2/4 [vec128_storage], here
    the concatenation of their byte images), [Vec4<u32>::extract/insert] (array indexing),
    [StoreBytes] through zerocopy, the soft.rs [x2]/[x4] wrappers for the wide types, a raw
    little-endian read for [ptr::read_unaligned] of [u128x1_generic([u128; 1])]. Every field is
    the model call projected out of its outcome ([gunwrap]); the C12g/C13g theorems show the
    call returns on well-formed operands and give the lane meaning. *)
From Coq Require Import NArith List Bool Lia Arith.
From CC Require Import Lib.Words Lib.Bytes Lib.ListX Spec.Lanes Model.PpvSoft Model.PpvGeneric.
From CC Require Import Model.Machine Model.MachineFull.
From CC Require Import Proofs.Machine Proofs.MachineBytes Proofs.MachineInstLib.
From CC Require Import Proofs.PpvGenericLib Proofs.PpvGenericOps Proofs.PpvSoftFwd
  Proofs.PpvGenericWide Proofs.PpvGenericMove Proofs.PpvGenericBytes.
From CC Require Import Proofs.MachineInstGeneric Proofs.MachineFullLib.
Import ListNotations.
Local Open Scope N_scope.

(** [ptr::read_unaligned(p as *const u128x1_generic)]: [[u128; 1]] read from 16 bytes (little-endian host) *)
Definition g_read_unaligned (bs : list N) : list N := [le_join bs].

Lemma ok_of (o : outcome (list N)) v : o = Ok v -> gunwrap [] o = v.
Proof. intros ->. reflexivity. Qed.
Lemma ok_of' {A} (d : A) (o : outcome A) v : o = Ok v -> gunwrap d o = v.
Proof. intros ->. reflexivity. Qed.

Lemma wfb_ok st : bytes_ok 16 st <-> wfb st.
Proof. split; intros H; exact H. Qed.

Section Generic.
  Variable p : profile.

  (** * u32x4_generic *)
  Definition g_nops : nops (g_u32x4_vops p) :=
    NOps (g_u32x4_vops p)
         (fun st => gunwrap [] (unpack128 p U32x4 st))
         (fun a => gunwrap [] (into128 p U32x4 a))
         (fun a i => gunwrap 0 (g_extract a i))
         (fun a v i => gunwrap [] (g_insert a v i))
         (fun a => gunwrap [] (g_write_le p U32x4 a 16))
         (fun a => gunwrap [] (g_write_be p U32x4 a 16))
         (fun bs => gunwrap [] (g_read_le p U32x4 bs)).

  Lemma hb32 : has_bytes U32x4. Proof. left; reflexivity. Qed.
  Lemma hb64 : has_bytes U64x2. Proof. right; reflexivity. Qed.

  Lemma g_nops_refines : nops_refines _ g_nops.
  Proof.
    constructor; unfold rel;
      cbn [g_u32x4_vops v_wf v_rep g_nops v4_unpack v4_into v4_extract v4_insert v4_write_le v4_write_be v4_read_le];
      unfold g_to_lanes.
    - intros a Wa. exact Wa.
    - intros st Hst. rewrite (unpack128_words p U32x4 st Hst). cbn [gunwrap vt_k].
      split; [apply (bytes16_words4 st Hst) | reflexivity].
    - intros a Wa. rewrite (into128_img p U32x4 a Wa). reflexivity.
    - intros a i Wa Hi. unfold g_extract. rewrite index_ok; [reflexivity|].
      rewrite (proj1 Wa). exact Hi.
    - intros a v i Wa Hv Hi. unfold g_insert. rewrite store_ok by (rewrite (proj1 Wa); exact Hi).
      cbn [gunwrap]. split; [apply ok_upd; assumption | reflexivity].
    - intros a Wa. rewrite (g_write_le_spec p U32x4 hb32 a Wa). reflexivity.
    - intros a Wa. rewrite (g_write_be_spec p U32x4 hb32 a Wa). reflexivity.
    - intros bs Hbs. rewrite (g_read_le_spec p U32x4 hb32 bs Hbs). cbn [gunwrap vt_k].
      split; [apply (bytes16_words4 bs Hbs) | reflexivity].
  Qed.

  (** * u64x2_generic and u64x2x4_generic = x4<u64x2_generic> *)
  Definition g_dops : dops :=
    DOps (list N) (wfv U64x2) g_to_lanes g_from_lanes
         (fun st => gunwrap [] (unpack128 p U64x2 st))
         (fun a => gunwrap [] (into128 p U64x2 a))
         (e_add p U64x2)
         (list (list N)) (lwf (wfv U64x2) 4) (lrep (fun x : list N => x))
         (fun a b c d => xn_from_lanes [a; b; c; d])
         (fun a b => gunwrap [] (x4_binop [] (g_binop p U64x2 OAdd) a b))
         (fun v => concat (gunwrap [] (x4_into [] (into128 p U64x2) v))).

  Lemma e_add64_rel a b : wfv U64x2 a -> wfv U64x2 b ->
    wfv U64x2 (e_add p U64x2 a b) /\ e_add p U64x2 a b = map2 (addw 64) a b.
  Proof.
    intros Wa Wb. rewrite (proj2 (e_add_ok p U64x2 a b Wa Wb)).
    split; [apply (ok_add 8 2); assumption | reflexivity].
  Qed.

  Lemma lrep_id4 (a b c d : list N) : lrep (fun x : list N => x) [a; b; c; d] = a ++ b ++ c ++ d.
  Proof. unfold lrep. cbn [map concat]. now rewrite app_nil_r. Qed.
  Lemma lrep_id (v : list (list N)) : lrep (fun x : list N => x) v = concat v.
  Proof. unfold lrep. now rewrite map_id. Qed.

  Lemma g_dops_refines : dops_refines g_dops.
  Proof.
    constructor;
      cbn [g_dops d2_wf d2_rep d2_vec d2_unpack d2_into d2_add d8_wf d8_rep d8_from_lanes d8_add d8_into];
      unfold g_to_lanes, g_from_lanes.
    - intros a Wa. exact Wa.
    - intros l Hl. split; [exact Hl | reflexivity].
    - intros st Hst. rewrite (unpack128_words p U64x2 st Hst). cbn [gunwrap vt_k].
      split; [apply (bytes16_words2 st Hst) | reflexivity].
    - intros a Wa. rewrite (into128_img p U64x2 a Wa). reflexivity.
    - exact e_add64_rel.
    - intros v [Hl Hf]. explode v. inv_fa. rewrite lrep_id4.
      apply (ok_app 64 2 6); [assumption|]. apply (ok_app 64 2 4); [assumption|]. now apply (ok_app 64 2 2).
    - intros a b c d Wa Wb Wc Wd. unfold xn_from_lanes. split; [split; [reflexivity | fa] | apply lrep_id4].
    - intros a b [La Fa] [Lb Fb].
      rewrite (x4_binop_forwards [] (wfv U64x2) _ (e_add p U64x2));
        [| intros x y Wx Wy; apply (e_add_ok p U64x2 x y Wx Wy) | assumption ..]. cbn [gunwrap].
      apply (lift_bin (wfv U64x2) (fun x : list N => x) 2 4 (fun x Wx => proj1 Wx) (e_add p U64x2) (addw 64) e_add64_rel);
        split; assumption.
    - intros v Wv. destruct (wide_storage_roundtrip p U64x2 4 v (or_intror eq_refl) Wv) as [E _].
      cbn [Nat.eqb] in E. rewrite E. cbn [gunwrap]. rewrite lrep_id.
      change (img U64x2) with (bytes_le 8). symmetry. apply bytes_le_concat.
  Qed.

  (** * u32x4x4_generic = x4<u32x4_generic> *)
  Definition g_wops : wops (g_u32x4_vops p) (g_u32x4x4_vops p) :=
    WOps (g_u32x4_vops p) (g_u32x4x4_vops p)
         (fun a b c d => xn_from_lanes [a; b; c; d])
         (fun v => let l := xn_to_lanes v in (nth 0 l [], nth 1 l [], nth 2 l [], nth 3 l []))
         (fun st => gunwrap [] (x4_unpack [] (unpack128 p U32x4) (split128 (chunk 16 4 st))))
         (x4_transpose4 [])
         (fun v => gunwrap [] (x4_write [] (g_write_le p U32x4) v 64)).

  Lemma chunk16_words4 W : length W = 16%nat -> chunk 16 4 (bytes_le 4 W) = map st_of_d (chunk 4 4 W).
  Proof. intros L. explode W. reflexivity. Qed.

  Lemma g_wops_refines : wops_refines _ _ g_wops.
  Proof.
    pose proof (g_u32x4x4_refines p) as R16.
    constructor; unfold rel;
      cbn [g_u32x4_vops g_u32x4x4_vops prod_vops v_wf v_rep g_wops v16_from_lanes v16_to_lanes v16_unpack
           v16_transpose4 v16_write_le]; unfold g_to_lanes.
    - intros v [Hl Hf]. explode v. inv_fa. rewrite lrep_id4.
      apply (ok_app 32 4 12); [assumption|]. apply (ok_app 32 4 8); [assumption|]. now apply (ok_app 32 4 4).
    - intros a b c d Wa Wb Wc Wd. unfold xn_from_lanes. split; [split; [reflexivity | fa] | apply lrep_id4].
    - intros v [Hl Hf]. explode v. inv_fa.
      unfold xn_to_lanes, t4_0, t4_1, t4_2, t4_3. cbn [fst snd nth]. rewrite lrep_id4.
      match goal with |- context [lane4 0 (?a ++ ?b ++ ?c ++ ?d)] =>
        destruct (lane4_app4 a b c d) as (E0 & E1 & E2 & E3);
          try (match goal with H : wfv U32x4 ?x |- length ?x = _ => exact (proj1 H) end) end.
      rewrite E0, E1, E2, E3. split; [|split; [|split]]; (split; [assumption | reflexivity]).
    - intros st Hst. destruct (bytes64_words16 st Hst) as [W E].
      pose proof (r_vec _ _ _ _ R16 _ W) as V. unfold rel in V.
      cbn [g_u32x4x4_vops g_u32x4_vops prod_vops v_wf v_rep v_vec] in V. unfold g_to_lanes, new128 in V.
      rewrite <- (chunk16_words4 _ (proj1 W)), E in V. exact V.
    - intros a b c d [La Fa] [Lb Fb] [Lc Fc] [Ld Fd]. explode a. explode b. explode c. explode d. inv_fa.
      cbv zeta. unfold x4_transpose4, l_transpose4, t4_0, t4_1, t4_2, t4_3. cbn [fst snd nth]. rewrite !lrep_id4.
      repeat match goal with |- context [lane4 _ (?a ++ ?b ++ ?c ++ ?d)] =>
        let E0 := fresh "E" in let E1 := fresh "E" in let E2 := fresh "E" in let E3 := fresh "E" in
        destruct (lane4_app4 a b c d) as (E0 & E1 & E2 & E3);
          try (match goal with H : wfv U32x4 ?x |- length ?x = _ => exact (proj1 H) end);
          rewrite E0, E1, E2, E3; clear E0 E1 E2 E3 end.
      split; [|split; [|split]]; (split; [split; [reflexivity | fa] | reflexivity]).
    - intros v Wv. destruct (wide_write_spec p U32x4 4 v hb32 (or_intror eq_refl) Wv) as [E _].
      cbn [Nat.eqb] in E. rewrite E. cbn [gunwrap vt_k]. now rewrite lrep_id.
  Qed.

  (** * u64x4_generic = x2<u64x2_generic, G1> *)
  Definition g_hops : hops (g_u64x4_vops p) :=
    HOps (g_u64x4_vops p)
         (fun st => gunwrap [] (x2_unpack [] (unpack128 p U64x2) (split128 (chunk 16 2 st))))
         (fun v => concat (gunwrap [] (x2_into [] (into128 p U64x2) v)))
         (fun v => gunwrap [] (x2_write [] (g_write_be p U64x2) v 32)).

  Lemma chunk16_words2 W : length W = 4%nat ->
    chunk 16 2 (bytes_le 8 W) = map (img U64x2) [[nth 0 W 0; nth 1 W 0]; [nth 2 W 0; nth 3 W 0]].
  Proof. intros L. explode W. reflexivity. Qed.

  Lemma g_hops_refines : hops_refines _ g_hops.
  Proof.
    constructor; unfold rel; cbn [g_u64x4_vops v_wf v_rep g_hops d4_unpack d4_into d4_write_be].
    - intros v Wv. destruct (u64x4_to_from_lanes v Wv) as [_ ->].
      destruct Wv as [Hl Hf]. explode v. inv_fa. cbn [concat]. rewrite app_nil_r. now apply (ok_app 64 2 2).
    - intros st Hst. destruct (bytes32_words4 st Hst) as [[WL WF] E].
      set (W := words_le 8 st) in *. clearbody W. subst st. rewrite (chunk16_words2 _ WL).
      explode W. inv_fa.
      assert (Wv : wide U64x2 2 [[n; n0]; [n1; n2]]).
      { split; [reflexivity|]. repeat (apply Forall_cons; [split; [reflexivity | cbn [vt_w]; fa]|]). apply Forall_nil. }
      destruct (wide_storage_roundtrip p U64x2 2 _ (or_introl eq_refl) Wv) as [_ E2].
      cbn [Nat.eqb nth] in E2 |- *. unfold new128 in E2. rewrite E2. cbn [gunwrap].
      split; [exact Wv | reflexivity].
    - intros v Wv. destruct (wide_storage_roundtrip p U64x2 2 v (or_introl eq_refl) Wv) as [E _].
      cbn [Nat.eqb] in E. rewrite E. cbn [gunwrap]. destruct (u64x4_to_from_lanes v Wv) as [_ ->].
      change (img U64x2) with (bytes_le 8). symmetry. apply bytes_le_concat.
    - intros v Wv. destruct (wide_write_spec p U64x2 2 v hb64 (or_introl eq_refl) Wv) as [_ E].
      cbn [Nat.eqb] in E. rewrite E. cbn [gunwrap vt_k]. now destruct (u64x4_to_from_lanes v Wv) as [_ ->].
  Qed.

  (** * u128x1_generic *)
  Definition g_uops : uops (g_jops p) :=
    UOps (g_jops p)
         (fun st => gunwrap [] (unpack128 p U128x1 st))
         g_read_unaligned
         (fun a => gunwrap [] (into128 p U128x1 a)).

  Lemma g_uops_refines : uops_refines _ g_uops.
  Proof.
    constructor; unfold jrel1; cbn [g_jops j_wf1 j_rep1 g_uops o1_unpack o1_read o1_into].
    - intros a Wa. apply wfv1_inv in Wa. destruct Wa as (x & -> & Hx). exact Hx.
    - intros st Hst. rewrite (unpack128_words p U128x1 st Hst). cbn [gunwrap vt_k].
      rewrite words16 by apply Hst. split; [apply wfv1, le_join_lt16, Hst | reflexivity].
    - intros st Hst. unfold g_read_unaligned. split; [apply wfv1, le_join_lt16, Hst | reflexivity].
    - intros a Wa. rewrite (into128_img p U128x1 a Wa). cbn [gunwrap].
      apply wfv1_inv in Wa. destruct Wa as (x & -> & Hx). unfold img, grep1. cbn [vt_k nth].
      apply bytes_le16_single.
  Qed.

  (** * the extended machine *)
  Definition generic_xm : xmachine := XMachine (generic_m p) g_nops g_dops g_wops g_hops g_uops.

  Theorem generic_xm_refines : xmachine_refines generic_xm.
  Proof.
    constructor; cbn [generic_xm xm_base xm_n xm_d xm_w xm_h xm_u].
    - apply generic_m_refines.
    - apply g_nops_refines.
    - apply g_dops_refines.
    - apply g_wops_refines.
    - apply g_hops_refines.
    - apply g_uops_refines.
  Qed.
End Generic.

Example generic_xm_is_concrete :
  v16_unpack (xm_w (generic_xm Debug)) (bytes_le 4 [0; 1; 2; 3; 4; 5; 6; 7; 8; 9; 10; 11; 12; 13; 14; 15])
    = [[0; 1; 2; 3]; [4; 5; 6; 7]; [8; 9; 10; 11]; [12; 13; 14; 15]] /\
  d4_into (xm_h (generic_xm Release)) [[1; 2]; [3; 4]] = bytes_le 8 [1; 2; 3; 4] /\
  o1_into (xm_u (generic_xm Debug)) (o1_read (xm_u (generic_xm Debug)) (le_split 16 (2 ^ 100 + 5))) = le_split 16 (2 ^ 100 + 5).
Proof. vm_compute. repeat split; reflexivity. Qed.

Print Assumptions generic_xm_refines.
