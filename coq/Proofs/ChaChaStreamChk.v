(** The profile-explicit wrapper model (Model/ChaChaStreamChk.v) takes none of its
    overflow-check panic branches, in either build profile, on any state the wrapper can
    reach - and is then equal to Model/ChaChaStream.v (audit finding C02-F1).

    Operation level (no hypothesis on the block producers at all):
      [lazy_fill_chk_eq], [apply_body_chk_eq], [try_apply_chk_eq]   need only: [have] is an i8,
                                                                   the slice length is a usize
      [try_seek_chk_eq]                                             unconditional
      [try_current_pos_chk_eq]                                      needs [len <= total] when not fresh
                                                                   (the one place where the invariant matters)
    History level: [run_chk_eq] from every reachable state, [m_run_chk_eq] /
    [m_run_chk_no_panic] for the seven cipher types with the real producers.
    [chk_live_*]: the new branches are live on UNreachable states (the checks are not vacuous),
    and debug / release really differ there. *)
From Coq Require Import NArith ZArith List Lia Arith Bool ZifyBool ZifyN ZifyNat.
From CC Require Import Lib.Words Lib.Bytes Lib.ListX Model.ChaChaGuts Model.ChaChaStream Model.ChaChaStreamChk.
From CC Require Import Proofs.ChaChaStreamCtr Proofs.ChaChaStreamLoops Proofs.ChaChaStreamBody
  Proofs.ChaChaStreamSpec Proofs.ChaChaStreamSeek Proofs.ChaChaStreamInv Proofs.ChaChaStreamHist
  Proofs.ChaChaStreamMain Proofs.ChaChaStreamReal.
Import ListNotations.
Ltac Zify.zify_post_hook ::= Z.div_mod_to_equations.
Local Open Scope N_scope.

(** * the checked operation and the casts on in-range values *)
Lemma chk_in prof t x : in_ity t x = true -> chk prof t x = Some x.
Proof. unfold chk. intros ->. reflexivity. Qed.

Lemma chk_i8 prof x : (-128 <= x <= 127)%Z -> chk prof I8 x = Some x.
Proof.
  intros H. apply chk_in. unfold in_ity.
  change (ity_min I8) with (-128)%Z. change (ity_max I8) with 127%Z. lia.
Qed.

Lemma chk_u64 prof x : (0 <= x < 2 ^ 64)%Z -> chk prof U64 x = Some x.
Proof.
  intros H. apply chk_in. unfold in_ity.
  change (ity_min U64) with 0%Z. change (ity_max U64) with (2 ^ 64 - 1)%Z. lia.
Qed.

Lemma chk_usize prof x : (0 <= x < 2 ^ 64)%Z -> chk prof USize x = Some x.
Proof.
  intros H. apply chk_in. unfold in_ity.
  change (ity_min USize) with 0%Z. change (ity_max USize) with (2 ^ 64 - 1)%Z. lia.
Qed.

Lemma chk_u128 prof x : (0 <= x < 2 ^ 128)%Z -> chk prof U128 x = Some x.
Proof.
  intros H. apply chk_in. unfold in_ity.
  change (ity_min U128) with 0%Z. change (ity_max U128) with (2 ^ 128 - 1)%Z. lia.
Qed.

Lemma chk_i128 prof x : (- 2 ^ 127 <= x < 2 ^ 127)%Z -> chk prof I128 x = Some x.
Proof.
  intros H. apply chk_in. unfold in_ity.
  change (ity_min I128) with (- 2 ^ 127)%Z. change (ity_max I128) with (2 ^ 127 - 1)%Z. lia.
Qed.

(** a usize subtraction that underflows: debug panics, release wraps *)
Lemma chk_usize_neg prof x : (- 2 ^ 64 <= x < 0)%Z ->
  chk prof USize x = match prof with Debug => None | Release => Some (2 ^ 64 + x)%Z end.
Proof.
  intros H. unfold chk, in_ity.
  change (ity_min USize) with 0%Z. change (ity_max USize) with (2 ^ 64 - 1)%Z.
  replace ((0 <=? x)%Z && (x <=? 2 ^ 64 - 1)%Z) with false by lia.
  destruct prof; [reflexivity|]. f_equal. unfold wrap_ity.
  change (ity_signed USize) with false. change (ity_bits USize) with 64%Z. cbn [andb]. lia.
Qed.

Lemma cast_usize_i8 h : (-128 <= h <= 127)%Z -> Z.to_N (cast USize h) = have_usize h.
Proof.
  intros H. unfold cast, wrap_ity, have_usize.
  change (ity_signed USize) with false. change (ity_bits USize) with 64%Z. cbn [andb].
  destruct (Z.ltb_spec h 0); lia.
Qed.

Lemma cast_u64_id x : (0 <= x < 2 ^ 64)%Z -> cast U64 x = x.
Proof.
  intros H. unfold cast, wrap_ity.
  change (ity_signed U64) with false. change (ity_bits U64) with 64%Z. cbn [andb]. lia.
Qed.

Lemma cast_i8_id x : (-128 <= x <= 127)%Z -> cast I8 x = x.
Proof.
  intros H. unfold cast, wrap_ity.
  change (ity_signed I8) with true. change (ity_bits I8) with 8%Z. cbn [andb].
  change (2 ^ (8 - 1))%Z with 128%Z. change (2 ^ 8)%Z with 256%Z.
  destruct (Z.leb_spec 128 (x mod 256)); lia.
Qed.

Lemma cast_i128_id x : (- 2 ^ 127 <= x < 2 ^ 127)%Z -> cast I128 x = x.
Proof.
  intros H. unfold cast, wrap_ity.
  change (ity_signed I128) with true. change (ity_bits I128) with 128%Z. cbn [andb].
  change (2 ^ (128 - 1))%Z with (2 ^ 127)%Z.
  destruct (Z.leb_spec (2 ^ 127) (x mod 2 ^ 128)); lia.
Qed.

(** `p as u128` for an i128 [p] *)
Lemma cast_u128_i128 p : (- 2 ^ 127 <= p < 2 ^ 127)%Z ->
  cast U128 p = (if p <? 0 then p + 2 ^ 128 else p)%Z.
Proof.
  intros H. unfold cast, wrap_ity.
  change (ity_signed U128) with false. change (ity_bits U128) with 128%Z. cbn [andb].
  destruct (Z.ltb_spec p 0); lia.
Qed.

Lemma obsc_panics_OC o : obsc_panics (OC o) = obs_panics o.
Proof. destruct o as [r|r out|p]; try reflexivity; destruct r; reflexivity. Qed.

Lemma existsb_obsc_map l : existsb obsc_panics (map OC l) = existsb obs_panics l.
Proof.
  induction l as [|o l IH]; [reflexivity|].
  cbn [map existsb]. rewrite obsc_panics_OC, IH. reflexivity.
Qed.

(** * operations: for ARBITRARY block producers *)
Section Ops.
  Variable prof : profile.
  Variable refill1 : chacha -> list N * chacha.
  Variable refill4 : chacha -> list N * chacha.

  (** [self.have] holds an i8 *)
  Definition have_i8 (b : buffer) : Prop := (-128 <= b_have b <= 127)%Z.

  (** :44 `self.have += 64` is only executed when [have < 0]: it cannot overflow for ANY i8 *)
  Lemma lazy_fill_chk_eq b : have_i8 b ->
    lazy_fill_chk prof refill1 b = Some (lazy_fill refill1 b) /\ have_i8 (lazy_fill refill1 b).
  Proof.
    unfold have_i8. intros H. unfold lazy_fill_chk, lazy_fill.
    destruct (Z.ltb_spec (b_have b) 0) as [Hneg|Hnn]; [|split; [reflexivity | exact H]].
    destruct (refill1 (b_state b)) as [o s'].
    change (cast I8 64) with 64%Z. rewrite chk_i8 by lia.
    split; [reflexivity | cbn [b_have]; lia].
  Qed.

  Lemma chunks_le f : forall l, Forall (fun dd : list N => (length dd <= 64)%nat) (chunks 64 f l).
  Proof.
    induction f as [|f IH]; intros l; [constructor|].
    destruct l as [|x l]; [constructor|]. cbn [chunks]. constructor; [|apply IH].
    apply firstn_le_length.
  Qed.

  (** :86 `BLOCK - dd.len()`: a chunk of `chunks_mut(BLOCK)` has at most BLOCK bytes *)
  Lemma tail_loop_chk_eq cs : forall s out h,
    Forall (fun dd : list N => (length dd <= 64)%nat) cs ->
    tail_loop_chk prof refill1 cs s out h = Some (tail_loop refill1 cs s out h).
  Proof.
    induction cs as [|dd r IH]; intros s out h HF; [reflexivity|].
    inversion HF as [|? ? Hd Hr]; subst.
    cbn [tail_loop_chk tail_loop]. destruct (refill1 s) as [o s'].
    rewrite chk_usize by lia.
    replace (Z.to_N (64 - Z.of_nat (length dd))) with (64 - N.of_nat (length dd)) by lia.
    rewrite (IH s' o _ Hr).
    destruct (tail_loop refill1 r s' o (64 - N.of_nat (length dd))) as [[[s'' out'] have'] rest].
    reflexivity.
  Qed.

  Lemma tail_loop_have_le cs : forall s out h, h <= 64 ->
    snd (fst (tail_loop refill1 cs s out h)) <= 64.
  Proof.
    induction cs as [|dd r IH]; intros s out h Hh; [exact Hh|].
    cbn [tail_loop]. destruct (refill1 s) as [o s'].
    specialize (IH s' o (64 - N.of_nat (length dd)) ltac:(lia)).
    destruct (tail_loop refill1 r s' o (64 - N.of_nat (length dd))) as [[[s'' out'] have'] rest].
    exact IH.
  Qed.

  (** the body: :53 `data.len() - have_ready` and :67 `have -= have_ready` are guarded by the
      `min`; :54 by `datalen < 2^64`; :63 `BLOCK - have` panics in BOTH profiles exactly when
      [64 < have] (debug: subtraction overflow, release: slice start 2^64 + 64 - have > 64),
      which is the unconditional panic of Model/ChaChaStream.v; :88 `have as i8` is exact
      because [have <= 64] there *)
  Lemma apply_body_chk_eq wide b data :
    N.of_nat (length data) < 2 ^ 64 -> have_i8 b ->
    apply_body_chk prof refill1 refill4 wide b data = apply_body refill1 refill4 wide b data.
  Proof.
    unfold have_i8. intros Hn Hh. unfold apply_body_chk, apply_body. cbv zeta.
    rewrite (cast_usize_i8 _ Hh).
    assert (Hhave : have_usize (b_have b) < 2 ^ 64)
      by (unfold have_usize; destruct (Z.ltb_spec (b_have b) 0); lia).
    set (have := have_usize (b_have b)) in *.
    set (dl := N.of_nat (length data)) in *.
    assert (Hmin : N.min have dl <= dl /\ N.min have dl <= have) by lia.
    set (hr := N.min have dl) in *.
    rewrite (chk_usize prof (Z.of_N dl - Z.of_N hr)) by lia.
    rewrite cast_u64_id by lia.
    replace (Z.to_N (Z.of_N dl - Z.of_N hr)) with (dl - hr) by lia.
    assert (Hdlen : dl - hr < 2 ^ 64) by lia.
    set (datalen := dl - hr) in *.
    assert (Ebn : (Z.of_N (datalen / 64) + (if (datalen mod 64 =? 0)%N then 0 else 1))%Z
                  = Z.of_N (datalen / 64 + (if datalen mod 64 =? 0 then 0 else 1))).
    { destruct (datalen mod 64 =? 0); lia. }
    rewrite Ebn.
    assert (Hbn : datalen / 64 + (if datalen mod 64 =? 0 then 0 else 1) < 2 ^ 64).
    { destruct (datalen mod 64 =? 0); lia. }
    set (bn := datalen / 64 + (if datalen mod 64 =? 0 then 0 else 1)) in *.
    rewrite chk_u64 by lia. rewrite N2Z.id.
    destruct ((b_len b <? bn) && negb (b_fresh b)); [reflexivity|].
    replace (dl <? hr) with false by lia.
    destruct (N.ltb_spec 64 have) as [Hbig|Hsmall].
    - (* 64 < have: both profiles panic *)
      rewrite chk_usize_neg by lia. destruct prof; [reflexivity|].
      replace (64 <? Z.to_N (2 ^ 64 + (64 - Z.of_N have))) with true by lia. reflexivity.
    - rewrite (chk_usize prof (64 - Z.of_N have)) by lia.
      replace (Z.to_N (64 - Z.of_N have)) with (64 - have) by lia.
      replace (64 <? 64 - have) with false by lia.
      rewrite (chk_usize prof (Z.of_N have - Z.of_N hr)) by lia.
      replace (Z.to_N (Z.of_N have - Z.of_N hr)) with (have - hr) by lia.
      destruct (wide_loop refill4 _ (b_state b) (skipn (N.to_nat hr) data)) as [s2 out_w].
      rewrite tail_loop_chk_eq by apply chunks_le.
      match goal with |- context [tail_loop refill1 ?cs ?s ?o ?h] =>
        pose proof (tail_loop_have_le cs s o h ltac:(lia)) as Hle;
        destruct (tail_loop refill1 cs s o h) as [[[s3 outb] have3] out_t] end.
      cbn [fst snd] in Hle. rewrite cast_i8_id by lia. reflexivity.
  Qed.

  Lemma apply_core_chk_eq wide b data :
    N.of_nat (length data) < 2 ^ 64 -> have_i8 b ->
    apply_core_chk prof refill1 refill4 wide b data = apply_core refill1 refill4 wide b data.
  Proof.
    intros Hn Hh. unfold apply_core_chk, apply_core.
    destruct (lazy_fill_chk_eq b Hh) as [E Hh']. rewrite E.
    apply apply_body_chk_eq; assumption.
  Qed.

  (** [ChaChaAny::try_apply_keystream] for every buffer whose [have] is an i8 *)
  Theorem try_apply_chk_eq is12 b data :
    N.of_nat (length data) < 2 ^ 64 -> have_i8 b ->
    try_apply_chk prof refill1 refill4 is12 b data = try_apply refill1 refill4 is12 b data.
  Proof.
    intros Hn Hh. unfold try_apply_chk, try_apply.
    rewrite (apply_core_chk_eq true b data Hn Hh). reflexivity.
  Qed.

  (** :98, :108 `-((ct % 64) as i8)`: the operand is in 0..63 *)
  Lemma neg_offset_chk_eq ct : neg_offset_chk prof ct = Some (- Z.of_N (ct mod 64))%Z.
  Proof.
    unfold neg_offset_chk. assert (H : ct mod 64 < 64) by (apply N.mod_lt; lia).
    rewrite cast_i8_id by lia. apply chk_i8. lia.
  Qed.

  (** [try_seek] from EVERY buffer, every argument: :107 `SMALL_LEN - blockct` is guarded by the
      assert!, :242 `SMALL_LEN * BLOCK64` is the constant 2^38 *)
  Theorem try_seek_chk_eq is12 b pos :
    try_seek_chk prof is12 b pos = try_seek is12 b pos.
  Proof.
    unfold try_seek_chk, try_seek.
    destruct ((pos <? 0)%Z || (2 ^ 64 <=? pos)%Z) eqn:E0; [reflexivity|].
    destruct is12; cbn [andb].
    - rewrite chk_u64 by lia.
      replace (2 ^ 32 * 64 <? Z.of_N (Z.to_N pos))%Z with (2 ^ 38 <? Z.to_N pos) by lia.
      destruct (2 ^ 38 <? Z.to_N pos); [reflexivity|].
      unfold seek32b_chk, seek32b.
      destruct ((Z.to_N pos / 64 <? 2 ^ 32) || (Z.to_N pos / 64 =? 2 ^ 32) && (Z.to_N pos mod 64 =? 0)) eqn:Ea;
        [|reflexivity].
      rewrite chk_u64 by lia. rewrite neg_offset_chk_eq.
      replace (Z.to_N (2 ^ 32 - Z.of_N (Z.to_N pos / 64))) with (2 ^ 32 - Z.to_N pos / 64) by lia.
      reflexivity.
    - unfold seek64b_chk, seek64b. rewrite neg_offset_chk_eq. reflexivity.
  Qed.

  (** [try_current_pos]: :236 `total - left` needs [len <= total] - here, and only here, the
      invariant of the wrapper is needed *)
  Definition len_le_total (is12 : bool) (b : buffer) : Prop :=
    b_fresh b = false -> b_len b <= nblocks is12.

  Theorem try_current_pos_chk_eq is12 b tmax : have_i8 b -> len_le_total is12 b ->
    try_current_pos_chk prof is12 b tmax = PosRet (try_current_pos is12 b tmax).
  Proof.
    unfold have_i8, len_le_total, nblocks. intros Hh Hl.
    unfold try_current_pos_chk, try_current_pos.
    change (cast U128 (1 * 2 ^ 64)) with (2 ^ 64)%Z.
    set (total := (if is12 then 2 ^ 32 else 2 ^ 64)%Z).
    assert (Ht : (0 < total <= 2 ^ 64)%Z) by (unfold total; destruct is12; lia).
    set (left := if b_fresh b then total else Z.of_N (b_len b)).
    assert (Hleft : (0 <= left <= total)%Z).
    { unfold left. destruct (b_fresh b); [lia|]. specialize (Hl eq_refl).
      unfold total. destruct is12; lia. }
    rewrite (chk_u128 prof (total - left)) by lia.
    rewrite (chk_u128 prof ((total - left) * 64)) by lia.
    rewrite cast_i128_id by lia.
    rewrite chk_i128 by lia.
    rewrite cast_u128_i128 by lia. reflexivity.
  Qed.

  (** one operation *)
  Theorem step_chk_eq is12 b o : have_i8 b -> len_le_total is12 b -> op_ok o ->
    step_chk prof refill1 refill4 is12 b o
    = (fst (step refill1 refill4 is12 b o), OC (snd (step refill1 refill4 is12 b o))).
  Proof.
    intros Hh Hl Hok. destruct o as [p|data|tmax]; cbn [step_chk step].
    - rewrite try_seek_chk_eq. destruct (try_seek is12 b p) as [r b']. reflexivity.
    - cbn [op_ok] in Hok. rewrite (try_apply_chk_eq is12 b data Hok Hh).
      destruct (try_apply refill1 refill4 is12 b data) as [[r b'] out]. reflexivity.
    - rewrite (try_current_pos_chk_eq is12 b tmax Hh Hl). reflexivity.
  Qed.
End Ops.

(** * reachable states satisfy the two side conditions *)
Lemma reachable_have_i8 blk is12 s0 b pos : reachable blk is12 s0 b pos -> have_i8 b.
Proof.
  intros (HC & Hlo & _). destruct HC as [_ Hhave _ _ _ _ _]. unfold have_i8. lia.
Qed.

Lemma reachable_len_le_total blk is12 s0 b pos : reachable blk is12 s0 b pos -> len_le_total is12 b.
Proof.
  intros (HC & _ & _). destruct HC as [_ _ Hleft _ _ _ _]. unfold len_le_total. intros Hf.
  unfold left in Hleft. rewrite Hf in Hleft. exact Hleft.
Qed.

(** * histories *)
Section Hist.
  Variable prof : profile.
  Variables (refill1 refill4 : chacha -> list N * chacha) (blk : chacha -> list N).
  Variables (is12 : bool) (s0 : chacha).
  Hypothesis HS : stream_init is12 s0.
  Hypothesis HP : producers_spec refill1 refill4 blk s0.
  Set Default Proof Using "All".

  (** every operation on every reachable state: no new panic branch, same result, same buffer *)
  Theorem step_chk_reachable b pos o : reachable blk is12 s0 b pos -> op_ok o ->
    step_chk prof refill1 refill4 is12 b o
    = (fst (step refill1 refill4 is12 b o), OC (snd (step refill1 refill4 is12 b o))).
  Proof.
    intros HR Hok. apply step_chk_eq;
      [exact (reachable_have_i8 _ _ _ _ _ HR) | exact (reachable_len_le_total _ _ _ _ _ HR) | exact Hok].
  Qed.

  Theorem run_chk_eq ops : forall b pos, reachable blk is12 s0 b pos -> Forall op_ok ops ->
    run_chk prof refill1 refill4 is12 b ops = map OC (run refill1 refill4 is12 b ops).
  Proof.
    induction ops as [|o r IH]; intros b pos HR Hok; [reflexivity|].
    inversion Hok as [|? ? Ho Hr]; subst.
    cbn [run_chk run]. rewrite (step_chk_reachable b pos o HR Ho).
    pose proof (step_reachable _ _ _ _ _ HS HP b pos o HR Ho) as HR'.
    destruct (step refill1 refill4 is12 b o) as [b' ob]. cbn [fst snd map] in *.
    rewrite (IH b' _ HR' Hr). reflexivity.
  Qed.

  Theorem run_chk_new ops : Forall op_ok ops ->
    run_chk prof refill1 refill4 is12 (new_buffer is12 s0) ops
      = map OC (spec_run blk is12 s0 0 ops)
    /\ existsb obsc_panics (run_chk prof refill1 refill4 is12 (new_buffer is12 s0) ops) = false.
  Proof.
    intros Hok.
    pose proof (run_chk_eq ops _ 0 (new_reachable _ _ _ _ _ HS HP) Hok) as E.
    destruct (stream_history_correct _ _ _ _ _ HS HP ops Hok) as [E1 E2].
    split.
    - rewrite E, E1. reflexivity.
    - rewrite E, existsb_obsc_map. exact E2.
  Qed.
End Hist.

(** * the seven cipher types, real block producers, both build profiles *)
Section Real.
  Variables (prof : profile) (v : variant) (drounds : nat) (key nonce : list N).
  Hypothesis Hk : Forall is_byte key.
  Hypothesis Hkl : length key = 32%nat.
  Hypothesis Hn : Forall is_byte nonce.
  Hypothesis Hnl : length nonce = (match v with VDjb => 8 | VIetf => 12 | VX => 24 end)%nat.
  Set Default Proof Using "All".

  Let HS : stream_init (is12_of v) (init_of v drounds key nonce) := stream_init_of v drounds key nonce Hn Hnl.
  Let HP : producers_spec (real_refill1 drounds) (real_refill4 drounds) (fun s => fst (refill s drounds))
             (init_of v drounds key nonce) :=
    real_producers_wf drounds _ (init_of_wf v drounds key nonce Hk Hkl Hn Hnl).

  Theorem m_run_chk_eq ops : Forall op_ok ops ->
    m_run_chk prof v drounds key nonce ops = map OC (m_run v drounds key nonce ops).
  Proof.
    intros Hok. unfold m_run_chk, m_run, m_new.
    exact (run_chk_eq prof _ _ _ _ _ HS HP ops _ 0 (new_reachable _ _ _ _ _ HS HP) Hok).
  Qed.

  Theorem m_run_chk_no_panic ops : Forall op_ok ops ->
    existsb obsc_panics (m_run_chk prof v drounds key nonce ops) = false.
  Proof.
    intros Hok. rewrite (m_run_chk_eq ops Hok), existsb_obsc_map.
    exact (proj2 (real_history_correct v drounds key nonce ops Hk Hkl Hn Hnl Hok)).
  Qed.

  Theorem m_run_chk_correct ops : Forall op_ok ops ->
    m_run_chk prof v drounds key nonce ops
      = map OC (spec_run (fun s => fst (refill s drounds)) (is12_of v) (init_of v drounds key nonce) 0 ops)
    /\ existsb obsc_panics (m_run_chk prof v drounds key nonce ops) = false.
  Proof.
    intros Hok. split; [|exact (m_run_chk_no_panic ops Hok)].
    rewrite (m_run_chk_eq ops Hok).
    rewrite (proj1 (real_history_correct v drounds key nonce ops Hk Hkl Hn Hnl Hok)). reflexivity.
  Qed.
End Real.

(** * the checks are live: on states the wrapper can NOT reach the new branches are taken,
      and the two profiles differ (so the theorems above are not true by construction) *)
Definition dummy_refill (s : chacha) : list N * chacha := (repeat 0 64, s).
Definition dummy_state : chacha := CC [0; 0; 0; 0] [0; 0; 0; 0] [0; 0; 0; 0].

(** [len = 2^32 + 1 > total] in the 12-byte-nonce layout: `total - left` overflows - debug
    panics, release returns a wrapped position *)
Example chk_live_current_pos :
  let b := Buf dummy_state (repeat 0 64) 0 (2 ^ 32 + 1) false in
  try_current_pos_chk Debug true b (2 ^ 128 - 1) = PosPanic
  /\ try_current_pos_chk Release true b (2 ^ 128 - 1) = PosRet (Some (2 ^ 128 - 64)%Z)
  /\ ~ len_le_total true b.
Proof.
  cbv zeta. split; [vm_compute; reflexivity | split; [vm_compute; reflexivity |]].
  unfold len_le_total, nblocks. cbn [b_fresh b_len]. intros H. specialize (H eq_refl). lia.
Qed.

(** [have = 100 > 64]: `BLOCK - have` - debug: overflow check, release: slice start out of range *)
Example chk_live_block_minus_have :
  let b := Buf dummy_state (repeat 0 64) 100 5 false in
  fst (fst (apply_body_chk Debug dummy_refill dummy_refill true b [1; 2; 3])) = RPanic
  /\ fst (fst (apply_body_chk Release dummy_refill dummy_refill true b [1; 2; 3])) = RPanic
  /\ chk Debug USize (64 - 100) = None /\ chk Release USize (64 - 100) = Some (2 ^ 64 - 36)%Z.
Proof.
  cbv zeta. split; [vm_compute; reflexivity | split; [vm_compute; reflexivity | split; vm_compute; reflexivity]].
Qed.

(** an i8 addition / negation that would overflow is caught in debug, wrapped in release *)
Example chk_live_i8 :
  chk Debug I8 (64 + 64) = None /\ chk Release I8 (64 + 64) = Some (-128)%Z
  /\ chk Debug I8 (- -128) = None /\ chk Release I8 (- -128) = Some (-128)%Z
  /\ cast I8 200 = (-56)%Z /\ cast USize (-1) = (2 ^ 64 - 1)%Z.
Proof. repeat (split; [vm_compute; reflexivity|]). vm_compute; reflexivity. Qed.

(** * the profile-explicit model runs: a concrete IETF history with the real ChaCha20 producers
      (seek to 3 bytes before the end, 4-byte apply -> Err, position, 3-byte apply, position = 2^38,
      1-byte apply -> Err, seek past the end -> Err, mid-block seek, 300-byte apply through the
      buffered / wide / tail paths, position), executed in both profiles by [vm_compute] *)
Definition chk_ex_key : list N := map N.of_nat (seq 1 32).
Definition chk_ex_nonce : list N := [0; 0; 0; 9; 0; 0; 0; 74; 0; 0; 0; 0].
Definition chk_ex_ops : list op :=
  [OSeek (2 ^ 38 - 3); OApply [1; 2; 3; 4]; OPos (2 ^ 64 - 1); OApply [1; 2; 3]; OPos (2 ^ 64 - 1);
   OApply [7]; OSeek (2 ^ 38 + 1); OSeek 10; OApply (repeat 0xAA 300); OPos (2 ^ 64 - 1)].
Definition chk_shape (o : obsc) : result * Z :=
  match o with
  | OC (ObsSeek r) => (r, 0%Z)
  | OC (ObsApply r out) => (r, Z.of_nat (length out))
  | OC (ObsPos (Some z)) => (ROk, z)
  | OC (ObsPos None) => (RErr, (-1)%Z)
  | OCPosPanic => (RPanic, (-1)%Z)
  end.

Example chk_example_history :
  m_run_chk Debug VIetf 10 chk_ex_key chk_ex_nonce chk_ex_ops
    = map OC (m_run VIetf 10 chk_ex_key chk_ex_nonce chk_ex_ops)
  /\ m_run_chk Release VIetf 10 chk_ex_key chk_ex_nonce chk_ex_ops
    = m_run_chk Debug VIetf 10 chk_ex_key chk_ex_nonce chk_ex_ops
  /\ map chk_shape (m_run_chk Debug VIetf 10 chk_ex_key chk_ex_nonce chk_ex_ops)
     = [(ROk, 0); (RErr, 4); (ROk, 2 ^ 38 - 3); (ROk, 3); (ROk, 2 ^ 38); (RErr, 1); (RErr, 0);
        (ROk, 0); (ROk, 300); (ROk, 310)]%Z.
Proof. split; [vm_compute; reflexivity | split; [vm_compute; reflexivity | vm_compute; reflexivity]]. Qed.
