(** The (back end, type, operation) triples the audit named as having no composed statement,
    as instances of the wide theorems, each also evaluated on a concrete operand. *)
From Coq Require Import NArith List Lia Bool Arith.
From CC Require Import Lib.Words Lib.Bytes Lib.ListX Model.Intrinsics Model.PpvSse Model.PpvAvx2 Spec.Lanes
  Proofs.PpvWideLift Proofs.PpvWideSse Proofs.PpvWideAvx2 Proofs.PpvWideMove Proofs.PpvWideBytes.
From CC Require Model.PpvSoft Model.PpvSoftAssign Proofs.PpvWideTie.
Import ListNotations.
Local Open Scope N_scope.

Definition b16 : list N := [0;1;2;3;4;5;6;7;8;9;10;11;12;13;14;15].
Definition c16 : list N :=
  [0x01;0x23;0x45;0x67;0x89;0xab;0xcd;0xef;0xfe;0xdc;0xba;0x98;0x76;0x54;0x32;0x10].
Ltac wfb := split; [reflexivity|]; repeat (constructor; [unfold is_byte; lia|]); constructor.
Lemma wf_b16 : wf 16 b16. Proof. wfb. Qed.
Lemma wf_c16 : wf 16 c16. Proof. wfb. Qed.
Lemma w2 : wide16 2 [b16; c16]. Proof. split; [reflexivity|]. repeat constructor; wfb. Qed.
Lemma w4 : wide16 4 [b16; c16; c16; b16]. Proof. split; [reflexivity|]. repeat constructor; wfb. Qed.
Lemma w32 : wide32 2 [b16 ++ c16; c16 ++ b16]. Proof. split; [reflexivity|]. repeat constructor; wfb. Qed.

(** u64x4 bswap, every x86 back end (x2 forwarding of [u64x2_bswap]) *)
Example u64x4_bswap : forall s3 v, wide16 2 v ->
  concat (xn_unop (u64x2_bswap s3) v) = bytes_le 8 (v_bswap 64 (words_le 8 (concat v))).
Proof. intros s3 v Hv. exact (proj1 (proj2 (sse_wide_bswap_lanewise s3 2 v Hv))). Qed.
Example u64x4_bswap_value : forall s3,
  concat (xn_unop (u64x2_bswap s3) [b16; c16])
  = [7;6;5;4;3;2;1;0; 15;14;13;12;11;10;9;8;
     0xef;0xcd;0xab;0x89;0x67;0x45;0x23;0x01; 0x10;0x32;0x54;0x76;0x98;0xba;0xdc;0xfe].
Proof. intros s3. rewrite (u64x4_bswap s3 _ w2). vm_compute. reflexivity. Qed.

(** u64x2x2 rotate_each_word_right32 on SSE2 (s3 = false) *)
Example u64x2x2_rotr32_sse2 : forall v, wide16 2 v ->
  concat (xn_unop (u64x2_rotr false 32) v) = bytes_le 8 (v_rotr 64 32 (words_le 8 (concat v))).
Proof. intros v Hv. apply (sse_wide_u64_rotr_lanewise false 32 2 v); [cbn; tauto|exact Hv]. Qed.
Example u64x2x2_rotr32_value :
  concat (xn_unop (u64x2_rotr false 32) [b16; b16])
  = [4;5;6;7;0;1;2;3; 12;13;14;15;8;9;10;11; 4;5;6;7;0;1;2;3; 12;13;14;15;8;9;10;11].
Proof.
  assert (W : wide16 2 [b16; b16]) by (split; [reflexivity|]; repeat constructor; wfb).
  rewrite (u64x2x2_rotr32_sse2 _ W). vm_compute. reflexivity.
Qed.

(** u128x4 swap8 on SSSE3 (s3 = true: the pshufb form) *)
Example u128x4_swap8_ssse3 : forall v, wide16 4 v ->
  concat (xn_unop (u128x1_swap true 8) v) = bytes_le 16 (v_swap 8 128 (words_le 16 (concat v))).
Proof. intros v Hv. apply (sse_wide_u128_swap_is_bitgroup_swap true 8 4 v); [cbn; tauto|exact Hv]. Qed.
Example u128x4_swap8_value :
  firstn 20 (concat (xn_unop (u128x1_swap true 8) [b16; c16; c16; b16]))
  = [1;0;3;2;5;4;7;6;9;8;11;10;13;12;15;14; 0x23;0x01;0x67;0x45].
Proof. rewrite (u128x4_swap8_ssse3 _ w4). vm_compute. reflexivity. Qed.

(** u32x4x2_sse2 rotate_each_word_right16 on SSE2 (x2 of [swap16_s2]) *)
Example u32x4x2_rotr16_sse2 : forall v, wide16 2 v ->
  concat (xn_unop (u32x4_rotr false 16) v) = bytes_le 4 (v_rotr 32 16 (words_le 4 (concat v))).
Proof. intros v Hv. apply (sse_wide_u32_rotr_lanewise false 16 2 v); [cbn; tauto|exact Hv]. Qed.

(** u128x2 rotate_each_word_right7..32 *)
Example u128x2_rotr : forall k v, In k [7; 8; 11; 12; 16; 20; 24; 25; 32] -> wide16 2 v ->
  concat (xn_unop (u128x1_rotr k) v) = bytes_le 16 (v_rotr 128 k (words_le 16 (concat v))).
Proof. intros k v Hk Hv. now apply (sse_wide_u128_rotr_lanewise k 2 v). Qed.

(** u32x4x4_avx2 not / andnot / bswap (x2 of the 256-bit forms) *)
Example u32x4x4_avx2_not_andnot_bswap : forall a b, wide32 2 a -> wide32 2 b ->
  concat (xn_unop avx2_not a) = bytes_le 4 (v_not 32 (words_le 4 (concat a))) /\
  concat (xn_binop avx2_andnot a b) = bytes_le 4 (v_andnot 32 (words_le 4 (concat a)) (words_le 4 (concat b))) /\
  concat (xn_unop avx2_bswap a) = bytes_le 4 (v_bswap 32 (words_le 4 (concat a))).
Proof.
  intros a b Ha Hb. destruct (avx2_wide_bitops_lanewise 2 a b Ha Hb) as (_ & _ & _ & N & AN).
  repeat split; try assumption. now apply (avx2_wide_bswap_lanewise 2).
Qed.
Example u32x4x4_avx2_not_value :
  concat (xn_unop avx2_not [b16 ++ c16; c16 ++ b16])
  = map (fun x => 255 - x) (b16 ++ c16 ++ c16 ++ b16).
Proof.
  destruct (u32x4x4_avx2_not_andnot_bswap _ _ w32 w32) as (E & _ & _). rewrite E. vm_compute. reflexivity.
Qed.

(** [+=] on u32x4x4_sse2 through the assign macro (what ChaCha's wide rounds call), and the
    seeded slip (lane 3 uses rhs lane 2) would not give this value *)
Example u32x4x4_add_assign_value :
  PpvSoft.omapo (@concat N)
    (PpvSoftAssign.x4_binop_assign [] (PpvSoftAssign.elem_assign (PpvSoftAssign.ok2 u32x4_add))
       [b16; b16; b16; b16] [b16; c16; b16; c16])
  = PpvSoft.Ok (map (fun x => 2 * x) b16 ++ u32x4_add b16 c16 ++ map (fun x => 2 * x) b16 ++ u32x4_add b16 c16).
Proof. vm_compute. reflexivity. Qed.

(** StoreBytes of u32x4x4_sse2: big-endian read of 64 bytes *)
Example u32x4x4_read_be_value : forall s3,
  omap (fun v => firstn 3 (words_le 4 (concat v)))
       (x4_read (sse_read_be (PpvStore.bswap_of 4 s3)) (b16 ++ c16 ++ c16 ++ b16))
  = Ok [0x00010203; 0x04050607; 0x08090a0b].
Proof. intros s3. destruct s3; vm_compute; reflexivity. Qed.
