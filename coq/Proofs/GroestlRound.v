(** The register-level round functions of compressor.rs are the rounds of the
    specification, under the register layouts of Proofs/GroestlLayout.v.

    - the transposes convert between the byte string of a state / message block
      (two columns per register as loaded) and the row layouts [LA], [rows2],
      [L1024]  (symbolic conversion on 64 / 128 / 256 symbolic bytes);
    - xor with the [_mm_set_epi64x] constants is AddRoundConstant;
    - [pshufb] with the round masks followed by the ShiftRows hidden in
      [aesenclast] is ShiftBytes (P and Q, both widths), and the SubBytes of
      [aesenclast] is SubBytes;
    - the addition chain is MixBytes (Proofs/GroestlMix.v). *)
From Coq Require Import NArith List Arith Bool Lia.
From CC Require Import Lib.Words Lib.Bytes Lib.ListX Spec.AES Spec.Groestl
     Model.GroestlIntrinsics Model.Groestl Proofs.GroestlLayout Proofs.GroestlMix.
Import ListNotations.

(** * lengths *)
Lemma xor_bytes_length a b : length (xor_bytes a b) = Nat.min (length a) (length b).
Proof.
  revert b; induction a as [|x a IH]; intros [|y b]; cbn [xor_bytes length Nat.min]; try reflexivity.
  now rewrite IH.
Qed.

Lemma build_length c f : length (build c f) = 8 * c.
Proof.
  unfold build.
  assert (G : forall s n, length (flat_map (fun col => map (fun row => f row col) (seq 0 8)) (seq s n)) = 8 * n).
  { intros s n; revert s; induction n as [|n IHn]; intros s; [reflexivity|].
    change (seq s (S n)) with (s :: seq (S s) n). cbn [flat_map].
    rewrite app_length, map_length, seq_length, IHn. lia. }
  apply G.
Qed.

Lemma mix_bytes_length c st : length (mix_bytes c st) = 8 * c.
Proof.
  unfold mix_bytes.
  assert (G : forall s n, length (flat_map (fun col => mix_column (map (fun row => get st row col) (seq 0 8))) (seq s n)) = 8 * n).
  { intros s n; revert s; induction n as [|n IHn]; intros s; [reflexivity|].
    change (seq s (S n)) with (s :: seq (S s) n). cbn [flat_map].
    rewrite app_length, IHn. unfold mix_column at 1. rewrite map_length, seq_length. lia. }
  apply G.
Qed.

Lemma arc_length c rc st : length st = 8 * c -> length (add_round_constant c rc st) = 8 * c.
Proof. intros H. unfold add_round_constant. rewrite xor_bytes_length, build_length. lia. Qed.

Lemma shift_bytes_length c sg st : length (shift_bytes c sg st) = 8 * c.
Proof. apply build_length. Qed.

Lemma xor_bytes_comm a b : xor_bytes a b = xor_bytes b a.
Proof.
  revert b; induction a as [|x a IH]; intros [|y b]; cbn [xor_bytes]; try reflexivity.
  now rewrite IH, N.lxor_comm.
Qed.
Lemma xor_bytes_assoc a b c : xor_bytes (xor_bytes a b) c = xor_bytes a (xor_bytes b c).
Proof.
  revert b c; induction a as [|x a IH]; intros [|y b] [|z c]; cbn [xor_bytes]; try reflexivity.
  now rewrite IH, N.lxor_assoc.
Qed.

(** * layouts: the transposes (no arithmetic involved: pure byte movements) *)

Lemma transpose_a_layout m : length m = 64 -> transpose_a (load_x4 m) = LA m.
Proof. intros H. explode m. vm_compute. reflexivity. Qed.

(** [transpose_a] is its own inverse: from the row layout back to the byte string *)
Lemma transpose_a_back w : length w = 64 -> transpose_a (LA w) = regs_of_bytes 4 w.
Proof. intros H. explode w. vm_compute. reflexivity. Qed.

Lemma transpose_b_layout x y : length x = 64 -> length y = 64 ->
  transpose_b (LA x ++ LA y) = rows2 x y.
Proof. intros Hx Hy. explode x. explode y. vm_compute. reflexivity. Qed.

Lemma transpose_b_inv_layout p q : length p = 64 -> length q = 64 ->
  transpose_b_inv (rows2 p q) = LA p ++ LA q.
Proof. intros Hp Hq. explode p. explode q. vm_compute. reflexivity. Qed.

Lemma transpose_o_b_layout h : length h = 64 ->
  transpose_o_b (LA h) = rows2 h (repeat 0%N 64).
Proof. intros H. explode h. vm_compute. reflexivity. Qed.

Lemma transpose_o_b_inv_layout p q : length p = 64 -> length q = 64 ->
  transpose_o_b_inv (rows2 p q) = LA p.
Proof. intros Hp Hq. explode p. explode q. vm_compute. reflexivity. Qed.

Lemma transpose_layout m : length m = 128 -> transpose (load_x8 m) = L1024 m.
Proof. intros H. explode m. vm_compute. reflexivity. Qed.

Lemma transpose_inv_layout w : length w = 128 -> transpose_inv (L1024 w) = regs_of_bytes 8 w.
Proof. intros H. explode w. vm_compute. reflexivity. Qed.

(** xor of registers is xor of states *)
Lemma LA_xor a b : length a = 64 -> length b = 64 ->
  x_xor (LA a) (LA b) = LA (xor_bytes a b).
Proof. intros Ha Hb. explode a. explode b. vm_compute. reflexivity. Qed.

Lemma L1024_xor a b : length a = 128 -> length b = 128 ->
  x_xor (L1024 a) (L1024 b) = L1024 (xor_bytes a b).
Proof. intros Ha Hb. explode a. explode b. vm_compute. reflexivity. Qed.

(** the end of [tf512]: the halves of [transpose_b_inv]'s result xored pairwise, then into [cv] *)
Lemma LA_xor_halves cv p q : length p = 64 -> length q = 64 ->
  match LA p ++ LA q with
  | [p0; p1; p2; p3; p4; p5; p6; p7] =>
      let x := [mm_xor_si128 p0 p4; mm_xor_si128 p1 p5; mm_xor_si128 p2 p6; mm_xor_si128 p3 p7] in
      x_xor cv x
  | _ => []
  end = x_xor cv (LA (xor_bytes p q)).
Proof.
  intros Hp Hq. explode p. explode q.
  match goal with |- context [LA ?a ++ LA ?b] => set (l := LA a ++ LA b) end.
  vm_compute in l. subst l. cbv beta iota zeta. f_equal; try (vm_compute; reflexivity).
Qed.

Section WithSbox.
Variable S : N -> N.

(** * SubBytes and ShiftBytes *)

Lemma aesenclast_zero_key a :
  mm_aesenclast_si128 S a (mm_cvtsi64_si128 0) = map S (aes_shift_rows a).
Proof.
  unfold mm_aesenclast_si128, aes_shift_rows, mm_xor_si128, aes_shift_rows_idx.
  change (mm_cvtsi64_si128 0) with (repeat 0%N 16).
  cbn [map map2 repeat]. now rewrite !N.lxor_0_r.
Qed.

Lemma submix_unfold a :
  submix S a = mix_net mm_xor_si128 mul2 rot_x (x_map (fun x => map S (aes_shift_rows x)) a).
Proof.
  unfold submix, x_map. f_equal. apply map_ext. intros x. apply aesenclast_zero_key.
Qed.

(** [pshufb] with the round masks, then AES ShiftRows, then the S-box on every byte:
    SubBytes followed by ShiftBytes of P (low halves) and of Q (high halves) *)
Lemma shift_mask_512 u v : length u = 64 -> length v = 64 ->
  x_map (fun x => map S (aes_shift_rows x)) (x_map2 mm_shuffle_epi8 (rows2 u v) round_mask)
  = rows2 (shift_bytes 8 sigma_P512 (sub_bytes S u)) (shift_bytes 8 sigma_Q512 (sub_bytes S v)).
Proof. intros Hu Hv. explode u. explode v. vm_compute. reflexivity. Qed.

Lemma shift_mask_P1024 u : length u = 128 ->
  x_map (fun x => map S (aes_shift_rows x)) (x_map2 mm_shuffle_epi8 (L1024 u) mask1024)
  = L1024 (shift_bytes 16 sigma_P1024 (sub_bytes S u)).
Proof. intros Hu. explode u. vm_compute. reflexivity. Qed.

Lemma shift_mask_Q1024 u : length u = 128 ->
  x_map (fun x => map S (aes_shift_rows x)) (x_map2 mm_shuffle_epi8 (L1024 u) mask1024_q)
  = L1024 (shift_bytes 16 sigma_Q1024 (sub_bytes S u)).
Proof. intros Hu. explode u. vm_compute. reflexivity. Qed.

End WithSbox.

(** * AddRoundConstant *)

(** the constants of [round(i, _)] *)
Definition consts512 (i : N) : X :=
  let l0 := mm_set_epi64x FF64 (N.lxor (mul64 i O1) 0x7060504030201000) in
  let lx := mm_set_epi64x FF64 0 in
  let l7 := mm_set_epi64x (N.lxor (mul64 i O1) 0x8f9fafbfcfdfefff) 0 in
  [l0; lx; lx; lx; lx; lx; lx; l7].

Lemma arc_512 i a b : i < 10 -> length a = 64 -> length b = 64 ->
  x_xor (rows2 a b) (consts512 (N.of_nat i))
  = rows2 (add_round_constant 8 (rc_P (N.of_nat i)) a) (add_round_constant 8 (rc_Q (N.of_nat i)) b).
Proof.
  intros Hi Ha Hb. explode a. explode b.
  do 10 (destruct i as [|i]; [vm_compute; reflexivity|]). exfalso; lia.
Qed.

Lemma arc_Q1024 i a : i < 14 -> length a = 128 ->
  x_xor (L1024 a)
        (let f := mm_set1_epi64x FF64 in [f; f; f; f; f; f; f; const_q (N.of_nat i)])
  = L1024 (add_round_constant 16 (rc_Q (N.of_nat i)) a).
Proof.
  intros Hi Ha. explode a.
  do 14 (destruct i as [|i]; [vm_compute; reflexivity|]). exfalso; lia.
Qed.

(** the shape [N.lxor n 0] takes under [vm_compute] *)
Lemma lxor0_nf n : match n with 0%N => 0%N | N.pos _ => n end = n.
Proof. destruct n; reflexivity. Qed.

(** P of the wide variant xors register 0 only; the specified constant is zero elsewhere *)
Lemma arc_P1024 i a : i < 14 -> length a = 128 ->
  match L1024 a with x0 :: r => mm_xor_si128 x0 (const_p (N.of_nat i)) :: r | [] => [] end
  = L1024 (add_round_constant 16 (rc_P (N.of_nat i)) a).
Proof.
  intros Hi Ha. explode a.
  do 14 (destruct i as [|i]; [vm_compute; rewrite !lxor0_nf; reflexivity|]).
  exfalso; lia.
Qed.

(** * one round *)
Section Rounds.
Variable S : N -> N.

Lemma round_512 i a b : i < 10 -> length a = 64 -> length b = 64 ->
  Model.Groestl.round S (N.of_nat i) (rows2 a b)
  = rows2 (Spec.Groestl.round S 8 rc_P sigma_P512 (N.of_nat i) a)
          (Spec.Groestl.round S 8 rc_Q sigma_Q512 (N.of_nat i) b).
Proof.
  intros Hi Ha Hb. unfold Model.Groestl.round.
  change (x_xor (rows2 a b) _) with (x_xor (rows2 a b) (consts512 (N.of_nat i))).
  cbv zeta. rewrite arc_512 by assumption.
  rewrite submix_unfold, shift_mask_512 by (apply arc_length; assumption).
  rewrite mixnet_rows2 by apply shift_bytes_length.
  reflexivity.
Qed.

Lemma round_P1024 i a : i < 14 -> length a = 128 ->
  round_p1024 S (N.of_nat i) (L1024 a)
  = L1024 (Spec.Groestl.round S 16 rc_P sigma_P1024 (N.of_nat i) a).
Proof.
  intros Hi Ha. unfold round_p1024. cbv zeta.
  rewrite arc_P1024 by assumption.
  rewrite submix_unfold, shift_mask_P1024 by (apply arc_length; assumption).
  rewrite mixnet_L1024 by apply shift_bytes_length.
  reflexivity.
Qed.

Lemma round_Q1024 i a : i < 14 -> length a = 128 ->
  round_q1024 S (N.of_nat i) (L1024 a)
  = L1024 (Spec.Groestl.round S 16 rc_Q sigma_Q1024 (N.of_nat i) a).
Proof.
  intros Hi Ha. unfold round_q1024. cbv zeta.
  rewrite arc_Q1024 by assumption.
  rewrite submix_unfold, shift_mask_Q1024 by (apply arc_length; assumption).
  rewrite mixnet_L1024 by apply shift_bytes_length.
  reflexivity.
Qed.

Lemma spec_round_length c rc sg r st : length st = 8 * c ->
  length (Spec.Groestl.round S c rc sg r st) = 8 * c.
Proof. intros H. unfold Spec.Groestl.round. apply mix_bytes_length. Qed.

End Rounds.
