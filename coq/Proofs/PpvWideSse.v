(** C12, x86 SSE-family wide types: u32x4x2_sse2, u64x2x2_sse2, u64x4_sse2 (= x2<u64x2_sse2,G1>),
    u128x2_sse2, u32x4x4_sse2, u64x2x4_sse2, u128x4_sse2 — the soft.rs x2/x4 wrappers over the
    one-register types. COMPOSED lane theorems: the wide method of the x86 model
    ([xn_unop]/[xn_binop] of Model/PpvSse.v applied to the element method of the variant [s3])
    equals the image of the lane-wise contract (Spec/Lanes.v) applied to the flat word view of
    the wide value. [wide16 n v]: [n] well-formed 16-byte registers; statements hold for every
    [n] (n = 2: x2 types, n = 4: x4 types). *)
From Coq Require Import NArith List Lia Bool Arith.
From CC Require Import Lib.Words Lib.Bytes Lib.ListX Model.Intrinsics Model.PpvSse Spec.Lanes
  Proofs.IntrinsicsLemmas Proofs.PpvSseWords Proofs.PpvSseU128 Proofs.PpvSseSwap Proofs.PpvSseSwapAll
  Proofs.PpvWideLift.
Import ListNotations.
Local Open Scope N_scope.

Lemma in_k_ok k : In k [4; 8; 16]%nat -> (0 < k)%nat /\ (16 mod k = 0)%nat.
Proof. cbn [In]. intros H. repeat (destruct H as [<-|H]; [split; [lia|reflexivity]|]). contradiction. Qed.
Lemma k4ok : (0 < 4)%nat /\ (16 mod 4 = 0)%nat. Proof. split; [lia|reflexivity]. Qed.
Lemma k8ok : (0 < 8)%nat /\ (16 mod 8 = 0)%nat. Proof. split; [lia|reflexivity]. Qed.
Lemma k16ok : (0 < 16)%nat /\ (16 mod 16 = 0)%nat. Proof. split; [lia|reflexivity]. Qed.

(** add: u32x4x2, u32x4x4 (32-bit words); u64x2x2, u64x4, u64x2x4 (64-bit words) *)
Theorem sse_wide_add_lanewise n a b : wide16 n a -> wide16 n b ->
  concat (xn_binop u32x4_add a b)
    = bytes_le 4 (v_add 32 (words_le 4 (concat a)) (words_le 4 (concat b))) /\
  concat (xn_binop u64x2_add a b)
    = bytes_le 8 (v_add 64 (words_le 8 (concat a)) (words_le 8 (concat b))).
Proof.
  intros [La Fa] [Lb Fb]. split.
  - apply (lift_binop 4 16 (proj1 k4ok) (proj2 k4ok) u32x4_add (addw 32)); try assumption; [|congruence].
    exact sse_u32x4_add_lanewise.
  - apply (lift_binop 8 16 (proj1 k8ok) (proj2 k8ok) u64x2_add (addw 64)); try assumption; [|congruence].
    exact sse_u64x2_add_lanewise.
Qed.

(** bit operations of all seven wide types ([k] = bytes per word: 4, 8, 16) *)
Theorem sse_wide_bitops_lanewise k n a b : In k [4; 8; 16]%nat -> wide16 n a -> wide16 n b ->
  concat (xn_binop sse_xor a b) = bytes_le k (v_xor (words_le k (concat a)) (words_le k (concat b))) /\
  concat (xn_binop sse_and a b) = bytes_le k (v_and (words_le k (concat a)) (words_le k (concat b))) /\
  concat (xn_binop sse_or a b) = bytes_le k (v_or (words_le k (concat a)) (words_le k (concat b))) /\
  concat (xn_unop sse_not a) = bytes_le k (v_not (8 * N.of_nat k) (words_le k (concat a))) /\
  concat (xn_binop sse_andnot a b)
    = bytes_le k (v_andnot (8 * N.of_nat k) (words_le k (concat a)) (words_le k (concat b))).
Proof.
  intros Hk [La Fa] [Lb Fb]. destruct (in_k_ok k Hk) as [H0 Hm].
  assert (L : length a = length b) by congruence.
  pose proof (fun x y Hx Hy => sse_bitops_lanewise k Hk x y Hx Hy) as E.
  repeat split.
  - apply (lift_binop k 16 H0 Hm sse_xor N.lxor); try assumption. intros x y Hx Hy. exact (proj1 (E x y Hx Hy)).
  - apply (lift_binop k 16 H0 Hm sse_and N.land); try assumption. intros x y Hx Hy. exact (proj1 (proj2 (E x y Hx Hy))).
  - apply (lift_binop k 16 H0 Hm sse_or N.lor); try assumption. intros x y Hx Hy.
    exact (proj1 (proj2 (proj2 (E x y Hx Hy)))).
  - apply (lift_unop k 16 H0 Hm sse_not (notw (8 * N.of_nat k))); try assumption. intros x Hx.
    exact (proj1 (proj2 (proj2 (proj2 (E x x Hx Hx))))).
  - apply (lift_binop k 16 H0 Hm sse_andnot (fun x y => N.land (notw (8 * N.of_nat k) x) y)); try assumption.
    intros x y Hx Hy. exact (proj2 (proj2 (proj2 (proj2 (E x y Hx Hy))))).
Qed.

(** rotate_each_word_right<k>: u32x4x2, u32x4x4 *)
Theorem sse_wide_u32_rotr_lanewise s3 k n v :
  In k [7; 8; 11; 12; 16; 20; 24; 25] -> wide16 n v ->
  concat (xn_unop (u32x4_rotr s3 k) v) = bytes_le 4 (v_rotr 32 k (words_le 4 (concat v))).
Proof.
  intros Hk [_ F]. apply (lift_unop 4 16 (proj1 k4ok) (proj2 k4ok) (u32x4_rotr s3 k) (rotrw 32 k)); [|exact F].
  intros x Hx. now apply sse_u32x4_rotr_lanewise.
Qed.
(** u64x2x2, u64x4, u64x2x4 (RotateEachWord32 and RotateEachWord64) *)
Theorem sse_wide_u64_rotr_lanewise s3 k n v :
  In k [7; 8; 11; 12; 16; 20; 24; 25; 32] -> wide16 n v ->
  concat (xn_unop (u64x2_rotr s3 k) v) = bytes_le 8 (v_rotr 64 k (words_le 8 (concat v))).
Proof.
  intros Hk [_ F]. apply (lift_unop 8 16 (proj1 k8ok) (proj2 k8ok) (u64x2_rotr s3 k) (rotrw 64 k)); [|exact F].
  intros x Hx. now apply sse_u64x2_rotr_lanewise.
Qed.
(** u128x2, u128x4 *)
Theorem sse_wide_u128_rotr_lanewise k n v :
  In k [7; 8; 11; 12; 16; 20; 24; 25; 32] -> wide16 n v ->
  concat (xn_unop (u128x1_rotr k) v) = bytes_le 16 (v_rotr 128 k (words_le 16 (concat v))).
Proof.
  intros Hk [_ F]. apply (lift_unop 16 16 (proj1 k16ok) (proj2 k16ok) (u128x1_rotr k) (rotrw 128 k)); [|exact F].
  intros x Hx. now apply sse_u128x1_rotr_lanewise.
Qed.

(** bswap of every wide type *)
Theorem sse_wide_bswap_lanewise s3 n v : wide16 n v ->
  concat (xn_unop (u32x4_bswap s3) v) = bytes_le 4 (v_bswap 32 (words_le 4 (concat v))) /\
  concat (xn_unop (u64x2_bswap s3) v) = bytes_le 8 (v_bswap 64 (words_le 8 (concat v))) /\
  concat (xn_unop (u128x1_bswap s3) v) = bytes_le 16 (v_bswap 128 (words_le 16 (concat v))).
Proof.
  intros [_ F]. repeat split.
  - apply (lift_unop 4 16 (proj1 k4ok) (proj2 k4ok) (u32x4_bswap s3) (bswapw 32)); [|exact F].
    intros x Hx. now apply sse_u32x4_bswap_lanewise.
  - apply (lift_unop 8 16 (proj1 k8ok) (proj2 k8ok) (u64x2_bswap s3) (bswapw 64)); [|exact F].
    intros x Hx. now apply sse_u64x2_bswap_lanewise.
  - apply (lift_unop 16 16 (proj1 k16ok) (proj2 k16ok) (u128x1_bswap s3) (bswapw 128)); [|exact F].
    intros x Hx. now apply sse_u128x1_bswap_lanewise.
Qed.

(** LaneWords4 of u32x4x2 / u32x4x4 (the u32x4 method [shuffle_lane_words*] forwards to Words4) *)
Theorem sse_wide_lane_shuffle_is_perm n v : wide16 n v ->
  concat (xn_unop u32x4_shuffle1230 v) = bytes_le 4 (per_lane4 shuffle1230 (words_le 4 (concat v))) /\
  concat (xn_unop u32x4_shuffle2301 v) = bytes_le 4 (per_lane4 shuffle2301 (words_le 4 (concat v))) /\
  concat (xn_unop u32x4_shuffle3012 v) = bytes_le 4 (per_lane4 shuffle3012 (words_le 4 (concat v))).
Proof.
  intros [_ F]. repeat split; apply lift_lane_shuffle; try exact F; intros x Hx;
    destruct (sse_u32x4_shuffle_is_perm x Hx) as (E1 & E2 & E3); assumption.
Qed.

(** Swap64 of u128x2 / u128x4: every 128-bit lane has its adjacent [m]-bit groups exchanged;
    word form and bit form ([i] = lane number) *)
Theorem sse_wide_u128_swap_is_bitgroup_swap s3 m n v :
  In m [1; 2; 4; 8; 16; 32; 64] -> wide16 n v ->
  concat (xn_unop (u128x1_swap s3 m) v) = bytes_le 16 (v_swap m 128 (words_le 16 (concat v))) /\
  (forall (i : nat) j, (i < n)%nat -> j < 128 ->
     N.testbit (nth i (words_le 16 (concat (xn_unop (u128x1_swap s3 m) v))) 0) j
     = N.testbit (nth i (words_le 16 (concat v)) 0) (N.lxor j m)).
Proof.
  intros Hm [L F].
  assert (E : concat (xn_unop (u128x1_swap s3 m) v) = bytes_le 16 (v_swap m 128 (words_le 16 (concat v)))).
  { apply (lift_unop 16 16 (proj1 k16ok) (proj2 k16ok) (u128x1_swap s3 m) (swapw m 128)); [|exact F].
    intros x Hx. exact (proj1 (sse_u128x1_swap_is_bitgroup_swap s3 m x Hm Hx)). }
  split; [exact E|]. intros i j Hi Hj. rewrite E.
  destruct (concat_as_words 16 16 (proj1 k16ok) (proj2 k16ok) v F) as [_ W].
  rewrite <- (words_le_concat 16 16 (proj1 k16ok) (proj2 k16ok) v F) in W.
  assert (Ln : length (words_le 16 (concat v)) = n).
  { rewrite (words_le_concat 16 16 (proj1 k16ok) (proj2 k16ok) v F). clear -L F. subst n.
    induction F as [|x v Hx _ IH]; [reflexivity|]. cbn [map concat length].
    rewrite app_length, IH, (words_len 16 16 (proj1 k16ok) (proj2 k16ok) x Hx). reflexivity. }
  set (ws := words_le 16 (concat v)) in *.
  rewrite words_bytes_le; [|lia|].
  - unfold v_swap. rewrite (nth_indep _ 0 (swapw m 128 0)) by (rewrite map_length; lia).
    rewrite map_nth. rewrite swapw_bits; [|exact Hm|].
    + destruct (N.ltb_spec j 128); [reflexivity|lia].
    + rewrite Forall_forall in W. apply W, nth_In. lia.
  - unfold v_swap. rewrite Forall_forall in *. intros y Hy. apply in_map_iff in Hy.
    destruct Hy as [x [<- Hx]]. apply swapw_lt; [exact Hm|]. exact (W x Hx).
Qed.
