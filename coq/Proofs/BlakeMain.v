(** C04: the four BLAKE hashers of Model/Blake.v return the specified digest
    for every message (and for every way of splitting it over [update] calls). *)
From Coq Require Import NArith List Lia Arith Bool.
From CC Require Import Lib.Words Lib.Bytes Lib.ListX Model.BlockBuffer Model.Blake.
From CC Require Spec.Blake.
From CC Require Import Proofs.BlakeRounds Proofs.BlakeBuffer Proofs.BlakeSchedule.
Import ListNotations.
Module SB := Spec.Blake.

(** every block of the specified schedule is a whole block *)
Lemma schedule_block_length v k rest bt :
  0 < SB.block_bytes v ->
  In bt (SB.schedule_from v k rest) -> length (fst bt) = SB.block_bytes v.
Proof.
  intros Hb Hin. unfold SB.schedule_from in Hin. apply in_map_iff in Hin.
  destruct Hin as (i & <- & Hi). apply in_seq in Hi. cbn [fst].
  unfold SB.block_i. rewrite firstn_length, skipn_length.
  set (data := rest ++ _) in *. set (b := SB.block_bytes v) in *.
  assert (b * (i + 1) <= length data).
  { transitivity (b * (length data / b)); [apply Nat.mul_le_mono_l; lia|apply Nat.mul_div_le; lia]. }
  lia.
Qed.

Section Digest.
  Variable v : SB.variant.
  Variables (w : N) (wb : nat) (isfull : bool).
  Hypothesis Hcase : (w = 32%N /\ wb = 4) \/ (w = 64%N /\ wb = 8).
  Hypothesis Hw : SB.wbits v = w.
  Hypothesis Hwb : SB.wbytes v = wb.
  Hypothesis Hmk : SB.marker v = (if isfull then 1 else 0)%N.
  Variable put : row * row -> list N -> N * N -> row * row.
  Hypothesis put_spec : forall h blk t0 t1, h_shape h -> length blk = 16 * wb ->
    to_list (put h blk (t0, t1)) = SB.compress_v v (to_list h) (SB.block_words v blk) t0 t1
    /\ h_shape (put h blk (t0, t1)).
  Variable iv : row * row.
  Hypothesis iv_shape : h_shape iv.
  Hypothesis iv_eq : to_list iv = SB.iv v.
  Variable outbytes : nat.
  Hypothesis Hout : SB.outbytes v = outbytes.

  Lemma chain_sim sched :
    (forall bt, In bt sched -> length (fst bt) = 16 * wb) ->
    to_list (fold_left (putf w _ put) sched iv) = fold_left (SB.chain v) sched (SB.iv v)
    /\ h_shape (fold_left (putf w _ put) sched iv).
  Proof.
    intros Hl.
    apply (fold_left_sim (fun a b => to_list a = b /\ h_shape a) (putf w _ put) (SB.chain v)).
    - intros a b bt Hin [<- Sh]. unfold putf, SB.chain. rewrite (tpair_spec v w Hw).
      apply put_spec; auto.
    - split; [exact iv_eq|exact iv_shape].
  Qed.

  Lemma digest_parts_eq_spec parts :
    digest_parts put w wb isfull iv outbytes parts = Some (SB.hash v (concat parts)).
  Proof.
    unfold digest_parts.
    rewrite (hasher_schedule v w wb isfull Hcase Hw Hwb Hmk).
    f_equal. unfold SB.hash, SB.hash_state, SB.output.
    destruct (chain_sim (SB.schedule v (concat parts))) as [E _].
    { intros bt Hin. unfold SB.schedule in Hin. apply schedule_block_length in Hin.
      - rewrite Hin. unfold SB.block_bytes. now rewrite Hwb.
      - unfold SB.block_bytes. rewrite Hwb. destruct Hcase as [[_ ->]|[_ ->]]; lia. }
    rewrite <- E, Hwb, Hout. unfold compressor_finalize, to_list.
    now rewrite flat_map_app.
  Qed.

  Lemma digest_gen_eq_spec msg :
    digest_gen put w wb isfull iv outbytes msg = Some (SB.hash v msg).
  Proof.
    change (digest_gen put w wb isfull iv outbytes msg)
      with (digest_parts put w wb isfull iv outbytes [msg]).
    rewrite digest_parts_eq_spec. cbn [concat]. now rewrite app_nil_r.
  Qed.
End Digest.

(** * The four variants *)
Lemma blake256_parts_eq_spec parts :
  digest_parts put_block32 32 4 true BLAKE256_IV 32 parts = Some (SB.hash SB.blake256 (concat parts)).
Proof.
  apply digest_parts_eq_spec; try reflexivity; [now left| |split; reflexivity].
  intros h blk t0 t1 Sh Hl. apply put_block32_eq_spec; auto.
Qed.
Lemma blake224_parts_eq_spec parts :
  digest_parts put_block32 32 4 false BLAKE224_IV 28 parts = Some (SB.hash SB.blake224 (concat parts)).
Proof.
  apply digest_parts_eq_spec; try reflexivity; [now left| |split; reflexivity].
  intros h blk t0 t1 Sh Hl. apply put_block32_eq_spec; auto.
Qed.
Lemma blake512_parts_eq_spec parts :
  digest_parts put_block64 64 8 true BLAKE512_IV 64 parts = Some (SB.hash SB.blake512 (concat parts)).
Proof.
  apply digest_parts_eq_spec; try reflexivity; [now right| |split; reflexivity].
  intros h blk t0 t1 Sh Hl. apply put_block64_eq_spec; auto.
Qed.
Lemma blake384_parts_eq_spec parts :
  digest_parts put_block64 64 8 false BLAKE384_IV 48 parts = Some (SB.hash SB.blake384 (concat parts)).
Proof.
  apply digest_parts_eq_spec; try reflexivity; [now right| |split; reflexivity].
  intros h blk t0 t1 Sh Hl. apply put_block64_eq_spec; auto.
Qed.

Lemma blake256_eq_spec msg :
  (8 * N.of_nat (length msg) < 2 ^ 64)%N -> blake256 msg = Some (SB.hash SB.blake256 msg).
Proof.
  intros _. unfold blake256. apply digest_gen_eq_spec; try reflexivity; [now left| |split; reflexivity].
  intros h blk t0 t1 Sh Hl. apply put_block32_eq_spec; auto.
Qed.
Lemma blake224_eq_spec msg :
  (8 * N.of_nat (length msg) < 2 ^ 64)%N -> blake224 msg = Some (SB.hash SB.blake224 msg).
Proof.
  intros _. unfold blake224. apply digest_gen_eq_spec; try reflexivity; [now left| |split; reflexivity].
  intros h blk t0 t1 Sh Hl. apply put_block32_eq_spec; auto.
Qed.
Lemma blake512_eq_spec msg :
  (8 * N.of_nat (length msg) < 2 ^ 128)%N -> blake512 msg = Some (SB.hash SB.blake512 msg).
Proof.
  intros _. unfold blake512. apply digest_gen_eq_spec; try reflexivity; [now right| |split; reflexivity].
  intros h blk t0 t1 Sh Hl. apply put_block64_eq_spec; auto.
Qed.
Lemma blake384_eq_spec msg :
  (8 * N.of_nat (length msg) < 2 ^ 128)%N -> blake384 msg = Some (SB.hash SB.blake384 msg).
Proof.
  intros _. unfold blake384. apply digest_gen_eq_spec; try reflexivity; [now right| |split; reflexivity].
  intros h blk t0 t1 Sh Hl. apply put_block64_eq_spec; auto.
Qed.
