(** JH: one round of the bit-sliced implementation, seen on columns, is the
    round function R8 of the specification under the position map of the round. *)
From Coq Require Import NArith List Arith Bool Lia.
From CC Require Import Lib.Words Lib.Bytes Lib.ListX Model.JH.
From CC Require Spec.JH.
From CC Require Import Proofs.JHBits.
Import ListNotations.
Local Open Scope N_scope.

(** * position tables

    A position is a number t < 256: column [t mod 128] of the even (t < 128) or
    odd (t >= 128) registers.  [pos0] is the grouping of the specification
    (element 2i+p sits in column i of parity p); after round r the element that
    P8 moves to index d sits where element [P_src d] sat, except that the odd
    registers have been swapped. *)
Definition pos0 : list N := map (fun e => N.of_nat (Nat.div2 e) + (if Nat.even e then 0 else 128)) (seq 0 256).
Definition pos_next (k : nat) (pos : list N) : list N :=
  map (fun d => let t := nth (Spec.JH.P_src 8 d) pos 0 in
                if t <? 128 then t else 128 + N.lxor (t - 128) (swap_amount k)) (seq 0 256).
Fixpoint pos_tabs_from (n : nat) (k : nat) (pos : list N) : list (list N) :=
  match n with O => [] | S n' => pos :: pos_tabs_from n' (S k) (pos_next k pos) end.
Definition pos_tabs : list (list N) := Eval vm_compute in pos_tabs_from 8 0 pos0.
Lemma pos_tabs_eq : pos_tabs = pos_tabs_from 8 0 pos0.
Proof. vm_compute. reflexivity. Qed.
Definition posT (r : nat) : list N := nth r pos_tabs [].

(** period 7 *)
Lemma posT_7 : posT 7 = posT 0.
Proof. vm_compute. reflexivity. Qed.

(** inverse table: index of the element at position t *)
Definition find_pos (pos : list N) (t : N) : nat :=
  fold_left (fun acc e => if nth e pos 0 =? t then e else acc) (seq 0 256) 0%nat.
Definition inv_tabs : list (list nat) :=
  Eval vm_compute in map (fun pos => map (fun t => find_pos pos (N.of_nat t)) (seq 0 256)) pos_tabs.
Definition invT (r : nat) : list nat := nth r inv_tabs [].

(** * the column form of the state and of a round, generic in S-box and L *)
Definition elemT (cs : list (N * N)) (t : N) : N :=
  if t <? 128 then fst (nth (N.to_nat t) cs (0, 0)) else snd (nth (N.to_nat (t - 128)) cs (0, 0)).
Definition gather (pos : list N) (cs : list (N * N)) : list N := map (elemT cs) pos.

(** round-constant bits of the 256 elements, brought to columns *)
Definition kc_of (r : nat) (cb : list bool) : list (bool * bool) :=
  map (fun c => (nth (nth c (invT r) 0%nat) cb false, nth (nth (128 + c) (invT r) 0%nat) cb false)) (seq 0 128).

Section Generic.
Variable sb : bool -> N -> N.
Variable lf : N -> N -> N * N.

Definition sl_cols (cs : list (N * N)) (ks : list (bool * bool)) : list (N * N) :=
  map (fun c => let ab := nth c cs (0, 0) in let k := nth c ks (false, false) in
                lf (sb (fst k) (fst ab)) (sb (snd k) (snd ab))) (seq 0 128).
Definition swap_cols (k : nat) (s : list (N * N)) : list (N * N) :=
  map (fun c => (fst (nth c s (0, 0)),
                 snd (nth (N.to_nat (N.lxor (N.of_nat c) (swap_amount k))) s (0, 0)))) (seq 0 128).
Definition round_cols (k : nat) (cs : list (N * N)) (ks : list (bool * bool)) : list (N * N) :=
  swap_cols k (sl_cols cs ks).

Fixpoint sl_layer_g (a : list N) (c : list bool) : list N :=
  match a, c with
  | x :: y :: a', cx :: cy :: c' =>
      fst (lf (sb cx x) (sb cy y)) :: snd (lf (sb cx x) (sb cy y)) :: sl_layer_g a' c'
  | _, _ => []
  end.
Definition R_g (a : list N) (c : list bool) : list N := Spec.JH.P (sl_layer_g a c).

Lemma round_sym (r : nat) : (r < 7)%nat -> forall cs cb, length cs = 128%nat -> length cb = 256%nat ->
  R_g (gather (posT r) cs) cb = gather (posT (S r)) (round_cols r cs (kc_of r cb)).
Proof.
  intros Hr cs cb Hcs Hcb. explode cs. explode cb.
  destruct r as [|[|[|[|[|[|[|r]]]]]]]; try lia; vm_compute; reflexivity.
Qed.
End Generic.
