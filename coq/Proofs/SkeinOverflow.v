(** Beyond the bound of the position theorems: when the bytes absorbed would
    take the 64-bit position word [t.0] to 2^64 or further, the debug build
    (overflow checks) panics — during [update] if a full block crosses the
    limit, otherwise in [finalize].  Together with [msg_stage_eq_ubi] this says:
    in the debug build the message stage completes iff off + total < 2^64.
    The release build never panics (it wraps). *)
From Coq Require Import NArith List Lia Arith Bool.
From CC Require Import Lib.Words Lib.Bytes Lib.ListX.
From CC Require Import Model.Threefish Model.BlockBuffer Model.Skein.
From CC Require Import Proofs.BlockBufferLazy Proofs.SkeinBlock Proofs.SkeinSchedule.
From CC Require Spec.Threefish Spec.Skein.
Import ListNotations.
Local Open Scope N_scope.

Section Overflow.
  Variable nu : bool.
  Variable v : variant.
  Hypothesis Hv : std_variant v.
  Let nb := v_bytes v.

  Lemma full_blocks_debug_panic ty first all n : forall s,
    std_type ty ->
    st_t1 s = t1w ty first false ->
    Forall is_byte all -> (n * nb <= length all)%nat ->
    st_t0 s < 2 ^ 64 ->
    2 ^ 64 <= st_t0 s + N.of_nat (n * nb) ->
    process_blocks Debug nu v s (take_blocks nb n all) = Panic.
  Proof.
    intros s Hty Ht1 Hb. induction n as [|n IH]; intros Hlen H0 Hge.
    - cbn [mult] in Hge. lia.
    - replace (S n) with (n + 1)%nat at 1 by lia.
      rewrite take_blocks_add, process_blocks_app.
      destruct (N.lt_ge_cases (st_t0 s + N.of_nat (n * nb)) (2 ^ 64)) as [Hlt|Hge'].
      + assert (PF := process_full_blocks Debug nu v Hv ty first all n s Hty Ht1 Hb).
        fold nb in PF. rewrite PF by (try assumption; lia). clear PF.
        cbn [bind take_blocks Skein.process_blocks].
        rewrite (vf_bits v (std_variant_facts v Hv)). fold nb.
        set (blk := firstn nb (skipn (n * nb) all)).
        assert (Hbl : length blk = nb).
        { unfold blk. rewrite firstn_length, skipn_length. lia. }
        rewrite (process_block_overflow Debug nu v _ blk (N.of_nat nb) ty ((n =? 0)%nat && first) false);
          try assumption; try reflexivity; cbn [st_t0 st_t1 st_x].
        * lia.
        * unfold blk. apply Forall_firstn', Forall_skipn'. exact Hb.
      + rewrite IH by (try assumption; lia). reflexivity.
  Qed.

  Theorem msg_stage_debug_panics s b first pieces :
    bb_wf b -> bb_size b = nb ->
    st_t1 s = t1w SS.T_MSG first false ->
    Forall is_byte (bb_content b) -> Forall (Forall is_byte) pieces ->
    let all := bb_content b ++ concat pieces in
    st_t0 s < 2 ^ 64 ->
    2 ^ 64 <= st_t0 s + N.of_nat (length all) ->
    msg_stage Debug nu v (Hs s b) pieces = Panic.
  Proof.
    intros Hwf Hsz Ht1 Hbc Hbp all H0 Hge.
    assert (Hty : std_type SS.T_MSG) by (right; left; reflexivity).
    assert (Hnb : (0 < nb)%nat) by (pose proof (vf_ge v (std_variant_facts v Hv)); unfold nb; lia).
    assert (Hball : Forall is_byte all).
    { apply Forall_app; split; [assumption|].
      clear -Hbp. induction Hbp as [|x l Hx Hl IH]; cbn [concat]; [constructor|].
      apply Forall_app. split; assumption. }
    rewrite msg_stage_concat by exact Hwf.
    rewrite update_unfold. cbn [h_state h_buffer].
    destruct (input_lazy_char b (concat pieces) Hwf) as (Ho & Hs' & Hp & Hc).
    rewrite Hsz in *. fold all in Ho, Hp, Hc.
    set (n := lazy_count nb (length all)) in *.
    destruct (lazy_count_bounds nb (length all) Hnb) as (B1 & B2 & B3). fold n in B1, B2, B3.
    rewrite Ho.
    destruct (N.lt_ge_cases (st_t0 s + N.of_nat (n * nb)) (2 ^ 64)) as [Hlt|Hge'].
    - assert (PF := process_full_blocks Debug nu v Hv SS.T_MSG first all n s Hty Ht1 Hball).
      fold nb in PF. rewrite PF by (try assumption; lia). clear PF.
      cbn [bind]. unfold Skein.finalize_message. cbn [h_state h_buffer st_t0 st_t1 st_x].
      set (b' := fst (input_lazy b (concat pieces))) in *.
      assert (Hwf' : bb_wf b') by (unfold bb_wf; rewrite Hs', Hp; lia).
      rewrite (pad_with_zero_char b' Hwf'). rewrite Hs', Hp, Hc.
      rewrite t1w_set_final by assumption.
      set (blk := skipn (n * nb) all ++ repeat 0 (nb - (length all - n * nb))).
      assert (Hbl : length blk = nb).
      { unfold blk. rewrite app_length, skipn_length, repeat_length. lia. }
      rewrite (process_block_overflow Debug nu v _ blk _ SS.T_MSG ((n =? 0)%nat && first) true);
        try assumption; try reflexivity; cbn [st_t0 st_t1 st_x].
      + lia.
      + unfold blk. apply Forall_app. split; [apply Forall_skipn'; exact Hball|].
        apply Forall_forall. intros x Hx. apply repeat_spec in Hx. subst x. unfold is_byte. lia.
    - assert (PP := full_blocks_debug_panic SS.T_MSG first all n s Hty Ht1 Hball).
      rewrite PP by (try assumption; lia). reflexivity.
  Qed.

  (** the release build never panics in [update]/[finalize] *)
  Lemma process_block_release_ok s block add :
    exists s', process_block Release nu v s block add = Ok s'.
  Proof.
    unfold process_block, add_u64. destruct (two64 <=? st_t0 s + add); cbn [bind]; eexists; reflexivity.
  Qed.

  Lemma process_blocks_release_ok blocks : forall s,
    exists s', process_blocks Release nu v s blocks = Ok s'.
  Proof.
    induction blocks as [|blk r IH]; intros s; cbn [Skein.process_blocks]; [eexists; reflexivity|].
    destruct (process_block_release_ok s blk (v_bits v / 8)) as [s1 ->]. cbn [bind]. apply IH.
  Qed.

  Theorem msg_stage_release_total h pieces :
    bb_wf (h_buffer h) -> exists r, msg_stage Release nu v h pieces = Ok r.
  Proof.
    intros Hwf. unfold msg_stage.
    assert (W := updates_wf Release nu v pieces h Hwf).
    assert (U : exists h', updates Release nu v h pieces = Ok h').
    { clear W. revert h Hwf. induction pieces as [|pc r IH]; intros h Hwf; cbn [Skein.updates];
        [eexists; reflexivity|].
      assert (W1 := update_wf Release nu v h pc Hwf).
      rewrite update_unfold in *.
      destruct (process_blocks_release_ok (snd (input_lazy (h_buffer h) pc)) (h_state h)) as [s1 E1].
      rewrite E1 in *. cbn [bind rwf] in *. apply IH. exact W1. }
    destruct U as [h' E]. rewrite E in *. cbn [bind rwf] in *.
    unfold Skein.finalize_message. rewrite (pad_with_zero_char _ W).
    destruct (process_block_release_ok
                (St (st_t0 (h_state h')) (N.lor (st_t1 (h_state h')) T1_FLAG_FINAL) (st_x (h_state h')))
                (bb_content (h_buffer h') ++ repeat 0 (bb_size (h_buffer h') - bb_pos (h_buffer h')))
                (N.of_nat (bb_pos (h_buffer h')))) as [s2 E2].
    rewrite E2. cbn [bind]. eexists; reflexivity.
  Qed.
End Overflow.
